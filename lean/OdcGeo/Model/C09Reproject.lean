/-
C09 × C11 — the public reprojection entry points from their arguments to their result:
`xr_reproject(src, how, …)` / `.odc.reproject(how, …)` (_xr_interop.py:588-672), `_xr_reproject_da`
(729-820), `_xr_reproject_ds` (684-726), `ODCExtension.output_geobox` (861-871).

`how` is either a `GeoBox` (used as the destination) or a CRS, in which case the destination is what
`compute_output_geobox` (model: `C11.computeOutputAny`, Model/C11.lean + Model/C11Glue.lean) computes for
the **recovered** GeoBox of the source with the grid options that travel through
`xr_reproject`'s named parameters → the `kw` dict → `_extract_output_geobox_params` → `output_geobox(**kw)`.
What pyproj contributes (`Proj`) is captured from the real run, exactly as for C11.
Core Lean only.
-/
import OdcGeo.Model.C09
import OdcGeo.Model.C11Glue
namespace OdcGeo.C09
open OdcGeo

/-- a keyword value travelling through `**kw` -/
inductive KwVal where
  | res (r : C11.ResArg)
  | shape (s : C11.ShapeReq)
  | flag (b : Bool)
  | anchor (a : C11.Anchor)
  | num (r : Rat)
  | rnd (r : C11.Rounding)
  /-- Python `None` -/
  | none
  /-- anything else (`resampling="nearest"`, `num_threads=2`, …) -/
  | opaque (s : String)
  deriving DecidableEq, Repr

/-- the `kw` dict `xr_reproject` builds (657-665): its six named grid parameters, **always** present with
their defaults when the caller did not pass them, followed by the caller's other keywords. -/
def xrReprojectKw (a : C11.GridArgs) (extra : List (String × KwVal)) : List (String × KwVal) :=
  [("shape", match a.shape with | some s => .shape s | none => .none),
   ("resolution", .res (a.resolution.getD (.str "auto"))),
   ("tight", .flag (a.tight.getD false)),
   ("anchor", .anchor (a.anchor.getD .dflt)),
   ("tol", .num (a.tol.getD C11.tolDefault)),
   ("round_resolution", match a.rnd with | some r => .rnd r | none => .none)] ++ extra

/-- binding of `compute_output_geobox(gbox, crs, **kw_gbox)`: a key that is present gives its value —
whatever it is — to the parameter of that name; an absent key leaves the parameter's default.
A value of a Python type the parameter cannot take is outside this model (`none` result). -/
def bindGridArgs (kw : List (String × KwVal)) : Option C11.GridArgs := do
  let resolution ← match kw.lookup "resolution" with
    | Option.none => some Option.none
    | some (.res r) => some (some r)
    | some _ => Option.none
  let shape ← match kw.lookup "shape" with
    | Option.none => some Option.none
    | some (.shape s) => some (some s)
    | some .none => some (some C11.ShapeReq.none)
    | some _ => Option.none
  let tight ← match kw.lookup "tight" with
    | Option.none => some Option.none
    | some (.flag b) => some (some b)
    | some _ => Option.none
  let anchor ← match kw.lookup "anchor" with
    | Option.none => some Option.none
    | some (.anchor a) => some (some a)
    | some _ => Option.none
  let tol ← match kw.lookup "tol" with
    | Option.none => some Option.none
    | some (.num t) => some (some t)
    | some _ => Option.none
  let rnd ← match kw.lookup "round_resolution" with
    | Option.none => some Option.none
    | some (.rnd r) => some (some r)
    | some .none => some (some C11.Rounding.none)
    | some _ => Option.none
  pure ⟨resolution, shape, tight, anchor, tol, rnd⟩

/-- what pyproj / shapely / numpy.linalg contribute for one (source geobox, destination CRS) pair -/
structure Proj where
  /-- `src_crs.units == dst_crs.units` -/
  sameUnits : Bool
  /-- `gbox.resolution` when the recovered box is not axis-aligned or is a GCP box (square roots) -/
  rotRes : Rat × Rat
  /-- bounding box of `gbox.footprint(crs, buffer=0.9, npoints=100)` -/
  bbox : C11.BBox
  /-- projected centre-pixel bounding box -/
  cpBBox : C11.BBox
  /-- `get_scale_at_point(...)` -/
  fitScale : Rat × Rat
  deriving DecidableEq, Repr

inductive How where
  /-- `isinstance(how, GeoBox)` -/
  | gbox (g : GeoBox)
  /-- anything else: `norm_crs(how, ctx)` resolved to CRS `c` (utm requests: C11 `normUtm`) -/
  | crs (c : Crs) (p : Proj)
  deriving DecidableEq, Repr

def Recovered.crs : Recovered → Option Crs
  | .nothing => Option.none
  | .lin g => g.crs
  | .gcp g => g.crs

/-- `gbox.resolution` (`resolution_from_affine`): exact on the axis-aligned branch, else a witness -/
def srcResOf (r : Recovered) (p : Proj) : Rat × Rat :=
  match r with
  | .lin g => if isAffineST g.A then (g.A.a, g.A.e) else p.rotRes
  | _ => p.rotRes

/-- a `C11.Grid` as the `GeoBox` that `from_bbox` constructs.  A negative side can only come from an explicit
negative `shape=`; `numpy.empty(dst_shape)` / `dask.array` then raise `ValueError`. -/
def gridToGeoBox (gr : C11.Grid) (c : Crs) : Res GeoBox :=
  if gr.ny < 0 ∨ gr.nx < 0 then .error .valueError
  else .ok ⟨gr.ny.toNat, gr.nx.toNat, gr.A, some c⟩

/-- `src.odc.output_geobox(crs, **kw_gbox)` for a located geobox `r` whose CRS is `sc`:
`compute_output_geobox(gbox, crs, **kw_gbox)` → the source box itself on the identity fast path,
else the grid `from_bbox` builds, in the destination CRS. -/
def outputGeoboxOf (r : Recovered) (sc c : Crs) (p : Proj) (a : C11.GridArgs) : Res GeoBox :=
  let cap : C11.CapturedCp := ⟨decide (c = sc), p.sameUnits, srcResOf r p, p.bbox, p.cpBBox, p.fitScale⟩
  let isGeoBox := match r with | .lin _ => true | _ => false
  match C11.computeOutputCp isGeoBox cap (C11.resModeOf (a.resolution.getD (.str "auto"))) (a.shape.getD .none)
      (a.tight.getD false) (a.anchor.getD .dflt) (a.tol.getD C11.tolDefault) (a.rnd.getD .none) with
  | .error e => .error e
  | .ok .source => (match r with | .lin g => .ok g | _ => .error .runtimeError)
  | .ok (.grid gr) => gridToGeoBox gr c

/-- `.odc.output_geobox(crs, **kw)` (861-871) on an array -/
def odcOutputGeobox (src : XArr) (c : Crs) (p : Proj) (a : C11.GridArgs) : Res GeoBox :=
  match recover src with
  | .error e => .error e
  | .ok .nothing => .error .valueError                    -- "Not geo registered"
  | .ok r =>
    match r.crs with
    | Option.none => .error .assertion                     -- `assert src_crs is not None`
    | some sc => outputGeoboxOf r sc c p a

/-- the destination of a reprojection: `how` itself, or `output_geobox(how, **kw_gbox)` -/
def dstGeobox (r : Recovered) (sc : Crs) (how : How) (kw : List (String × KwVal)) : Res GeoBox :=
  match how with
  | .gbox d => .ok d
  | .crs c p =>
    match bindGridArgs (extractOutputGeoboxParams kw).1 with
    | Option.none => .error .runtimeError
    | some a => outputGeoboxOf r sc c p a

/-- `src_nodata=` among the remaining keywords (761-765): a value that is not `None` becomes the
default of `dst_nodata` -/
def hasSrcNodata (kw : List (String × KwVal)) : Bool :=
  match kw.lookup "src_nodata" with
  | some .none => false
  | some _ => true
  | Option.none => false

/-- `xr_reproject(src: DataArray, how, dst_nodata=…, resolution=…, shape=…, tight=…, anchor=…, tol=…,
round_resolution=…, **extra)` → coords / dims / attrs / encoding of the result. -/
def xrReprojectDa (src : XArr) (how : How) (a : C11.GridArgs) (extra : List (String × KwVal))
    (dstNodata : Bool) : Res XArr :=
  let kw := xrReprojectKw a extra
  match recover src with
  | .error e => .error e
  | .ok r =>
    match r.crs with
    | Option.none => .error .valueError                    -- "Can not reproject non-georegistered array."
    | some sc =>
      match dstGeobox r sc how kw with
      | .error e => .error e
      | .ok dst => assemble src dst (dstNodata || hasSrcNodata (extractOutputGeoboxParams kw).2)

/-- The source Dataset as `_locate_geo_info(ds)` sees it: all dimensions, the merged coordinates, and the
Dataset's own `grid_mapping` (`encoding` / `attrs`), if any. -/
def dsSrcView (attrs : List String) (gm : Option String) (vars : List (String × XArr)) : XArr :=
  { dsView attrs vars with gridMapping := gm }

/-- `_maybe_reproject` (708-717) including what `_xr_reproject_da` does with it: a variable that has a geobox but
no CRS raises `ValueError`; `nd`: a `src_nodata=` keyword (not `None`) travels to every variable through `**kw`
and becomes its `nodata` attribute. -/
def reprojectVarC (dst : GeoBox) (nd : Bool) (nv : String × XArr) : Res (String × XArr) :=
  match recover nv.2 with
  | .error e => .error e
  | .ok .nothing => reprojectVar dst nv
  | .ok r => if r.crs.isNone then .error .valueError else (assemble nv.2 dst nd).map (fun o => (nv.1, o))

def assembleDsC (attrs : List String) (vars : List (String × XArr)) (dst : GeoBox) (nd : Bool) :
    Res (List String × List (String × XArr)) := do
  let out ← vars.mapM (reprojectVarC dst nd)
  return (attrs.filter (fun k => !spatialAttributes.contains k), out)

/-- `xr_reproject(src: Dataset, how, …)` (684-726): the destination is computed **once**, from the geobox of
the Dataset; every data variable is then reprojected to it (or passed through). -/
def xrReprojectDs (attrs : List String) (gm : Option String) (vars : List (String × XArr)) (how : How)
    (a : C11.GridArgs) (extra : List (String × KwVal)) : Res (List String × List (String × XArr)) :=
  let kw := xrReprojectKw a extra
  match recover (dsSrcView attrs gm vars) with
  | .error e => .error e
  | .ok .nothing => .error .valueError                    -- "Can not reproject non-georegistered array."
  | .ok r =>
    let dst : Res GeoBox := match how with
      | .gbox d => .ok d
      | .crs _ _ =>
        match r.crs with
        | Option.none => .error .assertion                 -- `assert src_crs is not None` in compute_output_geobox
        | some sc => dstGeobox r sc how kw
    match dst with
    | .error e => .error e
    | .ok dst => assembleDsC attrs vars dst (hasSrcNodata (extractOutputGeoboxParams kw).2)

/-! ### the nodata range check (`_check_nodata_range`, as added by 3030d9b) -/

/-- the values that meet in `_xr_reproject_da` before dispatch -/
structure NodataVals where
  /-- `src_nodata=` keyword (absent or `None`: `none`) -/
  srcKw : Option Rat
  /-- `dst_nodata=` argument -/
  dstKw : Option Rat
  /-- `src.odc.nodata` (attribute `nodata`, else `_FillValue`) -/
  attr : Option Rat
  /-- range of values of `src.dtype`: `numpy.iinfo` / `numpy.finfo` bounds for integer / float kinds (for floats
  `nan` and `±inf` also pass: not representable here, not generated), `none` for any other kind -/
  range : Option (Rat × Rat)
  deriving DecidableEq, Repr

def inRange (range : Option (Rat × Rat)) (v : Option Rat) : Bool :=
  match range, v with
  | some (lo, hi), some x => decide (lo ≤ x ∧ x ≤ hi)
  | _, _ => true

/-- `src_nodata` and `dst_nodata` after their defaults (761-765): the keyword, else the attribute; `dst` defaults to
`src` -/
def NodataVals.src (n : NodataVals) : Option Rat := match n.srcKw with | some v => some v | Option.none => n.attr
def NodataVals.dst (n : NodataVals) : Option Rat := match n.dstKw with | some v => some v | Option.none => n.src

/-- both values must be representable by the pixel type, else `ValueError` before the warp is dispatched -/
def nodataOk (n : NodataVals) : Bool := inRange n.range n.src && inRange n.range n.dst

/-- `xr_reproject` on a DataArray including the nodata range check.  The check sits after the destination is
known and the spatial axes were found adjacent, before the warp. -/
def xrReprojectDaChecked (src : XArr) (how : How) (a : C11.GridArgs) (extra : List (String × KwVal))
    (n : NodataVals) : Res XArr :=
  match xrReprojectDa src how a extra n.dstKw.isSome with
  | .error e => .error e
  | .ok out => if nodataOk n then .ok out else .error .valueError

/-- the Dataset variant: every variable that has a geobox goes through `_xr_reproject_da` with the same keywords;
`n` describes those variables (same dtype / attributes in what is generated) -/
def xrReprojectDsChecked (attrs : List String) (gm : Option String) (vars : List (String × XArr)) (how : How)
    (a : C11.GridArgs) (extra : List (String × KwVal)) (n : NodataVals) :
    Res (List String × List (String × XArr)) :=
  match xrReprojectDs attrs gm vars how a extra with
  | .error e => .error e
  | .ok out =>
    let anyGeo := vars.any fun nv => match recover nv.2 with | .ok .nothing => false | .ok _ => true | .error _ => false
    if anyGeo && !nodataOk n then .error .valueError else .ok out

end OdcGeo.C09
