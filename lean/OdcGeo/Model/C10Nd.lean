/-
C10 — the public warp entry points around `_rio_reproject` (warp.py:105-160): `rio_reproject` with its default
destination nodata for float rasters and its loop over the 2-D planes of an N-d array (`ydim`), `warp_affine` /
`warp_affine_rio`.  The per-plane nearest-neighbour semantics is `C10.rioNN` (Model/C10).

Pixel values are integers; the harness encodes a float NaN as one reserved integer `nan` (GDAL matches a NaN nodata
against NaN pixels, which is plain equality of the code).
-/
import OdcGeo.Model.C10
namespace OdcGeo.C10
open OdcGeo.C17 OdcGeo.C03

/-- `if dst_nodata is None: if dst.dtype.kind == "f": dst_nodata = np.nan` -/
def rioDstNodata (dstIsFloat : Bool) (nan : Int) (dn : Option Int) : Option Int :=
  match dn with
  | some v => some v
  | none => if dstIsFloat then some nan else none

/-- `rio_reproject` on 2-D arrays -/
def rioReproject2 (t : PixT) (dstIsFloat : Bool) (nan : Int) (src dst : Int → Int → Int) (shape : Int × Int) (A : Aff)
    (sn dn : Option Int) (init : Bool) (dy dx : Int) : Int :=
  rioNN t src dst shape A sn (rioDstNodata dstIsFloat nan dn) init dy dx

/-- `warp_affine(src, dst, A, resampling, src_nodata, dst_nodata)`: source grid = identity, destination grid = `A`,
one CRS — so the destination → source pixel transform is `~identity * A`; `_rio_reproject` is called directly (the
float default of `rio_reproject` does NOT apply). -/
def warpAffine (t : PixT) (src dst : Int → Int → Int) (shape : Int × Int) (A : Aff) (sn dn : Option Int) (init : Bool)
    (dy dx : Int) : Int :=
  rioNN t src dst shape (Aff.id.inv * A) sn dn init dy dx

/-! ### the plane loop of `rio_reproject` for `ndim > 2` -/

/-- `ydim = src.ndim - 2 if ydim is None else ydim` -/
def ydimOf (ndim : Nat) (ydim : Option Nat) : Nat := ydim.getD (ndim - 2)

/-- `extra_dims = (*src.shape[:ydim], *src.shape[ydim + 2:])` -/
def extraDims (shape : List Nat) (ydim : Nat) : List Nat := shape.take ydim ++ shape.drop (ydim + 2)

/-- `np.ndindex(*dims)` (C order) -/
def ndindex : List Nat → List (List Nat)
  | [] => [[]]
  | d :: ds => (List.range d).flatMap fun i => (ndindex ds).map (i :: ·)

/-- coordinate of pixel `(y, x)` of the plane selected by `(*idx[:ydim], :, :, *idx[ydim:])` -/
def planeCoord (idx : List Nat) (ydim : Nat) (y x : Nat) : List Nat := idx.take ydim ++ [y, x] ++ idx.drop ydim

/-- the plane a coordinate belongs to -/
def extraOf (c : List Nat) (ydim : Nat) : List Nat := c.take ydim ++ c.drop (ydim + 2)

/-- an N-d array as a function of the coordinate -/
abbrev NdArr := List Nat → Int

def planeOf (a : NdArr) (idx : List Nat) (ydim : Nat) : Int → Int → Int := fun i j => a (planeCoord idx ydim i.toNat j.toNat)

/-- one iteration of the loop: plane `idx` of the destination is replaced by the warp of plane `idx` of the source INTO
it; every other plane is left alone -/
def ndStep (t : PixT) (dstIsFloat : Bool) (nan : Int) (src : NdArr) (ydim : Nat) (shape : Int × Int) (A : Aff)
    (sn dn : Option Int) (init : Bool) (acc : NdArr) (idx : List Nat) : NdArr := fun c =>
  if extraOf c ydim = idx then
    rioReproject2 t dstIsFloat nan (planeOf src idx ydim) (planeOf acc idx ydim) shape A sn dn init
      ((c.getD ydim 0 : Nat) : Int) ((c.getD (ydim + 1) 0 : Nat) : Int)
  else acc c

/-- `rio_reproject(src, dst, ..., ydim)` for `src.ndim > 2`.  The planes are enumerated from the SOURCE shape; a
destination with fewer planes raises `IndexError` (after the earlier planes were written), one with more keeps the
surplus planes as they were.  `dn` has already been through `rioDstNodata` in the code, which `rioReproject2` redoes
(idempotent). -/
def rioReprojectNd (t : PixT) (dstIsFloat : Bool) (nan : Int) (src dst : NdArr) (sshape dshape : List Nat)
    (ydim : Option Nat) (A : Aff) (sn dn : Option Int) (init : Bool) : Res NdArr :=
  let yd := ydimOf sshape.length ydim
  let planes := ndindex (extraDims sshape yd)
  let dextra := extraDims dshape yd
  if planes.any (fun idx => (idx.zip dextra).any (fun p => decide (p.1 ≥ p.2))) then .error .indexError
  else
    let shape : Int × Int := ((sshape.getD yd 0 : Nat), (sshape.getD (yd + 1) 0 : Nat))
    .ok (planes.foldl (ndStep t dstIsFloat nan src yd shape A sn dn init) dst)

end OdcGeo.C10
