/-
The glue of `odc/geo/roi.py` around the one-axis core of `Model/C17.lean` (core Lean only): slices with a `step`,
the dispatch of the public helpers on "one index or a sequence of them" / "one length or a sequence of lengths",
their error branches, `WindowFromSlice`, and the argument normalisation at the head of `roi_from_points`
(`shape_`, `int(padding)`, `int(align)`, Python's `%` for any sign of `align`).
-/
import OdcGeo.Model.C17
namespace OdcGeo.C17

/-! ### slices with a step -/

/-- A Python index on one axis with the `step` kept: `int` or `slice(start, stop, step)`. -/
inductive SIdx where
  | idx (i : Int)
  | slc (start stop step : Option Int)
  deriving DecidableEq, Repr

def SIdx.toPIdx : SIdx → PIdx
  | .idx i => .idx i
  | .slc a b _ => .slc a b

def SIdx.step : SIdx → Option Int
  | .idx _ => none
  | .slc _ _ k => k

/-- `slice(start, stop, step)` as the helpers return it -/
structure SSlice where
  start : Int
  stop : Int
  step : Option Int
  deriving DecidableEq, Repr

def SSlice.ns (s : SSlice) : NSlice := ⟨s.start, s.stop⟩

/-- `_norm_slice(s, n)` (roi.py:545-553): `step` is passed through untouched; an int index gives `slice(j, j+1)`
(no step) -/
def normSliceS (s : SIdx) (n : Int) : SSlice :=
  let r := normSlice s.toPIdx n
  ⟨r.start, r.stop, s.step⟩

/-- `_norm_slice_or_error(s)` (roi.py:525-542): keeps `s.step` -/
def normSliceOrErrorS (s : SIdx) : Res SSlice :=
  match normSliceOrError s.toPIdx with
  | .error e => .error e
  | .ok r => .ok ⟨r.start, r.stop, s.step⟩

/-- `roi_pad`'s `pad_slice`: the result has NO step (`slice(max(0, start - pad), min(n, stop + pad))`) -/
def padSliceS (s : SIdx) (pad n : Int) : SSlice :=
  let r := padSlice s.toPIdx pad n
  ⟨r.start, r.stop, none⟩

/-! ### one item or a sequence of items -/

/-- an argument that may be a single value or a `Sequence` of values -/
inductive Arg (β : Type) where
  | one (x : β)
  | many (xs : List β)
  deriving Repr

/-- result of a helper that answers in the form it was asked -/
inductive Ans (β : Type) where
  | one (x : β)
  | many (xs : List β)
  deriving Repr, DecidableEq

/-- `(shape,) = shape`: unpacking a sequence that must hold exactly one value (`ValueError` otherwise) -/
def unpack1 {β : Type} : List β → Res β
  | [x] => .ok x
  | _ => .error .valueError

/-- `roi_normalise(roi, shape)` (roi.py:612-639) -/
def roiNormaliseArg (roi : Arg SIdx) (shape : Arg Int) : Res (Ans SSlice) :=
  match roi with
  | .one s =>
    match shape with
    | .one n => .ok (.one (normSliceS s n))
    | .many ns => match unpack1 ns with
      | .error e => .error e
      | .ok n => .ok (.one (normSliceS s n))
  | .many ss =>
    let ns := match shape with | .one n => [n] | .many ns => ns
    .ok (.many ((ss.zip ns).map fun p => normSliceS p.1 p.2))

/-- `roi_pad(roi, pad, shape)` (roi.py:650-671) -/
def roiPadArg (roi : Arg SIdx) (pad : Int) (shape : Arg Int) : Res (Ans SSlice) :=
  match roi with
  | .one s =>
    match shape with
    | .one n => .ok (.one (padSliceS s pad n))
    | .many ns => match unpack1 ns with
      | .error e => .error e
      | .ok n => .ok (.one (padSliceS s pad n))
  | .many ss =>
    let ns := match shape with | .one n => [n] | .many ns => ns
    .ok (.many ((ss.zip ns).map fun p => padSliceS p.1 pad p.2))

/-- `roi_intersect(a, b)` (roi.py:682-722): the result slices carry no step -/
def roiIntersectArg (a b : Arg SIdx) : Res (Ans NSlice) :=
  match a with
  | .one sa =>
    let sb : Res SIdx := match b with | .one s => .ok s | .many ss => unpack1 ss
    match sb with
    | .error e => .error e
    | .ok sb => match sliceIntersect sa.toPIdx sb.toPIdx with
      | .error e => .error e
      | .ok r => .ok (.one r)
  | .many sa =>
    let sb := match b with | .one s => [s] | .many ss => ss
    match (sa.zip sb).mapM fun p => sliceIntersect p.1.toPIdx p.2.toPIdx with
    | .error e => .error e
    | .ok rs => .ok (.many rs)

/-- `roi_intersect3(a, b)` (roi.py:585-598): `assert len(a) == len(b)`, per-axis `slice_intersect3`, then
`aa, bb, cc = zip(*[...])` which cannot be unpacked when there is no axis at all (`ValueError`) -/
def roiIntersect3Arg (a b : List SIdx) : Res (List NSlice × List NSlice × List NSlice) :=
  if a.length ≠ b.length then .error .assertion
  else match (a.zip b).mapM fun p => sliceIntersect3 p.1.toPIdx p.2.toPIdx with
    | .error e => .error e
    | .ok [] => .error .valueError
    | .ok rs => .ok (rs.map (·.1), rs.map (·.2.1), rs.map (·.2.2))

/-- `roi_is_full(roi, shape)` (roi.py:499-518): `step` is not looked at -/
def roiIsFullArg (roi : Arg SIdx) (shape : Arg Int) : Bool :=
  let ss := match roi with | .one s => [s] | .many ss => ss
  let ns := match shape with | .one n => [n] | .many ns => ns
  (ss.zip ns).all fun p => sliceFull p.1.toPIdx p.2

/-- `roi_shape(roi)` (roi.py:465-487): always a tuple; `step` is not looked at -/
def roiShapeArg (roi : Arg SIdx) : Res (List Int) :=
  let ss := match roi with | .one s => [s] | .many ss => ss
  ss.mapM fun s => sliceDim s.toPIdx

/-- `roi_is_empty(roi)` (roi.py:490-496) -/
def roiIsEmptyArg (roi : Arg SIdx) : Res Bool :=
  match roiShapeArg roi with
  | .error e => .error e
  | .ok ds => .ok (ds.any fun d => d ≤ 0)

/-- `roi_center(roi)` (roi.py:733-743) -/
def roiCenterArg (roi : Arg SIdx) : Res (Ans Rat) :=
  match roi with
  | .one s => match sliceCenter s.toPIdx with
    | .error e => .error e
    | .ok c => .ok (.one c)
  | .many ss => match ss.mapM fun s => sliceCenter s.toPIdx with
    | .error e => .error e
    | .ok cs => .ok (.many cs)

/-! ### `WindowFromSlice.__getitem__` (roi.py:38-52): numpy slices → rasterio window `((row_off, row_stop), (col_off, col_stop))` -/

/-- `w_[roi]`: `roi = None` → `None`; not a 2-sequence → `ValueError`; a missing `start` is 0, `stop` is passed on
as it is (possibly `None`); steps are dropped -/
def windowFromSlice (roi : Option (List (Option Int × Option Int))) :
    Res (Option ((Int × Option Int) × (Int × Option Int))) :=
  match roi with
  | none => .ok none
  | some [row, col] =>
    .ok (some ((match row.1 with | none => 0 | some v => v, row.2), (match col.1 with | none => 0 | some v => v, col.2)))
  | some _ => .error .valueError

/-! ### the head of `roi_from_points` (roi.py:761-771) -/

/-- Python `int(x)` of a finite float: truncation towards zero -/
def pyInt (x : Rat) : Int := if 0 ≤ x then x.floor else x.ceil

/-- what `shape_` accepts (types.py:410-420): a `Shape2d`, an `XY` (values through `int`), a `Sequence` of exactly
two values (through `int`, `ValueError` for another length), anything else (`ValueError`) -/
inductive ShapeSpelling where
  | shape2d (ny nx : Int)
  | xy (x y : Rat)
  | seq (vals : List Rat)
  | other
  deriving Repr

/-- `shape_(x)` → `(ny, nx)` -/
def shapeOf : ShapeSpelling → Res (Int × Int)
  | .shape2d ny nx => .ok (ny, nx)
  | .xy x y => .ok (pyInt y, pyInt x)
  | .seq [a, b] => .ok (pyInt a, pyInt b)
  | .seq _ => .error .valueError
  | .other => .error .valueError

/-- `x - (x % align)` with Python's `%` (sign of the divisor; `ZeroDivisionError` for 0) -/
def alignDownPy (x align : Int) : Res Int :=
  if align = 0 then .error .zeroDiv else .ok (x - Int.fmod x align)

def alignUpPy (x align : Int) : Res Int := alignDownPy (x + (align - 1)) align

/-- one axis after the argument normalisation, any sign of `align` -/
def fromPointsAxisPy (lo hi : Rat) (n : Int) (padding : Int) (align : Option Int) : Res NSlice :=
  let i := lo.floor - padding
  let o := hi.ceil + padding
  match align with
  | none => .ok ⟨clip i 0 n, clip o 0 n⟩
  | some a =>
    match alignDownPy i a, alignUpPy o a with
    | .ok i', .ok o' => .ok ⟨clip i' 0 n, clip o' 0 n⟩
    | .error e, _ => .error e
    | _, .error e => .error e

/-- `roi_from_points(xy, shape, padding, align)` from its public arguments: `shape` in any accepted spelling,
`padding` / `align` any real number (they go through `int`).  `xyOk = false`: the point array is not `(N, 2)`
(`assert xy.ndim == 2 and xy.shape[1] == 2`). -/
def fromPointsPublic (pts : List (Coord × Coord)) (xyOk : Bool) (shape : ShapeSpelling) (padding : Rat)
    (align : Option Rat) : Res (NSlice × NSlice) :=
  match shapeOf shape with
  | .error e => .error e
  | .ok (ny, nx) =>
    let pad := pyInt padding
    let al := align.map pyInt
    if !xyOk then .error .assertion
    else
      match finitePts pts with
      | [] => .ok (⟨0, 0⟩, ⟨0, 0⟩)
      | p :: ps =>
        let xs := (p :: ps).map (·.1)
        let ys := (p :: ps).map (·.2)
        -- the code computes the x pair first, then the y pair: errors (align = 0) are the same on both
        match fromPointsAxisPy (minL 0 xs) (maxL 0 xs) nx pad al, fromPointsAxisPy (minL 0 ys) (maxL 0 ys) ny pad al with
        | .ok x, .ok y => .ok (y, x)
        | .error e, _ => .error e
        | _, .error e => .error e

end OdcGeo.C17

namespace OdcGeo.C17

/-! ### `norm_slice_2d(idx, shape)` (roi.py:83-88): a 2-D tile / pixel index in any accepted spelling → normalised slices -/

/-- what callers hand in: a tuple (of ints and / or slices), an `Index2d` / `XY` value (through `iyx_`), anything else
(`iyx_` raises `ValueError`) -/
inductive Idx2Spelling where
  | tuple (items : List SIdx)
  | index2d (y x : Int)
  | other
  deriving Repr

def normSlice2d (idx : Idx2Spelling) (shape : List Int) : Res (List SSlice) :=
  match idx with
  | .tuple items => .ok ((items.zip shape).map fun p => normSliceS p.1 p.2)
  | .index2d y x => .ok (([SIdx.idx y, SIdx.idx x].zip shape).map fun p => normSliceS p.1 p.2)
  | .other => .error .valueError

end OdcGeo.C17
