/-
Model for C14, second part — the glue between the modelled core (`Model/C14.lean`) and the public entry
points of `odc.geo.gridspec.GridSpec` (core Lean only, no Mathlib):

* argument normalisers as `GridSpec` calls them: `shape_` (types.py:410-420), `res_` / `Resolution.__init__`
  (types.py:155-165, 326-332), `ixy_` (types.py:357-372), the `origin` default / `assert isinstance(origin, XY)`,
  `norm_crs_or_error`, with the order in which `GridSpec.__init__` (gridspec.py:49-77) evaluates them;
* `GridSpec.from_sample_tile` (gridspec.py:274-312) from its raw arguments: the `(-1, -1)` sentinel is compared
  with the RAW `shape` argument (so its outcome depends on the spelling), then `shape_`, `ixy_`,
  `norm_crs_or_error(box.crs)`, then the numeric core; `GridSpec.web_tiles(zoom, npix)` with `npix` of any
  numeric type;
* `tile_geobox` / `__getitem__` (gridspec.py:133-146) from the raw index argument;
* non-finite query coordinates (NaN bounds of an empty geometry, ±inf of a failed re-projection) in `pt2idx`,
  `idx_bounds`, `tiles`: `floor(nan)` → `ValueError`, `floor(±inf)` → `OverflowError`, in evaluation order;
* the generators `tiles(...)` / `tiles_from_geopolygon(...)` as LAZY objects: nothing runs before the first
  `next()`, each `next()` touches the cache only for the tiles it pulls, several live generators may share one
  `geobox_cache` and be advanced in any interleaving;
* `__eq__` with an operand of another type; `geojson` with no argument (the bounding box of the CRS' valid region
  is a parameter: it is computed by pyproj) and the document it assembles (feature ids, `properties`).
-/
import OdcGeo.Model.C14
namespace OdcGeo.C14

/-! ### exceptions beyond the shared `ErrKind` -/

inductive PyErr where
  | k (e : ErrKind)
  | overflow      -- OverflowError
  | typeError     -- TypeError
  deriving DecidableEq, Repr

def PyErr.toStr : PyErr → String
  | .k e => e.toStr
  | .overflow => "ERR:OverflowError"
  | .typeError => "ERR:TypeError"

abbrev ResX (α : Type) := Except PyErr α

def liftK {α : Type} : Res α → ResX α
  | .ok a => .ok a
  | .error e => .error (.k e)

/-! ### Python numbers as arguments -/

/-- a Python number handed in as (part of) an argument: `int` (also `bool`), finite `float`, or an IEEE special -/
inductive Num where
  | int (v : Int)
  | flt (v : Rat)
  | nan
  | pinf
  | ninf
  deriving DecidableEq, Repr

/-- `int(x)` for a finite float: truncation toward zero -/
def pyTrunc (x : Rat) : Int := if x < 0 then -((-x).floor) else x.floor

/-- `int(v)`: `int(nan)` raises `ValueError`, `int(±inf)` raises `OverflowError` -/
def Num.toInt : Num → ResX Int
  | .int v => .ok v
  | .flt v => .ok (pyTrunc v)
  | .nan => .error (.k .valueError)
  | .pinf => .error .overflow
  | .ninf => .error .overflow

/-- not an IEEE special -/
def Num.isFinite : Num → Bool
  | .int _ => true
  | .flt _ => true
  | _ => false

/-- `v == -1` (`-1.0 == -1` is true in Python) -/
def Num.isMinusOne : Num → Bool
  | .int v => v == -1
  | .flt v => v == -1
  | _ => false

/-! ### `shape_` -/

/-- what callers hand over as a shape: a `Shape2d` of ints (returned as is); any other `XY` / `Index2d`
    (`x.map(int).xy`); a tuple or a list (both `Sequence`: `ny, nx = map(int, x)`); anything else
    (`int`, `None`, a plain object) → `ValueError`.  (numpy arrays are not `Sequence`s: `other`.) -/
inductive ShapeArg where
  | shape2d (ny nx : Int)
  | xy (x y : Num)
  | tuple (l : List Num)
  | list (l : List Num)
  | other
  deriving DecidableEq, Repr

/-- `ny, nx = map(int, x)`: `map` is lazy, the unpacking pulls at most three items; `int()` of an item that is
    pulled may raise before the length complaint does -/
def unpack2 : List Num → ResX (Int × Int)
  | [] => .error (.k .valueError)
  | [a] => do let _ ← a.toInt; throw (.k .valueError)
  | [a, b] => do let ny ← a.toInt; let nx ← b.toInt; pure (ny, nx)
  | a :: b :: c :: _ => do let _ ← a.toInt; let _ ← b.toInt; let _ ← c.toInt; throw (.k .valueError)

/-- `shape_(x)` → `(ny, nx)` -/
def shapeNorm : ShapeArg → ResX (Int × Int)
  | .shape2d ny nx => .ok (ny, nx)
  | .xy x y => do let nx ← x.toInt; let ny ← y.toInt; pure (ny, nx)
  | .tuple l => unpack2 l
  | .list l => unpack2 l
  | .other => .error (.k .valueError)

/-- `shape == (-1, -1)` as evaluated on the RAW argument by `from_sample_tile` (gridspec.py:295): tuples compare
    element-wise (`-1.0 == -1`), `Shape2d.__eq__(tuple)` compares `.shape`, `XY.__eq__(tuple)` is `False`,
    `list == tuple` is `False`, default `object.__eq__` is `False` -/
def ShapeArg.isSentinel : ShapeArg → Bool
  | .shape2d ny nx => ny == -1 && nx == -1
  | .tuple [a, b] => a.isMinusOne && b.isMinusOne
  | _ => false

/-! ### `res_` -/

/-- the `resolution` argument: a `Resolution` (finite members; returned as is), a finite `int` / `bool` / `float`
    (→ `Resolution(float(x))`, i.e. `(x, -x)`), or anything else (`str`, tuple, `numpy.float32`, …) → `ValueError`.
    Non-finite resolutions are not modelled. -/
inductive ResArg where
  | res (x y : Rat)
  | int (v : Int)
  | flt (v : Rat)
  | other
  deriving DecidableEq, Repr

/-- `res_(x).xy`; `float(int)` is a rounded conversion -/
def resNorm (fl : Rnd) : ResArg → ResX (Rat × Rat)
  | .res x y => .ok (x, y)
  | .int v => .ok (fl (v : Rat), -fl (v : Rat))
  | .flt v => .ok (v, -v)
  | .other => .error (.k .valueError)

/-! ### `origin`, `crs` -/

/-- `origin=`: `None` → `xy_(0.0, 0.0)`; an `XY` (finite members); anything else (tuple, list, …) trips
    `assert isinstance(origin, XY)` -/
inductive OriginArg where
  | none
  | xy (x y : Rat)
  | other
  deriving DecidableEq, Repr

def originNorm : OriginArg → ResX (Rat × Rat)
  | .none => .ok (0, 0)
  | .xy x y => .ok (x, y)
  | .other => .error (.k .assertion)

/-- the `crs` argument by the outcome of `norm_crs_or_error` (crs.py:410-442): something pyproj understands; `None` /
    `Unset()` (`ValueError("Expect valid CRS")`); a spelling pyproj rejects (`pyproj.exceptions.CRSError`, a
    `RuntimeError`); one of the strings `"utm"`, `"utm-n"`, `"utm-s"` (any case, any suffix), which need a context that
    `GridSpec` does not pass (`assert ctx is not None`) -/
inductive CrsArg where
  | valid
  | none
  | invalid
  | utm
  deriving DecidableEq, Repr

def crsNorm : CrsArg → ResX Unit
  | .valid => .ok ()
  | .none => .error (.k .valueError)
  | .invalid => .error (.k .runtimeError)
  | .utm => .error (.k .assertion)

/-! ### `GridSpec.__init__` from its raw arguments -/

/-- `GridSpec(crs, tile_shape, resolution, origin=None, flipx=False, flipy=False)`: `shape_`, `res_`, the origin
    default / assert, `norm_crs_or_error`, then the numeric constructor (`_ybin` before `_xbin`) — in this order. -/
def GridSpec.init (fl : Rnd) (crs : CrsArg) (shape : ShapeArg) (res : ResArg) (origin : OriginArg)
    (flipx flipy : Bool) : ResX GridSpec := do
  let s ← shapeNorm shape
  let r ← resNorm fl res
  let o ← originNorm origin
  crsNorm crs
  liftK (GridSpec.new fl s.1 s.2 r.1 r.2 o.1 o.2 flipx flipy)

/-! ### `ixy_`, `tile_geobox`, `__getitem__` -/

/-- a tile index as callers spell it: a tuple (`gs[ix, iy]` arrives as one), an `Index2d`, any other `XY`,
    a list or anything else (`ValueError`: only `tuple` is unpacked) -/
inductive IdxArg where
  | tuple (l : List Int)
  | index2d (x y : Int)
  | xy (x y : Int)
  | list (l : List Int)
  | other
  deriving DecidableEq, Repr

/-- `ixy_(x)` with one argument -/
def idxNorm : IdxArg → ResX (Int × Int)
  | .tuple [x, y] => .ok (x, y)
  | .tuple _ => .error (.k .valueError)     -- `x, y = x`: wrong number of values
  | .index2d x y => .ok (x, y)
  | .xy x y => .ok (x, y)
  | .list _ => .error (.k .valueError)
  | .other => .error (.k .valueError)

/-- `GridSpec.tile_geobox(tile_index)` = `GridSpec.__getitem__(idx)` -/
def GridSpec.tileGeoboxArg (fl : Rnd) (g : GridSpec) (i : IdxArg) : ResX GeoBox := do
  let k ← idxNorm i
  pure (g.tileGeobox fl k)

/-! ### `from_sample_tile`, `web_tiles` from their raw arguments -/

/-- `GridSpec.from_sample_tile` after the sentinel test and the argument normalisers (gridspec.py:301-312) -/
def GridSpec.fromSampleTileCore (fl : Rnd) (q : BBox) (ny nx : Int) (ix iy : Int) (flipx flipy : Bool) :
    Res GridSpec := do
  let xbin ← Bin1D.fromSampleBin fl ix q.left q.right (dirOf flipx)
  let ybin ← Bin1D.fromSampleBin fl iy q.bottom q.top (dirOf flipy)
  if ny = 0 then throw .zeroDiv
  let ry := fl (-ybin.sz / (ny : Rat))
  if nx = 0 then throw .zeroDiv
  let rx := fl (xbin.sz / (nx : Rat))
  GridSpec.new fl ny nx rx ry xbin.origin ybin.origin flipx flipy

/-- `GridSpec.from_sample_tile(box, shape=…, idx=…, flipx=…, flipy=…)`: `boxCrs` classifies `box.crs`,
    `q = box.boundingbox`, `shape = none` is the default `(-1, -1)`, `idx = none` the default `(0, 0)`. -/
def GridSpec.fromSampleTileArgs (fl : Rnd) (boxCrs : CrsArg) (q : BBox) (shape : Option ShapeArg)
    (idx : Option IdxArg) (flipx flipy : Bool) : ResX GridSpec := do
  let shape := shape.getD (.tuple [.int (-1), .int (-1)])
  if shape.isSentinel then throw (.k .valueError)
  let s ← shapeNorm shape
  let i ← idxNorm (idx.getD (.tuple [0, 0]))
  crsNorm boxCrs
  liftK (GridSpec.fromSampleTileCore fl q s.1 s.2 i.1 i.2 flipx flipy)

/-- `GridSpec.web_tiles(zoom, npix)` with `npix` any number: `shape = (npix, npix)` is a tuple, so `npix == -1`
    hits the sentinel; otherwise `int(npix)` pixels per side.  `box(...).crs` is `epsg:3857`. -/
def GridSpec.webTilesArgs (fl : Rnd) (P : Rat) (zoom : Int) (npix : Num) : ResX GridSpec :=
  let tsz := fl (P * pow2 (1 - zoom))
  GridSpec.fromSampleTileArgs fl .valid (boxBounds (-P) (fl (P - tsz)) (fl (-P + tsz)) P)
    (some (.tuple [npix, npix])) (some (.tuple [0, 0])) false true

/-! ### non-finite query coordinates -/

/-- a Python float that may be an IEEE special -/
inductive XF where
  | fin (q : Rat)
  | nan
  | pinf
  | ninf
  deriving DecidableEq, Repr

def XF.isFin : XF → Bool
  | .fin _ => true
  | _ => false

/-- what `floor(x)` raises -/
def XF.err? : XF → Option PyErr
  | .fin _ => none
  | .nan => some (.k .valueError)
  | .pinf => some .overflow
  | .ninf => some .overflow

/-- the error of the first special in a list of floats that are floored in this order -/
def firstErr : List XF → Option PyErr
  | [] => none
  | x :: xs => match x.err? with
    | some e => some e
    | none => firstErr xs

/-- `x + t` for a finite `t` (`nan`, `±inf` absorb it) -/
def XF.add (fl : Rnd) (x : XF) (t : Rat) : XF :=
  match x with
  | .fin q => .fin (fl (q + t))
  | s => s

/-- `x - t` for a finite `t` -/
def XF.sub (fl : Rnd) (x : XF) (t : Rat) : XF :=
  match x with
  | .fin q => .fin (fl (q - t))
  | s => s

/-- `Bin1D.bin(x)`: `(x - origin) / sz` keeps `nan` / `±inf` (finite origin, positive finite size), and
    `floor` raises `ValueError` / `OverflowError` on them -/
def Bin1D.binX (fl : Rnd) (b : Bin1D) : XF → ResX Int
  | .fin q => .ok (b.bin fl q)
  | .nan => .error (.k .valueError)
  | .pinf => .error .overflow
  | .ninf => .error .overflow

/-- `GridSpec.pt2idx(x, y)`: `ixy_(self._xbin.bin(x), self._ybin.bin(y))`, x first -/
def GridSpec.pt2idxX (fl : Rnd) (g : GridSpec) (x y : XF) : ResX (Int × Int) := do
  let ix ← g.xbin.binX fl x
  let iy ← g.ybin.binX fl y
  pure (ix, iy)

structure BBoxX where
  left : XF
  bottom : XF
  right : XF
  top : XF
  deriving DecidableEq, Repr

def BBox.toX (q : BBox) : BBoxX := ⟨.fin q.left, .fin q.bottom, .fin q.right, .fin q.top⟩

/-- `GridSpec.idx_bounds(bounds)` for bounds that may carry IEEE specials: CRS guard, then
    `pt2idx(x1 + tol, y1 + tol)`, then `pt2idx(x2 - tol, y2 - tol)` -/
def GridSpec.idxBoundsX (fl : Rnd) (tol : Rat) (g : GridSpec) (sameCrs : Bool) (q : BBoxX) :
    ResX (Int × Int × Int × Int) := do
  if !sameCrs then throw (.k .assertion)
  let i1 ← g.pt2idxX fl (q.left.add fl tol) (q.bottom.add fl tol)
  let i2 ← g.pt2idxX fl (q.right.sub fl tol) (q.top.sub fl tol)
  pure (min i1.1 i2.1, min i1.2 i2.2, max i1.1 i2.1 + 1, max i1.2 i2.2 + 1)

/-- `list(GridSpec.tiles(bounds))` for such bounds -/
def GridSpec.tilesX (fl : Rnd) (tol : Rat) (g : GridSpec) (sameCrs : Bool) (q : BBoxX) :
    ResX (List (Int × Int)) := do
  let r ← g.idxBoundsX fl tol sameCrs q
  pure ((rangeI r.2.1 r.2.2.2).flatMap (fun iy => (rangeI r.1 r.2.2.1).map (fun ix => (ix, iy))))

/-! ### lazy generators sharing one `geobox_cache` -/

/-- One generator object made by `tiles(bounds, cache)` or `tiles_from_geopolygon(poly, cache)`.
    `start = some (q, sameCrs)`: the body has not been entered (no `next()` yet): `idx_bounds` — and its CRS
    assertion — is still to be evaluated.  `rest`: the indices the `for` loops have not reached yet.
    `dj`: the disjointness filter (`fun _ => false` for the plain bbox query). -/
structure Gen where
  start : Option (BBox × Bool)
  rest : List (Int × Int)
  dj : GeoBox → Bool

/-- `gs.tiles(bounds, cache)` (calling a generator function runs nothing) -/
def Gen.ofTiles (q : BBox) (sameCrs : Bool) : Gen := ⟨some (q, sameCrs), [], fun _ => false⟩

/-- `gs.tiles_from_geopolygon(poly, cache)`; `q` = bounding box of the re-projected polygon (always in the grid CRS) -/
def Gen.ofPolygon (q : BBox) (dj : GeoBox → Bool) : Gen := ⟨some (q, true), [], dj⟩

/-- advance the loops until the next tile that is not filtered out; every tile pulled goes through the cache -/
def GridSpec.pull (fl : Rnd) (g : GridSpec) (dj : GeoBox → Bool) :
    List (Int × Int) → Cache → Option ((Int × Int) × GeoBox) × List (Int × Int) × Cache
  | [], c => (none, [], c)
  | k :: ks, c =>
    let r := g.geoboxC fl c k
    if dj r.1 then GridSpec.pull fl g dj ks r.2 else (some (k, r.1), ks, r.2)

/-- `next(gen)`: `ok (some item)`, `ok none` for `StopIteration`, or the `AssertionError` of the CRS guard raised
    by the FIRST `next()` (a generator that raised is finished). -/
def Gen.next (fl : Rnd) (tol : Rat) (g : GridSpec) (s : Gen) (c : Cache) :
    Res (Option ((Int × Int) × GeoBox)) × Gen × Cache :=
  match s.start with
  | some (q, same) =>
    if same then
      let p := g.pull fl s.dj (g.tiles fl tol q) c
      (.ok p.1, ⟨none, p.2.1, s.dj⟩, p.2.2)
    else (.error .assertion, ⟨none, [], s.dj⟩, c)
  | none =>
    let p := g.pull fl s.dj s.rest c
    (.ok p.1, ⟨none, p.2.1, s.dj⟩, p.2.2)

/-- what a generator would still yield if it ran alone without a cache (vocabulary of the theorems) -/
def Gen.remaining (fl : Rnd) (tol : Rat) (g : GridSpec) (s : Gen) : List (Int × Int) :=
  (match s.start with
   | some (q, same) => if same then g.tiles fl tol q else []
   | none => s.rest).filter (fun k => !s.dj (g.tileGeobox fl k))

/-- one action of a program that holds several live generators over ONE shared cache -/
inductive SOp where
  | next (i : Nat)     -- `next(gens[i])`
  | clear              -- `cache.clear()`
  deriving DecidableEq, Repr

/-- replace element `i` -/
def setAt {α : Type} : List α → Nat → α → List α
  | [], _, _ => []
  | _ :: xs, 0, a => a :: xs
  | x :: xs, n + 1, a => x :: setAt xs n a

/-- observable result of one action: the index yielded (`none` = StopIteration / no such generator / clear),
    the geobox handed out with it, or the error -/
abbrev SOut := Res (Option ((Int × Int) × GeoBox))

/-- run a schedule of actions -/
def GridSpec.sched (fl : Rnd) (tol : Rat) (g : GridSpec) :
    List SOp → List Gen → Cache → List SOut × List Gen × Cache
  | [], gens, c => ([], gens, c)
  | .clear :: ops, gens, _ =>
    let r := GridSpec.sched fl tol g ops gens []
    (.ok none :: r.1, r.2.1, r.2.2)
  | .next i :: ops, gens, c =>
    match gens[i]? with
    | none =>
      let r := GridSpec.sched fl tol g ops gens c
      (.ok none :: r.1, r.2.1, r.2.2)
    | some s =>
      let n := s.next fl tol g c
      let r := GridSpec.sched fl tol g ops (setAt gens i n.2.1) n.2.2
      (n.1 :: r.1, r.2.1, r.2.2)

/-- a cache-less iterator: `some ()` marks a pending CRS assertion, the list is what is still to be yielded -/
abbrev PureIt := Option Unit × List (Int × Int)

/-- `next()` on a cache-less iterator -/
def pureStep (fl : Rnd) (g : GridSpec) : PureIt → SOut × PureIt
  | (some (), _) => (.error .assertion, (none, []))
  | (none, []) => (.ok none, (none, []))
  | (none, k :: ks) => (.ok (some (k, g.tileGeobox fl k)), (none, ks))

/-- the same schedule with every generator replaced by a cache-less iterator over its stateless result -/
def GridSpec.schedPure (fl : Rnd) (g : GridSpec) : List SOp → List PureIt → List SOut
  | [], _ => []
  | .clear :: ops, its => .ok none :: GridSpec.schedPure fl g ops its
  | .next i :: ops, its =>
    match its[i]? with
    | none => .ok none :: GridSpec.schedPure fl g ops its
    | some it =>
      let r := pureStep fl g it
      r.1 :: GridSpec.schedPure fl g ops (setAt its i r.2)

/-- the cache-less iterator a generator stands for: `some ()` marks a pending CRS assertion -/
def Gen.pure (fl : Rnd) (tol : Rat) (g : GridSpec) (s : Gen) : PureIt :=
  match s.start with
  | some (_, false) => (some (), [])
  | _ => (none, s.remaining fl tol g)

/-! ### `__eq__` with any operand -/

/-- right operand of `gs == other` -/
inductive EqOperand where
  | grid (h : GridSpec) (crsEq : Bool)
  | other                                  -- not a `GridSpec` instance
  deriving Repr

/-- `GridSpec.__eq__(other)` (gridspec.py:79-88) -/
def GridSpec.beqAny (g : GridSpec) : EqOperand → Bool
  | .grid h c => g.beq h c
  | .other => false

/-- `Bin1D.__eq__(other)` (math.py:611-618) with `other` possibly not a `Bin1D` (`none`) -/
def Bin1D.beqAny (b : Bin1D) : Option Bin1D → Bool
  | some b' => decide (b.sz = b'.sz) && decide (b.origin = b'.origin) && decide (b.dir = b'.dir)
  | none => false

/-! ### `geojson()` -/

/-- the GeoJSON document as far as `GridSpec.geojson` assembles it itself: one feature per tile carrying
    `idx = "ix,iy"`, and `properties` = `tile_shape` (y, x) and `resolution` (x, y) (`native_crs` is `str(crs)`) -/
structure GeoJsonDoc where
  ids : List String
  shape : Int × Int
  res : Rat × Rat
  deriving DecidableEq, Repr

/-- `GridSpec.geojson(bbox=…, geopolygon=…)` (gridspec.py:233-272): the polygon wins over the bbox; with neither,
    the tiles of `valid` = bounding box of `crs.valid_region.buffer(-0.05).to_crs(crs, resolution=0.5)` (pyproj:
    a parameter here). -/
def GridSpec.geojson (fl : Rnd) (tol : Rat) (g : GridSpec) (bbox : Option BBox)
    (poly : Option (BBox × (GeoBox → Bool))) (valid : BBox) : GeoJsonDoc :=
  let ks := match poly, bbox with
    | some (q, dj), _ => g.tilesFromPolygon fl tol q dj
    | none, some q => g.tiles fl tol q
    | none, none => g.tiles fl tol valid
  ⟨ks.map (fun k => s!"{k.1},{k.2}"), (g.ny, g.nx), (g.rx, g.ry)⟩

end OdcGeo.C14
