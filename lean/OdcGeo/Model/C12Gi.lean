/-
Model for C12, public entry points (core Lean only, no Mathlib): `GeoboxTiles.tiles(query)` and
`GeoboxTiles.grid_intersect(src)` from their *arguments* (CRS identity, kind of base raster,
pixel-to-world affine, image shape, tiling) to their result, on top of `Model/C12`.

What is new compared with `Model/C12`:

* `_check_linear`'s CRS-equality and `isinstance(.., GeoBox)` tests and the three-way dispatch of
  `grid_intersect` (linear path / same-CRS general path / different-CRS path with the early `{}`
  for an empty common footprint);
* the same-CRS general path with *nothing* left as a parameter: footprints are the corner rings
  of `polygon_from_transform`, bounding boxes are those of the rings, candidate ranges come from
  `range_from_bbox` on the projected box, and shapely's `disjoint` on two convex rings is the
  reference semantics `Spec.Convex.disjoint` (validated against shapely on every run);
* `tiles(query)`'s dispatch on the kind of query.

CRS identity is a tag (`Option Nat`; equal tags ⇔ `crs ==`, `none` = no CRS).  Different-CRS
footprints (pyproj, `footprint(4326, 2)`, `&`) stay parameters (`Foreign`).

As repaired (fix2-C12): a geometry query without CRS against a CRS-less raster is in the raster's
*world* coordinates (it is compared with the world-space tile extents), so its bounding box goes
through `~affine` like a box carrying the raster's CRS; before the repair it was read as pixel
coordinates (`candidatesAsFound`), which lost dependencies of rotated CRS-less grids.
-/
import OdcGeo.Model.C12
import OdcGeo.Spec.ConvexDisjoint
namespace OdcGeo.C12
open OdcGeo OdcGeo.C17 OdcGeo.C04

/-- a convex quadrilateral given by its vertex ring (no closing vertex) -/
structure Quad where
  p1 : Rat × Rat
  p2 : Rat × Rat
  p3 : Rat × Rat
  p4 : Rat × Rat
  deriving Repr

def Quad.toList (q : Quad) : List (Rat × Rat) := [q.p1, q.p2, q.p3, q.p4]

/-- `Geometry.boundingbox` (shapely `bounds`): min / max over the vertices -/
def Quad.bbox (q : Quad) : BBox :=
  ⟨min4 q.p1.1 q.p2.1 q.p4.1 q.p3.1, min4 q.p1.2 q.p2.2 q.p4.2 q.p3.2,
   max4 q.p1.1 q.p2.1 q.p4.1 q.p3.1, max4 q.p1.2 q.p2.2 q.p4.2 q.p3.2⟩

/-- `polygon_from_transform(shape, A)` (geom.py:1228): the ring `A·(0,0), A·(0,y1), A·(x1,y1),
A·(x1,0)`, here for any pixel box -/
def Quad.ofBox (A : Aff) (b : BBox) : Quad :=
  ⟨A.apply (b.x1, b.y1), A.apply (b.x1, b.y2), A.apply (b.x2, b.y2), A.apply (b.x2, b.y1)⟩

/-- `BoundingBox.polygon` (`box(left, bottom, right, top)`) -/
def Quad.ofBBox (b : BBox) : Quad := ⟨(b.x1, b.y1), (b.x1, b.y2), (b.x2, b.y2), (b.x2, b.y1)⟩

/-- a tiled raster as `GeoboxTiles` sees it -/
structure TGB where
  /-- CRS identity of `base.crs` -/
  crs : Option Nat
  /-- `isinstance(base, GeoBox)` (as opposed to `GCPGeoBox`) -/
  linear : Bool
  /-- `base.affine` = `base.transform`: pixel → world -/
  W : Aff
  g : GBT

/-- the C04 view of the same object -/
def TGB.c04 (t : TGB) : C04.GeoboxTiles := ⟨⟨t.g.ny, t.g.nx, t.W⟩, t.g.tiles⟩

/-- `base.extent` of a linear raster (geobox.py:208-214) -/
def TGB.extent (t : TGB) : Quad := Quad.ofBox t.W ⟨0, 0, t.g.nx, t.g.ny⟩

/-- `self[idx].extent`: `GeoboxTiles.__getitem__` (crop of the base, C04) then
`polygon_from_transform` with the tile's own shape and affine -/
def tileExtent (t : TGB) (idx : Int × Int) : Res Quad := do
  let gb ← t.c04.getItem (.idx idx.1) (.idx idx.2)
  return Quad.ofBox gb.A ⟨0, 0, gb.nx, gb.ny⟩

/-- `tiles(poly)` for a convex quadrilateral already in the raster's CRS (geobox.py `tiles`, the
loop after `to_crs`): candidates from `range_from_bbox(poly.boundingbox)` – the box carries the
CRS, so it is projected through `~affine` – kept unless `poly.disjoint(self[idx].extent)`. -/
def tilesQuad (t : TGB) (q : Quad) : Res (List (Int × Int)) := do
  let c ← candidatesWorld t.g t.W id q.bbox
  let v ← c.mapM fun idx => do
    let e ← tileExtent t idx
    return (idx, Spec.Convex.disjoint q.toList e.toList)
  return (v.filter fun p => !p.2).map (·.1)

/-- as found (before fix2-C12): the candidates of a CRS-less geometry – its *world* bounding box
read as pixel coordinates -/
def candidatesAsFound (t : TGB) (q : Quad) : Res (List (Int × Int)) :=
  match t.crs with
  | some _ => candidatesWorld t.g t.W id q.bbox
  | none => candidates t.g q.bbox

/-! ### `tiles(query)` dispatch  (geobox.py `GeoboxTiles.tiles`) -/

inductive Query where
  /-- `BoundingBox` without CRS: pixel domain -/
  | pixBox (b : BBox)
  /-- `BoundingBox` carrying a CRS -/
  | box (crs : Nat) (b : BBox)
  /-- a `Geometry` that is a convex quadrilateral -/
  | quad (crs : Option Nat) (q : Quad)

/-- `GeoboxTiles.tiles(query)`.  `toCrs` stands for `poly.to_crs(target_crs, check_and_fix=True)`
(pyproj) and is consulted exactly when the code calls it; a geometry without CRS cannot be
reprojected (`ValueError`). -/
def tilesQuery (t : TGB) (toCrs : Nat → Nat → Quad → Res Quad) (q : Query) : Res (List (Int × Int)) :=
  match q with
  | .pixBox b => tilesFromPixBBox t.g b
  | .box c b => poly (some c) (Quad.ofBBox b)
  | .quad c p => poly c p
where
  poly (c : Option Nat) (p : Quad) : Res (List (Int × Int)) :=
    match t.crs with
    | none =>
      match c with
      -- no CRS on either side: world coordinates of the raster (as repaired)
      | none => tilesQuad t p
      -- `range_from_bbox` → `GeoBox.project`: `assert self._crs is not None`
      | some _ => .error .assertion
    | some tc =>
      if c = some tc then tilesQuad t p
      else match c with
        | none => .error .valueError
        | some pc => do
          let p' ← toCrs pc tc p
          tilesQuad t p'

/-! ### `_check_linear` and `grid_intersect`  (geobox.py) -/

/-- `_check_linear(src)`: different CRS or a non-`GeoBox` base → `None` before any arithmetic -/
def checkLinearT (dst src : TGB) (ttol stol tol sttol : Rat) : Res (Option Aff) :=
  if src.crs ≠ dst.crs then .ok none
  else if !dst.linear then .ok none
  else if !src.linear then .ok none
  else checkLinear src.W dst.W ttol stol tol sttol

/-- same-CRS general path for two linear rasters: `self.tiles(src.base.extent)`, then for each
destination tile found `src.tiles(self[idx].extent)` -/
def gridIntersectSameCrs (dst src : TGB) : Res (List ((Int × Int) × List (Int × Int))) := do
  let ds ← tilesQuad dst src.extent
  ds.mapM fun idx => do
    let e ← tileExtent dst idx
    let l ← tilesQuad src e
    return (idx, l)

/-- what pyproj / shapely / a non-linear base contribute where the model does not compute the
footprints itself (see `gridIntersectGeneralR`) -/
structure Foreign where
  /-- `(src.base.footprint(4326, 2) & self.base.footprint(4326, 2)).is_empty` -/
  fpEmpty : Bool
  fp : BBox
  dstDisjoint : Int × Int → Bool
  ext : Int × Int → BBox
  srcDisjoint : Int × Int → Int × Int → Bool

/-- the arithmetic of `GeoBoxBase.footprint(crs, buffer, npoints)` (geobox.py:233-250) for an
axis-aligned raster, up to shapely / pyproj: the distance handed to `ext.buffer` – `buffer` pixels of
the *coarser* axis, `max(|res.x|, |res.y|)`, also on mirrored rasters – and the densification
resolution handed to `to_crs` – the longer side of the extent's bounding box over `npoints`.
`buffer = 0` skips the buffering. -/
def footprintParams (t : TGB) (buffer npoints : Rat) : Option Rat × Rat :=
  let px := max (rabs t.W.a) (rabs t.W.e)
  let span := max (rabs t.W.a * t.g.nx) (rabs t.W.e * t.g.ny)
  (if buffer = 0 then none else some (buffer * px), span / npoints)

/-- the different-CRS branch of `grid_intersect` pads both rasters by 2 pixels and densifies with the
default 100 points per side: `src.base.footprint(4326, 2) & self.base.footprint(4326, 2)` -/
def crossFootprintParams (dst src : TGB) : (Option Rat × Rat) × (Option Rat × Rat) :=
  (footprintParams src 2 100, footprintParams dst 2 100)

/-- `GeoboxTiles.grid_intersect(src)` -/
def gridIntersect (dst src : TGB) (ttol stol tol sttol : Rat) (fr : Foreign) :
    Res (List ((Int × Int) × List (Int × Int))) := do
  match ← checkLinearT dst src ttol stol tol sttol with
  | some A => gridIntersectLinear dst.g src.g A
  | none =>
    if src.crs = dst.crs then
      if dst.linear && src.linear then gridIntersectSameCrs dst src
      else gridIntersectGeneralR dst.g src.g fr.fp fr.dstDisjoint fr.ext fr.srcDisjoint
    else if fr.fpEmpty then .ok []
    else gridIntersectGeneralR dst.g src.g fr.fp fr.dstDisjoint fr.ext fr.srcDisjoint

end OdcGeo.C12
