/- Model for C20 (core Lean only, no Mathlib). -/
import OdcGeo.Model.IO
namespace OdcGeo.C20

end OdcGeo.C20
