/-
Model of the numeric helpers of `odc/geo/math.py` (core Lean only, no Mathlib).

Doubles are modelled by exact rationals (`Rat`); the few functions that look at
non-finite inputs get a thin wrapper over `XF` (finite rational | +inf | -inf | nan).
`sqrt` never appears: where the code takes a square root (Cholesky factor in
`decompose_rws`) the root is an *input* of the model and a hypothesis of the theorems.
LAPACK `lstsq` is a parameter of the fit functions; the executable instance used by the
driver solves the normal equations exactly.

The integer helpers `align_up` / `align_down` are modelled in `OdcGeo.Model.C17`
(`OdcGeo.C17.alignUp`, `alignDown`) and re-used from there.
-/
import OdcGeo.Model.IO
import OdcGeo.Model.Affine
import OdcGeo.Model.C17
namespace OdcGeo.C20

/-- Python `abs` on a float. -/
def rabs (x : Rat) : Rat := if x < 0 then -x else x

/-! ### `split_float`, `maybe_int`, `is_almost_int`, `maybe_zero`, `snap_scale`
(math.py:32-103, 156-169) -/

/-- Truncation toward zero (what C `fmod(x, 1.0)` removes; also Python `int(float)`). -/
def trunc (x : Rat) : Int := if 0 ≤ x then x.floor else x.ceil

/-- `math.fmod(x, 1.0)`: the result has the sign of `x` (truncation semantics). -/
def fmod1 (x : Rat) : Rat := x - (trunc x : Rat)

/-- `maybe_zero(x, tol)` -/
def maybeZero (x tol : Rat) : Rat := if rabs x < tol then 0 else x

/-- `split_float(x)` for finite `x`: `(x_whole, x_part)`. -/
def splitFloat (x : Rat) : Rat × Rat :=
  let part := fmod1 x
  let whole := x - part
  if part > 1 / 2 then (whole + 1, part - 1)
  else if part < -(1 / 2) then (whole - 1, part + 1)
  else (whole, part)

/-- `maybe_int(x, tol)` for finite `x`: `some (int(x_whole))` when the value is replaced by
an `int`, `none` when `x` itself is returned (the code's callers test this with `is`). -/
def maybeInt? (x tol : Rat) : Option Int :=
  let wp := splitFloat x
  if rabs wp.2 < tol then some (trunc wp.1) else none

/-- The numeric value returned by `maybe_int(x, tol)`. -/
def maybeInt (x tol : Rat) : Rat :=
  match maybeInt? x tol with
  | some k => (k : Rat)
  | none => x

/-- `is_almost_int(x, tol)` for finite `x`. -/
def isAlmostInt (x tol : Rat) : Bool :=
  let f := rabs (fmod1 x)
  let f := if f > 1 / 2 then 1 - f else f
  decide (f < tol)

/-- `snap_scale(s, tol)`.  `1 / s` raises `ZeroDivisionError` for `s = 0` (reachable only with
`tol ≤ 0`), as does `1 / s_inv_snapped` for a snapped `0` (unreachable, see the theorems). -/
def snapScale (s tol : Rat) : Res Rat :=
  if rabs s ≥ 1 - tol then .ok (maybeInt s tol)
  else if rabs s < tol then .ok s
  else if s = 0 then .error .zeroDiv
  else
    match maybeInt? (1 / s) tol with
    | none => .ok s
    | some k => if k = 0 then .error .zeroDiv else .ok (1 / (k : Rat))

/-- A Python float: finite (exact rational value) or one of the non-finite values. -/
inductive XF where
  | fin (q : Rat)
  | pinf
  | ninf
  | nan
  deriving DecidableEq, Repr

/-- `split_float` on any float: non-finite `x` gives `(x, 0)`. -/
def splitFloatX : XF → XF × XF
  | .fin q => (.fin (splitFloat q).1, .fin (splitFloat q).2)
  | x => (x, .fin 0)

/-- `maybe_int` on any float: `Sum.inl k` = the `int` `k`, `Sum.inr x` = the float `x`
passed through. -/
def maybeIntX (x : XF) (tol : Rat) : Sum Int XF :=
  match x with
  | .fin q => match maybeInt? q tol with
    | some k => .inl k
    | none => .inr x
  | _ => .inr x

/-- `is_almost_int` on any float. -/
def isAlmostIntX (x : XF) (tol : Rat) : Bool :=
  match x with
  | .fin q => isAlmostInt q tol
  | _ => false

/-! ### `split_translation` (math.py:320-337) -/

/-- `split_translation(t)` → `(t_whole, t_subpix)`: `split_float` on both coordinates. -/
def splitTranslation (t : Rat × Rat) : (Rat × Rat) × (Rat × Rat) :=
  (((splitFloat t.1).1, (splitFloat t.2).1), ((splitFloat t.1).2, (splitFloat t.2).2))

/-! ### `align_up_pow2`, `align_down_pow2`, `clamp` (math.py:125-153)

`int(ceil(log2(x)))` is modelled by its exact value `clog2 x` = least `n` with `x ≤ 2^n`. -/

def clog2 (x : Nat) : Nat := if x ≤ 1 then 0 else Nat.log2 (x - 1) + 1

def alignUpPow2 (x : Int) : Int :=
  if x ≤ 0 then 1 else ((2 ^ clog2 x.toNat : Nat) : Int)

def alignDownPow2 (x : Int) : Int :=
  let y := alignUpPow2 x
  if y > x then y / 2 else y     -- `y // 2`, `y > 0`

/-- `clamp(x, lo, up)` -/
def clamp (x lo up : Rat) : Res Rat :=
  if ¬ lo ≤ up then .error .assertion
  else .ok (if x < lo then lo else if x > up then up else x)

/-! ### `_snap_edge_pos`, `_snap_edge`, `snap_grid` (math.py:172-217) -/

def snapEdgePos (x0 x1 res tol : Rat) : Res (Rat × Int) :=
  if ¬ res > 0 then .error .assertion
  else if ¬ x1 ≥ x0 then .error .assertion
  else
    let i0 := (maybeInt (x0 / res) tol).floor
    let i1 := (maybeInt (x1 / res) tol).ceil
    let nx := max 1 (i1 - i0)
    .ok ((i0 : Rat) * res, nx)

def snapEdge (x0 x1 res tol : Rat) : Res (Rat × Int) :=
  if ¬ x1 ≥ x0 then .error .assertion
  else if res > 0 then snapEdgePos x0 x1 res tol
  else do
    let (tx', nx) ← snapEdgePos x0 x1 (-res) tol
    return (tx' + (nx : Rat) * (-res), nx)

/-- `snap_grid(x0, x1, res, off_pix, tol)` → `(tx, nx)`; `off_pix = none` is "don't snap". -/
def snapGrid (x0 x1 res : Rat) (offPix : Option Rat) (tol : Rat) : Res (Rat × Int) :=
  match offPix with
  | none =>
    if res > 0 then
      let nx := (maybeInt ((x1 - x0) / res) tol).ceil
      .ok (x0, max 1 nx)
    else if res = 0 then .error .zeroDiv
    else
      let nx := (maybeInt ((x1 - x0) / (-res)) tol).ceil
      .ok (x1, max nx 1)
  | some op =>
    if ¬ (0 ≤ op ∧ op < 1) then .error .assertion
    else do
      let off := op * rabs res
      let (tx', nx) ← snapEdge (x0 - off) (x1 - off) res tol
      return (tx' + off, nx)

/-- Lower / upper world edge of the 1-d grid `(tx, nx)` with signed pixel size `res`
(specification vocabulary, not library code). -/
def gridLo (res tx : Rat) (nx : Int) : Rat := if 0 < res then tx else tx + (nx : Rat) * res
def gridHi (res tx : Rat) (nx : Int) : Rat := if 0 < res then tx + (nx : Rat) * res else tx

/-! ### `data_resolution_and_offset`, `affine_from_axis` (math.py:220-292) -/

/-- `data_resolution_and_offset(data, fallback_resolution)` → `(res, off)`; uses the first
and the **last** label. -/
def dataResolutionAndOffset (data : List Rat) (fallback : Option Rat) : Res (Rat × Rat) :=
  match data with
  | [] => .error .valueError
  | [x] =>
    match fallback with
    | none => .error .valueError
    | some r => .ok (r, x - 1 / 2 * r)
  | x :: y :: rest =>
    let last := (y :: rest).getLast (List.cons_ne_nil y rest)     -- `data[size-1]`
    let r := (last - x) / (((y :: rest).length : Nat) : Rat)      -- `/ (size - 1.0)`
    .ok (r, x - 1 / 2 * r)

/-- `affine_from_axis(xx, yy, fallback_resolution)`; the fallback is `res_(..).xy`, already
a pair here. -/
def affineFromAxis (xx yy : List Rat) (fallback : Option (Rat × Rat)) : Res Aff := do
  let (xres, xoff) ← dataResolutionAndOffset xx (fallback.map (·.1))
  let (yres, yoff) ← dataResolutionAndOffset yy (fallback.map (·.2))
  return Aff.translation xoff yoff * Aff.scale xres yres

/-! ### `is_affine_st`, `snap_affine` (math.py:340-380) -/

/-- The exact value of the Python double `1e-10` (default `tol` of `is_affine_st`). -/
def tol1em10 : Rat := mkRat 7737125245533627 77371252455336267181195264
/-- The exact value of the Python double `1e-6` (hard-coded `tol` of `Poly2d.__init__`). -/
def tol1em6 : Rat := mkRat 4722366482869645 4722366482869645213696

def isAffineSt (A : Aff) (tol : Rat) : Bool := decide (rabs A.b < tol) && decide (rabs A.d < tol)

def snapAffine (A : Aff) (ttol stol tol : Rat) : Res Aff :=
  if rabs A.b > tol ∨ rabs A.d > tol then .ok A
  else do
    let sx ← snapScale A.a stol
    let sy ← snapScale A.e stol
    let tx := maybeInt A.c ttol
    let ty := maybeInt A.f ttol
    return ⟨sx, 0, tx, 0, sy, ty⟩

/-! ### `decompose_rws`, `resolution_from_affine` (math.py:383-432, 494-505)

2×2 matrices are `Aff` values with zero translation.  `n` and `p` are the two square
roots the Cholesky factorisation of `AᵀA` takes (`n² = g11`, `p² = g22 - l21²`); they are
inputs.  Steps follow the code line by line. -/

def m2 (a b d e : Rat) : Aff := ⟨a, b, 0, d, e, 0⟩
def m2T (M : Aff) : Aff := m2 M.a M.d M.b M.e
/-- `np.linalg.inv` of a 2×2 matrix (adjugate / determinant). -/
def m2inv (M : Aff) : Aff :=
  m2 (M.e / M.det) (-M.b / M.det) (-M.d / M.det) (M.a / M.det)

structure RWS where
  R : Aff
  W : Aff
  S : Aff
  deriving DecidableEq, Repr

/-- `decompose_rws` on a 2×2 array `[[a, b], [d, e]]` with the two Cholesky roots given. -/
def decomposeRws2 (A : Aff) (n p : Rat) : RWS :=
  let A := m2 A.a A.b A.d A.e
  let G := m2T A * A                          -- A.T @ A
  -- np.linalg.cholesky(G): L = [[l11, 0], [l21, l22]]
  let l11 := n                                -- sqrt(G11)
  let l21 := G.d / l11
  let l22 := p                                -- sqrt(G22 - l21²)
  let WS := m2 l11 l21 0 l22                  -- L.T
  let R := A * m2inv WS
  let flip := decide (R.det < 0)
  let R := if flip then m2 R.a (-R.b) R.d (-R.e) else R          -- R[:, -1] *= -1
  let WS := if flip then m2 WS.a WS.b (-WS.d) (-WS.e) else WS    -- WS[-1, :] *= -1
  let S := m2 WS.a 0 0 WS.e                   -- np.diag(np.diag(WS))
  let W := WS * m2 (1 / WS.a) 0 0 (1 / WS.e)  -- WS @ np.diag(1.0 / ss)
  ⟨R, W, S⟩

/-- `decompose_rws(A : Affine)`: the translation rides on `R`. -/
def decomposeRws (A : Aff) (n p : Rat) : RWS :=
  let r := decomposeRws2 A n p
  ⟨⟨r.R.a, r.R.b, A.c, r.R.d, r.R.e, A.f⟩, r.W, r.S⟩

/-- `resolution_from_affine(A)` → `(rx, ry)`. -/
def resolutionFromAffine (A : Aff) (n p : Rat) : Rat × Rat :=
  if isAffineSt A tol1em10 then (A.a, A.e)
  else
    let S := (decomposeRws A n p).S
    (S.a, S.e)

/-! ### `affine_from_pts` (math.py:471-491)

`lstsq` is a parameter: any function returning a least-squares minimiser of
`‖[x y 1]·M − Y‖²`.  `lstsqNormal` is the executable instance (normal equations solved by
Cramer's rule; defined when the points are not all collinear). -/

def det3 (a b c d e f g h i : Rat) : Rat :=
  a * (e * i - f * h) - b * (d * i - f * g) + c * (d * h - e * g)

/-- Solve the 3×3 normal equations for one output column `ys`; `none` when singular. -/
def solveNormal (X : List (Rat × Rat)) (ys : List Rat) : Option (Rat × Rat × Rat) :=
  let sxx := (X.map fun p => p.1 * p.1).sum
  let sxy := (X.map fun p => p.1 * p.2).sum
  let syy := (X.map fun p => p.2 * p.2).sum
  let sx := (X.map fun p => p.1).sum
  let sy := (X.map fun p => p.2).sum
  let s1 : Rat := (X.length : Nat)
  let bx := ((X.zip ys).map fun q => q.1.1 * q.2).sum
  let by' := ((X.zip ys).map fun q => q.1.2 * q.2).sum
  let b1 := ys.sum
  let D := det3 sxx sxy sx sxy syy sy sx sy s1
  if D = 0 then none
  else some (det3 bx sxy sx by' syy sy b1 sy s1 / D,
             det3 sxx bx sx sxy by' sy sx b1 s1 / D,
             det3 sxx sxy bx sxy syy by' sx sy b1 / D)

def lstsqNormal (X Y : List (Rat × Rat)) : Option Aff := do
  let (a, b, c) ← solveNormal X (Y.map (·.1))
  let (d, e, f) ← solveNormal X (Y.map (·.2))
  return ⟨a, b, c, d, e, f⟩

/-- `affine_from_pts(X, Y)` with the solver as parameter. -/
def affineFromPts (lstsq : List (Rat × Rat) → List (Rat × Rat) → Option Aff)
    (X Y : List (Rat × Rat)) : Res Aff :=
  if X.length ≠ Y.length then .error .assertion
  else if X.length < 3 then .error .assertion
  else match lstsq X Y with
    | some A => .ok A
    | none => .error .runtimeError

/-- Sum of squared residuals of the affine map `M` on the correspondences. -/
def sqResidual (M : Aff) (XY : List ((Rat × Rat) × (Rat × Rat))) : Rat :=
  (XY.map fun q =>
    let r := M.apply q.1
    (r.1 - q.2.1) * (r.1 - q.2.1) + (r.2 - q.2.2) * (r.2 - q.2.2)).sum

/-! ### `Bin1D` (math.py:568-637) -/

structure Bin1D where
  sz : Rat
  origin : Rat
  direction : Int
  deriving DecidableEq, Repr

namespace Bin1D

/-- `Bin1D(sz, origin, direction)` with its two assertions. -/
def mk? (sz origin : Rat) (direction : Int) : Res Bin1D :=
  if ¬ (direction = -1 ∨ direction = 1) then .error .assertion
  else if ¬ sz > 0 then .error .assertion
  else .ok ⟨sz, origin, direction⟩

/-- `self[idx]` → `(x0, x1)` -/
def interval (b : Bin1D) (idx : Int) : Rat × Rat :=
  let x := (idx : Rat) * b.sz * (b.direction : Rat) + b.origin
  (x, x + b.sz)

/-- `self.bin(x)` -/
def bin (b : Bin1D) (x : Rat) : Int :=
  let ix := ((x - b.origin) / b.sz).floor
  b.direction * ix

/-- `Bin1D.from_sample_bin(idx, (x0, x1), direction)` -/
def fromSampleBin (idx : Int) (x0 x1 : Rat) (direction : Int) : Res Bin1D :=
  if ¬ x0 < x1 then .error .assertion
  else
    let sz := x1 - x0
    let origin := x0 - sz * (idx : Rat) * (direction : Rat)
    mk? sz origin direction

end Bin1D

/-! ### `Poly2d` (math.py:640-797): evaluation, input transform, output de-normalisation -/

/-- `numpy.polynomial.polynomial.polyval(x, cs)` = Σ cs[i]·x^i (Horner). -/
def polyval (cs : List Rat) (x : Rat) : Rat := cs.foldr (fun c acc => c + x * acc) 0

/-- `polyval2d(x, y, c)` = Σ c[i][j]·x^i·y^j for one output component. -/
def polyval2d (c : List (List Rat)) (x y : Rat) : Rat := polyval (c.map fun row => polyval row y) x

/-- `cc[i][j] = (coefficient for output 0, coefficient for output 1)` (shape (k,k,2)). -/
structure Poly2d where
  cc : List (List (Rat × Rat))
  A : Aff
  deriving Repr

namespace Poly2d

/-- `self._norm(x, y)` (as repaired by `fix: Poly2d takes the scale/translation shortcut only
without rotation or shear`): the shortcut is taken only when both off-diagonal terms are
exactly zero. -/
def norm (A : Aff) (p : Rat × Rat) : Rat × Rat :=
  if A.b = 0 ∧ A.d = 0 then (A.a * p.1 + A.c, A.e * p.2 + A.f)
  else A.apply p

/-- `_norm` before the repair: off-diagonal terms below the absolute tolerance `1e-6` were
**ignored** (kept only for the counterexample theorem). -/
def normTol (A : Aff) (p : Rat × Rat) : Rat × Rat :=
  if rabs A.b < tol1em6 ∧ rabs A.d < tol1em6 then (A.a * p.1 + A.c, A.e * p.2 + A.f)
  else A.apply p

/-- The polynomial proper, on already normalised coordinates. -/
def evalCC (cc : List (List (Rat × Rat))) (q : Rat × Rat) : Rat × Rat :=
  (polyval2d (cc.map fun row => row.map (·.1)) q.1 q.2,
   polyval2d (cc.map fun row => row.map (·.2)) q.1 q.2)

/-- `self(x, y)` -/
def eval (P : Poly2d) (p : Rat × Rat) : Rat × Rat := evalCC P.cc (norm P.A p)

/-- `self.grid2d(x, y)`: evaluation on the Cartesian product of `xs` and `ys`, only for input
transforms without rotation / shear (`assert self._safe_to_grid`); `out[i][j]` is the pair of
outputs at `(xs[i], ys[j])` (numpy: `out[:, i, j]`, shape `(2, len(x), len(y))`). -/
def grid2d (P : Poly2d) (xs ys : List Rat) : Res (List (List (Rat × Rat))) :=
  if ¬ (P.A.b = 0 ∧ P.A.d = 0) then .error .assertion
  else
    -- `x, y = self._norm(x, y)` on the axes separately (the shortcut branch of `_norm`)
    let xn := xs.map fun x => P.A.a * x + P.A.c
    let yn := ys.map fun y => P.A.e * y + P.A.f
    .ok (xn.map fun x => yn.map fun y => evalCC P.cc (x, y))     -- polygrid2d(x, y, self._cc)

/-- `self.with_input_transform(A)` -/
def withInputTransform (P : Poly2d) (A : Aff) : Poly2d := ⟨P.cc, P.A * A⟩

/-- Output de-normalisation of `_fit3/_fit4/_fit9` on the flat coefficient table `cc`
(`k×2`): `cc = cc * s; cc[0, :2] += (tx, ty)` with `(s, _, tx, _, _, ty) = ~Ab`. -/
def denorm (cc : List (Rat × Rat)) (Ab : Aff) : List (Rat × Rat) :=
  let Ai := Ab.inv
  match cc.map (fun c => (c.1 * Ai.a, c.2 * Ai.a)) with
  | [] => []
  | c0 :: rest => (c0.1 + Ai.c, c0.2 + Ai.f) :: rest

/-- `cc.reshape(k, k, 2)` for `k = 2, 3` (`_fit3` first appends a zero row). -/
def reshape (k : Nat) (cc : List (Rat × Rat)) : List (List (Rat × Rat)) :=
  (List.range k).map fun i => (cc.drop (i * k)).take k

/-- What `Poly2d._fit3/_fit4/_fit9` return once LAPACK has produced the coefficient table `cc`
(fitted on the normalised points): de-normalise the output side, reshape, keep the input
normalisation `Ain` as the polynomial's input transform.  (`_fit3` pads with a zero row *after*
the de-normalisation, which is the same as de-normalising the padded table: `0·s = 0`.) -/
def ofFit (k : Nat) (cc : List (Rat × Rat)) (Ain Ab : Aff) : Poly2d :=
  ⟨reshape k (denorm cc Ab), Ain⟩

/-- The least-squares cost LAPACK minimises in `Poly2d.fit`: squared residuals of the
polynomial with coefficient table `cc` (shape `k×k`) on the **normalised** correspondences
`(Ain·a_i, Ab·b_i)`. -/
def fitCost (k : Nat) (Ain Ab : Aff) (data : List ((Rat × Rat) × (Rat × Rat))) (cc : List (Rat × Rat)) : Rat :=
  (data.map fun q =>
    let v := evalCC (reshape k cc) (Ain.apply q.1)
    let w := Ab.apply q.2
    (v.1 - w.1) * (v.1 - w.1) + (v.2 - w.2) * (v.2 - w.2)).sum

/-- Which polynomial family `Poly2d.fit` fits for `N` point pairs (math.py:696-709): fewer than 3
points are rejected, `N ≥ 9` biquadratic (`_fit9`), `N ≥ 4` bilinear (`_fit4`), else affine (`_fit3`). -/
inductive FitKind where
  | affine | bilinear | biquadratic
  deriving DecidableEq, Repr

def fitKind (N : Nat) : Res FitKind :=
  if N < 3 then .error .valueError
  else if N ≥ 9 then .ok .biquadratic
  else if N ≥ 4 then .ok .bilinear
  else .ok .affine

/-- Number of columns of the design matrix `AA`, i.e. of unknown coefficients per output. -/
def FitKind.ncols : FitKind → Nat
  | .affine => 3
  | .bilinear => 4
  | .biquadratic => 9

/-- Side `k` of the coefficient table handed to `Poly2d` (`cc.reshape(k, k, 2)`). -/
def FitKind.side : FitKind → Nat
  | .affine => 2
  | .bilinear => 2
  | .biquadratic => 3

/-- One row of the design matrix `AA` of `_fit3` / `_fit4` / `_fit9` for the (normalised) point
`(x, y)`: columns `1, y, x` / `1, y, x, x·y` / `1, y, y², x, x·y, x·y², x², x²·y, x²·y²`. -/
def designRow (kind : FitKind) (p : Rat × Rat) : List Rat :=
  let x := p.1
  let y := p.2
  match kind with
  | .affine => [1, y, x]
  | .bilinear => [1, y, x, x * y]
  | .biquadratic => [1, y, y * y, x, x * y, x * y * y, x * x, x * x * y, x * x * y * y]

/-- The coefficient table as `Poly2d` receives it: `_fit3` appends a zero row before the reshape. -/
def padCoeffs (kind : FitKind) (cc : List (Rat × Rat)) : List (Rat × Rat) :=
  match kind with
  | .affine => cc ++ [(0, 0)]
  | _ => cc

/-- `AA[i] · cc` : the model value LAPACK fits to the `i`-th target (both outputs). -/
def designDot (row : List Rat) (cc : List (Rat × Rat)) : Rat × Rat :=
  ((row.zip cc).foldl (fun acc q => acc + q.1 * q.2.1) 0, (row.zip cc).foldl (fun acc q => acc + q.1 * q.2.2) 0)

/-- Squared residual `‖AA·cc − B‖²` of the linear system handed to LAPACK (`rows` = `AA`, `targets` = `B`). -/
def lsqCost (rows : List (List Rat)) (targets : List (Rat × Rat)) (cc : List (Rat × Rat)) : Rat :=
  ((rows.zip targets).map fun q =>
    let v := designDot q.1 cc
    (v.1 - q.2.1) * (v.1 - q.2.1) + (v.2 - q.2.2) * (v.2 - q.2.2)).sum

/-- `Poly2d.fit(aa, bb)` (math.py:688-797) with its two external ingredients as parameters: `Ain`, `Ab`
are the affines `norm_xy` returns for `aa` and for `bb` (so the normalised points are `Ain·a`,
`Ab·b`), `lstsq` is LAPACK on the design matrix and the normalised targets.  Order of checks as in the
code: shapes, then the number of points, then normalisation / design matrix / solve / de-normalise /
(pad) / reshape. -/
def fit (lstsq : List (List Rat) → List (Rat × Rat) → Option (List (Rat × Rat))) (Ain Ab : Aff)
    (aa bb : List (Rat × Rat)) : Res Poly2d :=
  if aa.length ≠ bb.length then .error .assertion
  else
    match fitKind aa.length with
    | .error e => .error e
    | .ok kind =>
      let rows := aa.map fun a => designRow kind (Ain.apply a)
      let targets := bb.map Ab.apply
      match lstsq rows targets with
      | none => .error .runtimeError
      | some cc => .ok ⟨reshape kind.side (padCoeffs kind (denorm cc Ab)), Ain⟩

end Poly2d

end OdcGeo.C20
