/-
Model for C07 — "geometry reprojection and densification are faithful" (core Lean only).

Modelled code (odc-geo with the two `fix:` commits of branch fix-C07 applied):

* `densify`                      geom.py:439-464  → `shortEnough`, `loopPts`, `edge`, `densifyFrom`, `densify`
* `Geometry.segmented`           geom.py:595-626  → `segmentize` / `segmentizeList` (recursion over kinds)
* `Geometry._to_crs`, `to_crs`   geom.py:673-745  → `mapPts`, `toCrs`
* `transformer_to_crs.result`    crs.py:325-334   → `harmonise`

Coordinates live in an arbitrary type `K` with the field operations and a decidable order
(only operation classes are required, so the same definitions run on `Rat` in the driver and
are reasoned about over any linear ordered field — ℝ included — in `Props/C07.lean`).
shapely is a parameter (`Env`): `len p q` is `LineString([p, q]).length`;
`segment.interpolate(d)` is written out as `p1 + (d/len)(p2 - p1)` (its contract).
The `while d < segment_length` loop is structural recursion on a fuel argument supplied by
`Env.fuel`; theorems that depend on the loop having run to its exit carry the sufficiency of
the fuel as a hypothesis, `fuelRat` is proved sufficient for `K = Rat`.
`wrapdateline` and `check_and_fix` (both default `False`) are not modelled.
-/
import OdcGeo.Model.IO
import OdcGeo.Model.C01
namespace OdcGeo.C07

structure Pt (K : Type) where
  x : K
  y : K
  deriving DecidableEq, Repr

/-- shapely, and the loop bound -/
structure Env (K : Type) where
  /-- `LineString([p, q]).length` -/
  len : Pt K → Pt K → K
  /-- an upper bound for the number of iterations of `while d < segment_length` -/
  fuel : K → Pt K → Pt K → Nat

section
variable {K : Type} [Zero K] [Add K] [Sub K] [Mul K] [Div K] [LT K] [LE K] [DecidableLT K] [DecidableLE K]

/-- squared distance `(p.x - q.x)**2 + (p.y - q.y)**2` -/
def dist2 (p q : Pt K) : K := (p.x - q.x) * (p.x - q.x) + (p.y - q.y) * (p.y - q.y)

/-- `short_enough(p1, p2)` as repaired: squared edge length `< resolution**2` -/
def shortEnough (r : K) (p1 p2 : Pt K) : Bool := decide (dist2 p1 p2 < r * r)

/-- `short_enough` as found before the fix (defect F3): `p1[0]**2 + p2[0]**2 < d2` -/
def shortEnoughF3 (r : K) (p1 p2 : Pt K) : Bool := decide (p1.x * p1.x + p2.x * p2.x < r * r)

/-- `segment.interpolate(d)` on the two-point segment of length `len` -/
def interp (p1 p2 : Pt K) (len d : K) : Pt K :=
  ⟨p1.x + d / len * (p2.x - p1.x), p1.y + d / len * (p2.y - p1.y)⟩

/-- `while d < segment_length: new_coords.append(interpolate(d)); d += resolution` -/
def loopPts (p1 p2 : Pt K) (len r : K) : Nat → K → List (Pt K)
  | 0, _ => []
  | fuel + 1, d => if d < len then interp p1 p2 len d :: loopPts p1 p2 len r fuel (d + r) else []

/-- what one iteration of the `for p1, p2 in zip(coords[:-1], coords[1:])` loop appends -/
def edge (short : K → Pt K → Pt K → Bool) (E : Env K) (r : K) (p1 p2 : Pt K) : List (Pt K) :=
  (if short r p1 p2 then [] else loopPts p1 p2 (E.len p1 p2) r (E.fuel r p1 p2) r) ++ [p2]

def densifyFrom (short : K → Pt K → Pt K → Bool) (E : Env K) (r : K) : Pt K → List (Pt K) → List (Pt K)
  | _, [] => []
  | p1, p2 :: rest => edge short E r p1 p2 ++ densifyFrom short E r p2 rest

/-- `densify(coords, resolution)`; `short` is the length test (repaired or as found) -/
def densifyWith (short : K → Pt K → Pt K → Bool) (E : Env K) (r : K) : List (Pt K) → Res (List (Pt K))
  | [] => if r ≤ 0 then .error .valueError else .error .indexError   -- `coords[0]`
  | p :: rest => if r ≤ 0 then .error .valueError else .ok (p :: densifyFrom short E r p rest)

/-- `densify` of the repaired tree (fix3-C07: after the resolution check an empty coordinate list comes
back empty — `if len(coords) == 0: return []`; everything else is `densifyWith`, the non-empty core) -/
def densify (E : Env K) (r : K) (coords : List (Pt K)) : Res (List (Pt K)) :=
  match coords with
  | [] => if r ≤ 0 then .error .valueError else .ok []
  | _ :: _ => densifyWith shortEnough E r coords

/-- `densify` before fix3-C07: `coords[0]` of an empty list is an `IndexError` -/
def densifyAsFound (E : Env K) (r : K) (coords : List (Pt K)) : Res (List (Pt K)) :=
  densifyWith shortEnough E r coords

/-- `densify` before the `fix:` of F3 (kept for the counterexample; the r ≤ 0 guard is not part of it) -/
def densifyF3 (E : Env K) (r : K) : List (Pt K) → Res (List (Pt K))
  | [] => .error .indexError
  | p :: rest => .ok (p :: densifyFrom shortEnoughF3 E r p rest)

/-! ### geometries -/

inductive Geom (K : Type) where
  | point (p : Pt K)
  | multiPoint (ps : List (Pt K))
  | lineString (cs : List (Pt K))
  | linearRing (cs : List (Pt K))
  | polygon (ext : List (Pt K)) (holes : List (List (Pt K)))
  | multiLineString (gs : List (Geom K))
  | multiPolygon (gs : List (Geom K))
  | collection (gs : List (Geom K))

/-- `[densify(list(i.coords), resolution) for i in geom.interiors]` -/
def densifyRings (E : Env K) (r : K) : List (List (Pt K)) → Res (List (List (Pt K)))
  | [] => .ok []
  | c :: cs => match densify E r c with
    | .error e => .error e
    | .ok c' => match densifyRings E r cs with
      | .error e => .error e
      | .ok cs' => .ok (c' :: cs')

mutual
/-- `segmentize_shapely(geom)` inside `Geometry.segmented` -/
def segmentize (E : Env K) (r : K) : Geom K → Res (Geom K)
  | .point p => .ok (.point p)
  | .multiPoint ps => .ok (.multiPoint ps)
  | .lineString cs => match densify E r cs with
    | .error e => .error e
    | .ok cs' => .ok (.lineString cs')
  | .linearRing cs => match densify E r cs with
    | .error e => .error e
    | .ok cs' => .ok (.linearRing cs')
  | .polygon ext holes => match densify E r ext with
    | .error e => .error e
    | .ok ext' => match densifyRings E r holes with
      | .error e => .error e
      | .ok holes' => .ok (.polygon ext' holes')
  | .multiLineString gs => match segmentizeList E r gs with
    | .error e => .error e
    | .ok gs' => .ok (.multiLineString gs')
  | .multiPolygon gs => match segmentizeList E r gs with
    | .error e => .error e
    | .ok gs' => .ok (.multiPolygon gs')
  | .collection gs => match segmentizeList E r gs with
    | .error e => .error e
    | .ok gs' => .ok (.collection gs')
/-- `[segmentize_shapely(g) for g in geom.geoms]` -/
def segmentizeList (E : Env K) (r : K) : List (Geom K) → Res (List (Geom K))
  | [] => .ok []
  | g :: gs => match segmentize E r g with
    | .error e => .error e
    | .ok g' => match segmentizeList E r gs with
      | .error e => .error e
      | .ok gs' => .ok (g' :: gs')
end

end

section
variable {K : Type}

mutual
/-- `shapely.ops.transform(f, geom)`: every coordinate through `f`, nothing else touched -/
def mapPts (f : Pt K → Pt K) : Geom K → Geom K
  | .point p => .point (f p)
  | .multiPoint ps => .multiPoint (ps.map f)
  | .lineString cs => .lineString (cs.map f)
  | .linearRing cs => .linearRing (cs.map f)
  | .polygon ext holes => .polygon (ext.map f) (holes.map (fun h => h.map f))
  | .multiLineString gs => .multiLineString (mapPtsList f gs)
  | .multiPolygon gs => .multiPolygon (mapPtsList f gs)
  | .collection gs => .collection (mapPtsList f gs)
def mapPtsList (f : Pt K → Pt K) : List (Geom K) → List (Geom K)
  | [] => []
  | g :: gs => mapPts f g :: mapPtsList f gs
end

mutual
/-- all vertices in storage order (exterior, then holes; parts in order) -/
def vertices : Geom K → List (Pt K)
  | .point p => [p]
  | .multiPoint ps => ps
  | .lineString cs => cs
  | .linearRing cs => cs
  | .polygon ext holes => ext ++ holes.flatten
  | .multiLineString gs => verticesList gs
  | .multiPolygon gs => verticesList gs
  | .collection gs => verticesList gs
def verticesList : List (Geom K) → List (Pt K)
  | [] => []
  | g :: gs => vertices g ++ verticesList gs
end

/-- geometry type and ring / part structure with the coordinates forgotten -/
inductive Skel where
  | point | multiPoint (n : Nat) | lineString | linearRing
  | polygon (holes : Nat)
  | multiLineString (gs : List Skel) | multiPolygon (gs : List Skel) | collection (gs : List Skel)
  deriving Repr

mutual
def skel : Geom K → Skel
  | .point _ => .point
  | .multiPoint ps => .multiPoint ps.length
  | .lineString _ => .lineString
  | .linearRing _ => .linearRing
  | .polygon _ holes => .polygon holes.length
  | .multiLineString gs => .multiLineString (skelList gs)
  | .multiPolygon gs => .multiPolygon (skelList gs)
  | .collection gs => .collection (skelList gs)
def skelList : List (Geom K) → List Skel
  | [] => []
  | g :: gs => skel g :: skelList gs
end

-- the coordinate sequences of a geometry (points as singletons), in storage order
mutual
def rings : Geom K → List (List (Pt K))
  | .point p => [[p]]
  | .multiPoint ps => ps.map (fun p => [p])
  | .lineString cs => [cs]
  | .linearRing cs => [cs]
  | .polygon ext holes => ext :: holes
  | .multiLineString gs => ringsList gs
  | .multiPolygon gs => ringsList gs
  | .collection gs => ringsList gs
def ringsList : List (Geom K) → List (List (Pt K))
  | [] => []
  | g :: gs => rings g ++ ringsList gs
end

end

/-! ### `to_crs` -/

/-- the `resolution` argument of `to_crs` -/
inductive Resolution (K : Type) where
  | none               -- `None`
  | auto               -- `"auto"`
  | val (r : K)        -- a finite number
  | nonfinite          -- `inf` / `nan`: `math.isfinite` is false

structure Tagged (K : Type) where
  crs : C01.Tag
  geom : Geom K

section
variable {K : Type} [Zero K] [Add K] [Sub K] [Mul K] [Div K] [LT K] [LE K] [DecidableLT K] [DecidableLE K]

/-- `Geometry.to_crs(crs, resolution)` with `wrapdateline=False, check_and_fix=False`.
`proj s t` is `s.transformer_to_crs(t)` (pyproj), `autoRes g` is `_auto_resolution(g)`. -/
def toCrs (E : Env K) (proj : C01.CrsRec → C01.CrsRec → Pt K → Pt K) (autoRes : Geom K → K)
    (g : Tagged K) (target : C01.Tag) (res : Resolution K) : Res (Tagged K) :=
  match target with
  | none => .error .valueError                       -- norm_crs_or_error: "Expect valid CRS"
  | some t =>
    if C01.tagEq g.crs (some t) then .ok g            -- `if self.crs == crs: return self`
    else match g.crs with
      | none => .error .valueError                   -- "Cannot project geometries without CRS"
      | some s =>
        let r? : Option K := match res with
          | .none => Option.none
          | .nonfinite => Option.none
          | .auto => some (autoRes g.geom)
          | .val r => some r
        let densified : Res (Geom K) := match r? with
          | Option.none => .ok g.geom
          | some r => if 0 < r then segmentize E r g.geom else .ok g.geom
        match densified with
        | .error e => .error e
        | .ok geom => .ok ⟨some t, mapPts (proj s t) geom⟩

end

/-! ### `clip_lon180`, the tail of `to_crs`, `Geometry.transform`, `BoundingBox.to_crs`, `sides` -/

section
variable {K : Type}

mutual
/-- `shapely.ops.transform(func, geom)` where `func` sees one coordinate sequence at a time
(a point, a line, each ring of a polygon separately; multi-geometries part by part) -/
def mapRings (f : List (Pt K) → List (Pt K)) : Geom K → Geom K
  | .point p => match f [p] with
    | q :: _ => .point q
    | [] => .point p
  | .multiPoint ps => .multiPoint (ps.map (fun p => match f [p] with | q :: _ => q | [] => p))
  | .lineString cs => .lineString (f cs)
  | .linearRing cs => .linearRing (f cs)
  | .polygon ext holes => .polygon (f ext) (holes.map f)
  | .multiLineString gs => .multiLineString (mapRingsList f gs)
  | .multiPolygon gs => .multiPolygon (mapRingsList f gs)
  | .collection gs => .collection (mapRingsList f gs)
def mapRingsList (f : List (Pt K) → List (Pt K)) : List (Geom K) → List (Geom K)
  | [] => []
  | g :: gs => mapRings f g :: mapRingsList f gs
end

end

section
variable {K : Type} [Zero K] [Add K] [Sub K] [Neg K] [LT K] [LE K] [DecidableLT K] [DecidableLE K]

/-- Python `abs(x)` -/
def absK (x : K) : K := if x < 0 then -x else x

/-- `_pick_clip(xx)` of `clip_lon180`: the sign of the majority of the longitudes that are not
next to the antimeridian (`cc >= 0` → `180`).  `c180` is the number 180. -/
def pickClip (c180 thresh : K) (xs : List K) : K :=
  let cc : Int := xs.foldl (fun (cc : Int) x =>
    if absK x < thresh then (if 0 < x then cc + 1 else cc - 1) else cc) 0
  if 0 ≤ cc then c180 else -c180

/-- `_clip_180(xx, clip)`: `x if abs(x) < thresh else clip` -/
def clip180 (thresh clip : K) (xs : List K) : List K :=
  xs.map (fun x => if absK x < thresh then x else clip)

/-- `transformer(xx, yy)` of `clip_lon180` on one coordinate sequence -/
def clipRing (c180 thresh : K) (cs : List (Pt K)) : List (Pt K) :=
  let clip := pickClip c180 thresh (cs.map (·.x))
  cs.map (fun p => ⟨if absK p.x < thresh then p.x else clip, p.y⟩)

/-- `clip_lon180(geom, tol)` with `thresh = 180 - tol` (geom.py:1068-1102); the `Multi*` branch
re-assembles the clipped parts with `multigeom`, which for non-empty parts of one kind is the
same multi-geometry. -/
def clipLon180 (c180 tol : K) (g : Geom K) : Geom K := mapRings (clipRing c180 (c180 - tol)) g

end

section
variable {K : Type} [Zero K] [Add K] [Sub K] [Neg K] [Mul K] [Div K] [LT K] [LE K] [DecidableLT K] [DecidableLE K]

/-- `Geometry.to_crs(crs, resolution, wrapdateline)` with `check_and_fix=False` (geom.py:681-750).
`geographic` is `crs.geographic` of the target; `chop` is `chop_along_antimeridian(geom, 0.1)`
(shapely `split` along the projected 180° meridian: a parameter); `c180`, `eps` are the numbers
`180` and `1e-4`.  Only with `wrapdateline and crs.geographic` is anything chopped or clipped. -/
def toCrsFull (E : Env K) (proj : C01.CrsRec → C01.CrsRec → Pt K → Pt K) (autoRes : Geom K → K)
    (chop : Geom K → Res (Geom K)) (c180 eps : K)
    (g : Tagged K) (target : C01.Tag) (geographic : Bool) (res : Resolution K) (wrapdateline : Bool) :
    Res (Tagged K) :=
  match target with
  | none => .error .valueError
  | some t =>
    if C01.tagEq g.crs (some t) then .ok g
    else match g.crs with
      | none => .error .valueError
      | some s =>
        let r? : Option K := match res with
          | .none => Option.none
          | .nonfinite => Option.none
          | .auto => some (autoRes g.geom)
          | .val r => some r
        let densified : Res (Geom K) := match r? with
          | Option.none => .ok g.geom
          | some r => if 0 < r then segmentize E r g.geom else .ok g.geom
        match densified with
        | .error e => .error e
        | .ok geom =>
          if wrapdateline && geographic then
            match chop geom with
            | .error e => .error e
            | .ok chopped => .ok ⟨some t, clipLon180 c180 eps (mapPts (proj s t) chopped)⟩
          else .ok ⟨some t, mapPts (proj s t) geom⟩

end

/-- the `crs=` argument of `Geometry.transform`: `Unset()` keeps the CRS, anything else replaces it -/
inductive CrsArg where
  | unset
  | set (t : C01.Tag)

/-- `Geometry.transform(func, crs=…)` / `A * geom` (geom.py:648-675): every coordinate through
`func`, CRS kept unless overridden (`crs=None` removes it) -/
def transformGeom {K : Type} (f : Pt K → Pt K) (arg : CrsArg) (g : Tagged K) : Tagged K :=
  ⟨match arg with | .unset => g.crs | .set t => t, mapPts f g.geom⟩

/-- `sides(poly)`: one two-point line per edge of the exterior ring, tagged with the polygon's CRS -/
def sides {K : Type} : List (Pt K) → List (Pt K × Pt K)
  | a :: b :: rest => (a, b) :: sides (b :: rest)
  | _ => []

section
variable {K : Type} [LT K] [DecidableLT K]

def minK (a b : K) : K := if b < a then b else a
def maxK (a b : K) : K := if a < b then b else a

/-- `geom.boundingbox` of a non-empty vertex list: `(minx, miny, maxx, maxy)` (shapely bounds) -/
def boundsOf : List (Pt K) → Option (K × K × K × K)
  | [] => none
  | p :: ps => some (ps.foldl (fun (b : K × K × K × K) q =>
      (minK b.1 q.x, minK b.2.1 q.y, maxK b.2.2.1 q.x, maxK b.2.2.2 q.y)) (p.x, p.y, p.x, p.y))

/-- `BoundingBox.polygon`: `box(left, bottom, right, top)` as the exterior ring of `geom.box` -/
def boxRing (l b r t : K) : List (Pt K) := [⟨l, b⟩, ⟨l, t⟩, ⟨r, t⟩, ⟨r, b⟩, ⟨l, b⟩]

end

section
variable {K : Type} [Zero K] [Add K] [Sub K] [Mul K] [Div K] [LT K] [LE K] [DecidableLT K] [DecidableLE K]

/-- `BoundingBox.to_crs(crs, resolution=…)` = `self.polygon.to_crs(crs, …).boundingbox`
(geom.py:187-191): the box as a 5-vertex polygon through `to_crs`, then the bounds of what
comes back. -/
def bboxToCrs (E : Env K) (proj : C01.CrsRec → C01.CrsRec → Pt K → Pt K) (autoRes : Geom K → K)
    (crs : C01.Tag) (l b r t : K) (target : C01.Tag) (res : Resolution K) :
    Res (C01.Tag × Option (K × K × K × K)) :=
  match toCrs E proj autoRes ⟨crs, .polygon (boxRing l b r t) []⟩ target res with
  | .error e => .error e
  | .ok g' => .ok (g'.crs, boundsOf (vertices g'.geom))

end

/-! ### NaN harmonisation of `transformer_to_crs` (numpy-array branch) -/

inductive Coord (K : Type) where
  | fin (v : K)
  | nan
  deriving DecidableEq, Repr

/-- `missing = isnan(rx) | isnan(ry); rx[missing] = nan; ry[missing] = nan` for one point -/
def harmonise {K : Type} : Coord K × Coord K → Coord K × Coord K
  | (.fin x, .fin y) => (.fin x, .fin y)
  | _ => (.nan, .nan)

/-! ### the executable instance: `K = Rat` -/

/-- exact square root of a non-negative rational when it is rational -/
def ratSqrt? (q : Rat) : Option Rat :=
  if q < 0 then none
  else
    let n := q.num.toNat
    let d := q.den
    let sn := Nat.sqrt n
    let sd := Nat.sqrt d
    if sn * sn = n ∧ sd * sd = d then some (mkRat sn sd) else none

/-- enough fuel for `while d < L` over `Rat`: the loop runs at most `⌈D2/r²⌉` times -/
def fuelRat (r : Rat) (p q : Pt Rat) : Nat :=
  if r ≤ 0 then 0 else (Rat.ceil (dist2 p q / (r * r))).toNat + 1

/-- number of vertices the loop inserts, decided on squares alone (no square root):
the least `n` with `((n+1)·r)² ≥ D2`, counted by the same loop on `d*d < D2` -/
def countSq (D2 r : Rat) : Nat → Rat → Nat
  | 0, _ => 0
  | fuel + 1, d => if d * d < D2 then countSq D2 r fuel (d + r) + 1 else 0

end OdcGeo.C07
