/- Model for C07 (core Lean only, no Mathlib). -/
import OdcGeo.Model.IO
namespace OdcGeo.C07

end OdcGeo.C07
