/-
Audit meta-command.  `#audit_ns OdcGeo.C17` lists every theorem whose name starts with the
given namespace prefix (declared in this project, not auto-generated), together with the
axioms it depends on and a structural hash of its statement.  The output is parsed by
check.py; nothing here is a hand-kept table.
-/
import Lean
open Lean Elab Command

namespace OdcGeo.Audit

def isUserName (n : Name) : Bool :=
  !n.isInternal && !(isPrivateName n) && !(n.hasMacroScopes)

/-- Is `n` declared in a module whose name starts with `OdcGeo.Props`? -/
def inPropsModule (env : Environment) (n : Name) : Bool :=
  match env.getModuleIdxFor? n with
  | some idx => (`OdcGeo.Props).isPrefixOf env.header.moduleNames[idx.toNat]!
  | none => true

elab "#audit_ns " ns:ident : command => do
  let env ← getEnv
  let pfx := ns.getId
  let mut names : Array Name := #[]
  for (n, ci) in env.constants.toList do
    if pfx.isPrefixOf n && isUserName n && inPropsModule env n then
      match ci with
      | .thmInfo _ =>
        -- only theorems written in the source (auto-generated equation lemmas have no range)
        if (← findDeclarationRanges? n).isSome then names := names.push n
      | _ => pure ()
  let sorted := names.qsort (fun a b => a.toString < b.toString)
  for n in sorted do
    let some ci := env.find? n | continue
    let axs ← liftCoreM <| collectAxioms n
    let axs := axs.qsort (fun a b => a.toString < b.toString)
    let h := ci.type.hash
    logInfo m!"AUDIT {n} AXIOMS {axs.toList} HASH {h}"

end OdcGeo.Audit
