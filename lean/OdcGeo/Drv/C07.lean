import OdcGeo.Model.C07
namespace OdcGeo.C07.Drv
open OdcGeo OdcGeo.IO

def run (args : List String) : Option String :=
  match args with
  | _ => none

end OdcGeo.C07.Drv
