import OdcGeo.Model.C07
import OdcGeo.Model.C07Fix
import OdcGeo.Model.Affine
import OdcGeo.Drv.C01
namespace OdcGeo.C07.Drv
open OdcGeo OdcGeo.IO OdcGeo.C07

/-- shapely's `length` over `Rat`: exact when rational.  The `0` for an irrational length is never
used: `allRational` is checked first and the driver then answers with loop counts only. -/
def envRat : Env Rat where
  len := fun p q => match ratSqrt? (dist2 p q) with
    | some l => l
    | none => 0
  fuel := fuelRat

def parsePt? (s : String) : Option (Pt Rat) :=
  match s.splitOn ";" with
  | [x, y] => match parseRat? x, parseRat? y with
    | some x, some y => some ⟨x, y⟩
    | _, _ => none
  | _ => none

def fmtPt (p : Pt Rat) : String := s!"{fmtRat p.x};{fmtRat p.y}"
def fmtPts (ps : List (Pt Rat)) : String := fmtList fmtPt ps

def edges : List (Pt Rat) → List (Pt Rat × Pt Rat)
  | a :: b :: rest => (a, b) :: edges (b :: rest)
  | _ => []

/-- every edge that will be densified has a rational length -/
def allRational (r : Rat) (cs : List (Pt Rat)) : Bool :=
  (edges cs).all (fun (p, q) => shortEnough r p q || (ratSqrt? (dist2 p q)).isSome)

/-- per-edge number of inserted vertices, decided on squares -/
def counts (r : Rat) (cs : List (Pt Rat)) : List Nat :=
  (edges cs).map (fun (p, q) =>
    if shortEnough r p q then 0 else countSq (dist2 p q) r (fuelRat r p q) r)

def fmtErrKind (e : ErrKind) : String := e.toStr

def densifyOut (r : Rat) (cs : List (Pt Rat)) : String :=
  match densify envRat r cs with
  | .error e => fmtErrKind e
  | .ok out => if allRational r cs then fmtPts out else "COUNTS " ++ fmtList toString (counts r cs)

/-! geometry token stream: `P x;y` | `MP [pts]` | `L [pts]` | `R [pts]` | `PG k [ext] [h1] … [hk]`
| `ML n g…` | `MG n g…` | `GC n g…` -/

def takeRings : Nat → List String → Option (List (List (Pt Rat)) × List String)
  | 0, ts => some ([], ts)
  | k + 1, t :: ts => do
    let c ← parseList? parsePt? t
    let (cs, rest) ← takeRings k ts
    pure (c :: cs, rest)
  | _ + 1, [] => none

mutual
def parseGeom : Nat → List String → Option (Geom Rat × List String)
  | 0, _ => none
  | fuel + 1, ts =>
    match ts with
    | "P" :: p :: rest => do let p ← parsePt? p; pure (.point p, rest)
    | "MP" :: ps :: rest => do let ps ← parseList? parsePt? ps; pure (.multiPoint ps, rest)
    | "L" :: cs :: rest => do let cs ← parseList? parsePt? cs; pure (.lineString cs, rest)
    | "R" :: cs :: rest => do let cs ← parseList? parsePt? cs; pure (.linearRing cs, rest)
    | "PG" :: k :: ext :: rest => do
      let k ← parseNat? k
      let ext ← parseList? parsePt? ext
      let (holes, rest) ← takeRings k rest
      pure (.polygon ext holes, rest)
    | "ML" :: n :: rest => do
      let n ← parseNat? n
      let (gs, rest) ← parseGeoms fuel n rest
      pure (.multiLineString gs, rest)
    | "MG" :: n :: rest => do
      let n ← parseNat? n
      let (gs, rest) ← parseGeoms fuel n rest
      pure (.multiPolygon gs, rest)
    | "GC" :: n :: rest => do
      let n ← parseNat? n
      let (gs, rest) ← parseGeoms fuel n rest
      pure (.collection gs, rest)
    | _ => none
def parseGeoms : Nat → Nat → List String → Option (List (Geom Rat) × List String)
  | 0, _, _ => none
  | _ + 1, 0, ts => some ([], ts)
  | fuel + 1, n + 1, ts => do
    let (g, rest) ← parseGeom fuel ts
    let (gs, rest) ← parseGeoms fuel n rest
    pure (g :: gs, rest)
end

mutual
def fmtGeom : Geom Rat → List String
  | .point p => ["P", fmtPt p]
  | .multiPoint ps => ["MP", fmtPts ps]
  | .lineString cs => ["L", fmtPts cs]
  | .linearRing cs => ["R", fmtPts cs]
  | .polygon ext holes => ["PG", toString holes.length, fmtPts ext] ++ holes.map fmtPts
  | .multiLineString gs => ["ML", toString (lenGeoms gs)] ++ fmtGeoms gs
  | .multiPolygon gs => ["MG", toString (lenGeoms gs)] ++ fmtGeoms gs
  | .collection gs => ["GC", toString (lenGeoms gs)] ++ fmtGeoms gs
def fmtGeoms : List (Geom Rat) → List String
  | [] => []
  | g :: gs => fmtGeom g ++ fmtGeoms gs
def lenGeoms : List (Geom Rat) → Nat
  | [] => 0
  | _ :: gs => lenGeoms gs + 1
end

def geomStr (g : Geom Rat) : String := " ".intercalate (fmtGeom g)

def ringsAllRational (r : Rat) (g : Geom Rat) : Bool := (rings g).all (allRational r)

/-- the stand-in projection of the `tocrs` operation (the harness installs the same map as the
transformer of the real code): an exact affine map that depends on both CRS records -/
def fakeProj (s t : C01.CrsRec) (p : Pt Rat) : Pt Rat :=
  ⟨2 * p.x + p.y + (s.objId : Rat), p.y - p.x / 2 + (t.objId : Rat) * 4⟩

def parseRes? (s : String) : Option (Resolution Rat × Rat) :=
  if s = "N" then some (.none, 0)
  else if s = "nf" then some (.nonfinite, 0)
  else match s.splitOn ":" with
    | ["auto", v] => (parseRat? v).map (fun v => (.auto, v))
    | [v] => (parseRat? v).map (fun v => (.val v, 0))
    | _ => none

def parseCoord? (s : String) : Option (Coord Rat) :=
  if s = "nan" then some .nan else (parseRat? s).map Coord.fin

def fmtCoord : Coord Rat → String
  | .nan => "nan"
  | .fin v => fmtRat v

def parseCPt? (s : String) : Option (Coord Rat × Coord Rat) :=
  match s.splitOn ";" with
  | [x, y] => match parseCoord? x, parseCoord? y with
    | some x, some y => some (x, y)
    | _, _ => none
  | _ => none


/-! ### second part (Model/C07Fix): option paths of `to_crs`, `filter`, `lonlat_bounds` -/

/-- a coordinate that is not finite on the Python side (`nan`, `±inf`) is sent as this number -/
def nanV : Rat := (2 : Rat) ^ 200

def absR (x : Rat) : Rat := if x < 0 then -x else x

/-- `math.isfinite(x) and math.isfinite(y)` under the encoding above -/
def finitePt (p : Pt Rat) : Bool := decide (absR p.x < (2 : Rat) ^ 190) && decide (absR p.y < (2 : Rat) ^ 190)

/-- stand-in projection that fails (NaN in x only: the tuple branch of the transformer does not harmonise)
for source points with `x > 1000`, and fails in both coordinates for `x < -1000` -/
def fakeProjNF (s t : C01.CrsRec) (p : Pt Rat) : Pt Rat :=
  if 1000 < p.x then ⟨nanV, (fakeProj s t p).y⟩
  else if p.x < -1000 then ⟨nanV, nanV⟩
  else fakeProj s t p

def parsePred? (s : String) : Option (Pt Rat → Bool) :=
  match s.splitOn ":" with
  | ["all"] => some (fun _ => true)
  | ["none"] => some (fun _ => false)
  | ["fin"] => some finitePt
  | ["xlt", v] => (parseRat? v).map (fun v p => decide (p.x < v))
  | ["xge", v] => (parseRat? v).map (fun v p => decide (v ≤ p.x))
  | ["ylt", v] => (parseRat? v).map (fun v p => decide (p.y < v))
  | ["yge", v] => (parseRat? v).map (fun v p => decide (v ≤ p.y))
  | ["band", a, b] => match parseRat? a, parseRat? b with
    | some a, some b => some (fun p => decide (a ≤ p.x) && decide (p.x < b))
    | _, _ => none
  | _ => none

def fmtFiltered : Filtered Rat → String
  | .emptyPoint => "EMPTYPOINT"
  | .geom g => geomStr g

def fmtRes7 {α : Type} (f : α → String) : Res7 α → String
  | .error e => e.toStr
  | .ok a => f a

mutual
def anyNonFinite : Geom Rat → Bool
  | .point p => !finitePt p
  | .multiPoint ps => ps.any (fun p => !finitePt p)
  | .lineString cs => cs.any (fun p => !finitePt p)
  | .linearRing cs => cs.any (fun p => !finitePt p)
  | .polygon ext holes => ext.any (fun p => !finitePt p) || holes.any (fun h => h.any (fun p => !finitePt p))
  | .multiLineString gs => anyNonFiniteL gs
  | .multiPolygon gs => anyNonFiniteL gs
  | .collection gs => anyNonFiniteL gs
def anyNonFiniteL : List (Geom Rat) → Bool
  | [] => false
  | g :: gs => anyNonFinite g || anyNonFiniteL gs
end

def fmtBox : Option (Rat × Rat × Rat × Rat) → String
  | none => "EMPTY"
  | some bb => s!"{fmtRat bb.1} {fmtRat bb.2.1} {fmtRat bb.2.2.1} {fmtRat bb.2.2.2}"

def resIrr (res : Resolution Rat) (autoV : Rat) (g : Geom Rat) : Bool :=
  let r? : Option Rat := match res with
    | .val r => some r | .auto => some autoV | _ => none
  match r? with
  | some r => decide (0 < r) && !(ringsAllRational r g)
  | none => false

/-- stand-in projections of the chop / projected_lon streams: `fakeProjSwap` is exact on every double
(sign, swap, powers of two only); `fakeProjLat` fails by latitude (both coordinates for `y > 60`, x only
for `y < -70`) -/
def fakeProjSwap (_s _t : C01.CrsRec) (p : Pt Rat) : Pt Rat := ⟨-2 * p.y, p.x / 2⟩

def fakeProjLat (s t : C01.CrsRec) (p : Pt Rat) : Pt Rat :=
  if 60 < p.y then ⟨nanV, nanV⟩ else if p.y < -70 then ⟨nanV, (fakeProj s t p).y⟩ else fakeProj s t p

def parseGJIn? (toks : List String) : Option (GJIn Rat) :=
  match toks with
  | ["X"] => some .noType
  | "FC" :: n :: rest => do
    let n ← parseNat? n
    let (gs, rest) ← (if n = 0 then some ([], rest) else parseGeoms 64 n rest)
    if rest ≠ [] then none else pure (.featureCollection gs)
  | "F" :: rest => do
    let (g, rest) ← parseGeom 64 rest
    if rest ≠ [] then none else pure (.feature g)
  | "G" :: rest => do
    let (g, rest) ← parseGeom 64 rest
    if rest ≠ [] then none else pure (.geometry g)
  | _ => none

def run3 (args : List String) : Option String :=
  match args with
  | ["projlon", t4326, crs, lon, lat0, lat1, step] => do
    let t4 ← C01.Drv.parseTag? t4326
    let t4 ← t4
    let crs ← C01.Drv.parseTag? crs
    let lon ← parseRat? lon; let lat0 ← parseRat? lat0; let lat1 ← parseRat? lat1; let step ← parseRat? step
    match crs with
    | none => pure (ErrKind.valueError).toStr
    | some c => pure ("L " ++ fmtPts (projectedLon (fakeProjLat t4 c) finitePt lon (arangeRat lat0 lat1 step)))
  | "chop" :: crs :: hit :: n :: toks => do
    let crs ← C01.Drv.parseTag? crs
    let hit ← parseBool? hit
    let n ← parseNat? n
    let (pieces, rest) ← (if n = 0 then some ([], toks) else parseGeoms 64 n toks)
    let (g, rest) ← parseGeom 64 rest
    if rest ≠ [] then none
    else pure (fmtRes7 geomStr (chopFull crs [] (fun _ _ => hit) (fun _ _ => pieces) g))
  | "tocrschop" :: variant :: src :: dst :: geo :: wd :: eps :: hit :: n :: toks => do
    let src ← C01.Drv.parseTag? src; let dst ← C01.Drv.parseTag? dst
    let geo ← parseBool? geo; let wd ← parseBool? wd; let eps ← parseRat? eps
    let hit ← parseBool? hit
    let n ← parseNat? n
    let (pieces, rest) ← (if n = 0 then some ([], toks) else parseGeoms 64 n toks)
    let (g, rest) ← parseGeom 64 rest
    if rest ≠ [] then none
    else
      let r := (if variant = "F" then toCrsAllAsFound else toCrsAll) envRat fakeProjSwap (fun _ => 0) (fun _ => hit)
        (fun _ => pieces) (fun _ => true) id (fun _ => true) (180 : Rat) eps ⟨src, g⟩ dst geo .none wd false
      pure (fmtRes7 (fun (x : C01.Tag × Filtered Rat) => C01.Drv.fmtTag x.1 ++ " " ++ fmtFiltered x.2) r)
  | "gjshape" :: toks => do
    let i ← parseGJIn? toks
    pure (fmtRes7 geomStr (geojsonToShape i))
  | _ => none

mutual
def fmtGJ : GJ Rat → List String
  | .feature f => ["F", fmtFiltered f]
  | .fc fs => ["FC", toString (lenGJ fs)] ++ fmtGJs fs
def fmtGJs : List (GJ Rat) → List String
  | [] => []
  | f :: fs => fmtGJ f ++ fmtGJs fs
def lenGJ : List (GJ Rat) → Nat
  | [] => 0
  | _ :: fs => lenGJ fs + 1
end

def run2 (args : List String) : Option String :=
  match args with
  | "geojson" :: variant :: src :: t4326 :: wd :: eps :: res :: toks => do
    -- simplify=0; `hit` = false (geometries away from the projected antimeridian)
    let src ← C01.Drv.parseTag? src
    let t4326 ← C01.Drv.parseTag? t4326
    let t4326 ← t4326
    let wd ← parseBool? wd; let eps ← parseRat? eps
    let (res, autoV) ← parseRes? res
    let (g, rest) ← parseGeom 64 toks
    if rest ≠ [] then none
    else if src.isSome && resIrr res autoV g then pure "IRRATIONAL"
    else
      let o : GJOpts Rat := ⟨envRat, fakeProj, fun _ => autoV, fun _ => false, fun _ => [], 180, eps, t4326, id, res, wd,
        variant = "F"⟩
      pure (fmtRes7 (fun j => " ".intercalate (fmtGJ j)) (geojson o src g))
  | ["closering", cs] => do
    let cs ← parseList? parsePt? cs
    pure (fmtRes7 fmtPts (closeRing cs))
  | "mkpolygon" :: k :: ext :: rest => do
    let k ← parseNat? k
    let ext ← parseList? parsePt? ext
    let (holes, rest) ← takeRings k rest
    if rest ≠ [] then none else pure (fmtRes7 geomStr (mkPolygon ext holes))
  | "multigeom" :: n :: toks => do
    let n ← parseNat? n
    let (gs, rest) ← parseGeoms 64 n toks
    if rest ≠ [] then none else pure (fmtRes7 geomStr (multigeomRaw gs))
  | "clip2" :: variant :: tol :: toks => do
    let tol ← parseRat? tol
    let (g, rest) ← parseGeom 64 toks
    if rest ≠ [] then none
    else if variant = "R" then pure (fmtRes7 geomStr (clipLon180R (180 : Rat) tol g))
    else if variant = "F" then pure (fmtRes7 geomStr (clipLon180AsFound (180 : Rat) tol g))
    else none
  | "filter" :: pred :: toks => do
    let pred ← parsePred? pred
    let (g, rest) ← parseGeom 64 toks
    if rest ≠ [] then none else pure (fmtRes7 fmtFiltered (filterGeom pred g))
  | "tocrsall" :: variant :: src :: dst :: geo :: wd :: caf :: eps :: res :: v0 :: v1 :: toks => do
    -- `hit` = false: the harness only sends geometries that do not meet the projected antimeridian;
    -- `is_valid` of the projected geometry / of what `dropna` left are observed on the real run (v0, v1)
    let src ← C01.Drv.parseTag? src; let dst ← C01.Drv.parseTag? dst
    let geo ← parseBool? geo; let wd ← parseBool? wd; let caf ← parseBool? caf; let eps ← parseRat? eps
    let (res, autoV) ← parseRes? res
    let v0 ← parseBool? v0; let v1 ← parseBool? v1
    let (g, rest) ← parseGeom 64 toks
    if rest ≠ [] then none
    else if resIrr res autoV g then pure "IRRATIONAL"
    else
      let isValid : Geom Rat → Bool := fun x => if anyNonFinite x then v0 else v1
      let go := fun (buffer0 : Geom Rat → Geom Rat) =>
        (if variant = "F" then toCrsAllAsFound else toCrsAll) envRat fakeProjNF (fun _ => autoV) (fun _ => false)
          (fun _ => []) isValid buffer0 finitePt (180 : Rat) eps ⟨src, g⟩ dst geo res wd caf
      let show_ := fun (r : Res7 (C01.Tag × Filtered Rat)) =>
        fmtRes7 (fun (x : C01.Tag × Filtered Rat) => C01.Drv.fmtTag x.1 ++ " " ++ fmtFiltered x.2) r
      let a := show_ (go id)
      let b := show_ (go (fun _ => .point ⟨0, 0⟩))
      pure ((if a = b then "buffer0=F " else "buffer0=T ") ++ a)
  | "lonlat" :: src :: t4326 :: geo :: safe :: res :: v0 :: v1 :: toks => do
    let src ← C01.Drv.parseTag? src
    let t4326 ← C01.Drv.parseTag? t4326
    let t4326 ← t4326
    let geo ← parseBool? geo; let safe ← parseBool? safe
    let (res, autoV) ← parseRes? res
    let v0 ← parseBool? v0; let v1 ← parseBool? v1
    let (g, rest) ← parseGeom 64 toks
    if rest ≠ [] then none
    else if !geo && resIrr res autoV g then pure "IRRATIONAL"
    else
      let isValid : Geom Rat → Bool := fun x => if anyNonFinite x then v0 else v1
      pure (fmtRes7 (fun (x : C01.Tag × Option (Rat × Rat × Rat × Rat)) => C01.Drv.fmtTag x.1 ++ " " ++ fmtBox x.2)
        (lonlatBounds envRat fakeProjNF (fun _ => autoV) isValid id finitePt (180 : Rat) (360 : Rat) t4326 ⟨src, g⟩ geo safe res))
  | ["wrap", safe, x0, x1] => do
    let safe ← parseBool? safe; let x0 ← parseRat? x0; let x1 ← parseRat? x1
    let r := lonlatWrap safe (180 : Rat) (360 : Rat) x0 x1
    pure s!"{fmtRat r.1} {fmtRat r.2}"
  | "midlon" :: src :: t4326 :: cx :: cy :: [] => do
    let src ← C01.Drv.parseTag? src
    let t4326 ← C01.Drv.parseTag? t4326
    let t4326 ← t4326
    let cx ← parseRat? cx; let cy ← parseRat? cy
    pure (fmtRes fmtRat (midLongitude envRat fakeProj (fun _ => 0) (fun _ => ⟨cx, cy⟩) t4326 ⟨src, .point ⟨0, 0⟩⟩))
  | other => run3 other

def run (args : List String) : Option String :=
  match args with
  | ["densify", r, cs] => do
    let r ← parseRat? r; let cs ← parseList? parsePt? cs
    pure (densifyOut r cs)
  | ["counts", r, cs] => do
    let r ← parseRat? r; let cs ← parseList? parsePt? cs
    match densify envRat r cs with
    | .error e => pure (fmtErrKind e)
    | .ok _ => pure ("COUNTS " ++ fmtList toString (counts r cs))
  | "seg" :: r :: toks => do
    let r ← parseRat? r
    let (g, rest) ← parseGeom 64 toks
    if rest ≠ [] then none
    else if !(ringsAllRational r g) && decide (0 < r) then pure "IRRATIONAL"
    else match segmentize envRat r g with
      | .error e => pure (fmtErrKind e)
      | .ok g' => pure (geomStr g')
  | "tocrs" :: src :: dst :: res :: toks => do
    let src ← C01.Drv.parseTag? src; let dst ← C01.Drv.parseTag? dst
    let (res, autoV) ← parseRes? res
    let (g, rest) ← parseGeom 64 toks
    if rest ≠ [] then none
    else
      let r? : Option Rat := match res with
        | .val r => some r | .auto => some autoV | _ => none
      let irr := match r? with
        | some r => decide (0 < r) && !(ringsAllRational r g)
        | none => false
      if irr then pure "IRRATIONAL"
      else match toCrs envRat fakeProj (fun _ => autoV) ⟨src, g⟩ dst res with
        | .error e => pure (fmtErrKind e)
        | .ok g' => pure (C01.Drv.fmtTag g'.crs ++ " " ++ geomStr g'.geom)
  | "clip" :: tol :: toks => do
    let tol ← parseRat? tol
    let (g, rest) ← parseGeom 64 toks
    if rest ≠ [] then none else pure (geomStr (clipLon180 (180 : Rat) tol g))
  | "tocrsfull" :: src :: dst :: geo :: wd :: eps :: res :: toks => do
    -- `chop` = identity: the harness only sends geometries that do not meet the projected antimeridian
    let src ← C01.Drv.parseTag? src; let dst ← C01.Drv.parseTag? dst
    let geo ← parseBool? geo; let wd ← parseBool? wd; let eps ← parseRat? eps
    let (res, autoV) ← parseRes? res
    let (g, rest) ← parseGeom 64 toks
    if rest ≠ [] then none
    else
      let r? : Option Rat := match res with
        | .val r => some r | .auto => some autoV | _ => none
      let irr := match r? with
        | some r => decide (0 < r) && !(ringsAllRational r g)
        | none => false
      if irr then pure "IRRATIONAL"
      else match toCrsFull envRat fakeProj (fun _ => autoV) (fun x => .ok x) (180 : Rat) eps ⟨src, g⟩ dst geo res wd with
        | .error e => pure (fmtErrKind e)
        | .ok g' => pure (C01.Drv.fmtTag g'.crs ++ " " ++ geomStr g'.geom)
  | "transform" :: aff :: arg :: tag :: toks => do
    let A ← parseAff? aff
    let tag ← C01.Drv.parseTag? tag
    let arg ← (if arg = "U" then some CrsArg.unset else (C01.Drv.parseTag? arg).map CrsArg.set)
    let (g, rest) ← parseGeom 64 toks
    if rest ≠ [] then none
    else
      let f : Pt Rat → Pt Rat := fun p => let q := A.apply (p.x, p.y); ⟨q.1, q.2⟩
      let r := transformGeom f arg ⟨tag, g⟩
      pure (C01.Drv.fmtTag r.crs ++ " " ++ geomStr r.geom)
  | ["sides", cs] => do
    let cs ← parseList? parsePt? cs
    pure (fmtList (fun (e : Pt Rat × Pt Rat) => s!"{fmtPt e.1}>{fmtPt e.2}") (sides cs))
  | ["bboxtocrs", src, dst, res, l, b, r, t] => do
    let src ← C01.Drv.parseTag? src; let dst ← C01.Drv.parseTag? dst
    let (res, autoV) ← parseRes? res
    let l ← parseRat? l; let b ← parseRat? b; let r ← parseRat? r; let t ← parseRat? t
    let r? : Option Rat := match res with
      | .val r => some r | .auto => some autoV | _ => none
    let irr := match r? with
      | some rr => decide (0 < rr) && !(allRational rr (boxRing l b r t))
      | none => false
    if irr then pure "IRRATIONAL"
    else match bboxToCrs envRat fakeProj (fun _ => autoV) src l b r t dst res with
      | .error e => pure (fmtErrKind e)
      | .ok (tag, none) => pure (C01.Drv.fmtTag tag ++ " EMPTY")
      | .ok (tag, some bb) =>
        pure (C01.Drv.fmtTag tag ++ s!" {fmtRat bb.1} {fmtRat bb.2.1} {fmtRat bb.2.2.1} {fmtRat bb.2.2.2}")
  | ["harm", pts] => do
    let ps ← parseList? parseCPt? pts
    pure (fmtList (fun (p : Coord Rat × Coord Rat) => s!"{fmtCoord p.1};{fmtCoord p.2}") (ps.map harmonise))
  | other => run2 other

end OdcGeo.C07.Drv
