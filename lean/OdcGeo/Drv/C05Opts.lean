import OdcGeo.Model.C05Opts
import OdcGeo.Model.C05Meta
import OdcGeo.Model.C05Stats
/-!
Driver operations for `Model/C05Opts.lean`.  Tokens: keyword dicts `{k=v,k=v}` (values are opaque tokens without `,` `=` `{` `}`),
predictor `U` (Unset) | `N` | `T` | `F` | `i:<n>`, optional strings `N` | `s:<text>`.
-/
namespace OdcGeo.C05.OptsDrv
open OdcGeo OdcGeo.IO OdcGeo.C05

def parseKw? (s : String) : Option Kw :=
  if s.length < 2 || s.front ≠ '{' || s.back ≠ '}' then none
  else
    let inner := ((s.drop 1).dropEnd 1).toString
    if inner = "" then some [] else (inner.splitOn ",").mapM fun kv =>
      match kv.splitOn "=" with
      | [k, v] => some (k, v)
      | _ => none

def fmtKw (kw : Kw) : String := "{" ++ ",".intercalate (kw.map fun (k, v) => s!"{k}={v}") ++ "}"

def fmtCArgs (c : CArgs) : String :=
  "{" ++ ",".intercalate (c.map fun (k, v) => match v with
    | .tok t => s!"{k}={t}"
    | .levelDict l => s!"{k}=<level={l}>") ++ "}"

def parsePredArg? (s : String) : Option PredArg :=
  if s = "N" then some .none else if s = "T" then some (.bool true) else if s = "F" then some (.bool false)
  else if s.startsWith "i:" then (parseNat? (s.drop 2).toString).map PredArg.int else none

def parsePredOpt? (s : String) : Option PredOpt :=
  if s = "U" then some .unset else (parsePredArg? s).map PredOpt.given

def parseStrOpt? (s : String) : Option (Option String) :=
  if s = "N" then some none else if s.startsWith "s:" then some (some (s.drop 2).toString) else none

def parseAxis? (s : String) : Option Axis :=
  if s = "YX" then some .YX else if s = "YXS" then some .YXS else if s = "SYX" then some .SYX else none

def parseStats? (s : String) : Option StatsArg :=
  if s = "T" then some (.bool true) else if s = "F" then some (.bool false)
  else if s.startsWith "i:" then (parseNat? (s.drop 2).toString).map StatsArg.int else none

def run (args : List String) : Option String :=
  match args with
  | ["npred", p, kind, size] => do
    let p ← parsePredArg? p; let size ← parseNat? size
    pure (toString (normPredictor p ⟨kind.front, size⟩))
  | ["ncomptiff", kind, size, pred, comp, cargs, level, kw] => do
    let size ← parseNat? size; let pred ← parsePredOpt? pred; let comp ← parseStrOpt? comp
    let cargs ← (if cargs = "N" then some none else (parseKw? cargs).map fun d => some (d.map fun (k, v) => (k, CVal.tok v)))
    let level ← parseStrOpt? level; let kw ← parseKw? kw
    let o := normCompressionTifffile ⟨kind.front, size⟩ pred comp cargs level kw
    pure s!"{o.predictor} {o.compression} {fmtCArgs o.cargs} {fmtKw o.kw}"
  | ["upparams", kw, aws] => do
    let kw ← parseKw? kw; let aws ← parseKw? aws
    let (m, k', a') := uploadParams kw aws
    pure s!"{fmtKw m} {fmtKw k'} {fmtKw a'}"
  | ["upmerged", kw, aws] => do
    let kw ← parseKw? kw; let aws ← parseKw? aws
    let m := (uploadParams kw aws).1
    pure (fmtKw (["spill_sz", "writes_per_chunk"].filterMap fun k => (m.get k).map fun v => (k, v)))
  | ["stats", st, n] => do
    let st ← parseStats? st; let n ← parseNat? n
    pure (match statsLayer st n with
      | .error e => e.toStr
      | .ok l => fmtBool (statsTag st) ++ " " ++ fmtOpt (fun (k : Nat) => toString k) l)
  | ["repart", n] => do
    let n ← parseNat? n
    pure (toString (repartition n))
  | ["photo", ax, ns] => do
    let ax ← parseAxis? ax; let ns ← parseNat? ns
    let (a, b) := photoPlanar ax ns
    pure s!"{a} {b}"
  | ["tcparts", c, p] => do
    let c ← parseNat? c; let p ← parseNat? p
    let (a, b) := tileCompressorParts c p
    pure s!"{fmtBool a} {fmtBool b}"
  | ["gdalcomp", c] => pure ((gdalComp c).getD "N")
  | ["lstats", ax, data, nd] => do
    -- data: three nesting levels in the layer's own axis order, separated by `|` `;` `,`
    let ax ← parseAxis? ax; let nd ← parseOpt? parseInt? nd
    let data ← (data.splitOn "|").mapM fun a => (a.splitOn ";").mapM fun b => (b.splitOn ",").mapM parseInt?
    pure ("+".intercalate ((statsFromLayer ax data nd).map fun st =>
      s!"{fmtOpt fmtInt st.minimum} {fmtOpt fmtInt st.maximum} " ++ (match st.mean with | none => "N" | some m => fmtFixed m 6 0) ++
        s!" {st.valid} {st.npix}"))
  | ["fixed", v, p, pad] => do
    let v ← parseRat? v; let p ← parseNat? p; let pad ← parseNat? pad
    pure ("|" ++ fmtFixed v p pad ++ "|")
  | ["rendermd", bands, p, pad, eol] => do
    -- bands: `k:v;k:v` per band joined by `+`; eol: `N` (empty) | `NL` (newline) | text
    let bands ← (if bands = "E" then some [] else (bands.splitOn "+").mapM fun b =>
      (b.splitOn ";").mapM fun kv => match kv.splitOn ":" with
        | [k, v] => (parseRat? v).map fun v => (k, v)
        | _ => none)
    let p ← parseNat? p; let pad ← parseNat? pad
    let eol := if eol = "N" then "" else if eol = "NL" then "\n" else eol
    pure (((renderGdalMetadata bands p pad eol).replace "\n" "\\n").replace " " "_")
  | ["unwrap", stats, ndim] => do
    let stats ← (stats.splitOn ";").mapM fun kv => match kv.splitOn ":" with
      | [k, vs] => (parseList? parseRat? vs).map fun vs => (k, vs)
      | _ => none
    let ndim ← parseNat? ndim
    pure (match unwrapStats stats ndim with
      | none => "ERR:IndexError"
      | some bs => "+".intercalate (bs.map fun b => ";".intercalate (b.map fun (k, v) => s!"{k}:{fmtRat v}")))
  | ["coggbox", y, x, tile, nl] => do
    let y ← parseNat? y; let x ← parseNat? x; let nl ← parseOpt? parseNat? nl
    let tile ← (if tile = "N" then some TileArg.none else match (tile.splitOn "x").mapM parseNat? with
      | some [n] => some (.int n)
      | some [a, b] => some (.pair a b)
      | _ => none)
    let r := cogGboxShape ⟨y, x⟩ tile nl
    pure s!"{r.y} {r.x}"
  | _ => none

end OdcGeo.C05.OptsDrv
