import OdcGeo.Model.C13
namespace OdcGeo.C13.Drv
open OdcGeo OdcGeo.IO

def run (args : List String) : Option String :=
  match args with
  | _ => none

end OdcGeo.C13.Drv
