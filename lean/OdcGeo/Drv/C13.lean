import OdcGeo.Model.C13
import OdcGeo.Model.C12
import OdcGeo.Model.C13Nd
import OdcGeo.Model.C13Kw
import OdcGeo.Model.C13Glue
import OdcGeo.Model.C12Gi
namespace OdcGeo.C13.Drv
open OdcGeo OdcGeo.IO OdcGeo.C13

/-! Line protocol of the C13 driver.

    value      `n` (NaN) or an integer
    image      rows separated by `;`, values by `,`      `1,2,n;4,5,6`   (`-` = empty)
    tile idx   `r.c`
    deps       `r.c=r.c+r.c|r.c=`   (`-` = empty dict)
    chunks     `[2,3,1]`
-/

def parseVal? (s : String) : Option Val :=
  if s = "n" then some .nan else (parseInt? s).map Val.num

def fmtVal : Val → String
  | .nan => "n"
  | .num v => toString v

def parseKind? (s : String) : Option DKind :=
  if s = "f" then some .float else if s = "i" then some .int else if s = "b" then some .bool else none

def parseVariant? (s : String) : Option Variant :=
  if s = "fix" then some Variant.repaired
  else if s = "found" then some Variant.asFound
  else if s = "f10only" then some ⟨true, false⟩
  else none

def parseRows? (s : String) : Option (List (List Val)) :=
  if s = "-" then some [] else (s.splitOn ";").mapM fun r => (r.splitOn ",").mapM parseVal?

def imgOfRows (rows : List (List Val)) : Img := fun p =>
  if p.1 < 0 ∨ p.2 < 0 then none
  else match rows[p.1.toNat]? with
    | none => none
    | some r => r[p.2.toNat]?

def fmtImg (h w : Int) (img : Img) : String :=
  let rows := (List.range h.toNat).map fun (y : Nat) =>
    (List.range w.toNat).map fun (x : Nat) => img ((y : Int), (x : Int))
  if rows.any (fun r => r.any Option.isNone) then ErrKind.indexError.toStr
  else if h ≤ 0 ∨ w ≤ 0 then "-"
  else ";".intercalate (rows.map fun r => ",".intercalate (r.map fun v => match v with
    | some v => fmtVal v
    | none => "?"))

def parseTIdx? (s : String) : Option TIdx :=
  match s.splitOn "." with
  | [a, b] => match a.toNat?, b.toNat? with
    | some a, some b => some (a, b)
    | _, _ => none
  | _ => none

def parseIdxList? (s : String) : Option (List TIdx) :=
  if s = "" then some [] else (s.splitOn "+").mapM parseTIdx?

def parseDeps? (s : String) : Option (List (TIdx × List TIdx)) :=
  if s = "-" then some []
  else (s.splitOn "|").mapM fun e =>
    match e.splitOn "=" with
    | [k, v] => match parseTIdx? k, parseIdxList? v with
      | some k, some v => some (k, v)
      | _, _ => none
    | _ => none

/-- GDAL's collision avoidance for integer working types: a valid value equal to the
destination nodata is moved by one (up at the type minimum `lo`, else down). -/
def nudge (lo : Option Int) : Option Val → Val → Val
  | some (.num n), .num v =>
    if v = n then
      match lo with
      | some l => if v = l then .num (v + 1) else .num (v - 1)
      | none => .num v
    else .num v
  | _, v => v

def fmtSpan (s : Span) : String := s!"{s.1}:{s.2}"
def fmtTIdx (i : TIdx) : String := s!"{i.1}.{i.2}"

def parseKey? (s : String) : Option Key :=
  if s.startsWith "s" then (parseTIdx? (s.drop 1).toString).map Key.src
  else if s.startsWith "d" then (parseTIdx? (s.drop 1).toString).map Key.dst
  else none

def parseKwList? (s : String) : Option (List (String × String)) :=
  if s = "-" then some []
  else (s.splitOn ",").mapM fun e =>
    match e.splitOn "=" with
    | [k, v] => some (k, v)
    | _ => none

/-! glue ops (Model/C13Glue): raw nodata `N` (none) / `n` (NaN) / rational; chunk argument `N` (None) /
`p:cy:cx` / `v:[..]:[..]` -/

def parseRaw? (s : String) : Option RawNd :=
  if s = "n" then some .nan else (parseRat? s).map RawNd.num

def parseChunkArg? (s : String) : Option ChunkArg :=
  if s = "N" then some .default
  else match s.splitOn ":" with
    | ["p", a, b] => do let a ← parseInt? a; let b ← parseInt? b; pure (.pair a b)
    | ["v", a, b] => do let a ← parseList? parseNat? a; let b ← parseList? parseNat? b; pure (.var a b)
    | _ => none

def fmtGRes {α} (f : α → String) : GRes α → String
  | .ok a => f a
  | .error e => e.toStr

def fmtTilings (t : List Span × List Span) : String :=
  s!"{fmtList fmtSpan t.1} {fmtList fmtSpan t.2}"

structure Common where
  c : Cfg
  G : Gdal
  src : Img

/-- `<variant> <kind> <lo> <srcNd> <dstNd> <S> <D> <srcH> <srcW> <dstH> <dstW> <sy> <sx> <cy> <cx> <deps> <data>` -/
def parseCommon? : List String → Option Common
  | [v, k, lo, sn, dn, S, D, sh, sw, dh, dw, sy, sx, cy, cx, deps, data] => do
    let v ← parseVariant? v; let k ← parseKind? k; let lo ← parseOpt? parseInt? lo
    let sn ← parseOpt? parseVal? sn; let dn ← parseOpt? parseVal? dn
    let S ← parseAff? S; let D ← parseAff? D
    let sh ← parseInt? sh; let sw ← parseInt? sw; let dh ← parseInt? dh; let dw ← parseInt? dw
    let sy ← parseList? parseNat? sy; let sx ← parseList? parseNat? sx
    let cy ← parseNat? cy; let cx ← parseNat? cx
    let deps ← parseDeps? deps
    let rows ← parseRows? data
    if S.det = 0 then none
    else
      pure ⟨{ variant := v, kind := k, srcH := sh, srcW := sw, S := S, dstH := dh, dstW := dw, D := D,
              sy := chunksTiling sy, sx := chunksTiling sx,
              dy := regularTiling dh.toNat cy, dx := regularTiling dw.toNat cx,
              deps := deps, srcNd := sn, dstNd := dn }, ⟨nudge lo⟩, imgOfRows rows⟩
  | _ => none

def run (args : List String) : Option String :=
  match args with
  | ["fill", k, dn, sn] => do
    let k ← parseKind? k; let dn ← parseOpt? parseVal? dn; let sn ← parseOpt? parseVal? sn
    pure (fmtVal (resolveFill dn sn k))
  | ["xrnd", a, s, d] => do
    let a ← parseOpt? parseVal? a; let s ← parseOpt? parseVal? s; let d ← parseOpt? parseVal? d
    let (s', d') := xrNodata a s d
    pure s!"{fmtOpt fmtVal s'} {fmtOpt fmtVal d'}"
  | ["tiling", N, n] => do
    let N ← parseNat? N; let n ← parseNat? n
    if n = 0 then pure ErrKind.zeroDiv.toStr else pure (fmtList fmtSpan (regularTiling N n))
  | ["clip", sy, sx, sel] => do
    let sy ← parseList? parseNat? sy; let sx ← parseList? parseNat? sx
    let sel ← parseIdxList? sel
    let r : Option String := do
      let (y1, y2) ← minMax (sel.map (·.1))
      let (x1, x2) ← minMax (sel.map (·.2))
      let (wy, cy) ← clipSpans (chunksTiling sy) y1 y2
      let (wx, cx) ← clipSpans (chunksTiling sx) x1 x2
      pure s!"{fmtSpan wy} {fmtSpan wx} {fmtList fmtSpan cy} {fmtList fmtSpan cx} {fmtList fmtTIdx (sel.map fun i => (i.1 - y1, i.2 - x1))}"
    pure (r.getD (if sel.isEmpty then ErrKind.valueError.toStr else ErrKind.indexError.toStr))
  | ["asm", k, sn, cy, cx, present, data] => do
    -- BlockAssembler({idx: block}, chunks).extract(src_nodata, dtype=dtype)
    let k ← parseKind? k; let sn ← parseOpt? parseVal? sn
    let cy ← parseList? parseNat? cy; let cx ← parseList? parseNat? cx
    let present ← parseIdxList? present
    let rows ← parseRows? data
    let ty := chunksTiling cy; let tx := chunksTiling cx
    let h : Int := (cy.foldl (· + ·) 0 : Nat); let w : Int := (cx.foldl (· + ·) 0 : Nat)
    let r : Option Img := do
      let blocks ← mapOpt (srcBlock (imgOfRows rows) ty tx) present
      assemble ty tx (present.zip blocks) (full h w (extractFill sn k))
    match r with
    | some img => pure (fmtImg h w img)
    | none => pure ErrKind.indexError.toStr
  | ["lindeps", S, D, sh, sw, dh, dw, sy, sx, cy, cx, ttol, stol, tol, sttol] => do
    -- `GeoboxTiles(d_gbox, (cy, cx)).grid_intersect(GeoboxTiles(s_gbox, (sy, sx)))` on the linear path,
    -- through the C12 model of `_check_linear` (with `snap_affine`) and `_grid_intersect_linear`
    let S ← parseAff? S; let D ← parseAff? D
    let sh ← parseInt? sh; let sw ← parseInt? sw; let dh ← parseInt? dh; let dw ← parseInt? dw
    let sy ← parseList? parseInt? sy; let sx ← parseList? parseInt? sx
    let cy ← parseInt? cy; let cx ← parseInt? cx
    let ttol ← parseRat? ttol; let stol ← parseRat? stol; let tol ← parseRat? tol; let sttol ← parseRat? sttol
    let src : C12.GBT := ⟨sh, sw, ⟨.var sy, .var sx⟩⟩
    let dst : C12.GBT := ⟨dh, dw, ⟨.reg dh cy, .reg dw cx⟩⟩
    match C12.checkLinear S D ttol stol tol sttol with
    | .error e => pure e.toStr
    | .ok none => pure "general"
    | .ok (some A) =>
      pure (fmtRes (fun g => if g.isEmpty then "-" else "|".intercalate (g.map fun e =>
        s!"{e.1.1}.{e.1.2}=" ++ "+".intercalate (e.2.map fun i => s!"{i.1}.{i.2}")))
        (C12.gridIntersectLinear dst src A))
  | "nd" :: ydim :: tables :: planes :: rest => do
    -- N-d `_dask_rio_reproject(...).compute()`: spatial axes at `ydim`, one chunk list per other axis
    -- (`[2,2,1]/[1,2]`, `-` = none), source planes in row-major order of the non-spatial index, `/`-separated
    let x ← parseCommon? rest
    let ydim ← parseNat? ydim
    let tabs ← if tables = "-" then some [] else (tables.splitOn "/").mapM (parseList? parseNat?)
    let pls ← (planes.splitOn "/").mapM parseRows?
    let shape : List Nat := tabs.map fun t => t.foldl (· + ·) 0
    let tilings := tabs.map chunksTiling
    -- all non-spatial indices, row-major
    let idxs : List (List Int) := shape.foldr (fun n acc =>
      (List.range n).flatMap fun (i : Nat) => acc.map fun r => (i : Int) :: r) [[]]
    let flat (e : List Int) : Nat := (e.zip shape).foldl (fun a (v, n) => a * n + v.toNat) 0
    let arr : List Int → Option Val := fun full => do
      let (e, y, xx) ← splitYX ydim full
      if e.length ≠ shape.length ∨ (e.zip shape).any (fun (v, n) => v < 0 ∨ v ≥ (n : Int)) then none
      else
        let pl ← pls[flat e]?
        imgOfRows pl (y, xx)
    pure ("/".intercalate (idxs.map fun e =>
      fmtImg x.c.dstH x.c.dstW fun p => daskResultFull ydim tilings x.c x.G arr (withYX ydim e p.1 p.2)))
  | ["kw", r, sn, dn, ydim, extras] => do
    -- keywords bound into every chunk task of `_dask_rio_reproject`; extras `k=v,k=v` or `-`
    let sn ← parseOpt? parseVal? sn; let dn ← parseOpt? parseVal? dn; let ydim ← parseNat? ydim
    let kw ← parseKwList? extras
    pure (fmtRes (fun (k : WarpKw) =>
      s!"resampling={k.resampling};src_nodata={fmtOpt fmtVal k.srcNd};dst_nodata={fmtOpt fmtVal k.dstNd};axis={k.axis};" ++
        ",".intercalate (k.extra.map fun p => s!"{p.1}={p.2}")) (chunkTaskKw r sn dn ydim kw))
  | ["fillraw", b, lo, hi, dn, sn] => do
    -- `resolve_fill_value(dst_nodata, src_nodata, <integer dtype lo..hi>)`, b = T: code of fix2-C13
    let b ← parseBool? b; let lo ← parseInt? lo; let hi ← parseInt? hi
    let dn ← parseOpt? parseRaw? dn; let sn ← parseOpt? parseRaw? sn
    pure (fmtGRes toString (resolveFillInt b ⟨lo, hi⟩ dn sn))
  | ["wholefill", lo, hi, dn, sn] => do
    -- what the warp leaves in an unreached pixel of an integer raster (rasterio range test + GDAL init)
    let lo ← parseInt? lo; let hi ← parseInt? hi
    let dn ← parseOpt? parseRaw? dn; let sn ← parseOpt? parseRaw? sn
    pure (fmtGRes toString (wholeFillInt ⟨lo, hi⟩ dn sn))
  | ["masks", sn, p] => do
    let sn ← parseOpt? parseRaw? sn; let p ← parseInt? p
    pure (fmtBool (warpMasks sn p))
  | ["chunks", H, W, sy, sx, arg] => do
    let H ← parseNat? H; let W ← parseNat? W
    let sy ← parseList? parseNat? sy; let sx ← parseList? parseNat? sx
    let arg ← parseChunkArg? arg
    pure (fmtGRes fmtTilings (dstTilings H W sy sx arg))
  | ["declared", ydim, srcChunks, H, W, arg] => do
    -- `.shape`, `.chunks`, `.numblocks` of the array `_dask_rio_reproject` returns; source chunks `[..]/[..]/[..]`
    let ydim ← parseNat? ydim; let H ← parseNat? H; let W ← parseNat? W
    let sc ← (srcChunks.splitOn "/").mapM (parseList? parseNat?)
    let arg ← parseChunkArg? arg
    match sc[ydim]?, sc[ydim + 1]? with
    | some sy, some sx =>
      pure (fmtGRes (fun (t : List Span × List Span) =>
        let d := declared ydim (sc.map fun c => c.map Int.ofNat) H W t.1 t.2
        s!"{fmtList toString d.shape} " ++ "/".intercalate (d.chunks.map (fmtList toString)) ++ s!" {fmtList toString d.blocks}")
        (dstTilings H W sy sx arg))
    | _, _ => none
  | "xr" :: mode :: attr :: arg :: rest => do
    -- `xr_reproject(src [dask|numpy], dst_geobox, src_nodata=<sn field>, dst_nodata=<dn field>, chunks=arg)`,
    -- `attr` = the nodata attribute of the source; destination chunk fields of the common part are unused
    let x ← parseCommon? rest
    let attr ← parseOpt? parseVal? attr
    let arg ← parseChunkArg? arg
    let sy ← match rest with
      | _ :: _ :: _ :: _ :: _ :: _ :: _ :: _ :: _ :: _ :: _ :: sy :: _ => parseList? parseNat? sy
      | _ => none
    let sx ← match rest with
      | _ :: _ :: _ :: _ :: _ :: _ :: _ :: _ :: _ :: _ :: _ :: _ :: sx :: _ => parseList? parseNat? sx
      | _ => none
    let a : XrArgs := { kind := x.c.kind, srcH := x.c.srcH.toNat, srcW := x.c.srcW.toNat, S := x.c.S,
                        dstH := x.c.dstH.toNat, dstW := x.c.dstW.toNat, D := x.c.D, sy := sy, sx := sx,
                        attrNd := attr, kwSrcNd := x.c.srcNd, dstNd := x.c.dstNd, chunks := arg }
    if mode = "dask" then
      pure (fmtGRes (fmtImg x.c.dstH x.c.dstW) (xrDask a x.G x.c.deps x.src))
    else if mode = "numpy" then
      pure (fmtImg x.c.dstH x.c.dstW (xrNumpy a x.G x.src (full x.c.dstH x.c.dstW (.num 77))))
    else none
  | "warpaffine" :: rest => do
    -- `warp_affine(src, dst, A, "nearest", src_nodata, dst_nodata)`; `A` is the D field, S is unused
    let x ← parseCommon? rest
    let buf := full x.c.dstH x.c.dstW (.num 55)
    pure (fmtImg x.c.dstH x.c.dstW
      (warpAffine x.c.variant x.G x.c.kind x.src x.c.srcH x.c.srcW buf x.c.D x.c.srcNd x.c.dstNd))
  | ["isnn", name] => pure (fmtBool (isResamplingNN name))
  | ["rioydim", ndim, ydim] => do
    let ndim ← parseNat? ndim; let ydim ← parseOpt? parseNat? ydim
    pure (toString (rioYdim ndim ydim))
  | ["gdalkw", path, r, sn, dn, ydim, extras] => do
    -- keywords reaching rasterio.warp.reproject from a chunk task (`chunk`) / the in-memory call (`whole`)
    let sn ← parseOpt? parseVal? sn; let dn ← parseOpt? parseVal? dn; let ydim ← parseNat? ydim
    let kw ← parseKwList? extras
    let res ← if path = "chunk" then some (gdalKwOfChunk r sn dn ydim kw)
      else if path = "whole" then some (gdalKwOfWhole r sn dn ydim kw) else none
    pure (fmtRes (fun (k : WarpKw) =>
      s!"resampling={k.resampling};src_nodata={fmtOpt fmtVal k.srcNd};dst_nodata={fmtOpt fmtVal k.dstNd};" ++
        ",".intercalate (k.extra.map fun p => s!"{p.1}={p.2}")) res)
  | ["xrfill", path, chk, lo, hi, wlo, whi, attr, kwsn, dn] => do
    -- unreached pixel of `xr_reproject(<dask|numpy>-backed integer raster lo..hi warped in wlo..whi, nodata attr, src_nodata=, dst_nodata=)`;
    -- chk = T: with the entry check of fix3-C13
    let chk ← parseBool? chk; let lo ← parseInt? lo; let hi ← parseInt? hi; let wlo ← parseInt? wlo; let whi ← parseInt? whi
    let attr ← parseOpt? parseRaw? attr; let kwsn ← parseOpt? parseRaw? kwsn; let dn ← parseOpt? parseRaw? dn
    if path = "dask" then pure (fmtGRes toString (xrFillDask chk ⟨lo, hi⟩ attr kwsn dn))
    else if path = "whole" then pure (fmtGRes toString (xrFillWhole chk ⟨lo, hi⟩ ⟨wlo, whi⟩ attr kwsn dn))
    else none
  | ["fillfloat", p, v] => do
    -- a nodata converted to a binary float type with p significant bits
    let p ← parseNat? p; let v ← parseRaw? v
    pure (match fillFloat p v with
      | .nan => "n"
      | .num q => fmtRat q)
  | ["chunksh", H, W, sy, sx, arg] => do
    -- the destination tiling with the error classes of /repo HEAD (GeoboxTiles refuses non-adding chunk tuples: ValueError)
    let H ← parseNat? H; let W ← parseNat? W
    let sy ← parseList? parseNat? sy; let sx ← parseList? parseNat? sx
    let arg ← parseChunkArg? arg
    pure (fmtGRes fmtTilings (dstTilingsH H W sy sx arg))
  | ["ieee", p, emin, emax, v] => do
    -- a nodata converted to a binary float format: p significant bits, normal exponents emin..emax
    let p ← parseNat? p; let emin ← parseInt? emin; let emax ← parseInt? emax; let v ← parseRaw? v
    pure (match roundIEEE p emin emax v with
      | .nan => "n"
      | .inf false => "inf"
      | .inf true => "-inf"
      | .fin q => fmtRat q)
  | ["dsplan", vars] => do
    -- `name:T|F,...`: T = the variable has a geobox
    let vs ← (vars.splitOn ",").mapM fun e => match e.splitOn ":" with
      | [n, b] => (parseBool? b).map fun b => (n, b)
      | _ => none
    pure (",".intercalate ((dsPlan vs).map fun p => s!"{p.1}:{p.2}"))
  | ["gideps", S, D, sh, sw, dh, dw, sy, sx, arg] => do
    -- `GeoboxTiles(d_gbox, chunks).grid_intersect(GeoboxTiles(s_gbox, (sy, sx)))` on the same-CRS general path through the
    -- C12Gi model (footprints of `polygon_from_transform`, convex disjointness); `arg` as for `chunks`
    let S ← parseAff? S; let D ← parseAff? D
    let sh ← parseNat? sh; let sw ← parseNat? sw; let dh ← parseNat? dh; let dw ← parseNat? dw
    let sy ← parseList? parseNat? sy; let sx ← parseList? parseNat? sx
    let arg ← parseChunkArg? arg
    let t2 : C04.Tiling2 := match arg with
      | .default => ⟨.reg (dh : Int) (chunkSize sy : Nat), .reg (dw : Int) (chunkSize sx : Nat)⟩
      | .pair cy cx => ⟨.reg (dh : Int) cy, .reg (dw : Int) cx⟩
      | .var ys xs => ⟨.var (ys.map Int.ofNat), .var (xs.map Int.ofNat)⟩
    let dst : C12.TGB := ⟨some 1, true, D, ⟨dh, dw, t2⟩⟩
    let src : C12.TGB := ⟨some 1, true, S, ⟨sh, sw, ⟨.var (sy.map Int.ofNat), .var (sx.map Int.ofNat)⟩⟩⟩
    pure (fmtRes (fun g => if g.isEmpty then "-" else "|".intercalate (g.map fun e =>
      s!"{e.1.1}.{e.1.2}=" ++ "+".intercalate (e.2.map fun i => s!"{i.1}.{i.2}")))
      (C12.gridIntersectSameCrs dst src))
  | "warp" :: rest => do
    -- `_rio_reproject` on a caller buffer (no NaN default); chunk fields unused
    let x ← parseCommon? rest
    let buf := full x.c.dstH x.c.dstW (.num 55)
    pure (fmtImg x.c.dstH x.c.dstW
      (rioReprojectPlane x.c.variant x.G x.c.kind x.src x.c.srcH x.c.srcW buf x.c.S x.c.D x.c.srcNd x.c.dstNd))
  | "numpy" :: rest => do
    -- `rio_reproject(src, np.empty(...), …)`
    let x ← parseCommon? rest
    let buf := full x.c.dstH x.c.dstW (.num 77)
    pure (fmtImg x.c.dstH x.c.dstW (wholeResult x.c x.G x.src buf))
  | "dask" :: rest => do
    -- `_dask_rio_reproject(...).compute()`
    let x ← parseCommon? rest
    pure (fmtImg x.c.dstH x.c.dstW (daskResult x.c x.G x.src))
  | "exec" :: order :: rest => do
    -- run the task graph in the given order, read the destination blocks back from the store
    let x ← parseCommon? rest
    let order ← if order = "-" then some [] else (order.splitOn ",").mapM parseKey?
    match runOrder (graph x.c x.G x.src) order [] with
    | none => pure ErrKind.runtimeError.toStr
    | some st =>
      let img : Img := fun d => do
        let iy ← locate x.c.dy d.1
        let ix ← locate x.c.dx d.2
        let ty ← x.c.dy[iy]?
        let tx ← x.c.dx[ix]?
        let blk ← st.lookup (Key.dst (iy, ix))
        blk (d.1 - ty.1, d.2 - tx.1)
      pure (fmtImg x.c.dstH x.c.dstW img)
  | _ => none

end OdcGeo.C13.Drv
