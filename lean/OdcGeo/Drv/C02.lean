import OdcGeo.Model.C02
namespace OdcGeo.C02.Drv
open OdcGeo OdcGeo.IO OdcGeo.C02 OdcGeo.C17

/-
Line protocol (after the `c02` tag):  `<op> <ny> <nx> <a;b;c;d;e;f> <crs> args…`
A geobox is printed as `ny nx a;b;c;d;e;f crs`.
-/

/-- `i:<int>` or `s:<a>:<b>` with `N` for None -/
def parsePIdx? (s : String) : Option PIdx :=
  match s.splitOn ":" with
  | ["i", k] => (parseInt? k).map PIdx.idx
  | ["s", a, b] =>
    match parseOpt? parseInt? a, parseOpt? parseInt? b with
    | some a, some b => some (.slc a b)
    | _, _ => none
  | _ => none

def parseGB? (ny nx aff crs : String) : Option GeoBox := do
  let ny ← parseInt? ny; let nx ← parseInt? nx
  let A ← parseAff? aff; let crs ← parseNat? crs
  pure ⟨ny, nx, A, crs⟩

def fmtGB (g : GeoBox) : String := s!"{g.ny} {g.nx} {fmtAff g.A} {g.crs}"
def fmtPt (p : Pt) : String := s!"{fmtRat p.1} {fmtRat p.2}"
def fmtPtS (p : Pt) : String := s!"{fmtRat p.1};{fmtRat p.2}"

def parsePt? (s : String) : Option Pt :=
  match s.splitOn ";" with
  | [x, y] => match parseRat? x, parseRat? y with
    | some x, some y => some (x, y)
    | _, _ => none
  | _ => none

def runOp (op : String) (g : GeoBox) (args : List String) : Option String :=
  match op, args with
  | "p2w", [x, y] => do
    let x ← parseRat? x; let y ← parseRat? y
    pure (fmtPt (pix2wld g (x, y)))
  | "w2p", [x, y] => do
    let x ← parseRat? x; let y ← parseRat? y
    pure (fmtRes fmtPt (wld2pix g (x, y)))
  | "extent", [] => pure (fmtList fmtPtS (extent g))
  | "bbox", [] =>
    let b := boundingbox g
    pure s!"{fmtRat b.left} {fmtRat b.bottom} {fmtRat b.right} {fmtRat b.top}"
  | "coords", [] =>
    pure (fmtRes (fun (ys, xs) => s!"{fmtList fmtRat ys} {fmtList fmtRat xs}") (coordinates g))
  | "res", [n, m] => do
    let n ← parseRat? n; let m ← parseRat? m
    pure (fmtRes fmtPt (resolution g n m))
  | "cropV", [inpix, pts] => do
    let inpix ← parseBool? inpix
    let pts ← parseList? parsePt? pts
    pure (fmtRes fmtGB (cropRegion g inpix pts))
  | "align", [] => pure (fmtRes fmtPt (alignment g))
  | "bnd", [n] => do
    let n ← parseNat? n
    pure (fmtList fmtPtS (boundary g n))
  | "encl", [pts] => do
    let pts ← parseList? parsePt? pts
    pure (fmtRes fmtGB (enclosing g pts))
  | "gcps", [pts] => do
    let pts ← parseList? parsePt? pts
    pure (fmtRes (fun l => fmtList (fun (cp : Pt × Pt) => fmtPtS cp.1) l) (gcpGcps g (pts.map (fun q => (q, q)))))
  | "mapb", [] =>
    let m := mapBounds g
    pure s!"{fmtRat m.1.1} {fmtRat m.1.2} {fmtRat m.2.1} {fmtRat m.2.2}"
  | "crop1", [s] => do
    let s ← parsePIdx? s
    pure (fmtGB (crop g (.one s)))
  | "crop2", [sy, sx] => do
    let sy ← parsePIdx? sy; let sx ← parsePIdx? sx
    pure (fmtGB (crop g (.two sy sx)))
  | "pad", [px, py] => do
    let px ← parseInt? px; let py ← parseOpt? parseInt? py
    pure (fmtGB (pad g px py))
  | "padwh", [ax, ay] => do
    let ax ← parseInt? ax; let ay ← parseOpt? parseInt? ay
    pure (fmtRes fmtGB (padWh g ax ay))
  | "resize", [ny, nx] => do
    let ny ← parseInt? ny; let nx ← parseInt? nx
    pure (fmtGB (resize g ny nx))
  | "tpix", [tx, ty] => do
    let tx ← parseRat? tx; let ty ← parseRat? ty
    pure (fmtGB (translatePix g tx ty))
  | "left", [] => pure (fmtGB (left g))
  | "right", [] => pure (fmtGB (right g))
  | "top", [] => pure (fmtGB (top g))
  | "bottom", [] => pure (fmtGB (bottom g))
  | "flipx", [] => pure (fmtGB (flipx g))
  | "flipy", [] => pure (fmtGB (flipy g))
  | "rot", [c, s] => do
    let c ← parseRat? c; let s ← parseRat? s
    pure (fmtGB (rotate g c s))
  | "cpix", [] => pure (fmtGB (centerPixel g))
  | "mul", [t] => do
    let t ← parseAff? t
    pure (fmtGB (mulPix g t))
  | "rmul", [t] => do
    let t ← parseAff? t
    pure (fmtGB (mulWld t g))
  | "zout", [f] => do
    let f ← parseRat? f
    pure (fmtRes fmtGB (zoomOut g f))
  | "ztos", [ny, nx] => do
    let ny ← parseInt? ny; let nx ← parseInt? nx
    pure (fmtRes fmtGB (zoomToShape g ny nx))
  | "zton", [n] => do
    let n ← parseRat? n
    pure (fmtRes fmtGB (zoomToNum g n))
  | "ztor", [rx, ry] => do
    let rx ← parseRat? rx; let ry ← parseRat? ry
    pure (fmtRes fmtGB (zoomToRes g rx ry))
  | "sdown", [k] => do
    let k ← parseInt? k
    pure (fmtRes fmtGB (scaledDown g k))
  | "buf", [n, m, xb, yb] => do
    let n ← parseRat? n; let m ← parseRat? m
    let xb ← parseRat? xb; let yb ← parseOpt? parseRat? yb
    pure (fmtRes fmtGB (buffered g n m xb yb))
  | _, _ => none

/-- keep only the shape (`ny nx`) of a printed geobox; errors pass through -/
def shapeOnly (out : String) : String :=
  match out.splitOn " " with
  | ny :: nx :: _ :: _ => s!"{ny} {nx}"
  | _ => out

/-- `S:<op>` prints only the shape of the result (used where the affine of the real code
is not exactly representable but the shape law is decided exactly). -/
def run (args : List String) : Option String :=
  match args with
  | ["acc", name] => some (fmtBool (accessorKnown name))
  | ["idxkind", name] => some (indexKind name)
  | ["fitkind", n] => do
    let n ← parseNat? n
    pure (fmtRes (fun (k : Nat) => toString k) (fitKind n))
  | ["cropGB", ny, nx, aff, crs, ny2, nx2, aff2, crs2] => do
    let g ← parseGB? ny nx aff crs
    let w ← parseGB? ny2 nx2 aff2 crs2
    pure (fmtRes fmtGB (cropGeoBox g w))
  | op :: ny :: nx :: aff :: crs :: rest => do
    let g ← parseGB? ny nx aff crs
    if op.startsWith "S:" then (runOp (op.drop 2).toString g rest).map shapeOnly else runOp op g rest
  | _ => none

end OdcGeo.C02.Drv
