import OdcGeo.Model.C02
namespace OdcGeo.C02.Drv
open OdcGeo OdcGeo.IO

def run (args : List String) : Option String :=
  match args with
  | _ => none

end OdcGeo.C02.Drv
