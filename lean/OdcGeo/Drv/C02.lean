import OdcGeo.Model.C02
import OdcGeo.Model.C02Glue
import OdcGeo.Model.C02Seq
namespace OdcGeo.C02.Drv
open OdcGeo OdcGeo.IO OdcGeo.C02 OdcGeo.C17

/-
Line protocol (after the `c02` tag):  `<op> <ny> <nx> <a;b;c;d;e;f> <crs> args…`
A geobox is printed as `ny nx a;b;c;d;e;f crs`.
-/

/-- `i:<int>` or `s:<a>:<b>` with `N` for None -/
def parsePIdx? (s : String) : Option PIdx :=
  match s.splitOn ":" with
  | ["i", k] => (parseInt? k).map PIdx.idx
  | ["s", a, b] =>
    match parseOpt? parseInt? a, parseOpt? parseInt? b with
    | some a, some b => some (.slc a b)
    | _, _ => none
  | _ => none

def parseGB? (ny nx aff crs : String) : Option GeoBox := do
  let ny ← parseInt? ny; let nx ← parseInt? nx
  let A ← parseAff? aff; let crs ← parseNat? crs
  pure ⟨ny, nx, A, crs⟩

def fmtGB (g : GeoBox) : String := s!"{g.ny} {g.nx} {fmtAff g.A} {g.crs}"
def fmtPt (p : Pt) : String := s!"{fmtRat p.1} {fmtRat p.2}"
def fmtPtS (p : Pt) : String := s!"{fmtRat p.1};{fmtRat p.2}"

def parsePt? (s : String) : Option Pt :=
  match s.splitOn ";" with
  | [x, y] => match parseRat? x, parseRat? y with
    | some x, some y => some (x, y)
    | _, _ => none
  | _ => none

/-! glue ops: argument syntax
  PyNum      `i5` | `f7/2`
  ShapeArg   `S,ny,nx` | `X,<x>,<y>` | `Q,<n>,<n>,…` (`Q` = empty sequence) | `O`
  ResArg     `n,<num>` | `r,<x>,<y>` | `O`        (optional: `N`)
  ZoomArg    `N` | `#<num>` | <ShapeArg>
  IdxS       `i:<k>` | `s:<a>:<b>:<step>`         (each `N` for None)
-/
def parsePyNum? (s : String) : Option PyNum :=
  if s.startsWith "i" then (parseInt? (s.drop 1).toString).map PyNum.int
  else if s.startsWith "f" then (parseRat? (s.drop 1).toString).map PyNum.flt
  else none

def parseShapeArg? (s : String) : Option ShapeArg :=
  match s.splitOn "," with
  | ["S", ny, nx] => do
    let ny ← parseInt? ny; let nx ← parseInt? nx
    pure (.shape2d ny nx)
  | ["X", x, y] => do
    let x ← parsePyNum? x; let y ← parsePyNum? y
    pure (.xy x y)
  | "Q" :: rest => (rest.mapM parsePyNum?).map ShapeArg.seq
  | ["O"] => some .other
  | _ => none

def parseResArg? (s : String) : Option ResArg :=
  match s.splitOn "," with
  | ["n", r] => (parsePyNum? r).map ResArg.num
  | ["r", x, y] => do
    let x ← parseRat? x; let y ← parseRat? y
    pure (.res x y)
  | ["O"] => some .other
  | _ => none

def parseZoomArg? (s : String) : Option ZoomArg :=
  if s = "N" then some .none
  else if s.startsWith "#" then (parsePyNum? (s.drop 1).toString).map ZoomArg.num
  else (parseShapeArg? s).map ZoomArg.shape

def parseIdxS? (s : String) : Option IdxS :=
  match s.splitOn ":" with
  | ["i", k] => (parseInt? k).map IdxS.idx
  | ["s", a, b, c] => do
    let a ← parseOpt? parseInt? a; let b ← parseOpt? parseInt? b; let c ← parseOpt? parseInt? c
    pure (.slc a b c)
  | _ => none

/-- `<crs> B <l> <b> <r> <t>` or `<crs> G [pts]` -/
def parseRegion? (toks : List String) : Option Region :=
  match toks with
  | [crs, "B", l, b, r, t] => do
    let crs ← parseNat? crs
    let l ← parseRat? l; let b ← parseRat? b; let r ← parseRat? r; let t ← parseRat? t
    pure (.bbox crs l b r t)
  | [crs, "G", pts] => do
    let crs ← parseNat? crs
    let pts ← parseList? parsePt? pts
    pure (.geom crs pts)
  | _ => none

/-- control point `px;py;wx;wy` -/
def parseCp? (s : String) : Option (Pt × Pt) :=
  match (s.splitOn ";").mapM parseRat? with
  | some [a, b, c, d] => some ((a, b), (c, d))
  | _ => none

def fmtCp (cp : Pt × Pt) : String := s!"{fmtRat cp.1.1};{fmtRat cp.1.2};{fmtRat cp.2.1};{fmtRat cp.2.2}"

/-- the driver has no pyproj: regions in another CRS are refused (`bad-op`), never answered -/
def sameOrNoCrs (g : GeoBox) (crs : Nat) : Bool := crs == 0 || g.crs == 0 || crs == g.crs

def noReproj : Nat → Nat → Pt → Pt := fun _ _ p => p

/-- both sides carry a CRS and the tags differ: the only case in which a reprojection table is consulted -/
def otherCrs (g : GeoBox) (crs : Nat) : Bool := crs != 0 && g.crs != 0 && crs != g.crs

def splitLast? (toks : List String) : Option (List String × String) :=
  match toks.reverse with
  | [] => none
  | t :: rest => some (rest.reverse, t)

def parseKind? (s : String) : Option CrsKind :=
  if s = "N" then some .none else if s = "G" then some .geographic else if s = "P" then some .projected else none

def runGlue (op : String) (g : GeoBox) (args : List String) : Option String :=
  match op, args with
  | "rsz", [s] => do
    let s ← parseShapeArg? s
    pure (fmtRes fmtGB (resizeArg g s))
  | "zto", [z, r] => do
    let z ← parseZoomArg? z
    let r ← parseOpt? parseResArg? r
    pure (fmtRes fmtGB (zoomTo g z r))
  | "gi1", [s] => do
    let s ← parseIdxS? s
    pure (fmtRes fmtGB (getitem noReproj g (.one s)))
  | "giS", [l] => do
    let l ← parseList? parseIdxS? l
    pure (fmtRes fmtGB (getitem noReproj g (.seq l)))
  | "giR", toks => do
    let r ← parseRegion? toks
    if sameOrNoCrs g r.crs then pure (fmtRes fmtGB (getitem noReproj g (.region r))) else none
  | "enclA", toks => do
    let r ← parseRegion? toks
    if sameOrNoCrs g r.crs then pure (fmtRes fmtGB (enclosingArg noReproj g r)) else none
  | "proj", [crs, pts] => do
    let crs ← parseNat? crs
    let pts ← parseList? parsePt? pts
    if sameOrNoCrs g crs then
      pure (fmtRes (fun (o : Nat × List Pt) => s!"{o.1} {fmtList fmtPtS o.2}") (project noReproj g crs pts))
    else none
  | "empty", [] => pure (fmtBool (isEmpty g))
  | "aspect", [] => pure (fmtRes fmtRat (aspect g))
  | "rres", [n] => do
    let n ← parseInt? n
    pure (fmtRes fmtRat (reprojectResolution g n))
  | "fbuf", [n, m, b] => do
    let n ← parseRat? n; let m ← parseRat? m; let b ← parseRat? b
    pure (fmtRes (fmtOpt fmtRat) (footprintBufferDist g n m b))
  | "gp2w", [B, x, y] => do
    let B ← parseAff? B; let x ← parseRat? x; let y ← parseRat? y
    pure (fmtPt (gcpPix2wld B.apply g (x, y)))
  | "gw2p", [B, x, y] => do
    let B ← parseAff? B; let x ← parseRat? x; let y ← parseRat? y
    if B.det = 0 then none else pure (fmtRes fmtPt (gcpWld2pix B.inv.apply g (x, y)))
  | "gext", [B] => do
    let B ← parseAff? B
    pure (fmtList fmtPtS (gcpExtent B.apply g))
  | "gbbox", [B] => do
    let B ← parseAff? B
    pure (fmtRes (fun (b : BBox) => s!"{fmtRat b.left} {fmtRat b.bottom} {fmtRat b.right} {fmtRat b.top}") (gcpBoundingbox B.apply g))
  | "gmapb", [B] => do
    let B ← parseAff? B
    pure (fmtRes (fun (m : (Rat × Rat) × (Rat × Rat)) => s!"{fmtRat m.1.1} {fmtRat m.1.2} {fmtRat m.2.1} {fmtRat m.2.2}")
      (gcpMapBounds B.apply g))
  | "gtocrs", [cps, dst] => do
    let cps ← parseList? parseCp? cps
    let dst ← parseNat? dst
    pure (fmtRes (fun (o : GeoBox × List (Pt × Pt)) => s!"{fmtGB o.1} {fmtList fmtCp o.2}") (gcpToCrs (fun w => w) g cps dst))
  | "rotq", [k] => do
    let k ← parseInt? k
    pure (fmtGB (rotateQuarter g k))
  | "giRT", toks => do
    let (rt, table) ← splitLast? toks
    let r ← parseRegion? rt
    let table ← parseList? parseCp? table
    if otherCrs g r.crs && tableCovers table r.pts then pure (fmtRes fmtGB (getitem (tableReproj table) g (.region r))) else none
  | "enclT", toks => do
    let (rt, table) ← splitLast? toks
    let r ← parseRegion? rt
    let table ← parseList? parseCp? table
    if otherCrs g r.crs && tableCovers table r.pts then pure (fmtRes fmtGB (enclosingArg (tableReproj table) g r)) else none
  | "projT", [crs, pts, table] => do
    let crs ← parseNat? crs
    let pts ← parseList? parsePt? pts
    let table ← parseList? parseCp? table
    if otherCrs g crs && tableCovers table pts then
      pure (fmtRes (fun (o : Nat × List Pt) => s!"{o.1} {fmtList fmtPtS o.2}") (project (tableReproj table) g crs pts))
    else none
  | "cmeta", [k] => do
    let k ← parseKind? k
    pure (fmtRes (fmtList (fun (e : String × Rat) => s!"{e.1}:{fmtRat e.2}")) (coordsMeta g k))
  | "gextk", [k] => do
    let k ← parseKind? k
    pure (fmtBool (geographicExtentIsExtent k))
  | "qr2", [n, pad, off] => do
    let n ← parseNat? n
    let pad ← parseOpt? parseRat? pad
    let off ← parseInt? off
    pure (fmtList fmtPtS (qr2sample C14.fl64 (fun x => x) g n pad off))
  | "fplan", [n, m, dst, b, np] => do
    let n ← parseRat? n; let m ← parseRat? m; let dst ← parseNat? dst
    let b ← parseRat? b; let np ← parseInt? np
    pure (fmtRes (fun (pl : FootprintPlan) => s!"{fmtOpt fmtRat pl.bufferDist} {fmtRat pl.step} {fmtBool pl.sameCrs}")
      (footprintPlan g n m dst b np))
  | "cunits", [k, uy, ux] => do
    let k ← parseKind? k
    let u := coordUnits k (uy, ux)
    pure s!"{u.1} {u.2}"
  | "giO", [len, sq, sl] => do
    let len ← parseOpt? parseNat? len
    let sq ← parseBool? sq; let sl ← parseBool? sl
    pure (match getitemOther ⟨len, sq, sl⟩ with
      | .ok () => "ok"
      | .error .typeError => "ERR:TypeError"
      | .error .valueError => "ERR:ValueError"
      | .error .attributeError => "ERR:AttributeError"
      | .error .notImplemented => "ERR:NotImplemented")
  | "gcpres", [B, n, m] => do
    let B ← parseAff? B; let n ← parseRat? n; let m ← parseRat? m
    pure (fmtRes fmtPt (gcpResolution B g n m))
  | _, _ => none

def runOp (op : String) (g : GeoBox) (args : List String) : Option String :=
  match op, args with
  | "p2w", [x, y] => do
    let x ← parseRat? x; let y ← parseRat? y
    pure (fmtPt (pix2wld g (x, y)))
  | "w2p", [x, y] => do
    let x ← parseRat? x; let y ← parseRat? y
    pure (fmtRes fmtPt (wld2pix g (x, y)))
  | "extent", [] => pure (fmtList fmtPtS (extent g))
  | "bbox", [] =>
    let b := boundingbox g
    pure s!"{fmtRat b.left} {fmtRat b.bottom} {fmtRat b.right} {fmtRat b.top}"
  | "coords", [] =>
    pure (fmtRes (fun (ys, xs) => s!"{fmtList fmtRat ys} {fmtList fmtRat xs}") (coordinates g))
  | "res", [n, m] => do
    let n ← parseRat? n; let m ← parseRat? m
    pure (fmtRes fmtPt (resolution g n m))
  | "cropV", [inpix, pts] => do
    let inpix ← parseBool? inpix
    let pts ← parseList? parsePt? pts
    pure (fmtRes fmtGB (cropRegion g inpix pts))
  | "align", [] => pure (fmtRes fmtPt (alignment g))
  | "bnd", [n] => do
    let n ← parseNat? n
    pure (fmtList fmtPtS (boundary g n))
  | "encl", [pts] => do
    let pts ← parseList? parsePt? pts
    pure (fmtRes fmtGB (enclosing g pts))
  | "gcps", [pts] => do
    let pts ← parseList? parsePt? pts
    pure (fmtRes (fun l => fmtList (fun (cp : Pt × Pt) => fmtPtS cp.1) l) (gcpGcps g (pts.map (fun q => (q, q)))))
  | "mapb", [] =>
    let m := mapBounds g
    pure s!"{fmtRat m.1.1} {fmtRat m.1.2} {fmtRat m.2.1} {fmtRat m.2.2}"
  | "crop1", [s] => do
    let s ← parsePIdx? s
    pure (fmtGB (crop g (.one s)))
  | "crop2", [sy, sx] => do
    let sy ← parsePIdx? sy; let sx ← parsePIdx? sx
    pure (fmtGB (crop g (.two sy sx)))
  | "pad", [px, py] => do
    let px ← parseInt? px; let py ← parseOpt? parseInt? py
    pure (fmtGB (pad g px py))
  | "padwh", [ax, ay] => do
    let ax ← parseInt? ax; let ay ← parseOpt? parseInt? ay
    pure (fmtRes fmtGB (padWh g ax ay))
  | "resize", [ny, nx] => do
    let ny ← parseInt? ny; let nx ← parseInt? nx
    pure (fmtGB (resize g ny nx))
  | "tpix", [tx, ty] => do
    let tx ← parseRat? tx; let ty ← parseRat? ty
    pure (fmtGB (translatePix g tx ty))
  | "left", [] => pure (fmtGB (left g))
  | "right", [] => pure (fmtGB (right g))
  | "top", [] => pure (fmtGB (top g))
  | "bottom", [] => pure (fmtGB (bottom g))
  | "flipx", [] => pure (fmtGB (flipx g))
  | "flipy", [] => pure (fmtGB (flipy g))
  | "rot", [c, s] => do
    let c ← parseRat? c; let s ← parseRat? s
    pure (fmtGB (rotate g c s))
  | "cpix", [] => pure (fmtGB (centerPixel g))
  | "mul", [t] => do
    let t ← parseAff? t
    pure (fmtGB (mulPix g t))
  | "rmul", [t] => do
    let t ← parseAff? t
    pure (fmtGB (mulWld t g))
  | "zout", [f] => do
    let f ← parseRat? f
    pure (fmtRes fmtGB (zoomOut g f))
  | "ztos", [ny, nx] => do
    let ny ← parseInt? ny; let nx ← parseInt? nx
    pure (fmtRes fmtGB (zoomToShape g ny nx))
  | "zton", [n] => do
    let n ← parseRat? n
    pure (fmtRes fmtGB (zoomToNum g n))
  | "ztor", [rx, ry] => do
    let rx ← parseRat? rx; let ry ← parseRat? ry
    pure (fmtRes fmtGB (zoomToRes g rx ry))
  | "sdown", [k] => do
    let k ← parseInt? k
    pure (fmtRes fmtGB (scaledDown g k))
  | "buf", [n, m, xb, yb] => do
    let n ← parseRat? n; let m ← parseRat? m
    let xb ← parseRat? xb; let yb ← parseOpt? parseRat? yb
    pure (fmtRes fmtGB (buffered g n m xb yb))
  | _, _ => runGlue op g args

/-- keep only the shape (`ny nx`) of a printed geobox; errors pass through -/
def shapeOnly (out : String) : String :=
  match out.splitOn " " with
  | ny :: nx :: _ :: _ => s!"{ny} {nx}"
  | _ => out

/-- `S:<op>` prints only the shape of the result (used where the affine of the real code
is not exactly representable but the shape law is decided exactly). -/
def run (args : List String) : Option String :=
  match args with
  | ["acc", name] => some (fmtBool (accessorKnown name))
  | ["idxkind", name] => some (indexKind name)
  | ["fitkind", n] => do
    let n ← parseNat? n
    pure (fmtRes (fun (k : Nat) => toString k) (fitKind n))
  | ["mkgcp", shape, aff, crs] => do
    let shape ← parseShapeArg? shape
    let aff ← parseOpt? parseAff? aff
    let crs ← parseNat? crs
    pure (fmtRes fmtGB (mkGcp shape aff crs))
  | ["giG", ny, nx, aff, crs, ny2, nx2, aff2, crs2] => do
    let g ← parseGB? ny nx aff crs
    let w ← parseGB? ny2 nx2 aff2 crs2
    if sameOrNoCrs g w.crs then pure (fmtRes fmtGB (getitem noReproj g (.gbox w))) else none
  | ["giGT", ny, nx, aff, crs, ny2, nx2, aff2, crs2, table] => do
    let g ← parseGB? ny nx aff crs
    let w ← parseGB? ny2 nx2 aff2 crs2
    let table ← parseList? parseCp? table
    if otherCrs g w.crs && tableCovers table (extent w) then pure (fmtRes fmtGB (getitem (tableReproj table) g (.gbox w))) else none
  | ["cropGB", ny, nx, aff, crs, ny2, nx2, aff2, crs2] => do
    let g ← parseGB? ny nx aff crs
    let w ← parseGB? ny2 nx2 aff2 crs2
    pure (fmtRes fmtGB (cropGeoBox g w))
  | op :: ny :: nx :: aff :: crs :: rest => do
    let g ← parseGB? ny nx aff crs
    if op.startsWith "S:" then (runOp (op.drop 2).toString g rest).map shapeOnly else runOp op g rest
  | _ => none

end OdcGeo.C02.Drv
