import OdcGeo.Model.C01
namespace OdcGeo.C01.Drv
open OdcGeo OdcGeo.IO

def run (args : List String) : Option String :=
  match args with
  | _ => none

end OdcGeo.C01.Drv
