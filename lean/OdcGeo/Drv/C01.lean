import OdcGeo.Model.C01
import OdcGeo.Model.C01Glue
namespace OdcGeo.C01.Drv
open OdcGeo OdcGeo.IO OdcGeo.C01

/-- `N` or `objId:epsg:str:cls` -/
def parseTag? (s : String) : Option Tag :=
  if s = "N" then some none
  else match s.splitOn ":" with
    | [a, b, c, d] =>
      match a.toNat?, b.toNat?, c.toNat?, d.toNat? with
      | some a, some b, some c, some d => some (some ⟨a, b, c, d⟩)
      | _, _, _, _ => none
    | _ => none

def fmtTag : Tag → String
  | none => "N"
  | some c => s!"{c.objId}:{c.epsg}:{c.str}:{c.cls}"

def fmtErr : Err → String
  | .crsMismatch => "ERR:CRSMismatch"
  | .valueError => "ERR:ValueError"
  | .assertion => "ERR:AssertionError"
  | .typeError => "ERR:TypeError"
  | .keyError => "ERR:KeyError"
  | .other n => s!"ERR:Other{n}"

def fmtOutTag : Option Tag → String
  | none => "-"
  | some t => fmtTag t

/-- symbolic delegate: operands are their indices, results are expressions that the harness
evaluates with shapely / the CRS-stripped real operation -/
def symD : Delegate Nat String where
  call := fun _ ss => .ok ("call[" ++ ";".intercalate (ss.map toString) ++ "]")
  init := fun _ s => s!"init[{s}]"
  step := fun _ a s => .ok s!"step[{a};{s}]"
  stepT := fun _ a s => s!"stepT[{a};{s}]"
  pix := fun _ s r => .ok s!"pix[{s};{r}]"
  fin := fun _ r bs => .ok ("fin[" ++ ";".intercalate (toString r :: bs) ++ "]")

def indexed (ts : List Tag) : List (Obj Nat) :=
  (ts.zipIdx).map (fun (t, i) => ⟨t, i⟩)

def fmtOut : Except Err (Out String) → String
  | .error e => fmtErr e
  | .ok .nothing => "NONE"
  | .ok (.val t r) => s!"OK tag={fmtOutTag t} {r}"

def walkStr : Walk → String
  | .guardFirst false => "guard"
  | .guardFirst true => "guardrev"
  | .reduce => "reduce"
  | .foldCheckInside => "fold"
  | .pixelEach => "pixel"

def specStr (o : OpSpec) : String :=
  let ar := match o.arity with | .two => "2" | .many => "n"
  let rt := match o.resTag with | .first => "first" | .untagged => "untagged"
  s!"{o.name}|{walkStr o.walk}|{ar}|{rt}|{fmtErr o.mismatchErr}"

def parseBBox? (s : String) : Option BBox :=
  match s.splitOn ";" with
  | [a, b, c, d] =>
    match parseRat? a, parseRat? b, parseRat? c, parseRat? d with
    | some a, some b, some c, some d => some ⟨a, b, c, d⟩
    | _, _, _, _ => none
  | _ => none

def fmtBBoxOut : Except Err (Out BBox) → String
  | .error e => fmtErr e
  | .ok .nothing => "NONE"
  | .ok (.val t b) => s!"OK tag={fmtOutTag t} {fmtRat b.l} {fmtRat b.b} {fmtRat b.r} {fmtRat b.t}"

def pathStr : ConvPath → String
  | .same => "same" | .converted => "converted" | .pixelPlane => "pixel"


/-! ### second part (Model/C01Glue) -/

def parseCrsArg? (s : String) : Option CrsArg :=
  if s = "omitted" then some .omitted
  else if s = "unset" then some .unset
  else if s = "err" then some (.given (.error (.other 1)))       -- pyproj CRSError
  else if s = "assert" then some (.given (.error .assertion))    -- 'utm' without ctx
  else match s.splitOn "=" with
    | ["ok", t] => (parseTag? t).map (fun t => .given (.ok t))
    | _ => none

def parseGeomArg? (s : String) : Option GeomArg :=
  if s = "S" then some .shapely
  else if s = "DF" then some (.dict true)
  else if s = "DP" then some (.dict false)
  else if s = "O" then some .other
  else match s.splitOn "=" with
    | ["G", t] => (parseTag? t).map GeomArg.geometry
    | _ => none

def fmtTagRes : Except Err Tag → String
  | .ok t => fmtTag t
  | .error (.other _) => "ERR:CRSError"
  | .error e => fmtErr e

def ruleStr : TagRule → String
  | .keep => "keep" | .fromArg => "arg" | .target => "target"

def run2 (args : List String) : Option String :=
  match args with
  | ["unaryops"] => some (",".intercalate ((unaryTable ++ unaryTableGeoBox).map (fun (n, r) => s!"{n}|{ruleStr r}")))
  | ["unary", name, self, arg] => do
    let rule ← findUnary name
    let self ← parseTag? self; let arg ← parseTag? arg
    pure (fmtTag (unaryTag rule self arg))
  | ["eqany", a, other] => do
    let a ← parseTag? a
    let a ← a
    let o ← (if other = "X" then some none else (parseTag? other))
    pure (fmtBool (crsEqAny a o))
  | ["lonlatdispatch", crs, t4326] => do
    let crs ← parseTag? crs
    let t ← parseTag? t4326
    let t ← t
    pure (match lonlatDispatch crs t with | .raw => "raw" | .converted => "converted")
  | ["geominit", t4326, arg, crs] => do
    let t ← parseTag? t4326
    let t ← t
    let arg ← parseGeomArg? arg
    let crs ← parseCrsArg? crs
    pure (fmtTagRes (geomInit t arg crs))
  | ["bboxinit", crs] => do
    let crs ← parseCrsArg? crs
    pure (fmtTagRes (bboxInit crs))
  | ["transformtag", self, crs] => do
    let self ← parseTag? self
    let crs ← parseCrsArg? crs
    pure (fmtTagRes (transformTag self crs))
  | ["utm", txt, south, epsg] => do
    let south ← parseBool? south
    let epsg ← parseNat? epsg
    match utmText txt with
    | none => pure "notutm"
    | some t => pure (toString (utmPick t south epsg))
  | _ => none

def run (args : List String) : Option String :=
  match args with
  | ["ops"] => some (",".intercalate (opTable.map specStr))
  | ["allops"] =>
    let names := (opTable.map (·.name)) ++ convTable ++ eqTable
    some (",".intercalate (names.toArray.qsort (· < ·)).toList)
  | ["callform", name, form] => do
    let f ← (if form = "positional" then some CallForm.positional
             else if form = "operator" then some CallForm.operator
             else if form = "keyword" then some CallForm.keyword
             else if form = "allkeyword" then some CallForm.allKeyword else none)
    pure (if callFormAccepted name f then "accepted" else "ERR:TypeError")
  | ["foreign", w, e, st] => do
    let w ← parseBool? w; let e ← parseBool? e; let st ← parseBool? st
    match foreignIdentity w e st with
    | .ok .wkt => pure "wkt"
    | .ok .itself => pure "itself"
    | .error _ => pure "ERR:CRSError"
  | ["normcrs", kind, orerr] => do
    let i ← (if kind = "none" then some CrsInput.none else if kind = "unset" then some .unset
             else if kind = "odc" then some .odc else if kind = "utm+ctx" then some (.utmText true)
             else if kind = "utm" then some (.utmText false) else if kind = "spec" then some (.otherSpec true)
             else if kind = "badspec" then some (.otherSpec false) else none)
    let oe ← parseBool? orerr
    match (if oe then normCrsOrError i else normCrs i) with
    | .ok .nothing => pure "None"
    | .ok .same => pure "same"
    | .ok .utm => pure "utm"
    | .ok .constructed => pure "constructed"
    | .error (.other _) => pure "ERR:CRSError"
    | .error e => pure (fmtErr e)
  | ["prog", name] => do
    let op ← findOp name
    let ps := match progOf op.walk with
      | some (.straight st) => "straight:" ++ ",".intercalate (st.map (fun (s : Stmt) => match s with
          | .checkRest true => "check(rev)" | .checkRest false => "check" | .returnIf _ => "returnIf" | .delegate => "delegate"))
      | some (.loop b) => "loop:" ++ ",".intercalate (b.map (fun (s : LoopStmt) => match s with
          | .accumulate => "accumulate" | .check => "check" | .continueIf _ => "continueIf"))
      | none => "composite"
    pure s!"{ps} access={accessPattern op.walk}"
  | ["access", name, n] => do
    let op ← findOp name
    let n ← parseNat? n
    pure (String.ofList (List.replicate (n - 1) (accessPattern op.walk)))
  | ["convops"] => some (",".intercalate convTable)
  | ["eqops"] => some (",".intercalate eqTable)
  | ["tageq", a, b] => do
    let a ← parseTag? a; let b ← parseTag? b
    pure (fmtBool (tagEq a b))
  | ["tagne", a, b] => do
    let a ← parseTag? a; let b ← parseTag? b
    pure (fmtBool (tagNe a b))
  | ["run", name, tags] => do
    let ts ← parseList? parseTag? tags
    let op ← findOp name
    pure (fmtOut (C01.run op symD (indexed ts)))
  | ["bbox", which, tags, boxes] => do
    let ts ← parseList? parseTag? tags
    let bs ← parseList? parseBBox? boxes
    if ts.length ≠ bs.length then none
    else
      let xs : List (Obj BBox) := (ts.zip bs).map (fun (t, b) => ⟨t, b⟩)
      if which = "union" then pure (fmtBBoxOut (bboxUnion xs))
      else if which = "inter" then pure (fmtBBoxOut (bboxIntersection xs))
      else none
  | ["conv", name, isBBox, self, other] => do
    let isB ← parseBool? isBBox
    let self ← parseTag? self; let other ← parseTag? other
    let r ← convRun name isB self other
    match r with
    | .error e => pure (fmtErr e)
    | .ok o => pure s!"OK path={pathStr o.path} tag={fmtOutTag o.tag}"
  | ["eq", a, b, raw] => do
    let a ← parseTag? a; let b ← parseTag? b; let raw ← parseBool? raw
    pure (fmtBool (eqRun a b raw))
  | other => run2 other

end OdcGeo.C01.Drv
