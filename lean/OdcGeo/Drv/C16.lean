import OdcGeo.Model.C16
import OdcGeo.Model.C16Link
import OdcGeo.Model.C16Ext
import OdcGeo.Model.C16C14
import OdcGeo.Spec.PySlice
namespace OdcGeo.C16.Drv
open OdcGeo OdcGeo.IO OdcGeo.C16

/-- CRS tag: `N` or a natural number -/
def parseCrs? (s : String) : Option (Option Nat) := parseOpt? parseNat? s
def fmtCrs (c : Option Nat) : String := fmtOpt toString c

/-- GeoBox token `ny:nx:a;b;c;d;e;f:crs` -/
def parseGeoBox? (s : String) : Option GeoBox :=
  match s.splitOn ":" with
  | [ny, nx, aff, crs] => do
    let ny ← parseInt? ny; let nx ← parseInt? nx
    let aff ← parseAff? aff; let crs ← parseCrs? crs
    pure ⟨ny, nx, aff, crs⟩
  | _ => none

def fmtGeoBox (g : GeoBox) : String := s!"{g.ny}:{g.nx}:{fmtAff g.aff}:{fmtCrs g.crs}"

/-- BoundingBox token `l;b;r;t;crs` -/
def parseBBox? (s : String) : Option (BBox Rat) :=
  match s.splitOn ";" with
  | [l, b, r, t, crs] => do
    let l ← parseRat? l; let b ← parseRat? b; let r ← parseRat? r; let t ← parseRat? t
    let crs ← parseCrs? crs
    pure ⟨l, b, r, t, crs⟩
  | _ => none

def fmtBBoxQ (bb : BBox Rat) : String :=
  s!"{fmtRat bb.left};{fmtRat bb.bottom};{fmtRat bb.right};{fmtRat bb.top};{fmtCrs bb.crs}"
def fmtBBoxZ (bb : BBox Int) : String :=
  s!"{bb.left};{bb.bottom};{bb.right};{bb.top};{fmtCrs bb.crs}"

/-- double token: rational, `inf`, `-inf`, `nan` -/
def parsePyF? (s : String) : Option PyF :=
  if s = "nan" then some .nan else if s = "inf" then some .pinf else if s = "-inf" then some .ninf
  else (parseRat? s).map PyF.fin

def fmtPyF : PyF → String
  | .fin q => fmtRat q
  | .pinf => "inf"
  | .ninf => "-inf"
  | .nan => "nan"

def parseBBoxF? (s : String) : Option (BBox PyF) :=
  match s.splitOn ";" with
  | [l, b, r, t, crs] => do
    let l ← parsePyF? l; let b ← parsePyF? b; let r ← parsePyF? r; let t ← parsePyF? t
    let crs ← parseCrs? crs
    pure ⟨l, b, r, t, crs⟩
  | _ => none

def fmtBBoxF (bb : BBox PyF) : String :=
  s!"{fmtPyF bb.left};{fmtPyF bb.bottom};{fmtPyF bb.right};{fmtPyF bb.top};{fmtCrs bb.crs}"

def parsePt? (s : String) : Option (Rat × Rat) :=
  match s.splitOn ";" with
  | [x, y] => do let x ← parseRat? x; let y ← parseRat? y; pure (x, y)
  | _ => none

def fmtRoi (r : Roi) : String := s!"{r.y0}:{r.y1} {r.x0}:{r.x1}"

/-- region token: `B=l;b;r;t;crs` (BoundingBox) or `G=crs=[x;y,x;y,…]` (Geometry coordinates) -/
def parseRegion? (s : String) : Option Region :=
  match s.splitOn "=" with
  | ["B", bb] => (parseBBox? bb).map Region.bbox
  | ["G", crs, pts] => do
    let crs ← parseCrs? crs
    let pts ← parseList? parsePt? pts
    match pts with
    | [] => none
    | p :: ps => pure (Region.geom crs p ps)
  | _ => none

/-- re-projection table `[x;y;X;Y,…]`: the points pyproj was asked to map and their images -/
def parseTable? (s : String) : Option (List (Pt × Pt)) :=
  parseList? (fun e => match (e.splitOn ";").mapM parseRat? with
    | some [x, y, X, Y] => some ((x, y), (X, Y))
    | _ => none) s

def lookupPt (tab : List (Pt × Pt)) (p : Pt) : Option Pt := (tab.find? (fun e => e.1 == p)).map (·.2)

/-- the abstract `Reproj` of the model instantiated by the table.  `none` when a point the model
needs is missing from the table (the op is then refused as `bad-op`: no default is invented). -/
def reprojOf? (tab : List (Pt × Pt)) (needed : List Pt) : Option Reproj :=
  if needed.all (fun p => (lookupPt tab p).isSome) then
    some (fun _ _ p => match lookupPt tab p with | some q => q | none => p)
  else none

def fmtPts (ps : List Pt) : String := fmtList (fun (p : Pt) => s!"{fmtRat p.1};{fmtRat p.2}") ps

def parseForm? (s : String) : Option SeqForm :=
  if s = "list" then some .list else if s = "tuple" then some .tuple else none

/-- operand token: a GeoBox token or `GCP=crs` (a non-linear GCPGeoBox) -/
def parseOperand? (s : String) : Option Operand :=
  if s = "GCP" then some .nonlinear else (parseGeoBox? s).map Operand.linear

def fmtSetOut {α : Type} (f : α → String) : SetOut α → String
  | .refused => "REFUSED"
  | .res r => fmtRes f r

/-- GridSpec token `ny:nx:rx:ry:ox:oy:fx:fy` → the exact-arithmetic GridSpec of the C14 model -/
def parseGridSpec? (s : String) : Option (Res C14.GridSpec) :=
  match s.splitOn ":" with
  | [ny, nx, rx, ry, ox, oy, fx, fy] => do
    let ny ← parseInt? ny; let nx ← parseInt? nx; let rx ← parseRat? rx; let ry ← parseRat? ry
    let ox ← parseRat? ox; let oy ← parseRat? oy; let fx ← parseBool? fx; let fy ← parseBool? fy
    pure (C14.GridSpec.new id ny nx rx ry ox oy fx fy)
  | _ => none

def run (args : List String) : Option String :=
  match args with
  | ["consts"] => pure s!"{fmtRat tolOne} {fmtRat tolZero} {fmtRat tolPix}"
  | ["almostint", x, tol] => do
    let x ← parseRat? x; let tol ← parseRat? tol
    pure (fmtBool (isAlmostInt x tol))
  | ["round", x] => do
    let x ← parseRat? x
    pure (fmtInt (pyRound x))
  | ["splitf", x] => do
    let x ← parseRat? x
    let (w, p) := splitFloat x
    pure s!"{fmtRat w} {fmtRat p}"
  | ["mzero", x, tol] => do
    let x ← parseRat? x; let tol ← parseRat? tol
    pure (fmtRat (maybeZero x tol))
  | ["bbu", bbs] => do
    let bbs ← parseList? parseBBox? bbs
    pure (fmtRes fmtBBoxQ (bboxUnion bbs))
  | ["bbi", bbs] => do
    let bbs ← parseList? parseBBox? bbs
    pure (fmtRes fmtBBoxQ (bboxIntersection bbs))
  | ["bbor", a, b] => do
    let a ← parseBBox? a; let b ← parseBBox? b
    pure (fmtRes fmtBBoxQ (a.or b))
  | ["bband", a, b] => do
    let a ← parseBBox? a; let b ← parseBBox? b
    pure (fmtRes fmtBBoxQ (a.and b))
  | ["bbround", a] => do
    let a ← parseBBox? a
    pure (fmtBBoxZ a.round)
  | ["bbtr", a, A] => do
    let a ← parseBBox? a; let A ← parseAff? A
    pure (fmtBBoxQ (a.transform A))
  | ["bbuf", bbs] => do
    let bbs ← parseList? parseBBoxF? bbs
    pure (fmtRes fmtBBoxF (bboxUnion bbs))
  | ["bbif", bbs] => do
    let bbs ← parseList? parseBBoxF? bbs
    pure (fmtRes fmtBBoxF (bboxIntersection bbs))
  | ["bbbuf", a, xb, yb] => do
    let a ← parseBBox? a; let xb ← parseRat? xb; let yb ← parseOpt? parseRat? yb
    pure (fmtBBoxQ (a.buffered xb yb))
  | ["bbshape", a] => do
    let a ← parseBBox? a
    pure s!"{a.shape.1} {a.shape.2} {fmtRat a.spanX} {fmtRat a.spanY}"
  | ["bbfrompts", p1, p2, crs] => do
    let p1 ← parsePt? p1; let p2 ← parsePt? p2; let crs ← parseCrs? crs
    pure (fmtBBoxQ (BBox.fromPoints p1 p2 crs))
  | ["bbfromtr", ny, nx, A, crs] => do
    let ny ← parseInt? ny; let nx ← parseInt? nx; let A ← parseAff? A; let crs ← parseCrs? crs
    pure (fmtBBoxQ (BBox.fromTransform ny nx A crs))
  | ["pad", g, px, py] => do
    let g ← parseGeoBox? g; let px ← parseInt? px; let py ← parseOpt? parseInt? py
    pure (fmtGeoBox (g.pad px py))
  | ["cropunion", a, b] => do
    let a ← parseGeoBox? a; let b ← parseGeoBox? b
    pure (fmtRes fmtGeoBox (cropUnionBack a b tolPix))
  | ["cropoverlap", a, b] => do
    let a ← parseGeoBox? a; let b ← parseGeoBox? b
    pure (fmtRes fmtGeoBox (cropOverlap a b tolPix))
  | ["nbr", which, g] => do
    let g ← parseGeoBox? g
    match which with
    | "right" => pure (fmtGeoBox g.right)
    | "left" => pure (fmtGeoBox g.left)
    | "top" => pure (fmtGeoBox g.top)
    | "bottom" => pure (fmtGeoBox g.bottom)
    | "flipx" => pure (fmtGeoBox g.flipx)
    | "flipy" => pure (fmtGeoBox g.flipy)
    | _ => none
  | ["ptr", a, b] => do
    let a ← parseGeoBox? a; let b ← parseGeoBox? b
    pure (fmtRes (fun (x, y) => s!"{fmtRat x} {fmtRat y}") (pixelTranslation a b))
  | ["bbpd", g, ref, tol] => do
    let g ← parseGeoBox? g; let ref ← parseGeoBox? ref; let tol ← parseRat? tol
    pure (fmtRes fmtBBoxZ (bboxInPixelDomain g ref tol))
  | ["union", gs] => do
    let gs ← parseList? parseGeoBox? gs
    pure (fmtRes fmtGeoBox (geoboxUnionConservative gs))
  | ["inter", gs] => do
    let gs ← parseList? parseGeoBox? gs
    pure (fmtRes fmtGeoBox (geoboxIntersectionConservative gs))
  | ["or", a, b] => do
    let a ← parseGeoBox? a; let b ← parseGeoBox? b
    pure (fmtRes fmtGeoBox (a.or b))
  | ["and", a, b] => do
    let a ← parseGeoBox? a; let b ← parseGeoBox? b
    pure (fmtRes fmtGeoBox (a.and b))
  | ["roi", a, b, tol] => do
    let a ← parseGeoBox? a; let b ← parseGeoBox? b; let tol ← parseRat? tol
    pure (fmtRes fmtRoi (a.overlapRoi b tol))
  | ["encl", g, crs, pts] => do
    let g ← parseGeoBox? g; let crs ← parseCrs? crs
    let pts ← parseList? parsePt? pts
    match pts with
    | [] => none
    | p :: ps => pure (fmtRes fmtGeoBox (g.enclosing crs p ps))
  | ["snap", a, b] => do
    let a ← parseGeoBox? a; let b ← parseGeoBox? b
    pure (fmtRes fmtGeoBox (a.snapTo b))
  | ["gbbox", g] => do
    let g ← parseGeoBox? g
    pure (fmtBBoxQ g.boundingbox)
  | ["gextent", g] => do
    let g ← parseGeoBox? g
    pure (fmtPts (g.extentHead :: g.extentTail))
  | ["tpix", g, tx, ty] => do
    let g ← parseGeoBox? g; let tx ← parseRat? tx; let ty ← parseRat? ty
    pure (fmtGeoBox (g.translatePix tx ty))
  | ["proj", g, crs, pts, tab] => do
    let g ← parseGeoBox? g; let crs ← parseCrs? crs
    let pts ← parseList? parsePt? pts; let tab ← parseTable? tab
    match pts with
    | [] => none
    | p :: ps =>
      let needed := if crs = none ∨ g.crs = none ∨ crs = g.crs then [] else p :: ps
      let rp ← reprojOf? tab needed
      pure (fmtRes (fun (r : Option Nat × Pt × List Pt) => s!"{fmtCrs r.1} {fmtPts (r.2.1 :: r.2.2)}")
        (g.project rp crs p ps))
  | ["enclr", g, r, tab] => do
    let g ← parseGeoBox? g; let r ← parseRegion? r; let tab ← parseTable? tab
    let needed := if r.crs = none ∨ g.crs = none ∨ r.crs = g.crs then [] else r.head :: r.tail
    let rp ← reprojOf? tab needed
    pure (fmtRes fmtGeoBox (g.enclosingRegion rp r))
  | ["bbeq", a, b] => do
    let a ← parseBBox? a; let b ← parseBBox? b
    pure (fmtBool (a.eqBB b))
  | ["bbeqt", a, t] => do
    let a ← parseBBox? a; let t ← parseList? parseRat? t
    pure (fmtBool (a.eqTuple t))
  | ["bbitem", a, i] => do
    let a ← parseBBox? a; let i ← parseInt? i
    pure (fmtRes fmtRat (a.getItem i))
  | ["bbseq", a] => do
    let a ← parseBBox? a
    pure s!"{a.len} {fmtList fmtRat a.toList} {fmtRat a.rangeX.1};{fmtRat a.rangeX.2} {fmtRat a.rangeY.1};{fmtRat a.rangeY.2} {fmtPts a.points}"
  | ["bbaspect", a] => do
    let a ← parseBBox? a
    pure (fmtRes fmtRat a.aspect)
  | ["splitt", x, y] => do
    let x ← parseRat? x; let y ← parseRat? y
    let (w, p) := splitTranslation (x, y)
    pure s!"{fmtRat w.1} {fmtRat w.2} {fmtRat p.1} {fmtRat p.2}"
  | ["splitff", x] => do
    let x ← parsePyF? x
    let (w, p) := splitFloatF x
    pure s!"{fmtPyF w} {fmtPyF p}"
  | ["almostintf", x, tol] => do
    let x ← parsePyF? x; let tol ← parseRat? tol
    pure (fmtBool (isAlmostIntF x tol))
  | ["mzerof", x, tol] => do
    let x ← parsePyF? x; let tol ← parseRat? tol
    pure (fmtPyF (maybeZeroF x tol))
  | ["unionf", form, gs] => do
    let form ← parseForm? form; let gs ← parseList? parseGeoBox? gs
    pure (fmtRes fmtGeoBox (geoboxUnionForm form gs))
  | ["interf", form, gs] => do
    let form ← parseForm? form; let gs ← parseList? parseGeoBox? gs
    pure (fmtRes fmtGeoBox (geoboxIntersectionForm form gs))
  | ["projl", g, crs, pts, tab] => do
    let g ← parseGeoBox? g; let crs ← parseCrs? crs
    let pts ← parseList? parsePt? pts; let tab ← parseTable? tab
    let needed := if crs = none ∨ g.crs = none ∨ crs = g.crs then [] else pts
    let rp ← reprojOf? tab needed
    pure (fmtRes (fun (r : Option Nat × List Pt) => s!"{fmtCrs r.1} {fmtPts r.2}") (g.projectL rp crs pts))
  | ["enclgl", g, crs, pts, tab] => do
    let g ← parseGeoBox? g; let crs ← parseCrs? crs
    let pts ← parseList? parsePt? pts; let tab ← parseTable? tab
    let needed := if crs = none ∨ g.crs = none ∨ crs = g.crs then [] else pts
    let rp ← reprojOf? tab needed
    -- empty region: several guards apply at once; which exception wins is a matter of internal step order, only
    -- "is an error" is compared
    match pts, g.enclosingGeomL rp crs pts with
    | [], .error _ => pure "ERR:any"
    | _, r => pure (fmtRes fmtGeoBox r)
  | ["bbtocrs", a, dst, tab] => do
    let a ← parseBBox? a; let dst ← parseNat? dst; let tab ← parseTable? tab
    let needed := if a.crs = some dst ∨ a.crs = none then [] else a.ringHead :: a.ringTail
    let rp ← reprojOf? tab needed
    pure (fmtRes fmtBBoxQ (a.toCrs rp dst))
  | ["bbboundary", a, n] => do
    let a ← parseBBox? a; let n ← parseNat? n
    pure (fmtRes fmtPts (a.boundary n))
  | ["opd", which, a, b] => do
    let a ← parseOperand? a; let b ← parseOperand? b
    match which with
    | "or" => pure (fmtSetOut fmtGeoBox (a.or b))
    | "and" => pure (fmtSetOut fmtGeoBox (a.and b))
    | "roi" => pure (fmtSetOut fmtRoi (a.overlapRoi b tolPix))
    | "snap" => pure (fmtSetOut fmtGeoBox (a.snapTo b))
    | _ => none
  | ["gstile", gs, crs, ix, iy] => do
    let gs ← parseGridSpec? gs; let crs ← parseCrs? crs; let ix ← parseInt? ix; let iy ← parseInt? iy
    pure (fmtRes (fun (g : C14.GridSpec) =>
      let t := tileRectT g (ix, iy)
      s!"{fmtGeoBox (ofC14 (g.tileGeobox id (ix, iy)) crs)} {t.1};{t.2.1};{t.2.2.1};{t.2.2.2}") gs)
  | ["gsops", gs, crs, ix, iy, jx, jy] => do
    let gs ← parseGridSpec? gs; let crs ← parseCrs? crs; let ix ← parseInt? ix; let iy ← parseInt? iy
    let jx ← parseInt? jx; let jy ← parseInt? jy
    pure (fmtRes (fun (g : C14.GridSpec) =>
      let a := ofC14 (g.tileGeobox id (ix, iy)) crs
      let b := ofC14 (g.tileGeobox id (jx, jy)) crs
      s!"{fmtRes fmtGeoBox (a.or b)} {fmtRes fmtGeoBox (a.and b)} {fmtRes fmtRoi (a.overlapRoi b tolPix)}") gs)
  | ["gsrow", gs, crs, i0, iy, m] => do
    let gs ← parseGridSpec? gs; let crs ← parseCrs? crs; let i0 ← parseInt? i0; let iy ← parseInt? iy
    let m ← parseNat? m
    pure (match gs with
      | .error e => e.toStr
      | .ok g => fmtRes fmtGeoBox (rowUnion g crs i0 iy m))
  | ["bbmapb", a, ll, tab] => do
    let a ← parseBBox? a; let ll ← parseNat? ll; let tab ← parseTable? tab
    let needed := if a.crs = some ll ∨ a.crs = none then [] else [(a.left, a.bottom), (a.right, a.top)]
    let rp ← reprojOf? tab needed
    let r := a.mapBounds rp ll
    pure s!"{fmtRat r.1.1};{fmtRat r.1.2} {fmtRat r.2.1};{fmtRat r.2.2}"
  | ["bbaoi", a, ll, tab] => do
    let a ← parseBBox? a; let ll ← parseNat? ll; let tab ← parseTable? tab
    let needed := if a.crs = some ll ∨ a.crs = none then [] else a.ringHead :: a.ringTail
    let rp ← reprojOf? tab needed
    pure (fmtRes (fun (r : Rat × Rat × Rat × Rat) => s!"{fmtRat r.1};{fmtRat r.2.1};{fmtRat r.2.2.1};{fmtRat r.2.2.2}")
      (a.aoi rp ll))
  | ["gcpproj", g, crs, pts, ptab, qtab, tab] => do
    -- P (p2w) and Q (w2p) of the GCP mapping as tables of the points actually asked for
    let g ← parseGeoBox? g; let crs ← parseCrs? crs
    let pts ← parseList? parsePt? pts
    let ptab ← parseTable? ptab; let qtab ← parseTable? qtab; let tab ← parseTable? tab
    match pts with
    | [] => none
    | p :: ps =>
      let xcrs := ¬ (crs = none ∨ g.crs = none ∨ crs = g.crs)
      let rp ← reprojOf? tab (if xcrs then p :: ps else [])
      let needP := if crs = none then (p :: ps).map g.aff.apply else []
      let needQ := if crs = none ∨ g.crs = none then [] else (p :: ps).map (fun q => if crs = g.crs then q else rp crs g.crs q)
      let P ← reprojOf? ptab needP
      let Q ← reprojOf? qtab needQ
      pure (fmtRes (fun (r : Option Nat × Pt × List Pt) => s!"{fmtCrs r.1} {fmtPts (r.2.1 :: r.2.2)}")
        (gcpProject g (P none none) (Q none none) rp crs p ps))
  | ["reduce", which, gs] => do
    -- `functools.reduce(operator.or_ / and_, gs)` (a TypeError of reduce on an empty list is not modelled: refused)
    let gs ← parseList? parseGeoBox? gs
    match which, gs with
    | "or", a :: rest => pure (fmtRes fmtGeoBox (List.foldlM (fun acc g => acc.or g) a rest))
    | "and", a :: rest => pure (fmtRes fmtGeoBox (List.foldlM (fun acc g => acc.and g) a rest))
    | _, _ => none
  | ["sel", n, a, b] => do
    -- Spec/PySlice validation: indices of a length-n axis selected by `a:b`
    let n ← parseNat? n; let a ← parseInt? a; let b ← parseInt? b
    pure (fmtList fmtInt (PySlice.selList n (.slc (some a) (some b))))
  | _ => none

end OdcGeo.C16.Drv
