import OdcGeo.Model.C16
namespace OdcGeo.C16.Drv
open OdcGeo OdcGeo.IO

def run (args : List String) : Option String :=
  match args with
  | _ => none

end OdcGeo.C16.Drv
