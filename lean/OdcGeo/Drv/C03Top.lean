import OdcGeo.Drv.C03
import OdcGeo.Model.C03Top
namespace OdcGeo.C03.Drv
open OdcGeo OdcGeo.IO OdcGeo.C17 OdcGeo.C03

/-- nearest point of the `2^-k` lattice, as the integer numerator: `⌊x·2^k + ½⌋` -/
def latNum (k : Nat) (x : Rat) : Int := (x * ((2 ^ k : Nat) : Rat) + 1 / 2).floor

def fmtAffLat (k : Nat) (A : Aff) : String :=
  ";".intercalate ([A.a, A.b, A.c, A.d, A.e, A.f].map fun v => toString (latNum k v))

/-- Exact stand-ins for a CRS transformer (the harness installs the same function in place of pyproj):
`aff:kx:ky:ox:oy`  `(x, y) ↦ (kx·x + ox, ky·y + oy)`;
`swap:k`          `(x, y) ↦ (k·y, k·x)`;
`quad:j`          `(x, y) ↦ (x + j·y², y)`;
`unquad:j`        `(x, y) ↦ (x - j·y², y)`;
`cut:X0:k`        `(x, y) ↦ (k·x, k·y)` for `x ≤ X0`, non-finite beyond. -/
def parseProj? (s : String) : Option Proj :=
  match s.splitOn ":" with
  | ["aff", kx, ky, ox, oy] => do
    let kx ← parseRat? kx; let ky ← parseRat? ky; let ox ← parseRat? ox; let oy ← parseRat? oy
    pure fun w => (.fin (kx * w.1 + ox), .fin (ky * w.2 + oy))
  | ["swap", k] => do
    let k ← parseRat? k
    pure fun w => (.fin (k * w.2), .fin (k * w.1))
  | ["quad", j] => do
    let j ← parseRat? j
    pure fun w => (.fin (w.1 + j * w.2 * w.2), .fin w.2)
  | ["unquad", j] => do
    let j ← parseRat? j
    pure fun w => (.fin (w.1 - j * w.2 * w.2), .fin w.2)
  | ["cut", x0, k] => do
    let x0 ← parseRat? x0; let k ← parseRat? k
    pure fun w => if w.1 ≤ x0 then (.fin (k * w.1), .fin (k * w.2)) else (.nonfinite, .nonfinite)
  | _ => none

def fmtCoordPt (p : Coord × Coord) : String :=
  match p with
  | (.fin x, .fin y) => s!"{fmtRat x};{fmtRat y}"
  | _ => "nf"

def parsePt? (t : String) : Option (Rat × Rat) :=
  match t.splitOn ";" with
  | [a, b] => do let a ← parseRat? a; let b ← parseRat? b; pure (a, b)
  | _ => none

/-- `S:ny:nx:geo:isGeoBox` with the affine `a;b;c;d;e;f` -/
def parseSide? (ny nx aff geo gb : String) : Option Side := do
  let ny ← parseInt? ny; let nx ← parseInt? nx; let a ← parseAff? aff
  let geo ← parseBool? geo; let gb ← parseBool? gb
  pure ⟨gb, (ny, nx), a, geo⟩

/-- the value a `PtTr` takes where it is finite (`none` otherwise) -/
def finVal (tr : PtTr) (p : Rat × Rat) : Option (Rat × Rat) :=
  match tr p with
  | (.fin x, .fin y) => some (x, y)
  | _ => none

def fmtPlanLat (p : Plan) : String :=
  s!"{fmtROI p.roiSrc} {fmtROI p.roiDst} {fmtBool p.pasteOk} {p.readShrink} {latNum 20 p.scale} {latNum 20 p.scale2.1} {latNum 20 p.scale2.2}"

def fmtRois (p : Plan) : String := s!"{fmtROI p.roiSrc} {fmtROI p.roiDst} {fmtBool p.pasteOk}"

def runTop (args : List String) : Option String :=
  match args with
  | ["rws", a] => do
    -- decompose_rws, exact
    let a ← parseAff? a
    match rootOf a with
    | none => pure "irr"
    | some n => pure (fmtRes (fun (f : RWS) => s!"{fmtAff f.R} {fmtAff f.W} {fmtAff f.S}") (decomposeRWS a n))
  | ["rwsl", k, a] => do
    -- decompose_rws, every entry rounded to the 2^-k lattice
    let k ← parseNat? k; let a ← parseAff? a
    match rootOf a with
    | none => pure "irr"
    | some n =>
      pure (fmtRes (fun (f : RWS) => s!"{fmtAffLat k f.R} {fmtAffLat k f.W} {fmtAffLat k f.S}") (decomposeRWS a n))
  | ["getscale", a] => do
    let a ← parseAff? a
    match rootOf a with
    | none => pure "irr"
    | some n => pure (fmtRes (fun (s : Rat × Rat) => s!"{fmtRat s.1} {fmtRat s.2}") (getScale a n))
  | ["gbx", p, geo, proj, q, pts] => do
    -- GbxPointTransform(src, dst)(pts): P = src affine, geo = src.crs.geographic, Q = dst affine
    let p ← parseAff? p; let geo ← parseBool? geo; let proj ← parseProj? proj; let q ← parseAff? q
    let pts ← parseList? parsePt? pts
    pure (fmtRes (fun (tr : PtTr) => fmtList fmtCoordPt (pts.map tr)) (gbxTr p geo proj q))
  | ["npt", sgb, dgb, eq] => do
    -- which class native_pix_transform returns
    let sgb ← parseBool? sgb; let dgb ← parseBool? dgb; let eq ← parseBool? eq
    let side : Bool → Side := fun b => ⟨b, (1, 1), Aff.id, false⟩
    match nativePixTransform (side sgb) (side dgb) eq idProjD idProjD with
    | .error e => pure e.toStr
    | .ok (.linear _) => pure "linear"
    | .ok (.gbx _ _) => pure "gbx"
  | ["top", mode, sny, snx, sA, sgeo, sgb, dny, dnx, dA, dgeo, dgb, eq, pf, pb, ttol, stol, pad, al] => do
    -- compute_reproject_roi from its arguments; mode `full` prints the whole plan (the harness promises a rational
    -- root for the scale), mode `rois` the two regions and paste_ok only
    let src ← parseSide? sny snx sA sgeo sgb; let dst ← parseSide? dny dnx dA dgeo dgb
    let eq ← parseBool? eq; let pf ← parseProj? pf; let pb ← parseProj? pb
    let ttol ← parseRat? ttol; let stol ← parseRat? stol
    let pad ← parseOpt? parseInt? pad; let al ← parseOpt? parseInt? al
    -- the root for the linear case
    let nLin : Option Rat :=
      if ¬ (src.isGeoBox ∧ dst.isGeoBox ∧ eq) then some 1 else   -- not used on the generic branch
      match dst.aff.inv? with
      | .ok di => match (di * src.aff).inv? with
        | .ok A => rootOf A
        | .error _ => some 1
      | .error _ => some 1
    -- `get_scale_at_point(·, tr.back)` of the generic case: defined where the five stencil points map to finite
    -- locations; raises where the fitted map is singular; otherwise needs a rational root (`full`) or is replaced by a
    -- constant (`rois`: the regions do not depend on it)
    let back : PtTr := (gbxTr dst.aff dst.geographic pb src.aff).toOption.getD neverCalled
    let backR : Rat × Rat → Rat × Rat := fun q => (finVal back q).getD (0, 0)
    let irr : Rat × Rat → Bool := fun c =>
      ((stencilPts c 1).mapM (finVal back)).isNone ||
        (let f := stencilAffine backR c 1; decide (f.det ≠ 0) && (rootOf f).isNone)
    let scaleE : Rat × Rat → Res (Rat × Rat) := fun c =>
      let f := stencilAffine backR c 1
      match rootOf f with
      | some n' => scaleAtPointE backR c 1 n'
      | none => if f.det = 0 then .error .valueError else .ok (1, 1)
    let isGbx := ¬ (src.isGeoBox ∧ dst.isGeoBox ∧ eq)
    if mode = "rois" then
      -- generic branch with both transforms callable: the NaN-aware plan (non-finite stencil images)
      let scaleX : Rat × Rat → ScaleRes := fun c =>
        match scaleAtPointX back c (fun pt => (rootOf (stencilAffine backR pt 1)).getD 1) with
        | .ok _ => .ok (1, 1)
        | o => o
      match nativePixTransform src dst eq pf pb with
      | .ok (.gbx (.ok fwd') (.ok back')) =>
        pure (fmtRes fmtRois (reprojectNonlinearX scaleFallback src.shape dst.shape back' fwd' scaleX pad al))
      | _ =>
        let r := computeReprojectRoiE src dst eq pf pb (nLin.getD 1)
          (fun c => match scaleE c with | .ok _ => .ok (1, 1) | .error e => .error e) ttol stol pad al
        pure (fmtRes fmtRois r)
    else
      match nLin with
      | none => pure "irr"
      | some n =>
        -- a first pass (constant scale) finds the point the scale is estimated at
        let r0 := computeReprojectRoi src dst eq pf pb n (fun _ => (1, 1)) ttol stol pad al
        match r0 with
        | .error e => pure e.toStr
        | .ok p0 =>
          if isGbx ∧ ¬ ROI.isEmpty p0.roiDst then
            let c : Rat × Rat := (((p0.roiDst.2.start + p0.roiDst.2.stop : Int) : Rat) / 2,
                                  ((p0.roiDst.1.start + p0.roiDst.1.stop : Int) : Rat) / 2)
            if irr c then pure "irr"
            else pure (fmtRes fmtPlanLat (computeReprojectRoiE src dst eq pf pb n scaleE ttol stol pad al))
          else pure (fmtPlanLat p0)
  | _ => none
where
  idProjD : Proj := fun w => (.fin w.1, .fin w.2)

def runAll (args : List String) : Option String :=
  match run args with
  | some s => some s
  | none => runTop args

end OdcGeo.C03.Drv
