import OdcGeo.Drv.C14
import OdcGeo.Model.C14Args
import OdcGeo.Model.C14Ext
import OdcGeo.Model.C14Thr
import OdcGeo.Model.C14Zero
namespace OdcGeo.C14.Drv
open OdcGeo OdcGeo.IO OdcGeo.C14

/-! Driver ops for `Model/C14Args.lean` (raw-argument entry points, IEEE specials, lazy generators, geojson). -/

def fmtResX {α} (f : α → String) : ResX α → String
  | .ok a => f a
  | .error e => e.toStr

/-- `i<int>` | `f<rat>` | `nan` | `inf` | `-inf` -/
def parseNum? (s : String) : Option Num :=
  if s = "nan" then some .nan else if s = "inf" then some .pinf else if s = "-inf" then some .ninf
  else if s.startsWith "i" then (parseInt? (s.drop 1).toString).map .int
  else if s.startsWith "f" then (parseRat? (s.drop 1).toString).map .flt
  else none

/-- `<rat>` | `nan` | `inf` | `-inf` -/
def parseXF? (s : String) : Option XF :=
  if s = "nan" then some .nan else if s = "inf" then some .pinf else if s = "-inf" then some .ninf
  else (parseRat? s).map .fin

/-- `S:ny:nx` | `X:numx:numy` | `T[n,…]` | `L[n,…]` | `O` -/
def parseShapeArg? (s : String) : Option ShapeArg :=
  if s = "O" then some .other
  else if s.startsWith "T[" then (parseList? parseNum? (s.drop 1).toString).map .tuple
  else if s.startsWith "L[" then (parseList? parseNum? (s.drop 1).toString).map .list
  else match s.splitOn ":" with
    | ["S", a, b] => do let ny ← parseInt? a; let nx ← parseInt? b; pure (.shape2d ny nx)
    | ["X", a, b] => do let x ← parseNum? a; let y ← parseNum? b; pure (.xy x y)
    | _ => none

/-- `R:x:y` | `i<int>` | `f<rat>` | `O` -/
def parseResArg? (s : String) : Option ResArg :=
  if s = "O" then some .other
  else if s.startsWith "i" then (parseInt? (s.drop 1).toString).map .int
  else if s.startsWith "f" then (parseRat? (s.drop 1).toString).map .flt
  else match s.splitOn ":" with
    | ["R", a, b] => do let x ← parseRat? a; let y ← parseRat? b; pure (.res x y)
    | _ => none

/-- `N` | `X:x:y` | `O` -/
def parseOriginArg? (s : String) : Option OriginArg :=
  if s = "N" then some .none else if s = "O" then some .other
  else match s.splitOn ":" with
    | ["X", a, b] => do let x ← parseRat? a; let y ← parseRat? b; pure (.xy x y)
    | _ => none

/-- `V` | `N` | `I` | `U` -/
def parseCrsArg? (s : String) : Option CrsArg :=
  if s = "V" then some .valid else if s = "N" then some .none else if s = "I" then some .invalid else if s = "U" then some .utm else none

/-- `T[i,…]` | `L[i,…]` | `I:x:y` | `X:x:y` | `O` -/
def parseIdxArg? (s : String) : Option IdxArg :=
  if s = "O" then some .other
  else if s.startsWith "T[" then (parseList? parseInt? (s.drop 1).toString).map .tuple
  else if s.startsWith "L[" then (parseList? parseInt? (s.drop 1).toString).map .list
  else match s.splitOn ":" with
    | ["I", a, b] => do let x ← parseInt? a; let y ← parseInt? b; pure (.index2d x y)
    | ["X", a, b] => do let x ← parseInt? a; let y ← parseInt? b; pure (.xy x y)
    | _ => none

/-- `D` (argument left at its default) or a value -/
def parseDflt? {α} (p : String → Option α) (s : String) : Option (Option α) :=
  if s = "D" then some none else (p s).map some

def fmtTile (fl : Rnd) (gb : GeoBox) : String :=
  s!"{gb.ny} {gb.nx} {fmtAff gb.aff} {fmtBBox (gb.bbox fl)} {fmtList (fun (p : Rat × Rat) => s!"{fmtRat p.1};{fmtRat p.2}") (gb.extentPts fl)}"

def polyOf (fl : Rnd) (pts : String) : Option (BBox × (GeoBox → Bool)) := do
  let ps ← parseList? parsePt? pts
  let q ← ptsBounds ps
  pure (q, fun gb => Spec.Convex.disjoint ps (gb.extentPts fl))

/-- `n` generators, each `B same l b r t` or `P [pts]`; returns them and the remaining tokens -/
def parseGens (fl : Rnd) : Nat → List String → Option (List Gen × List String)
  | 0, rest => some ([], rest)
  | n + 1, "B" :: same :: l :: b :: r :: t :: rest => do
    let same ← parseBool? same
    let q ← parseBBox? l b r t
    let (gs, rest) ← parseGens fl n rest
    pure (Gen.ofTiles q same :: gs, rest)
  | n + 1, "P" :: pts :: rest => do
    let (q, dj) ← polyOf fl pts
    let (gs, rest) ← parseGens fl n rest
    pure (Gen.ofPolygon q dj :: gs, rest)
  | _, _ => none

/-- `n<i>` | `c` -/
def parseSOp? (s : String) : Option SOp :=
  if s = "c" then some .clear
  else if s.startsWith "n" then ((s.drop 1).toString.toNat?).map .next
  else none

def fmtSOut : SOut → String
  | .ok none => "-"
  | .ok (some (k, _)) => fmtIdx k
  | .error e => e.toStr

/-- `E` exact arithmetic without overflow, `F` binary64 with overflow to `±inf` at 2^1024 -/
def parseEnv? (s : String) : Option FEnv :=
  if s = "E" then some FEnv.exact else if s = "F" then some ⟨fl64, some (pow2 1024)⟩ else none

def fmtXF : XF → String
  | .fin q => fmtRat q
  | .nan => "nan"
  | .pinf => "inf"
  | .ninf => "-inf"

def fmtBinX (b : Bin1DX) : String := s!"{fmtXF b.sz} {fmtXF b.origin} {b.dir}"

def runExt (args : List String) : Option String :=
  match args with
  | ["itemx", m, sz, o, d, k] => do
    let E ← parseEnv? m; let sz ← parseXF? sz; let o ← parseXF? o; let d ← parseInt? d; let k ← parseNum? k
    pure (fmtResX (fun (b : Bin1DX) => s!"{fmtResX fmtXF (b.lo E k)} {fmtResX fmtXF (b.hi E k)}") (Bin1DX.new sz o d))
  | ["binx", m, sz, o, d, x] => do
    let E ← parseEnv? m; let sz ← parseXF? sz; let o ← parseXF? o; let d ← parseInt? d; let x ← parseXF? x
    pure (fmtResX (fun (b : Bin1DX) => fmtResX fmtInt (b.bin E x)) (Bin1DX.new sz o d))
  | ["fsbx", m, idx, x0, x1, d] => do
    let E ← parseEnv? m; let idx ← parseInt? idx; let x0 ← parseXF? x0; let x1 ← parseXF? x1; let d ← parseInt? d
    pure (fmtResX fmtBinX (Bin1DX.fromSampleBin E idx x0 x1 d))
  -- grid on the whole float domain: tile size, a point lookup, the pixel-(0,0) corner of one tile (index of any numeric type)
  | ["gridx", m, ny, nx, rx, ry, ox, oy, fx, fy, px, py, kx, ky] => do
    let E ← parseEnv? m
    let ny ← parseInt? ny; let nx ← parseInt? nx
    let rx ← parseXF? rx; let ry ← parseXF? ry; let ox ← parseXF? ox; let oy ← parseXF? oy
    let fx ← parseBool? fx; let fy ← parseBool? fy
    let px ← parseXF? px; let py ← parseXF? py; let kx ← parseNum? kx; let ky ← parseNum? ky
    pure (fmtResX (fun (g : GridSpecX) =>
      s!"{fmtXF g.xbin.sz} {fmtXF g.ybin.sz} {fmtResX fmtIdx (g.pt2idx E px py)} {fmtResX (fun (t : XF × XF) => s!"{fmtXF t.1};{fmtXF t.2}") (g.tileTxy E kx ky)}")
      (GridSpecX.new E ny nx rx ry ox oy fx fy))
  -- threads over one shared cache: `n` queries (`B same l b r t` | `P [pts]`), then the schedule (thread numbers); after the
  -- schedule every thread is run to completion; output: what each thread yielded, then the cache keys
  | "thr" :: m :: ny :: nx :: rx :: ry :: ox :: oy :: fx :: fy :: n :: rest => do
    let fl ← parseMode? m
    let g ← parseGrid? fl ny nx rx ry ox oy fx fy
    let n ← parseNat? n
    match g with
    | .error e => pure e.toStr
    | .ok g => do
      let (gens, rest) ← parseGens fl n rest
      let sched ← rest.mapM parseNat?
      let ts := gens.map (fun s => match s.start with
        | some (q, true) => (⟨g.tiles fl tol8 q, false, s.dj, []⟩ : Thr)
        | _ => ⟨[], false, s.dj, []⟩)
      let finish := (List.range ts.length).flatMap (fun i => List.replicate (2 * ((ts[i]?.map (·.todo.length)).getD 0) + 2) i)
      let r := g.thrRun fl (sched ++ finish) ts []
      pure ("|".intercalate (r.1.map (fun t => fmtList fmtIdx (t.out.map (·.1)))) ++ " cache=" ++
        fmtList fmtIdx ((r.2.map (·.1)).eraseDups.mergeSort keyLe))
  -- signed zeros: `loz sz origin originNegZero dir kValue kNegZero` → lower edge, upper edge (value + sign bit of a zero), bin(k)
  | ["loz", sz, o, oz, dd, kv, kn] => do
    let sz ← parseRat? sz; let o ← parseRat? o; let oz ← parseBool? oz; let dd ← parseInt? dd
    let kv ← parseRat? kv; let kn ← parseBool? kn
    pure (fmtRes (fun (b : Bin1D) =>
      let k : SZ := ⟨kv, kn && decide (kv = 0)⟩
      let l := b.loZ oz k; let h := b.hiZ oz k
      s!"{fmtRat l.v} {fmtBool l.negz} {fmtRat h.v} {fmtBool h.negz} {b.binZ oz k}") (Bin1D.new sz o dd))
  -- valid-region pipeline: the projected, densified ring as the library produced it → the query box
  | ["vbox", pts] => do
    let ps ← parseList? parsePt? pts
    pure (match validRegionBox id (fun _ => ps) none with
      | none => "ERR:ValueError"
      | some q => fmtBBox q)
  | ["shrunk", w, s, e, n] => do
    let w ← parseRat? w; let s ← parseRat? s; let e ← parseRat? e; let n ← parseRat? n
    pure (fmtList (fun (p : Rat × Rat) => s!"{fmtRat p.1};{fmtRat p.2}") (shrunkBox w s e n (1 / 20)))
  | ["dims", k] =>
    let kind := if k = "G" then some CrsKind.geographic else if k = "P" then some .projected else if k = "O" then some .otherKind else none
    kind.map (fun kd => fmtRes (fun (p : String × String) => s!"{p.1} {p.2}") (dimensions kd))
  | _ => none

def runArgs (args : List String) : Option String :=
  match args with
  -- public constructor from raw arguments, observed through public attributes, a point lookup and one tile
  | ["init", m, crs, shape, res, origin, fx, fy, px, py, kx, ky] => do
    let fl ← parseMode? m
    let crs ← parseCrsArg? crs; let shape ← parseShapeArg? shape; let res ← parseResArg? res
    let origin ← parseOriginArg? origin
    let fx ← parseBool? fx; let fy ← parseBool? fy
    let px ← parseRat? px; let py ← parseRat? py; let kx ← parseInt? kx; let ky ← parseInt? ky
    pure (fmtResX (probe fl px py kx ky) (GridSpec.init fl crs shape res origin fx fy))
  -- the normalisers alone
  | ["shape", s] => do
    let s ← parseShapeArg? s
    pure (fmtResX (fun (p : Int × Int) => s!"{p.1} {p.2}") (shapeNorm s) ++ " " ++ fmtBool s.isSentinel)
  | ["res", m, r] => do
    let fl ← parseMode? m
    let r ← parseResArg? r
    pure (fmtResX (fun (p : Rat × Rat) => s!"{fmtRat p.1} {fmtRat p.2}") (resNorm fl r))
  | ["idx", i] => do
    let i ← parseIdxArg? i
    pure (fmtResX (fun (p : Int × Int) => s!"{p.1} {p.2}") (idxNorm i))
  -- `gs[idx]` / `gs.tile_geobox(idx)` with the index in any spelling
  | ["tga", m, ny, nx, rx, ry, ox, oy, fx, fy, i] => do
    let fl ← parseMode? m
    let g ← parseGrid? fl ny nx rx ry ox oy fx fy
    let i ← parseIdxArg? i
    pure (withGrid g fun g => fmtResX (fmtTile fl) (g.tileGeoboxArg fl i))
  | ["fsta", m, crs, l, b, r, t, shape, idx, fx, fy, px, py, kx, ky] => do
    let fl ← parseMode? m
    let crs ← parseCrsArg? crs
    let q ← parseBBox? l b r t
    let shape ← parseDflt? parseShapeArg? shape
    let idx ← parseDflt? parseIdxArg? idx
    let fx ← parseBool? fx; let fy ← parseBool? fy
    let px ← parseRat? px; let py ← parseRat? py; let kx ← parseInt? kx; let ky ← parseInt? ky
    pure (fmtResX (probe fl px py kx ky) (GridSpec.fromSampleTileArgs fl crs q shape idx fx fy))
  | ["weba", m, P, z, npix, px, py, kx, ky] => do
    let fl ← parseMode? m
    let P ← parseRat? P; let z ← parseInt? z; let npix ← parseNum? npix
    let px ← parseRat? px; let py ← parseRat? py; let kx ← parseInt? kx; let ky ← parseInt? ky
    pure (fmtResX (probe fl px py kx ky) (GridSpec.webTilesArgs fl P z npix))
  -- IEEE specials in query coordinates
  | ["ptx", m, ny, nx, rx, ry, ox, oy, fx, fy, x, y] => do
    let fl ← parseMode? m
    let g ← parseGrid? fl ny nx rx ry ox oy fx fy
    let x ← parseXF? x; let y ← parseXF? y
    pure (withGrid g fun g => fmtResX fmtIdx (g.pt2idxX fl x y))
  | ["idxbx", m, ny, nx, rx, ry, ox, oy, fx, fy, same, l, b, r, t] => do
    let fl ← parseMode? m
    let g ← parseGrid? fl ny nx rx ry ox oy fx fy
    let same ← parseBool? same
    let l ← parseXF? l; let b ← parseXF? b; let r ← parseXF? r; let t ← parseXF? t
    pure (withGrid g fun g =>
      s!"{fmtResX (fun (a, b, c, d) => s!"{a} {b} {c} {d}") (g.idxBoundsX fl tol8 same ⟨l, b, r, t⟩)} {fmtResX (fmtList fmtIdx) (g.tilesX fl tol8 same ⟨l, b, r, t⟩)}")
  -- several live generators over one shared cache advanced by a schedule; output: one token per action, then the
  -- cache keys
  | "schedo" :: m :: ny :: nx :: rx :: ry :: ox :: oy :: fx :: fy :: n :: rest => do   -- outputs only
    let fl ← parseMode? m
    let g ← parseGrid? fl ny nx rx ry ox oy fx fy
    let n ← parseNat? n
    match g with
    | .error e => pure e.toStr
    | .ok g => do
      let (gens, rest) ← parseGens fl n rest
      let ops ← rest.mapM parseSOp?
      pure (" ".intercalate ((g.sched fl tol8 ops gens []).1.map fmtSOut))
  | "sched" :: m :: ny :: nx :: rx :: ry :: ox :: oy :: fx :: fy :: n :: rest => do
    let fl ← parseMode? m
    let g ← parseGrid? fl ny nx rx ry ox oy fx fy
    let n ← parseNat? n
    match g with
    | .error e => pure e.toStr
    | .ok g => do
      let (gens, rest) ← parseGens fl n rest
      let ops ← rest.mapM parseSOp?
      let r := g.sched fl tol8 ops gens []
      pure (" ".intercalate (r.1.map fmtSOut) ++ " cache=" ++ fmtList fmtIdx ((r.2.2.map (·.1)).mergeSort keyLe))
  | ["eqo", m, ny, nx, rx, ry, ox, oy, fx, fy] => do
    let fl ← parseMode? m
    let g ← parseGrid? fl ny nx rx ry ox oy fx fy
    pure (withGrid g fun g => fmtBool (g.beqAny .other))
  | ["beq", sz, o, d, sz2, o2, d2] => do
    let sz ← parseRat? sz; let o ← parseRat? o; let d ← parseInt? d
    let sz2 ← parseRat? sz2; let o2 ← parseRat? o2; let d2 ← parseInt? d2
    pure (fmtBool ((⟨sz, o, d⟩ : Bin1D).beqAny (some ⟨sz2, o2, d2⟩)) ++ " " ++ fmtBool ((⟨sz, o, d⟩ : Bin1D).beqAny none))
  -- geojson document: `N` (no argument) | `B l b r t` | `P [pts]` | `PB [pts] l b r t`, always preceded by the valid-region box
  | "gjd" :: m :: ny :: nx :: rx :: ry :: ox :: oy :: fx :: fy :: vl :: vb :: vr :: vt :: rest => do
    let fl ← parseMode? m
    let g ← parseGrid? fl ny nx rx ry ox oy fx fy
    let valid ← parseBBox? vl vb vr vt
    match g with
    | .error e => pure e.toStr
    | .ok g => do
      let doc ← match rest with
        | ["N"] => some (g.geojson fl tol8 none none valid)
        | ["B", l, b, r, t] => do
          let q ← parseBBox? l b r t
          pure (g.geojson fl tol8 (some q) none valid)
        | ["P", pts] => do
          let p ← polyOf fl pts
          pure (g.geojson fl tol8 none (some p) valid)
        | ["PB", pts, l, b, r, t] => do
          let p ← polyOf fl pts
          let q ← parseBBox? l b r t
          pure (g.geojson fl tol8 (some q) (some p) valid)
        | _ => none
      let ids := if doc.ids.isEmpty then "-" else "|".intercalate doc.ids
      pure (s!"{ids} {doc.shape.1} {doc.shape.2} {fmtRat doc.res.1} {fmtRat doc.res.2}")
  | _ => none

/-- all ops of property C14 -/
def runAll (args : List String) : Option String :=
  match run args with
  | some s => some s
  | none =>
    match runArgs args with
    | some s => some s
    | none => runExt args

end OdcGeo.C14.Drv
