import OdcGeo.Model.C12
import OdcGeo.Model.C12Gi
import OdcGeo.Drv.C04
namespace OdcGeo.C12.Drv
open OdcGeo OdcGeo.IO OdcGeo.C17 OdcGeo.C04 OdcGeo.C12
open OdcGeo.C04.Drv (parseTiling? parsePair? fmtPair)

/-- `NY:NX:<ty>:<tx>` with tilings as in the C04 driver (`r:N:n` or `v:[…]`), e.g.
`6:8:r:6:2:v:[3,5]` is split on the first two `:` only. -/
def parseGBT? (ny nx ty tx : String) : Option GBT := do
  let ny ← parseInt? ny; let nx ← parseInt? nx
  let ty ← parseTiling? ty; let tx ← parseTiling? tx
  pure ⟨ny, nx, ⟨ty, tx⟩⟩

def parseBBox? (s : String) : Option BBox :=
  match (s.splitOn ";").mapM parseRat? with
  | some [a, b, c, d] => some ⟨a, b, c, d⟩
  | _ => none

def fmtIdxs (xs : List (Int × Int)) : String := fmtList fmtPair xs

/-- python `range(a, b + 1)` printed as `a:b+1` -/
def fmtRange (r : Int × Int) : String := s!"{r.1}:{r.2 + 1}"

def parseFlags? (s : String) : Option (List Bool) := parseList? parseBool? s

/-- a CRS tag: `N` or a natural number -/
def parseCrs? (s : String) : Option (Option Nat) := parseOpt? parseNat? s

/-- `crs lin W ny nx ty tx` -/
def parseTGB? (crs lin W ny nx ty tx : String) : Option TGB := do
  let crs ← parseCrs? crs; let lin ← parseBool? lin; let W ← parseAff? W
  let g ← parseGBT? ny nx ty tx
  pure ⟨crs, lin, W, g⟩

/-- `x1;y1;x2;y2;x3;y3;x4;y4` -/
def parseQuad? (s : String) : Option Quad :=
  match (s.splitOn ";").mapM parseRat? with
  | some [a, b, c, d, e, f, g, h] => some ⟨(a, b), (c, d), (e, f), (g, h)⟩
  | _ => none

def fmtDeps (l : List ((Int × Int) × List (Int × Int))) : String :=
  fmtList (fun (idx, deps) => s!"{fmtPair idx}={fmtIdxs deps}") l

/-- the `Foreign` parameter of `gridIntersect` from the tokens of the `generalr` op (`-` = nothing) -/
def parseForeign? (d s : GBT) (fpEmpty fp dflags exts sflags : String) : Option Foreign := do
  let fpEmpty ← parseBool? fpEmpty
  if fp = "-" then
    pure ⟨fpEmpty, ⟨0, 0, 0, 0⟩, fun _ => true, fun _ => ⟨0, 0, 0, 0⟩, fun _ _ => true⟩
  else
    let fp ← parseBBox? fp; let df ← parseFlags? dflags
    let ebs ← if exts = "-" then some [] else (exts.splitOn "|").mapM parseBBox?
    let sfs ← if sflags = "-" then some [] else (sflags.splitOn "|").mapM parseFlags?
    let dc := match candidates d fp with
      | .ok dc => dc
      | .error _ => []
    let kept := (dc.zip df).filter (fun p => !p.2) |>.map (·.1)
    let lookup {α} (xs : List ((Int × Int) × α)) (k : Int × Int) : Option α :=
      (xs.find? (fun p => p.1 == k)).map (·.2)
    let dDis := fun k => (lookup (dc.zip df) k).getD true
    let ext := fun k => (lookup (kept.zip ebs) k).getD ⟨0, 0, 0, 0⟩
    let sDis := fun k s' =>
      match lookup (kept.zip sfs) k, candidates s (ext k) with
      | some f, .ok c => (lookup (c.zip f) s').getD true
      | _, _ => true
    pure ⟨fpEmpty, fp, dDis, ext, sDis⟩

def run (args : List String) : Option String :=
  match args with
  | ["range", ny, nx, ty, tx, bb] => do
    let g ← parseGBT? ny nx ty tx; let b ← parseBBox? bb
    pure (fmtRes (fun (r, c) => s!"{fmtRange r} {fmtRange c}") (rangeFromBBox g b))
  | ["rangew", ny, nx, ty, tx, W, bb] => do
    -- box in the CRS of the raster; `W` = pixel-to-world affine
    let g ← parseGBT? ny nx ty tx; let W ← parseAff? W; let b ← parseBBox? bb
    pure (fmtRes (fun (r, c) => s!"{fmtRange r} {fmtRange c}") (rangeFromBBoxWorld g W id b))
  | ["tiles", ny, nx, ty, tx, bb] => do
    let g ← parseGBT? ny nx ty tx; let b ← parseBBox? bb
    pure (fmtRes fmtIdxs (tilesFromPixBBox g b))
  | ["geom", ny, nx, ty, tx, bb, flags] => do
    -- flags: shapely's `disjoint` verdict for the candidates, in candidate order
    let g ← parseGBT? ny nx ty tx; let b ← parseBBox? bb
    let flags ← parseFlags? flags
    match candidates g b with
    | .error e => pure e.toStr
    | .ok c =>
      let tab := c.zip flags
      let dj := fun idx => match tab.find? (fun p => p.1 == idx) with
        | some p => p.2
        | none => true
      pure (fmtRes fmtIdxs (tilesGeom g b dj))
  | ["snap", A, ttol, stol, tol] => do
    let A ← parseAff? A; let ttol ← parseRat? ttol; let stol ← parseRat? stol; let tol ← parseRat? tol
    pure (fmtAff (snapAffine A ttol stol tol))
  | ["checklinear", S, D, ttol, stol, tol, sttol] => do
    let S ← parseAff? S; let D ← parseAff? D
    let ttol ← parseRat? ttol; let stol ← parseRat? stol; let tol ← parseRat? tol
    let sttol ← parseRat? sttol
    pure (fmtRes (fmtOpt fmtAff) (checkLinear S D ttol stol tol sttol))
  | ["linear", dny, dnx, dty, dtx, sny, snx, sty, stx, A] => do
    let d ← parseGBT? dny dnx dty dtx; let s ← parseGBT? sny snx sty stx
    let A ← parseAff? A
    pure (fmtRes (fmtList fun (idx, deps) => s!"{fmtPair idx}={fmtIdxs deps}")
      (gridIntersectLinear d s A))
  | ["generalr", dny, dnx, dty, dtx, sny, snx, sty, stx, fp, dflags, exts, sflags] => do
    -- fp: pixel bbox of the source footprint (dst pixels); dflags: verdicts for the dst candidates in order;
    -- exts / sflags: `|`-separated pixel bboxes (src pixels) / verdict lists for the kept dst tiles in order
    let d ← parseGBT? dny dnx dty dtx; let s ← parseGBT? sny snx sty stx
    let fp ← parseBBox? fp; let df ← parseFlags? dflags
    let ebs ← if exts = "-" then some [] else (exts.splitOn "|").mapM parseBBox?
    let sfs ← if sflags = "-" then some [] else (sflags.splitOn "|").mapM parseFlags?
    match candidates d fp with
    | .error e => pure e.toStr
    | .ok dc =>
      let kept := (dc.zip df).filter (fun p => !p.2) |>.map (·.1)
      let lookup {α} (xs : List ((Int × Int) × α)) (k : Int × Int) : Option α :=
        (xs.find? (fun p => p.1 == k)).map (·.2)
      let dDis := fun k => (lookup (dc.zip df) k).getD true
      let ext := fun k => (lookup (kept.zip ebs) k).getD ⟨0, 0, 0, 0⟩
      let sDis := fun k s' =>
        match lookup (kept.zip sfs) k, candidates s (ext k) with
        | some f, .ok c => (lookup (c.zip f) s').getD true
        | _, _ => true
      pure (fmtRes (fmtList fun (idx, deps) => s!"{fmtPair idx}={fmtIdxs deps}")
        (gridIntersectGeneralR d s fp dDis ext sDis))
  | ["general", dcand, dflags, scands, sflags] => do
    -- dcand: list of dst candidates; dflags: their disjoint verdicts; scands / sflags: for each
    -- kept dst tile (in order) `|`-separated candidate lists / verdict lists
    let dc ← parseList? parsePair? dcand; let df ← parseFlags? dflags
    let kept := (dc.zip df).filter (fun p => !p.2) |>.map (·.1)
    let scs ← (scands.splitOn "|").mapM (parseList? parsePair?)
    let sfs ← (sflags.splitOn "|").mapM parseFlags?
    let lookup {α} (xs : List ((Int × Int) × α)) (d : Int × Int) : Option α :=
      (xs.find? (fun p => p.1 == d)).map (·.2)
    let dDis := fun d => (lookup (dc.zip df) d).getD true
    let sCand := fun d => (lookup (kept.zip scs) d).getD []
    let sDis := fun d s =>
      match lookup (kept.zip (scs.zip sfs)) d with
      | some (c, f) => (lookup (c.zip f) s).getD true
      | none => true
    pure (fmtList (fun (idx, deps) => s!"{fmtPair idx}={fmtIdxs deps}")
      (gridIntersectGeneral dc dDis sCand sDis))
  | ["gi", dcrs, dlin, dW, dny, dnx, dty, dtx, scrs, slin, sW, sny, snx, sty, stx, ttol, stol, tol, sttol,
      fpEmpty, fp, dflags, exts, sflags] => do
    -- the public `grid_intersect(src)`: which path is taken is decided by the model
    let d ← parseTGB? dcrs dlin dW dny dnx dty dtx; let s ← parseTGB? scrs slin sW sny snx sty stx
    let ttol ← parseRat? ttol; let stol ← parseRat? stol; let tol ← parseRat? tol
    let sttol ← parseRat? sttol
    let fr ← parseForeign? d.g s.g fpEmpty fp dflags exts sflags
    let path := match checkLinearT d s ttol stol tol sttol with
      | .ok (some _) => "linear"
      | .ok none => if s.crs = d.crs then (if d.linear && s.linear then "same-crs" else "param")
                    else if fr.fpEmpty then "empty" else "param"
      | .error _ => "err"
    pure (path ++ " " ++ fmtRes fmtDeps (gridIntersect d s ttol stol tol sttol fr))
  | ["tq", crs, lin, W, ny, nx, ty, tx, kind, qcrs, q] => do
    -- the public `tiles(query)`; `toCrs` is never needed on the exact stream (same CRS or an error branch)
    let t ← parseTGB? crs lin W ny nx ty tx
    let qcrs ← parseCrs? qcrs
    let query ← match kind, qcrs with
      | "pix", none => (parseBBox? q).map Query.pixBox
      | "box", some c => (parseBBox? q).map (Query.box c)
      | "quad", c => (parseQuad? q).map (Query.quad c)
      | _, _ => none
    pure (fmtRes fmtIdxs (tilesQuery t (fun _ _ _ => .error .notImplemented) query))
  | ["tqfound", crs, lin, W, ny, nx, ty, tx, q] => do
    -- candidates of a geometry query as found (before fix2-C12) and as repaired
    let t ← parseTGB? crs lin W ny nx ty tx; let q ← parseQuad? q
    pure (fmtRes fmtIdxs (candidatesAsFound t q) ++ " " ++ fmtRes fmtIdxs (candidatesWorld t.g t.W id q.bbox))
  | ["fpp", crs, lin, W, ny, nx, ty, tx, buffer, npoints] => do
    -- numbers `footprint(crs, buffer, npoints)` hands to shapely's buffer and to to_crs
    let t ← parseTGB? crs lin W ny nx ty tx; let b ← parseRat? buffer; let n ← parseRat? npoints
    let r := footprintParams t b n
    pure s!"{fmtOpt fmtRat r.1} {fmtRat r.2}"
  | ["fppx", dcrs, dlin, dW, dny, dnx, dty, dtx, scrs, slin, sW, sny, snx, sty, stx] => do
    let d ← parseTGB? dcrs dlin dW dny dnx dty dtx; let s ← parseTGB? scrs slin sW sny snx sty stx
    let r := crossFootprintParams d s
    pure s!"{fmtOpt fmtRat r.1.1} {fmtRat r.1.2} {fmtOpt fmtRat r.2.1} {fmtRat r.2.2}"
  | ["cvx", p, q] => do
    -- reference semantics of shapely `disjoint` on convex rings
    let p ← parseQuad? p; let q ← parseQuad? q
    pure (fmtBool (Spec.Convex.disjoint p.toList q.toList))
  | ["ext", crs, lin, W, ny, nx, ty, tx, iy, ix] => do
    let t ← parseTGB? crs lin W ny nx ty tx; let iy ← parseInt? iy; let ix ← parseInt? ix
    let fq := fun (q : Quad) => ";".intercalate (q.toList.flatMap fun p => [fmtRat p.1, fmtRat p.2])
    pure (fq t.extent ++ " " ++ fmtRes fq (tileExtent t (iy, ix)))
  | _ => none

end OdcGeo.C12.Drv
