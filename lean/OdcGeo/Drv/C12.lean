import OdcGeo.Model.C12
namespace OdcGeo.C12.Drv
open OdcGeo OdcGeo.IO

def run (args : List String) : Option String :=
  match args with
  | _ => none

end OdcGeo.C12.Drv
