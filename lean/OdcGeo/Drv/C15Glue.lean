import OdcGeo.Model.C15Glue
/-!
Driver operations for the glue / call-trace model of C15 (`Model/C15Glue.lean`).

Tokens (no spaces inside):
  value   `N` | `T` | `F` | `i:<int>` | `s:<str>` | `x:<tok>`
  dict    `{k=v,k=v}`                     (printed sorted by key; `dupd` / `dwithout` print in insertion order)
  dst     `mem` | `p|<T/F exists>|<path>`
  icomp   `T` | `F` | `s:<name>` | `d:{…}`
  layer   `<shape>/<N or y;x>/<dtype>/<T/F float>/<value nodata attr>`; layers joined by `+`; `E` = empty list
-/
namespace OdcGeo.C15.GlueDrv
open OdcGeo OdcGeo.IO OdcGeo.C15 OdcGeo.C05

def parseV? (s : String) : Option V :=
  if s = "N" then some .none
  else if s = "T" then some (.bool true)
  else if s = "F" then some (.bool false)
  else if s.startsWith "i:" then (parseInt? (s.drop 2).toString).map V.int
  else if s.startsWith "s:" then some (.str (s.drop 2).toString)
  else if s.startsWith "x:" then some (.ext (s.drop 2).toString)
  else none

def fmtV : V → String
  | .none => "N"
  | .bool b => fmtBool b
  | .int i => s!"i:{i}"
  | .str s => s!"s:{s}"
  | .ext t => s!"x:{t}"

def parseKV? (s : String) : Option (String × V) :=
  match s.splitOn "=" with
  | k :: rest => if rest.isEmpty then none else (parseV? ("=".intercalate rest)).map fun v => (k, v)
  | [] => none

def parseDict? (s : String) : Option Dict :=
  if s.length < 2 || s.front ≠ '{' || s.back ≠ '}' then none
  else
    let inner := ((s.drop 1).dropEnd 1).toString
    if inner = "" then some [] else (inner.splitOn ",").mapM parseKV?

def fmtDictRaw (d : Dict) : String := "{" ++ ",".intercalate (d.map fun (k, v) => s!"{k}={fmtV v}") ++ "}"

def fmtDict (d : Dict) : String := fmtDictRaw (d.mergeSort fun a b => decide (a.1 < b.1) || a.1 == b.1)

def parseDst? (s : String) : Option Dst :=
  if s = "mem" then some .mem
  else match s.splitOn "|" with
    | ["p", e, p] => (parseBool? e).map fun e => .path p e
    | _ => none

def parseIComp? (s : String) : Option IComp :=
  if s = "T" then some (.flag true)
  else if s = "F" then some (.flag false)
  else if s.startsWith "s:" then some (.name (s.drop 2).toString)
  else if s.startsWith "d:" then (parseDict? (s.drop 2).toString).map IComp.dict
  else none

def parseYXo? (s : String) : Option (Option YX) :=
  if s = "N" then some none
  else match (s.splitOn ";").mapM parseNat? with
    | some [y, x] => some (some ⟨y, x⟩)
    | _ => none

def parseStrOpt? (s : String) : Option (Option String) :=
  if s = "N" then some none
  else if s.startsWith "s:" then some (some (s.drop 2).toString)
  else none

def parseLayer? (s : String) : Option Layer :=
  match s.splitOn "/" with
  | [sh, g, dt, fl, nd] => do
    let sh ← parseList? parseNat? sh; let g ← parseYXo? g; let fl ← parseBool? fl; let nd ← parseV? nd
    pure { shape := sh, g := g, dtype := dt, isFloat := fl, attrsNodata := nd }
  | _ => none

def parseLayers? (s : String) : Option (List Layer) :=
  if s = "E" then some [] else (s.splitOn "+").mapM parseLayer?

def fmtLoc : Loc → String
  | .anon k => s!"mem{k}"
  | .named p => p

def fmtWin (w : Win) : String := s!"{w.row}:{w.col}:{w.h}:{w.w}"

def fmtEv : Ev → String
  | .unlink p => s!"unlink:{p}"
  | .warnBlock => "warn"
  | .envEnter o => "env" ++ fmtDict o
  | .envExit => "envexit"
  | .openW l o => s!"open:{fmtLoc l}" ++ fmtDict o
  | .write sh b w =>
    s!"w:{fmtList (fun (n : Nat) => toString n) sh}:" ++ (match b with | none => "1" | some n => s!"(1..{n})") ++
      (match w with | none => "" | some w => "@" ++ fmtWin w)
  | .buildOverviews ls r => s!"ovr:{fmtList (fun (n : Nat) => toString n) ls}:{r}"
  | .close => "close"
  | .copy s d o => s!"copy:{fmtLoc s}>{fmtLoc d}" ++ fmtDict o

def fmtGErr : GErr → String
  | .valueError => "ERR:ValueError"
  | .assertion => "ERR:AssertionError"
  | .osError => "ERR:OSError"
  | .attributeError => "ERR:AttributeError"

def fmtRet : Ret → String
  | .bytesOf l => s!"bytes:{fmtLoc l}"
  | .path p => s!"path:{p}"
  | .none => "None"

/-- full trace, event by event (debugging aid: `c15 rawtrace …`) -/
def fmtTraceRaw (t : Trace) : String :=
  ";".intercalate (t.1.map fmtEv) ++ "|" ++ (match t.2 with | .ok r => fmtRet r | .error e => fmtGErr e)

/-- state of the observable projection: stack of `rasterio.Env` options in effect, items printed so far (reversed) -/
structure NState where
  env : List Dict := []
  out : List String := []

/-- options in effect: inner `Env` overrides outer -/
def envNow (s : NState) : String := "env" ++ fmtDict (s.env.reverse.foldl Dict.update [])

/-- OBSERVABLE projection of a trace, the thing compared with the real run: the calls that determine what GDAL produces, each
with the GDAL configuration in effect — datasets opened (with options), that pixels were written into them (not HOW: one shot,
by window or by band is not observable in the file; completeness and values are judged on the recorded dataset content),
overview requests, copies (with options), the removal of the destination, the warning — and not `Env` enter / exit or
`close` as such -/
def nstep (s : NState) : Ev → NState
  | .unlink p => { s with out := s!"unlink:{p}" :: s.out }
  | .warnBlock => { s with out := "warn" :: s.out }
  | .envEnter o => { s with env := o :: s.env }
  | .envExit => { s with env := s.env.drop 1 }
  | .openW l o => { s with out := (s!"open:{fmtLoc l}" ++ fmtDict o ++ envNow s) :: s.out }
  | .write _ _ _ => if s.out.head? = some "written" then s else { s with out := "written" :: s.out }
  | .buildOverviews ls r => { s with out := (s!"ovr:{fmtList (fun (n : Nat) => toString n) ls}:{r}" ++ envNow s) :: s.out }
  | .close => s
  | .copy a b o => { s with out := (s!"copy:{fmtLoc a}>{fmtLoc b}" ++ fmtDict o ++ envNow s) :: s.out }

def fmtTrace (t : Trace) : String :=
  ";".intercalate (t.1.foldl nstep {}).out.reverse ++ "|" ++ (match t.2 with | .ok r => fmtRet r | .error e => fmtGErr e)

def run (args : List String) : Option String :=
  match args with
  | ["wcog", sh, g, dt, fl, dst, nd, ow, b, rs, lv, ob, win, ic, ex] => do
    let sh ← parseList? parseNat? sh; let g ← parseYXo? g; let fl ← parseBool? fl; let dst ← parseDst? dst
    let nd ← parseV? nd; let ow ← parseBool? ow; let b ← parseOpt? parseNat? b; let rs ← parseStrOpt? rs
    let lv ← parseOpt? (parseList? parseNat?) lv; let ob ← parseOpt? parseNat? ob; let win ← parseBool? win
    let ic ← parseIComp? ic; let ex ← parseDict? ex
    let a : WArgs := {
      shape := sh, g := g, dtype := dt, isFloat := fl, dst := dst, nodata := nd, overwrite := ow,
      blocksize := b, resampling := rs, levels := lv, ovrBlocksize := ob, windowed := win, icomp := ic, extra := ex }
    pure (fmtTrace (writeCog a))
  | ["wcoggcp", sh, g, dt, fl, dst, nd, ow, b, rs, lv, ob, win, ic, ex] => do
    let sh ← parseList? parseNat? sh; let g ← parseYXo? g; let fl ← parseBool? fl; let dst ← parseDst? dst
    let nd ← parseV? nd; let ow ← parseBool? ow; let b ← parseOpt? parseNat? b; let rs ← parseStrOpt? rs
    let lv ← parseOpt? (parseList? parseNat?) lv; let ob ← parseOpt? parseNat? ob; let win ← parseBool? win
    let ic ← parseIComp? ic; let ex ← parseDict? ex
    let a : WArgs := {
      shape := sh, g := g, dtype := dt, isFloat := fl, dst := dst, nodata := nd, overwrite := ow,
      blocksize := b, resampling := rs, levels := lv, ovrBlocksize := ob, windowed := win, icomp := ic, extra := ex }
    pure (fmtTrace (writeCogGcp a))
  | ["wlayers", ls, dst, ow, b, ob, ic, win, ex, uuid] => do
    let ls ← parseLayers? ls; let dst ← parseDst? dst; let ow ← parseBool? ow; let b ← parseOpt? parseNat? b
    let ob ← parseOpt? parseNat? ob; let ic ← parseIComp? ic; let win ← parseBool? win; let ex ← parseDict? ex
    let a : LArgs := {
      layers := ls, dst := dst, overwrite := ow, blocksize := b, ovrBlocksize := ob,
      icomp := ic, windowed := win, extra := ex, uuid := uuid }
    pure (fmtTrace (writeCogLayers a))
  | ["wlayersfull", ls, dst, ow, b, ob, ic, win, ex, uuid] => do
    let ls ← parseLayers? ls; let dst ← parseDst? dst; let ow ← parseBool? ow; let b ← parseOpt? parseNat? b
    let ob ← parseOpt? parseNat? ob; let ic ← parseIComp? ic; let win ← parseBool? win; let ex ← parseDict? ex
    let a : LArgs := {
      layers := ls, dst := dst, overwrite := ow, blocksize := b, ovrBlocksize := ob,
      icomp := ic, windowed := win, extra := ex, uuid := uuid }
    pure (fmtTrace (writeCogLayersFull a))
  | ["wentry", which, im, dst, ow, b, ob, ovs, rs, lv, win, ic, ex, uuid] => do
    let im ← parseLayer? im; let dst ← parseDst? dst; let ow ← parseBool? ow; let b ← parseOpt? parseNat? b
    let ob ← parseOpt? parseNat? ob; let ovs ← parseOpt? parseLayers? ovs; let rs ← parseStrOpt? rs
    let lv ← parseOpt? (parseList? parseNat?) lv; let win ← parseBool? win; let ic ← parseIComp? ic; let ex ← parseDict? ex
    let a : CArgs := {
      im := im, dst := dst, overwrite := ow, blocksize := b, ovrBlocksize := ob, overviews := ovs,
      resampling := rs, levels := lv, windowed := win, icomp := ic, extra := ex, uuid := uuid }
    if which = "write_cog" then pure (fmtTrace (writeCogEntry a))
    else if which = "to_cog" then pure (fmtTrace (toCog a))
    else none
  | ["blockwins", h, w, bh, bw] => do
    let h ← parseNat? h; let w ← parseNat? w; let bh ← parseNat? bh; let bw ← parseNat? bw
    if bh = 0 ∨ bw = 0 then none else
    pure (fmtList fmtWin (blockWindows h w bh bw))
  | ["cover", h, w, bh, bw] => do
    let h ← parseNat? h; let w ← parseNat? w; let bh ← parseNat? bh; let bw ← parseNat? bw
    if bh = 0 ∨ bw = 0 then none else
    let wins := blockWindows h w bh bw
    let cs := (List.range h).flatMap fun y => (List.range w).map fun x => coverCount wins y x
    pure s!"{cs.foldl min 1} {cs.foldl max 0}"
  | ["memfiles", uuid, n] => do
    let n ← parseNat? n
    pure (fmtList id (memfilesOvr uuid n))
  | ["resamp", name] => pure ((resamplingS2rio name).getD "ERR:ValueError")
  | ["resampnames"] => pure (fmtList id resamplingNames)
  | ["dupd", a, b] => do
    let a ← parseDict? a; let b ← parseDict? b
    pure (fmtDictRaw (a.update b))
  | ["dwithout", a, ks] => do
    let a ← parseDict? a; let ks ← parseListRaw? ks
    pure (fmtDictRaw (a.without ks))
  | ["defopts", b, w, h, fl, other] => do
    let b ← parseNat? b; let w ← parseNat? w; let h ← parseNat? h; let fl ← parseBool? fl; let other ← parseDict? other
    pure (fmtDictRaw (defaultCogOpts b w h fl other))
  | ["ncompd", c] => do
    let c ← parseIComp? c
    pure (fmtDictRaw c.norm)
  | _ => none

end OdcGeo.C15.GlueDrv
