import OdcGeo.Model.C10
import OdcGeo.Drv.C03
namespace OdcGeo.C10.Drv
open OdcGeo OdcGeo.IO OdcGeo.C17 OdcGeo.C03 OdcGeo.C10

/-- rows separated by `|`, values by `,` : `1,2|3,4` -/
def parseImg? (s : String) : Option (List (List Int)) :=
  (s.splitOn "|").mapM fun row => if row = "" then some [] else (row.splitOn ",").mapM parseInt?

def fmtImg (img : List (List Int)) : String :=
  "|".intercalate (img.map fun row => ",".intercalate (row.map toString))

def parseNS? (s : String) : Option NSlice :=
  match s.splitOn ":" with
  | [a, b] => do let a ← parseInt? a; let b ← parseInt? b; pure ⟨a, b⟩
  | _ => none

def run (args : List String) : Option String :=
  match args with
  | ["almostint", x, tol] => do
    let x ← parseRat? x; let tol ← parseRat? tol
    pure (fmtBool (isAlmostInt x tol))
  | ["maybeint", x, tol] => do
    let x ← parseRat? x; let tol ← parseRat? tol
    pure (fmtRat (maybeInt x tol))
  | ["split", x] => do
    let x ← parseRat? x
    let r := splitFloat x
    pure s!"{fmtRat r.1} {fmtRat r.2}"
  | ["snapscale", x, tol] => do
    let x ← parseRat? x; let tol ← parseRat? tol
    pure (fmtRat (snapScale x tol))
  | ["isst", a] => do
    let a ← parseAff? a
    pure (fmtBool (isAffineST a))
  | ["snap", a, ttol, stol] => do
    let a ← parseAff? a; let ttol ← parseRat? ttol; let stol ← parseRat? stol
    pure (fmtAff (snapAffine a ttol stol))
  | ["canpaste", a, stol, ttol] => do
    let a ← parseAff? a; let stol ← parseRat? stol; let ttol ← parseRat? ttol
    match C03.Drv.rootOf a with
    | none => pure "irr"
    | some n => pure (fmtRes fmtBool (canPaste a n stol ttol))
  | ["nnwarp", sny, snx, dny, dnx, a, nodata, img] => do
    let sny ← parseInt? sny; let snx ← parseInt? snx; let dny ← parseInt? dny; let dnx ← parseInt? dnx
    let a ← parseAff? a; let nodata ← parseInt? nodata; let img ← parseImg? img
    pure (fmtImg (Warp.nnWarpList img (sny, snx) (dny, dnx) a nodata))
  | ["paste", dny, dnx, fy, fx, ys, xs, yd, xd, nodata, img] => do
    let dny ← parseInt? dny; let dnx ← parseInt? dnx
    let fy ← parseBool? fy; let fx ← parseBool? fx
    let ys ← parseNS? ys; let xs ← parseNS? xs; let yd ← parseNS? yd; let xd ← parseNS? xd
    let nodata ← parseInt? nodata; let img ← parseImg? img
    pure (fmtImg (pastedList img (dny, dnx) fy fx (ys, xs) (yd, xd) nodata))
  | ["detour", t, init, sn, dn, sny, snx, dny, dnx, a, simg, dimg] => do
    let t ← (match t with | "i8" => some PixT.int8 | "b" => some PixT.bool | "o" => some PixT.other | _ => none)
    let init ← parseBool? init
    let sn ← parseOpt? parseInt? sn; let dn ← parseOpt? parseInt? dn
    let sny ← parseInt? sny; let snx ← parseInt? snx; let dny ← parseInt? dny; let dnx ← parseInt? dnx
    let a ← parseAff? a; let simg ← parseImg? simg; let dimg ← parseImg? dimg
    pure (fmtImg (rioNNList t simg dimg (sny, snx) (dny, dnx) a sn dn init))
  | _ => none

end OdcGeo.C10.Drv
