import OdcGeo.Model.C10
import OdcGeo.Model.C10Nd
import OdcGeo.Model.C10Sig
import OdcGeo.Model.C10Rs
import OdcGeo.Drv.C03
namespace OdcGeo.C10.Drv
open OdcGeo OdcGeo.IO OdcGeo.C17 OdcGeo.C03 OdcGeo.C10

/-- rows separated by `|`, values by `,` : `1,2|3,4` -/
def parseImg? (s : String) : Option (List (List Int)) :=
  (s.splitOn "|").mapM fun row => if row = "" then some [] else (row.splitOn ",").mapM parseInt?

def fmtImg (img : List (List Int)) : String :=
  "|".intercalate (img.map fun row => ",".intercalate (row.map toString))

def parseNS? (s : String) : Option NSlice :=
  match s.splitOn ":" with
  | [a, b] => do let a ← parseInt? a; let b ← parseInt? b; pure ⟨a, b⟩
  | _ => none

/-- C-order flat index of a coordinate -/
def flatIdx (shape c : List Nat) : Nat := (shape.zip c).foldl (fun acc p => acc * p.1 + p.2) 0

def ndOfFlat (shape : List Nat) (flat : Array Int) : NdArr := fun c =>
  if c.length = shape.length ∧ (shape.zip c).all (fun p => decide (p.2 < p.1)) then flat.getD (flatIdx shape c) 0 else 0

def fmtParam (p : Param) : String :=
  match p.dflt with
  | .required => p.name
  | .none_ => p.name ++ "=None"
  | .num q => p.name ++ "=" ++ fmtRat q

def fmtSig (s : Sig) : String := " ".intercalate (s.params.map fmtParam ++ (if s.kwargs then ["**kwargs"] else []))

def parsePixT? (t : String) : Option PixT :=
  match t with | "i8" => some PixT.int8 | "b" => some PixT.bool | "o" => some PixT.other | _ => none

def run (args : List String) : Option String :=
  match args with
  | "plan" :: rest => C03.Drv.run ("plan" :: rest)   -- the full plan of compute_reproject_roi (model: C03.reprojectGeoBoxes)
  | ["sig", fn] => pure ((signature fn).elim "unknown" fmtSig)
  | ["s2rio", name] => pure (fmtRes toString (resamplingS2Rio name))
  | ["isnn", kind, v] => do
    let a ← (if kind = "str" then some (RsArg.str v) else (parseInt? v).map RsArg.code)
    pure (fmtBool (isResamplingNN a))
  | ["riocall", st, dt, isf, nan, gcp, kind, v, hx, hy, sn, dn] => do
    let st ← parsePixT? st; let dt ← parsePixT? dt; let isf ← parseBool? isf; let nan ← parseInt? nan
    let gcp ← parseBool? gcp
    let a ← (if kind = "str" then some (RsArg.str v) else (parseInt? v).map RsArg.code)
    let hx ← parseBool? hx; let hy ← parseBool? hy
    let sn ← parseOpt? parseInt? sn; let dn ← parseOpt? parseInt? dn
    let w : WorkT → String := fun | .same => "same" | .int16 => "int16" | .uint8 => "uint8"
    pure (fmtRes (fun (c : RioCall) =>
      s!"rs={c.resampling} tr={fmtBool c.srcTransform} gcps={fmtBool c.gcps} inj={fmtBool c.scaleInjected} sn={fmtOpt fmtInt c.srcNodata} dn={fmtOpt fmtInt c.dstNodata} src={w c.srcWork} dst={w c.dstWork}")
      (rioCall st dt isf nan gcp a hx hy sn dn))
  | ["ndwarp", t, isf, nan, ydim, sshape, dshape, a, sn, dn, init, sflat, dflat] => do
    -- rio_reproject on N-d arrays (flat C-order data)
    let t ← parsePixT? t; let isf ← parseBool? isf; let nan ← parseInt? nan
    let ydim ← parseOpt? parseNat? ydim
    let sshape ← parseList? parseNat? sshape; let dshape ← parseList? parseNat? dshape
    let a ← parseAff? a; let sn ← parseOpt? parseInt? sn; let dn ← parseOpt? parseInt? dn; let init ← parseBool? init
    let sflat ← parseList? parseInt? sflat; let dflat ← parseList? parseInt? dflat
    let src := ndOfFlat sshape sflat.toArray
    let dst := ndOfFlat dshape dflat.toArray
    match rioReprojectNd t isf nan src dst sshape dshape ydim a sn dn init with
    | .error e => pure e.toStr
    | .ok out => pure (fmtList fmtInt ((ndindex dshape).map out))
  | ["warp2", entry, t, isf, nan, init, sn, dn, sny, snx, dny, dnx, a, simg, dimg] => do
    -- the two public 2-D entry points: `rio` = rio_reproject (float default), `aff` = warp_affine
    let t ← parsePixT? t; let isf ← parseBool? isf; let nan ← parseInt? nan
    let init ← parseBool? init
    let sn ← parseOpt? parseInt? sn; let dn ← parseOpt? parseInt? dn
    let sny ← parseInt? sny; let snx ← parseInt? snx; let dny ← parseInt? dny; let dnx ← parseInt? dnx
    let a ← parseAff? a; let simg ← parseImg? simg; let dimg ← parseImg? dimg
    let f : Int → Int → Int :=
      if entry = "rio" then rioReproject2 t isf nan (Warp.getPx simg 0) (Warp.getPx dimg 0) (sny, snx) a sn dn init
      else warpAffine t (Warp.getPx simg 0) (Warp.getPx dimg 0) (sny, snx) a sn dn init
    pure (fmtImg ((List.range dny.toNat).map fun (dy : Nat) => (List.range dnx.toNat).map fun (dx : Nat) => f dy dx))
  | ["almostint", x, tol] => do
    let x ← parseRat? x; let tol ← parseRat? tol
    pure (fmtBool (isAlmostInt x tol))
  | ["maybeint", x, tol] => do
    let x ← parseRat? x; let tol ← parseRat? tol
    pure (fmtRat (maybeInt x tol))
  | ["split", x] => do
    let x ← parseRat? x
    let r := splitFloat x
    pure s!"{fmtRat r.1} {fmtRat r.2}"
  | ["snapscale", x, tol] => do
    let x ← parseRat? x; let tol ← parseRat? tol
    pure (fmtRat (snapScale x tol))
  | ["isst", a] => do
    let a ← parseAff? a
    pure (fmtBool (isAffineST a))
  | ["snap", a, ttol, stol] => do
    let a ← parseAff? a; let ttol ← parseRat? ttol; let stol ← parseRat? stol
    pure (fmtAff (snapAffine a ttol stol))
  | ["canpaste", a, stol, ttol] => do
    let a ← parseAff? a; let stol ← parseRat? stol; let ttol ← parseRat? ttol
    match C03.Drv.rootOf a with
    | none => pure "irr"
    | some n => pure (fmtRes fmtBool (canPaste a n stol ttol))
  | ["nnwarp", sny, snx, dny, dnx, a, nodata, img] => do
    let sny ← parseInt? sny; let snx ← parseInt? snx; let dny ← parseInt? dny; let dnx ← parseInt? dnx
    let a ← parseAff? a; let nodata ← parseInt? nodata; let img ← parseImg? img
    pure (fmtImg (Warp.nnWarpList img (sny, snx) (dny, dnx) a nodata))
  | ["paste", dny, dnx, fy, fx, ys, xs, yd, xd, nodata, img] => do
    let dny ← parseInt? dny; let dnx ← parseInt? dnx
    let fy ← parseBool? fy; let fx ← parseBool? fx
    let ys ← parseNS? ys; let xs ← parseNS? xs; let yd ← parseNS? yd; let xd ← parseNS? xd
    let nodata ← parseInt? nodata; let img ← parseImg? img
    pure (fmtImg (pastedList img (dny, dnx) fy fx (ys, xs) (yd, xd) nodata))
  | ["detour", t, init, sn, dn, sny, snx, dny, dnx, a, simg, dimg] => do
    let t ← (match t with | "i8" => some PixT.int8 | "b" => some PixT.bool | "o" => some PixT.other | _ => none)
    let init ← parseBool? init
    let sn ← parseOpt? parseInt? sn; let dn ← parseOpt? parseInt? dn
    let sny ← parseInt? sny; let snx ← parseInt? snx; let dny ← parseInt? dny; let dnx ← parseInt? dnx
    let a ← parseAff? a; let simg ← parseImg? simg; let dimg ← parseImg? dimg
    pure (fmtImg (rioNNList t simg dimg (sny, snx) (dny, dnx) a sn dn init))
  | _ => none

end OdcGeo.C10.Drv
