import OdcGeo.Model.C10
namespace OdcGeo.C10.Drv
open OdcGeo OdcGeo.IO

def run (args : List String) : Option String :=
  match args with
  | _ => none

end OdcGeo.C10.Drv
