import OdcGeo.Model.C05
namespace OdcGeo.C05.Drv
open OdcGeo OdcGeo.IO

def run (args : List String) : Option String :=
  match args with
  | _ => none

end OdcGeo.C05.Drv
