import OdcGeo.Model.C05
import OdcGeo.Drv.C05Opts
import OdcGeo.Model.C05Meta
namespace OdcGeo.C05.Drv
open OdcGeo OdcGeo.IO OdcGeo.C05

/-- `16` or `16x32` (`(b1, b2)`) -/
def parseBlk? (s : String) : Option Blk :=
  match s.splitOn "x" with
  | [b] => (parseNat? b).map Blk.one
  | [a, b] => do let a ← parseNat? a; let b ← parseNat? b; pure (.two a b)
  | _ => none

def fmtBlk : Blk → String
  | .one b => toString b
  | .two a b => s!"{a}x{b}"

/-- `planes;y;x;ty;tx` -/
def parseMeta? (s : String) : Option Meta :=
  match (s.splitOn ";").mapM parseNat? with
  | some [p, y, x, ty, tx] => some ⟨p, ⟨y, x⟩, ⟨ty, tx⟩⟩
  | _ => none

/-- `l;p;y;x;sz` -/
def parseObs? (s : String) : Option Obs :=
  match s.splitOn ";" with
  | [l, p, y, x, sz] => do
    let l ← parseNat? l; let p ← parseInt? p; let y ← parseInt? y; let x ← parseInt? x
    let sz ← parseNat? sz
    pure ⟨l, p, y, x, sz⟩
  | _ => none

/-- `N` or `gy,gx,a;b;c;d;e;f` -/
def parseGbox? (s : String) : Option (Option (YX × Aff)) :=
  if s = "N" then some none
  else match s.splitOn "," with
    | [gy, gx, a] => do
      let gy ← parseNat? gy; let gx ← parseNat? gx; let a ← parseAff? a
      pure (some (⟨gy, gx⟩, a))
    | _ => none

def parseYX? (s : String) : Option (Option YX) :=
  if s = "N" then some none
  else match (s.splitOn ";").mapM parseNat? with
    | some [y, x] => some (some ⟨y, x⟩)
    | _ => none

def fmtNat (n : Nat) : String := toString n

def parseAxis? (s : String) : Option Axis :=
  if s = "YX" then some .YX else if s = "YXS" then some .YXS else if s = "SYX" then some .SYX else none

def fmt3 (t : Nat × Nat × Nat) : String := s!"{t.1};{t.2.1};{t.2.2}"
def fmt4 (t : Nat × Nat × Nat × Nat) : String := s!"{t.1};{t.2.1};{t.2.2.1};{t.2.2.2}"

def fmtLevel (planes : Nat) (l : Level) : String :=
  let m : Meta := ⟨planes, l.shape, l.tile⟩
  s!"{l.shape.y},{l.shape.x},{l.tile.y},{l.tile.x},{m.chunked.y},{m.chunked.x},{m.numTiles}," ++
    fmtOpt fmtAff l.aff

def fmtCog (c : Cog) : String :=
  s!"{c.axis.toStr} {c.nsamples} {c.planes} {c.nlevels} " ++ "|".intercalate (c.levels.map (fmtLevel c.planes))

def fmtInfo (info : TileInfo) : String :=
  "|".intercalate (info.map fun (os, ns) => fmtList fmtNat os ++ ":" ++ fmtList fmtNat ns)

def run (args : List String) : Option String :=
  match args with
  | ["adj", b, d] => do
    let b ← parseNat? b; let d ← parseNat? d
    pure (fmtNat (adjustBlocksize b d))
  | ["norm", b] => do
    let b ← parseBlk? b
    let t := normBlocksize b
    pure s!"{t.y} {t.x}"
  | ["nov", b, d] => do
    let b ← parseNat? b; let d ← parseNat? d
    pure (fmtNat (numOverviews b d))
  | ["alup", x, a] => do
    let x ← parseNat? x; let a ← parseNat? a
    pure (fmtNat (alignUp x a))
  | ["pow2", x] => do
    let x ← parseNat? x
    pure (fmtNat (alignDownPow2 x))
  | ["spec", y, x, ty, tx, mp] => do
    let y ← parseNat? y; let x ← parseNat? x; let ty ← parseNat? ty; let tx ← parseNat? tx
    let mp ← parseOpt? parseNat? mp
    let (p, t, n) := computeCogSpec ⟨y, x⟩ ⟨ty, tx⟩ mp
    pure s!"{p.y} {p.x} {t.y} {t.x} {n}"
  | ["yaxis", sh, g] => do
    let sh ← parseList? parseNat? sh; let g ← parseYX? g
    pure (fmtRes (fun (a, k) => s!"{a.toStr} {k}") (yaxisFromShape sh g))
  | ["cog", sh, g, bs] => do
    let sh ← parseList? parseNat? sh; let g ← parseGbox? g; let bs ← parseList? parseBlk? bs
    pure (fmtRes fmtCog (makeEmptyCog sh g bs))
  | ["cogpre", sh, g, bs] => do
    let sh ← parseList? parseNat? sh; let g ← parseGbox? g; let bs ← parseList? parseBlk? bs
    pure (fmtRes fmtCog (makeEmptyCogPreFix sh g bs))
  | ["pyr", sh, g, bs] => do
    let sh ← parseList? parseNat? sh; let g ← parseGbox? g; let bs ← parseList? parseBlk? bs
    pure (fmtRes (fun c => "|".intercalate ((pyramidPlan c.levels).map fun st =>
      s!"{st.src}>{st.dst.shape.y},{st.dst.shape.x},{min st.chunks.y st.dst.shape.y},{min st.chunks.x st.dst.shape.x}," ++ fmtOpt fmtAff st.dst.aff))
      (makeEmptyCog sh g bs))
  | ["cogdef", sh, g, cy, cx] => do
    let sh ← parseList? parseNat? sh; let g ← parseGbox? g
    let cy ← parseNat? cy; let cx ← parseNat? cx
    pure (fmtRes fmtCog (makeEmptyCog sh g (defaultBlocksize cy cx)))
  | ["defblk", cy, cx] => do
    let cy ← parseNat? cy; let cx ← parseNat? cx
    pure (fmtList fmtBlk (defaultBlocksize cy cx))
  | ["flat", m, s, y, x] => do
    let m ← parseMeta? m; let s ← parseInt? s; let y ← parseInt? y; let x ← parseInt? x
    pure (fmtRes fmtNat (m.flatTileIdx s y x))
  | ["ntiles", m] => do
    let m ← parseMeta? m
    pure s!"{m.chunked.y} {m.chunked.x} {m.numTiles}"
  | ["tidx", m] => do
    let m ← parseMeta? m
    pure (fmtList fmt3 m.tidx)
  | ["tidxp", m, s] => do
    let m ← parseMeta? m; let s ← parseNat? s
    pure (fmtRes (fmtList fmt3) (m.tidxPlane s))
  | ["cogtidx", ms] => do
    let ms ← parseList? parseMeta? ms
    pure (fmtList fmt4 (cogTidx ms))
  | ["order", ms] => do
    let ms ← parseList? parseMeta? ms
    pure (fmtList fmt4 (writeOrder ms))
  | ["tinfo", ms, start, obs] => do
    let ms ← parseList? parseMeta? ms; let start ← parseNat? start
    let obs ← parseList? parseObs? obs
    pure (fmtRes fmtInfo (extractTileInfo ms obs start))
  | ["patch", ms, hdr, obs] => do
    let ms ← parseList? parseMeta? ms; let hdr ← parseNat? hdr
    let obs ← parseList? parseObs? obs
    pure (fmtRes fmtInfo (patchHdr ms obs hdr))
  | ["cchunks", ax, ndim, ns, bc, ty, tx] => do
    let ax ← parseAxis? ax; let ndim ← parseNat? ndim; let ns ← parseNat? ns
    let bc ← parseList? parseNat? bc; let ty ← parseNat? ty; let tx ← parseNat? tx
    let c := compressChunks ax ndim ns bc ⟨ty, tx⟩
    pure s!"{fmtList fmtNat c.band} {c.tile.y} {c.tile.x}"
  | ["bname", ax, ndim, bc, s, y, x] => do
    let ax ← parseAxis? ax; let ndim ← parseNat? ndim; let bc ← parseList? parseNat? bc
    let s ← parseNat? s; let y ← parseNat? y; let x ← parseNat? x
    let (kb, yy, xx) := blockName ax ndim bc s y x
    pure s!"{fmtOpt fmtNat kb} {yy} {xx}"
  | ["srcband", ns, bc, s] => do
    let ns ← parseNat? ns; let bc ← parseList? parseNat? bc; let s ← parseNat? s
    pure (fmtOpt fmtNat (sourceBandOfTile ns bc s))
  | ["baggroups", n] => do
    let n ← parseNat? n
    pure (fmtList (fmtList fmtNat) (bagGroups (List.range n)))
  | ["hdrsz", h0, st] => do
    let h0 ← parseNat? h0
    let st ← (if st = "N" then some none else match (st.splitOn ";").mapM parseNat? with
      | some [a, b] => some (some (a, b))
      | _ => none)
    pure (fmtNat (patchedHdrSize h0 st))
  | ["geotags", a] => do
    let a ← parseAff? a
    pure (match OdcGeo.Cog.encodeTransform a with
      | .scaleTie sc tie => "33550=" ++ fmtList fmtRat sc ++ " 33922=" ++ fmtList fmtRat tie
      | .matrix m => "34264=" ++ fmtList fmtRat m)
  | ["pad", n, t, i] => do
    let n ← parseNat? n; let t ← parseNat? t; let i ← parseNat? i
    let (a, b) := tilePad n t i
    pure s!"{a} {b} {blockExtent n t i}"
  | ["padcog", sy, sx, py, px] => do
    let sy ← parseNat? sy; let sx ← parseNat? sx; let py ← parseNat? py; let px ← parseNat? px
    let ((a, b), (c, d)) := padToCog ⟨sy, sx⟩ ⟨py, px⟩
    pure s!"{a} {b} {c} {d}"
  | args => OdcGeo.C05.OptsDrv.run args

end OdcGeo.C05.Drv
