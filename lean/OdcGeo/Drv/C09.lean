import OdcGeo.Model.C09
namespace OdcGeo.C09.Drv
open OdcGeo OdcGeo.IO OdcGeo.C09

/-- `N` or `id,T|F` -/
def parseCrs? (s : String) : Option (Option Crs) :=
  if s = "N" then some none
  else match s.splitOn "," with
    | [i, g] => do
      let i ← parseNat? i; let g ← parseBool? g
      pure (some ⟨i, g⟩)
    | _ => none

def fmtCrs : Option Crs → String
  | none => "N"
  | some c => s!"{c.id},{fmtBool c.geographic}"

def parseGcp? (s : String) : Option Gcp :=
  match (s.splitOn ";").mapM parseRat? with
  | some [c, r, x, y] => some ⟨c, r, x, y⟩
  | _ => none

def fmtGcp (p : Gcp) : String := ";".intercalate ([p.col, p.row, p.x, p.y].map fmtRat)

/-- `L:ny:nx:aff:crs` or `G:ny:nx:aff:crs:p1|p2|…` -/
def parseSrc? (s : String) : Option Src :=
  match s.splitOn ":" with
  | ["L", ny, nx, a, c] => do
    let ny ← parseNat? ny; let nx ← parseNat? nx; let a ← parseAff? a; let c ← parseCrs? c
    pure (.lin ⟨ny, nx, a, c⟩)
  | ["G", ny, nx, a, c, pts] => do
    let ny ← parseNat? ny; let nx ← parseNat? nx; let a ← parseAff? a; let c ← parseCrs? c
    let pts ← (pts.splitOn "|").mapM parseGcp?
    pure (.gcp ⟨ny, nx, pts, a, c⟩)
  | _ => none

def parseGeoBox? (s : String) : Option GeoBox :=
  match parseSrc? s with
  | some (.lin g) => some g
  | _ => none

/-- `s:dim:start:stop:step` | `i:dim:k` | `a` | `t` | `p` -/
def parseOp? (s : String) : Option Op :=
  match s.splitOn ":" with
  | ["a"] => some .arith
  | ["t"] => some .astype
  | ["p"] => some .pickle
  | ["i", d, k] => (parseInt? k).map (fun k => .isel d (.int k))
  | ["s", d, a, b, c] => do
    let a ← parseOpt? parseInt? a; let b ← parseOpt? parseInt? b; let c ← parseOpt? parseInt? c
    pure (.isel d (.slc a b c))
  | _ => none

def fmtRecovered : Recovered → String
  | .nothing => "none"
  | .lin g => s!"L {g.ny} {g.nx} {fmtAff g.A} {fmtCrs g.crs}"
  | .gcp g => s!"G {g.ny} {g.nx} {fmtAff g.A} {fmtCrs g.crs} " ++ "|".intercalate (g.pts.map fmtGcp)

def labelsOf (a : XArr) (d : String) : String :=
  match a.coords.lookup d with
  | some (.axis v _ _) => fmtList fmtRat v
  | _ => "-"

def fmtArr (a : XArr) : String :=
  let lab := match spatialDims a.dims with
    | some (yd, xd) => s!"{labelsOf a yd} {labelsOf a xd}"
    | none => "- -"
  s!"{fmtRes fmtRecovered (recover a)} {fmtList id a.dims} {lab} {fmtOpt id a.gridMapping}"

def sortStr (xs : List String) : List String := (xs.toArray.qsort (· < ·)).toList

def fmtOut (a : XArr) : String :=
  s!"{fmtRes fmtRecovered (recover a)} {fmtList id a.dims} {fmtList id (sortStr a.attrs)} " ++
  s!"{fmtOpt id a.gridMapping} {fmtList id (sortStr (a.coords.map (·.1)))}"

def fmtVar (nm : String) (v : XArr) : String :=
  s!"{nm}={fmtRes fmtRecovered (recover v)} {fmtList id v.dims} {fmtList id (sortStr v.attrs)} " ++
  s!"{fmtOpt id v.gridMapping}"

def fmtDs (r : List String × List (String × XArr)) : String :=
  let v := dsView r.1 r.2
  s!"{fmtList id (sortStr r.1)} {fmtRes fmtRecovered (recover v)} " ++
  s!"{fmtList id (sortStr (v.coords.map (·.1)))} " ++
  " ".intercalate (r.2.map fun nv => fmtVar nv.1 nv.2)

def build (src nt nb cn ops attrs : String) : Option (Res XArr) := do
  let src ← parseSrc? src
  let nt ← parseOpt? parseNat? nt; let nb ← parseOpt? parseNat? nb
  let ops ← parseList? parseOp? ops
  let attrs ← parseListRaw? attrs
  pure (match wrap src nt nb cn attrs with
    | .error e => .error e
    | .ok a => applyOps a ops)

/-- Dataset `{a: arr, b: arr * 2, c: non-geo variable (if extra)}` as the harness builds it -/
def mkDs (a : XArr) (extra : Bool) : List (String × XArr) :=
  let b : XArr := { a with gridMapping := none }
  let c : XArr := ⟨["t"], a.coords.filter (fun kc => match kc.2 with
        | .crs _ => true | .scalar => true | _ => false) ++ [("t", .other 3)], none, []⟩
  [("a", a), ("b", b)] ++ (if extra then [("c", c)] else [])

def run (args : List String) : Option String :=
  match args with
  | ["sel", n, a, b, c] => do
    let n ← parseNat? n
    let a ← parseOpt? parseInt? a; let b ← parseOpt? parseInt? b; let c ← parseInt? c
    pure (fmtList fmtInt (PySliceStep.sel n a b c))
  | ["isst", a] => do
    let a ← parseAff? a
    pure (fmtBool (isAffineST a))
  | ["params", kw] => do
    -- `[k=v,…]` → forwarded and remaining keys (sorted), values verbatim
    let kvs ← (← parseListRaw? kw).mapM (fun (t : String) => match t.splitOn "=" with
      | [k, v] => some (k, v)
      | _ => none)
    let (fwd, rest) := extractOutputGeoboxParams kvs
    let f := fun (l : List (String × String)) => fmtList id (sortStr (l.map (fun kv => kv.1 ++ "=" ++ kv.2)))
    pure s!"{f fwd} {f rest}"
  | ["rta", src, nt, nb, cn, ops] => do
    -- wrap_xr(crs_coord_name=None) then .odc.assign_crs(crs, cn), then the history
    let s ← parseSrc? src
    let nt ← parseOpt? parseNat? nt; let nb ← parseOpt? parseNat? nb
    let ops ← parseList? parseOp? ops
    let crs ← (match s with | .lin g => g.crs | .gcp g => g.crs)
    pure (fmtRes fmtArr (match wrapNoName s nt nb [] with
      | .error e => .error e
      | .ok a => applyOps (assignCrs a crs cn) ops))
  | ["rt", src, nt, nb, cn, ops] => do
    let r ← build src nt nb cn ops "[]"
    pure (fmtRes fmtArr r)
  | ["repr", src, nt, nb, cn, ops, attrs, dst, nodata, post] => do
    let r ← build src nt nb cn ops attrs
    let post ← parseList? parseOp? post
    let dst ← parseGeoBox? dst
    let nd ← parseBool? nodata
    pure (fmtRes fmtOut (match r with
      | .error e => .error e
      | .ok a => match assemble a dst nd with
        | .error e => .error e
        | .ok o => applyOps o post))
  | ["reprds", src, nt, nb, cn, ops, attrs, dsattrs, extra, dst] => do
    let r ← build src nt nb cn ops attrs
    let dst ← parseGeoBox? dst
    let dsattrs ← parseListRaw? dsattrs
    let extra ← parseBool? extra
    let res : Res (List String × List (String × XArr)) :=
      match r with
      | .error e => .error e
      | .ok a => assembleDs dsattrs (mkDs a extra) dst
    pure (fmtRes fmtDs res)
  | _ => none

end OdcGeo.C09.Drv
