import OdcGeo.Model.C09
import OdcGeo.Model.C09Reproject
import OdcGeo.Model.C09Glue
import OdcGeo.Drv.C11
namespace OdcGeo.C09.Drv
open OdcGeo OdcGeo.IO OdcGeo.C09

/-- `N` or `id,T|F` -/
def parseCrs? (s : String) : Option (Option Crs) :=
  if s = "N" then some none
  else match s.splitOn "," with
    | [i, g] => do
      let i ← parseNat? i; let g ← parseBool? g
      pure (some ⟨i, g⟩)
    | _ => none

def fmtCrs : Option Crs → String
  | none => "N"
  | some c => s!"{c.id},{fmtBool c.geographic}"

def parseGcp? (s : String) : Option Gcp :=
  match (s.splitOn ";").mapM parseRat? with
  | some [c, r, x, y] => some ⟨c, r, x, y⟩
  | _ => none

def fmtGcp (p : Gcp) : String := ";".intercalate ([p.col, p.row, p.x, p.y].map fmtRat)

/-- `L:ny:nx:aff:crs` or `G:ny:nx:aff:crs:p1|p2|…` -/
def parseSrc? (s : String) : Option Src :=
  match s.splitOn ":" with
  | ["L", ny, nx, a, c] => do
    let ny ← parseNat? ny; let nx ← parseNat? nx; let a ← parseAff? a; let c ← parseCrs? c
    pure (.lin ⟨ny, nx, a, c⟩)
  | ["G", ny, nx, a, c, pts] => do
    let ny ← parseNat? ny; let nx ← parseNat? nx; let a ← parseAff? a; let c ← parseCrs? c
    let pts ← (pts.splitOn "|").mapM parseGcp?
    pure (.gcp ⟨ny, nx, pts, a, c⟩)
  | _ => none

def parseGeoBox? (s : String) : Option GeoBox :=
  match parseSrc? s with
  | some (.lin g) => some g
  | _ => none

/-- `s:dim:start:stop:step` | `i:dim:k` | `a` | `t` | `p` -/
def parseOp? (s : String) : Option Op :=
  match s.splitOn ":" with
  | ["a"] => some .arith
  | ["t"] => some .astype
  | ["p"] => some .pickle
  | ["i", d, k] => (parseInt? k).map (fun k => .isel d (.int k))
  | ["s", d, a, b, c] => do
    let a ← parseOpt? parseInt? a; let b ← parseOpt? parseInt? b; let c ← parseOpt? parseInt? c
    pure (.isel d (.slc a b c))
  | _ => none

def fmtRecovered : Recovered → String
  | .nothing => "none"
  | .lin g => s!"L {g.ny} {g.nx} {fmtAff g.A} {fmtCrs g.crs}"
  | .gcp g => s!"G {g.ny} {g.nx} {fmtAff g.A} {fmtCrs g.crs} " ++ "|".intercalate (g.pts.map fmtGcp)

def labelsOf (a : XArr) (d : String) : String :=
  match a.coords.lookup d with
  | some (.axis v _ _) => fmtList fmtRat v
  | _ => "-"

def fmtArr (a : XArr) : String :=
  let lab := match spatialDims a.dims with
    | some (yd, xd) => s!"{labelsOf a yd} {labelsOf a xd}"
    | none => "- -"
  s!"{fmtRes fmtRecovered (recover a)} {fmtList id a.dims} {lab} {fmtOpt id a.gridMapping}"

def sortStr (xs : List String) : List String := (xs.toArray.qsort (· < ·)).toList

def fmtOut (a : XArr) : String :=
  s!"{fmtRes fmtRecovered (recover a)} {fmtList id a.dims} {fmtList id (sortStr a.attrs)} " ++
  s!"{fmtOpt id a.gridMapping} {fmtList id (sortStr (a.coords.map (·.1)))}"

def fmtVar (nm : String) (v : XArr) : String :=
  s!"{nm}={fmtRes fmtRecovered (recover v)} {fmtList id v.dims} {fmtList id (sortStr v.attrs)} " ++
  s!"{fmtOpt id v.gridMapping}"

def fmtDs (r : List String × List (String × XArr)) : String :=
  let v := dsView r.1 r.2
  s!"{fmtList id (sortStr r.1)} {fmtRes fmtRecovered (recover v)} " ++
  s!"{fmtList id (sortStr (v.coords.map (·.1)))} " ++
  " ".intercalate (r.2.map fun nv => fmtVar nv.1 nv.2)

def build (src nt nb cn ops attrs : String) : Option (Res XArr) := do
  let src ← parseSrc? src
  let nt ← parseOpt? parseNat? nt; let nb ← parseOpt? parseNat? nb
  let ops ← parseList? parseOp? ops
  let attrs ← parseListRaw? attrs
  pure (match wrap src nt nb cn attrs with
    | .error e => .error e
    | .ok a => applyOps a ops)

/-- Dataset `{a: arr, b: arr * 2, c: non-geo variable (if extra)}` as the harness builds it -/
def mkDs (a : XArr) (extra : Bool) : List (String × XArr) :=
  let b : XArr := { a with gridMapping := none }
  let c : XArr := ⟨["t"], a.coords.filter (fun kc => match kc.2 with
        | .crs _ => true | .scalar => true | _ => false) ++ [("t", .other 3)], none, []⟩
  [("a", a), ("b", b)] ++ (if extra then [("c", c)] else [])


/-! ### `xr_reproject` with a CRS destination (C09 × C11) -/

/-- `s:<text>` | `n:<rat>` | `r:<rx>:<ry>` | `o` -/
def parseResArg? (s : String) : Option C11.ResArg :=
  match s.splitOn ":" with
  | ["s", t] => some (.str t)
  | ["n", r] => (parseRat? r).map .num
  | ["r", rx, ry] => do
    let rx ← parseRat? rx; let ry ← parseRat? ry
    pure (.res rx ry)
  | ["o"] => some .other
  | _ => none

/-- `-` = not passed -/
def parseArg? {α} (p : String → Option α) (s : String) : Option (Option α) :=
  if s = "-" then some none else (p s).map some

def parseGridArgs? (res shape tight anchor tol rnd : String) : Option C11.GridArgs := do
  let res ← parseArg? parseResArg? res
  let shape ← parseArg? C11.Drv.parseShape? shape
  let tight ← parseArg? parseBool? tight
  let anchor ← parseArg? C11.Drv.parseAnchor? anchor
  let tol ← parseArg? parseRat? tol
  let rnd ← parseArg? C11.Drv.parseRnd? rnd
  pure ⟨res, shape, tight, anchor, tol, rnd⟩

/-- extra keywords `k=num:<rat>` | `k=none` | `k=op:<text>` -/
def parseKw? (s : String) : Option (String × KwVal) :=
  match s.splitOn "=" with
  | [k, v] =>
    match v.splitOn ":" with
    | ["num", r] => (parseRat? r).map (fun r => (k, KwVal.num r))
    | ["none"] => some (k, KwVal.none)
    | ["op", t] => some (k, KwVal.opaque t)
    | _ => none
  | _ => none

/-- destination: a GeoBox token, or `N` followed by the CRS and what pyproj contributed -/
def parseHow? (dst crs su rot bb cp fs : String) : Option How :=
  if dst ≠ "N" then (parseGeoBox? dst).map How.gbox
  else do
    let c ← parseCrs? crs
    let c ← c
    let su ← parseBool? su
    let rot ← C11.Drv.parsePair? rot
    let bb ← C11.Drv.parseBBox? bb
    let cp ← C11.Drv.parseBBox? cp
    let fs ← C11.Drv.parsePair? fs
    pure (.crs c ⟨su, rot, bb, cp, fs⟩)

/-- `srcKw;dstKw;attr;lo;hi`, each `N` or a rational (`lo`/`hi` both `N`: no range) -/
def parseNodataVals? (s : String) : Option NodataVals :=
  match (s.splitOn ";").mapM (parseOpt? parseRat?) with
  | some [a, b, c, lo, hi] =>
    some ⟨a, b, c, match lo, hi with | some l, some h => some (l, h) | _, _ => none⟩
  | _ => none

/-- `full = false`: the affine is elided (shape requests: `span / n` is not exact in doubles) -/
def fmtGeoBoxF (full : Bool) (g : GeoBox) : String :=
  if full then fmtRecovered (.lin g) else s!"L {g.ny} {g.nx} * {fmtCrs g.crs}"

def fmtRecF (full : Bool) : Recovered → String
  | .lin g => fmtGeoBoxF full g
  | r => fmtRecovered r

def fmtOutF (full : Bool) (a : XArr) : String :=
  s!"{fmtRes (fmtRecF full) (recover a)} {fmtList id a.dims} {fmtList id (sortStr a.attrs)} " ++
  s!"{fmtOpt id a.gridMapping} {fmtList id (sortStr (a.coords.map (·.1)))}"

/-! ### argument forms of `wrap_xr` / `xr_zeros` -/

/-- `N` | `s:<len>` | `s:N` (datetime) | `l:<n>` | `d:<n>` -/
def parseTime? (s : String) : Option (Option TimeArg) :=
  if s = "N" then some none
  else match s.splitOn ":" with
    | ["s", "N"] => some (some (.scalar none))
    | ["s", n] => (parseNat? n).map (fun n => some (.scalar (some n)))
    | ["l", n] => (parseNat? n).map (fun n => some (.list n))
    | ["d", n] => (parseNat? n).map (fun n => some (.dataArray n))
    | _ => none

def fmtW (a : XArr) : String :=
  s!"{fmtArr a} {fmtList id (sortStr a.attrs)} {fmtList id (sortStr (a.coords.map (·.1)))}"

/-- `-` absent | `N` None | rational -/
def parseAttrNum? (s : String) : Option AttrNum :=
  if s = "-" then some .absent else if s = "N" then some .none else (parseRat? s).map .num

def run (args : List String) : Option String :=
  match args with
  | ["wrapxr", src, shape, time, axis, nodata, cn, attrs] => do
    let s ← parseSrc? src
    let shape ← parseList? parseNat? shape
    let time ← parseTime? time
    let axis ← parseOpt? parseInt? axis
    let nd ← parseBool? nodata
    let cn ← parseOpt? some cn
    let attrs ← parseListRaw? attrs
    pure (fmtRes fmtW (wrapXr s ⟨shape, time, axis, nd, cn, attrs⟩))
  | ["zeros", src, time, cn, nodata, attrs] => do
    let s ← parseSrc? src
    let time ← parseTime? time
    let cn ← parseOpt? some cn
    let nd ← parseBool? nodata
    let attrs ← parseListRaw? attrs
    pure (fmtRes fmtW (xrZeros s time cn nd attrs))
  | ["rtdrop", src, nt, nb, cn, ops, drop] => do
    -- wrap, history, then `.drop_vars(drop)` of spatial coordinate names, then `.odc.geobox`
    let r ← build src nt nb cn ops "[]"
    let drop ← parseListRaw? drop
    pure (fmtRes fmtRecovered (match r with
      | .error e => .error e
      | .ok a => recoverDropped a drop))
  | ["gm", enc, attr] => do
    let enc ← parseOpt? some enc; let attr ← parseOpt? some attr
    pure (fmtOpt id (gridMappingOf enc attr))
  | ["crsattrs", dicts] => do
    -- `[a;b,c;d,…]`: per attribute dictionary `crs;crs_wkt`, each `-` absent | `e` unparsable | `o` other type |
    -- `s<id>` string | `c<id>` CRS object → sorted distinct candidate ids
    let pv := fun (t : String) => (
      if t = "-" then some CrsAttrVal.absent
      else if t = "e" then some (CrsAttrVal.str none)
      else if t = "o" then some CrsAttrVal.other
      else if t.startsWith "s" then (parseNat? (t.drop 1).toString).map (fun i => CrsAttrVal.str (some ⟨i, false⟩))
      else if t.startsWith "c" then (parseNat? (t.drop 1).toString).map (fun i => CrsAttrVal.obj ⟨i, false⟩)
      else none)
    let ds ← (← parseListRaw? dicts).mapM (fun (t : String) => match t.splitOn ";" with
      | [a, b] => do let a ← pv a; let b ← pv b; pure (a, b)
      | _ => none)
    let ids := (crsFromAttrs ds).map (·.id)
    pure (fmtList (fun (n : Nat) => toString n) (ids.toArray.qsort (· < ·)).toList)
  | ["zerosfix", src, time, cn, nodata, attrs] => do
    let s ← parseSrc? src
    let time ← parseTime? time
    let cn ← parseOpt? some cn
    let nd ← parseBool? nodata
    let attrs ← parseListRaw? attrs
    pure (fmtRes fmtW (xrZerosFixed s time cn nd attrs))
  | ["nodata", a, b] => do
    let a ← parseAttrNum? a; let b ← parseAttrNum? b
    pure (fmtOpt fmtRat (odcNodata a b))
  | ["dsgeobox", src, nt, nb, cn, ops, order] => do
    -- `_xarray_geobox` of a Dataset whose variables are listed in `order` (g = geo-registered, n = not)
    let r ← build src nt nb cn ops "[]"
    let order ← parseListRaw? order
    pure (fmtRes fmtRecovered (match r with
      | .error e => .error e
      | .ok a =>
        let c : XArr := ⟨["t"], a.coords.filter (fun kc => match kc.2 with
          | .crs _ => true | .scalar => true | _ => false) ++ [("t", .other 3)], none, []⟩
        xarrayGeobox (order.map fun o => if o = "g" then ("g", { a with gridMapping := none }) else ("n", c))))
  | ["reprcrs", src, nt, nb, cn, ops, attrs, dst, crs, su, rot, bb, cp, fs, res, shape, tight, anchor, tol, rnd, extra,
      nodata, post, full, ndv] => do
    -- xr_reproject(DataArray, how, **grid options, **extra, dst_nodata=…), then a history on the result
    let r ← build src nt nb cn ops attrs
    let how ← parseHow? dst crs su rot bb cp fs
    let ga ← parseGridArgs? res shape tight anchor tol rnd
    let extra ← parseList? parseKw? extra
    let nd ← parseBool? nodata
    let post ← parseList? parseOp? post
    let full ← parseBool? full
    let ndv ← parseNodataVals? ndv
    let _ := nd
    pure (fmtRes (fmtOutF full) (match r with
      | .error e => .error e
      | .ok a => match xrReprojectDaChecked a how ga extra ndv with
        | .error e => .error e
        | .ok o => applyOps o post))
  | ["reprcrsds", src, nt, nb, cn, ops, attrs, dsattrs, dsgm, extraVar, dst, crs, su, rot, bb, cp, fs, res, shape, tight,
      anchor, tol, rnd, extra, full, ndv] => do
    let ndv ← parseNodataVals? ndv
    let r ← build src nt nb cn ops attrs
    let how ← parseHow? dst crs su rot bb cp fs
    let ga ← parseGridArgs? res shape tight anchor tol rnd
    let extra ← parseList? parseKw? extra
    let full ← parseBool? full
    let dsattrs ← parseListRaw? dsattrs
    let dsgm ← parseOpt? some dsgm
    let extraVar ← parseBool? extraVar
    let res : Res (List String × List (String × XArr)) :=
      match r with
      | .error e => .error e
      | .ok a => xrReprojectDsChecked dsattrs dsgm (mkDs a extraVar) how ga extra ndv
    let fmtNoAff := fun (r : List String × List (String × XArr)) =>
      "noaff " ++ " ".intercalate ((r.2.filter (fun nv => nv.1 = "a" || nv.1 = "b")).map
        fun nv => s!"{nv.1}={fmtRes (fmtRecF false) (recover nv.2)}")
    pure (fmtRes (if full then fmtDs else fmtNoAff) res)
  | ["outgbx", src, nt, nb, cn, ops, crs, su, rot, bb, cp, fs, res, shape, tight, anchor, tol, rnd, full] => do
    -- xx.odc.output_geobox(crs, **kw)
    let r ← build src nt nb cn ops "[]"
    let how ← parseHow? "N" crs su rot bb cp fs
    let ga ← parseGridArgs? res shape tight anchor tol rnd
    let full ← parseBool? full
    pure (fmtRes (fmtGeoBoxF full) (match r, how with
      | .error e, _ => .error e
      | .ok a, .crs c p => odcOutputGeobox a c p ga
      | .ok _, .gbox _ => .error .runtimeError))
  | ["sel", n, a, b, c] => do
    let n ← parseNat? n
    let a ← parseOpt? parseInt? a; let b ← parseOpt? parseInt? b; let c ← parseInt? c
    pure (fmtList fmtInt (PySliceStep.sel n a b c))
  | ["isst", a] => do
    let a ← parseAff? a
    pure (fmtBool (isAffineST a))
  | ["params", kw] => do
    -- `[k=v,…]` → forwarded and remaining keys (sorted), values verbatim
    let kvs ← (← parseListRaw? kw).mapM (fun (t : String) => match t.splitOn "=" with
      | [k, v] => some (k, v)
      | _ => none)
    let (fwd, rest) := extractOutputGeoboxParams kvs
    let f := fun (l : List (String × String)) => fmtList id (sortStr (l.map (fun kv => kv.1 ++ "=" ++ kv.2)))
    pure s!"{f fwd} {f rest}"
  | ["rta", src, nt, nb, cn, ops] => do
    -- wrap_xr(crs_coord_name=None) then .odc.assign_crs(crs, cn), then the history
    let s ← parseSrc? src
    let nt ← parseOpt? parseNat? nt; let nb ← parseOpt? parseNat? nb
    let ops ← parseList? parseOp? ops
    let crs ← (match s with | .lin g => g.crs | .gcp g => g.crs)
    pure (fmtRes fmtArr (match wrapNoName s nt nb [] with
      | .error e => .error e
      | .ok a => applyOps (assignCrs a crs cn) ops))
  | ["rt", src, nt, nb, cn, ops] => do
    let r ← build src nt nb cn ops "[]"
    pure (fmtRes fmtArr r)
  | ["repr", src, nt, nb, cn, ops, attrs, dst, nodata, post] => do
    let r ← build src nt nb cn ops attrs
    let post ← parseList? parseOp? post
    let dst ← parseGeoBox? dst
    let nd ← parseBool? nodata
    pure (fmtRes fmtOut (match r with
      | .error e => .error e
      | .ok a => match assemble a dst nd with
        | .error e => .error e
        | .ok o => applyOps o post))
  | ["reprds", src, nt, nb, cn, ops, attrs, dsattrs, extra, dst] => do
    let r ← build src nt nb cn ops attrs
    let dst ← parseGeoBox? dst
    let dsattrs ← parseListRaw? dsattrs
    let extra ← parseBool? extra
    let res : Res (List String × List (String × XArr)) :=
      match r with
      | .error e => .error e
      | .ok a => assembleDs dsattrs (mkDs a extra) dst
    pure (fmtRes fmtDs res)
  | _ => none

end OdcGeo.C09.Drv
