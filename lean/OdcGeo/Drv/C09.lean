import OdcGeo.Model.C09
namespace OdcGeo.C09.Drv
open OdcGeo OdcGeo.IO

def run (args : List String) : Option String :=
  match args with
  | _ => none

end OdcGeo.C09.Drv
