import OdcGeo.Model.C19
namespace OdcGeo.C19.Drv
open OdcGeo OdcGeo.IO

def run (args : List String) : Option String :=
  match args with
  | _ => none

end OdcGeo.C19.Drv
