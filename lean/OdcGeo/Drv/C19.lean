import OdcGeo.Model.C19
/-!
Driver for C19.

  hist <fromText> <fromEpsg> <ops>
      fromText  `[text;sys;srs;wkt;epsg,...]`   (texts are literals or stand-ins `#k`)
      fromEpsg  `[n;sys;srs;wkt;epsg,...]`
      ops       `[op;arg;...,...]`  see `parseOp?`
      → observations joined by `,` then ` cache=<n> tcache=<n>`
  pair <type> <record A> <record B>   → `eq hashEq tokEq`  (`-` where the type is unhashable)
  clone <type> <record>               → `eq tokEq` of a value and its pickle round trip
  fields <type>                       → the attribute names the model knows for the type
-/
namespace OdcGeo.C19.Drv
open OdcGeo OdcGeo.IO OdcGeo.C19

/-! ### part (a) -/

def parsePInfo? (sys srs wkt epsg : String) : Option PInfo := do
  let sys ← parseNat? sys
  let epsg ← parseOpt? parseNat? epsg
  pure ⟨sys, srs, wkt, epsg⟩

def parseTextEntry? (s : String) : Option (String × PInfo) :=
  match s.splitOn ";" with
  | [t, sys, srs, wkt, epsg] => (parsePInfo? sys srs wkt epsg).map (fun p => (t, p))
  | _ => none

def parseEpsgEntry? (s : String) : Option (Nat × PInfo) :=
  match s.splitOn ";" with
  | [n, sys, srs, wkt, epsg] => do
    let n ← parseNat? n
    let p ← parsePInfo? sys srs wkt epsg
    pure (n, p)
  | _ => none

def lookupStr {β : Type} (k : String) : List (String × β) → Option β
  | [] => none
  | (k', v) :: t => if k' = k then some v else lookupStr k t

def mkWorld (ts : List (String × PInfo)) (es : List (Nat × PInfo)) : World :=
  { fromText := fun t => lookupStr t ts, fromEpsg := fun n => assoc n es }

def parseOp? (s : String) : Option Op :=
  match s.splitOn ";" with
  | ["pt", pv, t, pick] => do pure (.pnewText (← parseNat? pv) t (← parseNat? pick))
  | ["pe", pv, n, pick] => do pure (.pnewEpsg (← parseNat? pv) (← parseNat? n) (← parseNat? pick))
  | ["mi", v, n, pick] => do pure (.mk (← parseNat? v) (.int (← parseNat? n)) (← parseNat? pick))
  | ["ms", v, t, pick] => do pure (.mk (← parseNat? v) (.str t) (← parseNat? pick))
  | ["mp", v, pv, pick] => do pure (.mk (← parseNat? v) (.pyproj (← parseNat? pv)) (← parseNat? pick))
  | ["md", v, d, pick] => do pure (.mk (← parseNat? v) (.dict d) (← parseNat? pick))
  | ["mc", v, w] => do pure (.mk (← parseNat? v) (.crs (← parseNat? w)) 0)
  | ["pk", v, w, pick] => do pure (.pickle (← parseNat? v) (← parseNat? w) (← parseNat? pick))
  | ["dr", v] => do pure (.drop (← parseNat? v))
  | ["pd", v] => do pure (.pdrop (← parseNat? v))
  | ["gc"] => some .gc
  | ["tr", a, b, xy] => do pure (.transformer (← parseNat? a) (← parseNat? b) (← parseBool? xy))
  | ["ep", v] => do pure (.epsg (← parseNat? v))
  | ["eq", a, b] => do pure (.eq (← parseNat? a) (← parseNat? b))
  | ["ev", k] => do pure (.evict (← parseNat? k))
  | _ => none

def fmtOut : Out → String
  | .unit => "-"
  | .str s => s!"s:{s}"
  | .err e => e.toStr
  | .tr s d => s!"t:{s}>{d}"
  | .epsg e => "e:" ++ fmtOpt toString e
  | .bool b => fmtBool b

/-! ### part (b) -/

def parseNum? (s : String) : Option PyNum :=
  if s = "z" then some ⟨.float, 0, true⟩
  else if s = "b0" then some ⟨.bool, 0, false⟩
  else if s = "b1" then some ⟨.bool, 1, false⟩
  else if s.startsWith "i" then (parseRat? (s.drop 1).toString).map (fun r => ⟨.int, r, false⟩)
  else if s.startsWith "f" then (parseRat? (s.drop 1).toString).map (fun r => ⟨.float, r, false⟩)
  else none

/-- `N` or `obj;sys;epsg;str` with epsg `U` (unset) / `N` (None) / number -/
def parseCrs? (s : String) : Option (Option CrsObj) :=
  if s = "N" then some none
  else match s.splitOn ";" with
    | [obj, sys, epsg, str] => do
      let obj ← parseNat? obj
      let sys ← parseNat? sys
      let e ← if epsg = "U" then some (some 0) else parseOpt? parseNat? epsg
      pure (some ⟨obj, ⟨sys, "", "", none⟩, str, e⟩)
    | _ => none

def parseXYCls? : String → Option XYCls
  | "XY" => some .xy | "Resolution" => some .resolution
  | "Index2d" => some .index2d | "Shape2d" => some .shape2d | _ => none

def b3 (e : Bool) (h : Option Bool) (t : Bool) : String :=
  s!"{fmtBool e} {fmtOpt fmtBool h} {fmtBool t}"

def fmtOptB (h : Option Bool) : String := match h with | none => "-" | some b => fmtBool b

def out3 (e : Bool) (h : Option Bool) (t : Bool) : String :=
  s!"{fmtBool e} {fmtOptB h} {fmtBool t}"

def parseXY? : List String → Option XYv
  | [c, x, y] => do pure ⟨← parseXYCls? c, ← parseNum? x, ← parseNum? y⟩
  | _ => none

def parseBBox? : List String → Option BBox
  | [c, l, b, r, t] => do pure ⟨← parseCrs? c, ← parseNum? l, ← parseNum? b, ← parseNum? r, ← parseNum? t⟩
  | _ => none

def parseGBox? : List String → Option GBox
  | [c, ny, nx, aff] => do
    pure ⟨← parseCrs? c, ← parseInt? ny, ← parseInt? nx, ← parseList? parseNum? aff⟩
  | _ => none

def parseGCP? : List String → Option GCPBox
  | [ident, c, wld, pix, ny, nx, aff] => do
    let m : GCPMap := ⟨← parseNat? ident, ← parseCrs? c, ← parseList? parseNum? wld, ← parseList? parseNum? pix⟩
    pure ⟨← parseInt? ny, ← parseInt? nx, ← parseList? parseNum? aff, m⟩
  | _ => none

def parseTiles? : List String → Option (Res Tiles)
  | [by_, bx, ty, tx] => do
    pure (Tiles.mk' (← parseInt? by_) (← parseInt? bx) (← parseInt? ty) (← parseInt? tx))
  | _ => none

def parseVTiles? : List String → Option VTiles
  | [y, x] => do pure (VTiles.mk' (← parseList? parseInt? y) (← parseList? parseInt? x))
  | _ => none

def parseBin? : List String → Option Bin1D
  | [sz, o, d] => do pure ⟨← parseNum? sz, ← parseNum? o, ← parseInt? d⟩
  | _ => none

def parseGS? : List String → Option (Res GridSpec)
  | [c, ty, tx, rx, ry, ox, oy, fx, fy] => do
    let c ← parseCrs? c
    let c ← c
    pure (GridSpec.mk' c (← parseInt? ty) (← parseInt? tx) (← parseNum? rx) (← parseNum? ry)
      (← parseNum? ox) (← parseNum? oy) (← parseBool? fx) (← parseBool? fy))
  | _ => none

def parseGeom? : List String → Option Geom
  | [c, gt, layout, coords] => do
    pure ⟨← parseCrs? c, gt, ← parseList? parseInt? layout, ← parseList? parseNum? coords⟩
  | _ => none

/-- `G <gbox 4 tokens>` or `P <gcp 7 tokens>`; returns the rest -/
def parseAnyBox? : List String → Option (AnyBox × List String)
  | "G" :: a :: b :: c :: d :: rest => (parseGBox? [a, b, c, d]).map (fun g => (.lin g, rest))
  | "P" :: a :: b :: c :: d :: e :: f :: g :: rest =>
    (parseGCP? [a, b, c, d, e, f, g]).map (fun x => (.gcp x, rest))
  | _ => none

def parseAnyTiles? : List String → Option (Res AnyTiles × List String)
  | "T" :: a :: b :: c :: d :: rest =>
    (parseTiles? [a, b, c, d]).map (fun t => (t.map AnyTiles.reg, rest))
  | "V" :: a :: b :: rest => (parseVTiles? [a, b]).map (fun t => (.ok (.var t), rest))
  | _ => none

def parseGBT? (xs : List String) : Option (Res GBTiles × List String) := do
  let (g, rest) ← parseAnyBox? xs
  let (t, rest) ← parseAnyTiles? rest
  pure (t.map (fun t => ⟨g, t⟩), rest)

def splitHalf (xs : List String) : List String × List String := xs.splitAt (xs.length / 2)

def pairRes {α : Type} (a b : Res α) (f : α → α → String) : String :=
  match a, b with
  | .ok a, .ok b => f a b
  | .error e, _ => e.toStr
  | _, .error e => e.toStr

def hk {α : Type} [DecidableEq α] (a b : α) : Option Bool := some (decide (a = b))

def runPair (ty : String) (xs : List String) : Option String :=
  let (l, r) := splitHalf xs
  match ty with
  | "xy" => do
    let a ← parseXY? l; let b ← parseXY? r
    let h := match a.hashKey, b.hashKey with
      | some x, some y => some (decide (x = y))
      | _, _ => none
    pure (out3 (a.eq b) h (a.token == b.token))
  | "bbox" => do
    let a ← parseBBox? l; let b ← parseBBox? r
    pure (out3 (a.eq b) (hk a.hashKey b.hashKey) (a.token == b.token))
  | "gbox" => do
    let a ← parseGBox? l; let b ← parseGBox? r
    pure (out3 (a.eq b) (hk a.hashKey b.hashKey) (a.token == b.token))
  | "gcp" => do
    let a ← parseGCP? l; let b ← parseGCP? r
    pure (out3 (a.eq b) (hk a.hashKey b.hashKey) (a.token == b.token))
  | "tiles" => do
    let a ← parseTiles? l; let b ← parseTiles? r
    pure (pairRes a b fun a b => out3 (a.eq b) none (a.token == b.token))
  | "vst" => do
    let a ← parseVTiles? l; let b ← parseVTiles? r
    pure (out3 (a.eq b) none (a.token == b.token))
  | "bin" => do
    let a ← parseBin? l; let b ← parseBin? r
    pure (out3 (a.eq b) none (a.token == b.token))
  | "gs" => do
    let a ← parseGS? l; let b ← parseGS? r
    pure (pairRes a b fun a b => out3 (a.eq b) none (a.token == b.token))
  | "geom" => do
    let a ← parseGeom? l; let b ← parseGeom? r
    pure (out3 (a.eq b) none (a.token == b.token))
  | "gbt" => do
    let (a, rest) ← parseGBT? xs
    let (b, rest) ← parseGBT? rest
    if rest ≠ [] then none
    else pure (pairRes a b fun a b => out3 (a.eq b) none (a.token == b.token))
  | _ => none

/-- value vs its pickle round trip; the CRS of the clone is given by the caller (it is
`CRS(_str)`, which part (a) computes), a GCP mapping gets the fresh identity `fresh`. -/
def runClone (ty : String) (xs : List String) : Option String :=
  match ty, xs with
  | "gcp", fresh :: rest => do
    let fresh ← parseNat? fresh
    let a ← parseGCP? rest
    let b := a.clone fresh a.mapping.crs
    pure s!"{fmtBool (a.eq b)} {fmtBool (a.token == b.token)} {fmtBool (a.eq a.copy)}"
  | _, _ => none

def fieldsOf : String → Option String
  | "XY" | "Resolution" | "Index2d" | "Shape2d" => some "_xy"
  | "BoundingBox" => some "_box,_crs"
  | "Geometry" => some "crs,geom"
  | "GeoBox" => some "_affine,_crs,_extent,_lazy_ui,_shape"
  | "GCPGeoBox" => some "_affine,_crs,_extent,_lazy_ui,_mapping,_shape"
  | "GCPMapping" => some "_approx_affine,_crs,_p2w,_pix,_w2p,_wld"
  | "Tiles" => some "_base_shape,_shape,_tile_shape"
  | "VariableSizedTiles" => some "_offsets"
  | "GeoboxTiles" => some "_gbox,_tiles"
  | "Bin1D" => some "direction,origin,sz"
  | "GridSpec" => some "_shape,_xbin,_ybin,crs,origin,resolution,tile_size"
  | "CRS" => some "_crs,_epsg,_str"
  | _ => none

/-! ### constructors / normalisers -/

def fmtNum (n : PyNum) : String :=
  match n.kind with
  | .bool => if n.val = 0 then "b0" else "b1"
  | .int => "i" ++ fmtRat n.val
  | .float => if n.negz then "z" else "f" ++ fmtRat n.val

def fmtXYCls : XYCls → String
  | .xy => "XY" | .resolution => "Resolution" | .index2d => "Index2d" | .shape2d => "Shape2d"

def fmtXY (v : XYv) : String := s!"{fmtXYCls v.cls} {fmtNum v.x} {fmtNum v.y}"

def parseHow? : List String → Option (How × List String)
  | "HS" :: ty :: tx :: rest => do pure (.shape (← parseInt? ty) (← parseInt? tx), rest)
  | "HC" :: y :: x :: rest => do pure (.chunks (← parseList? parseInt? y) (← parseList? parseInt? x), rest)
  | _ => none

def parseCtor? (xs : List String) : Option (Res GBTiles × List String) := do
  let (g, rest) ← parseAnyBox? xs
  let (h, rest) ← parseHow? rest
  pure (GBTiles.mk' g h, rest)

def runCtor (args : List String) : Option String :=
  match args with
  | ["res", x, y] => do
    let x ← parseNum? x
    let y ← parseOpt? parseNum? y
    pure (fmtXY (Resolution.mk' x y))
  | ["resn", "N", x] => do pure (fmtXY (resNorm (.num (← parseNum? x))))
  | ["resn", "R", c, x, y] => do pure (fmtXY (resNorm (.res (← parseXY? [c, x, y]))))
  | ["shapen", "S", c, x, y] => do pure (fmtRes fmtXY (shapeNorm (.shape2d (← parseXY? [c, x, y]))))
  | ["shapen", "X", c, x, y] => do pure (fmtRes fmtXY (shapeNorm (.xy (← parseXY? [c, x, y]))))
  | ["shapen", "Q", xs] => do pure (fmtRes fmtXY (shapeNorm (.seq (← parseList? parseNum? xs))))
  | ["shtuple", c, x, y, t] => do
    pure (fmtRes fmtBool (Shape2d.eqTuple (← parseXY? [c, x, y]) (← parseList? parseNum? t)))
  | "gbtctor" :: rest => do
    let (a, rest) ← parseCtor? rest
    let (b, rest) ← parseCtor? rest
    if rest ≠ [] then none
    else pure (pairRes a b fun a b => s!"{fmtBool (a.eq b)} {fmtBool (a.token == b.token)}")
  | _ => none

def run (args : List String) : Option String :=
  match args with
  | "ctor" :: rest => runCtor rest
  | ["hist", ts, es, ops] => do
    let ts ← parseList? parseTextEntry? ts
    let es ← parseList? parseEpsgEntry? es
    let ops ← parseList? parseOp? ops
    let (σ, outs) := C19.run (mkWorld ts es) ops
    pure (",".intercalate (outs.map fmtOut) ++ s!" cache={σ.cache.length} tcache={σ.tcache.length}")
  | ["histq", ts, es, ops] => do
    -- observations only (when the harness cannot read the sizes of the two caches on the tree under test)
    let ts ← parseList? parseTextEntry? ts
    let es ← parseList? parseEpsgEntry? es
    let ops ← parseList? parseOp? ops
    let (_, outs) := C19.run (mkWorld ts es) ops
    pure (",".intercalate (outs.map fmtOut))
  | "pair" :: ty :: rest => runPair ty rest
  | "clone" :: ty :: rest => runClone ty rest
  | ["fields", ty] => fieldsOf ty
  | _ => none

end OdcGeo.C19.Drv
