import OdcGeo.Model.C20
namespace OdcGeo.C20.Drv
open OdcGeo OdcGeo.IO

def run (args : List String) : Option String :=
  match args with
  | _ => none

end OdcGeo.C20.Drv
