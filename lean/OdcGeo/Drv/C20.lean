import OdcGeo.Model.C20
import OdcGeo.Model.C20Glue
import OdcGeo.Model.C20NonFinite
import OdcGeo.Model.C20Seq
import OdcGeo.Model.C20NormXy
namespace OdcGeo.C20.Drv
open OdcGeo OdcGeo.IO OdcGeo.C20

def parseXF? (s : String) : Option XF :=
  if s = "inf" then some .pinf
  else if s = "-inf" then some .ninf
  else if s = "nan" then some .nan
  else (parseRat? s).map XF.fin

def fmtXF : XF → String
  | .fin q => fmtRat q
  | .pinf => "inf"
  | .ninf => "-inf"
  | .nan => "nan"

def parsePt? (s : String) : Option (Rat × Rat) :=
  match (s.splitOn ";").mapM parseRat? with
  | some [x, y] => some (x, y)
  | _ => none

def fmtPt (p : Rat × Rat) : String := s!"{fmtRat p.1};{fmtRat p.2}"

def fmtTN (r : Rat × Int) : String := s!"{fmtRat r.1} {r.2}"

def fmtBin (b : Bin1D) : String := s!"{fmtRat b.sz} {fmtRat b.origin} {b.direction}"

def fmtSum (r : Sum Int XF) : String :=
  match r with
  | .inl k => s!"i:{k}"
  | .inr y => s!"f:{fmtXF y}"

def fmtNRes {α} (f : α → String) : NF.NRes α → String
  | .ok a => f a
  | .error e => e.toStr

def fmtAffX (A : NF.AffX) : String := ";".intercalate ([A.a, A.b, A.c, A.d, A.e, A.f].map fmtXF)

def parseAffX? (s : String) : Option NF.AffX :=
  match (s.splitOn ";").mapM parseXF? with
  | some [a, b, c, d, e, f] => some ⟨a, b, c, d, e, f⟩
  | _ => none

/-- `s:<q>` scalar, `a:[..]` 1-d array -/
def parseArg? (s : String) : Option Poly2d.Arg :=
  match s.splitOn ":" with
  | ["s", q] => (parseRat? q).map .scalar
  | ["a", l] => (parseList? parseRat? l).map .arr
  | _ => none

/-- a row `a;b;…` -/
def parseRow? (s : String) : Option (List Rat) := (s.splitOn ";").mapM parseRat?

def fmtCallErr : Poly2d.CallErr → String
  | .valueError => "ERR:ValueError"
  | .typeError => "ERR:TypeError"

def fmtRWS (r : RWS) : String := s!"{fmtAff r.R} {fmtAff r.W} {fmtAff r.S}"

def run (args : List String) : Option String :=
  match args with
  | ["sscalex", s, tol] => do
    let s ← parseXF? s; let tol ← parseXF? tol
    pure (fmtNRes fmtSum (NF.snapScaleX s tol))
  | ["mintx", x, tol] => do
    let x ← parseXF? x; let tol ← parseXF? tol
    pure (fmtSum (NF.maybeIntT x tol))
  | ["gridx", x0, x1, res, off, tol] => do
    let x0 ← parseXF? x0; let x1 ← parseXF? x1; let res ← parseXF? res
    let off ← parseOpt? parseXF? off; let tol ← parseXF? tol
    pure (fmtNRes (fun r => s!"{fmtXF r.1} {r.2}") (NF.snapGridX x0 x1 res off tol))
  | ["stx", A, tol] => do
    let A ← parseAffX? A; let tol ← parseXF? tol
    pure (fmtBool (NF.isAffineStX A tol))
  | ["saffx", A, ttol, stol, tol] => do
    let A ← parseAffX? A; let ttol ← parseXF? ttol; let stol ← parseXF? stol; let tol ← parseXF? tol
    pure (fmtNRes fmtAffX (NF.snapAffineX A ttol stol tol))
  | ["edgeidx", ny, nx, closed] => do
    let ny ← parseNat? ny; let nx ← parseNat? nx; let closed ← parseBool? closed
    pure (fmtList (fun (q : Nat × Nat) => s!"{q.1};{q.2}") (edgeIndex ny nx closed))
  | ["qr2", n, shape, offset] => do
    -- binary64 products (C14's `fl64`), float32 `arange` exact below 2^24
    let n ← parseNat? n; let offset ← parseInt? offset
    let shape ← parseOpt? (fun s => match (s.splitOn ";").mapM parseNat? with
      | some [ny, nx] => some (ny, nx)
      | _ => none) shape
    pure (fmtList fmtPt (quasiRandomR2 C14.fl64 n shape offset))
  | ["normxy", pts, ds, r2] => do
    -- binary64, bit for bit (C14's fl64): normalised points, then `s tx ty` of the affine
    let pts ← parseList? parsePt? pts; let ds ← parseList? parseRat? ds; let r2 ← parseRat? r2
    let N := normXyF C14.fl64 pts ds r2
    pure s!"{fmtList fmtPt N.pts} {fmtRat N.s} {fmtRat N.tx} {fmtRat N.ty}"
  | ["normxyp", pts, ds, r2] => do
    -- up to 128 points: numpy's pairwise summation for the mean distance
    let pts ← parseList? parsePt? pts; let ds ← parseList? parseRat? ds; let r2 ← parseRat? r2
    let N := normXyP C14.fl64 pts ds r2
    pure s!"{fmtList fmtPt N.pts} {fmtRat N.s} {fmtRat N.tx} {fmtRat N.ty}"
  | ["normxysq", pts] => do
    let pts ← parseList? parsePt? pts
    pure (fmtList fmtRat (normXySq C14.fl64 pts))
  | ["polymk", shape, cc, A, x, y] => do
    let shape ← parseList? parseNat? shape; let cc ← parseList? parsePt? cc; let A ← parseAff? A
    let x ← parseRat? x; let y ← parseRat? y
    pure (fmtRes (fun P => fmtPt (Poly2d.eval P (x, y))) (Poly2d.mk? shape cc A))
  | ["polycall2", k, cc, A, x, y] => do
    let k ← parseNat? k; let cc ← parseList? parsePt? cc; let A ← parseAff? A
    let x ← parseArg? x; let y ← parseArg? y
    let P : Poly2d := ⟨Poly2d.reshape k cc, A⟩
    pure (match P.call2 x y with
      | .ok r => s!"{fmtList fmtRat r.1} {fmtList fmtRat r.2}"
      | .error e => fmtCallErr e)
  | ["polycalln", k, cc, A, A2, pts] => do
    let k ← parseNat? k; let cc ← parseList? parsePt? cc; let A ← parseAff? A
    let A2 ← parseOpt? parseAff? A2; let pts ← parseList? parsePt? pts
    let P : Poly2d := ⟨Poly2d.reshape k cc, A⟩
    let P := match A2 with
      | some B => P.withInputTransform B
      | none => P
    pure (fmtList fmtPt (P.callN pts))
  | ["polycalllast2", k, cc, A, shape, pts] => do
    -- P(X) for X of shape (*shape, 2): flat row-major list of the output pairs (output shape = reversed(shape) + (2,))
    let k ← parseNat? k; let cc ← parseList? parsePt? cc; let A ← parseAff? A
    let shape ← parseList? parseNat? shape; let pts ← parseList? parsePt? pts
    let P : Poly2d := ⟨Poly2d.reshape k cc, A⟩
    pure (fmtList fmtPt (P.callLast2 shape pts))
  | ["bineq", sz, o, d, sz2, o2, d2] => do
    let sz ← parseRat? sz; let o ← parseRat? o; let d ← parseInt? d
    let sz2 ← parseRat? sz2; let o2 ← parseRat? o2; let d2 ← parseInt? d2
    pure (fmtBool (Bin1D.beq ⟨sz, o, d⟩ ⟨sz2, o2, d2⟩))
  | ["applyaff", A, xs, ys] => do
    let A ← parseAff? A; let xs ← parseList? parseRat? xs; let ys ← parseList? parseRat? ys
    pure (fmtRes (fun r => s!"{fmtList fmtRat r.1} {fmtList fmtRat r.2}") (applyAffine A xs ys))
  | ["unstack", rows] => do
    let rows ← parseList? parseRow? rows
    pure (fmtRes (fmtList fmtPt) (unstackXy rows))
  | ["stack", pts] => do
    let pts ← parseList? parsePt? pts
    pure (fmtList (fun r => ";".intercalate (r.map fmtRat)) (stackXy pts))
  | ["rwsnd", rows, n, p] => do
    let rows ← parseList? parseRow? rows; let n ← parseRat? n; let p ← parseRat? p
    pure (fmtRes fmtRWS (decomposeRwsNd rows n p))
  | ["split", x] => do
    let x ← parseXF? x
    let r := splitFloatX x
    pure s!"{fmtXF r.1} {fmtXF r.2}"
  | ["mint", x, tol] => do
    let x ← parseXF? x; let tol ← parseRat? tol
    pure (match maybeIntX x tol with
      | .inl k => s!"i:{k}"
      | .inr y => s!"f:{fmtXF y}")
  | ["almost", x, tol] => do
    let x ← parseXF? x; let tol ← parseRat? tol
    pure (fmtBool (isAlmostIntX x tol))
  | ["mzero", x, tol] => do
    let x ← parseRat? x; let tol ← parseRat? tol
    pure (fmtRat (maybeZero x tol))
  | ["sscale", s, tol] => do
    let s ← parseRat? s; let tol ← parseRat? tol
    pure (fmtRes fmtRat (snapScale s tol))
  | ["alup", x, a] => do
    let x ← parseInt? x; let a ← parseInt? a
    pure (fmtInt (C17.alignUp x a))
  | ["aldown", x, a] => do
    let x ← parseInt? x; let a ← parseInt? a
    pure (fmtInt (C17.alignDown x a))
  | ["up2", x] => do
    let x ← parseInt? x
    pure (fmtInt (alignUpPow2 x))
  | ["down2", x] => do
    let x ← parseInt? x
    pure (fmtInt (alignDownPow2 x))
  | ["clamp", x, lo, up] => do
    let x ← parseRat? x; let lo ← parseRat? lo; let up ← parseRat? up
    pure (fmtRes fmtRat (clamp x lo up))
  | ["edgepos", x0, x1, res, tol] => do
    let x0 ← parseRat? x0; let x1 ← parseRat? x1; let res ← parseRat? res; let tol ← parseRat? tol
    pure (fmtRes fmtTN (snapEdgePos x0 x1 res tol))
  | ["edge", x0, x1, res, tol] => do
    let x0 ← parseRat? x0; let x1 ← parseRat? x1; let res ← parseRat? res; let tol ← parseRat? tol
    pure (fmtRes fmtTN (snapEdge x0 x1 res tol))
  | ["grid", x0, x1, res, off, tol] => do
    let x0 ← parseRat? x0; let x1 ← parseRat? x1; let res ← parseRat? res
    let off ← parseOpt? parseRat? off; let tol ← parseRat? tol
    pure (fmtRes fmtTN (snapGrid x0 x1 res off tol))
  | ["dro", data, fb] => do
    let data ← parseList? parseRat? data; let fb ← parseOpt? parseRat? fb
    pure (fmtRes (fun r => s!"{fmtRat r.1} {fmtRat r.2}") (dataResolutionAndOffset data fb))
  | ["axis", xx, yy, fb] => do
    let xx ← parseList? parseRat? xx; let yy ← parseList? parseRat? yy
    let fb ← parseOpt? parsePt? fb
    pure (fmtRes fmtAff (affineFromAxis xx yy fb))
  | ["st", A, tol] => do
    let A ← parseAff? A; let tol ← parseRat? tol
    pure (fmtBool (isAffineSt A tol))
  | ["saff", A, ttol, stol, tol] => do
    let A ← parseAff? A; let ttol ← parseRat? ttol; let stol ← parseRat? stol; let tol ← parseRat? tol
    pure (fmtRes fmtAff (snapAffine A ttol stol tol))
  | ["rws", A, n, p] => do
    let A ← parseAff? A; let n ← parseRat? n; let p ← parseRat? p
    let r := decomposeRws A n p
    pure s!"{fmtAff r.R} {fmtAff r.W} {fmtAff r.S}"
  | ["rws2", A, n, p] => do
    let A ← parseAff? A; let n ← parseRat? n; let p ← parseRat? p
    let r := decomposeRws2 A n p
    pure s!"{fmtAff r.R} {fmtAff r.W} {fmtAff r.S}"
  | ["rwsS", A, n, p] => do
    let A ← parseAff? A; let n ← parseRat? n; let p ← parseRat? p
    pure (fmtAff (decomposeRws A n p).S)
  | ["resaff", A, n, p] => do
    let A ← parseAff? A; let n ← parseRat? n; let p ← parseRat? p
    let r := resolutionFromAffine A n p
    pure s!"{fmtRat r.1} {fmtRat r.2}"
  | ["fitaff", X, Y] => do
    let X ← parseList? parsePt? X; let Y ← parseList? parsePt? Y
    pure (fmtRes fmtAff (affineFromPts lstsqNormal X Y))
  | ["bin", sz, origin, dir, x] => do
    let sz ← parseRat? sz; let origin ← parseRat? origin; let dir ← parseInt? dir; let x ← parseRat? x
    pure (fmtRes fmtInt ((Bin1D.mk? sz origin dir).map (·.bin x)))
  | ["interval", sz, origin, dir, idx] => do
    let sz ← parseRat? sz; let origin ← parseRat? origin; let dir ← parseInt? dir; let idx ← parseInt? idx
    pure (fmtRes (fun r => s!"{fmtRat r.1} {fmtRat r.2}") ((Bin1D.mk? sz origin dir).map (·.interval idx)))
  | ["fsb", idx, x0, x1, dir] => do
    let idx ← parseInt? idx; let x0 ← parseRat? x0; let x1 ← parseRat? x1; let dir ← parseInt? dir
    pure (fmtRes fmtBin (Bin1D.fromSampleBin idx x0 x1 dir))
  | ["poly", k, cc, A, x, y] => do
    let k ← parseNat? k; let cc ← parseList? parsePt? cc; let A ← parseAff? A
    let x ← parseRat? x; let y ← parseRat? y
    let P : Poly2d := ⟨Poly2d.reshape k cc, A⟩
    pure (fmtPt (P.eval (x, y)))
  | ["polywith", k, cc, A, A2, x, y] => do
    let k ← parseNat? k; let cc ← parseList? parsePt? cc; let A ← parseAff? A; let A2 ← parseAff? A2
    let x ← parseRat? x; let y ← parseRat? y
    let P : Poly2d := ⟨Poly2d.reshape k cc, A⟩
    pure (fmtPt ((P.withInputTransform A2).eval (x, y)))
  | ["polygrid", k, cc, A, xs, ys] => do
    let k ← parseNat? k; let cc ← parseList? parsePt? cc; let A ← parseAff? A
    let xs ← parseList? parseRat? xs; let ys ← parseList? parseRat? ys
    let P : Poly2d := ⟨Poly2d.reshape k cc, A⟩
    pure (fmtRes (fun rows => fmtList (fun row => fmtList fmtPt row) rows) (P.grid2d xs ys))
  | ["polygridwith", k, cc, A, A2, xs, ys] => do
    let k ← parseNat? k; let cc ← parseList? parsePt? cc; let A ← parseAff? A; let A2 ← parseAff? A2
    let xs ← parseList? parseRat? xs; let ys ← parseList? parseRat? ys
    let P : Poly2d := ⟨Poly2d.reshape k cc, A⟩
    pure (fmtRes (fun rows => fmtList (fun row => fmtList fmtPt row) rows) ((P.withInputTransform A2).grid2d xs ys))
  | ["splittr", x, y] => do
    let x ← parseRat? x; let y ← parseRat? y
    let r := splitTranslation (x, y)
    pure s!"{fmtPt r.1} {fmtPt r.2}"
  | ["fitkind", n] => do
    let n ← parseNat? n
    pure (fmtRes (fun k => match k with
      | Poly2d.FitKind.affine => "affine 3 2"
      | .bilinear => "bilinear 4 2"
      | .biquadratic => "biquadratic 9 3") (Poly2d.fitKind n))
  | ["design", n, x, y] => do
    let n ← parseNat? n; let x ← parseRat? x; let y ← parseRat? y
    pure (fmtRes (fun k => fmtList fmtRat (Poly2d.designRow k (x, y))) (Poly2d.fitKind n))
  | ["designs", n, x, y] => do
    -- the design row as a multiset (sorted): the order of the columns handed to LAPACK is an internal matter
    let n ← parseNat? n; let x ← parseRat? x; let y ← parseRat? y
    pure (fmtRes (fun k => fmtList fmtRat ((Poly2d.designRow k (x, y)).mergeSort (fun a b => decide (a ≤ b)))) (Poly2d.fitKind n))
  | ["denorm", cc, Ab] => do
    let cc ← parseList? parsePt? cc; let Ab ← parseAff? Ab
    pure (fmtList fmtPt (Poly2d.denorm cc Ab))
  | _ => none

end OdcGeo.C20.Drv
