import OdcGeo.Model.C04
import OdcGeo.Model.C04Roi
import OdcGeo.Model.C04Args
import OdcGeo.Model.C04Dtype
import OdcGeo.Model.C04Np
import OdcGeo.Drv.C17
namespace OdcGeo.C04.Drv
open OdcGeo OdcGeo.IO OdcGeo.C17 OdcGeo.C04 OdcGeo.NpArray
open OdcGeo.C17.Drv (parsePIdx? fmtNS)

def parseInts? (s : String) : Option (List Int) := parseList? parseInt? s

/-- `r:N:n` or `v:[c1,c2,…]` -/
def parseTiling? (s : String) : Option Tiling :=
  match s.splitOn ":" with
  | ["r", a, b] => do let N ← parseInt? a; let n ← parseInt? b; pure (.reg N n)
  | ["v", l] => (parseInts? l).map Tiling.var
  | _ => none

/-- `y;x` -/
def parsePair? (s : String) : Option (Int × Int) :=
  match s.splitOn ";" with
  | [a, b] => do let a ← parseInt? a; let b ← parseInt? b; pure (a, b)
  | _ => none

def fmtInts (xs : List Int) : String := fmtList fmtInt xs
def fmtPair (p : Int × Int) : String := s!"{p.1};{p.2}"

def fmtTiling2 (t : Tiling2) : String :=
  s!"{t.y.base} {t.y.count} {t.x.base} {t.x.count} " ++
    fmtRes (fun (a, b) => s!"{fmtInts a} {fmtInts b}") (chunks2 t)

def fmtGBox (g : GBox) : String := s!"{g.ny} {g.nx} {fmtAff g.A}"

/-- cell value of the synthetic block stored under `key` at block-local index `(l, y, x, t)` -/
def cellVal (m : Int) (key : Int × Int) (l : List Int) (y x : Int) (t : List Int) : Int :=
  let w (base : Int) (v : List Int) : Int :=
    (v.zipIdx.map fun (a, i) => a * ((i : Int) + 1) * base).foldl (· + ·) 0
  1 + (key.1 * 7 + key.2 * 13 + y * 3 + x * 5 + w 17 l + w 11 t) % m

def irange (n : Int) : List Int := (List.range n.toNat).map fun (k : Nat) => (k : Int)

def idxVectors (shape : List Int) : List (List Int) :=
  (ndindex (shape.map Int.toNat)).map fun v => v.map fun (k : Nat) => (k : Int)

/-- `N` (None), `1=<pidx>` (bare index) or `t=[pidx,…]` (tuple; `t=[]` is the empty tuple) -/
def parseRoi? (s : String) : Option Roi :=
  if s = "N" then some .none
  else match s.splitOn "=" with
    | ["1", p] => (parsePIdx? p).map Roi.single
    | ["t", l] => (parseList? parsePIdx? l).map Roi.tuple
    | _ => none

def fmtNat (n : Nat) : String := toString n

/-! ### argument forms (`Model/C04Args.lean`) -/

def fmtResA {α} (f : α → String) : ResA α → String
  | .ok a => f a
  | .error e => e.toStr

def fmtP : PIdx → String
  | .idx i => s!"i:{i}"
  | .slc a b => s!"s:{fmtOpt fmtInt a}:{fmtOpt fmtInt b}"

/-- `iy;ix;d0;d1;…` : key and `b.shape` of one block -/
def parseBlock? (s : String) : Option BlockDesc := do
  let xs ← (s.splitOn ";").mapM parseInt?
  match xs with
  | iy :: ix :: shape => pure ⟨(iy, ix), shape⟩
  | _ => none

/-- `t=[pidx,…]` tuple, `I=x;y` Index2d, `X=x;y` XY, `O` anything else -/
def parseIdxArg? (s : String) : Option IdxArg :=
  if s = "O" then some .other
  else match s.splitOn "=" with
    | ["t", l] => (parseList? parsePIdx? l).map IdxArg.tuple
    | ["I", p] => (parsePair? p).map fun (x, y) => IdxArg.index2d x y
    | ["X", p] => (parsePair? p).map fun (x, y) => IdxArg.xy x y
    | _ => none

/-- `S=x;y` Shape2d, `X=x;y` XY, `q=[a,b,…]` tuple / list of ints, `O` anything else -/
def parseShapeArg? (s : String) : Option ShapeArg :=
  if s = "O" then some .other
  else match s.splitOn "=" with
    | ["S", p] => (parsePair? p).map fun (x, y) => ShapeArg.shape2d x y
    | ["X", p] => (parsePair? p).map fun (x, y) => ShapeArg.xy x y
    | ["q", l] => (parseInts? l).map ShapeArg.seq
    | _ => none

/-- a shape spelling, or `c=[..]|[..]|…` (sequence of int sequences, at least one) -/
def parseHowArg? (s : String) : Option HowArg :=
  match s.splitOn "=" with
  | ["c", l] => do
    let cs ← (l.splitOn "|").mapM parseInts?
    match cs with
    | c0 :: rest => pure (.chunks c0 rest)
    | [] => none
  | _ => (parseShapeArg? s).map HowArg.shape

/-- what identifies a constructed tiling object: `Tiles` base / tile size, resp. the `int32`
offsets array of `VariableSizedTiles` -/
def fmtTilingTok : Tiling → String
  | .reg N n => s!"r:{N}:{n}"
  | .var ch => s!"v:{fmtInts (offsets ch)}"

def fmtPlaneEl : PlaneEl → String
  | .ax i => toString i
  | .win p => fmtP p

def fmtWinAxis (w : WinAxis) : String := s!"{w.1};{fmtOpt fmtInt w.2}"

/-- dtype token: kind letter + bits, e.g. `u8`, `f32`, `b8`, `c128` -/
def parseDT? (s : String) : Option DT :=
  match s.toList with
  | k :: rest => do
    let bits ← (String.ofList rest).toNat?
    let kind ← match k with
      | 'b' => some Kind.b | 'u' => some Kind.u | 'i' => some Kind.i | 'f' => some Kind.f | 'c' => some Kind.c
      | _ => none
    pure ⟨kind, bits⟩
  | [] => none

def fmtDT (d : DT) : String :=
  (match d.kind with | .b => "b" | .u => "u" | .i => "i" | .f => "f" | .c => "c") ++ toString d.bits

/-- fill token: `N`, `B=T|F`, `I=<int>`, `F=<rat>`, `F=x` (nan / inf) -/
def parseFill? (s : String) : Option FillArg :=
  if s = "N" then some .none
  else match s.splitOn "=" with
    | ["B", v] => (parseBool? v).map FillArg.bool
    | ["I", v] => (parseInt? v).map FillArg.int
    | ["F", "x"] => some (.float .nonfinite)
    | ["F", v] => (parseRat? v).map fun x => FillArg.float (.fin x)
    | _ => none

def fmtFillV : FillV → String
  | .nan => "nan" | .zero => "0" | .given => "given"

/-- integer argument: `p:<v>` (Python int) or `u8:<v>` / `i16:<v>` (numpy scalar) -/
def parseIntArg? (s : String) : Option IntArg :=
  match s.splitOn ":" with
  | ["p", v] => (parseInt? v).map IntArg.py
  | [t, v] => do
    let d ← parseDT? t
    let v ← parseInt? v
    match d.kind with
    | .u => pure (.np ⟨false, d.bits⟩ v)
    | .i => pure (.np ⟨true, d.bits⟩ v)
    | _ => none
  | _ => none

def fmtResN {α} (f : α → String) : ResN α → String
  | .ok a => f a
  | .error e => e.toStr

def runNp (args : List String) : Option String :=
  match args with
  | ["np", "shape", t, i] => do
    let t ← parseTiling? t; let i ← parseIntArg? i
    pure (fmtResN fmtInt (tileShapeI t i))
  | ["np", "locate", t, i] => do
    let t ← parseTiling? t; let i ← parseIntArg? i
    pure (fmtResN fmtInt (locateI t i))
  | ["np", "get", t, i] => do
    let t ← parseTiling? t; let i ← parseIntArg? i
    pure (fmtResN fmtNS (getItemI t i))
  | ["np", "roi", shape, axis, roi] => do
    -- members: `s:a:b` slices, `p:v` Python ints, `u8:v` numpy scalars
    let shape ← parseInts? shape; let axis ← parseNat? axis
    let roi ← parseList? (fun tok => match tok.splitOn ":" with
      | ["s", _, _] => (parsePIdx? tok).bind fun p => match p with
          | .slc a b => some (WinEl.slc a b) | _ => none
      | _ => (parseIntArg? tok).map WinEl.int) roi
    pure (fmtResN (fun _ => "ok") (normRoiNp shape axis roi))
  | ["np", "gbt", what, ty, tx, iy, ix] => do
    let ty ← parseTiling? ty; let tx ← parseTiling? tx
    let iy ← parseIntArg? iy; let ix ← parseIntArg? ix
    match what with
    | "region" => pure (fmtResN (fun (a, b) => s!"{fmtNS a} {fmtNS b}") (gbtRegionI ⟨ty, tx⟩ iy ix))
    | "cshape" => pure (fmtResN (fun (a, b) => s!"{a} {b}") (gbtChunkShapeI ⟨ty, tx⟩ iy ix))
    | _ => none
  | ["np", "shapefound", ch, i] => do
    let ch ← parseInts? ch; let i ← parseIntArg? i
    pure (fmtResN fmtInt (vtileShapeAsFound ch i))
  | _ => none

def parseCasting? (s : String) : Option Casting :=
  match s with
  | "no" => some .no | "equiv" => some .equiv | "safe" => some .safe | "same_kind" => some .sameKind
  | "anycast" => some .anyCast | _ => none

def runDtype (args : List String) : Option String :=
  match args with
  | ["dt", "rt", l] => do
    let l ← parseList? parseDT? l
    pure (fmtDT (resultTypeL l))
  | ["dt", "cast", a, b] => do
    let a ← parseDT? a; let b ← parseDT? b
    pure (fmtBool (safeCast a b))
  | ["dt", "min", v] => do
    let v ← parseFill? v
    pure (fmtOpt fmtDT (fillMinType v))
  | ["dt", "init", l] => do
    let l ← parseList? parseDT? l
    pure (fmtDT (assemblerDtype l))
  | ["dt", "castv", d, v] => do
    let d ← parseDT? d; let v ← parseInt? v
    pure (fmtOpt fmtInt (castInt d v))
  | ["dt", "asmcast", chy, chx, keys, ry, rx, m, d] => do
    -- extract(dtype=d, casting=...) of integer blocks: every cell is the cast of the mosaic cell (fill 0)
    let chy ← parseInts? chy; let chx ← parseInts? chx
    let keys ← parseList? parsePair? keys
    let ry ← parsePIdx? ry; let rx ← parsePIdx? rx
    let m ← parseInt? m; let d ← parseDT? d
    let a : Assembler (Option Int) :=
      { chy, chx, present := keys, lead := [], trail := [],
        blk := fun key l y x t => castInt d (cellVal m key l y x t - m / 2) }
    pure (fmtRes (fun ((_, sy, sx, _), xx) =>
        let cells := (irange sy).flatMap fun y => (irange sx).map fun x => xx [] y x []
        s!"{sy} {sx} {fmtList (fmtOpt fmtInt) cells}")
      (extract a (castInt d 0) [] ry rx []))
  | ["dt", "ccast", rule, a, b] => do
    let r ← parseCasting? rule; let a ← parseDT? a; let b ← parseDT? b
    pure (fmtBool (canCast r a b))
  | ["dt", "extractc", l, dtype, fill, rule] => do
    let l ← parseList? parseDT? l; let dtype ← parseOpt? parseDT? dtype; let fill ← parseFill? fill
    let r ← parseCasting? rule
    match fill, fillMinType fill with
    | .int _, none => pure "object"
    | _, _ =>
      match extractFull l dtype fill r with
      | .error .overflow => pure "ERR:OverflowError"
      | .error .typeError => pure "ERR:TypeError"
      | .ok d => pure (fmtDT d)
  | ["dt", "extract", l, dtype, fill] => do
    -- blocks' dtypes, the `dtype=` argument, the fill → allocated dtype and the fill written
    let l ← parseList? parseDT? l; let dtype ← parseOpt? parseDT? dtype; let fill ← parseFill? fill
    let given := match fill with | .none => false | _ => true
    match fill, fillMinType fill with
    | .int _, none => pure "object"     -- a Python int beyond 64 bits: outside the model
    | _, fm =>
      let _ := fm
      match extractAlloc l dtype fill with
      | .error _ => pure "ERR:OverflowError"
      | .ok d => pure s!"{fmtDT d} {fmtFillV (effFill d given)}"
  | _ => runNp args

def runArgs (args : List String) : Option String :=
  match args with
  | ["vshape", chy, chx, axis, blocks] => do
    let chy ← parseInts? chy; let chx ← parseInts? chx; let axis ← parseNat? axis
    let blocks ← parseList? parseBlock? blocks
    pure (fmtRes fmtInts (verifyShape chy chx axis blocks))
  | ["verify", chy, chx, axis, blocks] => do
    let chy ← parseInts? chy; let chx ← parseInts? chx; let axis ← parseNat? axis
    let blocks ← parseList? parseBlock? blocks
    pure (fmtRes (fun a => s!"{fmtInts a.shape} {fmtBool a.defaultDtype}") (assemblerInit chy chx axis blocks))
  | ["mkidx", f, a, b] => do
    let a ← parseInt? a; let b ← parseInt? b
    let i ← if f = "iyx" then some (iyx2 a b) else if f = "ixy" then some (ixy2 a b) else none
    pure s!"{fmtP i.x} {fmtP i.y}"
  | ["idx", f, a] => do
    let a ← parseIdxArg? a
    let r ← if f = "iyx" then some (iyx a) else if f = "ixy" then some (ixy a) else none
    pure (fmtRes (fun i => s!"{fmtP i.x} {fmtP i.y}") r)
  | ["a", "get", ty, tx, a] => do
    let ty ← parseTiling? ty; let tx ← parseTiling? tx; let a ← parseIdxArg? a
    pure (fmtRes (fun (a, b) => s!"{fmtNS a} {fmtNS b}") (getItemArg ⟨ty, tx⟩ a))
  | ["a", "shape", ty, tx, a] => do
    let ty ← parseTiling? ty; let tx ← parseTiling? tx; let a ← parseIdxArg? a
    pure (fmtResA (fun (a, b) => s!"{a} {b}") (tileShapeArg ⟨ty, tx⟩ a))
  | ["a", "locate", ty, tx, a] => do
    let ty ← parseTiling? ty; let tx ← parseTiling? tx; let a ← parseIdxArg? a
    pure (fmtResA (fun (a, b) => s!"{a} {b}") (locateArg ⟨ty, tx⟩ a))
  | ["ga", "get", ny, nx, A, ty, tx, a] => do
    let ny ← parseInt? ny; let nx ← parseInt? nx; let A ← parseAff? A
    let ty ← parseTiling? ty; let tx ← parseTiling? tx; let a ← parseIdxArg? a
    pure (fmtRes fmtGBox (GeoboxTiles.getItemArg ⟨⟨ny, nx, A⟩, ⟨ty, tx⟩⟩ a))
  | ["ga", "pix", ny, nx, A, ty, tx, a] => do
    let ny ← parseInt? ny; let nx ← parseInt? nx; let A ← parseAff? A
    let ty ← parseTiling? ty; let tx ← parseTiling? tx; let a ← parseIdxArg? a
    pure (fmtRes (fun (l, b, r, t) => s!"{l} {b} {r} {t}") (GeoboxTiles.pixBBox ⟨⟨ny, nx, A⟩, ⟨ty, tx⟩⟩ a))
  | ["ga", "cshape", ny, nx, A, ty, tx, a] => do
    let ny ← parseInt? ny; let nx ← parseInt? nx; let A ← parseAff? A
    let ty ← parseTiling? ty; let tx ← parseTiling? tx; let a ← parseIdxArg? a
    pure (fmtResA (fun (a, b) => s!"{a} {b}") (GeoboxTiles.chunkShape ⟨⟨ny, nx, A⟩, ⟨ty, tx⟩⟩ a))
  | ["shape_", s] => do
    let s ← parseShapeArg? s
    pure (fmtRes (fun (ny, nx) => s!"{ny} {nx}") (shapeOf s))
  | ["roitiles", s, how] => do
    let s ← parseShapeArg? s; let how ← parseHowArg? how
    pure (fmtRes (fun t => s!"{fmtTilingTok t.y} {fmtTilingTok t.x} | {fmtTiling2 t}") (roiTiles s how))
  | ["gbtinit", ny, nx, A, how, ty, tx] => do
    let ny ← parseInt? ny; let nx ← parseInt? nx; let A ← parseAff? A
    let how ← parseOpt? parseHowArg? how
    let tiles ← if ty = "N" ∧ tx = "N" then some none
      else do let ty ← parseTiling? ty; let tx ← parseTiling? tx; pure (some (⟨ty, tx⟩ : Tiling2))
    pure (fmtRes (fun g => s!"{fmtGBox g.base} | {fmtTilingTok g.tiles.y} {fmtTilingTok g.tiles.x} | {fmtTiling2 g.tiles}")
      (gbtInitR ⟨ny, nx, A⟩ how tiles))
  | ["planesw", lead, trail, yx] => do
    let lead ← parseList? parseNat? lead; let trail ← parseList? parseNat? trail
    let yx ← parseOpt? (parseList? parsePIdx?) yx
    pure (fmtRes (fmtList fun p => "(" ++ ";".intercalate (p.map fmtPlaneEl) ++ ")") (planesYXWith lead trail yx))
  | ["win", a] => do
    let a ← if a = "N" then some WinArg.none else if a = "O" then some WinArg.other
      else (parseList? parsePIdx? a).map WinArg.seq
    pure (fmtResA (fmtOpt fun (r, c) => s!"{fmtWinAxis r} {fmtWinAxis c}") (windowFromSlice a))
  | ["roishape", roi] => do
    let roi ← parseRoi? roi
    pure (fmtResA fmtInts (roiShape roi))
  | _ => runDtype args

def run (args : List String) : Option String :=
  match args with
  | ["normroi", shape, axis, roi] => do
    let shape ← parseInts? shape; let axis ← parseNat? axis; let roi ← parseRoi? roi
    pure (fmtRes (fun (ws, sq) => s!"{fmtList fmtNS ws} {fmtList fmtNat sq}") (normRoi shape axis roi))
  | ["asmnd", chy, chx, keys, lead, trail, roi, m] => do
    let chy ← parseInts? chy; let chx ← parseInts? chx
    let keys ← parseList? parsePair? keys
    let lead ← parseInts? lead; let trail ← parseInts? trail
    let roi ← parseRoi? roi
    let m ← parseInt? m
    let a : Assembler (Option Int) :=
      { chy, chx, present := keys, lead, trail,
        blk := fun key l y x t => some (cellVal m key l y x t) }
    pure (fmtRes (fun (out, (sl, sy, sx, st), xx) =>
        let cells := (idxVectors sl).flatMap fun l => (irange sy).flatMap fun y =>
          (irange sx).flatMap fun x => (idxVectors st).map fun t => xx l y x t
        s!"{fmtInts out} {fmtList (fmtOpt fmtInt) cells}")
      (extractND a none roi))
  -- regular tiles, one axis
  | ["t", "count", N, n] => do
    let N ← parseInt? N; let n ← parseInt? n
    pure (fmtRes fmtInt (mkCount N n))
  | ["t", "get", N, n, i] => do
    let N ← parseInt? N; let n ← parseInt? n; let i ← parsePIdx? i
    pure (fmtRes fmtNS (getItem N n i))
  | ["t", "shape", N, n, i] => do
    let N ← parseInt? N; let n ← parseInt? n; let i ← parseInt? i
    pure (fmtRes fmtInt (tileShape N n i))
  | ["t", "chunks", N, n] => do
    let N ← parseInt? N; let n ← parseInt? n
    pure (fmtRes fmtInts (chunks N n))
  | ["t", "locate", N, n, y] => do
    let N ← parseInt? N; let n ← parseInt? n; let y ← parseInt? y
    pure (fmtRes fmtInt (locate N n y))
  | ["t", "crop", N, n, i] => do
    let N ← parseInt? N; let n ← parseInt? n; let i ← parsePIdx? i
    pure (fmtRes (fun N' => s!"{N'} {count N' n}") (crop N n i))
  | ["t", "clip", N, n, sel] => do
    let N ← parseInt? N; let n ← parseInt? n; let sel ← parseInts? sel
    pure (fmtRes (fun (N', r, new) => s!"{N'} {count N' n} {fmtNS r} {fmtInts new}")
      (clipTiles N n sel))
  -- variable tiles, one axis
  | ["v", "info", ch] => do
    let ch ← parseInts? ch
    pure s!"{vcount ch} {vbase ch} {fmtInts (vchunks ch)} {fmtInts (offsets ch)}"
  | ["v", "get", ch, i] => do
    let ch ← parseInts? ch; let i ← parsePIdx? i
    pure (fmtRes fmtNS (vgetItem ch i))
  | ["v", "shape", ch, i] => do
    let ch ← parseInts? ch; let i ← parseInt? i
    pure (fmtRes fmtInt (vtileShape ch i))
  | ["v", "locate", ch, y] => do
    let ch ← parseInts? ch; let y ← parseInt? y
    pure (fmtRes fmtInt (vlocate ch y))
  | ["v", "crop", ch, i] => do
    let ch ← parseInts? ch; let i ← parsePIdx? i
    pure (fmtInts (vcrop ch i))
  | ["v", "clip", ch, sel] => do
    let ch ← parseInts? ch; let sel ← parseInts? sel
    pure (fmtRes (fun (c, r, new) => s!"{fmtInts c} {fmtNS r} {fmtInts new}") (vclipTiles ch sel))
  -- 2-D lift
  | ["t2", "get", ty, tx, iy, ix] => do
    let ty ← parseTiling? ty; let tx ← parseTiling? tx
    let iy ← parsePIdx? iy; let ix ← parsePIdx? ix
    pure (fmtRes (fun (a, b) => s!"{fmtNS a} {fmtNS b}") (getItem2 ⟨ty, tx⟩ iy ix))
  | ["t2", "shape", ty, tx, iy, ix] => do
    let ty ← parseTiling? ty; let tx ← parseTiling? tx
    let iy ← parseInt? iy; let ix ← parseInt? ix
    pure (fmtRes (fun (a, b) => s!"{a} {b}") (tileShape2 ⟨ty, tx⟩ iy ix))
  | ["t2", "chunks", ty, tx] => do
    let ty ← parseTiling? ty; let tx ← parseTiling? tx
    pure (fmtRes (fun (a, b) => s!"{fmtInts a} {fmtInts b}") (chunks2 ⟨ty, tx⟩))
  | ["t2", "locate", ty, tx, py, px] => do
    let ty ← parseTiling? ty; let tx ← parseTiling? tx
    let py ← parseInt? py; let px ← parseInt? px
    pure (fmtRes (fun (a, b) => s!"{a} {b}") (locate2 ⟨ty, tx⟩ py px))
  | ["t2", "crop", ty, tx, iy, ix] => do
    let ty ← parseTiling? ty; let tx ← parseTiling? tx
    let iy ← parsePIdx? iy; let ix ← parsePIdx? ix
    pure (fmtRes fmtTiling2 (crop2 ⟨ty, tx⟩ iy ix))
  -- GeoboxTiles
  | ["g", "get", ny, nx, A, ty, tx, iy, ix] => do
    let ny ← parseInt? ny; let nx ← parseInt? nx; let A ← parseAff? A
    let ty ← parseTiling? ty; let tx ← parseTiling? tx
    let iy ← parsePIdx? iy; let ix ← parsePIdx? ix
    pure (fmtRes fmtGBox (GeoboxTiles.getItem ⟨⟨ny, nx, A⟩, ⟨ty, tx⟩⟩ iy ix))
  | ["g", "crop", ny, nx, A, ty, tx, iy, ix] => do
    let ny ← parseInt? ny; let nx ← parseInt? nx; let A ← parseAff? A
    let ty ← parseTiling? ty; let tx ← parseTiling? tx
    let iy ← parsePIdx? iy; let ix ← parsePIdx? ix
    pure (fmtRes (fun g => s!"{fmtGBox g.base} | {fmtTiling2 g.tiles}")
      (GeoboxTiles.crop ⟨⟨ny, nx, A⟩, ⟨ty, tx⟩⟩ iy ix))
  | ["g", "clip", ny, nx, A, ty, tx, sel] => do
    let ny ← parseInt? ny; let nx ← parseInt? nx; let A ← parseAff? A
    let ty ← parseTiling? ty; let tx ← parseTiling? tx
    let sel ← parseList? parsePair? sel
    pure (fmtRes (fun (g, new) =>
        s!"{fmtGBox g.base} | {fmtTiling2 g.tiles} | {fmtList fmtPair new}")
      (GeoboxTiles.clip ⟨⟨ny, nx, A⟩, ⟨ty, tx⟩⟩ sel))
  -- reference semantics of numpy / tuple operations
  | ["ss", xs, key] => do
    let xs ← parseInts? xs; let key ← parseInt? key
    pure s!"{searchsortedRight xs key} {linearScanRight xs key}"
  | ["npget", xs, i] => do
    let xs ← parseInts? xs; let i ← parseInt? i
    pure (fmtRes fmtInt (npGet xs i))
  | ["pyslice", xs, a, b] => do
    let xs ← parseInts? xs; let a ← parseInt? a; let b ← parseInt? b
    pure (fmtInts (pySlice xs a b))
  | ["npassign", nd, ns, d, s] => do
    let nd ← parseInt? nd; let ns ← parseInt? ns
    let d ← parsePIdx? d; let s ← parsePIdx? s
    match d, s with
    | .slc (some d0) (some d1), .slc (some s0) (some s1) =>
      pure (fmtRes (fun f => fmtList (fmtOpt fmtInt) ((irange nd).map f))
        (assignMap nd ns ⟨d0, d1⟩ ⟨s0, s1⟩))
    | _, _ => none
  -- BlockAssembler
  | ["asm", chy, chx, keys, lead, trail, rl, ry, rx, rt, m] => do
    let chy ← parseInts? chy; let chx ← parseInts? chx
    let keys ← parseList? parsePair? keys
    let lead ← parseInts? lead; let trail ← parseInts? trail
    let rl ← parseList? parsePIdx? rl; let rt ← parseList? parsePIdx? rt
    let ry ← parsePIdx? ry; let rx ← parsePIdx? rx
    let m ← parseInt? m
    let a : Assembler (Option Int) :=
      { chy, chx, present := keys, lead, trail,
        blk := fun key l y x t => some (cellVal m key l y x t) }
    pure (fmtRes (fun ((sl, sy, sx, st), xx) =>
        let cells := (idxVectors sl).flatMap fun l => (irange sy).flatMap fun y =>
          (irange sx).flatMap fun x => (idxVectors st).map fun t => xx l y x t
        s!"{fmtInts sl} {sy} {sx} {fmtInts st} {fmtList (fmtOpt fmtInt) cells}")
      (extract a none rl ry rx rt))
  | ["planes", lead, trail] => do
    let lead ← parseList? parseNat? lead; let trail ← parseList? parseNat? trail
    pure (fmtList (fun p => "(" ++ ";".intercalate (p.map (fmtOpt toString)) ++ ")")
      (planesYX lead trail))
  | _ => runArgs args

end OdcGeo.C04.Drv
