import OdcGeo.Model.C04
namespace OdcGeo.C04.Drv
open OdcGeo OdcGeo.IO

def run (args : List String) : Option String :=
  match args with
  | _ => none

end OdcGeo.C04.Drv
