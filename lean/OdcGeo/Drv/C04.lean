import OdcGeo.Model.C04
import OdcGeo.Model.C04Roi
import OdcGeo.Drv.C17
namespace OdcGeo.C04.Drv
open OdcGeo OdcGeo.IO OdcGeo.C17 OdcGeo.C04 OdcGeo.NpArray
open OdcGeo.C17.Drv (parsePIdx? fmtNS)

def parseInts? (s : String) : Option (List Int) := parseList? parseInt? s

/-- `r:N:n` or `v:[c1,c2,…]` -/
def parseTiling? (s : String) : Option Tiling :=
  match s.splitOn ":" with
  | ["r", a, b] => do let N ← parseInt? a; let n ← parseInt? b; pure (.reg N n)
  | ["v", l] => (parseInts? l).map Tiling.var
  | _ => none

/-- `y;x` -/
def parsePair? (s : String) : Option (Int × Int) :=
  match s.splitOn ";" with
  | [a, b] => do let a ← parseInt? a; let b ← parseInt? b; pure (a, b)
  | _ => none

def fmtInts (xs : List Int) : String := fmtList fmtInt xs
def fmtPair (p : Int × Int) : String := s!"{p.1};{p.2}"

def fmtTiling2 (t : Tiling2) : String :=
  s!"{t.y.base} {t.y.count} {t.x.base} {t.x.count} " ++
    fmtRes (fun (a, b) => s!"{fmtInts a} {fmtInts b}") (chunks2 t)

def fmtGBox (g : GBox) : String := s!"{g.ny} {g.nx} {fmtAff g.A}"

/-- cell value of the synthetic block stored under `key` at block-local index `(l, y, x, t)` -/
def cellVal (m : Int) (key : Int × Int) (l : List Int) (y x : Int) (t : List Int) : Int :=
  let w (base : Int) (v : List Int) : Int :=
    (v.zipIdx.map fun (a, i) => a * ((i : Int) + 1) * base).foldl (· + ·) 0
  1 + (key.1 * 7 + key.2 * 13 + y * 3 + x * 5 + w 17 l + w 11 t) % m

def irange (n : Int) : List Int := (List.range n.toNat).map fun (k : Nat) => (k : Int)

def idxVectors (shape : List Int) : List (List Int) :=
  (ndindex (shape.map Int.toNat)).map fun v => v.map fun (k : Nat) => (k : Int)

/-- `N` (None), `1=<pidx>` (bare index) or `t=[pidx,…]` (tuple; `t=[]` is the empty tuple) -/
def parseRoi? (s : String) : Option Roi :=
  if s = "N" then some .none
  else match s.splitOn "=" with
    | ["1", p] => (parsePIdx? p).map Roi.single
    | ["t", l] => (parseList? parsePIdx? l).map Roi.tuple
    | _ => none

def fmtNat (n : Nat) : String := toString n

def run (args : List String) : Option String :=
  match args with
  | ["normroi", shape, axis, roi] => do
    let shape ← parseInts? shape; let axis ← parseNat? axis; let roi ← parseRoi? roi
    pure (fmtRes (fun (ws, sq) => s!"{fmtList fmtNS ws} {fmtList fmtNat sq}") (normRoi shape axis roi))
  | ["asmnd", chy, chx, keys, lead, trail, roi, m] => do
    let chy ← parseInts? chy; let chx ← parseInts? chx
    let keys ← parseList? parsePair? keys
    let lead ← parseInts? lead; let trail ← parseInts? trail
    let roi ← parseRoi? roi
    let m ← parseInt? m
    let a : Assembler (Option Int) :=
      { chy, chx, present := keys, lead, trail,
        blk := fun key l y x t => some (cellVal m key l y x t) }
    pure (fmtRes (fun (out, (sl, sy, sx, st), xx) =>
        let cells := (idxVectors sl).flatMap fun l => (irange sy).flatMap fun y =>
          (irange sx).flatMap fun x => (idxVectors st).map fun t => xx l y x t
        s!"{fmtInts out} {fmtList (fmtOpt fmtInt) cells}")
      (extractND a none roi))
  -- regular tiles, one axis
  | ["t", "count", N, n] => do
    let N ← parseInt? N; let n ← parseInt? n
    pure (fmtRes fmtInt (mkCount N n))
  | ["t", "get", N, n, i] => do
    let N ← parseInt? N; let n ← parseInt? n; let i ← parsePIdx? i
    pure (fmtRes fmtNS (getItem N n i))
  | ["t", "shape", N, n, i] => do
    let N ← parseInt? N; let n ← parseInt? n; let i ← parseInt? i
    pure (fmtRes fmtInt (tileShape N n i))
  | ["t", "chunks", N, n] => do
    let N ← parseInt? N; let n ← parseInt? n
    pure (fmtRes fmtInts (chunks N n))
  | ["t", "locate", N, n, y] => do
    let N ← parseInt? N; let n ← parseInt? n; let y ← parseInt? y
    pure (fmtRes fmtInt (locate N n y))
  | ["t", "crop", N, n, i] => do
    let N ← parseInt? N; let n ← parseInt? n; let i ← parsePIdx? i
    pure (fmtRes (fun N' => s!"{N'} {count N' n}") (crop N n i))
  | ["t", "clip", N, n, sel] => do
    let N ← parseInt? N; let n ← parseInt? n; let sel ← parseInts? sel
    pure (fmtRes (fun (N', r, new) => s!"{N'} {count N' n} {fmtNS r} {fmtInts new}")
      (clipTiles N n sel))
  -- variable tiles, one axis
  | ["v", "info", ch] => do
    let ch ← parseInts? ch
    pure s!"{vcount ch} {vbase ch} {fmtInts (vchunks ch)} {fmtInts (offsets ch)}"
  | ["v", "get", ch, i] => do
    let ch ← parseInts? ch; let i ← parsePIdx? i
    pure (fmtRes fmtNS (vgetItem ch i))
  | ["v", "shape", ch, i] => do
    let ch ← parseInts? ch; let i ← parseInt? i
    pure (fmtRes fmtInt (vtileShape ch i))
  | ["v", "locate", ch, y] => do
    let ch ← parseInts? ch; let y ← parseInt? y
    pure (fmtRes fmtInt (vlocate ch y))
  | ["v", "crop", ch, i] => do
    let ch ← parseInts? ch; let i ← parsePIdx? i
    pure (fmtInts (vcrop ch i))
  | ["v", "clip", ch, sel] => do
    let ch ← parseInts? ch; let sel ← parseInts? sel
    pure (fmtRes (fun (c, r, new) => s!"{fmtInts c} {fmtNS r} {fmtInts new}") (vclipTiles ch sel))
  -- 2-D lift
  | ["t2", "get", ty, tx, iy, ix] => do
    let ty ← parseTiling? ty; let tx ← parseTiling? tx
    let iy ← parsePIdx? iy; let ix ← parsePIdx? ix
    pure (fmtRes (fun (a, b) => s!"{fmtNS a} {fmtNS b}") (getItem2 ⟨ty, tx⟩ iy ix))
  | ["t2", "shape", ty, tx, iy, ix] => do
    let ty ← parseTiling? ty; let tx ← parseTiling? tx
    let iy ← parseInt? iy; let ix ← parseInt? ix
    pure (fmtRes (fun (a, b) => s!"{a} {b}") (tileShape2 ⟨ty, tx⟩ iy ix))
  | ["t2", "chunks", ty, tx] => do
    let ty ← parseTiling? ty; let tx ← parseTiling? tx
    pure (fmtRes (fun (a, b) => s!"{fmtInts a} {fmtInts b}") (chunks2 ⟨ty, tx⟩))
  | ["t2", "locate", ty, tx, py, px] => do
    let ty ← parseTiling? ty; let tx ← parseTiling? tx
    let py ← parseInt? py; let px ← parseInt? px
    pure (fmtRes (fun (a, b) => s!"{a} {b}") (locate2 ⟨ty, tx⟩ py px))
  | ["t2", "crop", ty, tx, iy, ix] => do
    let ty ← parseTiling? ty; let tx ← parseTiling? tx
    let iy ← parsePIdx? iy; let ix ← parsePIdx? ix
    pure (fmtRes fmtTiling2 (crop2 ⟨ty, tx⟩ iy ix))
  -- GeoboxTiles
  | ["g", "get", ny, nx, A, ty, tx, iy, ix] => do
    let ny ← parseInt? ny; let nx ← parseInt? nx; let A ← parseAff? A
    let ty ← parseTiling? ty; let tx ← parseTiling? tx
    let iy ← parsePIdx? iy; let ix ← parsePIdx? ix
    pure (fmtRes fmtGBox (GeoboxTiles.getItem ⟨⟨ny, nx, A⟩, ⟨ty, tx⟩⟩ iy ix))
  | ["g", "crop", ny, nx, A, ty, tx, iy, ix] => do
    let ny ← parseInt? ny; let nx ← parseInt? nx; let A ← parseAff? A
    let ty ← parseTiling? ty; let tx ← parseTiling? tx
    let iy ← parsePIdx? iy; let ix ← parsePIdx? ix
    pure (fmtRes (fun g => s!"{fmtGBox g.base} | {fmtTiling2 g.tiles}")
      (GeoboxTiles.crop ⟨⟨ny, nx, A⟩, ⟨ty, tx⟩⟩ iy ix))
  | ["g", "clip", ny, nx, A, ty, tx, sel] => do
    let ny ← parseInt? ny; let nx ← parseInt? nx; let A ← parseAff? A
    let ty ← parseTiling? ty; let tx ← parseTiling? tx
    let sel ← parseList? parsePair? sel
    pure (fmtRes (fun (g, new) =>
        s!"{fmtGBox g.base} | {fmtTiling2 g.tiles} | {fmtList fmtPair new}")
      (GeoboxTiles.clip ⟨⟨ny, nx, A⟩, ⟨ty, tx⟩⟩ sel))
  -- reference semantics of numpy / tuple operations
  | ["ss", xs, key] => do
    let xs ← parseInts? xs; let key ← parseInt? key
    pure s!"{searchsortedRight xs key} {linearScanRight xs key}"
  | ["npget", xs, i] => do
    let xs ← parseInts? xs; let i ← parseInt? i
    pure (fmtRes fmtInt (npGet xs i))
  | ["pyslice", xs, a, b] => do
    let xs ← parseInts? xs; let a ← parseInt? a; let b ← parseInt? b
    pure (fmtInts (pySlice xs a b))
  | ["npassign", nd, ns, d, s] => do
    let nd ← parseInt? nd; let ns ← parseInt? ns
    let d ← parsePIdx? d; let s ← parsePIdx? s
    match d, s with
    | .slc (some d0) (some d1), .slc (some s0) (some s1) =>
      pure (fmtRes (fun f => fmtList (fmtOpt fmtInt) ((irange nd).map f))
        (assignMap nd ns ⟨d0, d1⟩ ⟨s0, s1⟩))
    | _, _ => none
  -- BlockAssembler
  | ["asm", chy, chx, keys, lead, trail, rl, ry, rx, rt, m] => do
    let chy ← parseInts? chy; let chx ← parseInts? chx
    let keys ← parseList? parsePair? keys
    let lead ← parseInts? lead; let trail ← parseInts? trail
    let rl ← parseList? parsePIdx? rl; let rt ← parseList? parsePIdx? rt
    let ry ← parsePIdx? ry; let rx ← parsePIdx? rx
    let m ← parseInt? m
    let a : Assembler (Option Int) :=
      { chy, chx, present := keys, lead, trail,
        blk := fun key l y x t => some (cellVal m key l y x t) }
    pure (fmtRes (fun ((sl, sy, sx, st), xx) =>
        let cells := (idxVectors sl).flatMap fun l => (irange sy).flatMap fun y =>
          (irange sx).flatMap fun x => (idxVectors st).map fun t => xx l y x t
        s!"{fmtInts sl} {sy} {sx} {fmtInts st} {fmtList (fmtOpt fmtInt) cells}")
      (extract a none rl ry rx rt))
  | ["planes", lead, trail] => do
    let lead ← parseList? parseNat? lead; let trail ← parseList? parseNat? trail
    pure (fmtList (fun p => "(" ++ ";".intercalate (p.map (fmtOpt toString)) ++ ")")
      (planesYX lead trail))
  | _ => none

end OdcGeo.C04.Drv
