import OdcGeo.Model.C15
namespace OdcGeo.C15.Drv
open OdcGeo OdcGeo.IO

def run (args : List String) : Option String :=
  match args with
  | _ => none

end OdcGeo.C15.Drv
