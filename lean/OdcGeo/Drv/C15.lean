import OdcGeo.Model.C15
import OdcGeo.Drv.C15Glue
namespace OdcGeo.C15.Drv
open OdcGeo OdcGeo.IO OdcGeo.C15

def fmtLErr : LErr → String
  | .valueError => "ERR:ValueError"
  | .assertion => "ERR:AssertionError"

def fmtNat (n : Nat) : String := toString n

def parseKV? (s : String) : Option (String × String) :=
  match s.splitOn "=" with
  | [k, v] => some (k, v)
  | _ => none

/-- `T` / `F` / `s:<name>` / `d:[k=v,…]` -/
def parseComp? (s : String) : Option CompArg :=
  if s = "T" then some (.flag true)
  else if s = "F" then some (.flag false)
  else if s.startsWith "s:" then some (.name (s.drop 2).toString)
  else if s.startsWith "d:" then (parseList? parseKV? (s.drop 2).toString).map CompArg.opts
  else none

/-- `N` | `nan` | `i:<int>` | `f:<rat>` | `np:<dtype>:<rat>` | `a0:<dtype>:<rat>` | `npnan:<dtype>` -/
def parseNum? (s : String) : Option (Option Num) :=
  if s = "N" then some none
  else if s = "nan" then some (some (.nan "float"))
  else match s.splitOn ":" with
    | ["i", v] => (parseInt? v).map fun v => some (.pyInt v)
    | ["f", v] => (parseRat? v).map fun v => some (.pyFloat v)
    | ["np", d, v] => (parseRat? v).map fun v => some (.npScalar d v)
    | ["a0", d, v] => (parseRat? v).map fun v => some (.arr0d d v)
    | ["npnan", d] => some (some (.nan d))
    | _ => none

def parseEntry? (s : String) : Option Entry :=
  if s = "write_cog" then some .writeCog else if s = "to_cog" then some .toCog
  else if s = "write_cog_layers" then some .writeCogLayers else if s = "write_cog_ovrs" then some .writeCogOverviews else none

def fmtGeoTags : OdcGeo.Cog.GeoTags → String
  | .scaleTie sc tie => "33550=" ++ fmtList fmtRat sc ++ " 33922=" ++ fmtList fmtRat tie
  | .matrix m => "34264=" ++ fmtList fmtRat m

def run (args : List String) : Option String :=
  match args with
  | ["layout", sh, gy, gx] => do
    let sh ← parseList? parseNat? sh; let gy ← parseNat? gy; let gx ← parseNat? gx
    match normLayout sh ⟨gy, gx⟩ with
    | .error e => pure (fmtLErr e)
    | .ok l => pure s!"{l.nbands} {l.h} {l.w} {fmtBool l.transposed} {fmtBool (ambiguous sh ⟨gy, gx⟩)}"
  | ["src", tr, k, y, x] => do
    let tr ← parseBool? tr; let k ← parseNat? k; let y ← parseNat? y; let x ← parseNat? x
    let (a, b, c) := srcIndex ⟨0, 0, 0, tr⟩ k y x
    pure s!"{a} {b} {c}"
  | ["levels", req, w, h] => do
    let req ← parseOpt? (parseList? parseNat?) req; let w ← parseNat? w; let h ← parseNat? h
    pure (fmtList fmtNat (levelsFor req w h))
  | ["opts", b, w, h, fl] => do
    let b ← parseOpt? parseNat? b; let w ← parseNat? w; let h ← parseNat? h; let fl ← parseBool? fl
    let o := cogOpts b w h fl
    pure s!"{o.blockxsize} {o.blockysize} {o.predictor} {fmtBool o.warns}"
  | ["plan", m, e, o] => do
    let m ← parseBool? m; let e ← parseBool? e; let o ← parseBool? o
    let (acts, err) := writePlan m e o
    let a := fmtList (fun a => match a with | Act.unlink => "unlink" | Act.write => "write") acts
    pure (if err then s!"{a} ERR:OSError" else s!"{a} ok")
  | ["nodata", e, kw, att] => do
    let e ← parseEntry? e; let kw ← parseNum? kw; let att ← parseNum? att
    pure (match resolveNodata e kw att with
      | none => "N"
      | some n => match n.value with | none => "nan" | some v => fmtRat v)
  | ["alevels", req, sh, gy, gx] => do
    let req ← parseOpt? (parseList? parseNat?) req; let sh ← parseList? parseNat? sh
    let gy ← parseNat? gy; let gx ← parseNat? gx
    pure (match levelsForArray req sh ⟨gy, gx⟩ with
      | .error e => fmtLErr e
      | .ok l => fmtList fmtNat l)
  | ["geotags", a] => do
    let a ← parseAff? a
    pure (fmtGeoTags (OdcGeo.Cog.encodeTransform a))
  | ["ncompfresh", c] => do
    let c ← parseComp? c
    pure (fmtBool (normCompressionFresh c))
  | ["ncomp", c] => do
    let c ← parseComp? c
    pure (fmtList (fun (k, v) => s!"{k}={v}") (normCompressionOpts c))
  | ["ovr", w, h, l] => do
    let w ← parseNat? w; let h ← parseNat? h; let l ← parseNat? l
    if l = 0 then none else
    let (a, b) := ovrSize w h l
    pure s!"{a} {b}"
  | args => OdcGeo.C15.GlueDrv.run args

end OdcGeo.C15.Drv
