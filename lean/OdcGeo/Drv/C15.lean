import OdcGeo.Model.C15
namespace OdcGeo.C15.Drv
open OdcGeo OdcGeo.IO OdcGeo.C15

def fmtLErr : LErr → String
  | .valueError => "ERR:ValueError"
  | .assertion => "ERR:AssertionError"

def fmtNat (n : Nat) : String := toString n

def parseKV? (s : String) : Option (String × String) :=
  match s.splitOn "=" with
  | [k, v] => some (k, v)
  | _ => none

/-- `T` / `F` / `s:<name>` / `d:[k=v,…]` -/
def parseComp? (s : String) : Option CompArg :=
  if s = "T" then some (.flag true)
  else if s = "F" then some (.flag false)
  else if s.startsWith "s:" then some (.name (s.drop 2).toString)
  else if s.startsWith "d:" then (parseList? parseKV? (s.drop 2).toString).map CompArg.opts
  else none

def run (args : List String) : Option String :=
  match args with
  | ["layout", sh, gy, gx] => do
    let sh ← parseList? parseNat? sh; let gy ← parseNat? gy; let gx ← parseNat? gx
    match normLayout sh ⟨gy, gx⟩ with
    | .error e => pure (fmtLErr e)
    | .ok l => pure s!"{l.nbands} {l.h} {l.w} {fmtBool l.transposed} {fmtBool (ambiguous sh ⟨gy, gx⟩)}"
  | ["src", tr, k, y, x] => do
    let tr ← parseBool? tr; let k ← parseNat? k; let y ← parseNat? y; let x ← parseNat? x
    let (a, b, c) := srcIndex ⟨0, 0, 0, tr⟩ k y x
    pure s!"{a} {b} {c}"
  | ["levels", req, w, h] => do
    let req ← parseOpt? (parseList? parseNat?) req; let w ← parseNat? w; let h ← parseNat? h
    pure (fmtList fmtNat (levelsFor req w h))
  | ["opts", b, w, h, fl] => do
    let b ← parseOpt? parseNat? b; let w ← parseNat? w; let h ← parseNat? h; let fl ← parseBool? fl
    let o := cogOpts b w h fl
    pure s!"{o.blockxsize} {o.blockysize} {o.predictor} {fmtBool o.warns}"
  | ["plan", m, e, o] => do
    let m ← parseBool? m; let e ← parseBool? e; let o ← parseBool? o
    let (acts, err) := writePlan m e o
    let a := fmtList (fun a => match a with | Act.unlink => "unlink" | Act.write => "write") acts
    pure (if err then s!"{a} ERR:OSError" else s!"{a} ok")
  | ["ncomp", c] => do
    let c ← parseComp? c
    pure (fmtList (fun (k, v) => s!"{k}={v}") (normCompressionOpts c))
  | ["ovr", w, h, l] => do
    let w ← parseNat? w; let h ← parseNat? h; let l ← parseNat? l
    if l = 0 then none else
    let (a, b) := ovrSize w h l
    pure s!"{a} {b}"
  | _ => none

end OdcGeo.C15.Drv
