import OdcGeo.Model.C03
namespace OdcGeo.C03.Drv
open OdcGeo OdcGeo.IO OdcGeo.C17 OdcGeo.C03

def fmtNS (s : NSlice) : String := s!"{s.start}:{s.stop}"
def fmtROI (r : ROI) : String := s!"{fmtNS r.1} {fmtNS r.2}"

/-- exact square root of a non-negative rational, when it is rational -/
def ratSqrt? (q : Rat) : Option Rat :=
  if q < 0 then none
  else
    let n := q.num.toNat
    let d := q.den
    let rn := Nat.sqrt n
    let rd := Nat.sqrt d
    if rn * rn = n ∧ rd * rd = d then some (mkRat rn rd) else none

def rootOf (A : Aff) : Option Rat := ratSqrt? (A.a * A.a + A.d * A.d)

/-- `reprojectNonlinear` builds its regions from `roiBoundary · 5` -/
def srcSamplesCount (dst : Shape) : Nat := (roiBoundary (⟨0, dst.1⟩, ⟨0, dst.2⟩) 5).length

def fmtPlan (p : Plan) : String :=
  s!"{fmtROI p.roiSrc} {fmtROI p.roiDst} {fmtBool p.pasteOk} {p.readShrink} {fmtRat p.scale} {fmtRat p.scale2.1} {fmtRat p.scale2.2}"

partial def run (args : List String) : Option String :=
  match args with
  | ["axis", ns, nd, s, t] => do
    let ns ← parseInt? ns; let nd ← parseInt? nd; let s ← parseRat? s; let t ← parseRat? t
    pure (fmtRes (fun (a, b) => s!"{fmtNS a} {fmtNS b}") (axisOverlap ns nd s t))
  | ["box", sny, snx, dny, dnx, st] => do
    let sny ← parseInt? sny; let snx ← parseInt? snx; let dny ← parseInt? dny; let dnx ← parseInt? dnx
    let st ← parseAff? st
    pure (fmtRes (fun (a, b) => s!"{fmtROI a} {fmtROI b}") (boxOverlap (sny, snx) (dny, dnx) st))
  | ["pick", sc, tol] => do
    let sc ← parseRat? sc; let tol ← parseRat? tol
    pure (fmtRes fmtInt (pickReadScale sc tol))
  | ["scale2", a] => do
    let a ← parseAff? a
    match rootOf a with
    | none => pure "irr"
    | some n => if n = 0 then pure "zero" else
      let s := scale2 a n
      pure s!"{fmtRat s.1} {fmtRat s.2}"
  | ["bnd", y0, y1, x0, x1, pps] => do
    let y0 ← parseInt? y0; let y1 ← parseInt? y1; let x0 ← parseInt? x0; let x1 ← parseInt? x1
    let pps ← parseNat? pps
    pure (fmtList (fun (p : Rat × Rat) => s!"{fmtRat p.1};{fmtRat p.2}") (roiBoundary (⟨y0, y1⟩, ⟨x0, x1⟩) pps))
  | ["plan", sny, snx, dny, dnx, sA, dA, ttol, stol, pad, al] => do
    let sny ← parseInt? sny; let snx ← parseInt? snx; let dny ← parseInt? dny; let dnx ← parseInt? dnx
    let sA ← parseAff? sA; let dA ← parseAff? dA
    let ttol ← parseRat? ttol; let stol ← parseRat? stol
    let pad ← parseOpt? parseInt? pad; let al ← parseOpt? parseInt? al
    -- the root of a² + d² of the dst→src transform
    match dA.inv? with
    | .error e => pure e.toStr
    | .ok di =>
      match (di * sA).inv? with
      | .error e => pure e.toStr
      | .ok A =>
        match rootOf A with
        | none => pure "irr"
        | some n => pure (fmtRes fmtPlan (reprojectGeoBoxes (sny, snx) (dny, dnx) sA dA n ttol stol pad al))
  | ["relrois", sny, snx, dny, dnx, sA, dA, pad, al, pps] => do
    let sny ← parseInt? sny; let snx ← parseInt? snx; let dny ← parseInt? dny; let dnx ← parseInt? dnx
    let sA ← parseAff? sA; let dA ← parseAff? dA
    let pad ← parseInt? pad; let al ← parseOpt? parseInt? al; let pps ← parseNat? pps
    match dA.inv? with
    | .error e => pure e.toStr
    | .ok di =>
      let fwd := di * sA
      match fwd.inv? with
      | .error e => pure e.toStr
      | .ok A =>
        let r := relativeRois (sny, snx) (dny, dnx) (linTr A) (linTr fwd) pps pad al
        pure s!"{fmtROI r.1} {fmtROI r.2}"
  | ["stencil", x0, y0, r, pts, "far"] => do
    -- as below, linear part only
    match run ["stencil", x0, y0, r, pts] with
    | some out => pure ((out.splitOn " ").headD "" ++ " far")
    | none => none
  | ["stencil", x0, y0, r, pts] => do
    -- affine_from_pts on the 5-point stencil; `pts` are the five images `x;y` in the order of the code
    let x0 ← parseRat? x0; let y0 ← parseRat? y0; let r ← parseRat? r
    let ys ← parseList? (fun (t : String) => match t.splitOn ";" with
      | [a, b] => do let a ← parseRat? a; let b ← parseRat? b; pure (a, b)
      | _ => none) pts
    match ys with
    | [p0, p1, p2, p3, p4] =>
      let tbl : Rat × Rat → Rat × Rat := fun q =>
        if q = (x0, y0) then p0 else if q = (x0 - r, y0) then p1 else if q = (x0, y0 - r) then p2
        else if q = (x0 + r, y0) then p3 else p4
      let f := stencilAffine tbl (x0, y0) r
      -- linear part first (what the scale is computed from), then the offsets
      pure s!"{fmtRat f.a};{fmtRat f.b};{fmtRat f.d};{fmtRat f.e} {fmtRat f.c};{fmtRat f.f}"
    | _ => none
  | ["nlplan", sny, snx, dny, dnx, a, pad, al] => do
    -- the cross-CRS branch driven by an AFFINE map that is presented to the planner as non-linear (`.linear is None`)
    let sny ← parseInt? sny; let snx ← parseInt? snx; let dny ← parseInt? dny; let dnx ← parseInt? dnx
    let a ← parseAff? a
    let pad ← parseOpt? parseInt? pad; let al ← parseOpt? parseInt? al
    match a.inv? with
    | .error e => pure e.toStr
    | .ok fwd =>
      match rootOf a with
      | none => pure "irr"
      | some n =>
        let r := reprojectNonlinear (sny, snx) (dny, dnx) (linTr a) (linTr fwd)
          (fun c => scaleAtPoint a.apply c 1 n) pad al
        pure (fmtRes (fun p => s!"{fmtROI p.roiSrc} {fmtROI p.roiDst} {fmtBool p.pasteOk} {p.readShrink}") r)
  | ["nlsamples", dny, dnx] => do
    -- number of boundary samples the cross-CRS branch (`pts_per_side = 5`) hands to `roi_from_points`
    let dny ← parseInt? dny; let dnx ← parseInt? dnx
    -- first call: boundary of the destination; second call: boundary of the (non-empty) source region
    pure s!"{srcSamplesCount (dny, dnx)} {(roiBoundary (⟨0, 1⟩, ⟨0, 1⟩) 5).length}"
  | _ => none

end OdcGeo.C03.Drv
