import OdcGeo.Model.C03
namespace OdcGeo.C03.Drv
open OdcGeo OdcGeo.IO

def run (args : List String) : Option String :=
  match args with
  | _ => none

end OdcGeo.C03.Drv
