import OdcGeo.Drv.C19
import OdcGeo.Model.C19Glue
import OdcGeo.Model.C19Alias
import OdcGeo.Model.C19Unified
import OdcGeo.Model.C19Units
import OdcGeo.Model.C19Like
/-!
Driver for the glue layer of C19 (`c19 glue <op> …`); everything else goes to `Drv.C19.run`.

Argument tokens (`Arg`):  `N` None · `O` other · `n:<num>` · `x:<Cls>:<x>:<y>` · `t:[..]` tuple ·
`l:[..]` list · `p:N` empty point · `p:[..]` point.
CRS arguments (`CrsArg`): `N` · `U` Unset · `O` other · `v:<var>` · `s:<text>` · `i:<n>` · `p:<pv>` · `d:<name>`.
-/
namespace OdcGeo.C19.Drv
open OdcGeo OdcGeo.IO OdcGeo.C19

def parseArg? (s : String) : Option Arg :=
  if s = "N" then some .none
  else if s = "O" then some .other
  else match s.splitOn ":" with
    | ["n", x] => (parseNum? x).map .num
    | ["x", c, x, y] => (parseXY? [c, x, y]).map .xy
    | ["t", xs] => (parseList? parseNum? xs).map (.seq true)
    | ["l", xs] => (parseList? parseNum? xs).map (.seq false)
    | ["p", "N"] => some (.point none)
    | ["p", xs] => (parseList? parseNum? xs).map (fun l => .point (some l))
    | _ => none

def parseCrsArg? (s : String) : Option CrsArg :=
  if s = "N" then some .none
  else if s = "U" then some .unset
  else if s = "O" then some .other
  else match s.splitOn ":" with
    | ["v", v] => (parseNat? v).map (fun v => .spec (.crs v))
    | "s" :: rest => some (.spec (.str (":".intercalate rest)))
    | ["i", n] => (parseNat? n).map (fun n => .spec (.int n))
    | ["p", n] => (parseNat? n).map (fun n => .spec (.pyproj n))
    | ["d", d] => some (.spec (.dict d))
    | _ => none

def fmtSpec : Spec → String
  | .int n => s!"i:{n}" | .str s => s!"s:{s}" | .pyproj p => s!"p:{p}" | .dict d => s!"d:{d}" | .crs v => s!"v:{v}"

def fmtCrsArg : CrsArg → String
  | .none => "N" | .unset => "U" | .other => "O" | .spec s => fmtSpec s

def fmtMode : UtmMode → String
  | .plain => "plain" | .north => "north" | .south => "south"

def parseMode? : String → Option UtmMode
  | "plain" => some .plain | "north" => some .north | "south" => some .south | _ => none

def fmtPlan : NormPlan → String
  | .same v => s!"same:{v}" | .none => "none" | .build s => "build:" ++ fmtSpec s
  | .utm m => "utm:" ++ fmtMode m | .raise e => "raise:" ++ e.toStr

def fmtNums (xs : List PyNum) : String := fmtList fmtNum xs

def fmtCrsRec : Option CrsObj → String
  | none => "N"
  | some c =>
    let e := match c.epsg with
      | some 0 => "U" | some n => toString n | none => "N"
    s!"{c.obj};{c.info.sys};{e};{c.str}"

def fmtGBoxRec (g : GBox) : String := s!"{fmtCrsRec g.crs} {g.ny} {g.nx} {fmtNums g.aff}"

def fmtTilesRec (t : Tiles) : String := s!"T {t.baseY} {t.baseX} {t.tileY} {t.tileX} {t.ny} {t.nx}"

def fmtAnyTiles : AnyTiles → String
  | .reg t => fmtTilesRec t
  | .var t => s!"V {fmtList fmtInt t.offY} {fmtList fmtInt t.offX}"

def fmtBin (b : Bin1D) : String := s!"{fmtNum b.sz} {fmtNum b.origin} {b.dir}"

def fmtGS (g : GridSpec) : String :=
  s!"{g.crs.str} {g.ty} {g.tx} {fmtNum g.resx} {fmtNum g.resy} {fmtNum g.ox} {fmtNum g.oy} {fmtBin g.ybin} {fmtBin g.xbin}"

/-- outer `none` of a constructor = outside the model's records -/
def fmtOR {α : Type} (f : α → String) : Option (Res α) → String
  | none => "unrepresentable"
  | some r => fmtRes f r

def parseHowArg? : List String → Option (Option HowArg × List String)
  | "N" :: rest => some (none, rest)
  | "flat" :: a :: rest => (parseArg? a).map (fun a => (some (.flat a), rest))
  | "nested" :: k :: rest => do
    let k ← parseNat? k
    if rest.length < k then none
    else
      let parts ← (rest.take k).mapM (parseList? parseInt?)
      pure (some (.nested parts), rest.drop k)
  | _ => none

def parseTilesOpt? : List String → Option (Option AnyTiles × List String)
  | "N" :: rest => some (none, rest)
  | xs => do
    let (t, rest) ← parseAnyTiles? xs
    match t with
    | .ok t => pure (some t, rest)
    | .error _ => none

def parseCrsRes? (s : String) : Option (Res (Option CrsObj)) :=
  match s with
  | "E:RuntimeError" => some (.error .runtimeError)
  | "E:ValueError" => some (.error .valueError)
  | "E:AssertionError" => some (.error .assertion)
  | _ => (parseCrs? s).map .ok

def runGlue (args : List String) : Option String :=
  match args with
  | ["xy2", x, y] => do pure (fmtRes fmtXY (xyOf (.two (← parseNum? x) (← parseNum? y))))
  | ["xy1", a] => do pure (fmtRes fmtXY (xyOf (.one (← parseArg? a))))
  | ["yx2", y, x] => do pure (fmtRes fmtXY (yxOf (.two (← parseNum? y) (← parseNum? x))))
  | ["yx1", a] => do pure (fmtRes fmtXY (yxOf (.one (← parseArg? a))))
  | ["ixy2", x, y] => do pure (fmtRes fmtXY (ixyOf (.two (← parseNum? x) (← parseNum? y))))
  | ["ixy1", a] => do pure (fmtRes fmtXY (ixyOf (.one (← parseArg? a))))
  | ["iyx2", y, x] => do pure (fmtRes fmtXY (iyxOf (.two (← parseNum? y) (← parseNum? x))))
  | ["iyx1", a] => do pure (fmtRes fmtXY (iyxOf (.one (← parseArg? a))))
  | ["wh", w, h] => do pure (fmtXY (whOf (← parseNum? w) (← parseNum? h)))
  | ["resxy", x, y] => do pure (fmtXY (resxyOf (← parseNum? x) (← parseNum? y)))
  | ["resyx", y, x] => do pure (fmtXY (resyxOf (← parseNum? y) (← parseNum? x)))
  | ["res", a] => do pure (fmtRes fmtXY (resOf (← parseArg? a)))
  | ["shape", a] => do pure (fmtRes fmtXY (shapeOf (← parseArg? a)))
  | ["acc", c, x, y] => do
    let v ← parseXY? [c, x, y]
    pure s!"{fmtRes fmtNums v.shapeT} {fmtRes fmtNums v.whT} {fmtNums v.xyT} {fmtNums v.yxT}"
  | ["shp", c, x, y, i, t] => do
    let v ← parseXY? [c, x, y]
    let i ← parseInt? i
    let t ← parseList? parseNum? t
    pure (s!"{Shape2d.len v} {fmtRes fmtNums (Shape2d.iter v)} {fmtRes fmtNum (Shape2d.getItem v i)} " ++
      s!"{fmtRes fmtNums (Shape2d.add v t)} {fmtRes fmtNums (Shape2d.radd v t)} {fmtXY (Shape2d.shrink2 v)}")
  | ["xyeq", c, x, y, a] => do pure (fmtRes fmtBool ((← parseXY? [c, x, y]).eqArg (← parseArg? a)))
  | ["norm", a, ctx] => do
    -- the utm mode is compared through `normutm` (it only shows in what follows `CRS.utm`)
    pure (match normPlan (← parseCrsArg? a) (← parseBool? ctx) with
      | .utm _ => "utm"
      | p => fmtPlan p)
  | ["normutm", txt, e, zk, es, en] => do
    let f : UtmFacts := ⟨← parseOpt? parseInt? e, ← parseBool? zk, ← parseBool? es, ← parseBool? en⟩
    pure (match normPlan (.spec (.str txt)) true with
      | .utm m =>
        match utmAdjust m f with
        | .ok o => "utm " ++ fmtOpt fmtInt o
        | .error e => "raise:" ++ e.toStr
      | p => fmtPlan p)
  | ["utm", m, e, zk, es, en] => do
    let f : UtmFacts := ⟨← parseOpt? parseInt? e, ← parseBool? zk, ← parseBool? es, ← parseBool? en⟩
    pure (fmtRes (fmtOpt fmtInt) (utmAdjust (← parseMode? m) f))
  | ["utmfinal", m, z, s] => do
    pure (fmtRes fmtInt (utmFinal (← parseMode? m) (← parseNat? z) (← parseBool? s)))
  | ["crsctor", k, x] => do
    let a ← match k with
      | "like-u" => some (CtorArg.like false x)
      | "like-h" => some (CtorArg.like true x)
      | "other" => some CtorArg.other
      | "spec" => match parseCrsArg? x with
        | some (.spec s) => some (CtorArg.spec s)
        | _ => none
      | _ => none
    pure (match ctorPlan a with
      | .construct s => "construct:" ++ fmtSpec s
      | .raise e => "raise:" ++ e.toStr)
  | ["bboxeq", c, l, b, r, t, a] => do
    let bb ← parseBBox? [c, l, b, r, t]
    let a ← parseArg? a
    let h := match a with
      | .seq true xs => fmtBool (decide (bb.hashKey = tupleHashKey xs))
      | _ => "-"
    pure s!"{fmtBool (bb.eqArg a)} {h}"
  | ["bbox", l, b, r, t, c] => do
    let bb := BBox.ctor (← parseNum? l) (← parseNum? b) (← parseNum? r) (← parseNum? t) (← parseCrs? c)
    pure s!"{fmtCrsRec bb.crs} {fmtNum bb.l} {fmtNum bb.b} {fmtNum bb.r} {fmtNum bb.t}"
  | "geomcrs" :: rest => do
    let (src, ca) ← match rest with
      | ["G", c, ca] => do pure (GeomSrc.geometry (← parseCrs? c), ca)
      | ["S", ca] => some (GeomSrc.shapely, ca)
      | ["D", t, ca] => some (GeomSrc.dict (if t = "N" then none else some t), ca)
      | ["O", ca] => some (GeomSrc.other, ca)
      | _ => none
    let ca ← parseCrsArg? ca
    pure (match geomCrs src ca with
      | .keep c => "keep " ++ fmtCrsRec c
      | .norm a f => s!"norm {fmtCrsArg a} {fmtOpt ErrKind.toStr f}"
      | .raise e => "raise " ++ e.toStr)
  | ["gbox", a, aff, c] => do
    pure (fmtOR fmtGBoxRec (GBox.ctor (← parseArg? a) (← parseList? parseNum? aff) (← parseCrs? c)))
  | ["gcp", a, ident, c, wld, pix, aff] => do
    let m : GCPMap := ⟨← parseNat? ident, ← parseCrs? c, ← parseList? parseNum? wld, ← parseList? parseNum? pix⟩
    let aff ← parseOpt? (parseList? parseNum?) aff
    pure (fmtOR (fun g => s!"{g.mapping.ident} {fmtCrsRec g.mapping.crs} {g.ny} {g.nx} {fmtNums g.aff}")
      (GCPBox.ctor (← parseArg? a) m aff))
  | ["gcpcrs", g, w] => do
    -- what `norm_crs` makes of the CRS argument the mapping ends up with
    pure (fmtPlan (normPlan (gcpCrsArg (← parseCrsArg? g) (← parseCrsArg? w)) false))
  | ["tiles", b, t] => do pure (fmtOR fmtTilesRec (Tiles.ctor (← parseArg? b) (← parseArg? t)))
  | "roitiles" :: s :: rest => do
    let s ← parseArg? s
    let (h, rest) ← parseHowArg? rest
    let h ← h
    if rest ≠ [] then none else pure (fmtOR fmtAnyTiles (roiTilesArg s h))
  | "gbt" :: rest => do
    let (g, rest) ← parseAnyBox? rest
    let (h, rest) ← parseHowArg? rest
    let (t, rest) ← parseTilesOpt? rest
    if rest ≠ [] then none
    else pure (fmtOR (fun (x : GBTiles) => fmtAnyTiles x.tiles) (GBTiles.ctorArg g h t))
  | ["gs", c, s, r, o, fx, fy] => do
    pure (fmtOR fmtGS (GridSpec.ctor (← parseCrsRes? c) (← parseArg? s) (← parseArg? r) (← parseArg? o)
      (← parseBool? fx) (← parseBool? fy)))
  | _ => none


/-! ### sharing of CRS instances, `authority`, the NaN clean-up (`c19 alias …`) -/

def parseAOp? (s : String) : Option AOp :=
  match s.splitOn ";" with
  | ["n", i, obj, sys, epsg, str, ie] => do
    let c ← parseCrs? s!"{obj};{sys};{epsg};{str}"
    let c ← c
    let ie ← parseOpt? parseNat? ie
    pure (.new (← parseNat? i) { c with info := { c.info with epsg := ie } })
  | ["c", j, i] => do pure (.copy (← parseNat? j) (← parseNat? i))
  | ["h", h, i] => do pure (.hold (← parseNat? h) (← parseNat? i))
  | ["hn", h] => do pure (.holdNone (← parseNat? h))
  | ["rh", h2, h] => do pure (.rehold (← parseNat? h2) (← parseNat? h))
  | ["r", i] => do pure (.read (← parseNat? i))
  | ["e", a, b] => do pure (.eq (← parseNat? a) (← parseNat? b))
  | _ => none

def fmtAOut : AOut → String
  | .unit => "-" | .epsg e => "e:" ++ fmtOpt toString e | .bool b => fmtBool b | .err => "ERR"

def parseNanNum? (s : String) : Option (Option Rat) := parseOpt? parseRat? s

def runAlias (args : List String) : Option String :=
  match args with
  | ["run", ops] => do
    let ops ← parseList? parseAOp? ops
    pure (",".intercalate ((arun {} ops).2.map fmtAOut))
  | ["auth", c, ie, ta] => do
    let c ← parseCrs? c
    let c ← c
    let _ie ← parseOpt? parseNat? ie
    let ta ← if ta = "N" then some none else
      match ta.splitOn "~" with
      | [a, code] => some (some (a, code))
      | _ => none
    let r := authorityOf c ta
    pure s!"{r.1}~{r.2}"
  | ["nan", "S", x, y] => do
    match nanClean (.scalars (← parseNanNum? x) (← parseNanNum? y)) with
    | .scalars a b => pure s!"S {fmtOpt fmtRat a} {fmtOpt fmtRat b}"
    | _ => none
  | ["nan", "A", xs, ys] => do
    match nanClean (.arrays (← parseList? parseNanNum? xs) (← parseList? parseNanNum? ys)) with
    | .arrays a b => pure s!"A {fmtList (fmtOpt fmtRat) a} {fmtList (fmtOpt fmtRat) b}"
    | _ => none
  | _ => none


/-! ### the unified state (`c19 uhist …`), units / dimensions (`c19 units …`) -/

def parseUOp? (s : String) : Option UOp :=
  match s.splitOn ";" with
  | ["hh", h, v] => do pure (.hold (← parseNat? h) (← parseNat? v))
  | ["hn", h] => do pure (.holdNone (← parseNat? h))
  | ["rh", h2, h] => do pure (.rehold (← parseNat? h2) (← parseNat? h))
  | ["he", a, b] => do pure (.heq (← parseNat? a) (← parseNat? b))
  | ["dl", v] => do pure (.del (← parseNat? v))
  | _ => (parseOp? s).map .core

def parseKind? : String → Option CrsKind
  | "G" => some .geographic | "P" => some .projected | "O" => some .other | _ => none

def parseAxis? (s : String) : Option Axis :=
  match s.splitOn ";" with
  | [d, a, u] => some ⟨d, a, u⟩
  | _ => none

def runUnified (args : List String) : Option String :=
  match args with
  | ["uhist", ts, es, ops] => do
    let ts ← parseList? parseTextEntry? ts
    let es ← parseList? parseEpsgEntry? es
    let ops ← parseList? parseUOp? ops
    pure (",".intercalate ((urun (mkWorld ts es) ops).2.map fmtOut))
  | ["units", k, axes] => do
    let r := unitsOf (← parseKind? k) (← parseList? parseAxis? axes)
    pure (fmtRes (fun p => s!"{p.1}~{p.2}") r)
  | ["dims", k] => do pure (fmtRes (fun (p : String × String) => s!"{p.1}~{p.2}") (dimensionsOf (← parseKind? k)))
  | _ => none


/-! ### hashable CRS-like objects as cache keys (`c19 like …`) -/

structure LikeRun where
  σ : LState := {}
  vars : List (Nat × CrsObj) := []
  outs : List String := []

def likeStep (W : World) (r : LikeRun) (s : String) : Option LikeRun :=
  match s.splitOn ";" with
  | ["l", v, lid, wkt, pick] => do
    let v ← parseNat? v
    let res := constructLike W r.σ (← parseNat? lid) wkt (← parseNat? pick)
    match res.2 with
    | .ok c => pure { σ := res.1, vars := setVar v c r.vars, outs := r.outs ++ [s!"s:{c.str}"] }
    | .error e => pure { r with σ := res.1, outs := r.outs ++ [e.toStr] }
  | ["same", a, b] => do
    let ca ← assoc (← parseNat? a) r.vars
    let cb ← assoc (← parseNat? b) r.vars
    pure { r with outs := r.outs ++ [fmtBool (ca.obj == cb.obj)] }
  | ["eq", a, b] => do
    let ca ← assoc (← parseNat? a) r.vars
    let cb ← assoc (← parseNat? b) r.vars
    pure { r with outs := r.outs ++ [fmtBool (crsEq ca cb)] }
  | _ => none

def runLike (args : List String) : Option String :=
  match args with
  | ["like", ts, ops] => do
    let ts ← parseList? parseTextEntry? ts
    let ops ← parseListRaw? ops
    let r ← ops.foldlM (likeStep (mkWorld ts [])) {}
    pure (",".intercalate r.outs ++ s!" likes={r.σ.likes.length}")
  | _ => none

/-- `pair atiles <T by bx ty tx | V y x> <same>`: the two representations of a tiling compared with each other -/
def runPairAnyTiles (xs : List String) : Option String := do
  let (a, rest) ← parseAnyTiles? xs
  let (b, rest) ← parseAnyTiles? rest
  if rest ≠ [] then none
  else
    let tok : AnyTiles → Token := fun
      | .reg t => t.token
      | .var t => t.token
    pure (pairRes a b fun a b => out3 (a.eq b) none (tok a == tok b))

def runAll (args : List String) : Option String :=
  match args with
  | "glue" :: rest => runGlue rest
  | "alias" :: rest => runAlias rest
  | "uhist" :: _ => runUnified args
  | "like" :: _ => runLike args
  | "units" :: _ => runUnified args
  | "dims" :: _ => runUnified args
  | "pair" :: "atiles" :: rest => runPairAnyTiles rest
  | _ => run args

end OdcGeo.C19.Drv
