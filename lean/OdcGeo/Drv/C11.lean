import OdcGeo.Model.C11
namespace OdcGeo.C11.Drv
open OdcGeo OdcGeo.IO

def run (args : List String) : Option String :=
  match args with
  | _ => none

end OdcGeo.C11.Drv
