import OdcGeo.Model.C11
import OdcGeo.Model.C11Glue
namespace OdcGeo.C11.Drv
open OdcGeo OdcGeo.IO OdcGeo.C11

def parsePair? (s : String) : Option (Rat × Rat) :=
  match (s.splitOn ",").mapM parseRat? with
  | some [a, b] => some (a, b)
  | _ => none

def parseBBox? (s : String) : Option BBox :=
  match (s.splitOn ",").mapM parseRat? with
  | some [l, b, r, t] => some ⟨l, b, r, t⟩
  | _ => none

def parseMode? (s : String) : Option ResMode :=
  match s.splitOn ":" with
  | ["auto"] => some .auto
  | ["same"] => some .same
  | ["fit"] => some .fit
  | ["bad"] => some .badString
  | ["e", rx, ry] => do
    let rx ← parseRat? rx; let ry ← parseRat? ry
    pure (.explicit rx ry)
  | _ => none

def parseShape? (s : String) : Option ShapeReq :=
  match s.splitOn ":" with
  | ["N"] => some .none
  | ["s", n] => (parseInt? n).map .side
  | ["x", ny, nx] => do
    let ny ← parseInt? ny; let nx ← parseInt? nx
    pure (.exact ny nx)
  | _ => none

def parseAnchor? (s : String) : Option Anchor :=
  match s.splitOn ":" with
  | ["default"] => some .dflt
  | ["edge"] => some .edge
  | ["center"] => some .center
  | ["floating"] => some .floating
  | ["xy", ax, ay] => do
    let ax ← parseRat? ax; let ay ← parseRat? ay
    pure (.xy ax ay)
  | _ => none

def parseRnd? (s : String) : Option Rounding :=
  match s.splitOn ":" with
  | ["N"] => some .none
  | ["T"] => some (.flag true)
  | ["F"] => some (.flag false)
  | ["c", v] => (parseRat? v).map .custom
  | _ => none

def fmtGrid (g : Grid) : String := s!"{g.ny} {g.nx} {fmtAff g.A}"

def fmtOut : Out → String
  | .source => "source"
  | .grid g => fmtGrid g

def parseCand? (s : String) : Option (Nat × Rat) :=
  match s.splitOn ";" with
  | [i, v] => do
    let i ← parseNat? i; let v ← parseRat? v
    pure (i, v)
  | _ => none

def run (args : List String) : Option String :=
  match args with
  | ["out", sc, su, sr, bb, cp, fs, mode, shape, tight, anchor, tol, rnd] => do
    let sc ← parseBool? sc; let su ← parseBool? su
    let sr ← parsePair? sr; let bb ← parseBBox? bb; let cp ← parsePair? cp; let fs ← parsePair? fs
    let mode ← parseMode? mode; let shape ← parseShape? shape; let tight ← parseBool? tight
    let anchor ← parseAnchor? anchor; let tol ← parseRat? tol; let rnd ← parseRnd? rnd
    pure (fmtRes fmtOut (computeOutput ⟨sc, su, sr, bb, cp, fs⟩ mode shape tight anchor tol rnd))
  | ["outany", gb, sc, su, sr, bb, cp, fs, mode, shape, tight, anchor, tol, rnd] => do
    -- compute_output_geobox for a GeoBox (gb = T) or a GCPGeoBox (gb = F) source
    let gb ← parseBool? gb
    let sc ← parseBool? sc; let su ← parseBool? su
    let sr ← parsePair? sr; let bb ← parseBBox? bb; let cp ← parsePair? cp; let fs ← parsePair? fs
    let mode ← parseMode? mode; let shape ← parseShape? shape; let tight ← parseBool? tight
    let anchor ← parseAnchor? anchor; let tol ← parseRat? tol; let rnd ← parseRnd? rnd
    pure (fmtRes fmtOut (computeOutputAny gb ⟨sc, su, sr, bb, cp, fs⟩ mode shape tight anchor tol rnd))
  | ["outshape", sc, su, sr, bb, cp, fs, mode, shape, tight, anchor, tol, rnd] => do
    -- compute_output_geobox: `source` or the shape of the computed grid (shape requests: `span / n` is not exact in doubles)
    let sc ← parseBool? sc; let su ← parseBool? su
    let sr ← parsePair? sr; let bb ← parseBBox? bb; let cp ← parsePair? cp; let fs ← parsePair? fs
    let mode ← parseMode? mode; let shape ← parseShape? shape; let tight ← parseBool? tight
    let anchor ← parseAnchor? anchor; let tol ← parseRat? tol; let rnd ← parseRnd? rnd
    pure (fmtRes (fun (o : Out) => match o with
      | .source => "source"
      | .grid g => s!"{g.ny} {g.nx}") (computeOutput ⟨sc, su, sr, bb, cp, fs⟩ mode shape tight anchor tol rnd))
  | ["snap", x0, x1, res, off, tol] => do
    let x0 ← parseRat? x0; let x1 ← parseRat? x1; let res ← parseRat? res
    let off ← parseOpt? parseRat? off; let tol ← parseRat? tol
    pure (fmtRes (fun (p : Rat × Int) => s!"{fmtRat p.1} {p.2}") (snapGrid x0 x1 res off tol))
  | ["bbox", bb, shape, res, tight, anchor, tol] => do
    let bb ← parseBBox? bb; let shape ← parseShape? shape
    let res ← parseOpt? parsePair? res
    let tight ← parseBool? tight; let anchor ← parseAnchor? anchor; let tol ← parseRat? tol
    pure (fmtRes fmtGrid (fromBbox bb shape res anchor tight tol))
  | ["fpbbox", a, nx, ny, buf] => do
    let a ← parseAff? a; let nx ← parseNat? nx; let ny ← parseNat? ny; let buf ← parseRat? buf
    let b := linearFootprintBBox a nx ny buf
    pure (",".intercalate ([b.left, b.bottom, b.right, b.top].map fmtRat))
  | ["utm", req, epsg, south] => do
    let req ← (match req with | "utm" => some UtmReq.utm | "utm-n" => some .utmN | "utm-s" => some .utmS | _ => none)
    let epsg ← parseInt? epsg; let south ← parseBool? south
    pure (fmtInt (normUtm req epsg south))
  | ["utmtxt", raw, epsg, south] => do
    let epsg ← parseInt? epsg; let south ← parseBool? south
    pure (match parseUtm raw with
      | none => "other"
      | some r => fmtInt (normUtm r epsg south))
  | ["pick", cands, big] => do
    let cands ← parseList? parseCand? cands
    let big ← parseBool? big
    pure (fmtRes (fun (n : Nat) => toString n) (pickBest cands big))
  | ["utmarg", kind, a, b] => do
    -- CRS.utm(<arg>): the box handed to the database query.  kind: bbox | geomcrs | geom | num | numy | xy
    let arg ← (match kind with
      | "bbox" => (parseBBox? a).map UtmArg.bbox
      | "geomcrs" => do let x ← parseBBox? a; let y ← parseBBox? b; pure (UtmArg.geom true x y)
      | "geom" => do let x ← parseBBox? a; let y ← parseBBox? b; pure (UtmArg.geom false x y)
      | "num" => (parseRat? a).map (fun x => UtmArg.num x none)
      | "numy" => do let x ← parseRat? a; let y ← parseRat? b; pure (UtmArg.num x (some y))
      | "xy" => do let x ← parseRat? a; let y ← parseRat? b; pure (UtmArg.xy x y)
      | _ => none)
    let bb := utmBBox arg
    pure (",".intercalate ([bb.left, bb.bottom, bb.right, bb.top].map fmtRat))
  | ["normcrs", kind, raw, parsed, ctx, orerr] => do
    -- norm_crs / norm_crs_or_error.  kind: obj | none | unset | str | other ; parsed: N | epsg
    let parsed ← parseOpt? parseNat? parsed
    let ctx ← parseBool? ctx
    let orerr ← parseBool? orerr
    let arg ← (match kind with
      | "obj" => parsed.map CrsArg.obj
      | "none" => some CrsArg.none
      | "unset" => some CrsArg.unset
      | "str" => some (CrsArg.str raw parsed)
      | "other" => some (CrsArg.other parsed)
      | _ => none)
    let r := if orerr then normCrsOrError arg ctx else normCrsArg arg ctx
    pure (fmtRes (fun (n : NormCrs) => match n with
      | .none => "none"
      | .crs i => s!"crs:{i}"
      | .utm _ => "utm") r)
  | ["cpres", bb] => do
    let bb ← parseBBox? bb
    pure (fmtRes (fun (p : Rat × Rat) => s!"{fmtRat p.1},{fmtRat p.2}") (cpResOf bb))
  | ["round", x] => do
    let x ← parseRat? x
    pure (fmtRat (roundHalfEven x))
  | _ => none

end OdcGeo.C11.Drv
