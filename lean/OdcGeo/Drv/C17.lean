import OdcGeo.Model.C17
import OdcGeo.Model.C17Glue
import OdcGeo.Model.C17Path
import OdcGeo.Model.C17Np
import OdcGeo.Spec.PySliceStep
import OdcGeo.Model.C03
import OdcGeo.Spec.PySlice
namespace OdcGeo.C17.Drv
open OdcGeo OdcGeo.IO OdcGeo.C17

/-- `i:<int>` or `s:<a>:<b>` with `N` for None -/
def parsePIdx? (s : String) : Option PIdx :=
  match s.splitOn ":" with
  | ["i", k] => (parseInt? k).map PIdx.idx
  | ["s", a, b] =>
    match parseOpt? parseInt? a, parseOpt? parseInt? b with
    | some a, some b => some (.slc a b)
    | _, _ => none
  | _ => none

def fmtNS (s : NSlice) : String := s!"{s.start}:{s.stop}"

def parseCoord? (s : String) : Option Coord :=
  if s = "nf" then some .nonfinite else (parseRat? s).map Coord.fin

def parsePt? (s : String) : Option (Coord × Coord) :=
  match s.splitOn ";" with
  | [x, y] => match parseCoord? x, parseCoord? y with
    | some x, some y => some (x, y)
    | _, _ => none
  | _ => none

/-- `i:<int>` or `s:<a>:<b>:<k>` with `N` for None -/
def parseSIdx? (s : String) : Option SIdx :=
  match s.splitOn ":" with
  | ["i", k] => (parseInt? k).map SIdx.idx
  | ["s", a, b, k] =>
    match parseOpt? parseInt? a, parseOpt? parseInt? b, parseOpt? parseInt? k with
    | some a, some b, some k => some (.slc a b k)
    | _, _, _ => none
  | _ => none

/-- `1|x` one value, `m|[x,y]` a sequence -/
def parseArg? {β : Type} (p : String → Option β) (s : String) : Option (Arg β) :=
  match s.splitOn "|" with
  | ["1", x] => (p x).map Arg.one
  | ["m", xs] => (parseList? p xs).map Arg.many
  | _ => none

def fmtSS (s : SSlice) : String := s!"{s.start}:{s.stop}:{fmtOpt fmtInt s.step}"

def fmtAns {β : Type} (f : β → String) : Ans β → String
  | .one x => "one " ++ f x
  | .many xs => "many " ++ fmtList f xs

def parseShapeSp? (s : String) : Option ShapeSpelling :=
  match s.splitOn ":" with
  | ["S2", ny, nx] => do let ny ← parseInt? ny; let nx ← parseInt? nx; pure (.shape2d ny nx)
  | ["XY", x, y] => do let x ← parseRat? x; let y ← parseRat? y; pure (.xy x y)
  | ["SEQ", vs] => (parseList? parseRat? vs).map ShapeSpelling.seq
  | ["OTHER"] => some .other
  | _ => none

def parseOB? (s : String) : Option (Option Int × Option Int) :=
  match s.splitOn ":" with
  | [a, b] => match parseOpt? parseInt? a, parseOpt? parseInt? b with
    | some a, some b => some (a, b)
    | _, _ => none
  | _ => none

def parseBnd? (s : String) : Option (Option Bnd) :=
  if s = "N" then some none
  else if s = "s" then some (some .str)
  else match s.splitOn ":" with
    | ["i", v] => (parseInt? v).map fun k => some (Bnd.int k)
    | ["f", v] => (parseRat? v).map fun q => some (Bnd.flt q)
    | _ => none

def fmtBnd : Bnd → String
  | .int v => s!"i:{v}"
  | .flt q => s!"f:{fmtRat q}"
  | .str => "s"

def fmtResB {β : Type} (f : β → String) : ResB β → String
  | .ok a => f a
  | .error e => e.toStr

def run (args : List String) : Option String :=
  match args with
  | ["bnd", "norm", a, b, n] => do
    let a ← parseBnd? a; let b ← parseBnd? b; let n ← parseInt? n
    pure (fmtResB (fun (p : Bnd × Bnd) => s!"{fmtBnd p.1} {fmtBnd p.2}") (normSliceB a b n))
  | ["bnd", "dim", a, b] => do
    let a ← parseBnd? a; let b ← parseBnd? b
    pure (fmtResB fmtBnd (sliceDimB a b))
  | "npw" :: fn :: sg :: bits :: rest => do
    -- every operand a numpy scalar of the type (signed?, bits): arithmetic wraps around in the type
    let sg ← parseBool? sg; let bits ← parseNat? bits
    let t : C04.NpT := ⟨sg, bits⟩
    let vs ← rest.mapM parseInt?
    match fn, vs with
    | "norm", [a, b, n] => pure (fmtNS (normSliceW t a b n))
    | "pad", [a, b, pad, n] => pure (fmtNS (padSliceW t a b pad n))
    | "dim", [a, b] => pure (fmtInt (sliceDimW t a b))
    | "alup", [x, a] => pure (fmtInt (alignUpW t x a))
    | "aldown", [x, a] => pure (fmtInt (alignDownW t x a))
    | "down", [a, b, k] => pure (fmtNS (scaledDownSliceW t ⟨a, b⟩ k))
    | "up", [a, b, k] => pure (fmtNS (scaledUpSliceW t ⟨a, b⟩ k))
    | _, _ => none
  | ["ns2d", idx, shape] => do
    let shape ← parseList? parseInt? shape
    let idx ← (match idx.splitOn "|" with
      | ["T", items] => (parseList? parseSIdx? items).map Idx2Spelling.tuple
      | ["I", y, x] => do let y ← parseInt? y; let x ← parseInt? x; pure (Idx2Spelling.index2d y x)
      | ["O"] => some Idx2Spelling.other
      | _ => none)
    pure (fmtRes (fmtList fmtSS) (normSlice2d idx shape))
  | ["ppath", xs, ys, closed] => do
    let xs ← parseList? parseRat? xs; let ys ← parseOpt? (parseList? parseRat?) ys; let closed ← parseBool? closed
    pure (fmtRes (fmtList (fun (p : Rat × Rat) => s!"{fmtRat p.1};{fmtRat p.2}")) (polygonPath xs ys closed))
  | ["norms", n, s] => do
    let n ← parseInt? n; let s ← parseSIdx? s
    pure (fmtSS (normSliceS s n))
  | ["selstep", n, a, b, k] => do
    let n ← parseNat? n; let a ← parseOpt? parseInt? a; let b ← parseOpt? parseInt? b; let k ← parseInt? k
    if k = 0 then pure ErrKind.valueError.toStr else pure (fmtList fmtInt (PySliceStep.sel n a b k))
  | ["normarg", roi, shape] => do
    let roi ← parseArg? parseSIdx? roi; let shape ← parseArg? parseInt? shape
    pure (fmtRes (fmtAns fmtSS) (roiNormaliseArg roi shape))
  | ["padarg", roi, pad, shape] => do
    let roi ← parseArg? parseSIdx? roi; let pad ← parseInt? pad; let shape ← parseArg? parseInt? shape
    pure (fmtRes (fmtAns fmtSS) (roiPadArg roi pad shape))
  | ["intarg", a, b] => do
    let a ← parseArg? parseSIdx? a; let b ← parseArg? parseSIdx? b
    pure (fmtRes (fmtAns fmtNS) (roiIntersectArg a b))
  | ["int3arg", a, b] => do
    let a ← parseList? parseSIdx? a; let b ← parseList? parseSIdx? b
    pure (fmtRes (fun (x, y, z) => s!"{fmtList fmtNS x} {fmtList fmtNS y} {fmtList fmtNS z}") (roiIntersect3Arg a b))
  | ["fullarg", roi, shape] => do
    let roi ← parseArg? parseSIdx? roi; let shape ← parseArg? parseInt? shape
    pure (fmtBool (roiIsFullArg roi shape))
  | ["shapearg", roi] => do
    let roi ← parseArg? parseSIdx? roi
    pure (fmtRes (fmtList fmtInt) (roiShapeArg roi))
  | ["emptyarg", roi] => do
    let roi ← parseArg? parseSIdx? roi
    pure (fmtRes fmtBool (roiIsEmptyArg roi))
  | ["centerarg", roi] => do
    let roi ← parseArg? parseSIdx? roi
    pure (fmtRes (fmtAns fmtRat) (roiCenterArg roi))
  | ["win", roi] => do
    let roi ← parseOpt? (parseList? parseOB?) roi
    pure (fmtRes (fun r => match r with
      | none => "N"
      | some ((y0, y1), (x0, x1)) => s!"{y0}:{fmtOpt fmtInt y1} {x0}:{fmtOpt fmtInt x1}") (windowFromSlice roi))
  | ["fromptsp", shape, pad, al, xyOk, pts] => do
    let shape ← parseShapeSp? shape; let pad ← parseRat? pad; let al ← parseOpt? parseRat? al
    let xyOk ← parseBool? xyOk
    let pts ← parseList? parsePt? pts
    pure (fmtRes (fun (y, x) => s!"{fmtNS y} {fmtNS x}") (fromPointsPublic pts xyOk shape pad al))
  | ["norm", n, s] => do
    let n ← parseInt? n; let s ← parsePIdx? s
    pure (fmtNS (normSlice s n))
  | ["sel", n, s] => do
    let n ← parseNat? n; let s ← parsePIdx? s
    if PySlice.raisesIndexError n s then pure ErrKind.indexError.toStr
    else pure (fmtList fmtInt (PySlice.selList n s))
  | ["sel2", n, a, b] => do
    let n ← parseNat? n; let a ← parsePIdx? a; let b ← parsePIdx? b
    pure (fmtList fmtInt (PySlice.selList2 n a b))
  | ["int3", a, b] => do
    let a ← parsePIdx? a; let b ← parsePIdx? b
    pure (fmtRes (fun (x, y, z) => s!"{fmtNS x} {fmtNS y} {fmtNS z}") (sliceIntersect3 a b))
  | ["int", a, b] => do
    let a ← parsePIdx? a; let b ← parsePIdx? b
    pure (fmtRes fmtNS (sliceIntersect a b))
  | ["dim", s] => do
    let s ← parsePIdx? s
    pure (fmtRes fmtInt (sliceDim s))
  | ["empty", ss] => do
    let ss ← parseList? parsePIdx? ss
    pure (fmtRes fmtBool (roiIsEmpty ss))
  | ["full", n, s] => do
    let n ← parseInt? n; let s ← parsePIdx? s
    pure (fmtBool (sliceFull s n))
  | ["fullnd", shape, ss] => do
    let shape ← parseList? parseInt? shape; let ss ← parseList? parsePIdx? ss
    pure (fmtBool (roiIsFull ss shape))
  | ["normnd", shape, ss] => do
    let shape ← parseList? parseInt? shape; let ss ← parseList? parsePIdx? ss
    pure (fmtList fmtNS (roiNormalise ss shape))
  | ["padnd", shape, pad, ss] => do
    let shape ← parseList? parseInt? shape; let pad ← parseInt? pad; let ss ← parseList? parsePIdx? ss
    pure (fmtList fmtNS (roiPad ss pad shape))
  | ["bnd", y0, y1, x0, x1, pps] => do
    let y0 ← parseInt? y0; let y1 ← parseInt? y1; let x0 ← parseInt? x0; let x1 ← parseInt? x1
    let pps ← parseNat? pps
    pure (fmtList (fun (p : Rat × Rat) => s!"{fmtRat p.1};{fmtRat p.2}") (C03.roiBoundary (⟨y0, y1⟩, ⟨x0, x1⟩) pps))
  | ["center", s] => do
    let s ← parsePIdx? s
    pure (fmtRes fmtRat (sliceCenter s))
  | ["pad", n, pad, s] => do
    let n ← parseInt? n; let pad ← parseInt? pad; let s ← parsePIdx? s
    pure (fmtNS (padSlice s pad n))
  | ["down", a, b, k] => do
    let a ← parseInt? a; let b ← parseInt? b; let k ← parseInt? k
    pure (fmtNS (scaledDownSlice ⟨a, b⟩ k))
  | ["up", a, b, k, d] => do
    let a ← parseInt? a; let b ← parseInt? b; let k ← parseInt? k
    let d ← parseOpt? parseInt? d
    pure (fmtNS (scaledUpSlice ⟨a, b⟩ k d))
  | ["downshape", n, k] => do
    let n ← parseInt? n; let k ← parseInt? k
    pure (fmtInt (scaledDownDim n k))
  | ["alup", x, a] => do
    let x ← parseInt? x; let a ← parseInt? a
    pure (fmtInt (alignUp x a))
  | ["aldown", x, a] => do
    let x ← parseInt? x; let a ← parseInt? a
    pure (fmtInt (alignDown x a))
  | ["frompts", ny, nx, pad, al, pts] => do
    let ny ← parseInt? ny; let nx ← parseInt? nx; let pad ← parseInt? pad
    let al ← parseOpt? parseInt? al
    let pts ← parseList? parsePt? pts
    let (y, x) := fromPoints pts ny nx pad al
    pure s!"{fmtNS y} {fmtNS x}"
  | _ => none

end OdcGeo.C17.Drv
