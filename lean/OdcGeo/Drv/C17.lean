import OdcGeo.Model.C17
import OdcGeo.Model.C03
import OdcGeo.Spec.PySlice
namespace OdcGeo.C17.Drv
open OdcGeo OdcGeo.IO OdcGeo.C17

/-- `i:<int>` or `s:<a>:<b>` with `N` for None -/
def parsePIdx? (s : String) : Option PIdx :=
  match s.splitOn ":" with
  | ["i", k] => (parseInt? k).map PIdx.idx
  | ["s", a, b] =>
    match parseOpt? parseInt? a, parseOpt? parseInt? b with
    | some a, some b => some (.slc a b)
    | _, _ => none
  | _ => none

def fmtNS (s : NSlice) : String := s!"{s.start}:{s.stop}"

def parseCoord? (s : String) : Option Coord :=
  if s = "nf" then some .nonfinite else (parseRat? s).map Coord.fin

def parsePt? (s : String) : Option (Coord × Coord) :=
  match s.splitOn ";" with
  | [x, y] => match parseCoord? x, parseCoord? y with
    | some x, some y => some (x, y)
    | _, _ => none
  | _ => none

def run (args : List String) : Option String :=
  match args with
  | ["norm", n, s] => do
    let n ← parseInt? n; let s ← parsePIdx? s
    pure (fmtNS (normSlice s n))
  | ["sel", n, s] => do
    let n ← parseNat? n; let s ← parsePIdx? s
    if PySlice.raisesIndexError n s then pure ErrKind.indexError.toStr
    else pure (fmtList fmtInt (PySlice.selList n s))
  | ["sel2", n, a, b] => do
    let n ← parseNat? n; let a ← parsePIdx? a; let b ← parsePIdx? b
    pure (fmtList fmtInt (PySlice.selList2 n a b))
  | ["int3", a, b] => do
    let a ← parsePIdx? a; let b ← parsePIdx? b
    pure (fmtRes (fun (x, y, z) => s!"{fmtNS x} {fmtNS y} {fmtNS z}") (sliceIntersect3 a b))
  | ["int", a, b] => do
    let a ← parsePIdx? a; let b ← parsePIdx? b
    pure (fmtRes fmtNS (sliceIntersect a b))
  | ["dim", s] => do
    let s ← parsePIdx? s
    pure (fmtRes fmtInt (sliceDim s))
  | ["empty", ss] => do
    let ss ← parseList? parsePIdx? ss
    pure (fmtRes fmtBool (roiIsEmpty ss))
  | ["full", n, s] => do
    let n ← parseInt? n; let s ← parsePIdx? s
    pure (fmtBool (sliceFull s n))
  | ["fullnd", shape, ss] => do
    let shape ← parseList? parseInt? shape; let ss ← parseList? parsePIdx? ss
    pure (fmtBool (roiIsFull ss shape))
  | ["normnd", shape, ss] => do
    let shape ← parseList? parseInt? shape; let ss ← parseList? parsePIdx? ss
    pure (fmtList fmtNS (roiNormalise ss shape))
  | ["padnd", shape, pad, ss] => do
    let shape ← parseList? parseInt? shape; let pad ← parseInt? pad; let ss ← parseList? parsePIdx? ss
    pure (fmtList fmtNS (roiPad ss pad shape))
  | ["bnd", y0, y1, x0, x1, pps] => do
    let y0 ← parseInt? y0; let y1 ← parseInt? y1; let x0 ← parseInt? x0; let x1 ← parseInt? x1
    let pps ← parseNat? pps
    pure (fmtList (fun (p : Rat × Rat) => s!"{fmtRat p.1};{fmtRat p.2}") (C03.roiBoundary (⟨y0, y1⟩, ⟨x0, x1⟩) pps))
  | ["center", s] => do
    let s ← parsePIdx? s
    pure (fmtRes fmtRat (sliceCenter s))
  | ["pad", n, pad, s] => do
    let n ← parseInt? n; let pad ← parseInt? pad; let s ← parsePIdx? s
    pure (fmtNS (padSlice s pad n))
  | ["down", a, b, k] => do
    let a ← parseInt? a; let b ← parseInt? b; let k ← parseInt? k
    pure (fmtNS (scaledDownSlice ⟨a, b⟩ k))
  | ["up", a, b, k, d] => do
    let a ← parseInt? a; let b ← parseInt? b; let k ← parseInt? k
    let d ← parseOpt? parseInt? d
    pure (fmtNS (scaledUpSlice ⟨a, b⟩ k d))
  | ["downshape", n, k] => do
    let n ← parseInt? n; let k ← parseInt? k
    pure (fmtInt (scaledDownDim n k))
  | ["alup", x, a] => do
    let x ← parseInt? x; let a ← parseInt? a
    pure (fmtInt (alignUp x a))
  | ["aldown", x, a] => do
    let x ← parseInt? x; let a ← parseInt? a
    pure (fmtInt (alignDown x a))
  | ["frompts", ny, nx, pad, al, pts] => do
    let ny ← parseInt? ny; let nx ← parseInt? nx; let pad ← parseInt? pad
    let al ← parseOpt? parseInt? al
    let pts ← parseList? parsePt? pts
    let (y, x) := fromPoints pts ny nx pad al
    pure s!"{fmtNS y} {fmtNS x}"
  | _ => none

end OdcGeo.C17.Drv
