import OdcGeo.Model.C14
namespace OdcGeo.C14.Drv
open OdcGeo OdcGeo.IO

def run (args : List String) : Option String :=
  match args with
  | _ => none

end OdcGeo.C14.Drv
