import OdcGeo.Model.C14
import OdcGeo.Spec.ConvexDisjoint
namespace OdcGeo.C14.Drv
open OdcGeo OdcGeo.IO OdcGeo.C14

/-- `E` exact arithmetic, `F` binary64 rounding after every operation -/
def parseMode? (s : String) : Option Rnd :=
  if s = "E" then some id else if s = "F" then some fl64 else none

def fmtBin (b : Bin1D) : String := s!"{fmtRat b.sz} {fmtRat b.origin} {b.dir}"

/-- public attributes only: `tile_shape`, `resolution`, `origin`, `tile_size` (index directions are
    observed through `pt` / `tile`) -/
def fmtGrid (g : GridSpec) : String :=
  s!"{g.ny} {g.nx} {fmtRat g.rx} {fmtRat g.ry} {fmtRat g.ox} {fmtRat g.oy} {fmtRat g.xbin.sz} {fmtRat g.ybin.sz}"

def fmtBBox (b : BBox) : String :=
  s!"{fmtRat b.left} {fmtRat b.bottom} {fmtRat b.right} {fmtRat b.top}"

def fmtIdx (k : Int × Int) : String := s!"{k.1};{k.2}"

def parsePt? (s : String) : Option (Rat × Rat) :=
  match s.splitOn ";" with
  | [x, y] => do let x ← parseRat? x; let y ← parseRat? y; pure (x, y)
  | _ => none

def parseGrid? (fl : Rnd) (ny nx rx ry ox oy fx fy : String) : Option (Res GridSpec) := do
  let ny ← parseInt? ny; let nx ← parseInt? nx
  let rx ← parseRat? rx; let ry ← parseRat? ry
  let ox ← parseRat? ox; let oy ← parseRat? oy
  let fx ← parseBool? fx; let fy ← parseBool? fy
  pure (GridSpec.new fl ny nx rx ry ox oy fx fy)

def parseBBox? (l b r t : String) : Option BBox := do
  let l ← parseRat? l; let b ← parseRat? b; let r ← parseRat? r; let t ← parseRat? t
  pure ⟨l, b, r, t⟩

def ptsBounds (ps : List (Rat × Rat)) : Option BBox :=
  match ps with
  | [] => none
  | p :: rest => some ⟨rest.foldl (fun m q => min m q.1) p.1, rest.foldl (fun m q => min m q.2) p.2,
                       rest.foldl (fun m q => max m q.1) p.1, rest.foldl (fun m q => max m q.2) p.2⟩

def probe (fl : Rnd) (px py : Rat) (kx ky : Int) (g : GridSpec) : String :=
  s!"{fmtGrid g} {fmtIdx (g.pt2idx fl px py)} {fmtBBox ((g.tileGeobox fl (kx, ky)).bbox fl)}"

def withGrid (g : Res GridSpec) (f : GridSpec → String) : String :=
  match g with
  | .ok g => f g
  | .error e => e.toStr


/-- one step of a query history sharing (`B`, `P`) or not using (`b`, `p`) one `geobox_cache` -/
def histGo (fl : Rnd) (g : GridSpec) : List String → Cache → List String → Option (List String × Cache)
  | [], c, acc => some (acc.reverse, c)
  | "B" :: l :: b :: r :: t :: rest, c, acc => do
    let q ← parseBBox? l b r t
    let res := g.tilesC fl tol8 q c
    histGo fl g rest res.2 (fmtList fmtIdx (res.1.map (·.1)) :: acc)
  | "b" :: l :: b :: r :: t :: rest, c, acc => do
    let q ← parseBBox? l b r t
    histGo fl g rest c (fmtList fmtIdx (g.tiles fl tol8 q) :: acc)
  | "P" :: pts :: rest, c, acc => do
    let ps ← parseList? parsePt? pts
    let q ← ptsBounds ps
    let res := g.tilesFromPolygonC fl tol8 q (fun gb => Spec.Convex.disjoint ps (gb.extentPts fl)) c
    histGo fl g rest res.2 (fmtList fmtIdx (res.1.map (·.1)) :: acc)
  | "p" :: pts :: rest, c, acc => do
    let ps ← parseList? parsePt? pts
    let q ← ptsBounds ps
    histGo fl g rest c
      (fmtList fmtIdx (g.tilesFromPolygon fl tol8 q (fun gb => Spec.Convex.disjoint ps (gb.extentPts fl))) :: acc)
  | _, _, _ => none

def keyLe (a b : Int × Int) : Bool := a.2 < b.2 || (a.2 == b.2 && a.1 ≤ b.1)

def run (args : List String) : Option String :=
  match args with
  -- spec validation of the binary64 rounding
  | ["fl", q] => do
    let q ← parseRat? q
    pure (fmtRat (fl64 q))
  | ["bin", m, sz, o, d, x] => do
    let fl ← parseMode? m; let sz ← parseRat? sz; let o ← parseRat? o; let d ← parseInt? d
    let x ← parseRat? x
    pure (fmtRes (fun b => fmtInt (b.bin fl x)) (Bin1D.new sz o d))
  | ["item", m, sz, o, d, k] => do
    let fl ← parseMode? m; let sz ← parseRat? sz; let o ← parseRat? o; let d ← parseInt? d
    let k ← parseInt? k
    pure (fmtRes (fun b => s!"{fmtRat (b.lo fl k)} {fmtRat (b.hi fl k)}") (Bin1D.new sz o d))
  | ["fsb", m, idx, x0, x1, d] => do
    let fl ← parseMode? m; let idx ← parseInt? idx; let x0 ← parseRat? x0; let x1 ← parseRat? x1
    let d ← parseInt? d
    pure (fmtRes fmtBin (Bin1D.fromSampleBin fl idx x0 x1 d))
  | ["grid", m, ny, nx, rx, ry, ox, oy, fx, fy] => do
    let fl ← parseMode? m
    let g ← parseGrid? fl ny nx rx ry ox oy fx fy
    pure (fmtRes fmtGrid g)
  | ["pt", m, ny, nx, rx, ry, ox, oy, fx, fy, x, y] => do
    let fl ← parseMode? m
    let g ← parseGrid? fl ny nx rx ry ox oy fx fy
    let x ← parseRat? x; let y ← parseRat? y
    pure (withGrid g fun g => fmtIdx (g.pt2idx fl x y))
  | ["tile", m, ny, nx, rx, ry, ox, oy, fx, fy, ix, iy] => do
    let fl ← parseMode? m
    let g ← parseGrid? fl ny nx rx ry ox oy fx fy
    let ix ← parseInt? ix; let iy ← parseInt? iy
    pure (withGrid g fun g =>
      let gb := g.tileGeobox fl (ix, iy)
      s!"{gb.ny} {gb.nx} {fmtAff gb.aff} {fmtBBox (gb.bbox fl)} {fmtList (fun (p : Rat × Rat) => s!"{fmtRat p.1};{fmtRat p.2}") (gb.extentPts fl)}")
  | ["idxb", m, ny, nx, rx, ry, ox, oy, fx, fy, l, b, r, t] => do
    let fl ← parseMode? m
    let g ← parseGrid? fl ny nx rx ry ox oy fx fy
    let q ← parseBBox? l b r t
    pure (withGrid g fun g =>
      let (a, b, c, d) := g.idxBounds fl tol8 q
      s!"{a} {b} {c} {d}")
  | ["tiles", m, ny, nx, rx, ry, ox, oy, fx, fy, l, b, r, t] => do
    let fl ← parseMode? m
    let g ← parseGrid? fl ny nx rx ry ox oy fx fy
    let q ← parseBBox? l b r t
    pure (withGrid g fun g => fmtList fmtIdx (g.tiles fl tol8 q))
  -- convex polygon query; `disjoint` := separating-axis test (Spec/ConvexDisjoint)
  | ["poly", m, ny, nx, rx, ry, ox, oy, fx, fy, pts] => do
    let fl ← parseMode? m
    let g ← parseGrid? fl ny nx rx ry ox oy fx fy
    let ps ← parseList? parsePt? pts
    let q ← ptsBounds ps
    pure (withGrid g fun g =>
      fmtList fmtIdx (g.tilesFromPolygon fl tol8 q
        (fun gb => Spec.Convex.disjoint ps (gb.extentPts fl))))
  -- grid from a sample tile, observed through its public fields, a point lookup and one tile
  | ["fst", m, l, b, r, t, ny, nx, ix, iy, fx, fy, px, py, kx, ky] => do
    let fl ← parseMode? m
    let q ← parseBBox? l b r t
    let ny ← parseInt? ny; let nx ← parseInt? nx; let ix ← parseInt? ix; let iy ← parseInt? iy
    let fx ← parseBool? fx; let fy ← parseBool? fy
    let px ← parseRat? px; let py ← parseRat? py; let kx ← parseInt? kx; let ky ← parseInt? ky
    pure (fmtRes (probe fl px py kx ky) (GridSpec.fromSampleTile fl q ny nx ix iy fx fy))
  -- grid rebuilt from tile (jx,jy) of G, footprint of tile (kx,ky) in it
  | ["fstrt", m, ny, nx, rx, ry, ox, oy, fx, fy, jx, jy, kx, ky] => do
    let fl ← parseMode? m
    let g ← parseGrid? fl ny nx rx ry ox oy fx fy
    let ny' ← parseInt? ny; let nx' ← parseInt? nx
    let fx' ← parseBool? fx; let fy' ← parseBool? fy
    let jx ← parseInt? jx; let jy ← parseInt? jy; let kx ← parseInt? kx; let ky ← parseInt? ky
    pure (withGrid g fun g =>
      let q := (g.tileGeobox fl (jx, jy)).bbox fl
      fmtRes (fun g2 => fmtBBox ((g2.tileGeobox fl (kx, ky)).bbox fl))
        (GridSpec.fromSampleTile fl q ny' nx' jx jy fx' fy'))
  -- bbox query with the outcome of the CRS guard (`T` same CRS, `F` foreign CRS → AssertionError)
  | ["idxbc", m, ny, nx, rx, ry, ox, oy, fx, fy, same, l, b, r, t] => do
    let fl ← parseMode? m
    let g ← parseGrid? fl ny nx rx ry ox oy fx fy
    let same ← parseBool? same
    let q ← parseBBox? l b r t
    pure (withGrid g fun g =>
      s!"{fmtRes (fun (a, b, c, d) => s!"{a} {b} {c} {d}") (g.idxBoundsChecked fl tol8 same q)} {fmtRes (fmtList fmtIdx) (g.tilesChecked fl tol8 same q)}")
  -- `gs1 == gs2`
  | ["eq", m, ny, nx, rx, ry, ox, oy, fx, fy, ny2, nx2, rx2, ry2, ox2, oy2, fx2, fy2, crsEq] => do
    let fl ← parseMode? m
    let g ← parseGrid? fl ny nx rx ry ox oy fx fy
    let h ← parseGrid? fl ny2 nx2 rx2 ry2 ox2 oy2 fx2 fy2
    let c ← parseBool? crsEq
    pure (withGrid g fun g => withGrid h fun h => fmtBool (g.beq h c))
  | ["align", m, ny, nx, rx, ry, ox, oy, fx, fy] => do
    let fl ← parseMode? m
    let g ← parseGrid? fl ny nx rx ry ox oy fx fy
    pure (withGrid g fun g => fmtRes (fun (p : Rat × Rat) => s!"{fmtRat p.1} {fmtRat p.2}") (g.alignment fl))
  -- geojson index walk: `B l b r t` | `P [pts]` | `PB [pts] l b r t` (both arguments given)
  | "gj" :: m :: ny :: nx :: rx :: ry :: ox :: oy :: fx :: fy :: rest => do
    let fl ← parseMode? m
    let g ← parseGrid? fl ny nx rx ry ox oy fx fy
    match g with
    | .error e => pure e.toStr
    | .ok g =>
      let polyArg (pts : String) : Option (BBox × (GeoBox → Bool)) := do
        let ps ← parseList? parsePt? pts
        let q ← ptsBounds ps
        pure (q, fun gb => Spec.Convex.disjoint ps (gb.extentPts fl))
      match rest with
      | ["B", l, b, r, t] => do
        let q ← parseBBox? l b r t
        (g.geojsonIdx fl tol8 (some q) none).map (fmtList fmtIdx)
      | ["P", pts] => do
        let p ← polyArg pts
        (g.geojsonIdx fl tol8 none (some p)).map (fmtList fmtIdx)
      | ["PB", pts, l, b, r, t] => do
        let p ← polyArg pts
        let q ← parseBBox? l b r t
        (g.geojsonIdx fl tol8 (some q) (some p)).map (fmtList fmtIdx)
      | _ => none
  -- multi-part geometry: convex parts separated by `|`, `-` for the empty geometry
  | ["mpoly", m, ny, nx, rx, ry, ox, oy, fx, fy, parts] => do
    let fl ← parseMode? m
    let g ← parseGrid? fl ny nx rx ry ox oy fx fy
    let rings ← if parts = "-" then some [] else (parts.splitOn "|").mapM (parseList? parsePt?)
    let ps ← rings.mapM (fun ring => (ptsBounds ring).map (fun q =>
      ((q, fun (gb : GeoBox) => Spec.Convex.disjoint ring (gb.extentPts fl)) : BBox × (GeoBox → Bool))))
    pure (withGrid g fun g => fmtRes (fmtList fmtIdx) (g.tilesFromMulti fl tol8 ps))
  -- multi-step history over one shared geobox_cache; output: result of every step, then the cache keys
  | "hist" :: m :: ny :: nx :: rx :: ry :: ox :: oy :: fx :: fy :: steps => do
    let fl ← parseMode? m
    let g ← parseGrid? fl ny nx rx ry ox oy fx fy
    match g with
    | .error e => pure e.toStr
    | .ok g => do
      let (outs, c) ← histGo fl g steps [] []
      pure (" ".intercalate outs ++ " cache=" ++ fmtList fmtIdx ((c.map (·.1)).mergeSort keyLe))
  | ["web", m, P, z, npix, px, py, kx, ky] => do
    let fl ← parseMode? m
    let P ← parseRat? P; let z ← parseInt? z; let npix ← parseInt? npix
    let px ← parseRat? px; let py ← parseRat? py; let kx ← parseInt? kx; let ky ← parseInt? ky
    pure (fmtRes (probe fl px py kx ky) (GridSpec.webTiles fl P z npix))
  | _ => none

end OdcGeo.C14.Drv
