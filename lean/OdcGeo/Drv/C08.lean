import OdcGeo.Model.C08
import OdcGeo.Model.C08Args
import OdcGeo.Model.C02
import OdcGeo.Model.C20NonFinite
import OdcGeo.Model.C08NonFinite
import OdcGeo.Model.C08C07
import OdcGeo.Drv.C20
namespace OdcGeo.C08.Drv
open OdcGeo OdcGeo.IO OdcGeo.C08

def parsePt? (s : String) : Option (Rat × Rat) :=
  match (s.splitOn ";").mapM parseRat? with
  | some [x, y] => some (x, y)
  | _ => none

/-- `e:edge|center|floating`, `x:<x>;<y>` (an XY), `n:<v>` (a number), `s:<name>` -/
def parseAnchor? (s : String) : Option AnchorArg :=
  match s.splitOn ":" with
  | ["e", "edge"] => some (.val .edge)
  | ["e", "center"] => some (.val .center)
  | ["e", "floating"] => some (.val .floating)
  | ["x", p] => (parsePt? p).map fun q => .val (.xy q.1 q.2)
  | ["n", v] => (parseRat? v).map .num
  | ["s", "center"] => some (.name .center)
  | ["s", "centre"] => some (.name .centre)
  | ["s", "edge"] => some (.name .edge)
  | ["s", "floating"] => some (.name .floating)
  | ["s", "default"] => some (.name .default)
  | _ => none

def fmtAnchor : Anchor → String
  | .edge => "edge"
  | .center => "center"
  | .floating => "floating"
  | .xy x y => s!"xy:{fmtRat x};{fmtRat y}"

def parseShape? (s : String) : Option ShapeArg :=
  match s.splitOn ":" with
  | ["N"] => some .none
  | ["i", n] => (parseInt? n).map .int
  | ["yx", p] =>
    match (p.splitOn ";").mapM parseInt? with
    | some [ny, nx] => some (.yx ny nx)
    | _ => none
  | _ => none

def parseRes? (s : String) : Option ResArg :=
  match s.splitOn ":" with
  | ["N"] => some .none
  | ["s", r] => (parseRat? r).map .scalar
  | ["xy", p] => (parsePt? p).map fun q => .xy q.1 q.2
  | _ => none

def fmtGeoBox (g : GeoBox) : String := s!"{g.ny} {g.nx} {fmtAff g.affine}"

/-! ### public argument forms (`Model/C08Args.lean`); CRS values are natural numbers, `0` = `"epsg:4326"` -/

def fmtResA {α} (f : α → String) : ResA α → String
  | .ok a => f a
  | .error e => e.toStr

/-- `k` (unknown hashable value), `u` (unhashable value), otherwise an `AnchorArg` token -/
def parseAnchorForm? (s : String) : Option AnchorForm :=
  if s = "k" then some .badKey
  else if s = "u" then some .unhashable
  else (parseAnchor? s).map .arg

/-- `N`, `n:<q>` (number), `s2:<ny>;<nx>` (Shape2d), `xy:<x>;<y>` (XY), `q:[a,b,…]` (sequence), `o` (other) -/
def parseShapeForm? (s : String) : Option ShapeForm :=
  match s.splitOn ":" with
  | ["N"] => some .none
  | ["o"] => some .other
  | ["n", q] => (parseRat? q).map .num
  | ["s2", p] =>
    match (p.splitOn ";").mapM parseInt? with
    | some [ny, nx] => some (.shape2d ny nx)
    | _ => none
  | ["xy", p] => (parsePt? p).map fun q => .xy q.1 q.2
  | ["q", l] => (parseList? parseRat? l).map .seq
  | _ => none

/-- `N`, `n:<q>` (number), `r:<rx>;<ry>` (Resolution), `o` (other) -/
def parseResForm? (s : String) : Option ResForm :=
  match s.splitOn ":" with
  | ["N"] => some .none
  | ["o"] => some .other
  | ["n", q] => (parseRat? q).map .num
  | ["r", p] => (parsePt? p).map fun q => .res q.1 q.2
  | _ => none

/-- `t:[v,…]` (tuple / list of any length), `b:[l,b,r,t]:<crs|N>` (BoundingBox) -/
def parseRegion? (s : String) : Option (RegionForm Nat) :=
  match s.splitOn ":" with
  | ["t", l] => (parseList? parseRat? l).map .tuple
  | ["b", l, c] => do
    let vals ← parseList? parseRat? l
    let c ← parseOpt? parseNat? c
    match vals with
    | [l, b, r, t] => some (.bbox ⟨l, b, r, t⟩ c)
    | _ => none
  | _ => none

/-- `N`, `F` (falsy), `U` (a `utm…` string), `c:<n>` -/
def parseCrsForm? (s : String) : Option (CrsForm Nat) :=
  match s.splitOn ":" with
  | ["N"] => some .none
  | ["F"] => some .falsy
  | ["U"] => some .utm
  | ["c", n] => (parseNat? n).map .given
  | _ => none

def parsePolyCrs? (s : String) : Option (PolyCrsForm Nat) :=
  match s.splitOn ":" with
  | ["N"] => some .unset
  | ["c", n] => (parseNat? n).map .given
  | _ => none

def fmtGeoBoxC (g : GeoBoxC Nat) : String := s!"{fmtGeoBox g.gb} {g.crs}"

def run (args : List String) : Option String :=
  match args with
  | ["anchor", a] => do
    let a ← parseAnchor? a
    pure (fmtAnchor (normAnchor a))
  | ["bbox", l, b, r, t, tight, shape, res, anchor, tol] => do
    let l ← parseRat? l; let b ← parseRat? b; let r ← parseRat? r; let t ← parseRat? t
    let tight ← parseBool? tight; let shape ← parseShape? shape; let res ← parseRes? res
    let anchor ← parseAnchor? anchor; let tol ← parseRat? tol
    pure (fmtRes fmtGeoBox (fromBbox ⟨l, b, r, t⟩ tight shape res anchor tol))
  | ["bboxacc", l, b, r, t, tight, shape, res, anchor, tol] => do
    -- the public accessors of the result as modelled by C02: `.alignment`, `.boundingbox`
    let l ← parseRat? l; let b ← parseRat? b; let r ← parseRat? r; let t ← parseRat? t
    let tight ← parseBool? tight; let shape ← parseShape? shape; let res ← parseRes? res
    let anchor ← parseAnchor? anchor; let tol ← parseRat? tol
    pure (fmtRes (fun g =>
      let h : C02.GeoBox := ⟨g.ny, g.nx, g.affine, 1⟩
      let B := C02.boundingbox h
      let al := fmtRes (fun (p : Rat × Rat) => s!"{fmtRat p.1} {fmtRat p.2}") (C02.alignment h)
      s!"{al} | {fmtRat B.left} {fmtRat B.bottom} {fmtRat B.right} {fmtRat B.top}")
      (fromBbox ⟨l, b, r, t⟩ tight shape res anchor tol))
  | ["bboxresx", l, b, r, t, rx, ry, snap, tol] => do
    -- resolution branch with arbitrary floats (nan / inf) as region, resolution and tol; `snap` = `N` or `<sx>;<sy>`
    let l ← C20.Drv.parseXF? l; let b ← C20.Drv.parseXF? b; let r ← C20.Drv.parseXF? r; let t ← C20.Drv.parseXF? t
    let rx ← C20.Drv.parseXF? rx; let ry ← C20.Drv.parseXF? ry
    let snap ← parseOpt? parsePt? snap; let tol ← C20.Drv.parseXF? tol
    pure (match C20.NF.fromBboxResX l b r t rx ry snap tol with
      | .ok (ny, nx, ox, oy) => s!"{ny} {nx} {C20.Drv.fmtXF ox} {C20.Drv.fmtXF oy}"
      | .error e => e.toStr)
  | ["bboxshapex", l, b, r, t, ny, nx, snap, tol] => do
    -- shape-driven branch, arbitrary floats; `snap` = `N` or `<sx>;<sy>` (anchor fractions, may be non-finite)
    let l ← C20.Drv.parseXF? l; let b ← C20.Drv.parseXF? b; let r ← C20.Drv.parseXF? r; let t ← C20.Drv.parseXF? t
    let ny ← parseInt? ny; let nx ← parseInt? nx; let tol ← C20.Drv.parseXF? tol
    let snap ← parseOpt? (fun s => match (s.splitOn ";").mapM C20.Drv.parseXF? with
      | some [sx, sy] => some (sx, sy)
      | _ => none) snap
    pure (match NF.fromBboxShapeX l b r t ny nx snap tol with
      | .ok g => s!"{g.ny} {g.nx} {C20.Drv.fmtXF g.a} {C20.Drv.fmtXF g.e} {C20.Drv.fmtXF g.c} {C20.Drv.fmtXF g.f}"
      | .error e => e.toStr)
  | ["bboxnumx", l, b, r, t, q, snap, tol] => do
    let l ← C20.Drv.parseXF? l; let b ← C20.Drv.parseXF? b; let r ← C20.Drv.parseXF? r; let t ← C20.Drv.parseXF? t
    let q ← C20.Drv.parseXF? q; let tol ← C20.Drv.parseXF? tol
    let snap ← parseOpt? (fun s => match (s.splitOn ";").mapM C20.Drv.parseXF? with
      | some [sx, sy] => some (sx, sy)
      | _ => none) snap
    pure (match NF.fromBboxNumShapeX l b r t q snap tol with
      | .ok g => s!"{g.ny} {g.nx} {C20.Drv.fmtXF g.a} {C20.Drv.fmtXF g.e} {C20.Drv.fmtXF g.c} {C20.Drv.fmtXF g.f}"
      | .error e => e.toStr)
  | ["polyvia", geom, pcrs, crs, A, res, align, shape, tight, anchor, tol] => do
    -- from_geopolygon through C07's to_crs model.  geom: parts separated by `@`, rings of a part by `|`, points `x;y` by `,`
    -- (one part = Polygon, several = MultiPolygon); CRS code n is the record ⟨n, n, n, n⟩ (distinct codes compare unequal)
    let parts ← (geom.splitOn "@").mapM fun part =>
      (part.splitOn "|").mapM fun ring => (ring.splitOn ",").mapM fun pt => (parsePt? pt).map toPt
    let polys ← parts.mapM fun rings => match rings with
      | ext :: holes => some (C07.Geom.polygon ext holes)
      | [] => none
    let g : C07.Geom Rat := match polys with
      | [one] => one
      | many => .multiPolygon many
    let rec' := fun (n : Nat) => (⟨n, n, n, n⟩ : C01.CrsRec)
    let pcrs ← parseOpt? parseNat? pcrs; let crs ← parsePolyCrs? crs; let A ← parseAff? A
    let res ← parseRes? res; let align ← parseOpt? parsePt? align
    let shape ← parseShape? shape; let tight ← parseBool? tight
    let anchor ← parseAnchor? anchor; let tol ← parseRat? tol
    let crsArg : CrsArgTag := match crs with
      | .unset => .unset
      | .given c => .given (some (rec' c))
    match fromGeopolygonVia ⟨fun _ _ => 0, fun _ _ _ => 0⟩ (fun _ _ p => toPt (A.apply (ofPt p))) (fun _ => 0)
        ⟨pcrs.map rec', g⟩ crsArg res align shape tight anchor tol with
    | none => pure "EMPTY"
    | some r => pure (fmtRes (fun (q : GeoBox × C01.Tag) => s!"{fmtGeoBox q.1} {match q.2 with | some c => c.epsg | none => 0}") r)
  | ["bboxutm", l, b, r, t, A, tight, shape, res, anchor, tol] => do
    -- the utm shortcut with an affine stand-in `A` for the projection
    let l ← parseRat? l; let b ← parseRat? b; let r ← parseRat? r; let t ← parseRat? t
    let A ← parseAff? A
    let tight ← parseBool? tight; let shape ← parseShape? shape; let res ← parseRes? res
    let anchor ← parseAnchor? anchor; let tol ← parseRat? tol
    pure (fmtRes fmtGeoBox (fromBboxUtm A.apply ⟨l, b, r, t⟩ tight shape res anchor tol))
  | ["poly", pts, res, align, shape, tight, anchor, tol] => do
    let pts ← parseList? parsePt? pts
    let res ← parseRes? res; let align ← parseOpt? parsePt? align
    let shape ← parseShape? shape; let tight ← parseBool? tight
    let anchor ← parseAnchor? anchor; let tol ← parseRat? tol
    match pts with
    | [] => none
    | p :: ps => pure (fmtRes fmtGeoBox (fromGeopolygon p ps res align shape tight anchor tol))
  | ["forms", region, crs, A, ucrs, tight, shape, res, anchor, tol] => do
    -- public argument forms of from_bbox; `A` / `ucrs`: affine stand-in for the utm projection and the CRS it reports
    let region ← parseRegion? region; let crs ← parseCrsForm? crs
    let A ← parseAff? A; let ucrs ← parseNat? ucrs
    let tight ← parseBool? tight; let shape ← parseShapeForm? shape; let res ← parseResForm? res
    let anchor ← parseAnchorForm? anchor; let tol ← parseRat? tol
    pure (fmtResA fmtGeoBoxC (fromBboxCrs 0 A.apply ucrs region crs tight shape res anchor tol))
  | ["polyargs", pts, pcrs, crs, A, res, align, shape, tight, anchor, tol] => do
    let pts ← parseList? parsePt? pts
    let pcrs ← parseOpt? parseNat? pcrs; let crs ← parsePolyCrs? crs; let A ← parseAff? A
    let res ← parseRes? res; let align ← parseOpt? parsePt? align
    let shape ← parseShape? shape; let tight ← parseBool? tight
    let anchor ← parseAnchor? anchor; let tol ← parseRat? tol
    match pts with
    | [] => none
    | p :: ps => pure (fmtRes fmtGeoBoxC (fromGeopolygonArgs 0 A.apply pcrs p ps res crs align shape tight anchor tol))
  | _ => none

end OdcGeo.C08.Drv
