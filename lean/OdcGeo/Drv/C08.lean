import OdcGeo.Model.C08
namespace OdcGeo.C08.Drv
open OdcGeo OdcGeo.IO OdcGeo.C08

def parsePt? (s : String) : Option (Rat × Rat) :=
  match (s.splitOn ";").mapM parseRat? with
  | some [x, y] => some (x, y)
  | _ => none

/-- `e:edge|center|floating`, `x:<x>;<y>` (an XY), `n:<v>` (a number), `s:<name>` -/
def parseAnchor? (s : String) : Option AnchorArg :=
  match s.splitOn ":" with
  | ["e", "edge"] => some (.val .edge)
  | ["e", "center"] => some (.val .center)
  | ["e", "floating"] => some (.val .floating)
  | ["x", p] => (parsePt? p).map fun q => .val (.xy q.1 q.2)
  | ["n", v] => (parseRat? v).map .num
  | ["s", "center"] => some (.name .center)
  | ["s", "centre"] => some (.name .centre)
  | ["s", "edge"] => some (.name .edge)
  | ["s", "floating"] => some (.name .floating)
  | ["s", "default"] => some (.name .default)
  | _ => none

def fmtAnchor : Anchor → String
  | .edge => "edge"
  | .center => "center"
  | .floating => "floating"
  | .xy x y => s!"xy:{fmtRat x};{fmtRat y}"

def parseShape? (s : String) : Option ShapeArg :=
  match s.splitOn ":" with
  | ["N"] => some .none
  | ["i", n] => (parseInt? n).map .int
  | ["yx", p] =>
    match (p.splitOn ";").mapM parseInt? with
    | some [ny, nx] => some (.yx ny nx)
    | _ => none
  | _ => none

def parseRes? (s : String) : Option ResArg :=
  match s.splitOn ":" with
  | ["N"] => some .none
  | ["s", r] => (parseRat? r).map .scalar
  | ["xy", p] => (parsePt? p).map fun q => .xy q.1 q.2
  | _ => none

def fmtGeoBox (g : GeoBox) : String := s!"{g.ny} {g.nx} {fmtAff g.affine}"

def run (args : List String) : Option String :=
  match args with
  | ["anchor", a] => do
    let a ← parseAnchor? a
    pure (fmtAnchor (normAnchor a))
  | ["bbox", l, b, r, t, tight, shape, res, anchor, tol] => do
    let l ← parseRat? l; let b ← parseRat? b; let r ← parseRat? r; let t ← parseRat? t
    let tight ← parseBool? tight; let shape ← parseShape? shape; let res ← parseRes? res
    let anchor ← parseAnchor? anchor; let tol ← parseRat? tol
    pure (fmtRes fmtGeoBox (fromBbox ⟨l, b, r, t⟩ tight shape res anchor tol))
  | ["bboxutm", l, b, r, t, A, tight, shape, res, anchor, tol] => do
    -- the utm shortcut with an affine stand-in `A` for the projection
    let l ← parseRat? l; let b ← parseRat? b; let r ← parseRat? r; let t ← parseRat? t
    let A ← parseAff? A
    let tight ← parseBool? tight; let shape ← parseShape? shape; let res ← parseRes? res
    let anchor ← parseAnchor? anchor; let tol ← parseRat? tol
    pure (fmtRes fmtGeoBox (fromBboxUtm A.apply ⟨l, b, r, t⟩ tight shape res anchor tol))
  | ["poly", pts, res, align, shape, tight, anchor, tol] => do
    let pts ← parseList? parsePt? pts
    let res ← parseRes? res; let align ← parseOpt? parsePt? align
    let shape ← parseShape? shape; let tight ← parseBool? tight
    let anchor ← parseAnchor? anchor; let tol ← parseRat? tol
    match pts with
    | [] => none
    | p :: ps => pure (fmtRes fmtGeoBox (fromGeopolygon p ps res align shape tight anchor tol))
  | _ => none

end OdcGeo.C08.Drv
