import OdcGeo.Model.C08
namespace OdcGeo.C08.Drv
open OdcGeo OdcGeo.IO

def run (args : List String) : Option String :=
  match args with
  | _ => none

end OdcGeo.C08.Drv
