import OdcGeo.Model.C06
namespace OdcGeo.C06.Drv
open OdcGeo OdcGeo.IO

def run (args : List String) : Option String :=
  match args with
  | _ => none

end OdcGeo.C06.Drv
