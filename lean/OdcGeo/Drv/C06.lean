import OdcGeo.Model.C06
namespace OdcGeo.C06.Drv
open OdcGeo OdcGeo.IO OdcGeo.C06

/-- payload rule shared with the harness: byte at global stream offset `o` is `(o*7+3) % 251` -/
def payload (off n : Nat) : List Nat := (List.range n).map (fun i => ((off + i) * 7 + 3) % 251)
def hdrBytes (n : Nat) : List Nat := (List.range n).map (fun i => 252 + i % 2)
def ftrBytes (n : Nat) : List Nat := (List.range n).map (fun i => 254 + i % 2)

/-- prefix encoding, `;`-separated tokens: `n` = node, `l:3,10` = leaf with chunk sizes (`l:` empty) -/
partial def parseTree (toks : List String) (off cid : Nat) : Option (Tree Nat × List String × Nat × Nat) :=
  match toks with
  | [] => none
  | "n" :: rest => do
    let (l, rest1, off1, cid1) ← parseTree rest off cid
    let (r, rest2, off2, cid2) ← parseTree rest1 off1 cid1
    pure (.node l r, rest2, off2, cid2)
  | tok :: rest =>
    if tok.startsWith "l:" then do
      let body := (tok.drop 2).toString
      let sizes ← if body = "" then some [] else (body.splitOn ",").mapM parseNat?
      let (chunks, off', cid') := sizes.foldl (fun (acc : List (List Nat × Int) × Nat × Nat) sz =>
        (acc.1 ++ [(payload acc.2.1 sz, (acc.2.2 : Int))], acc.2.1 + sz, acc.2.2 + 1)) ([], off, cid)
      pure (.leaf chunks, rest, off', cid')
    else none

def hex2 (n : Nat) : String :=
  let d := "0123456789abcdef".toList
  String.mk [d[(n / 16) % 16]!, d[n % 16]!]

def fmtPart (p : Part Nat) : String := s!"{p.id}:" ++ String.join (p.data.map hex2)

def insertSorted (p : Part Nat) : List (Part Nat) → List (Part Nat)
  | [] => [p]
  | q :: qs => if p.id < q.id || (p.id == q.id && fmtPart p ≤ fmtPart q) then p :: q :: qs
               else q :: insertSorted p qs
def sortParts (ps : List (Part Nat)) : List (Part Nat) := ps.foldr insertSorted []

def fmtObs (o : List (Nat × Int)) : String := fmtList (fun (p : Nat × Int) => s!"{p.1}:{p.2}") o

def fmtChunk (c : Chunk Nat) : String :=
  s!"next={c.next} credits={c.credits} data={String.join (c.data.map hex2)} left={String.join (c.left.map hex2)} " ++
  s!"parts={fmtList fmtPart c.parts} obs={fmtObs c.observed} final={fmtBool c.isFinal}"

def run (args : List String) : Option String :=
  match args with
  | ["run", hasW, minWrite, minPart, maxPart, spill, wpc, hdr, ftr, tree] => do
    let hasW ← parseBool? hasW
    let minWrite ← parseNat? minWrite; let minPart ← parseNat? minPart; let maxPart ← parseNat? maxPart
    let spill ← parseNat? spill; let wpc ← parseNat? wpc
    let hdr ← parseOpt? parseNat? hdr; let ftr ← parseOpt? parseNat? ftr
    let (t, rest, _, _) ← parseTree (tree.splitOn ";") 0 0
    if rest ≠ [] then none
    let w : Option Writer := if hasW then some ⟨minWrite, minPart, maxPart⟩ else none
    let cfg : Cfg := ⟨w, spill, wpc, ftr.isNone⟩
    let mkH := hdr.map (fun n => fun (_ : List (Nat × Int)) => hdrBytes n)
    let mkF := ftr.map (fun n => fun (_ : List (Nat × Int)) => ftrBytes n)
    match C06.run cfg t mkH mkF with
    | .error e => pure e.toStr
    | .ok (out, ws, obs) =>
      match out with
      | .chunk c => pure s!"CHUNK {fmtChunk c} writes={fmtList fmtPart (sortParts ws)} seen={fmtObs obs}"
      | .written _ fin =>
        pure s!"WRITTEN writes={fmtList fmtPart (sortParts ws)} final={fmtList (fun (p : Part Nat) => toString p.id) fin} seen={fmtObs obs}"
  | ["seeds", hasW, minWrite, minPart, wpc, markFinal, nparts] => do
    let hasW ← parseBool? hasW
    let minWrite ← parseNat? minWrite; let minPart ← parseNat? minPart; let wpc ← parseNat? wpc
    let markFinal ← parseBool? markFinal
    let nparts ← parseList? parseNat? nparts
    let w : Option Writer := if hasW then some ⟨minWrite, minPart, minPart + 1000000⟩ else none
    let cfg : Cfg := ⟨w, 0, wpc, markFinal⟩
    let fmtSeed := fun (s : Seed) => s!"{s.partId}#{s.credits}/{fmtBool s.isFinal}/{s.lhsKeep}"
    pure (fmtList (fmtList fmtSeed) (mpuWriteSeeds cfg nparts))
  | _ => none

end OdcGeo.C06.Drv
