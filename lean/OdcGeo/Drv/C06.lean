import OdcGeo.Model.C06
import OdcGeo.Model.C06Dask
import OdcGeo.Model.C06Ops
import OdcGeo.Model.C06Fix
namespace OdcGeo.C06.Drv
open OdcGeo OdcGeo.IO OdcGeo.C06

/-- payload rule shared with the harness: byte at global stream offset `o` is `(o*7+3) % 251` -/
def payload (off n : Nat) : List Nat := (List.range n).map (fun i => ((off + i) * 7 + 3) % 251)
def hdrBytes (n : Nat) : List Nat := (List.range n).map (fun i => 252 + i % 2)
def ftrBytes (n : Nat) : List Nat := (List.range n).map (fun i => 254 + i % 2)

/-- prefix encoding, `;`-separated tokens: `n` = node, `l:3,10` = leaf with chunk sizes (`l:` empty) -/
partial def parseTree (toks : List String) (off cid : Nat) : Option (Tree Nat × List String × Nat × Nat) :=
  match toks with
  | [] => none
  | "n" :: rest => do
    let (l, rest1, off1, cid1) ← parseTree rest off cid
    let (r, rest2, off2, cid2) ← parseTree rest1 off1 cid1
    pure (.node l r, rest2, off2, cid2)
  | tok :: rest =>
    if tok.startsWith "l:" then do
      let body := (tok.drop 2).toString
      let sizes ← if body = "" then some [] else (body.splitOn ",").mapM parseNat?
      let (chunks, off', cid') := sizes.foldl (fun (acc : List (List Nat × Int) × Nat × Nat) sz =>
        (acc.1 ++ [(payload acc.2.1 sz, (acc.2.2 : Int))], acc.2.1 + sz, acc.2.2 + 1)) ([], off, cid)
      pure (.leaf chunks, rest, off', cid')
    else none

def hex2 (n : Nat) : String :=
  let d := "0123456789abcdef".toList
  String.mk [d[(n / 16) % 16]!, d[n % 16]!]

def fmtPart (p : Part Nat) : String := s!"{p.id}:" ++ String.join (p.data.map hex2)

def insertSorted (p : Part Nat) : List (Part Nat) → List (Part Nat)
  | [] => [p]
  | q :: qs => if p.id < q.id || (p.id == q.id && fmtPart p ≤ fmtPart q) then p :: q :: qs
               else q :: insertSorted p qs
def sortParts (ps : List (Part Nat)) : List (Part Nat) := ps.foldr insertSorted []

def fmtObs (o : List (Nat × Int)) : String := fmtList (fun (p : Nat × Int) => s!"{p.1}:{p.2}") o

def fmtChunk (c : Chunk Nat) : String :=
  s!"next={c.next} credits={c.credits} data={String.join (c.data.map hex2)} left={String.join (c.left.map hex2)} " ++
  s!"parts={fmtList fmtPart c.parts} obs={fmtObs c.observed} final={fmtBool c.isFinal}"

/-- bags `;`-separated, partitions `/`-separated, chunk sizes `,`-separated, `_` = partition without chunks;
payload offsets and chunk ids run over the whole stream -/
def parseBags (s : String) : Option (List (List (List (List Nat × Int)))) := do
  if s = "-" then return []
  let bagsSz ← (s.splitOn ";").mapM fun b =>
    (b.splitOn "/").mapM fun p => if p = "_" then some [] else (p.splitOn ",").mapM parseNat?
  let step := fun (acc : List (List Nat × Int) × Nat × Nat) (sz : Nat) =>
    (acc.1 ++ [(payload acc.2.1 sz, (acc.2.2 : Int))], acc.2.1 + sz, acc.2.2 + 1)
  let (bags, _, _) := bagsSz.foldl (fun (accB : List (List (List (List Nat × Int))) × Nat × Nat) bag =>
    let (parts, off, cid) := bag.foldl (fun (accP : List (List (List Nat × Int)) × Nat × Nat) sizes =>
      let (chunks, off', cid') := sizes.foldl step ([], accP.2.1, accP.2.2)
      (accP.1 ++ [chunks], off', cid')) ([], accB.2.1, accB.2.2)
    (accB.1 ++ [parts], off, cid)) ([], 0, 0)
  pure bags

def fmtRun (r : Res (Out Nat × List (Part Nat) × List (Nat × Int))) : String :=
  match r with
  | .error e => e.toStr
  | .ok (out, ws, obs) =>
    match out with
    | .chunk c => s!"CHUNK {fmtChunk c} writes={fmtList fmtPart (sortParts ws)} seen={fmtObs obs}"
    | .written _ fin =>
      s!"WRITTEN writes={fmtList fmtPart (sortParts ws)} final={fmtList (fun (p : Part Nat) => toString p.id) fin} seen={fmtObs obs}"

def parseTree1 (tree : String) (off cid : Nat) : Option (Tree Nat × Nat × Nat) := do
  let (t, rest, off', cid') ← parseTree (tree.splitOn ";") off cid
  if rest ≠ [] then none
  pure (t, off', cid')

def fmtIds (ps : List (Part Nat)) : String := fmtList (fun (p : Part Nat) => toString p.id) ps

def fmtPost (p : MergePost Nat) : String :=
  s!"result[{fmtChunk p.result}] writes={fmtList fmtPart p.writes} lhs[{fmtChunk p.lhsAfter}] rhs[{fmtChunk p.rhsAfter}]"

def run (args : List String) : Option String :=
  match args with
  | ["flushd", minWrite, minPart, maxPart, spill, wpc, markFinal, lp, fin, tree] => do
    -- MPUChunk.flush called directly on the root of a merge tree, with every keyword form
    let minWrite ← parseNat? minWrite; let minPart ← parseNat? minPart; let maxPart ← parseNat? maxPart
    let spill ← parseNat? spill; let wpc ← parseNat? wpc; let markFinal ← parseBool? markFinal
    let lp ← parseOpt? parseNat? lp; let fin ← parseBool? fin
    let (t, _, _) ← parseTree1 tree 0 0
    let W : Writer := ⟨minWrite, minPart, maxPart⟩
    match eval ⟨some W, spill, wpc, markFinal⟩ t.leaves t 0 with
    | .error e => pure ("EVAL-" ++ e.toStr)
    | .ok (root, ws0) =>
      let pre := s!"root[{fmtChunk root} keep={root.lhsKeep}] before={fmtList fmtPart (sortParts ws0)}"
      match flushFull W root lp fin with
      | .error e => pure s!"{pre} flush: {e.toStr}"
      | .ok r =>
        pure s!"{pre} flush: bytes={r.bytesWritten} writes={fmtList fmtPart r.writes} parts={fmtIds r.parts} finalised={fmtBool r.finalised} after[{fmtChunk r.after}]"
  | ["mwret", minWrite, minPart, maxPart, spill, wpc, markFinal, spill2, tree] => do
    -- MPUChunk.maybe_write called directly on the root of a merge tree: return value, writer call, state afterwards
    let minWrite ← parseNat? minWrite; let minPart ← parseNat? minPart; let maxPart ← parseNat? maxPart
    let spill ← parseNat? spill; let wpc ← parseNat? wpc; let markFinal ← parseBool? markFinal
    let spill2 ← parseNat? spill2
    let (t, _, _) ← parseTree1 tree 0 0
    let W : Writer := ⟨minWrite, minPart, maxPart⟩
    match eval ⟨some W, spill, wpc, markFinal⟩ t.leaves t 0 with
    | .error e => pure ("EVAL-" ++ e.toStr)
    | .ok (root, _) =>
      match maybeWriteRet W spill2 root with
      | .error e => pure e.toStr
      | .ok (c, ws, n) => pure s!"ret={n} writes={fmtList fmtPart ws} after[{fmtChunk c}]"
  | ["frhs", minWrite, minPart, maxPart, spill, wpc, markFinal, hasW, extra, tree] => do
    -- MPUChunk.flush_rhs called directly
    let minWrite ← parseNat? minWrite; let minPart ← parseNat? minPart; let maxPart ← parseNat? maxPart
    let spill ← parseNat? spill; let wpc ← parseNat? wpc; let markFinal ← parseBool? markFinal
    let hasW ← parseBool? hasW; let extra ← parseNat? extra
    let (t, _, _) ← parseTree1 tree 0 0
    let W : Writer := ⟨minWrite, minPart, maxPart⟩
    match eval ⟨some W, spill, wpc, markFinal⟩ t.leaves t 0 with
    | .error e => pure ("EVAL-" ++ e.toStr)
    | .ok (root, _) =>
      match flushRhsRet (if hasW then some W else none) root (ftrBytes extra) with
      | .error e => pure e.toStr
      | .ok (c, ws, n) => pure s!"ret={n} writes={fmtList fmtPart ws} after[{fmtChunk c}]"
  | ["fintwice", minWrite, minPart, maxPart, spill, wpc, hdr, ftr, tree] => do
    -- the finaliser task executed twice on the same root object
    let minWrite ← parseNat? minWrite; let minPart ← parseNat? minPart; let maxPart ← parseNat? maxPart
    let spill ← parseNat? spill; let wpc ← parseNat? wpc
    let hdr ← parseOpt? parseNat? hdr; let ftr ← parseOpt? parseNat? ftr
    let (t, _, _) ← parseTree1 tree 0 0
    let W : Writer := ⟨minWrite, minPart, maxPart⟩
    let mkH := hdr.map (fun n => fun (_ : List (Nat × Int)) => hdrBytes n)
    let mkF := ftr.map (fun n => fun (_ : List (Nat × Int)) => ftrBytes n)
    let fmtFP := fun (p : FinPost Nat) =>
      let fin := match p.out with | .written _ f => fmtIds f | .chunk _ => "-"
      s!"writes={fmtList fmtPart p.writes} final={fin} root[{fmtChunk p.rootAfter}]"
    match eval ⟨some W, spill, wpc, ftr.isNone⟩ t.leaves t 0 with
    | .error e => pure ("EVAL-" ++ e.toStr)
    | .ok (root, _) =>
      match finalizerTwice (some W) root mkH mkF with
      | .error e => pure ("FIRST-" ++ e.toStr)
      | .ok (p1, .error e) => pure s!"first: {fmtFP p1} second: {e.toStr}"
      | .ok (p1, .ok p2) => pure s!"first: {fmtFP p1} second: {fmtFP p2}"
  | ["rerun1", minWrite, minPart, maxPart, spill, wpc, markFinal, treeL, treeR] => do
    -- one merge task, result and writer calls only (for code that does not touch its inputs)
    let minWrite ← parseNat? minWrite; let minPart ← parseNat? minPart; let maxPart ← parseNat? maxPart
    let spill ← parseNat? spill; let wpc ← parseNat? wpc; let markFinal ← parseBool? markFinal
    let (tl, off, cid) ← parseTree1 treeL 0 0
    let (tr, _, _) ← parseTree1 treeR off cid
    let W : Writer := ⟨minWrite, minPart, maxPart⟩
    let cfg : Cfg := ⟨some W, spill, wpc, markFinal⟩
    let total := tl.leaves + tr.leaves
    match eval cfg total tl 0, eval cfg total tr tl.leaves with
    | .ok (l, _), .ok (r, _) =>
      match mergeAndSpill cfg.writer cfg.spill l r with
      | .error e => pure ("FIRST-" ++ e.toStr)
      | .ok (m, ws) => pure s!"result[{fmtChunk m}] writes={fmtList fmtPart ws}"
    | _, _ => pure "EVAL-ERR"
  | ["rerun", minWrite, minPart, maxPart, spill, wpc, markFinal, treeL, treeR] => do
    -- one merge task executed twice on the same input objects
    let minWrite ← parseNat? minWrite; let minPart ← parseNat? minPart; let maxPart ← parseNat? maxPart
    let spill ← parseNat? spill; let wpc ← parseNat? wpc; let markFinal ← parseBool? markFinal
    let (tl, off, cid) ← parseTree1 treeL 0 0
    let (tr, _, _) ← parseTree1 treeR off cid
    let W : Writer := ⟨minWrite, minPart, maxPart⟩
    let cfg : Cfg := ⟨some W, spill, wpc, markFinal⟩
    let total := tl.leaves + tr.leaves
    match eval cfg total tl 0, eval cfg total tr tl.leaves with
    | .ok (l, _), .ok (r, _) =>
      match mergeTwice cfg.writer cfg.spill l r with
      | .error e => pure ("FIRST-" ++ e.toStr)
      | .ok (p1, .error e) => pure s!"first: {fmtPost p1} second: {e.toStr}"
      | .ok (p1, .ok p2) => pure s!"first: {fmtPost p1} second: {fmtPost p2}"
    | _, _ => pure "EVAL-ERR"
  | ["tokeq", minPart, minWriteA, spillA, wpcA, finalA, treeA, minWriteB, spillB, wpcB, finalB, treeB] => do
    -- do two sections (roots of two evaluations; lhs_keep = the writer's min_write_sz of each) get the same dask token?
    let minPart ← parseNat? minPart
    let minWriteA ← parseNat? minWriteA; let spillA ← parseNat? spillA; let wpcA ← parseNat? wpcA; let finalA ← parseBool? finalA
    let minWriteB ← parseNat? minWriteB; let spillB ← parseNat? spillB; let wpcB ← parseNat? wpcB; let finalB ← parseBool? finalB
    let (ta, _, _) ← parseTree1 treeA 0 0
    let (tb, _, _) ← parseTree1 treeB 0 0
    let WA : Writer := ⟨minWriteA, minPart, minPart + 100000⟩
    let WB : Writer := ⟨minWriteB, minPart, minPart + 100000⟩
    match eval ⟨some WA, spillA, wpcA, finalA⟩ ta.leaves ta 0, eval ⟨some WB, spillB, wpcB, finalB⟩ tb.leaves tb 0 with
    | .ok (a, _), .ok (b, _) =>
      -- part receipts of the recording writer carry the part number only
      let strip := fun (c : Chunk Nat) => ({ c with parts := c.parts.map fun (p : Part Nat) => (⟨p.id, []⟩ : Part Nat) } : Chunk Nat)
      let ta := (strip a).token
      let tb := (strip b).token
      pure (fmtBool (ta.2 == tb.2 && ta.1.1 == tb.1.1 && ta.1.2.1 == tb.1.2.1 && ta.1.2.2.1 == tb.1.2.2.1 && ta.1.2.2.2.1 == tb.1.2.2.2.1 &&
        ta.1.2.2.2.2.1 == tb.1.2.2.2.2.1 && ta.1.2.2.2.2.2.1 == tb.1.2.2.2.2.2.1 && ta.1.2.2.2.2.2.2 == tb.1.2.2.2.2.2.2))
    | _, _ => pure "EVAL-ERR"
  | ["runR", hasW, minWrite, minPart, maxPart, spill, wpc, hdr, ftr, tree] => do
    -- `run` for a tree whose maybe_write asserts the part number range (branch fix3-C06)
    let hasW ← parseBool? hasW
    let minWrite ← parseNat? minWrite; let minPart ← parseNat? minPart; let maxPart ← parseNat? maxPart
    let spill ← parseNat? spill; let wpc ← parseNat? wpc
    let hdr ← parseOpt? parseNat? hdr; let ftr ← parseOpt? parseNat? ftr
    let (t, rest, _, _) ← parseTree (tree.splitOn ";") 0 0
    if rest ≠ [] then none
    let w : Option Writer := if hasW then some ⟨minWrite, minPart, maxPart⟩ else none
    let mkH := hdr.map (fun n => fun (_ : List (Nat × Int)) => hdrBytes n)
    let mkF := ftr.map (fun n => fun (_ : List (Nat × Int)) => ftrBytes n)
    pure (fmtRun (runR ⟨w, spill, wpc, ftr.isNone⟩ t mkH mkF))
  | ["mpuwR", hasW, minWrite, minPart, maxPart, spill, wpc, hdr, ftr, bags] => do
    let hasW ← parseBool? hasW
    let minWrite ← parseNat? minWrite; let minPart ← parseNat? minPart; let maxPart ← parseNat? maxPart
    let spill ← parseNat? spill; let wpc ← parseNat? wpc
    let hdr ← parseOpt? parseNat? hdr; let ftr ← parseOpt? parseNat? ftr
    let bags ← parseBags bags
    let w : Option Writer := if hasW then some ⟨minWrite, minPart, maxPart⟩ else none
    let mkH := hdr.map (fun n => fun (_ : List (Nat × Int)) => hdrBytes n)
    let mkF := ftr.map (fun n => fun (_ : List (Nat × Int)) => ftrBytes n)
    match mpuWriteR w spill wpc bags mkH mkF with
    | none => pure "NONE"
    | some r => pure (fmtRun r)
  | ["shape", split, nparts] => do
    -- the merge tree `from_dask_bag(split_every=split)` per bag + collate builds for bags with these partition counts
    let split ← parseNat? split
    let nparts ← parseList? parseNat? nparts
    let bags : List (List (List (List Nat × Int))) := nparts.map fun n => List.replicate n [([], 0)]
    match mpuWriteTree split bags with
    | none => pure "NONE"
    | some t => pure t.skel
  | ["mpuw", hasW, minWrite, minPart, maxPart, spill, wpc, hdr, ftr, bags] => do
    -- the public entry point from its bags: tree derived in the model (split_every = 4)
    let hasW ← parseBool? hasW
    let minWrite ← parseNat? minWrite; let minPart ← parseNat? minPart; let maxPart ← parseNat? maxPart
    let spill ← parseNat? spill; let wpc ← parseNat? wpc
    let hdr ← parseOpt? parseNat? hdr; let ftr ← parseOpt? parseNat? ftr
    let bags ← parseBags bags
    let w : Option Writer := if hasW then some ⟨minWrite, minPart, maxPart⟩ else none
    let mkH := hdr.map (fun n => fun (_ : List (Nat × Int)) => hdrBytes n)
    let mkF := ftr.map (fun n => fun (_ : List (Nat × Int)) => ftrBytes n)
    match mpuWrite w spill wpc bags mkH mkF with
    | none => pure "NONE"
    | some r => pure (fmtRun r)
  | ["run", hasW, minWrite, minPart, maxPart, spill, wpc, hdr, ftr, tree] => do
    let hasW ← parseBool? hasW
    let minWrite ← parseNat? minWrite; let minPart ← parseNat? minPart; let maxPart ← parseNat? maxPart
    let spill ← parseNat? spill; let wpc ← parseNat? wpc
    let hdr ← parseOpt? parseNat? hdr; let ftr ← parseOpt? parseNat? ftr
    let (t, rest, _, _) ← parseTree (tree.splitOn ";") 0 0
    if rest ≠ [] then none
    let w : Option Writer := if hasW then some ⟨minWrite, minPart, maxPart⟩ else none
    let cfg : Cfg := ⟨w, spill, wpc, ftr.isNone⟩
    let mkH := hdr.map (fun n => fun (_ : List (Nat × Int)) => hdrBytes n)
    let mkF := ftr.map (fun n => fun (_ : List (Nat × Int)) => ftrBytes n)
    match C06.run cfg t mkH mkF with
    | .error e => pure e.toStr
    | .ok (out, ws, obs) =>
      match out with
      | .chunk c => pure s!"CHUNK {fmtChunk c} writes={fmtList fmtPart (sortParts ws)} seen={fmtObs obs}"
      | .written _ fin =>
        pure s!"WRITTEN writes={fmtList fmtPart (sortParts ws)} final={fmtList (fun (p : Part Nat) => toString p.id) fin} seen={fmtObs obs}"
  | ["seeds", hasW, minWrite, minPart, wpc, markFinal, nparts] => do
    let hasW ← parseBool? hasW
    let minWrite ← parseNat? minWrite; let minPart ← parseNat? minPart; let wpc ← parseNat? wpc
    let markFinal ← parseBool? markFinal
    let nparts ← parseList? parseNat? nparts
    let w : Option Writer := if hasW then some ⟨minWrite, minPart, minPart + 1000000⟩ else none
    let cfg : Cfg := ⟨w, 0, wpc, markFinal⟩
    let fmtSeed := fun (s : Seed) => s!"{s.partId}#{s.credits}/{fmtBool s.isFinal}/{s.lhsKeep}"
    pure (fmtList (fmtList fmtSeed) (mpuWriteSeeds cfg nparts))
  | _ => none

end OdcGeo.C06.Drv
