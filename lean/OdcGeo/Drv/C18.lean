import OdcGeo.Model.C18
namespace OdcGeo.C18.Drv
open OdcGeo OdcGeo.IO

def run (args : List String) : Option String :=
  match args with
  | _ => none

end OdcGeo.C18.Drv
