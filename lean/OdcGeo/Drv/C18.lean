import OdcGeo.Model.C18
namespace OdcGeo.C18.Drv
open OdcGeo OdcGeo.IO OdcGeo.C18

/-- `w<part>` or `f`, optionally followed by `!c` / `!u`: the thread's create call, resp. its
upload_part / complete call, raises the injected transient error -/
def parseKindF? (s0 : String) : Option (Kind × Bool × Bool) :=
  let (s, fc, fu) :=
    if s0.endsWith "!c" then ((s0.dropEnd 2).toString, true, false)
    else if s0.endsWith "!u" then ((s0.dropEnd 2).toString, false, true)
    else (s0, false, false)
  let k : Option Kind :=
    if s = "f" then some .fin
    else if s.startsWith "w" then ((s.drop 1).toString.toNat?).map Kind.write
    else none
  k.map (fun k => (k, fc, fu))

def parseKind? (s : String) : Option Kind := (parseKindF? s).map (·.1)

def fmtId (i : Nat) : String := if i = 0 then "\"\"" else s!"id{i}"

def fmtCall : Call → String
  | .create i => s!"create={fmtId i}"
  | .upload p i => s!"upload:{p}={fmtId i}"
  | .complete i => s!"complete={fmtId i}"

def kindOf (ks : List Kind) (t : Nat) : Kind := ks.getD t (.write 0)

/-- fold the schedule, collecting the label of every scheduled step -/
def traceLocal (cfg : Local.Cfg) : Local.State → List Nat → List String → Local.State × List String
  | s, [], acc => (s, acc.reverse)
  | s, t :: rest, acc => traceLocal cfg (Local.step cfg s t) rest (s!"{t}:{Local.label cfg s t}" :: acc)

def fmtLocalOutcome : Local.PC → String
  | .done => "ok"
  | .failed => "AssertionError"
  | .faulted => "TransientError"
  | _ => "running"

def runLocal (fixed : Bool) (kfs : List (Kind × Bool × Bool)) (sched : List Nat) (preset : Bool := false) : String :=
  let ks := kfs.map (·.1)
  let cfg : Local.Cfg := { kind := kindOf ks, recheck := fixed,
                           faultCreate := fun t => (kfs.getD t (.write 0, false, false)).2.1,
                           faultCall := fun t => (kfs.getD t (.write 0, false, false)).2.2 }
  let s0 := if preset then Local.initWithLock 1000 else Local.init
  let (s, labels) := traceLocal cfg s0 sched []
  let outs := (List.range ks.length).map (fun t => fmtLocalOutcome (s.pc t))
  let lock := match s.held with | none => "free" | some h => toString h
  s!"{",".intercalate labels} ; {",".intercalate (s.calls.reverse.map fmtCall)} ; uid={fmtId s.uploadId} ; {",".intercalate outs} ; lock={lock}"

def traceDist (cfg : Dist.Cfg) : Dist.State → List Nat → List String → Dist.State × List String
  | s, [], acc => (s, acc.reverse)
  | s, t :: rest, acc => traceDist cfg (Dist.step cfg s t) rest (s!"{t}:{Dist.label cfg s t}" :: acc)

def fmtDistOutcome : Dist.PC → String
  | .done => "ok"
  | .failed => "AssertionError"
  | .faulted => "TransientError"
  | _ => "running"

def runDist (kfs : List (Kind × Bool × Bool)) (ws : List Nat) (sched : List Nat) (leftover : Option Nat := none) : String :=
  let ks := kfs.map (·.1)
  let cfg : Dist.Cfg := { kind := kindOf ks, worker := fun t => ws.getD t 0,
                          faultCreate := fun t => (kfs.getD t (.write 0, false, false)).2.1,
                          faultCall := fun t => (kfs.getD t (.write 0, false, false)).2.2 }
  let (s, labels) := traceDist cfg (Dist.initAfterPrep leftover) sched []
  let outs := (List.range ks.length).map (fun t => fmtDistOutcome (s.pc t))
  let nw := (ws.foldl max 0) + 1
  let wids := (List.range nw).map (fun w => fmtId (s.wid w))
  let lock := match s.lock with | none => "free" | some h => toString h
  let var := match s.var with | none => "N" | some i => fmtId i
  s!"{",".intercalate labels} ; {",".intercalate (s.calls.reverse.map fmtCall)} ; uid={",".intercalate wids} var={var} ; {",".intercalate outs} ; lock={lock}"

def traceDistN (cfg : DistN.Cfg) : DistN.State → List Nat → List String → DistN.State × List String
  | s, [], acc => (s, acc.reverse)
  | s, t :: rest, acc => traceDistN cfg (DistN.step cfg s t) rest (s!"{t}:{DistN.label cfg s t}" :: acc)

/-- names are given per worker; the printed variable / lock are those of worker 0 -/
def runDistN (ks : List Kind) (ws vn ln : List Nat) (sched : List Nat) : String :=
  let cfg : DistN.Cfg := { kind := kindOf ks, worker := fun t => ws.getD t 0,
                           varName := fun w => vn.getD w 0, lockName := fun w => ln.getD w 0 }
  let (s, labels) := traceDistN cfg DistN.init sched []
  let outs := (List.range ks.length).map (fun t => fmtDistOutcome (s.pc t))
  let nw := (ws.foldl max 0) + 1
  let wids := (List.range nw).map (fun w => fmtId (s.wid w))
  let holders := (List.range nw).filterMap (fun w => s.locks (cfg.lockName w))
  let lock := match holders with | [] => "free" | h :: _ => toString h
  let vals := (List.range nw).filterMap (fun w => s.vars (cfg.varName w))
  let var := match vals.reverse with | [] => "N" | i :: _ => fmtId i
  s!"{",".intercalate labels} ; {",".intercalate (s.calls.reverse.map fmtCall)} ; uid={",".intercalate wids} var={var} ; {",".intercalate outs} ; lock={lock}"

def parseSeqOp? (s : String) : Option Seq.Op :=
  if s = "w" then some .write
  else if s = "f" then some .fin
  else if s = "ca" || s = "cA" then some .cancelAll
  else if s = "cc" then some .cancelCur
  else if s.startsWith "c" then ((s.drop 1).toString.toNat?).map Seq.Op.cancelId
  else none

def fmtSCall : Seq.SCall → String
  | .create i => s!"create={fmtId i}"
  | .upload p i => s!"upload:{p}={fmtId i}"
  | .complete i => s!"complete={fmtId i}"
  | .list => "list"
  | .abort i => s!"abort={fmtId i}"

def insertNat (x : Nat) : List Nat → List Nat
  | [] => [x]
  | y :: ys => if x ≤ y then x :: y :: ys else y :: insertNat x ys

def runSeq (ops : List Seq.Op) : String :=
  let (s, calls, oks) := Seq.run {} ops
  let srt := fun (l : List Nat) => fmtList fmtId (l.foldr insertNat [])
  let res := oks.map (fun b => if b then "ok" else "NoSuchUpload")
  s!"{",".intercalate res} ; {",".intercalate (calls.map fmtSCall)} ; uid={fmtId s.uploadId} ; active={srt s.active} ; completed={srt s.completed} ; aborted={srt s.aborted}"

def parseBytes (s : String) : Bytes := s.toList.map Char.toNat

def fmtBytes (b : Bytes) : String := String.ofList (b.map Char.ofNat)

/-- `<part>:<letters>` -/
def parseWrite? (s : String) : Option (Nat × Bytes) :=
  match s.splitOn ":" with
  | [p, d] => (p.toNat?).map (fun p => (p, parseBytes d))
  | _ => none

/-- insertion sort by part number (output canonicalisation only) -/
def insertPart (x : Nat × Bytes) : List (Nat × Bytes) → List (Nat × Bytes)
  | [] => [x]
  | y :: ys => if x.1 ≤ y.1 then x :: y :: ys else y :: insertPart x ys

def sortParts (l : List (Nat × Bytes)) : List (Nat × Bytes) := l.foldr insertPart []

def runSink (fixed : Bool) (ws : List (Nat × Bytes)) (ps : List Nat) (keep : Bool) : String :=
  let s0 := ws.foldl Sink.write {}
  let (s, e) := Sink.finalise fixed s0 ps keep
  let err := match e with | none => "ok" | some e => e.toStr
  let dst := match s.dst with | none => "N" | some b => "=" ++ fmtBytes b
  let parts := fmtList (fun (p : Nat × Bytes) => s!"{p.1}:{fmtBytes p.2}") (sortParts s.parts)
  s!"{err} ; dst{dst} ; parts={parts} ; dir={fmtBool s.dirExists}"

/-- `dir|name|base` (`N` = no parts_base) -/
def parseSinkCfg? (s : String) : Option SinkCfg :=
  match s.splitOn "|" with
  | [d, n, b] => some { dir := d, name := n, base := if b = "N" then none else some b }
  | _ => none

/-- `i:w:<part>:<letters>` or `i:f:<T|F>:<p1.p2...>` -/
def parseSinkOp? (s : String) : Option (Nat × SinkOp) :=
  match s.splitOn ":" with
  | [i, "w", p, d] => do
    let i ← i.toNat?; let p ← p.toNat?
    pure (i, .write (p, parseBytes d))
  | [i, "f", k, ps] => do
    let i ← i.toNat?; let k ← parseBool? k
    let ps ← if ps = "" then some [] else (ps.splitOn ".").mapM (·.toNat?)
    pure (i, .finalise ps k)
  | _ => none

def fmtView (s : Sink) : String :=
  let dst := match s.dst with | none => "N" | some b => "=" ++ fmtBytes b
  let parts := fmtList (fun (p : Nat × Bytes) => s!"{p.1}:{fmtBytes p.2}") (sortParts s.parts)
  s!"dst{dst} ; parts={parts} ; dir={fmtBool s.dirExists}"

def runMSink (cfgs : List SinkCfg) (ops : List (Nat × SinkOp)) : String :=
  let (fs, errs) := FS.run cfgs {} ops
  let es := errs.map (fun e => match e with | none => "ok" | some e => e.toStr)
  let views := cfgs.map (fun c => fmtView (fs.view c))
  s!"{",".intercalate es} | {" | ".intercalate views}"

def insertStr (x : String) : List String → List String
  | [] => [x]
  | y :: ys => if x ≤ y then x :: y :: ys else y :: insertStr x ys

def run (args : List String) : Option String :=
  match args with
  | ["local", fixed, ks, sched] => do
    let fixed ← parseBool? fixed
    let ks ← parseList? parseKindF? ks
    let sched ← parseList? parseNat? sched
    pure (runLocal fixed ks sched)
  | ["local", fixed, ks, sched, "P"] => do
    let fixed ← parseBool? fixed
    let ks ← parseList? parseKindF? ks
    let sched ← parseList? parseNat? sched
    pure (runLocal fixed ks sched true)
  | ["msink", cfgs, ops] => do
    let cfgs ← parseList? parseSinkCfg? cfgs
    let ops ← parseList? parseSinkOp? ops
    pure (runMSink cfgs ops)
  | ["parseurl", url] =>
    let r := s3ParseUrl url
    pure s!"{r.1} {r.2}"
  | ["parseurl"] => pure " "
  | ["mpuurl", b, k] => pure (mpuUrl b k)
  | ["tokens", b, k, uid] =>
    let uid := if uid = "-" then "" else uid
    pure s!"{fmtList id (mpuToken b k uid)} {fmtList id (writerToken b k uid)}"
  | ["sinktoken", c] => do
    let c ← parseSinkCfg? c
    pure (fmtList id (sinkToken c))
  | ["seq", ops] => do
    let ops ← parseList? parseSeqOp? ops
    pure (runSeq ops)
  | ["distn", ks, ws, vn, ln, sched] => do
    let ks ← parseList? parseKind? ks
    let ws ← parseList? parseNat? ws
    let vn ← parseList? parseNat? vn
    let ln ← parseList? parseNat? ln
    let sched ← parseList? parseNat? sched
    pure (runDistN ks ws vn ln sched)
  | ["dist", ks, ws, sched, left] => do
    let ks ← parseList? parseKindF? ks
    let ws ← parseList? parseNat? ws
    let sched ← parseList? parseNat? sched
    let left ← if left = "S" then some (some 99) else if left = "N" then some none else none
    pure (runDist ks ws sched left)
  | ["dist", ks, ws, sched] => do
    let ks ← parseList? parseKindF? ks
    let ws ← parseList? parseNat? ws
    let sched ← parseList? parseNat? sched
    pure (runDist ks ws sched)
  | ["sink", fixed, ws, ps, keep] => do
    let fixed ← parseBool? fixed
    let ws ← parseList? parseWrite? ws
    let ps ← parseList? parseNat? ps
    let keep ← parseBool? keep
    pure (runSink fixed ws ps keep)
  | ["path", parent, name, base, part] => do
    let base ← parseOpt? some base
    let part ← parseNat? part
    pure (partPath parent name base part)
  | ["limits", "sink", fixed, a, b, c, d] => do
    let fixed ← parseBool? fixed
    let a ← parseOpt? parseInt? a; let b ← parseOpt? parseInt? b
    let c ← parseOpt? parseInt? c; let d ← parseOpt? parseInt? d
    let kw : LimitKw := { minWriteSz := a, maxWriteSz := b, minPart := c, maxPart := d }
    pure (fmtList (fun x => s!"{x.name}={sinkLimit fixed kw x}") Acc.all)
  | ["limits", "s3"] =>
    pure (fmtList (fun x => s!"{x.name}={s3Limit x}") Acc.all)
  | ["accessors"] =>
    pure (fmtList id ((Acc.all.map Acc.name).foldr insertStr []))
  | _ => none

end OdcGeo.C18.Drv
