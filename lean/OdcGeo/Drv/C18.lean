import OdcGeo.Model.C18Up
namespace OdcGeo.C18.Drv
open OdcGeo OdcGeo.IO OdcGeo.C18

/-- `w<part>` or `f`, optionally followed by `!c` / `!u`: the thread's create call, resp. its
upload_part / complete call, raises the injected transient error -/
def parseKindF? (s0 : String) : Option (Kind × Bool × Bool) :=
  let (s, fc, fu) :=
    if s0.endsWith "!c" then ((s0.dropEnd 2).toString, true, false)
    else if s0.endsWith "!u" then ((s0.dropEnd 2).toString, false, true)
    else (s0, false, false)
  let k : Option Kind :=
    if s = "f" then some .fin
    else if s.startsWith "w" then ((s.drop 1).toString.toNat?).map Kind.write
    else none
  k.map (fun k => (k, fc, fu))

/-- cluster variant: additionally `!g` (the thread's first `Variable.get` times out and is swallowed by
`_safe_get`), `!G` (its second one, under the lock), `!gG` (both) -/
def parseKindG? (s0 : String) : Option ((Kind × Bool × Bool) × Bool × Bool) :=
  if s0.endsWith "!gG" then (parseKindF? (s0.dropEnd 3).toString).map (fun k => (k, true, true))
  else if s0.endsWith "!g" then (parseKindF? (s0.dropEnd 2).toString).map (fun k => (k, true, false))
  else if s0.endsWith "!G" then (parseKindF? (s0.dropEnd 2).toString).map (fun k => (k, false, true))
  else (parseKindF? s0).map (fun k => (k, false, false))

/-- crash points, written last: `!x` - the thread dies right after its `upload_part` / `complete` call was carried
out; `!X` - right after its `create_multipart_upload` was carried out (inside the publication window) -/
def parseKindK? (s0 : String) : Option (((Kind × Bool × Bool) × Bool × Bool) × Bool × Bool) :=
  if s0.endsWith "!x" then (parseKindG? (s0.dropEnd 2).toString).map (fun k => (k, true, false))
  else if s0.endsWith "!X" then (parseKindG? (s0.dropEnd 2).toString).map (fun k => (k, false, true))
  else (parseKindG? s0).map (fun k => (k, false, false))

def parseKind? (s : String) : Option Kind := (parseKindF? s).map (·.1)

def fmtId (i : Nat) : String := if i = 0 then "\"\"" else s!"id{i}"

def fmtCall : Call → String
  | .create i => s!"create={fmtId i}"
  | .upload p i => s!"upload:{p}={fmtId i}"
  | .complete i => s!"complete={fmtId i}"

def kindOf (ks : List Kind) (t : Nat) : Kind := ks.getD t (.write 0)

/-- operations on external collaborators (storage client, Variable, Lock) - what a macro trace shows -/
def extLabels : List String := ["acq", "rel", "create", "upload", "complete", "vget", "vset", "vdel"]

/-- run thread-local: keep stepping while the next operation is not one the scheduler switches at -/
def macroGo {σ : Type} (S : List String) (step : σ → σ) (label : σ → String) : Nat → σ → List String → σ × List String
  | 0, s, acc => (s, acc)
  | n + 1, s, acc =>
    let l := label s
    if S.contains l || l == "-" || l == "acq!" then (s, acc)
    else macroGo S step label n (step s) (if extLabels.contains l then acc ++ [l] else acc)

/-- One scheduler step when context switches happen only at the operations in `S` (all external): the operation
the thread is parked at plus everything up to its next operation in `S`.  Printed: the external operations
performed (`~` = none) - internal steps (reads / writes of uploadId, private state, get_client) are not shown, so
any number of them is the same trace. -/
def macroStep {σ : Type} (S : List String) (step : σ → Nat → σ) (label : σ → Nat → String) (s : σ) (t : Nat) : σ × String :=
  let l0 := label s t
  if l0 == "-" || l0 == "acq!" then (s, s!"{t}:{l0}")
  else
    let r := macroGo S (fun s => step s t) (fun s => label s t) 40 (step s t) (if extLabels.contains l0 then [l0] else [])
    (r.1, s!"{t}:{if r.2.isEmpty then "~" else "+".intercalate r.2}")

def traceGen {σ : Type} (m : Option (List String)) (step : σ → Nat → σ) (label : σ → Nat → String) :
    σ → List Nat → List String → σ × List String
  | s, [], acc => (s, acc.reverse)
  | s, t :: rest, acc =>
    match m with
    | none => traceGen m step label (step s t) rest (s!"{t}:{label s t}" :: acc)
    | some S =>
      let r := macroStep S step label s t
      traceGen m step label r.1 rest (r.2 :: acc)

/-- fold the schedule, collecting the label of every scheduled step -/
def traceLocal (cfg : Local.Cfg) : Local.State → List Nat → List String → Local.State × List String
  | s, [], acc => (s, acc.reverse)
  | s, t :: rest, acc => traceLocal cfg (Local.step cfg s t) rest (s!"{t}:{Local.label cfg s t}" :: acc)

def fmtLocalOutcome : Local.PC → String
  | .done => "ok"
  | .failed => "AssertionError"
  | .faulted => "TransientError"
  | _ => "running"

def runLocal (fixed : Bool) (kks : List (((Kind × Bool × Bool) × Bool × Bool) × Bool × Bool)) (sched : List Nat)
    (preset : Bool := false) (m : Option (List String) := none) : String :=
  let kfs := kks.map (·.1.1)
  let ks := kfs.map (·.1)
  let dfltK : ((Kind × Bool × Bool) × Bool × Bool) × Bool × Bool := (((.write 0, false, false), false, false), false, false)
  let cfg : Local.Cfg := { kind := kindOf ks, recheck := fixed,
                           faultCreate := fun t => (kfs.getD t (.write 0, false, false)).2.1,
                           faultCall := fun t => (kfs.getD t (.write 0, false, false)).2.2,
                           crashCall := fun t => (kks.getD t dfltK).2.1 }
  let crashC := fun t => (kks.getD t dfltK).2.2
  let killed := fun t => (kks.getD t dfltK).2.1 || (kks.getD t dfltK).2.2
  let s0 := if preset then Local.initWithLock 1000 else Local.init
  let (s, labels) := traceGen m (Local.stepCrashC crashC cfg) (Local.label cfg) s0 sched []
  let outs := (List.range ks.length).map (fun t =>
    if s.pc t == .faulted && killed t then "Killed" else fmtLocalOutcome (s.pc t))
  let lock := match s.held with | none => "free" | some h => toString h
  s!"{",".intercalate labels} ; {",".intercalate (s.calls.reverse.map fmtCall)} ; uid={fmtId s.uploadId} ; {",".intercalate outs} ; lock={lock}"

def traceDist (spur2 : Nat → Bool) (cfg : Dist.Cfg) : Dist.State → List Nat → List String → Dist.State × List String
  | s, [], acc => (s, acc.reverse)
  | s, t :: rest, acc =>
    traceDist spur2 cfg (Dist.stepSpur2 spur2 cfg s t) rest (s!"{t}:{Dist.label cfg s t}" :: acc)

def fmtDistOutcome : Dist.PC → String
  | .done => "ok"
  | .failed => "AssertionError"
  | .faulted => "TransientError"
  | _ => "running"

def runDist (kks : List (((Kind × Bool × Bool) × Bool × Bool) × Bool × Bool)) (ws : List Nat) (sched : List Nat)
    (leftover : Option Nat := none) (m : Option (List String) := none) : String :=
  let kgs := kks.map (·.1)
  let dfltK : ((Kind × Bool × Bool) × Bool × Bool) × Bool × Bool := (((.write 0, false, false), false, false), false, false)
  let crashC := fun t => (kks.getD t dfltK).2.2
  let killed := fun t => (kks.getD t dfltK).2.1 || (kks.getD t dfltK).2.2
  let kfs := kgs.map (·.1)
  let ks := kfs.map (·.1)
  let dflt : (Kind × Bool × Bool) × Bool × Bool := ((.write 0, false, false), false, false)
  let cfg : Dist.Cfg := { kind := kindOf ks, worker := fun t => ws.getD t 0,
                          faultCreate := fun t => (kfs.getD t (.write 0, false, false)).2.1,
                          faultCall := fun t => (kfs.getD t (.write 0, false, false)).2.2,
                          spurGet1 := fun t => (kgs.getD t dflt).2.1,
                          crashCall := fun t => (kks.getD t dfltK).2.1 }
  let (s, labels) := traceGen m (Dist.stepFx (fun t => (kgs.getD t dflt).2.2) crashC cfg) (Dist.label cfg)
    (Dist.initAfterPrep leftover) sched []
  let outs := (List.range ks.length).map (fun t =>
    if s.pc t == .faulted && killed t then "Killed" else fmtDistOutcome (s.pc t))
  let nw := (ws.foldl max 0) + 1
  let wids := (List.range nw).map (fun w => fmtId (s.wid w))
  let lock := match s.lock with | none => "free" | some h => toString h
  let var := match s.var with | none => "N" | some i => fmtId i
  s!"{",".intercalate labels} ; {",".intercalate (s.calls.reverse.map fmtCall)} ; uid={",".intercalate wids} var={var} ; {",".intercalate outs} ; lock={lock}"

def traceDistN (cfg : DistN.Cfg) : DistN.State → List Nat → List String → DistN.State × List String
  | s, [], acc => (s, acc.reverse)
  | s, t :: rest, acc => traceDistN cfg (DistN.step cfg s t) rest (s!"{t}:{DistN.label cfg s t}" :: acc)

/-- names are given per worker; the printed variable / lock are those of worker 0 -/
def runDistN (ks : List Kind) (ws vn ln : List Nat) (sched : List Nat) (m : Option (List String) := none) : String :=
  let cfg : DistN.Cfg := { kind := kindOf ks, worker := fun t => ws.getD t 0,
                           varName := fun w => vn.getD w 0, lockName := fun w => ln.getD w 0 }
  let (s, labels) := traceGen m (DistN.step cfg) (DistN.label cfg) DistN.init sched []
  let outs := (List.range ks.length).map (fun t => fmtDistOutcome (s.pc t))
  let nw := (ws.foldl max 0) + 1
  let wids := (List.range nw).map (fun w => fmtId (s.wid w))
  let holders := (List.range nw).filterMap (fun w => s.locks (cfg.lockName w))
  let lock := match holders with | [] => "free" | h :: _ => toString h
  let vals := (List.range nw).filterMap (fun w => s.vars (cfg.varName w))
  let var := match vals.reverse with | [] => "N" | i :: _ => fmtId i
  s!"{",".intercalate labels} ; {",".intercalate (s.calls.reverse.map fmtCall)} ; uid={",".intercalate wids} var={var} ; {",".intercalate outs} ; lock={lock}"

def insertNat (x : Nat) : List Nat → List Nat
  | [] => [x]
  | y :: ys => if x ≤ y then x :: y :: ys else y :: insertNat x ys

/-- several objects at once (each with its own names): the shared variables are printed per distinct name -/
def runDistObj (ks : List Kind) (ws vn ln : List Nat) (sched : List Nat) (m : Option (List String) := none) : String :=
  let cfg : DistN.Cfg := { kind := kindOf ks, worker := fun t => ws.getD t 0,
                           varName := fun w => vn.getD w 0, lockName := fun w => ln.getD w 0 }
  let (s, labels) := traceGen m (DistN.step cfg) (DistN.label cfg) DistN.init sched []
  let outs := (List.range ks.length).map (fun t => fmtDistOutcome (s.pc t))
  let wids := (List.range vn.length).map (fun w => fmtId (s.wid w))
  let holders := (List.range vn.length).filterMap (fun w => s.locks (cfg.lockName w))
  let lock := match holders with | [] => "free" | h :: _ => toString h
  let names := (vn.foldr insertNat []).eraseDups
  let vars := names.map (fun n => match s.vars n with | none => "N" | some i => fmtId i)
  s!"{",".intercalate labels} ; {",".intercalate (s.calls.reverse.map fmtCall)} ; uid={",".intercalate wids} var={",".intercalate vars} ; {",".intercalate outs} ; lock={lock}"

/-- `c<t>` = thread `t` dies where it is parked; `<t>` = one scheduler step (context switches at external operations) -/
def parseEv? (s : String) : Option (Bool × Nat) :=
  if s.startsWith "c" then ((s.drop 1).toString.toNat?).map (fun t => (true, t)) else (s.toNat?).map (fun t => (false, t))

def traceEv {σ : Type} (step : σ → Nat → σ) (label : σ → Nat → String) (crash : σ → Nat → σ) :
    σ → List (Bool × Nat) → List String → σ × List String
  | s, [], acc => (s, acc.reverse)
  | s, (true, t) :: rest, acc =>
    -- a thread that has already returned or raised cannot die any more
    traceEv step label crash (if label s t == "-" then s else crash s t) rest (s!"{t}:crash" :: acc)
  | s, (false, t) :: rest, acc =>
    let r := macroStep extLabels step label s t
    traceEv step label crash r.1 rest (r.2 :: acc)

def runLocalEv (ks : List Kind) (evs : List (Bool × Nat)) : String :=
  let cfg : Local.Cfg := { kind := kindOf ks }
  let (s, labels) := traceEv (Local.step cfg) (Local.label cfg) Local.crash Local.init evs []
  let crashed := fun t => evs.any (fun e => e.1 && e.2 == t)
  let outs := (List.range ks.length).map (fun t =>
    if s.pc t == .faulted && crashed t then "Killed" else fmtLocalOutcome (s.pc t))
  let lock := match s.held with | none => "free" | some h => toString h
  s!"{",".intercalate labels} ; {",".intercalate (s.calls.reverse.map fmtCall)} ; uid={fmtId s.uploadId} ; {",".intercalate outs} ; lock={lock}"

def runDistEv (ks : List Kind) (ws : List Nat) (evs : List (Bool × Nat)) : String :=
  let cfg : Dist.Cfg := { kind := kindOf ks, worker := fun t => ws.getD t 0 }
  let (s, labels) := traceEv (Dist.step cfg) (Dist.label cfg) Dist.crash Dist.init evs []
  let crashed := fun t => evs.any (fun e => e.1 && e.2 == t)
  let outs := (List.range ks.length).map (fun t =>
    if s.pc t == .faulted && crashed t then "Killed" else fmtDistOutcome (s.pc t))
  let nw := (ws.foldl max 0) + 1
  let wids := (List.range nw).map (fun w => fmtId (s.wid w))
  let lock := match s.lock with | none => "free" | some h => toString h
  let var := match s.var with | none => "N" | some i => fmtId i
  s!"{",".intercalate labels} ; {",".intercalate (s.calls.reverse.map fmtCall)} ; uid={",".intercalate wids} var={var} ; {",".intercalate outs} ; lock={lock}"

def parseSeqOp? (s : String) : Option Seq.Op :=
  if s = "w" then some .write
  else if s = "f" then some .fin
  else if s = "ca" || s = "cA" then some .cancelAll
  else if s = "cc" then some .cancelCur
  else if s = "e" then some .ensureFinal
  else if s.startsWith "c" then ((s.drop 1).toString.toNat?).map Seq.Op.cancelId
  else none

def fmtSCall : Seq.SCall → String
  | .create i => s!"create={fmtId i}"
  | .upload p i => s!"upload:{p}={fmtId i}"
  | .complete i => s!"complete={fmtId i}"
  | .list => "list"
  | .abort i => s!"abort={fmtId i}"

def runSeq (ops : List Seq.Op) (s0 : Seq.State := {}) : String :=
  let (s, calls, oks) := Seq.run s0 ops
  let srt := fun (l : List Nat) => fmtList fmtId (l.foldr insertNat [])
  let res := oks.map (fun b => if b then "ok" else "NoSuchUpload")
  s!"{",".intercalate res} ; {",".intercalate (calls.map fmtSCall)} ; uid={fmtId s.uploadId} ; active={srt s.active} ; completed={srt s.completed} ; aborted={srt s.aborted}"

def parseSeqKOp? (s : String) : Option SeqK.Op :=
  if s = "X" then some .foreignStart
  else if s = "Y" then some .foreignDone
  else (parseSeqOp? s).map SeqK.Op.own

def runSeqK (filtered : Bool) (ops : List SeqK.Op) : String :=
  let (st, calls, oks) := SeqK.run filtered {} ops
  let s := st.own
  let srt := fun (l : List Nat) => fmtList fmtId (l.foldr insertNat [])
  let res := oks.map (fun b => if b then "ok" else "NoSuchUpload")
  s!"{",".intercalate res} ; {",".intercalate (calls.map fmtSCall)} ; uid={fmtId s.uploadId} ; active={srt s.active} ; completed={srt s.completed} ; aborted={srt s.aborted} ; foreign={srt st.foreign}"

def parseBytes (s : String) : Bytes := s.toList.map Char.toNat

def fmtBytes (b : Bytes) : String := String.ofList (b.map Char.ofNat)

/-- `<part>:<letters>` -/
def parseWrite? (s : String) : Option (Nat × Bytes) :=
  match s.splitOn ":" with
  | [p, d] => (p.toNat?).map (fun p => (p, parseBytes d))
  | _ => none

/-- insertion sort by part number (output canonicalisation only) -/
def insertPart (x : Nat × Bytes) : List (Nat × Bytes) → List (Nat × Bytes)
  | [] => [x]
  | y :: ys => if x.1 ≤ y.1 then x :: y :: ys else y :: insertPart x ys

def sortParts (l : List (Nat × Bytes)) : List (Nat × Bytes) := l.foldr insertPart []

def runSink (fixed : Bool) (ws : List (Nat × Bytes)) (ps : List Nat) (keep : Bool) : String :=
  let s0 := ws.foldl Sink.write {}
  let (s, e) := Sink.finalise fixed s0 ps keep
  let err := match e with | none => "ok" | some e => e.toStr
  let dst := match s.dst with | none => "N" | some b => "=" ++ fmtBytes b
  let parts := fmtList (fun (p : Nat × Bytes) => s!"{p.1}:{fmtBytes p.2}") (sortParts s.parts)
  s!"{err} ; dst{dst} ; parts={parts} ; dir={fmtBool s.dirExists}"

def fmtUCall : Up.UCall → String
  | .create i => s!"create={fmtId i}"
  | .upload p i b => s!"upload:{p}={fmtId i}:{fmtBytes b}"
  | .complete i ps => s!"complete={fmtId i}:{".".intercalate (ps.map toString)}"

def fmtUErr : Option Up.UErr → String
  | none => "ok"
  | some e => e.toStr

/-- writes, then `finalise(ps)`, then further writes; the run stops at the first call that raises -/
def runUp (m : Nat) (ws : List (Nat × Bytes)) (ps : List Nat) (ws2 : List (Nat × Bytes)) : String :=
  let fin := fun (s : Up.State) (res : List String) =>
    let obj := match s.object with | none => "N" | some b => "=" ++ fmtBytes b
    s!"{",".intercalate res} ; {",".intercalate (s.calls.reverse.map fmtUCall)} ; obj{obj} ; uid={fmtId s.uploadId} ; creates={s.creates}"
  match Up.runWrites {} ws with
  | (s1, some e) => fin s1 ["w:" ++ e.toStr]
  | (s1, none) =>
    match Up.finalise m s1 ps with
    | (s2, some e) => fin s2 ["w:ok", "f:" ++ e.toStr]
    | (s2, none) =>
      match Up.runWrites s2 ws2 with
      | (s3, e) => fin s3 ["w:ok", "f:ok", "w:" ++ fmtUErr e]

/-- `dir|name|base` (`N` = no parts_base) -/
def parseSinkCfg? (s : String) : Option SinkCfg :=
  match s.splitOn "|" with
  | [d, n, b] => some { dir := d, name := n, base := if b = "N" then none else some b }
  | _ => none

/-- `i:w:<part>:<letters>` or `i:f:<T|F>:<p1.p2...>` -/
def parseSinkOp? (s : String) : Option (Nat × SinkOp) :=
  match s.splitOn ":" with
  | [i, "w", p, d] => do
    let i ← i.toNat?; let p ← p.toNat?
    pure (i, .write (p, parseBytes d))
  | [i, "f", k, ps] => do
    let i ← i.toNat?; let k ← parseBool? k
    let ps ← if ps = "" then some [] else (ps.splitOn ".").mapM (·.toNat?)
    pure (i, .finalise ps k)
  | _ => none

def fmtView (s : Sink) : String :=
  let dst := match s.dst with | none => "N" | some b => "=" ++ fmtBytes b
  let parts := fmtList (fun (p : Nat × Bytes) => s!"{p.1}:{fmtBytes p.2}") (sortParts s.parts)
  s!"dst{dst} ; parts={parts} ; dir={fmtBool s.dirExists}"

def runMSink (cfgs : List SinkCfg) (ops : List (Nat × SinkOp)) : String :=
  let (fs, errs) := FS.run cfgs {} ops
  let es := errs.map (fun e => match e with | none => "ok" | some e => e.toStr)
  let views := cfgs.map (fun c => fmtView (fs.view c))
  s!"{",".intercalate es} | {" | ".intercalate views}"

def insertStr (x : String) : List String → List String
  | [] => [x]
  | y :: ys => if x ≤ y then x :: y :: ys else y :: insertStr x ys

/-- the protocol simulations; `m = some S`: macro steps with context switches at the operations `S` only -/
def runProto (m : Option (List String)) (args : List String) : Option String :=
  match args with
  | ["local", fixed, ks, sched] => do
    let fixed ← parseBool? fixed
    let ks ← parseList? parseKindK? ks
    let sched ← parseList? parseNat? sched
    pure (runLocal fixed ks sched false m)
  | ["local", fixed, ks, sched, "P"] => do
    let fixed ← parseBool? fixed
    let ks ← parseList? parseKindK? ks
    let sched ← parseList? parseNat? sched
    pure (runLocal fixed ks sched true m)
  | ["distn", ks, ws, vn, ln, sched] => do
    let ks ← parseList? parseKind? ks
    let ws ← parseList? parseNat? ws
    let vn ← parseList? parseNat? vn
    let ln ← parseList? parseNat? ln
    let sched ← parseList? parseNat? sched
    pure (runDistN ks ws vn ln sched m)
  | ["distobj", ks, ws, vn, ln, sched] => do
    let ks ← parseList? parseKind? ks
    let ws ← parseList? parseNat? ws
    let vn ← parseList? parseNat? vn
    let ln ← parseList? parseNat? ln
    let sched ← parseList? parseNat? sched
    pure (runDistObj ks ws vn ln sched m)
  | ["dist", ks, ws, sched, left] => do
    let ks ← parseList? parseKindK? ks
    let ws ← parseList? parseNat? ws
    let sched ← parseList? parseNat? sched
    let left ← if left = "S" then some (some 99) else if left = "N" then some none else none
    pure (runDist ks ws sched left m)
  | ["dist", ks, ws, sched] => do
    let ks ← parseList? parseKindK? ks
    let ws ← parseList? parseNat? ws
    let sched ← parseList? parseNat? sched
    pure (runDist ks ws sched none m)
  | _ => none

def run (args : List String) : Option String :=
  match args with
  | "x" :: S :: rest => do
    let S ← parseList? some S
    runProto (some S) rest
  | "local" :: _ => runProto none args
  | "dist" :: _ => runProto none args
  | "distn" :: _ => runProto none args
  | "distobj" :: _ => runProto none args
  | ["msink", cfgs, ops] => do
    let cfgs ← parseList? parseSinkCfg? cfgs
    let ops ← parseList? parseSinkOp? ops
    pure (runMSink cfgs ops)
  | ["parseurl", url] =>
    let r := s3ParseUrl url
    pure s!"{r.1} {r.2}"
  | ["parseurl"] => pure " "
  | ["mpuurl", b, k] => pure (mpuUrl b k)
  | ["tokens", b, k, uid] =>
    let uid := if uid = "-" then "" else uid
    pure s!"{fmtList id (mpuToken b k uid)} {fmtList id (writerToken b k uid)}"
  | ["sinktoken", c] => do
    let c ← parseSinkCfg? c
    pure (fmtList id (sinkToken c))
  | ["seq", ops] => do
    let ops ← parseList? parseSeqOp? ops
    pure (runSeq ops)
  | ["seq", ops, "R"] => do
    let ops ← parseList? parseSeqOp? ops
    pure (runSeq ops Seq.resumed)
  | ["sinkcrash", ws, ps, k] => do
    let ws ← parseList? parseWrite? ws
    let ps ← parseList? parseNat? ps
    let k ← parseNat? k
    let s := (ws.foldl Sink.write {}).finaliseCrash ps k
    pure (fmtView s)
  | ["crashev", "local", ks, evs] => do
    let ks ← parseList? parseKind? ks
    let evs ← parseList? parseEv? evs
    pure (runLocalEv ks evs)
  | ["crashev", "dist", ks, ws, evs] => do
    let ks ← parseList? parseKind? ks
    let ws ← parseList? parseNat? ws
    let evs ← parseList? parseEv? evs
    pure (runDistEv ks ws evs)
  | ["sinkkill", flushed, ws, ps, k] => do
    let flushed ← parseBool? flushed
    let ws ← parseList? parseWrite? ws
    let ps ← parseList? parseNat? ps
    let k ← parseNat? k
    pure (fmtView ((ws.foldl Sink.write {}).finaliseKill flushed ps k))
  | ["sinkcrashbytes", ws, ps, k, j] => do
    let ws ← parseList? parseWrite? ws
    let ps ← parseList? parseNat? ps
    let k ← parseNat? k
    let j ← parseNat? j
    pure (fmtView ((ws.foldl Sink.write {}).finaliseCrashBytes ps k j))
  | ["seqpage", page, n, m] => do
    let page ← parseNat? page
    let n ← parseNat? n
    let m ← parseNat? m
    let s0 : Seq.State := { creates := n, active := (List.range n).map (· + 1) }
    let s := cancelAllPagedN page m s0
    let first := (cancelAllPaged page s0).2
    pure s!"first-call={",".intercalate (first.map fmtSCall)} ; active-after-{m}={fmtList fmtId s.active}"
  | ["seqk", filtered, ops] => do
    let filtered ← parseBool? filtered
    let ops ← parseList? parseSeqKOp? ops
    pure (runSeqK filtered ops)
  | ["up", m, ws, ps, ws2] => do
    let m ← parseNat? m
    let ws ← parseList? parseWrite? ws
    let ps ← parseList? parseNat? ps
    let ws2 ← parseList? parseWrite? ws2
    pure (runUp m ws ps ws2)
  | ["uploadwriter", spill] => do
    let spill ← parseNat? spill
    pure (match uploadWriter spill with
          | none => "N"
          | some W => s!"min_write_sz={W.minWrite},min_part={W.minPart},max_part={W.maxPart}")
  | ["writerprep", e, a] => do
    let e ← parseBool? e
    let a ← parseBool? a
    pure (match writerPrep e a with | none => "N" | some true => "explicit" | some false => "ambient")
  | ["sink", fixed, ws, ps, keep] => do
    let fixed ← parseBool? fixed
    let ws ← parseList? parseWrite? ws
    let ps ← parseList? parseNat? ps
    let keep ← parseBool? keep
    pure (runSink fixed ws ps keep)
  | ["path", parent, name, base, part] => do
    let base ← parseOpt? some base
    let part ← parseNat? part
    pure (partPath parent name base part)
  | ["limits", "sink", fixed, a, b, c, d] => do
    let fixed ← parseBool? fixed
    let a ← parseOpt? parseInt? a; let b ← parseOpt? parseInt? b
    let c ← parseOpt? parseInt? c; let d ← parseOpt? parseInt? d
    let kw : LimitKw := { minWriteSz := a, maxWriteSz := b, minPart := c, maxPart := d }
    pure (fmtList (fun x => s!"{x.name}={sinkLimit fixed kw x}") Acc.all)
  | ["limits", "s3"] =>
    pure (fmtList (fun x => s!"{x.name}={s3Limit x}") Acc.all)
  | ["accessors"] =>
    pure (fmtList id ((Acc.all.map Acc.name).foldr insertStr []))
  | _ => none

end OdcGeo.C18.Drv
