/-
Lemmas for C19 part (a): the pinning invariant of `_crs_cache` and its consequences.

* `Inv`                      the invariant (heap well-formed, cache / variables / transformer
                             cache only mention live pyproj objects, every instance's object is
                             pinned by a cache entry)
* `inv_run`                  it holds after every history of real operations
* `vars_pinned`              corollary for the variables
* `transformer_correct_aux`  the transformer returned for `(a, b)` converts sys(a) → sys(b)
-/
import OdcGeo.Model.C19

namespace OdcGeo.C19

/-! ## List helpers -/

theorem assoc_mem {β : Type} (k : Nat) (l : List (Nat × β)) (v : β)
    (h : assoc k l = some v) : (k, v) ∈ l := by
  induction l with
  | nil => simp [assoc] at h
  | cons hd tl ih =>
    obtain ⟨k', v'⟩ := hd
    simp only [assoc] at h
    split at h
    · cases h; subst_vars; exact List.mem_cons_self
    · exact List.mem_cons_of_mem _ (ih h)

theorem mem_setVar {β : Type} {k : Nat} {v : β} {l : List (Nat × β)} {e : Nat × β}
    (h : e ∈ setVar k v l) : e = (k, v) ∨ e ∈ l := by
  simp only [setVar, List.mem_cons, List.mem_filter] at h
  rcases h with h | h
  · exact Or.inl h
  · exact Or.inr h.1

theorem mem_delVar {β : Type} {k : Nat} {l : List (Nat × β)} {e : Nat × β}
    (h : e ∈ delVar k l) : e ∈ l := by
  simp only [delVar, List.mem_filter] at h
  exact h.1

/-- Taking the `n`-th element out of a duplicate-free list. -/
theorem eraseIdx_spec (l : List Nat) : ∀ n : Nat, l.Nodup → n < l.length →
    l.getD n 0 ∈ l ∧ l.getD n 0 ∉ l.eraseIdx n ∧ (l.eraseIdx n).Nodup ∧
      ∀ x ∈ l.eraseIdx n, x ∈ l := by
  induction l with
  | nil => intro n _ h; simp at h
  | cons a t ih =>
    intro n hnd hn
    rw [List.nodup_cons] at hnd
    cases n with
    | zero =>
      refine ⟨by simp, by simpa using hnd.1, by simpa using hnd.2, ?_⟩
      intro x hx
      simp at hx
      exact List.mem_cons_of_mem _ hx
    | succ m =>
      have hm : m < t.length := by simpa using hn
      obtain ⟨h1, h2, h3, h4⟩ := ih m hnd.2 hm
      have e1 : (a :: t).getD (m + 1) 0 = t.getD m 0 := by simp
      have e2 : (a :: t).eraseIdx (m + 1) = a :: t.eraseIdx m := rfl
      rw [e1, e2]
      refine ⟨List.mem_cons_of_mem _ h1, ?_, ?_, ?_⟩
      · intro hx
        rcases List.mem_cons.1 hx with hx | hx
        · exact hnd.1 (hx ▸ h1)
        · exact h2 hx
      · rw [List.nodup_cons]
        exact ⟨fun hx => hnd.1 (h4 _ hx), h3⟩
      · intro x hx
        rcases List.mem_cons.1 hx with hx | hx
        · exact hx ▸ List.mem_cons_self
        · exact List.mem_cons_of_mem _ (h4 _ hx)

/-! ## The invariant -/

/-- `i` is the pyproj object stored in some `_crs_cache` entry. -/
def Pinned (cache : List (Key × CrsObj)) (i : Nat) : Prop := ∃ ke ∈ cache, ke.2.obj = i

/-- (H) the heap is a finite map, freed ids are distinct, not live, and below `next`. -/
structure HeapOk (heap : List (Nat × PInfo)) (free : List Nat) (next : Nat) : Prop where
  heapNodup : (heap.map Prod.fst).Nodup
  freeNodup : free.Nodup
  heapLt : ∀ e ∈ heap, e.1 < next
  freeLt : ∀ i ∈ free, i < next
  disj : ∀ e ∈ heap, e.1 ∉ free

/-- (C) (V) (P) (T): everything reachable is live, instances are pinned by the cache. -/
structure RefOk (heap : List (Nat × PInfo)) (cache : List (Key × CrsObj))
    (vars : List (Nat × CrsObj)) (pvars : List (Nat × (Nat × PInfo)))
    (tcache : List ((Nat × Nat × Bool) × (Nat × Nat))) : Prop where
  cacheLive : ∀ ke ∈ cache, (ke.2.obj, ke.2.info) ∈ heap
  varsLive : ∀ vc ∈ vars, (vc.2.obj, vc.2.info) ∈ heap ∧ Pinned cache vc.2.obj
  pvarsLive : ∀ pe ∈ pvars, pe.2 ∈ heap
  tcacheLive : ∀ te ∈ tcache, ∃ p q, (te.1.1, p) ∈ heap ∧ (te.1.2.1, q) ∈ heap ∧
    p.sys = te.2.1 ∧ q.sys = te.2.2 ∧ Pinned cache te.1.1 ∧ Pinned cache te.1.2.1

structure Inv (σ : State) : Prop where
  heapOk : HeapOk σ.heap σ.free σ.next
  refOk : RefOk σ.heap σ.cache σ.vars σ.pvars σ.tcache

theorem inv_init : Inv {} := by
  constructor
  · constructor <;> simp
  · constructor <;> simp

theorem Pinned.mono {c c' : List (Key × CrsObj)} {i : Nat} (hc : ∀ e ∈ c, e ∈ c')
    (h : Pinned c i) : Pinned c' i := by
  obtain ⟨ke, hke, e⟩ := h
  exact ⟨ke, hc _ hke, e⟩

theorem RefOk.mono {heap heap' cache cache' vars pvars tcache}
    (hh : ∀ e ∈ heap, e ∈ heap') (hc : ∀ e ∈ cache, e ∈ cache')
    (hnew : ∀ ke ∈ cache', ke ∈ cache ∨ (ke.2.obj, ke.2.info) ∈ heap')
    (h : RefOk heap cache vars pvars tcache) : RefOk heap' cache' vars pvars tcache := by
  constructor
  · intro ke hke
    rcases hnew ke hke with h1 | h1
    · exact hh _ (h.cacheLive ke h1)
    · exact h1
  · intro vc hvc
    obtain ⟨h1, h2⟩ := h.varsLive vc hvc
    exact ⟨hh _ h1, h2.mono hc⟩
  · intro pe hpe
    exact hh _ (h.pvarsLive pe hpe)
  · intro te hte
    obtain ⟨p, q, h1, h2, h3, h4, h5, h6⟩ := h.tcacheLive te hte
    exact ⟨p, q, hh _ h1, hh _ h2, h3, h4, h5.mono hc, h6.mono hc⟩

/-- Heap keys determine the attributes. -/
theorem HeapOk.functional {heap free next} (h : HeapOk heap free next) {i : Nat} {p q : PInfo}
    (hp : (i, p) ∈ heap) (hq : (i, q) ∈ heap) : p = q := by
  have hnd := h.heapNodup
  clear h
  induction heap with
  | nil => cases hp
  | cons hd tl ih =>
    rw [List.map_cons, List.nodup_cons] at hnd
    rcases List.mem_cons.1 hp with hp | hp <;> rcases List.mem_cons.1 hq with hq | hq
    · rw [← hp] at hq; exact (Prod.mk.inj hq).2.symm ▸ rfl
    · exfalso; apply hnd.1; rw [← hp]; exact List.mem_map.2 ⟨_, hq, rfl⟩
    · exfalso; apply hnd.1; rw [← hq]; exact List.mem_map.2 ⟨_, hp, rfl⟩
    · exact ih hp hq hnd.2

theorem HeapOk.push {heap free next} (h : HeapOk heap free next) {free' : List Nat} {next' id : Nat}
    (p : PInfo) (hnd : free'.Nodup) (hsub : ∀ x ∈ free', x ∈ free) (hid : id ∉ free')
    (hfresh : ∀ e ∈ heap, e.1 ≠ id) (hle : next ≤ next') (hlt : id < next') :
    HeapOk ((id, p) :: heap) free' next' := by
  constructor
  · rw [List.map_cons, List.nodup_cons]
    refine ⟨?_, h.heapNodup⟩
    intro hm
    obtain ⟨e, he, rfl⟩ := List.mem_map.1 hm
    exact hfresh e he rfl
  · exact hnd
  · intro e he
    rcases List.mem_cons.1 he with he | he
    · rw [he]; exact hlt
    · exact Nat.lt_of_lt_of_le (h.heapLt e he) hle
  · intro i hi
    exact Nat.lt_of_lt_of_le (h.freeLt i (hsub i hi)) hle
  · intro e he
    rcases List.mem_cons.1 he with he | he
    · rw [he]; exact hid
    · exact fun hx => h.disj e he (hsub _ hx)

/-! ## Allocation -/

theorem alloc_spec (σ : State) (pick : Nat) (p : PInfo) (h : Inv σ) :
    Inv (alloc σ pick p).1 ∧ ((alloc σ pick p).2, p) ∈ (alloc σ pick p).1.heap ∧
      (∀ e ∈ σ.heap, e ∈ (alloc σ pick p).1.heap) ∧
      (alloc σ pick p).1.cache = σ.cache ∧ (alloc σ pick p).1.vars = σ.vars ∧
      (alloc σ pick p).1.pvars = σ.pvars ∧ (alloc σ pick p).1.tcache = σ.tcache := by
  unfold alloc
  split
  · next hlt =>
    obtain ⟨h1, h2, h3, h4⟩ := eraseIdx_spec σ.free pick h.heapOk.freeNodup hlt
    refine ⟨⟨?_, ?_⟩, List.mem_cons_self, fun e he => List.mem_cons_of_mem _ he, rfl, rfl, rfl, rfl⟩
    · refine h.heapOk.push p h3 h4 h2 ?_ (Nat.le_refl _) (h.heapOk.freeLt _ h1)
      intro e he hx
      exact h.heapOk.disj e he (hx ▸ h1)
    · exact h.refOk.mono (fun e he => List.mem_cons_of_mem _ he) (fun e he => he)
        (fun ke hke => Or.inl hke)
  · refine ⟨⟨?_, ?_⟩, List.mem_cons_self, fun e he => List.mem_cons_of_mem _ he, rfl, rfl, rfl, rfl⟩
    · refine h.heapOk.push p h.heapOk.freeNodup (fun x hx => hx) ?_ ?_ (Nat.le_succ _)
        (Nat.lt_succ_self _)
      · intro hx; exact Nat.lt_irrefl _ (h.heapOk.freeLt _ hx)
      · intro e he hx; exact Nat.lt_irrefl _ (hx ▸ h.heapOk.heapLt e he)
    · exact h.refOk.mono (fun e he => List.mem_cons_of_mem _ he) (fun e he => he)
        (fun ke hke => Or.inl hke)

/-! ## Garbage collection -/

theorem mem_roots_cache {σ : State} {ke : Key × CrsObj} (h : ke ∈ σ.cache) :
    ke.2.obj ∈ roots σ := by
  simp only [roots, List.mem_append, List.mem_map]
  exact Or.inl (Or.inl (Or.inl ⟨ke, h, rfl⟩))

theorem mem_roots_vars {σ : State} {vc : Nat × CrsObj} (h : vc ∈ σ.vars) :
    vc.2.obj ∈ roots σ := by
  simp only [roots, List.mem_append, List.mem_map]
  exact Or.inl (Or.inr ⟨vc, h, rfl⟩)

theorem mem_roots_pvars {σ : State} {pe : Nat × (Nat × PInfo)} (h : pe ∈ σ.pvars) :
    pe.2.1 ∈ roots σ := by
  simp only [roots, List.mem_append, List.mem_map]
  exact Or.inr ⟨pe, h, rfl⟩

theorem mem_roots_pinned {σ : State} {i : Nat} (h : Pinned σ.cache i) : i ∈ roots σ := by
  obtain ⟨ke, hke, rfl⟩ := h
  exact mem_roots_cache hke

theorem collect_keep {σ : State} {e : Nat × PInfo} (he : e ∈ σ.heap) (hr : e.1 ∈ roots σ) :
    e ∈ (collect σ).heap := by
  simp only [collect, List.mem_filter]
  exact ⟨he, by simpa using hr⟩

theorem collect_inv (σ : State) (h : Inv σ) : Inv (collect σ) := by
  constructor
  · constructor
    · exact h.heapOk.heapNodup.sublist (List.filter_sublist.map _)
    · show (List.map _ (List.filter _ σ.heap) ++ σ.free).Nodup
      rw [List.nodup_append]
      refine ⟨h.heapOk.heapNodup.sublist (List.filter_sublist.map _), h.heapOk.freeNodup, ?_⟩
      intro a ha b hb hab
      obtain ⟨e, he, rfl⟩ := List.mem_map.1 ha
      exact h.heapOk.disj e (List.mem_filter.1 he).1 (hab ▸ hb)
    · intro e he
      exact h.heapOk.heapLt e (List.mem_filter.1 he).1
    · intro i hi
      rcases List.mem_append.1 hi with hi | hi
      · obtain ⟨e, he, rfl⟩ := List.mem_map.1 hi
        exact h.heapOk.heapLt e (List.mem_filter.1 he).1
      · exact h.heapOk.freeLt i hi
    · intro e he hx
      have he' := List.mem_filter.1 he
      rcases List.mem_append.1 hx with hx | hx
      · obtain ⟨e', he', hee⟩ := List.mem_map.1 hx
        have h1 := (List.mem_filter.1 he').2
        have h2 := (List.mem_filter.1 he).2
        rw [hee] at h1
        simp only [h2, Bool.not_true] at h1
        exact Bool.noConfusion h1
      · exact h.heapOk.disj e he'.1 hx
  · constructor
    · intro ke hke
      exact collect_keep (h.refOk.cacheLive ke hke) (mem_roots_cache hke)
    · intro vc hvc
      exact ⟨collect_keep (h.refOk.varsLive vc hvc).1 (mem_roots_vars hvc),
        (h.refOk.varsLive vc hvc).2⟩
    · intro pe hpe
      exact collect_keep (h.refOk.pvarsLive pe hpe) (mem_roots_pvars hpe)
    · intro te hte
      obtain ⟨p, q, h1, h2, h3, h4, h5, h6⟩ := h.refOk.tcacheLive te hte
      exact ⟨p, q, collect_keep h1 (mem_roots_pinned h5), collect_keep h2 (mem_roots_pinned h6),
        h3, h4, h5, h6⟩

/-! ## Construction -/

/-- The result of a construction is live and pinned. -/
def Good (σ : State) (c : CrsObj) : Prop := (c.obj, c.info) ∈ σ.heap ∧ Pinned σ.cache c.obj

theorem entryOf_ok {id : Nat} {p : PInfo} {e0 : Nat} {e : CrsObj} (h : entryOf id p e0 = .ok e) :
    e.obj = id ∧ e.info = p := by
  unfold entryOf at h
  simp only at h
  split at h
  · split at h
    · cases h; exact ⟨rfl, rfl⟩
    · cases h
  · cases h; exact ⟨rfl, rfl⟩

theorem cacheFind_mem {W : World} {k : Key} {c : List (Key × CrsObj)} {e : CrsObj}
    (h : cacheFind W k c = some e) : ∃ ke ∈ c, ke.2 = e := by
  unfold cacheFind at h
  cases hf : c.find? (fun e => keyEq W e.1 k) with
  | none => rw [hf] at h; cases h
  | some ke => rw [hf] at h; cases h; exact ⟨ke, List.mem_of_find?_eq_some hf, rfl⟩

theorem good_of_hit {W : World} {k : Key} {σ : State} {e : CrsObj} (h : Inv σ)
    (hf : cacheFind W k σ.cache = some e) : Good σ e := by
  obtain ⟨ke, hke, rfl⟩ := cacheFind_mem hf
  exact ⟨h.refOk.cacheLive ke hke, ke, hke, rfl⟩

theorem inv_cache_push {σ : State} (h : Inv σ) (k : Key) (e : CrsObj)
    (he : (e.obj, e.info) ∈ σ.heap) :
    Inv { σ with cache := σ.cache ++ [(k, e)] } ∧ Good { σ with cache := σ.cache ++ [(k, e)] } e := by
  refine ⟨⟨h.heapOk, ?_⟩, he, (k, e), by simp, rfl⟩
  refine h.refOk.mono (fun _ hx => hx) (fun _ hx => List.mem_append_left _ hx) ?_
  intro ke hke
  rcases List.mem_append.1 hke with hke | hke
  · exact Or.inl hke
  · rw [List.mem_singleton.1 hke]; exact Or.inr he

theorem makeFromText_spec (W : World) (σ : State) (key : String) (parsed : Option PInfo)
    (e0 pick : Nat) (h : Inv σ) :
    Inv (makeFromText W σ key parsed e0 pick).1 ∧
      ∀ c, (makeFromText W σ key parsed e0 pick).2 = .ok c →
        Good (makeFromText W σ key parsed e0 pick).1 c := by
  unfold makeFromText
  simp only
  split
  · next e hf =>
    refine ⟨h, ?_⟩
    intro c hc
    cases hc
    exact good_of_hit h hf
  · split
    · exact ⟨h, fun c hc => by cases hc⟩
    · next p =>
      obtain ⟨a1, a2, a3, a4, -, -, -⟩ := alloc_spec σ pick p h
      split
      · next e he =>
        obtain ⟨e1, e2⟩ := entryOf_ok he
        have := inv_cache_push a1 (Key.txt key) e (by rw [e1, e2]; exact a2)
        refine ⟨this.1, ?_⟩
        intro c hc
        cases hc
        exact this.2
      · exact ⟨a1, fun c hc => by cases hc⟩

theorem makeFromObj_spec (W : World) (σ : State) (id : Nat) (p : PInfo) (h : Inv σ)
    (hl : (id, p) ∈ σ.heap) :
    Inv (makeFromObj W σ id p).1 ∧
      ∀ c, (makeFromObj W σ id p).2 = .ok c → Good (makeFromObj W σ id p).1 c := by
  unfold makeFromObj
  simp only
  split
  · next e hf =>
    refine ⟨h, ?_⟩
    intro c hc
    cases hc
    exact good_of_hit h hf
  · split
    · next e he =>
      obtain ⟨e1, e2⟩ := entryOf_ok he
      have := inv_cache_push h (Key.obj id p) e (by rw [e1, e2]; exact hl)
      refine ⟨this.1, ?_⟩
      intro c hc
      cases hc
      exact this.2
    · exact ⟨h, fun c hc => by cases hc⟩

theorem construct_spec (W : World) (σ : State) (spec : Spec) (pick : Nat) (h : Inv σ) :
    Inv (construct W σ spec pick).1 ∧
      ∀ c, (construct W σ spec pick).2 = .ok c → Good (construct W σ spec pick).1 c := by
  cases spec with
  | int n => exact makeFromText_spec W σ _ _ _ pick h
  | str s => exact makeFromText_spec W σ _ _ _ pick h
  | pyproj pv =>
    simp only [construct]
    split
    · exact ⟨h, fun c hc => by cases hc⟩
    · next id p hpv =>
      exact makeFromObj_spec W σ id p h (h.refOk.pvarsLive _ (assoc_mem _ _ _ hpv))
  | dict d =>
    simp only [construct]
    split
    · exact ⟨h, fun c hc => by cases hc⟩
    · next p _ =>
      obtain ⟨a1, a2, -, -, -, -, -⟩ := alloc_spec σ pick p h
      exact makeFromObj_spec W _ _ p a1 a2
  | crs v =>
    simp only [construct]
    split
    · exact ⟨h, fun c hc => by cases hc⟩
    · next c hv =>
      refine ⟨h, ?_⟩
      intro c' hc
      cases hc
      exact h.refOk.varsLive _ (assoc_mem _ _ _ hv)

/-! ## Variable updates -/

theorem inv_setVar {σ : State} (h : Inv σ) (v : Nat) (c : CrsObj) (hc : Good σ c) :
    Inv { σ with vars := setVar v c σ.vars } := by
  refine ⟨h.heapOk, ⟨h.refOk.cacheLive, ?_, h.refOk.pvarsLive, h.refOk.tcacheLive⟩⟩
  intro vc hvc
  rcases mem_setVar hvc with rfl | hvc
  · exact hc
  · exact h.refOk.varsLive vc hvc

theorem inv_delVar {σ : State} (h : Inv σ) (v : Nat) :
    Inv { σ with vars := delVar v σ.vars } := by
  refine ⟨h.heapOk, ⟨h.refOk.cacheLive, ?_, h.refOk.pvarsLive, h.refOk.tcacheLive⟩⟩
  intro vc hvc
  exact h.refOk.varsLive vc (mem_delVar hvc)

theorem inv_setPVar {σ : State} (h : Inv σ) (pv id : Nat) (p : PInfo) (hl : (id, p) ∈ σ.heap) :
    Inv { σ with pvars := setVar pv (id, p) σ.pvars } := by
  refine ⟨h.heapOk, ⟨h.refOk.cacheLive, h.refOk.varsLive, ?_, h.refOk.tcacheLive⟩⟩
  intro pe hpe
  rcases mem_setVar hpe with rfl | hpe
  · exact hl
  · exact h.refOk.pvarsLive pe hpe

theorem inv_delPVar {σ : State} (h : Inv σ) (pv : Nat) :
    Inv { σ with pvars := delVar pv σ.pvars } := by
  refine ⟨h.heapOk, ⟨h.refOk.cacheLive, h.refOk.varsLive, ?_, h.refOk.tcacheLive⟩⟩
  intro pe hpe
  exact h.refOk.pvarsLive pe (mem_delVar hpe)

theorem inv_tcache_push {σ : State} (h : Inv σ) (ca cb : CrsObj) (xy : Bool)
    (ha : Good σ ca) (hb : Good σ cb) :
    Inv { σ with tcache := σ.tcache ++ [((ca.obj, cb.obj, xy), (ca.info.sys, cb.info.sys))] } := by
  refine ⟨h.heapOk, ⟨h.refOk.cacheLive, h.refOk.varsLive, h.refOk.pvarsLive, ?_⟩⟩
  intro te hte
  rcases List.mem_append.1 hte with hte | hte
  · exact h.refOk.tcacheLive te hte
  · rw [List.mem_singleton.1 hte]
    exact ⟨ca.info, cb.info, ha.1, hb.1, rfl, rfl, ha.2, hb.2⟩

/-! ## Steps and histories -/

theorem step_inv (W : World) (σ : State) (op : Op) (hop : op.real = true) (h : Inv σ) :
    Inv (step W σ op).1 := by
  cases op with
  | pnewText pv t pick =>
    simp only [step]
    split
    · exact h
    · next p _ =>
      obtain ⟨a1, a2, -, -, -, -, -⟩ := alloc_spec σ pick p h
      exact inv_setPVar a1 pv _ p a2
  | pnewEpsg pv n pick =>
    simp only [step]
    split
    · exact h
    · next p _ =>
      obtain ⟨a1, a2, -, -, -, -, -⟩ := alloc_spec σ pick p h
      exact inv_setPVar a1 pv _ p a2
  | mk v spec pick =>
    have hc := construct_spec W σ spec pick h
    simp only [step]
    split
    · next σ1 c heq =>
      rw [heq] at hc
      exact inv_setVar hc.1 v c (hc.2 c rfl)
    · next σ1 e heq =>
      rw [heq] at hc
      exact hc.1
  | pickle v src pick =>
    simp only [step]
    split
    · exact h
    · next c _ =>
      have hc := construct_spec W σ (.str c.str) pick h
      split
      · next σ1 c' heq =>
        rw [heq] at hc
        exact inv_setVar hc.1 v c' (hc.2 c' rfl)
      · next σ1 e heq =>
        rw [heq] at hc
        exact hc.1
  | drop v => exact inv_delVar h v
  | pdrop pv => exact inv_delPVar h pv
  | gc => exact collect_inv σ h
  | transformer a b xy =>
    simp only [step]
    split
    · next ca cb ha hb =>
      split
      · exact h
      · exact inv_tcache_push h ca cb xy (h.refOk.varsLive _ (assoc_mem _ _ _ ha))
          (h.refOk.varsLive _ (assoc_mem _ _ _ hb))
    · exact h
  | epsg v =>
    simp only [step]
    split
    · exact h
    · next c hv =>
      split
      · exact inv_setVar h v _ (h.refOk.varsLive _ (assoc_mem _ _ _ hv))
      · exact h
  | eq a b =>
    simp only [step]
    split <;> exact h
  | evict k => cases hop

theorem runFrom_cons_fst (W : World) (σ : State) (op : Op) (ops : List Op) :
    (runFrom W σ (op :: ops)).1 = (runFrom W (step W σ op).1 ops).1 := rfl

theorem inv_runFrom (W : World) (h : List Op) : ∀ σ : State, Inv σ →
    (∀ op ∈ h, op.real = true) → Inv (runFrom W σ h).1 := by
  induction h with
  | nil => intro σ hσ _; exact hσ
  | cons op ops ih =>
    intro σ hσ hreal
    rw [runFrom_cons_fst]
    exact ih _ (step_inv W σ op (hreal op List.mem_cons_self) hσ)
      (fun o ho => hreal o (List.mem_cons_of_mem _ ho))

/-- The pinning invariant holds after every history of real operations. -/
theorem inv_run (W : World) (h : List Op) (hreal : ∀ op ∈ h, op.real = true) :
    Inv (run W h).1 :=
  inv_runFrom W h {} inv_init hreal

/-- After any real history every `CRS` instance's pyproj object is live in the heap with the
instance's own attributes and is the object of some `_crs_cache` entry (so `gc` can never free
it and its id can never be handed out again). -/
theorem vars_pinned (W : World) (h : List Op) (hreal : ∀ op ∈ h, op.real = true)
    (v : Nat) (c : CrsObj) (hv : assoc v (run W h).1.vars = some c) :
    (c.obj, c.info) ∈ (run W h).1.heap ∧ ∃ ke ∈ (run W h).1.cache, ke.2.obj = c.obj :=
  (inv_run W h hreal).refOk.varsLive _ (assoc_mem _ _ _ hv)

/-- Two live instances with the same pyproj object id have the same attributes. -/
theorem vars_same_obj (W : World) (h : List Op) (hreal : ∀ op ∈ h, op.real = true)
    (a b : Nat) (ca cb : CrsObj) (ha : assoc a (run W h).1.vars = some ca)
    (hb : assoc b (run W h).1.vars = some cb) (hab : ca.obj = cb.obj) : ca.info = cb.info := by
  have hi := inv_run W h hreal
  have h1 := (hi.refOk.varsLive _ (assoc_mem _ _ _ ha)).1
  have h2 := (hi.refOk.varsLive _ (assoc_mem _ _ _ hb)).1
  rw [hab] at h1
  exact hi.heapOk.functional h1 h2

/-- The transformer cache keyed on object identities never returns a transformer between the
wrong systems, whatever ids the allocator reused. -/
theorem transformer_correct_state (W : World) (σ : State) (hi : Inv σ)
    (a b : Nat) (xy : Bool) (ca cb : CrsObj)
    (ha : assoc a σ.vars = some ca) (hb : assoc b σ.vars = some cb) :
    (step W σ (.transformer a b xy)).2 = .tr ca.info.sys cb.info.sys := by
  simp only [step, ha, hb]
  split
  · next s d hf =>
    cases hfind : σ.tcache.find? (fun e => e.1 == (ca.obj, cb.obj, xy)) with
    | none => rw [hfind] at hf; cases hf
    | some te =>
      rw [hfind] at hf
      simp only [Option.map_some, Option.some.injEq] at hf
      have hmem := List.mem_of_find?_eq_some hfind
      have hkey := List.find?_some hfind
      simp only [beq_iff_eq] at hkey
      obtain ⟨p, q, h1, h2, h3, h4, -, -⟩ := hi.refOk.tcacheLive te hmem
      rw [hkey] at h1 h2
      simp only at h1 h2
      have ea := hi.heapOk.functional h1 (hi.refOk.varsLive _ (assoc_mem _ _ _ ha)).1
      have eb := hi.heapOk.functional h2 (hi.refOk.varsLive _ (assoc_mem _ _ _ hb)).1
      rw [hf] at h3 h4
      simp only at h3 h4
      rw [← h3, ← h4, ea, eb]
  · rfl

theorem transformer_correct_aux (W : World) (h : List Op) (hreal : ∀ op ∈ h, op.real = true)
    (a b : Nat) (xy : Bool) (ca cb : CrsObj)
    (ha : assoc a (run W h).1.vars = some ca) (hb : assoc b (run W h).1.vars = some cb) :
    (step W (run W h).1 (.transformer a b xy)).2 = .tr ca.info.sys cb.info.sys :=
  transformer_correct_state W _ (inv_run W h hreal) a b xy ca cb ha hb

/-! ## History-freedom of `str(crs)` / `crs.epsg` for textual specs -/

/-- Specs given as text or as an EPSG number. -/
def Spec.textual : Spec → Bool
  | .int _ => true
  | .str _ => true
  | _ => false

/-- Operations that never put a pyproj object into `_crs_cache` as a key. -/
def Op.textOnly : Op → Bool
  | .evict _ => false
  | .mk _ (.pyproj _) _ => false
  | .mk _ (.dict _) _ => false
  | _ => true

/-- `_make_crs_key` of a textual spec. -/
def specKey : Spec → Option String
  | .int n => some (keyOfInt n)
  | .str s => some (keyOfStr s)
  | _ => none

/-- What a fresh interpreter gives for `(str(CRS(spec)), CRS(spec)._epsg)`. -/
def freshOut (W : World) (spec : Spec) : Res (String × Option Nat) :=
  (construct W {} spec 0).2.map (fun c => (c.str, c.epsg))

/-- pyproj gives the same `(str, epsg)` for every spelling that shares a cache key. -/
def TextCoherent (W : World) : Prop :=
  ∀ s s', s.textual = true → s'.textual = true → specKey s = specKey s' →
    freshOut W s = freshOut W s'

/-- The observable part of a construction result. -/
abbrev view (c : CrsObj) : String × Option Nat := (c.str, c.epsg)

/-- The outcome of `_make_crs` on a cache miss, as far as `(str, epsg)` goes. -/
def txtOut (parsed : Option PInfo) (e0 : Nat) : Res (String × Option Nat) :=
  match parsed with
  | none => .error .runtimeError
  | some p => (entryOf 0 p e0).map view

theorem entryOf_view (id : Nat) (p : PInfo) (e0 : Nat) :
    (entryOf id p e0).map view = (entryOf 0 p e0).map view := by
  unfold entryOf
  simp only
  split
  · split <;> rfl
  · rfl

theorem alloc_cache (σ : State) (pick : Nat) (p : PInfo) : (alloc σ pick p).1.cache = σ.cache := by
  unfold alloc
  split <;> rfl

/-- On a cache miss the result does not depend on the state. -/
theorem makeFromText_miss (W : World) (σ : State) (key : String) (parsed : Option PInfo)
    (e0 pick : Nat) (hm : cacheFind W (.txt key) σ.cache = none) :
    (makeFromText W σ key parsed e0 pick).2.map view = txtOut parsed e0 := by
  unfold makeFromText
  simp only [hm]
  cases parsed with
  | none => rfl
  | some p =>
    simp only [txtOut]
    rw [← entryOf_view (alloc σ pick p).2 p e0]
    split <;> next _ he => rw [he]

theorem freshOut_int (W : World) (n : Nat) : freshOut W (.int n) = txtOut (W.fromEpsg n) n :=
  makeFromText_miss W {} _ _ _ 0 rfl

theorem freshOut_str (W : World) (s : String) : freshOut W (.str s) = txtOut (W.fromText s) 0 :=
  makeFromText_miss W {} _ _ _ 0 rfl

/-- Every key is a string and the stored `(str, epsg)` is what a fresh interpreter computes
for any textual spec with that key. -/
def TextInv (W : World) (cache : List (Key × CrsObj)) : Prop :=
  ∀ ke ∈ cache, ∃ k, ke.1 = .txt k ∧ ∀ spec, spec.textual = true → specKey spec = some k →
    freshOut W spec = .ok (view ke.2)

theorem textInv_hit {W : World} {cache : List (Key × CrsObj)} (hinv : TextInv W cache)
    {key : String} {e : CrsObj} (hf : cacheFind W (.txt key) cache = some e)
    (spec : Spec) (hs : spec.textual = true) (hk : specKey spec = some key) :
    freshOut W spec = .ok (view e) := by
  unfold cacheFind at hf
  cases hfind : cache.find? (fun e => keyEq W e.1 (.txt key)) with
  | none => rw [hfind] at hf; cases hf
  | some ke =>
    rw [hfind] at hf
    cases hf
    obtain ⟨k, hk1, hk2⟩ := hinv ke (List.mem_of_find?_eq_some hfind)
    have hkey := List.find?_some hfind
    simp only [hk1, keyEq, beq_iff_eq] at hkey
    exact hk2 spec hs (hkey ▸ hk)

theorem makeFromText_text (W : World) (hW : TextCoherent W) (σ : State) (key : String)
    (parsed : Option PInfo) (e0 pick : Nat) (hinv : TextInv W σ.cache)
    (spec0 : Spec) (h0 : spec0.textual = true) (hk0 : specKey spec0 = some key)
    (hf0 : freshOut W spec0 = txtOut parsed e0) :
    TextInv W (makeFromText W σ key parsed e0 pick).1.cache ∧
      (makeFromText W σ key parsed e0 pick).2.map view = txtOut parsed e0 := by
  cases hm : cacheFind W (.txt key) σ.cache with
  | some e =>
    have hhit := textInv_hit hinv hm spec0 h0 hk0
    unfold makeFromText
    simp only [hm]
    refine ⟨hinv, ?_⟩
    rw [← hf0, hhit]
    rfl
  | none =>
    refine ⟨?_, makeFromText_miss W σ key parsed e0 pick hm⟩
    have hout := makeFromText_miss W σ key parsed e0 pick hm
    revert hout
    unfold makeFromText
    simp only [hm]
    cases parsed with
    | none => intro _; exact hinv
    | some p =>
      simp only
      split
      · next e he =>
        intro hout
        simp only [alloc_cache]
        intro ke hke
        rcases List.mem_append.1 hke with hke | hke
        · exact hinv ke hke
        · rw [List.mem_singleton.1 hke]
          refine ⟨key, rfl, ?_⟩
          intro spec hs hk
          rw [hW spec spec0 hs h0 (hk.trans hk0.symm), hf0, ← hout]
          rfl
      · intro _
        simp only [alloc_cache]
        exact hinv

theorem construct_text (W : World) (hW : TextCoherent W) (σ : State) (spec : Spec) (pick : Nat)
    (hinv : TextInv W σ.cache) (hs : spec.textual = true) :
    TextInv W (construct W σ spec pick).1.cache ∧
      (construct W σ spec pick).2.map view = freshOut W spec := by
  cases spec with
  | int n =>
    rw [freshOut_int]
    exact makeFromText_text W hW σ _ _ _ pick hinv (.int n) rfl rfl (freshOut_int W n)
  | str s =>
    rw [freshOut_str]
    exact makeFromText_text W hW σ _ _ _ pick hinv (.str s) rfl rfl (freshOut_str W s)
  | pyproj pv => cases hs
  | dict d => cases hs
  | crs v => cases hs

theorem construct_crs_cache (W : World) (σ : State) (v pick : Nat) :
    (construct W σ (.crs v) pick).1.cache = σ.cache := by
  simp only [construct]
  split <;> rfl

theorem step_mk_cache (W : World) (σ : State) (v : Nat) (spec : Spec) (pick : Nat) :
    (step W σ (.mk v spec pick)).1.cache = (construct W σ spec pick).1.cache := by
  simp only [step]
  split <;> next heq => rw [heq]

theorem step_textInv (W : World) (hW : TextCoherent W) (σ : State) (op : Op)
    (hop : op.textOnly = true) (hinv : TextInv W σ.cache) : TextInv W (step W σ op).1.cache := by
  cases op with
  | pnewText pv t pick =>
    simp only [step]
    split
    · exact hinv
    · simp only [alloc_cache]; exact hinv
  | pnewEpsg pv n pick =>
    simp only [step]
    split
    · exact hinv
    · simp only [alloc_cache]; exact hinv
  | mk v spec pick =>
    rw [step_mk_cache]
    cases spec with
    | int n => exact (construct_text W hW σ _ pick hinv rfl).1
    | str s => exact (construct_text W hW σ _ pick hinv rfl).1
    | pyproj pv => cases hop
    | dict d => cases hop
    | crs v' => rw [construct_crs_cache]; exact hinv
  | pickle v src pick =>
    simp only [step]
    split
    · exact hinv
    · next c _ =>
      have hc := (construct_text W hW σ (.str c.str) pick hinv rfl).1
      split <;> next heq => rw [heq] at hc; exact hc
  | drop v => exact hinv
  | pdrop pv => exact hinv
  | gc => exact hinv
  | transformer a b xy =>
    simp only [step]
    split
    · split <;> exact hinv
    · exact hinv
  | epsg v =>
    simp only [step]
    split
    · exact hinv
    · split <;> exact hinv
  | eq a b =>
    simp only [step]
    split <;> exact hinv
  | evict k => cases hop

theorem textInv_runFrom (W : World) (hW : TextCoherent W) (h : List Op) : ∀ σ : State,
    TextInv W σ.cache → (∀ op ∈ h, op.textOnly = true) → TextInv W (runFrom W σ h).1.cache := by
  induction h with
  | nil => intro σ hσ _; exact hσ
  | cons op ops ih =>
    intro σ hσ ht
    rw [runFrom_cons_fst]
    exact ih _ (step_textInv W hW σ op (ht op List.mem_cons_self) hσ)
      (fun o ho => ht o (List.mem_cons_of_mem _ ho))

theorem textInv_run (W : World) (hW : TextCoherent W) (h : List Op)
    (ht : ∀ op ∈ h, op.textOnly = true) : TextInv W (run W h).1.cache :=
  textInv_runFrom W hW h {} (fun _ hke => by cases hke) ht

/-- For `int` / `str` specs, `str(CRS(spec))` and the `_epsg` field do not depend on what the
process did before, as long as no pyproj object or dict was ever passed to `CRS(...)`. -/
theorem crs_str_history_free_aux (W : World) (hW : TextCoherent W) (h : List Op)
    (ht : ∀ op ∈ h, op.textOnly = true) (spec : Spec) (hs : spec.textual = true) (pick : Nat) :
    ((construct W (run W h).1 spec pick).2.map (fun c => (c.str, c.epsg))) = freshOut W spec :=
  (construct_text W hW _ spec pick (textInv_run W hW h ht) hs).2

end OdcGeo.C19
