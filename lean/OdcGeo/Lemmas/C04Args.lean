/- Helper lemmas for `Props/C04Args.lean` (argument glue of C04). -/
import OdcGeo.Model.C04Args
import OdcGeo.Model.C04Spec
import OdcGeo.Lemmas.C04
namespace OdcGeo.C04
open OdcGeo OdcGeo.C17 OdcGeo.NpArray

/-! ### tuple indexing -/

theorem npGet_ok_iff (a : List Int) (i v : Int) :
    npGet a i = .ok v ↔
      (0 ≤ wrapKey a.length i ∧ wrapKey a.length i < a.length) ∧ a[(wrapKey a.length i).toNat]? = some v := by
  unfold npGet wrapKey
  simp only []
  generalize (if i < 0 then i + (a.length : Int) else i) = j
  by_cases hc : j < 0 ∨ j ≥ a.length
  · rw [if_pos hc]
    constructor
    · intro h; cases h
    · intro h; omega
  · rw [if_neg hc]
    have hj : j.toNat < a.length := by omega
    rw [List.getElem?_eq_getElem hj]
    constructor
    · intro h; cases h; exact ⟨by omega, rfl⟩
    · intro h; have := h.2; simp only [Option.some.injEq] at this; rw [this]

theorem npGet_error (a : List Int) (i : Int) (e : ErrKind) (h : npGet a i = .error e) : e = .indexError := by
  unfold npGet at h
  simp only [] at h
  generalize (if i < 0 then i + (a.length : Int) else i) = j at h
  by_cases hc : j < 0 ∨ j ≥ a.length
  · rw [if_pos hc] at h; cases h; rfl
  · rw [if_neg hc] at h
    cases hw : a[j.toNat]? with
    | none => rw [hw] at h; cases h; rfl
    | some w => rw [hw] at h; cases h

theorem npGet_error_iff (a : List Int) (i : Int) :
    npGet a i = .error .indexError ↔ ¬ (0 ≤ wrapKey a.length i ∧ wrapKey a.length i < a.length) := by
  constructor
  · intro h hin
    have hj : (wrapKey a.length i).toNat < a.length := by omega
    have := (npGet_ok_iff a i a[(wrapKey a.length i).toNat]).2 ⟨hin, List.getElem?_eq_getElem hj⟩
    rw [h] at this; cases this
  · intro h
    cases hr : npGet a i with
    | error e => rw [npGet_error a i e hr]
    | ok v => exact absurd ((npGet_ok_iff a i v).1 hr).1 h

/-! ### lists -/

theorem take_mid_drop (l : List Int) (a : Nat) : l.take a ++ (l.drop a).take 2 ++ l.drop (a + 2) = l := by
  have h1 : l.drop (a + 2) = (l.drop a).drop 2 := by rw [List.drop_drop]
  rw [h1, List.append_assoc, List.take_append_drop, List.take_append_drop]

theorem vstate_of_spliced (axis : Nat) (lead trail : List Int) (cy cx : Int) (hl : lead.length = axis) :
    VState.of axis (lead ++ [cy, cx] ++ trail) = ⟨axis + 2 + trail.length, lead, trail⟩ ∧
      ((lead ++ [cy, cx] ++ trail).drop axis).take 2 = [cy, cx] := by
  subst hl
  refine ⟨?_, ?_⟩
  · simp only [VState.of, VState.mk.injEq]
    refine ⟨by simp; omega, by simp, ?_⟩
    rw [List.append_assoc, List.drop_append]
    simp
  · rw [List.append_assoc, List.drop_append]
    simp

/-! ### `_verify_shape` -/

/-- `state` taken from a block of sufficient rank -/
theorem vstate_of_wf (axis : Nat) (shape : List Int) (h : axis + 2 ≤ shape.length) :
    (VState.of axis shape).lead.length = axis ∧
      (VState.of axis shape).ndim = axis + 2 + (VState.of axis shape).trail.length := by
  simp only [VState.of, List.length_take, List.length_drop]
  omega

theorem checkBlock_ok_iff (chy chx : List Int) (axis : Nat) (st : VState) (b : BlockDesc)
    (hl : st.lead.length = axis) (hn : st.ndim = axis + 2 + st.trail.length) :
    checkBlock chy chx axis st b = .ok () ↔ BlockFits chy chx st.lead st.trail b := by
  unfold checkBlock BlockFits KeyInLayout
  constructor
  · intro h
    by_cases hs : st ≠ VState.of axis b.shape
    · rw [if_pos hs] at h; cases h
    · rw [if_neg hs] at h
      have hs' : st = VState.of axis b.shape := by simpa using hs
      cases hy : npGet chy b.key.1 with
      | error e => rw [hy] at h; cases h
      | ok cy =>
        cases hx : npGet chx b.key.2 with
        | error e => rw [hy, hx] at h; cases h
        | ok cx =>
          rw [hy, hx] at h
          simp only [bind, Except.bind] at h
          by_cases hyx : (b.shape.drop axis).take 2 ≠ [cy, cx]
          · rw [if_pos hyx] at h; cases h
          · have hyx' : (b.shape.drop axis).take 2 = [cy, cx] := by simpa using hyx
            have hy' := (npGet_ok_iff _ _ _).1 hy
            have hx' := (npGet_ok_iff _ _ _).1 hx
            refine ⟨⟨hy'.1, hx'.1⟩, cy, cx, hy'.2, hx'.2, ?_⟩
            have := take_mid_drop b.shape axis
            rw [hyx'] at this
            rw [hs']
            exact this.symm
  · rintro ⟨⟨ky, kx⟩, cy, cx, hy, hx, hshape⟩
    have hy' := (npGet_ok_iff chy b.key.1 cy).2 ⟨ky, hy⟩
    have hx' := (npGet_ok_iff chx b.key.2 cx).2 ⟨kx, hx⟩
    obtain ⟨e1, e2⟩ := vstate_of_spliced axis st.lead st.trail cy cx hl
    have hs : st = VState.of axis b.shape := by
      rw [hshape, e1]
      cases st
      simp only [VState.mk.injEq] at *
      simp [hn]
    rw [if_neg (by simpa using hs), hy', hx']
    simp only [bind, Except.bind]
    rw [hshape, e2]
    simp

/-- why a block is refused: the extra-dimension test comes first, then the key, then `Y, X` -/
theorem checkBlock_error_iff (chy chx : List Int) (axis : Nat) (st : VState) (b : BlockDesc) (e : ErrKind) :
    checkBlock chy chx axis st b = .error e ↔
      (st ≠ VState.of axis b.shape ∧ e = .valueError) ∨
      (st = VState.of axis b.shape ∧ ¬ KeyInLayout chy chx b ∧ e = .indexError) ∨
      (st = VState.of axis b.shape ∧ KeyInLayout chy chx b ∧
        (∀ cy cx, chy[(wrapKey chy.length b.key.1).toNat]? = some cy →
          chx[(wrapKey chx.length b.key.2).toNat]? = some cx → (b.shape.drop axis).take 2 ≠ [cy, cx]) ∧
        e = .valueError) := by
  unfold checkBlock KeyInLayout
  by_cases hs : st ≠ VState.of axis b.shape
  · rw [if_pos hs]
    constructor
    · intro h; cases h; exact .inl ⟨hs, rfl⟩
    · rintro (⟨_, rfl⟩ | ⟨h, _⟩ | ⟨h, _⟩)
      · rfl
      · exact absurd h hs
      · exact absurd h hs
  · rw [if_neg hs]
    have hs' : st = VState.of axis b.shape := by simpa using hs
    cases hy : npGet chy b.key.1 with
    | error e' =>
      have := npGet_error _ _ _ hy; subst this
      have ny := (npGet_error_iff _ _).1 hy
      simp only [bind, Except.bind]
      constructor
      · intro h; cases h; exact .inr (.inl ⟨hs', fun h => ny h.1, rfl⟩)
      · rintro (⟨h, _⟩ | ⟨_, _, rfl⟩ | ⟨_, h, _⟩)
        · exact absurd hs' h
        · rfl
        · exact absurd h.1 ny
    | ok cy =>
      have hy' := (npGet_ok_iff _ _ _).1 hy
      cases hx : npGet chx b.key.2 with
      | error e' =>
        have := npGet_error _ _ _ hx; subst this
        have nx := (npGet_error_iff _ _).1 hx
        simp only [bind, Except.bind]
        constructor
        · intro h; cases h; exact .inr (.inl ⟨hs', fun h => nx h.2, rfl⟩)
        · rintro (⟨h, _⟩ | ⟨_, _, rfl⟩ | ⟨_, h, _⟩)
          · exact absurd hs' h
          · rfl
          · exact absurd h.2 nx
      | ok cx =>
        have hx' := (npGet_ok_iff _ _ _).1 hx
        simp only [bind, Except.bind]
        by_cases hyx : (b.shape.drop axis).take 2 ≠ [cy, cx]
        · rw [if_pos hyx]
          constructor
          · intro h; cases h
            refine .inr (.inr ⟨hs', ⟨hy'.1, hx'.1⟩, ?_, rfl⟩)
            intro cy' cx' h1 h2
            rw [hy'.2] at h1; rw [hx'.2] at h2
            cases h1; cases h2; exact hyx
          · rintro (⟨h, _⟩ | ⟨_, h, _⟩ | ⟨_, _, _, rfl⟩)
            · exact absurd hs' h
            · exact absurd ⟨hy'.1, hx'.1⟩ h
            · rfl
        · rw [if_neg hyx]
          constructor
          · intro h; cases h
          · rintro (⟨h, _⟩ | ⟨_, h, _⟩ | ⟨_, _, h, _⟩)
            · exact absurd hs' h
            · exact absurd ⟨hy'.1, hx'.1⟩ h
            · exact absurd (by simpa using hyx) (h cy cx hy'.2 hx'.2)

theorem verifyLoop_some_ok_iff (chy chx : List Int) (axis : Nat) (st : VState) (bs : List BlockDesc)
    (r : Option VState) :
    verifyLoop chy chx axis (some st) bs = .ok r ↔
      r = some st ∧ ∀ b ∈ bs, checkBlock chy chx axis st b = .ok () := by
  induction bs with
  | nil =>
    simp only [verifyLoop, List.not_mem_nil, false_imp_iff, implies_true, and_true]
    constructor
    · intro h; cases h; rfl
    · intro h; rw [h]
  | cons b bs ih =>
    simp only [verifyLoop, bind, Except.bind]
    cases hb : checkBlock chy chx axis st b with
    | error e =>
      simp only []
      constructor
      · intro h; cases h
      · intro h; have := h.2 b (by simp); rw [hb] at this; cases this
    | ok u =>
      simp only []
      rw [ih]
      constructor
      · rintro ⟨h1, h2⟩
        refine ⟨h1, ?_⟩
        intro b' hb'
        rcases List.mem_cons.1 hb' with rfl | hb'
        · exact hb
        · exact h2 b' hb'
      · rintro ⟨h1, h2⟩
        exact ⟨h1, fun b' hb' => h2 b' (List.mem_cons_of_mem _ hb')⟩

/-- the loop stops at the first block that is refused -/
theorem verifyLoop_some_error_iff (chy chx : List Int) (axis : Nat) (st : VState) (bs : List BlockDesc)
    (e : ErrKind) :
    verifyLoop chy chx axis (some st) bs = .error e ↔
      ∃ pre b post, bs = pre ++ b :: post ∧ (∀ b' ∈ pre, checkBlock chy chx axis st b' = .ok ()) ∧
        checkBlock chy chx axis st b = .error e := by
  induction bs with
  | nil =>
    simp only [verifyLoop]
    constructor
    · intro h; cases h
    · rintro ⟨pre, b, post, h, _⟩
      cases pre <;> cases h
  | cons b bs ih =>
    simp only [verifyLoop, bind, Except.bind]
    cases hb : checkBlock chy chx axis st b with
    | error e' =>
      simp only []
      constructor
      · intro h; cases h; exact ⟨[], b, bs, rfl, by simp, hb⟩
      · rintro ⟨pre, b', post, h, hpre, he⟩
        cases pre with
        | nil =>
          simp only [List.nil_append, List.cons.injEq] at h
          rw [← h.1, hb] at he; cases he; rfl
        | cons p pre =>
          simp only [List.cons_append, List.cons.injEq] at h
          have := hpre p (by simp)
          rw [← h.1, hb] at this; cases this
    | ok u =>
      simp only []
      rw [ih]
      constructor
      · rintro ⟨pre, b', post, h, hpre, he⟩
        refine ⟨b :: pre, b', post, by rw [h]; rfl, ?_, he⟩
        intro b'' hb''
        rcases List.mem_cons.1 hb'' with rfl | hb''
        · exact hb
        · exact hpre b'' hb''
      · rintro ⟨pre, b', post, h, hpre, he⟩
        cases pre with
        | nil =>
          simp only [List.nil_append, List.cons.injEq] at h
          rw [← h.1, hb] at he; cases he
        | cons p pre =>
          simp only [List.cons_append, List.cons.injEq] at h
          exact ⟨pre, b', post, h.2, fun b'' hb'' => hpre b'' (List.mem_cons_of_mem _ hb''), he⟩

theorem verifyShape_nil (chy chx : List Int) (axis : Nat) :
    verifyShape chy chx axis [] = .ok [total chy, total chx] := rfl

theorem verifyShape_few (chy chx : List Int) (axis : Nat) (b0 : BlockDesc) (rest : List BlockDesc)
    (h : b0.shape.length < axis + 2) : verifyShape chy chx axis (b0 :: rest) = .error .valueError := by
  simp only [verifyShape, verifyLoop, if_pos h, bind, Except.bind]

theorem verifyShape_cons_eq (chy chx : List Int) (axis : Nat) (b0 : BlockDesc) (rest : List BlockDesc)
    (h : axis + 2 ≤ b0.shape.length) :
    verifyShape chy chx axis (b0 :: rest) =
      match verifyLoop chy chx axis (some (VState.of axis b0.shape)) (b0 :: rest) with
      | .error e => .error e
      | .ok _ => .ok (b0.shape.take axis ++ [total chy, total chx] ++ b0.shape.drop (axis + 2)) := by
  have hn : ¬ b0.shape.length < axis + 2 := by omega
  have e1 : verifyLoop chy chx axis none (b0 :: rest) =
      verifyLoop chy chx axis (some (VState.of axis b0.shape)) (b0 :: rest) := by
    simp only [verifyLoop, if_neg hn]
  simp only [verifyShape, e1, bind, Except.bind]
  cases hr : verifyLoop chy chx axis (some (VState.of axis b0.shape)) (b0 :: rest) with
  | error e => rfl
  | ok r =>
    have := ((verifyLoop_some_ok_iff _ _ _ _ _ _).1 hr).1
    subst this
    rfl

end OdcGeo.C04
