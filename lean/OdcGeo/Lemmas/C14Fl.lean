/- binary64 rounding `fl64` of `Model/C14.lean`: integers of magnitude below 2^53 are fixed points (helper lemmas for Props/C14Fl.lean). -/
import OdcGeo.Model.C14
import OdcGeo.Lemmas.C14
import Mathlib.Tactic.NormNum
import Mathlib.Tactic.Positivity
namespace OdcGeo.C14

theorem pow2_negNat (j : Nat) : pow2 (-(j : Int)) = 1 / (2 : Rat) ^ j := by
  unfold pow2
  cases j with
  | zero => simp
  | succ j =>
    have : ¬ (0 : Int) ≤ -((j + 1 : Nat) : Int) := by omega
    rw [if_neg this]
    simp

theorem pow2_nat (j : Nat) : pow2 (j : Int) = (2 : Rat) ^ j := by
  unfold pow2
  rw [if_pos (by omega)]
  simp

theorem roundHalfEven_int (z : Int) : roundHalfEven (z : Rat) = z := by
  unfold roundHalfEven
  simp only [Rat.floor_intCast, sub_self]
  rw [if_pos (by norm_num)]

/-- binary64 represents every integer below 2^53 exactly -/
theorem fl64_nat (n : Nat) (hn : n < 2 ^ 53) : fl64 (n : Rat) = (n : Rat) := by
  rcases Nat.eq_zero_or_pos n with rfl | hpos
  · simp [fl64]
  have hne : n ≠ 0 := by omega
  have hq0 : ((n : Rat)) ≠ 0 := by exact_mod_cast hne
  have hqn : ¬ ((n : Rat)) < 0 := by
    have : (0 : Rat) ≤ (n : Rat) := by exact_mod_cast Nat.zero_le n
    linarith
  have hL : n.log2 < 53 := (Nat.log2_lt hne).mpr hn
  obtain ⟨j, hj⟩ : ∃ j : Nat, j + n.log2 = 52 := ⟨52 - n.log2, by omega⟩
  have hlo : 2 ^ n.log2 ≤ n := Nat.log2_self_le hne
  have hhi : n < 2 ^ (n.log2 + 1) := Nat.lt_log2_self
  have he0 : ((n.log2 : Int) - ((Nat.log2 1 : Nat) : Int)) - 52 = -(j : Int) := by
    have : Nat.log2 1 = 0 := by decide
    rw [this]; omega
  -- scaled significand
  have hs : (n : Rat) / pow2 (-(j : Int)) = ((n * 2 ^ j : Nat) : Rat) := by
    rw [pow2_negNat]; push_cast; field_simp
  have h52 : 2 ^ 52 ≤ n * 2 ^ j := by
    calc 2 ^ 52 = 2 ^ n.log2 * 2 ^ j := by rw [← pow_add, Nat.add_comm, hj]
      _ ≤ n * 2 ^ j := Nat.mul_le_mul_right _ hlo
  have h53 : n * 2 ^ j < 2 ^ 53 := by
    calc n * 2 ^ j < 2 ^ (n.log2 + 1) * 2 ^ j := Nat.mul_lt_mul_of_pos_right hhi (by positivity)
      _ = 2 ^ 53 := by rw [← pow_add]; congr 1; omega
  have c1 : ¬ ((n * 2 ^ j : Nat) : Rat) < pow2 52 := by
    rw [show (52 : Int) = ((52 : Nat) : Int) by rfl, pow2_nat]
    have : ((2 : Rat) ^ 52) ≤ ((n * 2 ^ j : Nat) : Rat) := by exact_mod_cast h52
    linarith
  have c2 : ¬ pow2 53 ≤ ((n * 2 ^ j : Nat) : Rat) := by
    rw [show (53 : Int) = ((53 : Nat) : Int) by rfl, pow2_nat]
    have : ((n * 2 ^ j : Nat) : Rat) < (2 : Rat) ^ 53 := by exact_mod_cast h53
    linarith
  have c3 : ¬ (-(j : Int)) < -1074 := by omega
  unfold fl64
  simp only [hq0, if_false, hqn, Rat.num_natCast, Rat.den_natCast, Int.natAbs_natCast, he0, hs, c1, c2, c3]
  rw [show (((n * 2 ^ j : Nat) : Rat)) = (((n * 2 ^ j : Nat) : Int) : Rat) by push_cast; rfl, roundHalfEven_int, pow2_negNat]
  push_cast
  field_simp

theorem fl64_neg (q : Rat) : fl64 (-q) = -fl64 q := by
  unfold fl64
  rcases lt_trichotomy q 0 with h | h | h
  · have h1 : ¬ (-q = 0) := by intro e; linarith [neg_eq_zero.mp e]
    have h2 : ¬ (-q < 0) := by linarith
    have h3 : ¬ (q = 0) := by linarith
    simp only [h1, h2, h3, h, if_true, if_false, neg_neg]
  · subst h; simp
  · have h1 : ¬ (-q = 0) := by intro e; linarith [neg_eq_zero.mp e]
    have h2 : -q < 0 := by linarith
    have h3 : ¬ (q = 0) := by linarith
    have h4 : ¬ (q < 0) := by linarith
    simp only [h1, h2, h3, h4, if_true, if_false, neg_neg]

/-- binary64 represents every integer of magnitude below 2^53 exactly -/
theorem fl64_int (z : Int) (hz : z.natAbs < 2 ^ 53) : fl64 (z : Rat) = (z : Rat) := by
  obtain ⟨n, rfl | rfl⟩ := Int.eq_nat_or_neg z
  · have hn : n < 2 ^ 53 := by simpa using hz
    exact_mod_cast fl64_nat n hn
  · have hn : n < 2 ^ 53 := by simpa using hz
    push_cast
    rw [fl64_neg, fl64_nat n hn]

end OdcGeo.C14
