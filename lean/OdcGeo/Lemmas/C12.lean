/- Helper lemmas for C12. -/
import OdcGeo.Model.C12
import OdcGeo.Props.C04
import Mathlib.Tactic.Linarith
import Mathlib.Algebra.Order.Field.Rat
namespace OdcGeo.C12
open OdcGeo OdcGeo.C17 OdcGeo.C04

theorem clamp_ok (x lo up : Int) (h : lo ≤ up) :
    clamp x lo up = .ok (if x < lo then lo else if x > up then up else x) := by
  simp only [clamp]; rw [if_pos h]

/-- `locate` of an in-image pixel: the tile whose region contains it -/
theorem Tiling.locate_spec (t : Tiling) (hw : t.WF) (j : Int) (hj : 0 ≤ j ∧ j < t.base) :
    ∃ i s, t.locate j = .ok i ∧ (0 ≤ i ∧ i < t.count) ∧ t.getItem (.idx i) = .ok s ∧ s.Has j := by
  cases t with
  | reg N n => exact locate_inverse N n hw j hj
  | var ch =>
    obtain ⟨i, s, h1, h2, h3, h4⟩ := vlocate_inverse ch hw j hj
    exact ⟨i, s, h1, ⟨by omega, by simp only [Tiling.count, vcount_eq]; omega⟩, h3, h4⟩

/-- tile regions are laid out in index order -/
theorem Tiling.region_order (t : Tiling) (hw : t.WF) (i i' : Int) (hi : 0 ≤ i ∧ i < t.count)
    (hi' : 0 ≤ i' ∧ i' < t.count) (hlt : i < i') (s s' : NSlice)
    (hs : t.getItem (.idx i) = .ok s) (hs' : t.getItem (.idx i') = .ok s')
    (y y' : Int) (hy : s.Has y) (hy' : s'.Has y') : y < y' := by
  cases t with
  | reg N n =>
    simp only [Tiling.getItem, Tiling.count] at *
    rw [getItem_idx N n hw i hi] at hs
    rw [getItem_idx N n hw i' hi'] at hs'
    cases hs; cases hs'
    simp only [NSlice.Has] at hy hy'
    have : (i + 1) * n ≤ i' * n := Int.mul_le_mul_of_nonneg_right (by omega) (by have : 0 < n := hw; omega)
    omega
  | var ch =>
    simp only [Tiling.getItem, Tiling.count, vcount_eq] at *
    have e1 := vgetItem_idx ch hw i.toNat (by omega)
    have e2 := vgetItem_idx ch hw i'.toNat (by omega)
    have c1 : ((i.toNat : Nat) : Int) = i := by omega
    have c2 : ((i'.toNat : Nat) : Int) = i' := by omega
    rw [c1] at e1; rw [c2] at e2
    rw [e1] at hs; rw [e2] at hs'
    cases hs; cases hs'
    simp only [NSlice.Has] at hy hy'
    have := pre_mono ch hw.1 (i.toNat + 1) i'.toNat (by omega)
    omega

/-- `locate` is monotone -/
theorem Tiling.locate_mono (t : Tiling) (hw : t.WF) (j j' : Int) (hj : 0 ≤ j ∧ j ≤ j')
    (hj' : j' < t.base) (i i' : Int) (h : t.locate j = .ok i) (h' : t.locate j' = .ok i') :
    i ≤ i' := by
  obtain ⟨a, s, l1, b1, g1, m1⟩ := Tiling.locate_spec t hw j ⟨hj.1, by omega⟩
  obtain ⟨a', s', l2, b2, g2, m2⟩ := Tiling.locate_spec t hw j' ⟨by omega, hj'⟩
  rw [h] at l1; rw [h'] at l2
  cases l1; cases l2
  by_contra hc
  have := Tiling.region_order t hw i' i b2 b1 (by omega) s' s g2 g1 j' j m2 m1
  omega

theorem mem_irange (a b k : Int) : k ∈ irange a b ↔ a ≤ k ∧ k ≤ b := by
  simp only [irange, List.mem_map, List.mem_range]
  constructor
  · rintro ⟨n, hn, rfl⟩; omega
  · intro h; exact ⟨(k - a).toNat, by omega, by omega⟩

theorem mem_product (yy xx : List Int) (p : Int × Int) : p ∈ product yy xx ↔ p.1 ∈ yy ∧ p.2 ∈ xx := by
  simp only [product, List.mem_flatMap, List.mem_map]
  constructor
  · rintro ⟨y, hy, x, hx, rfl⟩; exact ⟨hy, hx⟩
  · rintro ⟨hy, hx⟩; exact ⟨p.1, hy, p.2, hx, rfl⟩

theorem min4_le (a b c d : Rat) : min4 a b c d ≤ a ∧ min4 a b c d ≤ b ∧ min4 a b c d ≤ c ∧ min4 a b c d ≤ d := by
  unfold min4
  exact ⟨le_trans (min_le_left _ _) (min_le_left _ _), le_trans (min_le_left _ _) (min_le_right _ _),
    le_trans (min_le_right _ _) (min_le_left _ _), le_trans (min_le_right _ _) (min_le_right _ _)⟩

theorem le_max4 (a b c d : Rat) : a ≤ max4 a b c d ∧ b ≤ max4 a b c d ∧ c ≤ max4 a b c d ∧ d ≤ max4 a b c d := by
  unfold max4
  exact ⟨le_trans (le_max_left _ _) (le_max_left _ _), le_trans (le_max_right _ _) (le_max_left _ _),
    le_trans (le_max_left _ _) (le_max_right _ _), le_trans (le_max_right _ _) (le_max_right _ _)⟩

/-- a point between `x1` and `x2` maps between the images of the end points (either sign of
the scale: mirrored grids included) -/
theorem scale_between (a c x1 x2 u : Rat) (h : x1 ≤ u ∧ u ≤ x2) :
    min (a * x1 + c) (a * x2 + c) ≤ a * u + c ∧ a * u + c ≤ max (a * x1 + c) (a * x2 + c) := by
  rcases le_total 0 a with ha | ha
  · have h1 : a * x1 ≤ a * u := mul_le_mul_of_nonneg_left h.1 ha
    have h2 : a * u ≤ a * x2 := mul_le_mul_of_nonneg_left h.2 ha
    exact ⟨le_trans (min_le_left _ _) (by linarith), le_trans (by linarith) (le_max_right _ _)⟩
  · have h1 : a * u ≤ a * x1 := mul_le_mul_of_nonpos_left h.1 ha
    have h2 : a * x2 ≤ a * u := mul_le_mul_of_nonpos_left h.2 ha
    exact ⟨le_trans (min_le_right _ _) (by linarith), le_trans (by linarith) (le_max_left _ _)⟩

end OdcGeo.C12
