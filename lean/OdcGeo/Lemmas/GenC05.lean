/-
Fuel lemma for the `while` loop of `_shared.num_overviews` as regenerated in `OdcGeo/Gen/C05.lean`:
with `dim + 1` units of fuel the loop never runs out, and it counts what the hand model `numOverviewsFuel` counts.
The loop state is `(c, dim)` (loop variables in alphabetical order, see tools/py2lean.py).
-/
import OdcGeo.Gen.C05
import OdcGeo.Gen.Tie
import OdcGeo.Model.C05

namespace OdcGeo.C05
open OdcGeo.Gen

/-- the Python value of a modelled block size -/
def Blk.toPy : Blk → Py.IntOrPair
  | .one b => .one b
  | .two b1 b2 => .two b1 b2

theorem gen_loop0_spec : ∀ (fuel : Nat) (b c d : Nat) (bi ci di : Int), bi = b → ci = c → di = d → d < fuel →
    ∃ d' : Int, Gen.C05.num_overviews_loop0 fuel bi ci di = .ok (((c + numOverviewsFuel fuel b d : Nat) : Int), d') := by
  intro fuel
  induction fuel with
  | zero => intro b c d bi ci di _ _ _ h; omega
  | succ fuel ih =>
    intro b c d bi ci di hb hc hd hlt
    simp only [Gen.C05.num_overviews_loop0]
    by_cases hbd : b < d
    · have hcond : bi < di := by omega
      rw [if_pos hcond]
      have hn : c + numOverviewsFuel (fuel + 1) b d = (c + 1) + numOverviewsFuel fuel b (d / 2) := by
        simp only [numOverviewsFuel, if_pos hbd]; omega
      rw [hn]
      exact ih b (c + 1) (d / 2) bi _ _ hb
        (by first | omega | (push_cast; omega))
        (by first | (simp only [Int.fdiv_eq_ediv]; omega) | omega)
        (by omega)
    · have hcond : ¬ bi < di := by omega
      rw [if_neg hcond]
      exact ⟨di, by simp [numOverviewsFuel, hbd, hc]⟩

end OdcGeo.C05
