/- Helper lemmas for C19 part (b) and for CRS equality. -/
import OdcGeo.Model.C19
namespace OdcGeo.C19

theorem PyNum.eq_iff (a b : PyNum) : a.eq b = true ↔ a.val = b.val := by
  simp [PyNum.eq]

theorem numsEq_iff : ∀ (as bs : List PyNum), numsEq as bs = true ↔ as.map (·.val) = bs.map (·.val)
  | [], [] => by simp [numsEq]
  | [], _ :: _ => by simp [numsEq]
  | _ :: _, [] => by simp [numsEq]
  | a :: as, b :: bs => by simp [numsEq, PyNum.eq_iff, numsEq_iff as bs]

theorem map_num_inj : ∀ (as bs : List PyNum), as.map Atom.num = bs.map Atom.num → as = bs
  | [], [] => by simp
  | [], _ :: _ => by simp
  | _ :: _, [] => by simp
  | a :: as, b :: bs => by
    intro h
    simp only [List.map_cons, List.cons.injEq, Atom.num.injEq] at h
    rw [h.1, map_num_inj as bs h.2]

theorem map_hv_congr {as bs : List PyNum} (h : as.map (·.val) = bs.map (·.val)) :
    as.map (fun n => hv n.val) = bs.map (fun n => hv n.val) := by
  have : as.map (fun n => hv n.val) = (as.map (·.val)).map hv := by simp
  rw [this, h]; simp

/-- `crsEq` spelled out. -/
theorem crsEq_iff (a b : CrsObj) : crsEq a b = true ↔
    (a.obj = b.obj ∨
      (a.obj ≠ b.obj ∧ (truthy a.epsg = true ∧ truthy b.epsg = true) ∧ a.epsg = b.epsg) ∨
      (a.obj ≠ b.obj ∧ ¬ (truthy a.epsg = true ∧ truthy b.epsg = true) ∧
        (a.str = b.str ∨ a.info.sys = b.info.sys))) := by
  unfold crsEq
  by_cases h1 : a.obj = b.obj
  · simp [h1]
  · by_cases h2 : truthy a.epsg = true ∧ truthy b.epsg = true
    · simp [h1, h2]
    · by_cases h3 : a.str = b.str
      · have : (truthy a.epsg && truthy b.epsg) = false := by
          cases ha : truthy a.epsg <;> cases hb : truthy b.epsg <;> simp_all
        simp [h1, h3, this, h2]
      · have : (truthy a.epsg && truthy b.epsg) = false := by
          cases ha : truthy a.epsg <;> cases hb : truthy b.epsg <;> simp_all
        simp [h1, h3, this, h2]

/-- **EPSG coherence** on a set `D` of CRS instances: the facts about pyproj the code relies
on when it short-cuts `__eq__` through object identity, cached EPSG codes and strings.
`epsg_sys` is the one real CRSs can violate (finding K4: `to_epsg()` accepts a 70 %
match, so a lossy PROJ string reports the code of a system it is not `==` to). -/
structure Coherent (D : CrsObj → Prop) : Prop where
  obj_sys : ∀ a b, D a → D b → a.obj = b.obj → a.info.sys = b.info.sys
  epsg_sys : ∀ a b, D a → D b → truthy a.epsg = true → truthy b.epsg = true →
    (a.epsg = b.epsg ↔ a.info.sys = b.info.sys)
  str_sys : ∀ a b, D a → D b → a.str = b.str → a.info.sys = b.info.sys
  str_ne_none : ∀ a, D a → a.str ≠ "None"

/-- Under coherence `==` is "denotes the same coordinate system". -/
theorem crs_eq_iff_sys_aux {D : CrsObj → Prop} (hD : Coherent D) (a b : CrsObj) (ha : D a) (hb : D b) :
    crsEq a b = true ↔ a.info.sys = b.info.sys := by
  rw [crsEq_iff]
  constructor
  · rintro (h | ⟨_, h2, h3⟩ | ⟨_, _, h3 | h3⟩)
    · exact hD.obj_sys a b ha hb h
    · exact (hD.epsg_sys a b ha hb h2.1 h2.2).1 h3
    · exact hD.str_sys a b ha hb h3
    · exact h3
  · intro h
    by_cases h1 : a.obj = b.obj
    · exact Or.inl h1
    · by_cases h2 : truthy a.epsg = true ∧ truthy b.epsg = true
      · exact Or.inr (Or.inl ⟨h1, h2, (hD.epsg_sys a b ha hb h2.1 h2.2).2 h⟩)
      · exact Or.inr (Or.inr ⟨h1, h2, Or.inr h⟩)


/-- domain predicate lifted to optional CRS fields -/
def OptD (D : CrsObj → Prop) : Option CrsObj → Prop
  | none => True
  | some c => D c

theorem optCrsEq_iff {D : CrsObj → Prop} (hD : Coherent D) (a b : Option CrsObj)
    (ha : OptD D a) (hb : OptD D b) :
    optCrsEq a b = true ↔ a.map (·.info.sys) = b.map (·.info.sys) := by
  cases a <;> cases b <;> simp [optCrsEq]
  exact crs_eq_iff_sys_aux hD _ _ ha hb

theorem optCrsEq_of_str {D : CrsObj → Prop} (hD : Coherent D) (a b : Option CrsObj)
    (ha : OptD D a) (hb : OptD D b) (h : optCrsStr a = optCrsStr b) : optCrsEq a b = true := by
  cases a with
  | none =>
    cases b with
    | none => rfl
    | some b => exact absurd h.symm (hD.str_ne_none b hb)
  | some a =>
    cases b with
    | none => exact absurd h (hD.str_ne_none a ha)
    | some b =>
      exact (crs_eq_iff_sys_aux hD a b ha hb).2 (hD.str_sys a b ha hb h)

theorem optCrsEq_of_pkl {D : CrsObj → Prop} (hD : Coherent D) (a b : Option CrsObj)
    (ha : OptD D a) (hb : OptD D b) (h : optCrsPkl a = optCrsPkl b) : optCrsEq a b = true := by
  cases a with
  | none =>
    cases b with
    | none => rfl
    | some b => simp [optCrsPkl] at h
  | some a =>
    cases b with
    | none => simp [optCrsPkl] at h
    | some b =>
      have hs : a.str = b.str := by simpa [optCrsPkl] using h
      exact (crs_eq_iff_sys_aux hD a b ha hb).2 (hD.str_sys a b ha hb hs)

theorem optCrsEq_refl (a : Option CrsObj) : optCrsEq a a = true := by
  cases a <;> simp [optCrsEq, crsEq]

end OdcGeo.C19
