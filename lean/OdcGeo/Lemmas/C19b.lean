/- Helper lemmas for C19 part (b). -/
import OdcGeo.Model.C19
namespace OdcGeo.C19

end OdcGeo.C19
