/-
Solvability of the normal equations of `affine_from_pts`: the Gram determinant of `[x y 1]` is positive as soon as three
of the source points are not collinear (Cauchy–Binet in the form of two rank-one update identities), so `solveNormal` /
`lstsqNormal` return a solution.
-/
import OdcGeo.Lemmas.C20f
import Mathlib.Data.List.Perm.Basic
import Mathlib.Algebra.BigOperators.Group.List.Basic

namespace OdcGeo.C20

/-- symmetric 3×3 matrix `[[xx, xy, x], [xy, yy, y], [x, y, one]]` -/
structure Sym3 where
  xx : Rat
  xy : Rat
  yy : Rat
  x : Rat
  y : Rat
  one : Rat

abbrev V3 := Rat × Rat × Rat

def Sym3.det (g : Sym3) : Rat := det3 g.xx g.xy g.x g.xy g.yy g.y g.x g.y g.one

/-- `wᵀ · adj(g) · w` -/
def Sym3.adjQ (g : Sym3) (w : V3) : Rat :=
  (g.yy * g.one - g.y * g.y) * w.1 * w.1 + (g.xx * g.one - g.x * g.x) * w.2.1 * w.2.1 +
  (g.xx * g.yy - g.xy * g.xy) * w.2.2 * w.2.2 + 2 * (g.x * g.y - g.xy * g.one) * w.1 * w.2.1 +
  2 * (g.xy * g.y - g.yy * g.x) * w.1 * w.2.2 + 2 * (g.xy * g.x - g.xx * g.y) * w.2.1 * w.2.2

/-- `uᵀ · g · u` -/
def Sym3.quad (g : Sym3) (u : V3) : Rat :=
  g.xx * u.1 * u.1 + 2 * g.xy * u.1 * u.2.1 + g.yy * u.2.1 * u.2.1 + 2 * g.x * u.1 * u.2.2 +
  2 * g.y * u.2.1 * u.2.2 + g.one * u.2.2 * u.2.2

/-- `g + v·vᵀ` -/
def Sym3.addRank1 (g : Sym3) (v : V3) : Sym3 :=
  ⟨g.xx + v.1 * v.1, g.xy + v.1 * v.2.1, g.yy + v.2.1 * v.2.1, g.x + v.1 * v.2.2, g.y + v.2.1 * v.2.2,
   g.one + v.2.2 * v.2.2⟩

def cross (v w : V3) : V3 := (v.2.1 * w.2.2 - v.2.2 * w.2.1, v.2.2 * w.1 - v.1 * w.2.2, v.1 * w.2.1 - v.2.1 * w.1)
def dot (u v : V3) : Rat := u.1 * v.1 + u.2.1 * v.2.1 + u.2.2 * v.2.2

theorem det_addRank1 (g : Sym3) (v : V3) : (g.addRank1 v).det = g.det + g.adjQ v := by
  simp only [Sym3.det, Sym3.adjQ, Sym3.addRank1, det3]; ring

theorem adjQ_addRank1 (g : Sym3) (v w : V3) : (g.addRank1 v).adjQ w = g.adjQ w + g.quad (cross v w) := by
  simp only [Sym3.adjQ, Sym3.quad, Sym3.addRank1, cross]; ring

theorem quad_addRank1 (g : Sym3) (v u : V3) : (g.addRank1 v).quad u = g.quad u + dot u v * dot u v := by
  simp only [Sym3.quad, Sym3.addRank1, dot]; ring

/-- the Gram matrix of the rows `[x y 1]`, with exactly the sums `solveNormal` forms -/
def gram (X : List (Rat × Rat)) : Sym3 :=
  ⟨(X.map fun p => p.1 * p.1).sum, (X.map fun p => p.1 * p.2).sum, (X.map fun p => p.2 * p.2).sum,
   (X.map fun p => p.1).sum, (X.map fun p => p.2).sum, ((X.length : Nat) : Rat)⟩

def lift (p : Rat × Rat) : V3 := (p.1, p.2, 1)

theorem gram_cons (p : Rat × Rat) (X : List (Rat × Rat)) : gram (p :: X) = (gram X).addRank1 (lift p) := by
  simp only [gram, Sym3.addRank1, lift, List.map_cons, List.sum_cons, List.length_cons]
  congr 1 <;> first | ring1 | (push_cast; ring1)

theorem gram_perm {X Y : List (Rat × Rat)} (h : X.Perm Y) : gram X = gram Y := by
  simp only [gram]
  rw [(h.map _).sum_eq, (h.map _).sum_eq, (h.map _).sum_eq, (h.map _).sum_eq, (h.map _).sum_eq, h.length_eq]

theorem gram_nonneg (X : List (Rat × Rat)) :
    (∀ u, 0 ≤ (gram X).quad u) ∧ (∀ w, 0 ≤ (gram X).adjQ w) ∧ 0 ≤ (gram X).det := by
  induction X with
  | nil => simp [gram, Sym3.quad, Sym3.adjQ, Sym3.det, det3]
  | cons p X ih =>
    obtain ⟨hq, ha, hd⟩ := ih
    rw [gram_cons]
    refine ⟨fun u => ?_, fun w => ?_, ?_⟩
    · rw [quad_addRank1]; nlinarith [hq u, mul_self_nonneg (dot u (lift p))]
    · rw [adjQ_addRank1]; linarith [ha w, hq (cross (lift p) w)]
    · rw [det_addRank1]; linarith [ha (lift p)]

/-- **Gram determinant ≥ squared triple product** of any three of the points (listed first). -/
theorem gram_det_ge (p q r : Rat × Rat) (X : List (Rat × Rat)) :
    dot (cross (lift q) (lift p)) (lift r) * dot (cross (lift q) (lift p)) (lift r) ≤ (gram (p :: q :: r :: X)).det := by
  obtain ⟨hq, ha, hd⟩ := gram_nonneg X
  obtain ⟨hq1, ha1, hd1⟩ := gram_nonneg (r :: X)
  obtain ⟨hq2, ha2, hd2⟩ := gram_nonneg (q :: r :: X)
  rw [gram_cons p, det_addRank1, gram_cons q, adjQ_addRank1, gram_cons r, quad_addRank1]
  have h1 := hq (cross (lift q) (lift p))
  have h2 : 0 ≤ ((gram X).addRank1 (lift r)).adjQ (lift p) := by rw [← gram_cons]; exact ha1 (lift p)
  have h3 : 0 ≤ (((gram X).addRank1 (lift r)).addRank1 (lift q)).det := by rw [← gram_cons, ← gram_cons]; exact hd2
  linarith

theorem triple_eq (p q r : Rat × Rat) :
    dot (cross (lift q) (lift p)) (lift r) = -((q.1 - p.1) * (r.2 - p.2) - (q.2 - p.2) * (r.1 - p.1)) := by
  simp only [dot, cross, lift]; ring

/-- three members of a list can be moved to the front -/
theorem perm_three {α : Type} [DecidableEq α] {X : List α} {p q r : α} (hp : p ∈ X) (hq : q ∈ X) (hr : r ∈ X)
    (hpq : p ≠ q) (hpr : p ≠ r) (hqr : q ≠ r) : ∃ X', X.Perm (p :: q :: r :: X') := by
  have h1 := List.perm_cons_erase hp
  have hq' : q ∈ X.erase p := (List.mem_erase_of_ne (Ne.symm hpq)).mpr hq
  have hr' : r ∈ X.erase p := (List.mem_erase_of_ne (Ne.symm hpr)).mpr hr
  have h2 := List.perm_cons_erase hq'
  have hr'' : r ∈ (X.erase p).erase q := (List.mem_erase_of_ne (Ne.symm hqr)).mpr hr'
  have h3 := List.perm_cons_erase hr''
  exact ⟨((X.erase p).erase q).erase r, h1.trans ((h2.trans (h3.cons q)).cons p)⟩

/-- **Three non-collinear source points make the Gram determinant positive.** -/
theorem gram_det_pos {X : List (Rat × Rat)} {p q r : Rat × Rat} (hp : p ∈ X) (hq : q ∈ X) (hr : r ∈ X)
    (hnc : (q.1 - p.1) * (r.2 - p.2) - (q.2 - p.2) * (r.1 - p.1) ≠ 0) : 0 < (gram X).det := by
  have hpq : p ≠ q := by rintro rfl; simp at hnc
  have hpr : p ≠ r := by rintro rfl; simp at hnc
  have hqr : q ≠ r := by rintro rfl; exact hnc (by ring)
  obtain ⟨X', hperm⟩ := perm_three hp hq hr hpq hpr hqr
  rw [gram_perm hperm]
  have := gram_det_ge p q r X'
  rw [triple_eq] at this
  have hpos : 0 < ((q.1 - p.1) * (r.2 - p.2) - (q.2 - p.2) * (r.1 - p.1)) * ((q.1 - p.1) * (r.2 - p.2) - (q.2 - p.2) * (r.1 - p.1)) :=
    mul_self_pos.mpr hnc
  nlinarith

/-- `solveNormal` succeeds for such a point set (any targets). -/
theorem solveNormal_isSome {X : List (Rat × Rat)} (ys : List Rat) {p q r : Rat × Rat} (hp : p ∈ X) (hq : q ∈ X) (hr : r ∈ X)
    (hnc : (q.1 - p.1) * (r.2 - p.2) - (q.2 - p.2) * (r.1 - p.1) ≠ 0) : ∃ t, solveNormal X ys = some t := by
  have hD : (gram X).det ≠ 0 := ne_of_gt (gram_det_pos hp hq hr hnc)
  unfold solveNormal
  simp only
  have : det3 (X.map fun p => p.1 * p.1).sum (X.map fun p => p.1 * p.2).sum (X.map fun p => p.1).sum
      (X.map fun p => p.1 * p.2).sum (X.map fun p => p.2 * p.2).sum (X.map fun p => p.2).sum
      (X.map fun p => p.1).sum (X.map fun p => p.2).sum ((X.length : Nat) : Rat) = (gram X).det := rfl
  rw [this, if_neg hD]
  exact ⟨_, rfl⟩

theorem lstsqNormal_isSome {X : List (Rat × Rat)} (Y : List (Rat × Rat)) {p q r : Rat × Rat} (hp : p ∈ X) (hq : q ∈ X)
    (hr : r ∈ X) (hnc : (q.1 - p.1) * (r.2 - p.2) - (q.2 - p.2) * (r.1 - p.1) ≠ 0) : ∃ M, lstsqNormal X Y = some M := by
  obtain ⟨t1, h1⟩ := solveNormal_isSome (Y.map (·.1)) hp hq hr hnc
  obtain ⟨t2, h2⟩ := solveNormal_isSome (Y.map (·.2)) hp hq hr hnc
  unfold lstsqNormal
  rw [h1, h2]
  exact ⟨_, rfl⟩

end OdcGeo.C20
