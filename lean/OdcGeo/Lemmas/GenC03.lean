/-
Bridges between the translator's prelude and the vocabulary of the hand model `OdcGeo/Model/C03.lean`
(which has its own copies of the numeric helpers of `math.py`), used by `Props/GenC03.lean`.
-/
import OdcGeo.Gen.PyPrelude
import OdcGeo.Gen.Tie
import OdcGeo.Model.C03

namespace OdcGeo.C03
open OdcGeo.Gen

theorem py_trunc_eq (x : Rat) : Py.trunc x = trunc x := rfl
theorem py_absR_eq (x : Rat) : Py.absR x = rabs x := rfl

theorem py_fmod_one (x : Rat) : Py.fmod x 1 = fmod1 x := by
  simp [Py.fmod, fmod1, py_trunc_eq]

theorem trunc_intCast (k : Int) : trunc (k : Rat) = k := by
  unfold trunc
  split <;> simp

/-- the whole part `split_float` returns is an integer, so `int(x_whole)` changes nothing -/
theorem trunc_splitFloat_whole (x : Rat) : ((trunc (splitFloat x).1 : Int) : Rat) = (splitFloat x).1 := by
  have hw : x - fmod1 x = ((trunc x : Int) : Rat) := by unfold fmod1; ring
  unfold splitFloat
  simp only [hw]
  split
  · have : ((trunc x : Int) : Rat) + 1 = ((trunc x + 1 : Int) : Rat) := by push_cast; ring
    rw [this, trunc_intCast]
  · split
    · have : ((trunc x : Int) : Rat) - 1 = ((trunc x - 1 : Int) : Rat) := by push_cast; ring
      rw [this, trunc_intCast]
    · rw [trunc_intCast]

end OdcGeo.C03
