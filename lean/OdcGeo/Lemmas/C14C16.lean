/-
Helper lemmas for Props/C14C16.lean.
C14 × C16 — composition of the GridSpec model with the BoundingBox model of property C16
(`BoundingBox.from_transform`, geom.py:276-292, as repaired on HEAD).

* every tile handed out by a GridSpec, looked at through C16's `from_transform`, has the bin rectangle as bounding box;
* the public path `gs.tiles(geobox.boundingbox)` for ANY GeoBox (rotated, sheared, mirrored affine): the returned tiles
  cover the whole footprint of the GeoBox except possibly the `tol`-wide band along the edges of its bounding box, and
  nothing farther than `tol` from the bounding box is returned.
-/
import OdcGeo.Model.C14Args
import OdcGeo.Lemmas.C14
import OdcGeo.Model.C16

namespace OdcGeo.C14

/-- the bounding box record of C16 as the query box of C14 -/
def ofC16 (b : C16.BBox Rat) : BBox := ⟨b.left, b.bottom, b.right, b.top⟩

theorem aff_min (a b c u v N M : Rat) (hu0 : 0 ≤ u) (hu : u ≤ N) (hv0 : 0 ≤ v) (hv : v ≤ M) :
    min (min (min (a * 0 + b * 0 + c) (a * 0 + b * M + c)) (a * N + b * M + c)) (a * N + b * 0 + c) ≤ a * u + b * v + c := by
  rcases le_total 0 a with ha | ha <;> rcases le_total 0 b with hb | hb
  · refine le_trans (le_trans (min_le_left _ _) (le_trans (min_le_left _ _) (min_le_left _ _))) ?_
    nlinarith [mul_nonneg ha hu0, mul_nonneg hb hv0]
  · refine le_trans (le_trans (min_le_left _ _) (le_trans (min_le_left _ _) (min_le_right _ _))) ?_
    nlinarith [mul_nonneg ha hu0, mul_nonneg (neg_nonneg.mpr hb) (sub_nonneg.mpr hv)]
  · refine le_trans (min_le_right _ _) ?_
    nlinarith [mul_nonneg (neg_nonneg.mpr ha) (sub_nonneg.mpr hu), mul_nonneg hb hv0]
  · refine le_trans (le_trans (min_le_left _ _) (min_le_right _ _)) ?_
    nlinarith [mul_nonneg (neg_nonneg.mpr ha) (sub_nonneg.mpr hu), mul_nonneg (neg_nonneg.mpr hb) (sub_nonneg.mpr hv)]

theorem aff_max (a b c u v N M : Rat) (hu0 : 0 ≤ u) (hu : u ≤ N) (hv0 : 0 ≤ v) (hv : v ≤ M) :
    a * u + b * v + c ≤ max (max (max (a * 0 + b * 0 + c) (a * 0 + b * M + c)) (a * N + b * M + c)) (a * N + b * 0 + c) := by
  rcases le_total 0 a with ha | ha <;> rcases le_total 0 b with hb | hb
  · refine le_trans ?_ (le_trans (le_max_right _ _) (le_max_left _ _))
    nlinarith [mul_nonneg ha (sub_nonneg.mpr hu), mul_nonneg hb (sub_nonneg.mpr hv)]
  · refine le_trans ?_ (le_max_right _ _)
    nlinarith [mul_nonneg ha (sub_nonneg.mpr hu), mul_nonneg (neg_nonneg.mpr hb) hv0]
  · refine le_trans ?_ (le_trans (le_trans (le_max_right _ _) (le_max_left _ _)) (le_max_left _ _))
    nlinarith [mul_nonneg (neg_nonneg.mpr ha) hu0, mul_nonneg hb (sub_nonneg.mpr hv)]
  · refine le_trans ?_ (le_trans (le_trans (le_max_left _ _) (le_max_left _ _)) (le_max_left _ _))
    nlinarith [mul_nonneg (neg_nonneg.mpr ha) hu0, mul_nonneg (neg_nonneg.mpr hb) hv0]

/-- `BoundingBox.from_transform` (C16 model) contains the image of every point of the pixel rectangle -/
theorem c16_from_transform_contains (ny nx : Int) (A : Aff) (crs : Option Nat) (u v : Rat)
    (hu0 : 0 ≤ u) (hu : u ≤ (nx : Rat)) (hv0 : 0 ≤ v) (hv : v ≤ (ny : Rat)) :
    (ofC16 (C16.BBox.fromTransform ny nx A crs)).memClosed (A.apply (u, v)) := by
  unfold ofC16 C16.BBox.fromTransform C16.bboxOfPoints BBox.memClosed Aff.apply
  simp only [List.map, C16.minL, C16.maxL]
  exact ⟨aff_min A.a A.b A.c u v nx ny hu0 hu hv0 hv, aff_max A.a A.b A.c u v nx ny hu0 hu hv0 hv,
    aff_min A.d A.e A.f u v nx ny hu0 hu hv0 hv, aff_max A.d A.e A.f u v nx ny hu0 hu hv0 hv⟩

end OdcGeo.C14
