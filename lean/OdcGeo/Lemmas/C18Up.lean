/-
Helper lemmas for `Props/C18Up.lean` (the in-process S3 writer with bodies, `cancel("all")` next to uploads
of other keys).
-/
import OdcGeo.Model.C18Up
import OdcGeo.Lemmas.C18

set_option linter.unusedVariables false
set_option linter.unusedSimpArgs false

namespace OdcGeo.C18
namespace Up

theorem gather_of_lookup (held : List (Nat × Bytes)) (f : Nat → Bytes) :
    ∀ ps : List Nat, (∀ p ∈ ps, held.lookup p = some (f p)) → gather held ps = some (ps.map f)
  | [], _ => rfl
  | p :: ps, h => by
    have h1 := h p List.mem_cons_self
    have h2 := gather_of_lookup held f ps (fun q hq => h q (List.mem_cons_of_mem _ hq))
    simp [gather, h1, h2]

theorem ascending_of_pairwise : ∀ ps : List Nat, ps.Pairwise (· < ·) → ascending ps = true
  | [], _ => rfl
  | [_], _ => rfl
  | a :: b :: rest, h => by
    have h' := List.pairwise_cons.1 h
    have hab : a < b := h'.1 b List.mem_cons_self
    simp [ascending, hab, ascending_of_pairwise (b :: rest) h'.2]

theorem sizesOk_of_dropLast (m : Nat) :
    ∀ bs : List Bytes, (∀ b ∈ bs.dropLast, m ≤ b.length) → sizesOk m bs = true
  | [], _ => rfl
  | [_], _ => rfl
  | b :: c :: rest, h => by
    have hb : m ≤ b.length := h b (by simp [List.dropLast])
    have hr := sizesOk_of_dropLast m (c :: rest) (fun x hx => h x (by
      simp only [List.dropLast_cons₂]; exact List.mem_cons_of_mem _ hx))
    simp [sizesOk, hb, hr]

/-- the parts list of the sink model and the service's table evolve alike -/
theorem foldl_put_eq_sink (ws : List (Nat × Bytes)) :
    ∀ s : Sink, (ws.foldl Sink.write s).parts = ws.foldl put s.parts := by
  induction ws with
  | nil => intro s; rfl
  | cons w ws ih => intro s; simp only [List.foldl_cons]; rw [ih]; rfl

theorem lookup_foldl_put (ws : List (Nat × Bytes)) (hnd : (ws.map (·.1)).Nodup) (w : Nat × Bytes) (hw : w ∈ ws) :
    (ws.foldl put []).lookup w.1 = some w.2 := by
  have h := Sink.lookup_foldl_write ws hnd {} w hw
  have h2 := foldl_put_eq_sink ws {}
  simp only [Sink.lookup] at h
  rw [h2] at h
  exact h

theorem mem_dropLast_map {α β : Type} (g : α → β) :
    ∀ (l : List α) (b : β), b ∈ (l.map g).dropLast → ∃ a ∈ l.dropLast, g a = b
  | [], b, h => by simp at h
  | [a], b, h => by simp at h
  | a :: a' :: rest, b, h => by
    simp only [List.map_cons, List.dropLast_cons₂, List.mem_cons] at h ⊢
    rcases h with rfl | h
    · exact ⟨a, Or.inl rfl, rfl⟩
    · obtain ⟨x, hx, e⟩ := mem_dropLast_map g (a' :: rest) b (by simpa using h)
      exact ⟨x, Or.inr hx, e⟩

/-- the writer has initiated upload 1, which is active and holds `held` -/
structure Started (s : State) (held : List (Nat × Bytes)) : Prop where
  uid : s.uploadId = 1
  creates : s.creates = 1
  live : s.live = true
  held : s.held = held
  ids : ∀ c ∈ s.calls, c.id = 1
  count : s.calls.countP UCall.isCreate = 1

theorem ensureInit_started {s : State} {h : List (Nat × Bytes)} (hs : Started s h) : ensureInit s = s := by
  simp [ensureInit, hs.uid]

theorem write_started {s : State} {h : List (Nat × Bytes)} (hs : Started s h) (w : Nat × Bytes) :
    (write s w).2 = none ∧ Started (write s w).1 (put h w) ∧ (write s w).1.object = s.object := by
  simp only [write, ensureInit_started hs, hs.live, if_true]
  refine ⟨trivial, ⟨hs.uid, hs.creates, rfl, by simp [hs.held], ?_, ?_⟩, trivial⟩
  · intro c hc
    simp only [List.mem_cons] at hc
    rcases hc with rfl | hc
    · simp [UCall.id, hs.uid]
    · exact hs.ids c hc
  · simp [List.countP_cons, UCall.isCreate, hs.count]

theorem write_fresh (w : Nat × Bytes) :
    (write {} w).2 = none ∧ Started (write {} w).1 (put [] w) ∧ (write {} w).1.object = none := by
  refine ⟨rfl, ⟨rfl, rfl, rfl, rfl, ?_, ?_⟩, rfl⟩
  · intro c hc
    simp [write, ensureInit] at hc
    rcases hc with rfl | rfl <;> rfl
  · simp [write, ensureInit, List.countP_cons, UCall.isCreate]

theorem runWrites_started (ws : List (Nat × Bytes)) :
    ∀ (s : State) (h : List (Nat × Bytes)), Started s h →
      (runWrites s ws).2 = none ∧ Started (runWrites s ws).1 (ws.foldl put h) ∧
        (runWrites s ws).1.object = s.object := by
  induction ws with
  | nil => intro s h hs; exact ⟨rfl, hs, rfl⟩
  | cons w ws ih =>
    intro s h hs
    obtain ⟨h1, h2, h3⟩ := write_started hs w
    have hw : write s w = ((write s w).1, none) := by rw [← h1]
    have := ih _ _ h2
    simp only [runWrites]
    rw [hw]
    simp only [List.foldl_cons]
    exact ⟨this.1, this.2.1, this.2.2.trans h3⟩

/-- after any writes on a fresh object, `_ensure_init` leaves upload 1 active with the parts written -/
theorem runWrites_fresh (ws : List (Nat × Bytes)) :
    (runWrites {} ws).2 = none ∧ Started (ensureInit (runWrites {} ws).1) (ws.foldl put []) ∧
      (ensureInit (runWrites {} ws).1).object = none := by
  cases ws with
  | nil =>
    refine ⟨rfl, ⟨rfl, rfl, rfl, rfl, ?_, ?_⟩, rfl⟩
    · intro c hc
      simp [runWrites, ensureInit] at hc
      subst hc; rfl
    · simp [runWrites, ensureInit, List.countP_cons, UCall.isCreate]
  | cons w ws =>
    obtain ⟨h1, h2, h3⟩ := write_fresh w
    have hw : write {} w = ((write {} w).1, none) := by rw [← h1]
    obtain ⟨g1, g2, g3⟩ := runWrites_started ws _ _ h2
    simp only [runWrites]
    rw [hw]
    simp only [List.foldl_cons]
    rw [ensureInit_started g2]
    exact ⟨g1, g2, g3.trans h3⟩

theorem finalise_started {s : State} {h : List (Nat × Bytes)} (hs : Started s h) (m : Nat) (ps : List Nat)
    (f : Nat → Bytes) (hne : ps ≠ []) (hasc : ps.Pairwise (· < ·))
    (hw : ∀ p ∈ ps, h.lookup p = some (f p)) (hsz : ∀ b ∈ (ps.map f).dropLast, m ≤ b.length) :
    (finalise m s ps).2 = none ∧ (finalise m s ps).1.object = some (ps.flatMap f) ∧
      (finalise m s ps).1.creates = 1 ∧ (∀ c ∈ (finalise m s ps).1.calls, c.id = 1) ∧
      (finalise m s ps).1.calls.countP UCall.isCreate = 1 ∧
      (finalise m s ps).1.calls.head? = some (.complete 1 ps) ∧ (finalise m s ps).1.live = false := by
  have he : ps.isEmpty = false := by cases ps <;> simp_all
  have hg := gather_of_lookup h f ps hw
  simp only [finalise, he, ensureInit_started hs, hs.live, hs.held, ascending_of_pairwise ps hasc, hg,
    sizesOk_of_dropLast m _ hsz, Bool.not_true, Bool.false_eq_true, if_false]
  refine ⟨trivial, by simp [List.flatMap_def], hs.creates, ?_, ?_, by simp [hs.uid], trivial⟩
  · intro c hc
    simp only [List.mem_cons] at hc
    rcases hc with rfl | hc
    · simp [UCall.id, hs.uid]
    · exact hs.ids c hc
  · simp [List.countP_cons, UCall.isCreate, hs.count]

end Up

namespace SeqK

/-- aborting exactly the object's own active uploads (distinct ids) succeeds and leaves none active -/
theorem abortLoop_own : ∀ (l : List Nat) (own : Seq.State), l.Nodup → (∀ i ∈ l, i ∈ own.active) →
    (abortLoop own l).2.2 = true ∧ (abortLoop own l).2.1 = l.map .abort ∧
      (abortLoop own l).1.active = own.active.filter (fun i => !l.contains i) ∧
      (abortLoop own l).1.uploadId = own.uploadId ∧ (abortLoop own l).1.creates = own.creates ∧
      (abortLoop own l).1.completed = own.completed ∧ (abortLoop own l).1.nextPart = own.nextPart
  | [], own, _, _ => by
    refine ⟨rfl, rfl, ?_, rfl, rfl, rfl, rfl⟩
    simp only [abortLoop]
    exact (List.filter_eq_self.2 (fun _ _ => rfl)).symm
  | i :: rest, own, hnd, hall => by
    have hnd' := List.nodup_cons.1 hnd
    have hi : own.active.contains i = true := by simpa using hall i List.mem_cons_self
    have hrest : ∀ j ∈ rest, j ∈ ({ own with active := own.active.filter (· != i), aborted := i :: own.aborted } :
        Seq.State).active := by
      intro j hj
      have hji : j ≠ i := fun e => hnd'.1 (e ▸ hj)
      simp only [List.mem_filter]
      exact ⟨hall j (List.mem_cons_of_mem _ hj), by simpa using hji⟩
    obtain ⟨h1, h2, h3, h4, h5, h6, h7⟩ := abortLoop_own rest _ hnd'.2 hrest
    simp only [abortLoop, hi, if_true]
    refine ⟨h1, by simp [h2], ?_, h4, h5, h6, h7⟩
    rw [h3]
    simp only [List.filter_filter]
    apply List.filter_congr
    intro j _
    simp only [List.contains_cons, Bool.not_or, bne, Bool.and_comm]

end SeqK
end OdcGeo.C18

namespace OdcGeo.C18

theorem Sink.lookup_filter_notin (l : List (Nat × Bytes)) (xs : List Nat) (p : Nat) (hp : p ∉ xs) :
    (l.filter (fun q => !xs.contains q.1)).lookup p = l.lookup p := by
  induction l with
  | nil => rfl
  | cons a l ih =>
    by_cases ha : xs.contains a.1 = true
    · have hmem : a.1 ∈ xs := by simpa using ha
      have hne : (p == a.1) = false := by
        have : p ≠ a.1 := fun e => hp (e ▸ hmem)
        simpa using this
      rw [List.filter_cons]
      simp only [ha, Bool.not_true, Bool.false_eq_true, if_false]
      rw [ih, List.lookup_cons, hne]
    · have ha' : xs.contains a.1 = false := by simpa using ha
      rw [List.filter_cons]
      simp only [ha', Bool.not_false, if_true]
      rw [List.lookup_cons, List.lookup_cons, ih]

theorem cancelAllPagedN_active (page : Nat) : ∀ (n : Nat) (s : Seq.State),
    (cancelAllPagedN page n s).active = s.active.drop (n * page)
  | 0, s => by simp [cancelAllPagedN]
  | n + 1, s => by
    rw [cancelAllPagedN, cancelAllPagedN_active page n]
    simp only [cancelAllPaged, List.drop_drop]
    congr 1
    rw [Nat.add_mul, Nat.one_mul, Nat.add_comm]

namespace Dist

@[simp] theorem crash_pc_self (s : State) (t : Nat) : (crash s t).pc t = .faulted := by simp [crash]
@[simp] theorem crash_pc_other (s : State) {t t' : Nat} (h : t' ≠ t) : (crash s t).pc t' = s.pc t' := by
  simp [crash, h]
@[simp] theorem crash_deleted (s : State) (t : Nat) : (crash s t).deleted = s.deleted := rfl

/-- A worker dying with thread `t` anywhere outside the publication window (lock lease expiring) keeps the
invariant of the cluster protocol. -/
theorem crash_inv (cfg : Cfg) (s : State) (t : Nat) (hI : Inv cfg s) (hw : inWindow (s.pc t) = false) :
    Inv cfg (crash s t) := by
  have hpt := hI.pcs t
  have hmt := hI.mutex t
  have hids := hI.ids
  refine inv_frame (t := t) hI (fun t' h => crash_pc_other s h)
    ⟨hids.creates_le, hids.wid_range, hids.wid_created, hids.var_range, hids.var_created⟩ ?_ ?_ ?_ ?_ ?_
    hI.calls hI.count
  · -- free lock and unset variable: nothing has been created
    intro h1 hv
    have hv' : s.var = none := hv
    show s.creates = 0
    by_cases hl : s.lock = some t
    · have hcs : inCS (s.pc t) = true := hmt.2 hl
      cases hp : s.pc t <;> rw [hp] at hpt hcs hw <;> simp [inCS, inWindow] at hcs hw
      · exact hpt hv'
      · exact absurd (hpt.2 ▸ hv') (by simp)
      · exact hpt.2
      · exact hpt.2
      · exact absurd (hpt.2.1 ▸ hv') (by simp)
      · exact hpt.2
    · have h1' : s.lock = none := by simpa [crash, hl] using h1
      exact hI.free h1' hv'
  · rw [crash_pc_self]
    simp only [inCS, crash, goto_lock]
    constructor
    · intro h; simp at h
    · intro h; split at h <;> simp_all
  · intro t' h
    simp only [crash, goto_lock]
    by_cases hl : s.lock = some t
    · simp only [hl, if_true]
      constructor
      · intro e; simp at e
      · intro e; exact absurd (Option.some.inj e) (fun e => h e.symm)
    · simp only [hl, if_false]
  · rw [crash_pc_self]; trivial
  · exact fun t' _ h => PCok_mono (s := s) rfl (fun _ h => h) (fun _ => rfl) (fun _ h => h) h

theorem applyEv_deleted_mono (cfg : Cfg) (s : State) (e : Ev) (h : (applyEv cfg s e).deleted = false) :
    s.deleted = false := by
  cases e with
  | step t => exact step_deleted_mono cfg s t h
  | crash t => exact h

theorem runEv_deleted_mono (cfg : Cfg) (evs : List Ev) :
    ∀ s, (runEv cfg s evs).deleted = false → s.deleted = false := by
  induction evs with
  | nil => intro s h; exact h
  | cons e rest ih => intro s h; exact applyEv_deleted_mono cfg s e (ih _ h)

theorem runEv_inv (cfg : Cfg) (evs : List Ev) :
    ∀ s, Inv cfg s → crashesOutsideWindow cfg s evs = true → (runEv cfg s evs).deleted = false →
      Inv cfg (runEv cfg s evs) := by
  induction evs with
  | nil => intro s h _ _; exact h
  | cons e rest ih =>
    intro s h hc hd
    have hd' := runEv_deleted_mono cfg rest _ hd
    cases e with
    | step t =>
      have hc' : crashesOutsideWindow cfg (step cfg s t) rest = true := by simpa [crashesOutsideWindow] using hc
      exact ih (step cfg s t) (step_inv cfg s t h hd') hc' hd
    | crash t =>
      simp only [crashesOutsideWindow, Bool.and_eq_true, Bool.not_eq_true'] at hc
      exact ih (crash s t) (crash_inv cfg s t h hc.1) hc.2 hd

end Dist
namespace Local

/-- An exception ending thread `t` anywhere but between the service's answer and the assignment of the id keeps the
invariant of the in-process protocol (the `with` block releases the lock on the way out). -/
theorem crash_inv (cfg : Cfg) (s : State) (t : Nat) (hI : Inv cfg s) (hw : inWindow (s.pc t) = false) :
    Inv cfg (crash s t) := by
  have hL := hI.lk
  have hpt := hI.pcs t
  by_cases hcs : inCS (s.pc t) = true
  · -- inside the block: the lock is released
    have hold : s.locks (s.mylock t) = some t := hL.holds t hcs
    have hsel : s.slot = some (s.mylock t) := hL.sel t (usesLock_of_inCS hcs)
    have hfree : s.uploadId = 0 → s.creates = 0 := by
      intro hu
      cases hp : s.pc t <;> rw [hp] at hpt hcs hw <;> simp [inCS, inWindow] at hcs hw <;> simp only [PCok] at hpt
      · exact hpt hu
      · exact hpt.2
      · exact hpt.2
      · rw [hpt.2] at hu; exact absurd hu (by decide)
      · exact hpt.2
    simp only [crash, hold, if_true]
    refine ⟨hI.ids, ?_, ⟨?_, ?_, ?_⟩, ?_, hI.calls, hI.count⟩
    · intro _ hu; exact hfree hu
    · intro t'
      by_cases h : t' = t
      · rw [h]; simp [usesLock]
      · simp only [goto_pc_other _ _ h]; exact hL.sel t'
    · intro t'
      by_cases h : t' = t
      · rw [h]; simp [inCS]
      · simp only [goto_pc_other _ _ h]
        intro hc
        simp only [setHolder_pc] at hc
        exact absurd hc (by rw [hL.others_outside hcs t' h]; simp)
    · intro l' h hl'
      simp only [goto_locks] at hl'
      by_cases e : l' = s.mylock t
      · subst e; rw [setHolder_self] at hl'; exact absurd hl' (by simp)
      · rw [setHolder_other _ _ e] at hl'
        have := (hL.only l' h hl').1
        rw [hsel] at this
        exact absurd (Option.some.inj this).symm e
    · intro t'
      by_cases h : t' = t
      · rw [h, goto_pc_self]; trivial
      · rw [goto_pc_other _ _ h]
        exact PCok_mono (s := s) rfl rfl (fun _ hc => hc) (hI.pcs t')
  · -- outside the block: the thread holds nothing
    have hcs' : inCS (s.pc t) = false := by simpa using hcs
    have hnh : s.locks (s.mylock t) ≠ some t := fun h => by
      have := (hL.only _ _ h).2
      rw [hcs'] at this; exact absurd this (by simp)
    simp only [crash, hnh, if_false]
    refine ⟨hI.ids, hI.free, ⟨?_, ?_, ?_⟩, ?_, hI.calls, hI.count⟩
    · intro t'
      by_cases h : t' = t
      · rw [h]; simp [usesLock]
      · simp only [goto_pc_other _ _ h]; exact hL.sel t'
    · intro t'
      by_cases h : t' = t
      · rw [h]; simp [inCS]
      · simp only [goto_pc_other _ _ h]; exact hL.holds t'
    · intro l h hl
      have := hL.only l h hl
      refine ⟨this.1, ?_⟩
      by_cases e : h = t
      · rw [e, hcs'] at this; exact absurd this.2 (by simp)
      · simp only [goto_pc_other _ _ e]; exact this.2
    · intro t'
      by_cases h : t' = t
      · rw [h, goto_pc_self]; trivial
      · rw [goto_pc_other _ _ h]
        exact PCok_mono (s := s) rfl rfl (fun _ hc => hc) (hI.pcs t')

theorem runEv_inv (cfg : Cfg) (hr : cfg.recheck = true) (ha : cfg.atomicLock = true) (evs : List Ev) :
    ∀ s, Inv cfg s → crashesOutsideWindow cfg s evs = true → Inv cfg (runEv cfg s evs) := by
  induction evs with
  | nil => intro s h _; exact h
  | cons e rest ih =>
    intro s h hc
    cases e with
    | step t =>
      have hc' : crashesOutsideWindow cfg (step cfg s t) rest = true := by simpa [crashesOutsideWindow] using hc
      exact ih (step cfg s t) (step_inv cfg hr ha s t h) hc'
    | crash t =>
      simp only [crashesOutsideWindow, Bool.and_eq_true, Bool.not_eq_true'] at hc
      exact ih (crash s t) (crash_inv cfg s t h hc.1) hc.2

end Local
end OdcGeo.C18
