/-
Vocabulary and helper lemmas for Part B of `Props/C16.lean`: families of GeoBoxes on a common
pixel grid (not property obligations).
-/
import OdcGeo.Lemmas.C16
import Mathlib.Tactic.Ring
import Mathlib.Data.List.Perm.Basic
import Mathlib.Tactic.Linarith
import Mathlib.Algebra.Order.Field.Rat

namespace OdcGeo.C16
open OdcGeo

/-- integer pixel rectangle: columns `x0 ≤ i < x1`, rows `y0 ≤ j < y1` -/
structure Rect where
  x0 : Int
  y0 : Int
  x1 : Int
  y1 : Int
  deriving DecidableEq

/-- member of the family of `g0` covering `r` -/
def onGrid (g0 : GeoBox) (r : Rect) : GeoBox :=
  ⟨r.y1 - r.y0, r.x1 - r.x0, g0.aff * Aff.translation r.x0 r.y0, g0.crs⟩

/-- shapes are non-negative -/
def Rect.Valid (r : Rect) : Prop := r.x0 ≤ r.x1 ∧ r.y0 ≤ r.y1
/-- at least one pixel -/
def Rect.NonEmpty (r : Rect) : Prop := r.x0 < r.x1 ∧ r.y0 < r.y1

/-- smallest rectangle containing both -/
def Rect.union (r s : Rect) : Rect := ⟨min r.x0 s.x0, min r.y0 s.y0, max r.x1 s.x1, max r.y1 s.y1⟩

/-- common pixels; a missing overlap on an axis gives a zero extent at `max` of the starts -/
def Rect.inter (r s : Rect) : Rect :=
  ⟨max r.x0 s.x0, max r.y0 s.y0, max (max r.x0 s.x0) (min r.x1 s.x1), max (max r.y0 s.y0) (min r.y1 s.y1)⟩

/-- The world position (corner) of a pixel identifies it on a common grid: `w` is a pixel of `g`. -/
def HasPixel (g : GeoBox) (w : Rat × Rat) : Prop :=
  ∃ i j : Int, 0 ≤ i ∧ i < g.nx ∧ 0 ≤ j ∧ j < g.ny ∧ g.aff.apply ((i : Rat), (j : Rat)) = w


theorem hasPixel_onGrid (g0 : GeoBox) (r : Rect) (w : Rat × Rat) :
    HasPixel (onGrid g0 r) w ↔
      ∃ i j : Int, r.x0 ≤ i ∧ i < r.x1 ∧ r.y0 ≤ j ∧ j < r.y1 ∧ g0.aff.apply ((i : Rat), (j : Rat)) = w := by
  simp only [HasPixel, onGrid, apply_mul_translation]
  constructor
  · rintro ⟨i, j, h1, h2, h3, h4, h5⟩
    refine ⟨i + r.x0, j + r.y0, by omega, by omega, by omega, by omega, ?_⟩
    push_cast
    exact h5
  · rintro ⟨i, j, h1, h2, h3, h4, h5⟩
    refine ⟨i - r.x0, j - r.y0, by omega, by omega, by omega, by omega, ?_⟩
    push_cast
    rw [← h5]
    congr 2 <;> ring

/-- `bounding_box_in_pixel_domain` between two members of a family -/
theorem bbpd_onGrid (g0 : GeoBox) (hdet : g0.aff.det ≠ 0) (r s : Rect) (tol : Rat) (htol : 0 < tol) :
    bboxInPixelDomain (onGrid g0 s) (onGrid g0 r) tol =
      .ok ⟨s.x0 - r.x0, s.y0 - r.y0, s.x0 - r.x0 + (s.x1 - s.x0), s.y0 - r.y0 + (s.y1 - s.y0), none⟩ := by
  refine bboxInPixelDomain_of_mul (onGrid g0 s) (onGrid g0 r) rfl ?_ (s.x0 - r.x0) (s.y0 - r.y0) ?_ tol htol
  · simpa [onGrid, det_mul_translation] using hdet
  · simp only [onGrid]
    rw [Aff.mul_assoc', translation_mul_translation]
    congr 2 <;> push_cast <;> ring

theorem geoboxOfPixBBox_onGrid (g0 : GeoBox) (r : Rect) (bb : BBox Int) :
    geoboxOfPixBBox (onGrid g0 r) bb =
      onGrid g0 ⟨r.x0 + bb.left, r.y0 + bb.bottom, r.x0 + bb.right, r.y0 + bb.top⟩ := by
  simp only [geoboxOfPixBBox, onGrid, GeoBox.mk.injEq]
  refine ⟨by omega, by omega, ?_, trivial⟩
  rw [Aff.mul_assoc', translation_mul_translation]
  congr 2 <;> push_cast <;> ring

theorem normEmpty_eq (bb : BBox Int) :
    normEmpty bb = ⟨bb.left, bb.bottom, max bb.left bb.right, max bb.bottom bb.top, bb.crs⟩ := by
  obtain ⟨l, b, r, t, c⟩ := bb
  unfold normEmpty
  by_cases h1 : l > r <;> by_cases h2 : b > t <;> simp [h1, h2] <;> omega


/-- index form of pixel membership (needs an invertible grid so that world positions identify pixels) -/
theorem hasPixel_idx (g0 : GeoBox) (hdet : g0.aff.det ≠ 0) (t : Rect) (i j : Int) :
    HasPixel (onGrid g0 t) (g0.aff.apply ((i : Rat), (j : Rat))) ↔
      t.x0 ≤ i ∧ i < t.x1 ∧ t.y0 ≤ j ∧ j < t.y1 := by
  rw [hasPixel_onGrid]
  constructor
  · rintro ⟨i', j', h1, h2, h3, h4, h5⟩
    have := apply_injective g0.aff hdet h5
    simp only [Prod.mk.injEq, Int.cast_inj] at this
    obtain ⟨rfl, rfl⟩ := this
    exact ⟨h1, h2, h3, h4⟩
  · rintro ⟨h1, h2, h3, h4⟩
    exact ⟨i, j, h1, h2, h3, h4, rfl⟩


/-- pixel-domain box of `s` relative to the reference `r` -/
def relBB (r s : Rect) : BBox Int :=
  ⟨s.x0 - r.x0, s.y0 - r.y0, s.x0 - r.x0 + (s.x1 - s.x0), s.y0 - r.y0 + (s.y1 - s.y0), none⟩

/-- edge-wise `max`/`min` without the empty normalisation -/
def Rect.rawInter (r s : Rect) : Rect := ⟨max r.x0 s.x0, max r.y0 s.y0, min r.x1 s.x1, min r.y1 s.y1⟩
/-- "standardise empty geobox representation" -/
def Rect.norm (r : Rect) : Rect := ⟨r.x0, r.y0, max r.x0 r.x1, max r.y0 r.y1⟩
/-- index membership -/
def Rect.Has (r : Rect) (i j : Int) : Prop := r.x0 ≤ i ∧ i < r.x1 ∧ r.y0 ≤ j ∧ j < r.y1

theorem allBBoxes_onGrid (g0 : GeoBox) (hdet : g0.aff.det ≠ 0) (r : Rect) (ss : List Rect) :
    allBBoxes (onGrid g0 r) tolPix (ss.map (onGrid g0)) = .ok (ss.map (relBB r)) := by
  induction ss with
  | nil => rfl
  | cons s ss ih =>
    simp only [List.map, allBBoxes, bbpd_onGrid g0 hdet _ _ _ tolPix_pos, ih]
    rfl

theorem foldRes_union_rel (r acc : Rect) (ss : List Rect) :
    foldRes unionStep (relBB r acc) (ss.map (relBB r)) = .ok (relBB r (ss.foldl Rect.union acc)) := by
  induction ss generalizing acc with
  | nil => rfl
  | cons s ss ih =>
    have step : unionStep (relBB r acc) (relBB r s) = .ok (relBB r (acc.union s)) := by
      simp only [unionStep, relBB, Rect.union, ne_eq, not_true_eq_false, if_false, Except.ok.injEq,
        BBox.mk.injEq, and_true]
      omega
    simp only [List.map, foldRes, step, List.foldl, ih]

theorem foldRes_inter_rel (r acc : Rect) (ss : List Rect) :
    foldRes interStep (relBB r acc) (ss.map (relBB r)) = .ok (relBB r (ss.foldl Rect.rawInter acc)) := by
  induction ss generalizing acc with
  | nil => rfl
  | cons s ss ih =>
    have step : interStep (relBB r acc) (relBB r s) = .ok (relBB r (acc.rawInter s)) := by
      simp only [interStep, relBB, Rect.rawInter, ne_eq, not_true_eq_false, if_false, Except.ok.injEq,
        BBox.mk.injEq, and_true]
      omega
    simp only [List.map, foldRes, step, List.foldl, ih]


theorem foldl_rawInter_has (acc : Rect) (ss : List Rect) (i j : Int) :
    (ss.foldl Rect.rawInter acc).Has i j ↔ acc.Has i j ∧ ∀ s ∈ ss, s.Has i j := by
  induction ss generalizing acc with
  | nil => simp
  | cons s ss ih =>
    simp only [List.foldl, ih, List.forall_mem_cons]
    simp only [Rect.Has, Rect.rawInter]
    constructor
    · rintro ⟨h, h'⟩; exact ⟨by omega, by omega, h'⟩
    · rintro ⟨h, h', h''⟩; exact ⟨by omega, h''⟩

theorem foldl_union_spec (acc : Rect) (ss : List Rect) :
    (∀ s ∈ acc :: ss, ∀ i j, s.Has i j → (ss.foldl Rect.union acc).Has i j) ∧
    (∀ t : Rect, (∀ s ∈ acc :: ss, t.x0 ≤ s.x0 ∧ t.y0 ≤ s.y0 ∧ s.x1 ≤ t.x1 ∧ s.y1 ≤ t.y1) →
      t.x0 ≤ (ss.foldl Rect.union acc).x0 ∧ t.y0 ≤ (ss.foldl Rect.union acc).y0 ∧
      (ss.foldl Rect.union acc).x1 ≤ t.x1 ∧ (ss.foldl Rect.union acc).y1 ≤ t.y1) := by
  induction ss generalizing acc with
  | nil => simp
  | cons s ss ih =>
    obtain ⟨ih1, ih2⟩ := ih (acc.union s)
    simp only [List.foldl]
    constructor
    · intro u hu i j hij
      rcases List.mem_cons.mp hu with rfl | hu
      · apply ih1 (u.union s) (List.mem_cons_self ..)
        simp only [Rect.Has, Rect.union] at hij ⊢; omega
      rcases List.mem_cons.mp hu with rfl | hu
      · apply ih1 (acc.union u) (List.mem_cons_self ..)
        simp only [Rect.Has, Rect.union] at hij ⊢; omega
      · exact ih1 u (List.mem_cons_of_mem _ hu) i j hij
    · intro t ht
      apply ih2
      intro u hu
      rcases List.mem_cons.mp hu with rfl | hu
      · have a := ht acc (by simp)
        have b := ht s (by simp)
        simp only [Rect.union]; omega
      · exact ht u (by simp [hu])


/-! ### folds of a commutative, idempotent operation do not depend on the order of the list -/

theorem foldl_absorb {α : Type} (f : α → α → α) (hrc : ∀ a b c, f (f a b) c = f (f a c) b)
    (hid : ∀ a b, f (f a b) b = f a b) (l : List α) (x : α) (hx : x ∈ l) (acc : α) :
    l.foldl f acc = l.foldl f (f acc x) := by
  induction l generalizing acc with
  | nil => cases hx
  | cons y ys ih =>
    simp only [List.foldl]
    rcases List.mem_cons.mp hx with rfl | hx
    · rw [hid]
    · rw [ih hx (f acc y), hrc]

theorem foldl_perm_head {α : Type} (f : α → α → α) (hrc : ∀ a b c, f (f a b) c = f (f a c) b)
    (hid : ∀ a b, f (f a b) b = f a b) (hidem : ∀ a, f a a = a) (hcomm : ∀ a b, f a b = f b a)
    (r r' : α) (ss ss' : List α) (p : (r :: ss).Perm (r' :: ss')) :
    ss.foldl f r = ss'.foldl f r' := by
  haveI : RightCommutative f := ⟨hrc⟩
  have e1 : ss.foldl f r = (r :: ss).foldl f r := by simp [List.foldl, hidem]
  have e2 : ss'.foldl f r' = (r' :: ss').foldl f r' := by simp [List.foldl, hidem]
  have hr : r ∈ r' :: ss' := p.subset (List.mem_cons_self ..)
  rw [e1, e2, p.foldl_eq r, foldl_absorb f hrc hid _ r' (List.mem_cons_self ..) r,
    foldl_absorb f hrc hid _ r hr r', hcomm r r']

theorem Rect.union_rc (a b c : Rect) : (a.union b).union c = (a.union c).union b := by
  simp only [Rect.union, Rect.mk.injEq]; omega
theorem Rect.union_absorb (a b : Rect) : (a.union b).union b = a.union b := by
  simp only [Rect.union, Rect.mk.injEq]; omega
theorem Rect.union_self (a : Rect) : a.union a = a := by
  cases a; simp only [Rect.union, Rect.mk.injEq]; omega
theorem Rect.union_comm (a b : Rect) : a.union b = b.union a := by
  simp only [Rect.union, Rect.mk.injEq]; omega
theorem Rect.rawInter_rc (a b c : Rect) : (a.rawInter b).rawInter c = (a.rawInter c).rawInter b := by
  simp only [Rect.rawInter, Rect.mk.injEq]; omega
theorem Rect.rawInter_absorb (a b : Rect) : (a.rawInter b).rawInter b = a.rawInter b := by
  simp only [Rect.rawInter, Rect.mk.injEq]; omega
theorem Rect.rawInter_self (a : Rect) : a.rawInter a = a := by
  cases a; simp only [Rect.rawInter, Rect.mk.injEq]; omega
theorem Rect.rawInter_comm (a b : Rect) : a.rawInter b = b.rawInter a := by
  simp only [Rect.rawInter, Rect.mk.injEq]; omega

end OdcGeo.C16
