/-
Lemmas for C19 part (a): `_crs_cache` never returns the WRONG coordinate system.

The keys of `_crs_cache` collide (a pyproj object equals the string that is its WKT text and
every other object with that WKT), so WHICH entry a spec hits — hence `str(crs)` — depends on
the history.  What does not depend on it is the coordinate system of the result:

* `SysInv`                        every cache entry denotes the system of its key; object keys
                                  stay alive (so their id cannot be reused for another object)
* `sysInv_run`                    it holds after every history of real operations
* `construct_sys_sound_aux`       `CRS(spec)`, if it succeeds, never denotes a system other than
                                  the one pyproj assigns to the spec (hypothesis: `KeySysCoherent`)
* `construct_sys_correct_aux`     ... and denotes exactly that system when pyproj also accepts
                                  the same spellings of a key (`KeyAcceptCoherent`)
* `accept_needed`                 ... and that extra hypothesis cannot be dropped
* `mk_sys_correct_aux`            the same through `step` for `v = CRS(spec)`
* `tcache_sound_aux`              the transformer cache only holds transformers between the
                                  systems of the live objects it is keyed on
-/
import OdcGeo.Lemmas.C19a
import Std.Data.String.ToNat

namespace OdcGeo.C19

/-! ## Facts about the cache keys of strings and integers -/

theorem char_toUpper_of_not (c : Char) (h : ¬ ((97 : UInt32) ≤ c.val ∧ c.val ≤ 122)) :
    c.toUpper = c := by
  unfold Char.toUpper
  exact dif_neg h

theorem char_toUpper_val (c : Char) (h : (97 : UInt32) ≤ c.val ∧ c.val ≤ 122) :
    c.toUpper.val = c.val + 4294967264 := by
  unfold Char.toUpper
  split
  · rfl
  · next h' => exact absurd h h'

theorem char_toUpper_idem (c : Char) : c.toUpper.toUpper = c.toUpper := by
  by_cases h : (97 : UInt32) ≤ c.val ∧ c.val ≤ 122
  · apply char_toUpper_of_not
    rw [char_toUpper_val c h]
    obtain ⟨ha, hz⟩ := h
    rw [UInt32.le_iff_toNat_le] at ha hz
    rw [UInt32.le_iff_toNat_le, UInt32.le_iff_toNat_le]
    simp at ha hz ⊢
    omega
  · rw [char_toUpper_of_not c h, char_toUpper_of_not c h]

theorem char_toUpper_digit (c : Char) (h : c.isDigit = true) : c.toUpper = c := by
  apply char_toUpper_of_not
  simp [Char.isDigit] at h
  obtain ⟨h0, h9⟩ := h
  rw [UInt32.le_iff_toNat_le] at h0 h9
  rw [UInt32.le_iff_toNat_le, UInt32.le_iff_toNat_le]
  simp at h0 h9 ⊢
  omega

theorem toUpper_idem (s : String) : s.toUpper.toUpper = s.toUpper := by
  unfold String.toUpper
  rw [String.map_map]
  apply String.ext
  simp [char_toUpper_idem]

theorem keyOfInt_toUpper (n : Nat) : (keyOfInt n).toUpper = keyOfInt n := by
  unfold String.toUpper keyOfInt
  apply String.ext
  simp only [String.toList_map, String.toList_append, List.map_append]
  congr 1
  show List.map Char.toUpper (Nat.repr n).toList = (Nat.repr n).toList
  simp only [Nat.repr, String.toList_ofList]
  rw [List.map_congr_left (g := id), List.map_id]
  intro c hc
  exact char_toUpper_digit c (Nat.isDigit_of_mem_toDigits (by decide) (by decide) hc)

/-- `_make_crs_key` of an `int` determines the integer. -/
theorem keyOfInt_inj {n m : Nat} (h : keyOfInt n = keyOfInt m) : n = m := by
  unfold keyOfInt at h
  exact Nat.repr_injective ((String.append_right_inj _).1 h)

/-- `_make_crs_key` is idempotent on strings. -/
theorem keyOfStr_idem (s : String) : keyOfStr (keyOfStr s) = keyOfStr s := by
  by_cases h : isEpsgLike s = true
  · have h' : isEpsgLike s.toUpper = true := by
      unfold isEpsgLike at h ⊢
      rw [toUpper_idem]
      exact h
    have e : keyOfStr s = s.toUpper := by simp only [keyOfStr, h, if_true]
    rw [e]
    simp only [keyOfStr, h', if_true, toUpper_idem]
  · have e : keyOfStr s = s := by
      unfold keyOfStr
      rw [if_neg h]
    rw [e, e]

/-- The key of `n` is the key of the string `"EPSG:n"`. -/
theorem keyOfStr_keyOfInt (n : Nat) : keyOfStr (keyOfInt n) = keyOfInt n := by
  unfold keyOfStr
  split
  · exact keyOfInt_toUpper n
  · rfl

/-! ## What a spec denotes, and the hypotheses on pyproj -/

/-- The system a spec denotes according to pyproj (`none`: pyproj rejects it / the variable
does not exist).  For `CRS(other_crs)` it is the system of the instance that is copied. -/
def specSys (W : World) (σ : State) : Spec → Option Nat
  | .int n => (W.fromEpsg n).map (·.sys)
  | .str s => (W.fromText s).map (·.sys)
  | .pyproj pv => (assoc pv σ.pvars).map (fun e => e.2.sys)
  | .dict d => (W.fromText d).map (·.sys)
  | .crs v => (assoc v σ.vars).map (fun c => c.info.sys)

/-- pyproj is coherent on texts that share a cache key: all spellings of one key that pyproj
accepts denote one system (`EPSG:n` in any letter case and the integer `n`). -/
def KeySysCoherent (W : World) : Prop :=
  (∀ s s' p p', keyOfStr s = keyOfStr s' → W.fromText s = some p → W.fromText s' = some p' →
    p.sys = p'.sys) ∧
  (∀ s n p p', keyOfStr s = keyOfInt n → W.fromText s = some p → W.fromEpsg n = some p' →
    p.sys = p'.sys)

/-- pyproj accepts all spellings of one cache key or none of them.  Needed only to say that a
spec that hits the cache is one pyproj would have accepted: on a hit `_make_crs` never asks. -/
def KeyAcceptCoherent (W : World) : Prop :=
  (∀ s s', keyOfStr s = keyOfStr s' → (W.fromText s).isSome = (W.fromText s').isSome) ∧
  (∀ s n, keyOfStr s = keyOfInt n → (W.fromText s).isSome = (W.fromEpsg n).isSome)

/-! ## The two readings of "the entry denotes the system of the spec"

The development is done once, for a relation `R o y` between pyproj's answer `o` for a spec
and the system `y` stored in the entry:
`Sound`: pyproj's answer, if there is one, is `y`;  `Exact`: pyproj's answer is `y`. -/

def Sound (o : Option Nat) (y : Nat) : Prop := ∀ x, o = some x → x = y

def Exact (o : Option Nat) (y : Nat) : Prop := o = some y

structure SysRel (R : Option Nat → Nat → Prop) : Prop where
  refl : ∀ y, R (some y) y
  inj : ∀ x y, R (some x) y → x = y

theorem sysRel_sound : SysRel Sound :=
  ⟨fun _ _ h => (Option.some.inj h).symm, fun _ _ h => h _ rfl⟩

theorem sysRel_exact : SysRel Exact :=
  ⟨fun _ => rfl, fun _ _ h => Option.some.inj h⟩

/-- Coherence of pyproj over the spellings of one key, read through `R`. -/
structure Coh (R : Option Nat → Nat → Prop) (W : World) : Prop where
  tt : ∀ s s' p', keyOfStr s = keyOfStr s' → W.fromText s' = some p' →
    R ((W.fromText s).map (·.sys)) p'.sys
  te : ∀ s n p', keyOfStr s = keyOfInt n → W.fromEpsg n = some p' →
    R ((W.fromText s).map (·.sys)) p'.sys
  et : ∀ s n p, keyOfStr s = keyOfInt n → W.fromText s = some p →
    R ((W.fromEpsg n).map (·.sys)) p.sys

theorem coh_sound {W : World} (hW : KeySysCoherent W) : Coh Sound W := by
  refine ⟨?_, ?_, ?_⟩
  · intro s s' p' hk hp' x hx
    cases hq : W.fromText s with
    | none => rw [hq] at hx; cases hx
    | some q =>
      rw [hq] at hx
      cases hx
      exact hW.1 s s' q p' hk hq hp'
  · intro s n p' hk hp' x hx
    cases hq : W.fromText s with
    | none => rw [hq] at hx; cases hx
    | some q =>
      rw [hq] at hx
      cases hx
      exact hW.2 s n q p' hk hq hp'
  · intro s n p hk hp x hx
    cases hq : W.fromEpsg n with
    | none => rw [hq] at hx; cases hx
    | some q =>
      rw [hq] at hx
      cases hx
      exact (hW.2 s n p q hk hp hq).symm

theorem coh_exact {W : World} (hW : KeySysCoherent W) (hA : KeyAcceptCoherent W) :
    Coh Exact W := by
  refine ⟨?_, ?_, ?_⟩
  · intro s s' p' hk hp'
    have ha := hA.1 s s' hk
    rw [hp'] at ha
    cases hq : W.fromText s with
    | none => rw [hq] at ha; cases ha
    | some q =>
      show Option.map _ (some q) = some p'.sys
      rw [Option.map_some, hW.1 s s' q p' hk hq hp']
  · intro s n p' hk hp'
    have ha := hA.2 s n hk
    rw [hp'] at ha
    cases hq : W.fromText s with
    | none => rw [hq] at ha; cases ha
    | some q =>
      show Option.map _ (some q) = some p'.sys
      rw [Option.map_some, hW.2 s n q p' hk hq hp']
  · intro s n p hk hp
    have ha := hA.2 s n hk
    rw [hp] at ha
    cases hq : W.fromEpsg n with
    | none => rw [hq] at ha; cases ha
    | some q =>
      show Option.map _ (some q) = some p.sys
      rw [Option.map_some, hW.2 s n p q hk hp hq]

/-! ## The invariant -/

/-- The string key `k` is normalised and `y` is the system of every spec whose key is `k`. -/
def TxtOk (R : Option Nat → Nat → Prop) (W : World) (k : String) (y : Nat) : Prop :=
  keyOfStr k = k ∧
  (∀ s, keyOfStr s = k → R ((W.fromText s).map (·.sys)) y) ∧
  (∀ n, keyOfInt n = k → R ((W.fromEpsg n).map (·.sys)) y)

/-- A cache entry denotes the system of its key. -/
def EntryOk (R : Option Nat → Nat → Prop) (W : World) (ke : Key × CrsObj) : Prop :=
  match ke.1 with
  | .txt k => TxtOk R W k ke.2.info.sys
  | .obj _ p => ke.2.info.sys = p.sys

/-- Every cache entry denotes the system of its key, and the pyproj objects used as keys are
alive with the attributes recorded in the key. -/
structure SysInvR (R : Option Nat → Nat → Prop) (W : World) (σ : State) : Prop where
  entries : ∀ ke ∈ σ.cache, EntryOk R W ke
  keyLive : ∀ ke ∈ σ.cache, ∀ i q, ke.1 = .obj i q → (i, q) ∈ σ.heap

/-- The invariant in its plain reading (`Sound`). -/
abbrev SysInv (W : World) (σ : State) : Prop := SysInvR Sound W σ

theorem sysInvR_init (R : Option Nat → Nat → Prop) (W : World) : SysInvR R W {} := by
  constructor <;> simp

/-- The invariant only looks at the cache and at which objects are alive. -/
theorem SysInvR.mono {R W} {σ σ' : State} (h : SysInvR R W σ) (hc : σ'.cache = σ.cache)
    (hh : ∀ e ∈ σ.heap, e ∈ σ'.heap) : SysInvR R W σ' := by
  constructor
  · intro ke hke
    rw [hc] at hke
    exact h.entries ke hke
  · intro ke hke i q hk
    rw [hc] at hke
    exact hh _ (h.keyLive ke hke i q hk)

theorem SysInvR.push {R W} {σ : State} (h : SysInvR R W σ) (k : Key) (e : CrsObj)
    (he : EntryOk R W (k, e)) (hl : ∀ i q, k = .obj i q → (i, q) ∈ σ.heap) :
    SysInvR R W { σ with cache := σ.cache ++ [(k, e)] } := by
  constructor
  · intro ke hke
    rcases List.mem_append.1 hke with hke | hke
    · exact h.entries ke hke
    · rw [List.mem_singleton.1 hke]; exact he
  · intro ke hke i q hk
    rcases List.mem_append.1 hke with hke | hke
    · exact h.keyLive ke hke i q hk
    · rw [List.mem_singleton.1 hke] at hk
      exact hl i q hk

theorem alloc_heap_mono (σ : State) (pick : Nat) (p : PInfo) :
    ∀ e ∈ σ.heap, e ∈ (alloc σ pick p).1.heap := by
  intro e he
  unfold alloc
  split <;> exact List.mem_cons_of_mem _ he

theorem SysInvR.alloc {R W} {σ : State} (h : SysInvR R W σ) (pick : Nat) (p : PInfo) :
    SysInvR R W (alloc σ pick p).1 :=
  h.mono (alloc_cache σ pick p) (alloc_heap_mono σ pick p)

/-! ## Cache hits -/

theorem cacheFind_hit {W : World} {k : Key} {c : List (Key × CrsObj)} {e : CrsObj}
    (h : cacheFind W k c = some e) : ∃ k', (k', e) ∈ c ∧ keyEq W k' k = true := by
  unfold cacheFind at h
  cases hf : c.find? (fun e => keyEq W e.1 k) with
  | none => rw [hf] at h; cases h
  | some ke =>
    rw [hf] at h
    cases h
    have hk := List.find?_some hf
    exact ⟨ke.1, List.mem_of_find?_eq_some hf, hk⟩

/-- Whatever entry a string key hits — an entry stored under that string, or one stored under
a pyproj object whose WKT is that string — it denotes the system of every spelling of the key. -/
theorem hit_txt {R W} (hC : Coh R W) {cache : List (Key × CrsObj)}
    (hE : ∀ ke ∈ cache, EntryOk R W ke) {key : String} {e : CrsObj}
    (hkey : keyOfStr key = key) (hf : cacheFind W (.txt key) cache = some e) :
    TxtOk R W key e.info.sys := by
  obtain ⟨k', hmem, heq⟩ := cacheFind_hit hf
  have hent := hE _ hmem
  cases k' with
  | txt a =>
    simp only [keyEq, beq_iff_eq] at heq
    rw [heq] at hent
    exact hent
  | obj i p =>
    simp only [keyEq, Bool.and_eq_true, beq_iff_eq] at heq
    obtain ⟨-, hs⟩ := heq
    have he : e.info.sys = p.sys := hent
    cases hq : W.fromText key with
    | none => rw [hq] at hs; cases hs
    | some q =>
      rw [hq] at hs
      have hqs : q.sys = p.sys := Option.some.inj hs
      rw [he, ← hqs]
      exact ⟨hkey, fun s hs' => hC.tt s key q (hs'.trans hkey.symm) hq,
        fun n hn => hC.et key n q (hkey.trans hn.symm) hq⟩

/-- Whatever entry a live pyproj object hits — one stored under the same object, under another
object with the same WKT and system, or under the string that is its WKT — it denotes the
object's system.  An entry keyed on the same *id* is keyed on the same object: keys are alive. -/
theorem hit_obj {R W} (hR : SysRel R) {σ : State} (hi : Inv σ) (hS : SysInvR R W σ)
    {id : Nat} {p : PInfo} (hl : (id, p) ∈ σ.heap) {e : CrsObj}
    (hf : cacheFind W (.obj id p) σ.cache = some e) : e.info.sys = p.sys := by
  obtain ⟨k', hmem, heq⟩ := cacheFind_hit hf
  have hent := hS.entries _ hmem
  cases k' with
  | txt t =>
    simp only [keyEq, Bool.and_eq_true, beq_iff_eq] at heq
    obtain ⟨-, hs⟩ := heq
    have ht : TxtOk R W t e.info.sys := hent
    have h1 := ht.2.1 t ht.1
    rw [hs] at h1
    exact (hR.inj _ _ h1).symm
  | obj j q =>
    have he : e.info.sys = q.sys := hent
    simp only [keyEq, Bool.or_eq_true, Bool.and_eq_true, beq_iff_eq] at heq
    rcases heq with hj | ⟨-, hs⟩
    · have hq := hS.keyLive _ hmem j q rfl
      rw [hj] at hq
      rw [he, hi.heapOk.functional hq hl]
    · rw [he, hs]

/-! ## Construction -/

theorem makeFromObj_sys {R W} (hR : SysRel R) (σ : State) (id : Nat) (p : PInfo) (hi : Inv σ)
    (hS : SysInvR R W σ) (hl : (id, p) ∈ σ.heap) :
    SysInvR R W (makeFromObj W σ id p).1 ∧
      ∀ c, (makeFromObj W σ id p).2 = .ok c → c.info.sys = p.sys := by
  unfold makeFromObj
  simp only
  split
  · next e hf =>
    refine ⟨hS, ?_⟩
    intro c hc
    cases hc
    exact hit_obj hR hi hS hl hf
  · split
    · next e he =>
      obtain ⟨-, e2⟩ := entryOf_ok he
      have hes : e.info.sys = p.sys := by rw [e2]
      refine ⟨hS.push _ e hes ?_, ?_⟩
      · intro i q hk
        cases hk
        exact hl
      · intro c hc
        cases hc
        exact hes
    · exact ⟨hS, fun c hc => by cases hc⟩

theorem makeFromText_sys {R W} (hC : Coh R W) (σ : State) (key : String)
    (parsed : Option PInfo) (e0 pick : Nat) (hS : SysInvR R W σ) (hkey : keyOfStr key = key)
    (hnew : ∀ p, parsed = some p → TxtOk R W key p.sys) :
    SysInvR R W (makeFromText W σ key parsed e0 pick).1 ∧
      ∀ c, (makeFromText W σ key parsed e0 pick).2 = .ok c → TxtOk R W key c.info.sys := by
  unfold makeFromText
  simp only
  split
  · next e hf =>
    refine ⟨hS, ?_⟩
    intro c hc
    cases hc
    exact hit_txt hC hS.entries hkey hf
  · split
    · exact ⟨hS, fun c hc => by cases hc⟩
    · next p =>
      have hA := hS.alloc pick p
      split
      · next e he =>
        obtain ⟨-, e2⟩ := entryOf_ok he
        have hes : TxtOk R W key e.info.sys := by rw [e2]; exact hnew p rfl
        refine ⟨hA.push _ e hes ?_, ?_⟩
        · intro i q hk
          cases hk
        · intro c hc
          cases hc
          exact hes
      · exact ⟨hA, fun c hc => by cases hc⟩

/-- `CRS(spec)` keeps the invariant, and the result — whichever entry was hit — denotes the
system of the spec. -/
theorem construct_sys {R W} (hR : SysRel R) (hC : Coh R W) (σ : State) (spec : Spec)
    (pick : Nat) (hi : Inv σ) (hS : SysInvR R W σ) :
    SysInvR R W (construct W σ spec pick).1 ∧
      ∀ c, (construct W σ spec pick).2 = .ok c → R (specSys W σ spec) c.info.sys := by
  cases spec with
  | int n =>
    have h := makeFromText_sys hC σ (keyOfInt n) (W.fromEpsg n) n pick hS (keyOfStr_keyOfInt n)
      (by
        intro p hp
        refine ⟨keyOfStr_keyOfInt n, fun s hs => hC.te s n p hs hp, ?_⟩
        intro n' hn'
        rw [keyOfInt_inj hn', hp]
        exact hR.refl _)
    exact ⟨h.1, fun c hc => (h.2 c hc).2.2 n rfl⟩
  | str s =>
    have h := makeFromText_sys hC σ (keyOfStr s) (W.fromText s) 0 pick hS (keyOfStr_idem s)
      (by
        intro p hp
        exact ⟨keyOfStr_idem s, fun s' hs' => hC.tt s' s p hs' hp,
          fun n hn => hC.et s n p hn.symm hp⟩)
    exact ⟨h.1, fun c hc => (h.2 c hc).2.1 s rfl⟩
  | pyproj pv =>
    simp only [construct, specSys]
    split
    · exact ⟨hS, fun c hc => by cases hc⟩
    · next id p hpv =>
      have h := makeFromObj_sys hR σ id p hi hS (hi.refOk.pvarsLive _ (assoc_mem _ _ _ hpv))
      refine ⟨h.1, ?_⟩
      intro c hc
      rw [hpv, Option.map_some, h.2 c hc]
      exact hR.refl _
  | dict d =>
    simp only [construct, specSys]
    split
    · exact ⟨hS, fun c hc => by cases hc⟩
    · next p hp =>
      obtain ⟨a1, a2, -, -, -, -, -⟩ := alloc_spec σ pick p hi
      have h := makeFromObj_sys hR _ _ p a1 (hS.alloc pick p) a2
      refine ⟨h.1, ?_⟩
      intro c hc
      rw [hp, Option.map_some, h.2 c hc]
      exact hR.refl _
  | crs v =>
    simp only [construct, specSys]
    split
    · exact ⟨hS, fun c hc => by cases hc⟩
    · next c hv =>
      refine ⟨hS, ?_⟩
      intro c' hc
      cases hc
      rw [hv, Option.map_some]
      exact hR.refl _

/-! ## Garbage collection, steps, histories -/

theorem mem_roots_key {σ : State} {ke : Key × CrsObj} (h : ke ∈ σ.cache) {i : Nat} {q : PInfo}
    (hk : ke.1 = .obj i q) : i ∈ roots σ := by
  simp only [roots, List.mem_append, List.mem_filterMap]
  exact Or.inl (Or.inl (Or.inr ⟨ke, h, by rw [hk]; rfl⟩))

/-- The collector never frees a pyproj object that is a key of `_crs_cache`. -/
theorem SysInvR.collect {R W} {σ : State} (h : SysInvR R W σ) : SysInvR R W (collect σ) := by
  constructor
  · exact h.entries
  · intro ke hke i q hk
    exact collect_keep (h.keyLive ke hke i q hk) (mem_roots_key hke hk)

theorem step_sysInv {R W} (hR : SysRel R) (hC : Coh R W) (σ : State) (op : Op)
    (hop : op.real = true) (hi : Inv σ) (hS : SysInvR R W σ) : SysInvR R W (step W σ op).1 := by
  cases op with
  | pnewText pv t pick =>
    simp only [step]
    split
    · exact hS
    · next p _ => exact (hS.alloc pick p).mono rfl (fun _ he => he)
  | pnewEpsg pv n pick =>
    simp only [step]
    split
    · exact hS
    · next p _ => exact (hS.alloc pick p).mono rfl (fun _ he => he)
  | mk v spec pick =>
    have hc := (construct_sys hR hC σ spec pick hi hS).1
    simp only [step]
    split
    · next σ1 c heq =>
      rw [heq] at hc
      exact hc.mono rfl (fun _ he => he)
    · next σ1 e heq =>
      rw [heq] at hc
      exact hc
  | pickle v src pick =>
    simp only [step]
    split
    · exact hS
    · next c _ =>
      have hc := (construct_sys hR hC σ (.str c.str) pick hi hS).1
      split
      · next σ1 c' heq =>
        rw [heq] at hc
        exact hc.mono rfl (fun _ he => he)
      · next σ1 e heq =>
        rw [heq] at hc
        exact hc
  | drop v => exact hS.mono rfl (fun _ he => he)
  | pdrop pv => exact hS.mono rfl (fun _ he => he)
  | gc => exact hS.collect
  | transformer a b xy =>
    simp only [step]
    split
    · split
      · exact hS
      · exact hS.mono rfl (fun _ he => he)
    · exact hS
  | epsg v =>
    simp only [step]
    split
    · exact hS
    · split
      · exact hS.mono rfl (fun _ he => he)
      · exact hS
  | eq a b =>
    simp only [step]
    split <;> exact hS
  | evict k => cases hop

theorem sysInv_runFrom {R W} (hR : SysRel R) (hC : Coh R W) (h : List Op) : ∀ σ : State,
    Inv σ → SysInvR R W σ → (∀ op ∈ h, op.real = true) → SysInvR R W (runFrom W σ h).1 := by
  induction h with
  | nil => intro σ _ hS _; exact hS
  | cons op ops ih =>
    intro σ hi hS hreal
    rw [runFrom_cons_fst]
    exact ih _ (step_inv W σ op (hreal op List.mem_cons_self) hi)
      (step_sysInv hR hC σ op (hreal op List.mem_cons_self) hi hS)
      (fun o ho => hreal o (List.mem_cons_of_mem _ ho))

theorem sysInvR_run {R W} (hR : SysRel R) (hC : Coh R W) (h : List Op)
    (hreal : ∀ op ∈ h, op.real = true) : SysInvR R W (run W h).1 :=
  sysInv_runFrom hR hC h {} inv_init (sysInvR_init R W) hreal

/-- After every history of real operations every `_crs_cache` entry denotes the system of
its key, and every pyproj object used as a key is alive. -/
theorem sysInv_run (W : World) (hW : KeySysCoherent W) (h : List Op)
    (hreal : ∀ op ∈ h, op.real = true) : SysInv W (run W h).1 :=
  sysInvR_run sysRel_sound (coh_sound hW) h hreal

/-- The invariant spelled out. -/
theorem sysInv_iff (W : World) (σ : State) : SysInv W σ ↔
    (∀ k e, (Key.txt k, e) ∈ σ.cache →
      (∀ s p, keyOfStr s = k → W.fromText s = some p → p.sys = e.info.sys) ∧
      (∀ n p, keyOfInt n = k → W.fromEpsg n = some p → p.sys = e.info.sys) ∧
      keyOfStr k = k) ∧
    (∀ i p e, (Key.obj i p, e) ∈ σ.cache → e.info.sys = p.sys ∧ (i, p) ∈ σ.heap) := by
  constructor
  · intro h
    refine ⟨?_, ?_⟩
    · intro k e hke
      have ht : TxtOk Sound W k e.info.sys := h.entries _ hke
      refine ⟨?_, ?_, ht.1⟩
      · intro s p hs hp
        exact ht.2.1 s hs p.sys (by rw [hp]; rfl)
      · intro n p hn hp
        exact ht.2.2 n hn p.sys (by rw [hp]; rfl)
    · intro i p e hke
      exact ⟨h.entries _ hke, h.keyLive _ hke i p rfl⟩
  · intro h
    constructor
    · intro ke hke
      obtain ⟨k, e⟩ := ke
      cases k with
      | txt k =>
        obtain ⟨h1, h2, h3⟩ := h.1 k e hke
        refine ⟨h3, ?_, ?_⟩
        · intro s hs x hx
          cases hq : W.fromText s with
          | none => rw [hq] at hx; cases hx
          | some q => rw [hq] at hx; cases hx; exact h1 s q hs hq
        · intro n hn x hx
          cases hq : W.fromEpsg n with
          | none => rw [hq] at hx; cases hx
          | some q => rw [hq] at hx; cases hx; exact h2 n q hn hq
      | obj i p => exact (h.2 i p e hke).1
    · intro ke hke i q hk
      obtain ⟨k, e⟩ := ke
      cases hk
      exact (h.2 i q e hke).2

/-! ## Main theorems -/

/-- After any history — any id reuse, any key collisions — `CRS(spec)`, if it succeeds, never
denotes a system other than the one pyproj assigns to the spec.  (A spec that pyproj itself
would reject can still succeed by hitting an entry stored under another spelling of its key:
on a hit `_make_crs` does not call pyproj.  That is all `specSys … = some y →` leaves out; for
pyproj objects, dicts and `CRS` instances see `construct_sys_correct_aux`.) -/
theorem construct_sys_sound_aux (W : World) (hW : KeySysCoherent W) (h : List Op)
    (hreal : ∀ op ∈ h, op.real = true) (spec : Spec) (pick : Nat) (c : CrsObj) :
    (construct W (run W h).1 spec pick).2 = .ok c →
      ∀ y, specSys W (run W h).1 spec = some y → y = c.info.sys :=
  (construct_sys sysRel_sound (coh_sound hW) _ spec pick (inv_run W h hreal)
    (sysInvR_run sysRel_sound (coh_sound hW) h hreal)).2 c

/-- After any history — any id reuse, any key collisions — `CRS(spec)`, if it succeeds,
denotes exactly the system pyproj assigns to the spec (for `CRS(other)` the system of the
copied instance). -/
theorem construct_sys_correct_aux (W : World) (hW : KeySysCoherent W) (hA : KeyAcceptCoherent W)
    (h : List Op) (hreal : ∀ op ∈ h, op.real = true) (spec : Spec) (pick : Nat) (c : CrsObj) :
    (construct W (run W h).1 spec pick).2 = .ok c →
      specSys W (run W h).1 spec = some c.info.sys :=
  (construct_sys sysRel_exact (coh_exact hW hA) _ spec pick (inv_run W h hreal)
    (sysInvR_run sysRel_exact (coh_exact hW hA) h hreal)).2 c

/-- Specs that do not go through a string key need no acceptance hypothesis. -/
theorem construct_sys_correct_nontext_aux (W : World) (hW : KeySysCoherent W) (h : List Op)
    (hreal : ∀ op ∈ h, op.real = true) (spec : Spec) (hs : spec.textual = false) (pick : Nat)
    (c : CrsObj) :
    (construct W (run W h).1 spec pick).2 = .ok c →
      specSys W (run W h).1 spec = some c.info.sys := by
  intro hc
  have hsound := construct_sys_sound_aux W hW h hreal spec pick c hc
  cases spec with
  | int n => cases hs
  | str s => cases hs
  | pyproj pv =>
    simp only [construct] at hc
    simp only [specSys] at hsound ⊢
    cases hv : assoc pv (run W h).1.pvars with
    | none => rw [hv] at hc; cases hc
    | some e => rw [hv] at hsound; rw [Option.map_some, ← hsound _ rfl]
  | dict d =>
    simp only [construct] at hc
    simp only [specSys] at hsound ⊢
    cases hv : W.fromText d with
    | none => rw [hv] at hc; cases hc
    | some e => rw [hv] at hsound; rw [Option.map_some, ← hsound _ rfl]
  | crs v =>
    simp only [construct] at hc
    simp only [specSys] at hsound ⊢
    cases hv : assoc v (run W h).1.vars with
    | none => rw [hv] at hc; cases hc
    | some e => rw [hv] at hsound; rw [Option.map_some, ← hsound _ rfl]

theorem assoc_setVar {β : Type} (k : Nat) (v : β) (l : List (Nat × β)) :
    assoc k (setVar k v l) = some v := by
  simp [setVar, assoc]

/-- `v = CRS(spec)` after any history: when it succeeds (prints `s`), `v` holds an instance
whose `str` is `s` and whose pyproj object denotes the system of the spec. -/
theorem mk_sys_correct_aux (W : World) (hW : KeySysCoherent W) (hA : KeyAcceptCoherent W)
    (h : List Op) (hreal : ∀ op ∈ h, op.real = true) (v : Nat) (spec : Spec) (pick : Nat)
    (s : String) :
    (step W (run W h).1 (.mk v spec pick)).2 = .str s →
      ∃ c, assoc v (step W (run W h).1 (.mk v spec pick)).1.vars = some c ∧ c.str = s ∧
        specSys W (run W h).1 spec = some c.info.sys := by
  have hc := construct_sys_correct_aux W hW hA h hreal spec pick
  simp only [step]
  split
  · next σ1 c heq =>
    intro ho
    rw [heq] at hc
    refine ⟨c, assoc_setVar _ _ _, ?_, hc c rfl⟩
    cases ho
    rfl
  · intro ho
    cases ho

/-- The same with the hypothesis on pyproj only: the stored instance never denotes a system
other than the one pyproj assigns to the spec. -/
theorem mk_sys_sound_aux (W : World) (hW : KeySysCoherent W)
    (h : List Op) (hreal : ∀ op ∈ h, op.real = true) (v : Nat) (spec : Spec) (pick : Nat)
    (s : String) :
    (step W (run W h).1 (.mk v spec pick)).2 = .str s →
      ∃ c, assoc v (step W (run W h).1 (.mk v spec pick)).1.vars = some c ∧ c.str = s ∧
        ∀ y, specSys W (run W h).1 spec = some y → y = c.info.sys := by
  have hc := construct_sys_sound_aux W hW h hreal spec pick
  simp only [step]
  split
  · next σ1 c heq =>
    intro ho
    rw [heq] at hc
    refine ⟨c, assoc_setVar _ _ _, ?_, hc c rfl⟩
    cases ho
    rfl
  · intro ho
    cases ho

/-- Every entry of the transformer cache is keyed on two live pyproj objects and holds a
transformer between exactly their systems. -/
theorem tcache_sound_aux (W : World) (h : List Op) (hreal : ∀ op ∈ h, op.real = true) :
    ∀ k r, (k, r) ∈ (run W h).1.tcache →
      ∃ p q, (k.1, p) ∈ (run W h).1.heap ∧ (k.2.1, q) ∈ (run W h).1.heap ∧
        p.sys = r.1 ∧ q.sys = r.2 := by
  intro k r hkr
  obtain ⟨p, q, h1, h2, h3, h4, -, -⟩ := (inv_run W h hreal).refOk.tcacheLive _ hkr
  exact ⟨p, q, h1, h2, h3, h4⟩

/-! ## `KeyAcceptCoherent` cannot be dropped from `construct_sys_correct_aux`

A pyproj that accepts `"EPSG:1"` only: `KeySysCoherent` holds trivially, yet `CRS("epsg:1")`
succeeds on a cache hit while pyproj assigns no system to `"epsg:1"`. -/

def cxP : PInfo := ⟨7, "x", "W", some 1⟩
def cxW : World := ⟨fun s => if s = "EPSG:1" then some cxP else none, fun _ => none⟩

theorem cxW_coherent : KeySysCoherent cxW := by
  constructor
  · intro s s' p p' _ hp hp'
    simp only [cxW] at hp hp'
    split at hp
    · split at hp'
      · cases hp; cases hp'; rfl
      · cases hp'
    · cases hp
  · intro s n p p' _ _ hp'
    cases hp'

theorem cx_entry : entryOf 0 cxP 0 = .ok ⟨0, cxP, "x", some 0⟩ := by
  have h : ("x".toUpper.startsWith "EPSG:") = false := by decide +kernel
  unfold entryOf
  simp only [cxP, h]
  rfl

theorem cx_key1 : keyOfStr "EPSG:1" = "EPSG:1" := by decide +kernel
theorem cx_key2 : keyOfStr "epsg:1" = "EPSG:1" := by decide +kernel

theorem cx_cache : (run cxW [.mk 0 (.str "EPSG:1") 0]).1.cache =
    [(.txt "EPSG:1", ⟨0, cxP, "x", some 0⟩)] := by
  have hf : cxW.fromText "EPSG:1" = some cxP := by simp [cxW]
  simp only [run, runFrom, step, construct, makeFromText, cx_key1, hf, cacheFind, List.find?, alloc,
    List.length_nil, Nat.lt_irrefl, ↓reduceIte, cx_entry, Option.map_none, List.nil_append]


theorem makeFromText_hit {W : World} {σ : State} {k : String} {e : CrsObj}
    (parsed : Option PInfo) (e0 pick : Nat) (h : cacheFind W (.txt k) σ.cache = some e) :
    (makeFromText W σ k parsed e0 pick).2 = .ok e := by
  unfold makeFromText
  simp only [h]

theorem cx_find : cacheFind cxW (.txt "EPSG:1") (run cxW [.mk 0 (.str "EPSG:1") 0]).1.cache =
    some ⟨0, cxP, "x", some 0⟩ := by
  rw [cx_cache]
  simp only [cacheFind, List.find?, keyEq, beq_self_eq_true, Option.map_some]

theorem cx_hit : (construct cxW (run cxW [.mk 0 (.str "EPSG:1") 0]).1 (.str "epsg:1") 0).2 =
    .ok ⟨0, cxP, "x", some 0⟩ := by
  simp only [construct]
  rw [cx_key2]
  exact makeFromText_hit _ _ _ cx_find

theorem cx_none : cxW.fromText "epsg:1" = none := by
  simp [cxW]

theorem cx_none2 : specSys cxW (run cxW [.mk 0 (.str "EPSG:1") 0]).1 (.str "epsg:1") = none := by
  simp only [specSys, cx_none, Option.map_none]

theorem cx_real : ∀ op ∈ [Op.mk 0 (.str "EPSG:1") 0], op.real = true := by
  intro op hop
  rw [List.mem_singleton.1 hop]
  rfl

/-- `KeySysCoherent` alone does not give `construct_sys_correct_aux`: after `CRS("EPSG:1")`,
`CRS("epsg:1")` succeeds from the cache although this pyproj rejects the lower-case spelling. -/
theorem accept_needed : ∃ (W : World) (h : List Op) (spec : Spec) (c : CrsObj),
    KeySysCoherent W ∧ (∀ op ∈ h, op.real = true) ∧
      (construct W (run W h).1 spec 0).2 = .ok c ∧ specSys W (run W h).1 spec = none :=
  ⟨cxW, [.mk 0 (.str "EPSG:1") 0], .str "epsg:1", ⟨0, cxP, "x", some 0⟩, cxW_coherent, cx_real,
    cx_hit, cx_none2⟩
end OdcGeo.C19
