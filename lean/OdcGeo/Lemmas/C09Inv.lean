/- The invariant of the C09 history theorem and its preservation (helper lemmas; the property
theorems that use them are in Props/C09.lean). -/
import OdcGeo.Model.C09
import OdcGeo.Lemmas.C09
import Mathlib.Tactic.Linarith
import Mathlib.Tactic.Ring
import Mathlib.Tactic.NormNum

namespace OdcGeo.C09
open OdcGeo OdcGeo.PySliceStep

/-! ## the invariant carried through a history of operations -/

/-- label origin and step per original pixel: world labels for an axis-aligned box,
pixel-space labels (`k + ½`) otherwise -/
def baseX (g : GeoBox) : Rat × Rat := if isAffineST g.A then (g.A.c + g.A.a / 2, g.A.a) else (1 / 2, 1)
def baseY (g : GeoBox) : Rat × Rat := if isAffineST g.A then (g.A.f + g.A.e / 2, g.A.e) else (1 / 2, 1)
def xfOf (g : GeoBox) : Option Aff := if isAffineST g.A then none else some g.A
def caOf (g : GeoBox) : Option Crs := if isAffineST g.A then g.crs else none
def ccOf (g : GeoBox) : Option CrsCoord := g.crs.map fun c => ⟨some c, some g.A, none⟩

/-- "the labels of both spatial axes are arithmetic progressions of the original pixel centres
(`my`, `mx` say which), the `_transform` encoding and the CRS coordinate are intact and reachable
on both location paths" -/
structure Inv (g : GeoBox) (cn : String) (my mx : AxMap) (a : XArr) : Prop where
  sd : guessDims a.dims = some (dimsOf g.crs)
  cnDim : cn ∉ a.dims
  ylk : a.coords.lookup (dimsOf g.crs).1 =
    some (.axis (labelsFor (baseY g).1 (baseY g).2 my) (xfOf g) (caOf g))
  xlk : a.coords.lookup (dimsOf g.crs).2 =
    some (.axis (labelsFor (baseX g).1 (baseX g).2 mx) (xfOf g) (caOf g))
  crsLk : a.coords.lookup cn = (ccOf g).map Coord.crs
  scan : crsScan a.coords = (ccOf g).toList
  crsKeys : ∀ k c, (k, Coord.crs c) ∈ a.coords → k = cn
  gm : a.gridMapping = some cn ∨ a.gridMapping = none

def NameOk (cn : String) : Prop :=
  cn ≠ "time" ∧ cn ≠ "band" ∧ cn ≠ "y" ∧ cn ≠ "x" ∧ cn ≠ "latitude" ∧ cn ≠ "longitude"

/-- integer indexing is admitted on the non-spatial axes only (it removes the axis); every other
operation — slices of any axis with any bounds / non-zero step, arithmetic, astype, pickle — is free -/
def Op.admissible : Op → Prop
  | .isel d (.int _) => d = "time" ∨ d = "band"
  | _ => True

theorem dimsOf_cases (c : Option Crs) :
    dimsOf c = ("y", "x") ∨ dimsOf c = ("latitude", "longitude") := by
  rcases c with _ | ⟨i, _ | _⟩ <;> simp [dimsOf]

private theorem beq_false_of_ne {a b : String} (h : a ≠ b) : (a == b) = false := by simpa using h

/-- `wrap` establishes the invariant (both label kinds, with / without CRS, any rank) -/
theorem inv_wrap (g : GeoBox) (nt nb : Option Nat) (cn : String) (attrs : List String) (a0 : XArr)
    (hcn : NameOk cn) (hw : wrap (.lin g) nt nb cn attrs = .ok a0) :
    Inv g cn (AxMap.ident g.ny) (AxMap.ident g.nx) a0 := by
  obtain ⟨h1, h2, h3, h4, h5, h6⟩ := hcn
  have e1 := beq_false_of_ne h1
  have e2 := beq_false_of_ne h2
  have e3 := beq_false_of_ne h3
  have e4 := beq_false_of_ne h4
  have e5 := beq_false_of_ne h5
  have e6 := beq_false_of_ne h6
  have e1' := beq_false_of_ne (Ne.symm h1)
  have e2' := beq_false_of_ne (Ne.symm h2)
  have e3' := beq_false_of_ne (Ne.symm h3)
  have e4' := beq_false_of_ne (Ne.symm h4)
  have e5' := beq_false_of_ne (Ne.symm h5)
  have e6' := beq_false_of_ne (Ne.symm h6)
  obtain ⟨ny, nx, A, crs⟩ := g
  simp only [wrap, xrCoords, srcDims, bind, Except.bind, pure, Except.pure] at hw
  rcases dimsOf_cases crs with hd | hd <;> rw [hd] at hw <;>
  by_cases hst : isAffineST A = true <;>
  rcases crs with _ | c <;> rcases nt with _ | nt <;> rcases nb with _ | nb <;>
  simp only [hst, if_true, if_false, Bool.false_eq_true] at hw <;>
  (injection hw with hw; subst hw) <;>
  (constructor <;>
    simp [hd, guessDims, baseX, baseY, xfOf, caOf, ccOf, hst, labelsFor_ident, axisLabels_eq_ap,
      pixelLabels_eq_ap, crsScan, List.lookup, e1, e2, e3, e4, e5, e6, e1', e2', e3', e4', e5', e6',
      h1, h2, h3, h4, h5, h6, Ne.symm h1, Ne.symm h2, Ne.symm h3, Ne.symm h4, Ne.symm h5, Ne.symm h6])

theorem dimsOf_ne (c : Option Crs) : (dimsOf c).1 ≠ (dimsOf c).2 := by
  rcases dimsOf_cases c with h | h <;> rw [h] <;> decide

theorem dimsOf_not_tb (c : Option Crs) (d : String) (hd : d = "time" ∨ d = "band") :
    (dimsOf c).1 ≠ d ∧ (dimsOf c).2 ≠ d := by
  rcases dimsOf_cases c with h | h <;> rw [h] <;> rcases hd with rfl | rfl <;> decide

private theorem crs_match_isel (c : Coord) (a b : Option Int) (st : Int) :
    (match iselCoord c a b st with | Coord.crs c' => some c' | _ => none) =
      (match c with | Coord.crs c' => some c' | _ => none) := by
  cases c <;> rfl

/-- one admissible operation preserves the invariant and updates the index maps as `trackOp` says -/
theorem inv_step (g : GeoBox) (cn : String) (my mx : AxMap) (a a' : XArr) (op : Op)
    (hcn : NameOk cn) (hI : Inv g cn my mx a) (hadm : op.admissible) (hop : applyOp a op = .ok a') :
    Inv g cn (trackOp (dimsOf g.crs).1 (dimsOf g.crs).2 (my, mx) op).1
      (trackOp (dimsOf g.crs).1 (dimsOf g.crs).2 (my, mx) op).2 a' := by
  cases op with
  | arith =>
    simp only [applyOp, Except.ok.injEq] at hop
    subst hop
    exact { hI with gm := Or.inr rfl }
  | astype =>
    simp only [applyOp, Except.ok.injEq] at hop
    subst hop
    exact { hI with gm := Or.inr rfl }
  | pickle =>
    simp only [applyOp, Except.ok.injEq] at hop
    subst hop
    exact hI
  | isel d ix =>
    simp only [applyOp] at hop
    split at hop
    · cases hop
    · rename_i hdim
      have hdim' : d ∈ a.dims := by simpa using hdim
      have hdcn : d ≠ cn := fun h => hI.cnDim (h ▸ hdim')
      split at hop
      · cases hop
      · rename_i c hc
        cases ix with
        | slc start stop step =>
          simp only at hop
          split at hop
          · cases hop
          · rename_i hst
            simp only [Except.ok.injEq] at hop
            subst hop
            have hscan : crsScan (mapCoord d (fun x => iselCoord x start stop (step.getD 1)) a.coords)
                = crsScan a.coords :=
              crsScan_mapCoord d _ a.coords (fun k c _ _ => crs_match_isel c start stop _)
            have hkeys : ∀ k c, (k, Coord.crs c) ∈ mapCoord d (fun x => iselCoord x start stop (step.getD 1)) a.coords →
                k = cn := by
              intro k c hm
              obtain ⟨c0, hm0, hc0⟩ := mem_mapCoord _ _ _ _ _ hm
              rcases hc0 with rfl | ⟨_, hc0⟩
              · exact hI.crsKeys k c hm0
              · cases c0 <;> simp [iselCoord] at hc0
                subst hc0
                exact hI.crsKeys k _ hm0
            simp only [trackOp]
            by_cases hy : d = (dimsOf g.crs).1
            · subst hy
              simp only [if_true]
              refine ⟨hI.sd, hI.cnDim, ?_, ?_, ?_, ?_, hkeys, hI.gm⟩
              · simp only []
                rw [lookup_mapCoord_eq, hI.ylk]
                simp [iselCoord, pick_labelsFor _ _ _ _ _ _ hst]
              · simp only []
                rw [lookup_mapCoord_ne _ _ _ _ (Ne.symm (dimsOf_ne g.crs)), hI.xlk]
              · simp only []
                rw [lookup_mapCoord_ne _ _ _ _ (Ne.symm hdcn), hI.crsLk]
              · simp only []
                rw [hscan, hI.scan]
            · by_cases hx : d = (dimsOf g.crs).2
              · subst hx
                simp only [hy, if_false, if_true]
                refine ⟨hI.sd, hI.cnDim, ?_, ?_, ?_, ?_, hkeys, hI.gm⟩
                · simp only []
                  rw [lookup_mapCoord_ne _ _ _ _ (dimsOf_ne g.crs), hI.ylk]
                · simp only []
                  rw [lookup_mapCoord_eq, hI.xlk]
                  simp [iselCoord, pick_labelsFor _ _ _ _ _ _ hst]
                · simp only []
                  rw [lookup_mapCoord_ne _ _ _ _ (Ne.symm hdcn), hI.crsLk]
                · simp only []
                  rw [hscan, hI.scan]
              · simp only [hy, hx, if_false]
                refine ⟨hI.sd, hI.cnDim, ?_, ?_, ?_, ?_, hkeys, hI.gm⟩
                · simp only []
                  rw [lookup_mapCoord_ne _ _ _ _ (Ne.symm hy), hI.ylk]
                · simp only []
                  rw [lookup_mapCoord_ne _ _ _ _ (Ne.symm hx), hI.xlk]
                · simp only []
                  rw [lookup_mapCoord_ne _ _ _ _ (Ne.symm hdcn), hI.crsLk]
                · simp only []
                  rw [hscan, hI.scan]
        | int i =>
          have htb : d = "time" ∨ d = "band" := hadm
          simp only at hop
          split at hop
          · cases hop
          · simp only [Except.ok.injEq] at hop
            subst hop
            obtain ⟨hyd, hxd⟩ := dimsOf_not_tb g.crs d htb
            have hkeys : ∀ k c, (k, Coord.crs c) ∈ mapCoord d (fun _ => Coord.scalar) a.coords → k = cn := by
              intro k c hm
              obtain ⟨c0, hm0, hc0⟩ := mem_mapCoord _ _ _ _ _ hm
              rcases hc0 with rfl | ⟨_, hc0⟩
              · exact hI.crsKeys k c hm0
              · cases hc0
            have hscan : crsScan (mapCoord d (fun _ => Coord.scalar) a.coords) = crsScan a.coords := by
              apply crsScan_mapCoord
              intro k c hm hk
              cases c with
              | crs cc => exact absurd ((hI.crsKeys k cc hm).symm.trans hk) (Ne.symm hdcn)
              | _ => rfl
            simp only [trackOp]
            refine ⟨?_, ?_, ?_, ?_, ?_, ?_, hkeys, hI.gm⟩
            · simp only []
              rw [guessDims_filter _ _ htb, hI.sd]
            · simp only []
              intro hm
              exact hI.cnDim (List.mem_filter.mp hm).1
            · simp only []
              rw [lookup_mapCoord_ne _ _ _ _ hyd, hI.ylk]
            · simp only []
              rw [lookup_mapCoord_ne _ _ _ _ hxd, hI.xlk]
            · simp only []
              rw [lookup_mapCoord_ne _ _ _ _ (Ne.symm hdcn), hI.crsLk]
            · simp only []
              rw [hscan, hI.scan]

/-- the invariant survives every finite history of admissible operations (induction on `ops`) -/
theorem inv_ops (g : GeoBox) (cn : String) (hcn : NameOk cn) (ops : List Op) :
    ∀ (m : AxMap × AxMap) (a a' : XArr), Inv g cn m.1 m.2 a → (∀ op ∈ ops, op.admissible) →
      applyOps a ops = .ok a' →
      Inv g cn (track (dimsOf g.crs).1 (dimsOf g.crs).2 m ops).1
        (track (dimsOf g.crs).1 (dimsOf g.crs).2 m ops).2 a' := by
  induction ops with
  | nil =>
    intro m a a' hI _ h
    simp only [applyOps, Except.ok.injEq] at h
    subst h
    exact hI
  | cons op rest ih =>
    intro m a a' hI hadm h
    simp only [applyOps] at h
    split at h
    · cases h
    · rename_i a1 h1
      have hstep := inv_step g cn m.1 m.2 a a1 op hcn hI (hadm op List.mem_cons_self) h1
      exact ih _ a1 a' hstep (fun o ho => hadm o (List.mem_cons_of_mem _ ho)) h

theorem inv_locate (g : GeoBox) (cn : String) (my mx : AxMap) (a : XArr) (hI : Inv g cn my mx a) :
    locateCrsCoords a = (ccOf g).toList := by
  unfold locateCrsCoords
  rcases hI.gm with h | h
  · rw [h]
    simp only [hI.crsLk]
    cases ccOf g <;> rfl
  · rw [h]
    exact hI.scan

/-- the pixel transform recovered from the labels (before the encoded `_transform` is applied) -/
def labelAff (g : GeoBox) (my mx : AxMap) : Aff :=
  let cx := (baseX g).1 + (mx.off : Rat) * (baseX g).2
  let dx := (mx.stride : Rat) * (baseX g).2
  let cy := (baseY g).1 + (my.off : Rat) * (baseY g).2
  let dy := (my.stride : Rat) * (baseY g).2
  Aff.translation (cx - (1 / 2) * resOf mx.len dx (baseX g).2) (cy - (1 / 2) * resOf my.len dy (baseY g).2) *
    Aff.scale (resOf mx.len dx (baseX g).2) (resOf my.len dy (baseY g).2)

/-- a fallback resolution for one-element axes is available: the box has a CRS (GeoTransform on the
CRS coordinate) or is rotated/sheared (pixel-space labels) -/
def HasFallback (g : GeoBox) (my mx : AxMap) : Prop :=
  (2 ≤ my.len ∧ 2 ≤ mx.len) ∨ g.crs.isSome = true ∨ isAffineST g.A = false

/-- what `.odc.geobox` returns under the invariant, explicitly -/
theorem inv_recover (g : GeoBox) (cn : String) (my mx : AxMap) (a : XArr) (hI : Inv g cn my mx a)
    (hy : 1 ≤ my.len) (hx : 1 ≤ mx.len) (hfb : HasFallback g my mx) :
    recover a = .ok (.lin ⟨my.len, mx.len, composeP2W (xfOf g) (labelAff g my mx), g.crs⟩) := by
  have hloc := inv_locate g cn my mx a hI
  unfold recover
  rw [spatialDims_of_guess _ _ hI.sd]
  simp only [hI.ylk, hI.xlk, hloc]
  have hfb' : (2 ≤ mx.len ∧ 2 ≤ my.len) ∨
      fallbackRes (if (((ccOf g).toList.head?).bind (·.gcps)).isSome then none else xfOf g)
        ((ccOf g).toList.head?) (((ccOf g).toList.head?).bind (·.gcps)).isSome
        = .ok (some ((baseX g).2, (baseY g).2)) := by
    rcases hfb with h | h | h
    · exact Or.inl ⟨h.2, h.1⟩
    · right
      obtain ⟨c, hc⟩ := Option.isSome_iff_exists.mp h
      by_cases hst : isAffineST g.A = true
      · simp [ccOf, hc, xfOf, hst, fallbackRes, resolutionFromAffine, baseX, baseY, Except.map]
      · simp [ccOf, hc, xfOf, hst, fallbackRes, baseX, baseY]
    · right
      cases hcrs : g.crs <;> simp [ccOf, hcrs, xfOf, h, fallbackRes, baseX, baseY]
  have hgcp : (((ccOf g).toList.head?).bind (·.gcps)).isSome = false := by
    cases hcrs : g.crs <;> simp [ccOf, hcrs]
  rw [hgcp] at hfb'
  unfold labelsFor
  rw [hgcp, extractTransform_ap _ _ _ _ _ _ hx hy _ _ _ _ hfb']
  have hgcp' : ((ccOf g).toList.head?).bind (·.gcps) = none := by
    cases hcrs : g.crs <;> simp [ccOf, hcrs]
  simp only [hgcp', ap_length, Bool.false_eq_true, if_false, Option.getD]
  unfold labelAff
  congr 3
  cases hcrs : g.crs with
  | none => by_cases hst : isAffineST g.A = true <;> simp [ccOf, hcrs, caOf, hst, firstSome]
  | some c => simp [ccOf, hcrs]


/-! ### helper lemmas for the reprojection output (`assemble`) -/

/-- from the invariant with identity index maps to "recover gives the box back" -/
theorem recover_of_inv_ident (g : GeoBox) (cn : String) (a : XArr)
    (hI : Inv g cn (AxMap.ident g.ny) (AxMap.ident g.nx) a) (hny : 1 ≤ g.ny) (hnx : 1 ≤ g.nx)
    (hfb : HasFallback g (AxMap.ident g.ny) (AxMap.ident g.nx))
    (halign : isAffineST g.A = true → g.A.b = 0 ∧ g.A.d = 0) :
    recover a = .ok (.lin g) := by
  rw [inv_recover g cn _ _ a hI hny hnx hfb]
  obtain ⟨ny, nx, ⟨a', b, c, d, e, f⟩, crs⟩ := g
  by_cases hst : isAffineST (⟨a', b, c, d, e, f⟩ : Aff) = true
  · obtain ⟨hb, hd⟩ := halign hst
    simp only at hb hd
    subst hb; subst hd
    simp only [labelAff, AxMap.ident, baseX, baseY, xfOf, hst, if_true, composeP2W, resOf_same,
      Int.cast_zero, Int.cast_one, zero_mul, one_mul, add_zero]
    congr 3
    simp only [Aff.mul_def, Aff.mul, Aff.translation, Aff.scale]
    ext <;> simp <;> ring
  · have hst' : isAffineST (⟨a', b, c, d, e, f⟩ : Aff) = false := by simpa using hst
    simp only [labelAff, AxMap.ident, baseX, baseY, xfOf, hst', if_false, composeP2W, resOf_same,
      Int.cast_zero, Int.cast_one, zero_mul, one_mul, add_zero, Bool.false_eq_true]
    congr 3
    simp only [Aff.mul_def, Aff.mul, Aff.translation, Aff.scale]
    ext <;> simp

theorem replaceDims_shape (pre post : List String) (yd xd : String) (dd : String × String)
    (hpre : yd ∉ pre) :
    replaceDims (pre ++ [yd, xd] ++ post) (yd, xd) dd = pre ++ [dd.1, dd.2] ++ post := by
  induction pre with
  | nil => simp [replaceDims]
  | cons p ps ih =>
    have hp : p ≠ yd := fun h => hpre (h ▸ List.mem_cons_self)
    have hps : yd ∉ ps := fun h => hpre (List.mem_cons_of_mem _ h)
    have := ih hps
    simp only [List.cons_append, List.append_assoc] at this ⊢
    simp only [replaceDims, hp, if_false]
    rw [this]

/-- dims `(time?) ydim xdim (band?)` are recognised as that pair of spatial dims -/
theorem guessDims_shape (pre post : List String) (c : Option Crs)
    (htb : ∀ d ∈ pre ++ post, d = "time" ∨ d = "band") :
    guessDims (pre ++ [(dimsOf c).1, (dimsOf c).2] ++ post) = some (dimsOf c) := by
  have hno : ∀ s : String, s ≠ "time" → s ≠ "band" → s ∉ pre ∧ s ∉ post := by
    intro s h1 h2
    constructor
    · intro hm
      rcases htb s (List.mem_append_left _ hm) with h | h
      · exact h1 h
      · exact h2 h
    · intro hm
      rcases htb s (List.mem_append_right _ hm) with h | h
      · exact h1 h
      · exact h2 h
  obtain ⟨y1, y2⟩ := hno "y" (by decide) (by decide)
  obtain ⟨x1, x2⟩ := hno "x" (by decide) (by decide)
  rcases dimsOf_cases c with h | h <;> rw [h] <;>
    simp [guessDims, List.contains_append, y1, y2, x1, x2]

theorem lookup_filter_names_none (names : List String) (k : String) (hk : k ∈ names)
    (l : List (String × Coord)) :
    (l.filter (fun kc => !names.contains kc.1)).lookup k = none := by
  induction l with
  | nil => rfl
  | cons hd tl ih =>
    obtain ⟨k', c⟩ := hd
    simp only [List.filter_cons]
    split
    · rename_i hkeep
      have hne : (k == k') = false := by
        have : k' ∉ names := by simpa using hkeep
        have : k ≠ k' := fun h => this (h ▸ hk)
        simpa using this
      rw [List.lookup_cons, hne]
      exact ih
    · exact ih

theorem crsScan_nil_of_no_crs (l : List (String × Coord)) (h : ∀ k c, (k, Coord.crs c) ∉ l) :
    crsScan l = [] := by
  induction l with
  | nil => rfl
  | cons hd tl ih =>
    obtain ⟨k, c⟩ := hd
    have ih' := ih (fun k' c' hm => h k' c' (List.mem_cons_of_mem _ hm))
    cases c with
    | crs cc => exact absurd List.mem_cons_self (h k cc)
    | _ => simpa [crsScan] using ih'

theorem crsScan_append (l1 l2 : List (String × Coord)) : crsScan (l1 ++ l2) = crsScan l1 ++ crsScan l2 := by
  simp [crsScan, List.filterMap_append]

theorem no_crs_in_kept (sd : String × String) (names : List String) (l : List (String × Coord)) (k : String)
    (c : CrsCoord) : (k, Coord.crs c) ∉ (l.filter (shouldKeep sd)).filter (fun kc => !names.contains kc.1) := by
  intro hm
  have h1 := (List.mem_filter.mp hm).1
  have h2 := (List.mem_filter.mp h1).2
  simp [shouldKeep] at h2


/-- coordinates `kept ++ xr_coords(dst)` with nothing in `kept` shadowing or competing with the new ones
satisfy the invariant for `dst` with identity index maps -/
theorem inv_assembled (dst : GeoBox) (c : Crs) (hcrs : dst.crs = some c) (dims : List String)
    (kept cs : List (String × Coord)) (attrs : List String)
    (hcs : xrCoords (.lin dst) "spatial_ref" = .ok cs)
    (hsd : guessDims dims = some (dimsOf dst.crs)) (hcn : "spatial_ref" ∉ dims)
    (hk1 : ∀ k ∈ cs.map (·.1), kept.lookup k = none) (hk2 : ∀ k c', (k, Coord.crs c') ∉ kept) :
    Inv dst "spatial_ref" (AxMap.ident dst.ny) (AxMap.ident dst.nx)
      ⟨dims, kept ++ cs, some "spatial_ref", attrs⟩ := by
  obtain ⟨ny, nx, A, crs⟩ := dst
  simp only at hcrs
  subst hcrs
  have hscan0 : crsScan kept = [] := crsScan_nil_of_no_crs kept hk2
  obtain ⟨cid, geo⟩ := c
  cases geo <;> by_cases hst : isAffineST A = true <;>
  simp only [xrCoords, dimsOf, hst, if_true, if_false, Bool.false_eq_true, Except.ok.injEq] at hcs <;>
  subst hcs <;>
  (refine ⟨hsd, hcn, ?_, ?_, ?_, ?_, ?_, Or.inl rfl⟩
   · simp only [List.lookup_append]
     rw [hk1 _ (by simp [dimsOf])]
     simp [dimsOf, baseY, xfOf, caOf, hst, labelsFor_ident, axisLabels_eq_ap, pixelLabels_eq_ap, List.lookup]
   · simp only [List.lookup_append]
     rw [hk1 _ (by simp [dimsOf])]
     simp [dimsOf, baseX, xfOf, caOf, hst, labelsFor_ident, axisLabels_eq_ap, pixelLabels_eq_ap, List.lookup]
   · simp only [List.lookup_append]
     rw [hk1 _ (by simp)]
     simp [ccOf, List.lookup]
   · simp only [crsScan_append, hscan0]
     simp [crsScan, ccOf]
   · intro k c' hm
     rcases List.mem_append.mp hm with hm | hm
     · exact absurd hm (hk2 k c')
     · simp at hm
       exact hm.1)


/-- `recover` on any array whose two spatial axes carry arithmetic-progression labels and whose located CRS
coordinate is `cc` (no GCPs): explicit result -/
theorem recover_lin (a : XArr) (yd xd : String) (cx dx cy dy : Rat) (nx ny : Nat) (xf yxf : Option Aff)
    (ycrs xcrs : Option Crs) (cc : CrsCoord) (fb : Rat × Rat)
    (hsd : spatialDims a.dims = some (yd, xd))
    (hy : a.coords.lookup yd = some (.axis (ap cy dy ny) yxf ycrs))
    (hx : a.coords.lookup xd = some (.axis (ap cx dx nx) xf xcrs))
    (hloc : locateCrsCoords a = [cc]) (hg : cc.gcps = none) (hnx : 1 ≤ nx) (hny : 1 ≤ ny)
    (hfb : (2 ≤ nx ∧ 2 ≤ ny) ∨ fallbackRes xf (some cc) false = .ok (some fb)) :
    recover a = .ok (.lin ⟨ny, nx, composeP2W xf
      (Aff.translation (cx - (1 / 2) * resOf nx dx fb.1) (cy - (1 / 2) * resOf ny dy fb.2) *
        Aff.scale (resOf nx dx fb.1) (resOf ny dy fb.2)), cc.crs⟩) := by
  unfold recover
  rw [hsd]
  simp only [hy, hx, hloc, List.head?_cons, Option.bind_some, hg, Option.isSome_none]
  rw [extractTransform_ap _ _ _ _ _ _ hnx hny _ _ _ fb (by simpa using hfb)]
  simp [ap_length]


theorem beq_false_of_ne' {a b : String} (h : a ≠ b) : (a == b) = false := by simpa using h

end OdcGeo.C09
