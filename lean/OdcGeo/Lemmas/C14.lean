/- Helper lemmas for C14 (exact-arithmetic instance `fl := id` of the model). -/
import OdcGeo.Model.C14
import OdcGeo.Lemmas.Affine
import Mathlib.Tactic.Linarith
import Mathlib.Tactic.Ring
import Mathlib.Tactic.FieldSimp
import Mathlib.Tactic.Positivity
import Mathlib.Tactic.ByContra
import Mathlib.Algebra.Order.Field.Rat
import Mathlib.Data.List.Nodup
import Mathlib.Tactic.Tauto

namespace OdcGeo.C14

theorem floor_eq_iff' (q : Rat) (k : Int) : q.floor = k ↔ (k : Rat) ≤ q ∧ q < (k : Rat) + 1 := by
  constructor
  · intro h; subst h
    refine ⟨Rat.floor_le .., ?_⟩
    have := Rat.lt_floor_add_one q
    push_cast at this; exact this
  · rintro ⟨h1, h2⟩
    have a : k ≤ q.floor := Rat.le_floor_iff.mpr h1
    have b : q.floor < k + 1 := Rat.floor_lt_iff.mpr (by push_cast; exact h2)
    omega

namespace Bin1D

theorem lo_id (b : Bin1D) (k : Int) : b.lo id k = (k : Rat) * b.sz * (b.dir : Rat) + b.origin := rfl

theorem hi_id (b : Bin1D) (k : Int) :
    b.hi id k = (k : Rat) * b.sz * (b.dir : Rat) + b.origin + b.sz := rfl

theorem bin_id (b : Bin1D) (x : Rat) : b.bin id x = b.dir * ((x - b.origin) / b.sz).floor := rfl

theorem new_ok {sz o : Rat} {d : Int} {b : Bin1D} (h : Bin1D.new sz o d = .ok b) :
    b = ⟨sz, o, d⟩ ∧ b.WF := by
  unfold Bin1D.new at h
  split at h
  · cases h
  · split at h
    · cases h
    · cases h
      rename_i h1 h2
      refine ⟨rfl, ⟨?_, ?_⟩⟩
      · simpa using h2
      · have : d = -1 ∨ d = 1 := Decidable.not_not.mp h1
        exact this.symm

theorem new_of_wf (b : Bin1D) (h : b.WF) : Bin1D.new b.sz b.origin b.dir = .ok b := by
  unfold Bin1D.new
  have h1 : (b.dir = -1 ∨ b.dir = 1) := h.dir.symm
  have h2 := h.sz_pos
  simp [h1, h2]

/-- membership in bin `k` for either direction -/
theorem bin_eq_iff (b : Bin1D) (h : b.WF) (x : Rat) (k : Int) :
    b.bin id x = k ↔ b.lo id k ≤ x ∧ x < b.hi id k := by
  have hs := h.sz_pos
  rw [bin_id, lo_id, hi_id]
  rcases h.dir with hd | hd <;> rw [hd]
  · rw [one_mul, floor_eq_iff', le_div_iff₀ hs, div_lt_iff₀ hs]
    push_cast
    constructor <;> rintro ⟨h1, h2⟩ <;> constructor <;> nlinarith
  · have : (-1 : Int) * ((x - b.origin) / b.sz).floor = k ↔ ((x - b.origin) / b.sz).floor = -k := by
      omega
    rw [this, floor_eq_iff', le_div_iff₀ hs, div_lt_iff₀ hs]
    push_cast
    constructor <;> rintro ⟨h1, h2⟩ <;> constructor <;> nlinarith

theorem hi_eq_lo_add (b : Bin1D) (k : Int) : b.hi id k = b.lo id k + b.sz := rfl

theorem hi_eq_lo_next (b : Bin1D) (h : b.WF) (k : Int) : b.hi id k = b.lo id (k + b.dir) := by
  rw [hi_id, lo_id]
  rcases h.dir with hd | hd <;> rw [hd] <;> push_cast <;> ring

theorem lo_lt_hi (b : Bin1D) (h : b.WF) (k : Int) : b.lo id k < b.hi id k := by
  rw [hi_eq_lo_add]; linarith [h.sz_pos]

/-- `dir * k` is the position of bin `k` counted left to right -/
theorem lo_eq_pos (b : Bin1D) (_h : b.WF) (k : Int) :
    b.lo id k = ((b.dir * k : Int) : Rat) * b.sz + b.origin := by
  rw [lo_id]; push_cast; ring

theorem lo_mono (b : Bin1D) (h : b.WF) {j k : Int} (hjk : b.dir * j ≤ b.dir * k) :
    b.lo id j ≤ b.lo id k := by
  rw [lo_eq_pos b h, lo_eq_pos b h]
  have : ((b.dir * j : Int) : Rat) ≤ ((b.dir * k : Int) : Rat) := by exact_mod_cast hjk
  have := mul_le_mul_of_nonneg_right this h.sz_pos.le
  linarith

theorem hi_le_lo_of_lt (b : Bin1D) (h : b.WF) {j k : Int} (hjk : b.dir * j < b.dir * k) :
    b.hi id j ≤ b.lo id k := by
  rw [hi_eq_lo_add, lo_eq_pos b h, lo_eq_pos b h]
  have : ((b.dir * j : Int) : Rat) + 1 ≤ ((b.dir * k : Int) : Rat) := by exact_mod_cast hjk
  have := mul_le_mul_of_nonneg_right this h.sz_pos.le
  linarith

theorem dir_mul_inj (b : Bin1D) (h : b.WF) {j k : Int} (hjk : b.dir * j = b.dir * k) : j = k := by
  rcases h.dir with hd | hd <;> rw [hd] at hjk <;> omega

/-- `dir * bin` is monotone in the coordinate -/
theorem bin_mono (b : Bin1D) (h : b.WF) {x y : Rat} (hxy : x ≤ y) :
    b.dir * b.bin id x ≤ b.dir * b.bin id y := by
  by_contra hlt
  have hlt : b.dir * b.bin id y < b.dir * b.bin id x := by omega
  have h1 := hi_le_lo_of_lt b h hlt
  have hx := ((bin_eq_iff b h x _).mp rfl).1
  have hy := ((bin_eq_iff b h y _).mp rfl).2
  linarith

/-- Bins met by a closed interval `[p, q]` are exactly those between `bin p` and `bin q`. -/
theorem meets_iff (b : Bin1D) (h : b.WF) {p q : Rat} (hpq : p ≤ q) (k : Int) :
    (∃ x, p ≤ x ∧ x ≤ q ∧ b.lo id k ≤ x ∧ x < b.hi id k) ↔
      b.dir * b.bin id p ≤ b.dir * k ∧ b.dir * k ≤ b.dir * b.bin id q := by
  constructor
  · rintro ⟨x, hpx, hxq, hk⟩
    have hk' := (bin_eq_iff b h x k).mpr hk
    rw [← hk']
    exact ⟨bin_mono b h hpx, bin_mono b h hxq⟩
  · rintro ⟨h1, h2⟩
    have hp := (bin_eq_iff b h p _).mp rfl
    have hq := (bin_eq_iff b h q _).mp rfl
    have hlo_q : b.lo id k ≤ q := le_trans (lo_mono b h h2) hq.1
    have hp_hi : p < b.hi id k := by
      rcases Int.lt_or_eq_of_le h1 with hlt | heq
      · exact lt_of_lt_of_le hp.2 (le_trans (hi_le_lo_of_lt b h hlt) (lo_lt_hi b h k).le)
      · rw [← dir_mul_inj b h heq]; exact hp.2
    refine ⟨max p (b.lo id k), le_max_left _ _, max_le hpq hlo_q, le_max_right _ _, ?_⟩
    exact max_lt hp_hi (lo_lt_hi b h k)

theorem fromSampleBin_ok {idx : Int} {x0 x1 : Rat} {d : Int} (hd : d = 1 ∨ d = -1) (hx : x0 < x1) :
    Bin1D.fromSampleBin id idx x0 x1 d
      = .ok ⟨x1 - x0, x0 - (x1 - x0) * (idx : Rat) * (d : Rat), d⟩ := by
  unfold Bin1D.fromSampleBin Bin1D.new
  have h1 : (d = -1 ∨ d = 1) := hd.symm
  have h2 : 0 < x1 - x0 := by linarith
  simp [hx, h1, h2]

theorem fromSampleBin_err {idx : Int} {x0 x1 : Rat} {d : Int} (hx : ¬ x0 < x1) :
    Bin1D.fromSampleBin id idx x0 x1 d = .error .assertion := by
  unfold Bin1D.fromSampleBin
  simp [hx]

/-- rebuilding a binning from any one of its bins gives the same binning back -/
theorem fromSampleBin_roundtrip (b : Bin1D) (h : b.WF) (j : Int) :
    Bin1D.fromSampleBin id j (b.lo id j) (b.hi id j) b.dir = .ok b := by
  rw [fromSampleBin_ok h.dir (lo_lt_hi b h j)]
  obtain ⟨sz, o, d⟩ := b
  simp only [hi_id, lo_id]
  congr 2 <;> ring

end Bin1D

/-! ### 2-D -/

structure GridSpec.WF (g : GridSpec) : Prop where
  x : g.xbin.WF
  y : g.ybin.WF
  szx : g.xbin.sz = (g.nx : Rat) * rabs g.rx
  szy : g.ybin.sz = (g.ny : Rat) * rabs g.ry

namespace GridSpec

theorem new_ok {ny nx : Int} {rx ry ox oy : Rat} {fx fy : Bool} {g : GridSpec}
    (h : GridSpec.new id ny nx rx ry ox oy fx fy = .ok g) :
    g = ⟨ny, nx, rx, ry, ox, oy, ⟨(nx : Rat) * rabs rx, ox, dirOf fx⟩, ⟨(ny : Rat) * rabs ry, oy, dirOf fy⟩⟩
      ∧ g.WF := by
  unfold GridSpec.new at h
  simp only [id] at h
  cases hy : Bin1D.new ((ny : Rat) * rabs ry) oy (dirOf fy) with
  | error e => rw [hy] at h; cases h
  | ok yb =>
    cases hx : Bin1D.new ((nx : Rat) * rabs rx) ox (dirOf fx) with
    | error e => rw [hy, hx] at h; cases h
    | ok xb =>
      rw [hy, hx] at h
      cases h
      obtain ⟨ey, wy⟩ := Bin1D.new_ok hy
      obtain ⟨ex, wx⟩ := Bin1D.new_ok hx
      subst ey ex
      exact ⟨rfl, ⟨wx, wy, rfl, rfl⟩⟩

theorem dirOf_cases (f : Bool) : dirOf f = 1 ∨ dirOf f = -1 := by
  cases f <;> simp [dirOf]

theorem new_eq_ok {ny nx : Int} {rx ry : Rat} (ox oy : Rat) (fx fy : Bool)
    (h1 : 0 < (nx : Rat) * rabs rx) (h2 : 0 < (ny : Rat) * rabs ry) :
    GridSpec.new id ny nx rx ry ox oy fx fy =
      .ok ⟨ny, nx, rx, ry, ox, oy, ⟨(nx : Rat) * rabs rx, ox, dirOf fx⟩,
        ⟨(ny : Rat) * rabs ry, oy, dirOf fy⟩⟩ := by
  have hy := Bin1D.new_of_wf ⟨(ny : Rat) * rabs ry, oy, dirOf fy⟩ ⟨h2, dirOf_cases fy⟩
  have hx := Bin1D.new_of_wf ⟨(nx : Rat) * rabs rx, ox, dirOf fx⟩ ⟨h1, dirOf_cases fx⟩
  simp only at hx hy
  unfold GridSpec.new
  simp only [id]
  rw [hy, hx]
  rfl

/-- the constructor succeeds exactly when both tile sizes are positive -/
theorem new_isOk_iff (ny nx : Int) (rx ry ox oy : Rat) (fx fy : Bool) :
    (∃ g, GridSpec.new id ny nx rx ry ox oy fx fy = .ok g) ↔
      0 < (nx : Rat) * rabs rx ∧ 0 < (ny : Rat) * rabs ry := by
  constructor
  · rintro ⟨g, h⟩
    obtain ⟨e, w⟩ := new_ok h
    subst e
    exact ⟨w.x.sz_pos, w.y.sz_pos⟩
  · rintro ⟨h1, h2⟩
    exact ⟨_, new_eq_ok ox oy fx fy h1 h2⟩

theorem axis_minmax {lo hi sz r : Rat} {n : Int} (hsz : 0 < sz) (hhi : hi = lo + sz)
    (hn : sz = (n : Rat) * rabs r) :
    min (if 0 < r then lo else hi) ((n : Rat) * r + (if 0 < r then lo else hi)) = lo ∧
    max (if 0 < r then lo else hi) ((n : Rat) * r + (if 0 < r then lo else hi)) = hi := by
  by_cases hr : 0 < r
  · have : rabs r = r := by unfold rabs; rw [if_neg (by linarith)]
    rw [this] at hn
    simp only [hr, if_true]
    rw [← hn, hhi]
    constructor
    · apply min_eq_left; linarith
    · rw [add_comm]; apply max_eq_right; linarith
  · have hr0 : r ≠ 0 := by
      rintro rfl
      simp [rabs] at hn
      linarith
    have hneg : r < 0 := lt_of_le_of_ne (not_lt.mp hr) hr0
    have : rabs r = -r := by unfold rabs; rw [if_pos hneg]
    rw [this] at hn
    have hnr : (n : Rat) * r = -sz := by rw [hn]; ring
    simp only [hr, if_false]
    rw [hnr, hhi]
    constructor
    · rw [show -sz + (lo + sz) = lo by ring]; apply min_eq_right; linarith
    · rw [show -sz + (lo + sz) = lo by ring]; apply max_eq_left; linarith

theorem min4_x (a w : Rat) : min (min (min a a) w) w = min a w := by
  rcases le_total a w with h | h <;> simp [h]

theorem max4_x (a w : Rat) : max (max (max a a) w) w = max a w := by
  rcases le_total a w with h | h <;> simp [h]

theorem min4_y (a v : Rat) : min (min (min a v) v) a = min a v := by
  rcases le_total a v with h | h <;> simp [h]

theorem max4_y (a v : Rat) : max (max (max a v) v) a = max a v := by
  rcases le_total a v with h | h <;> simp [h]

theorem footprint_eq (g : GridSpec) (h : g.WF) (k : Int × Int) :
    g.footprint k = ⟨g.xbin.lo id k.1, g.ybin.lo id k.2, g.xbin.hi id k.1, g.ybin.hi id k.2⟩ := by
  have hx := axis_minmax (lo := g.xbin.lo id k.1) (hi := g.xbin.hi id k.1) h.x.sz_pos
    (Bin1D.hi_eq_lo_add _ _) h.szx
  have hy := axis_minmax (lo := g.ybin.lo id k.2) (hi := g.ybin.hi id k.2) h.y.sz_pos
    (Bin1D.hi_eq_lo_add _ _) h.szy
  unfold GridSpec.footprint GeoBox.bbox GridSpec.tileGeobox GridSpec.tileTxy applyF
  simp only [id, zero_mul, mul_zero, add_zero, zero_add, min4_x, max4_x, min4_y, max4_y]
  rw [hx.1, hx.2, hy.1, hy.2]

theorem rabs_nonneg (r : Rat) : 0 ≤ rabs r := by
  unfold rabs; split <;> linarith

theorem rabs_of_pos {r : Rat} (h : 0 < r) : rabs r = r := by
  unfold rabs; rw [if_neg (by linarith)]

theorem n_pos_of_sz {n : Int} {r : Rat} (h : 0 < (n : Rat) * rabs r) : 0 < n := by
  by_contra hn
  have hn' : (n : Rat) ≤ 0 := by exact_mod_cast (not_lt.mp hn)
  have := mul_nonneg_of_nonpos_of_nonpos hn' (neg_nonpos.mpr (rabs_nonneg r))
  linarith

/-- image of the pixel interval `[0,n]` under `u ↦ r*u + t` is the bin interval -/
theorem axis_image {lo hi sz r : Rat} {n : Int} (hsz : 0 < sz) (hhi : hi = lo + sz)
    (hn : sz = (n : Rat) * rabs r) (x : Rat) :
    (∃ u : Rat, 0 ≤ u ∧ u ≤ (n : Rat) ∧ r * u + (if 0 < r then lo else hi) = x) ↔ lo ≤ x ∧ x ≤ hi := by
  by_cases hr : 0 < r
  · rw [rabs_of_pos hr] at hn
    simp only [hr, if_true]
    constructor
    · rintro ⟨u, h0, h1, rfl⟩
      have := mul_le_mul_of_nonneg_left h1 hr.le
      have := mul_nonneg hr.le h0
      constructor <;> linarith
    · rintro ⟨h1, h2⟩
      refine ⟨(x - lo) / r, div_nonneg (by linarith) hr.le, ?_, ?_⟩
      · rw [div_le_iff₀ hr]; linarith
      · field_simp; ring
  · have hr0 : r ≠ 0 := by
      rintro rfl
      simp [rabs] at hn
      linarith
    have hneg : r < 0 := lt_of_le_of_ne (not_lt.mp hr) hr0
    have : rabs r = -r := by unfold rabs; rw [if_pos hneg]
    rw [this] at hn
    simp only [hr, if_false]
    constructor
    · rintro ⟨u, h0, h1, rfl⟩
      have := mul_le_mul_of_nonpos_left h1 hneg.le
      have := mul_nonpos_of_nonpos_of_nonneg hneg.le h0
      constructor <;> linarith
    · rintro ⟨h1, h2⟩
      refine ⟨(hi - x) / (-r), div_nonneg (by linarith) (by linarith), ?_, ?_⟩
      · rw [div_le_iff₀ (by linarith)]; linarith
      · field_simp; ring

theorem tileGeobox_covers_iff (g : GridSpec) (h : g.WF) (k : Int × Int) (p : Rat × Rat) :
    (g.tileGeobox id k).covers p ↔ (g.footprint k).memClosed p := by
  rw [footprint_eq g h]
  have hx := axis_image (lo := g.xbin.lo id k.1) (hi := g.xbin.hi id k.1) h.x.sz_pos
    (Bin1D.hi_eq_lo_add _ _) h.szx p.1
  have hy := axis_image (lo := g.ybin.lo id k.2) (hi := g.ybin.hi id k.2) h.y.sz_pos
    (Bin1D.hi_eq_lo_add _ _) h.szy p.2
  unfold GeoBox.covers BBox.memClosed GridSpec.tileGeobox GridSpec.tileTxy Aff.apply
  simp only [zero_mul, add_zero, zero_add]
  constructor
  · rintro ⟨u, v, hu0, hu1, hv0, hv1, he⟩
    have e1 := congrArg Prod.fst he
    have e2 := congrArg Prod.snd he
    simp only at e1 e2
    have a := hx.mp ⟨u, hu0, hu1, e1⟩
    have b := hy.mp ⟨v, hv0, hv1, e2⟩
    exact ⟨a.1, a.2, b.1, b.2⟩
  · rintro ⟨a1, a2, b1, b2⟩
    obtain ⟨u, hu0, hu1, e1⟩ := hx.mpr ⟨a1, a2⟩
    obtain ⟨v, hv0, hv1, e2⟩ := hy.mpr ⟨b1, b2⟩
    exact ⟨u, v, hu0, hu1, hv0, hv1, Prod.ext e1 e2⟩

end GridSpec

theorem mem_rangeI (a b x : Int) : x ∈ rangeI a b ↔ a ≤ x ∧ x < b := by
  unfold rangeI
  simp only [List.mem_map, List.mem_range]
  constructor
  · rintro ⟨i, hi, rfl⟩; omega
  · intro h; exact ⟨(x - a).toNat, by omega, by omega⟩

theorem rangeI_nodup (a b : Int) : (rangeI a b).Nodup := by
  unfold rangeI
  exact List.Nodup.map (fun i j h => by simpa using h) (List.nodup_range)

namespace Bin1D

/-- 1-D core of `idx_bounds`: sorted bin indices of the two (possibly unordered) ends -/
theorem range_iff (b : Bin1D) (h : b.WF) (a a' : Rat) (k : Int) :
    (min (b.bin id a) (b.bin id a') ≤ k ∧ k < max (b.bin id a) (b.bin id a') + 1) ↔
      ∃ x, min a a' ≤ x ∧ x ≤ max a a' ∧ b.lo id k ≤ x ∧ x < b.hi id k := by
  rcases le_total a a' with hle | hle
  · rw [min_eq_left hle, max_eq_right hle, meets_iff b h hle]
    have hm := bin_mono b h hle
    rcases h.dir with hd | hd <;> rw [hd] at hm ⊢ <;> omega
  · rw [min_eq_right hle, max_eq_left hle, meets_iff b h hle]
    have hm := bin_mono b h hle
    rcases h.dir with hd | hd <;> rw [hd] at hm ⊢ <;> omega

end Bin1D

namespace GridSpec

theorem fromSampleTile_ok {q : BBox} {ny nx : Int} (ix iy : Int) (fx fy : Bool)
    (hx : q.left < q.right) (hy : q.bottom < q.top) (hnx : 0 < nx) (hny : 0 < ny) :
    GridSpec.fromSampleTile id q ny nx ix iy fx fy =
      .ok ⟨ny, nx, (q.right - q.left) / (nx : Rat), -(q.top - q.bottom) / (ny : Rat),
        q.left - (q.right - q.left) * (ix : Rat) * (dirOf fx : Rat),
        q.bottom - (q.top - q.bottom) * (iy : Rat) * (dirOf fy : Rat),
        ⟨q.right - q.left, q.left - (q.right - q.left) * (ix : Rat) * (dirOf fx : Rat), dirOf fx⟩,
        ⟨q.top - q.bottom, q.bottom - (q.top - q.bottom) * (iy : Rat) * (dirOf fy : Rat), dirOf fy⟩⟩ := by
  have hnx' : (0 : Rat) < (nx : Rat) := by exact_mod_cast hnx
  have hny' : (0 : Rat) < (ny : Rat) := by exact_mod_cast hny
  have hw : 0 < q.right - q.left := by linarith
  have hh : 0 < q.top - q.bottom := by linarith
  unfold GridSpec.fromSampleTile
  rw [Bin1D.fromSampleBin_ok (dirOf_cases fx) hx, Bin1D.fromSampleBin_ok (dirOf_cases fy) hy]
  have c1 : ¬ (ny = -1 ∧ nx = -1) := by omega
  have c2 : ¬ ny = 0 := by omega
  have c3 : ¬ nx = 0 := by omega
  have rx_pos : 0 < (q.right - q.left) / (nx : Rat) := div_pos hw hnx'
  have ry_neg : -(q.top - q.bottom) / (ny : Rat) < 0 := by
    rw [neg_div]; exact neg_neg_of_pos (div_pos hh hny')
  have e1 : (nx : Rat) * rabs ((q.right - q.left) / (nx : Rat)) = q.right - q.left := by
    rw [rabs_of_pos rx_pos]; field_simp
  have e2 : (ny : Rat) * rabs (-(q.top - q.bottom) / (ny : Rat)) = q.top - q.bottom := by
    unfold rabs; rw [if_pos ry_neg]; field_simp
  have := new_eq_ok (ny := ny) (nx := nx) (rx := (q.right - q.left) / (nx : Rat))
    (ry := -(q.top - q.bottom) / (ny : Rat))
    (q.left - (q.right - q.left) * (ix : Rat) * (dirOf fx : Rat))
    (q.bottom - (q.top - q.bottom) * (iy : Rat) * (dirOf fy : Rat)) fx fy
    (by rw [e1]; exact hw) (by rw [e2]; exact hh)
  rw [e1, e2] at this
  simp only [c1, c2, c3, id, bind, Except.bind, if_false]
  exact this


theorem fromSampleTile_spec {q : BBox} {ny nx : Int} (ix iy : Int) (fx fy : Bool)
    (hx : q.left < q.right) (hy : q.bottom < q.top) (hnx : 0 < nx) (hny : 0 < ny) :
    ∃ g', GridSpec.fromSampleTile id q ny nx ix iy fx fy = .ok g' ∧ g'.WF ∧ g'.ny = ny ∧ g'.nx = nx ∧
      g'.rx = (q.right - q.left) / (nx : Rat) ∧ g'.ry = -(q.top - q.bottom) / (ny : Rat) ∧
      g'.xbin = ⟨q.right - q.left, q.left - (q.right - q.left) * (ix : Rat) * (dirOf fx : Rat), dirOf fx⟩ ∧
      g'.ybin = ⟨q.top - q.bottom, q.bottom - (q.top - q.bottom) * (iy : Rat) * (dirOf fy : Rat), dirOf fy⟩ := by
  have hnx' : (0 : Rat) < (nx : Rat) := by exact_mod_cast hnx
  have hny' : (0 : Rat) < (ny : Rat) := by exact_mod_cast hny
  have hw : 0 < q.right - q.left := by linarith
  have hh : 0 < q.top - q.bottom := by linarith
  have rx_pos : 0 < (q.right - q.left) / (nx : Rat) := div_pos hw hnx'
  have ry_neg : -(q.top - q.bottom) / (ny : Rat) < 0 := by
    rw [neg_div]; exact neg_neg_of_pos (div_pos hh hny')
  refine ⟨_, fromSampleTile_ok ix iy fx fy hx hy hnx hny, ⟨⟨hw, dirOf_cases fx⟩, ⟨hh, dirOf_cases fy⟩, ?_, ?_⟩,
    rfl, rfl, rfl, rfl, rfl, rfl⟩
  · show q.right - q.left = (nx : Rat) * rabs ((q.right - q.left) / (nx : Rat))
    rw [rabs_of_pos rx_pos]; field_simp
  · show q.top - q.bottom = (ny : Rat) * rabs (-(q.top - q.bottom) / (ny : Rat))
    unfold rabs; rw [if_pos ry_neg]; field_simp

end GridSpec

theorem pow2_one_sub (z : Nat) : pow2 (1 - (z : Int)) = 2 / (2 : Rat) ^ z := by
  unfold pow2
  rcases z with _ | _ | z
  · simp
  · simp
  · have hneg : ¬ (0 : Int) ≤ 1 - ((z + 1 + 1 : Nat) : Int) := by omega
    rw [if_neg hneg]
    have : (-(1 - ((z + 1 + 1 : Nat) : Int))).toNat = z + 1 := by omega
    rw [this]
    push_cast
    rw [pow_succ (2 : Rat) (z + 1)]
    field_simp

theorem pow2_pos (e : Int) : 0 < pow2 e := by
  unfold pow2
  split
  · exact_mod_cast Nat.pos_of_ne_zero (by positivity)
  · apply div_pos one_pos
    exact_mod_cast Nat.pos_of_ne_zero (by positivity)

namespace GridSpec

/-- the grid `web_tiles` builds, in closed form (exact arithmetic) -/
theorem webTiles_ok {P : Rat} (hP : 0 < P) (z : Int) {npix : Int} (hn : 0 < npix) :
    GridSpec.webTiles id P z npix =
      .ok ⟨npix, npix, P * pow2 (1 - z) / (npix : Rat), -(P * pow2 (1 - z)) / (npix : Rat),
        -P, P - P * pow2 (1 - z),
        ⟨P * pow2 (1 - z), -P, 1⟩, ⟨P * pow2 (1 - z), P - P * pow2 (1 - z), -1⟩⟩ := by
  have ht : 0 < P * pow2 (1 - z) := mul_pos hP (pow2_pos _)
  unfold GridSpec.webTiles boxBounds
  simp only [id]
  have m1 : min (-P) (-P + P * pow2 (1 - z)) = -P := min_eq_left (by linarith)
  have m2 : max (-P) (-P + P * pow2 (1 - z)) = -P + P * pow2 (1 - z) := max_eq_right (by linarith)
  have m3 : min (P - P * pow2 (1 - z)) P = P - P * pow2 (1 - z) := min_eq_left (by linarith)
  have m4 : max (P - P * pow2 (1 - z)) P = P := max_eq_right (by linarith)
  rw [m1, m2, m3, m4]
  rw [fromSampleTile_ok (q := ⟨-P, P - P * pow2 (1 - z), -P + P * pow2 (1 - z), P⟩) 0 0 false true
    (by simp only; linarith) (by simp only; linarith) hn hn]
  simp only [dirOf, Bool.false_eq_true, if_false, if_true]
  congr 2
  · ring_nf
  · ring_nf
  · push_cast; ring
  · push_cast; ring
  · congr 1 <;> (push_cast; ring)
  · congr 1 <;> (push_cast; ring)

end GridSpec

theorem int_mul_nonneg_iff {T : Rat} (hT : 0 < T) (i : Int) : 0 ≤ (i : Rat) * T ↔ 0 ≤ i := by
  constructor
  · intro h
    by_contra hi
    have : (i : Rat) ≤ -1 := by exact_mod_cast (show i ≤ -1 by omega)
    nlinarith
  · intro h
    have : (0 : Rat) ≤ (i : Rat) := by exact_mod_cast h
    exact mul_nonneg this hT.le

theorem int_mul_le_iff {T : Rat} (hT : 0 < T) (i n : Int) : (i : Rat) * T ≤ (n : Rat) * T ↔ i ≤ n := by
  have := int_mul_nonneg_iff hT (n - i)
  push_cast at this
  constructor
  · intro h; have := this.mp (by linarith); omega
  · intro h; have := this.mpr (by omega); linarith

namespace GridSpec

theorem webTiles_eq_new {P : Rat} (hP : 0 < P) (z : Int) {npix : Int} (hn : 0 < npix) :
    GridSpec.webTiles id P z npix =
      GridSpec.new id npix npix (P * pow2 (1 - z) / (npix : Rat)) (-(P * pow2 (1 - z)) / (npix : Rat))
        (-P) (P - P * pow2 (1 - z)) false true := by
  have ht : 0 < P * pow2 (1 - z) := mul_pos hP (pow2_pos _)
  have hn' : (0 : Rat) < (npix : Rat) := by exact_mod_cast hn
  have rx_pos : 0 < P * pow2 (1 - z) / (npix : Rat) := div_pos ht hn'
  have ry_neg : -(P * pow2 (1 - z)) / (npix : Rat) < 0 := by
    rw [neg_div]; exact neg_neg_of_pos rx_pos
  have e1 : (npix : Rat) * rabs (P * pow2 (1 - z) / (npix : Rat)) = P * pow2 (1 - z) := by
    rw [rabs_of_pos rx_pos]; field_simp
  have e2 : (npix : Rat) * rabs (-(P * pow2 (1 - z)) / (npix : Rat)) = P * pow2 (1 - z) := by
    unfold rabs; rw [if_pos ry_neg]; field_simp
  rw [webTiles_ok hP z hn, new_eq_ok _ _ _ _ (by rw [e1]; exact ht) (by rw [e2]; exact ht), e1, e2]
  rfl

end GridSpec

/-! ### geobox cache (holds for every rounding function) -/
namespace GridSpec

theorem geoboxC_spec (fl : Rnd) (g : GridSpec) (c : Cache) (hc : g.Coherent fl c) (k : Int × Int) :
    (g.geoboxC fl c k).1 = g.tileGeobox fl k ∧ g.Coherent fl (g.geoboxC fl c k).2 ∧
    ∀ k', ((g.geoboxC fl c k).2.lookup k').isSome ↔ ((c.lookup k').isSome ∨ k' = k) := by
  unfold GridSpec.geoboxC
  cases h : c.lookup k with
  | some gb =>
    refine ⟨hc k gb h, hc, fun k' => ?_⟩
    constructor
    · exact Or.inl
    · rintro (h' | rfl)
      · exact h'
      · simp [h]
  | none =>
    refine ⟨rfl, ?_, fun k' => ?_⟩
    · intro k' gb' h'
      simp only [List.lookup_cons] at h'
      by_cases e : k' = k
      · subst e; simp at h'; exact h'.symm
      · have : (k' == k) = false := by simpa using e
        rw [this] at h'
        exact hc k' gb' h'
    · simp only [List.lookup_cons]
      by_cases e : k' = k
      · subst e; simp
      · have : (k' == k) = false := by simpa using e
        rw [this]; simp [e]

theorem tilesGo_spec (fl : Rnd) (g : GridSpec) : ∀ (ks : List (Int × Int)) (c : Cache), g.Coherent fl c →
    (g.tilesGo fl ks c).1 = ks.map (fun k => (k, g.tileGeobox fl k)) ∧ g.Coherent fl (g.tilesGo fl ks c).2 ∧
    ∀ k', ((g.tilesGo fl ks c).2.lookup k').isSome ↔ ((c.lookup k').isSome ∨ k' ∈ ks) := by
  intro ks
  induction ks with
  | nil => intro c hc; exact ⟨rfl, hc, fun k' => by simp [GridSpec.tilesGo]⟩
  | cons k ks ih =>
    intro c hc
    obtain ⟨h1, h2, h3⟩ := geoboxC_spec fl g c hc k
    obtain ⟨i1, i2, i3⟩ := ih (g.geoboxC fl c k).2 h2
    simp only [GridSpec.tilesGo, List.map_cons]
    refine ⟨by rw [h1, i1], i2, fun k' => ?_⟩
    rw [i3 k', h3 k']
    simp only [List.mem_cons]
    tauto

end GridSpec

/-! ### Python float modulo with a positive modulus (exact arithmetic) -/

theorem pyFloatMod_pos {a b : Rat} (hb : 0 < b) :
    ∃ r, pyFloatMod id a b = .ok r ∧ 0 ≤ r ∧ r < b ∧ ∃ n : Int, a = (n : Rat) * b + r := by
  have hq : a = a / b * b := by field_simp
  have hnb : ¬ b < 0 := not_lt.mpr hb.le
  unfold pyFloatMod
  rw [if_neg hb.ne']
  simp only [id]
  by_cases h0 : 0 ≤ a / b
  · rw [if_pos h0]
    have f1 := Rat.floor_le (a / b)
    have f2 := Rat.lt_floor_add_one (a / b)
    push_cast at f2
    have m0 : 0 ≤ a - ((a / b).floor : Rat) * b := by nlinarith
    have m1 : a - ((a / b).floor : Rat) * b < b := by nlinarith
    have hm : ¬ (a - ((a / b).floor : Rat) * b < 0) := not_lt.mpr m0
    refine ⟨a - ((a / b).floor : Rat) * b, ?_, m0, m1, (a / b).floor, by ring⟩
    simp [hnb, hm]
  · rw [if_neg h0]
    have c1 : a / b ≤ ((a / b).ceil : Rat) := Rat.le_ceil
    have c2 : ((a / b).ceil : Rat) < a / b + 1 := Rat.ceil_lt
    have m0 : a - ((a / b).ceil : Rat) * b ≤ 0 := by nlinarith
    have m1 : -b < a - ((a / b).ceil : Rat) * b := by nlinarith
    by_cases hz : a - ((a / b).ceil : Rat) * b = 0
    · refine ⟨0, ?_, le_refl _, hb, (a / b).ceil, by linarith⟩
      simp [hz]
    · have hneg : a - ((a / b).ceil : Rat) * b < 0 := lt_of_le_of_ne m0 hz
      refine ⟨a - ((a / b).ceil : Rat) * b + b, ?_, by linarith, by linarith, (a / b).ceil - 1, by push_cast; ring⟩
      simp [hz, hnb, hneg]


/-- a binning is determined by bin 0 and the left edge of bin 1 -/
theorem Bin1D.eq_of_bins (b b' : Bin1D) (w : b.WF) (h0 : b.lo id 0 = b'.lo id 0) (h0h : b.hi id 0 = b'.hi id 0)
    (h1 : b.lo id 1 = b'.lo id 1) : b = b' := by
  obtain ⟨s, o, d⟩ := b
  obtain ⟨s', o', d'⟩ := b'
  simp only [Bin1D.lo_id, Bin1D.hi_id] at h0 h0h h1
  push_cast at h0 h0h h1
  have ho : o = o' := by linarith
  have hs : s = s' := by linarith
  subst ho hs
  have hd : (d : Rat) = (d' : Rat) := by
    have : s * (d : Rat) = s * (d' : Rat) := by linarith
    exact mul_left_cancel₀ w.sz_pos.ne' this
  have : d = d' := by exact_mod_cast hd
  subst this; rfl

theorem GridSpec.rabs_pos_of_sz {n : Int} {r : Rat} (h : 0 < (n : Rat) * rabs r) : 0 < rabs r := by
  by_contra hc
  have : rabs r = 0 := le_antisymm (not_lt.mp hc) (GridSpec.rabs_nonneg r)
  rw [this] at h
  simp at h

end OdcGeo.C14
