/- Helper lemmas for C07: geometry of one densified edge over an arbitrary linear ordered field. -/
import OdcGeo.Model.C07
import Mathlib.Tactic.Ring
import Mathlib.Tactic.Linarith
import Mathlib.Tactic.FieldSimp
import Mathlib.Tactic.Positivity
import Mathlib.Algebra.Order.Field.Basic
import Mathlib.Algebra.Order.Field.Rat

namespace OdcGeo.C07
set_option linter.unusedSectionVars false

variable {K : Type} [Field K] [LinearOrder K] [IsStrictOrderedRing K]

/-- every consecutive pair of the list is at squared distance `≤ r²` -/
def GapsLe (r : K) : List (Pt K) → Prop
  | [] => True
  | [_] => True
  | a :: b :: rest => dist2 a b ≤ r * r ∧ GapsLe r (b :: rest)

/-- `x_i y_{i+1} - x_{i+1} y_i` -/
def cross (a b : Pt K) : K := a.x * b.y - b.x * a.y

/-- shoelace sum over consecutive pairs (twice the signed area for a closed ring) -/
def shoelace : List (Pt K) → K
  | [] => 0
  | [_] => 0
  | a :: b :: rest => cross a b + shoelace (b :: rest)

/-- what the theorems need from shapely and the loop bound, for one edge -/
structure EdgeOk (E : Env K) (r : K) (p q : Pt K) : Prop where
  len_sq : E.len p q * E.len p q = dist2 p q
  len_nonneg : 0 ≤ E.len p q
  fuel_ok : E.len p q < ((E.fuel r p q : K) + 1) * r

/-- `EdgeOk` for every edge `zip(coords[:-1], coords[1:])` of `p :: rest` -/
def EdgesOk (E : Env K) (r : K) : Pt K → List (Pt K) → Prop
  | _, [] => True
  | p, q :: rest => EdgeOk E r p q ∧ EdgesOk E r q rest

/-- `EdgesOk` for a coordinate list as `densify` receives it -/
def CoordsOk (E : Env K) (r : K) : List (Pt K) → Prop
  | [] => True
  | p :: rest => EdgesOk E r p rest

theorem shortEnough_iff (r : K) (p q : Pt K) : shortEnough r p q = true ↔ dist2 p q < r * r := by
  simp [shortEnough]

theorem dist2_nonneg (p q : Pt K) : 0 ≤ dist2 p q := by
  unfold dist2; exact add_nonneg (mul_self_nonneg _) (mul_self_nonneg _)

theorem interp_zero (p1 p2 : Pt K) (L : K) : interp p1 p2 L 0 = p1 := by
  simp [interp]

/-- two points of the segment at arc lengths `d`, `d'` are `|d - d'|` apart -/
theorem dist2_interp_interp (p1 p2 : Pt K) (L d d' : K) (hL : L ≠ 0) (hLL : L * L = dist2 p1 p2) :
    dist2 (interp p1 p2 L d) (interp p1 p2 L d') = (d - d') * (d - d') := by
  have h : dist2 (interp p1 p2 L d) (interp p1 p2 L d')
      = ((d - d') / L) * ((d - d') / L) * dist2 p1 p2 := by
    simp only [dist2, interp]; field_simp; ring
  rw [h, ← hLL]; field_simp

theorem interp_len (p1 p2 : Pt K) (L : K) (hL : L ≠ 0) : interp p1 p2 L L = p2 := by
  have : L / L = 1 := div_self hL
  simp [interp, this]

theorem dist2_interp_end (p1 p2 : Pt K) (L d : K) (hL : L ≠ 0) (hLL : L * L = dist2 p1 p2) :
    dist2 (interp p1 p2 L d) p2 = (L - d) * (L - d) := by
  have := dist2_interp_interp p1 p2 L d L hL hLL
  rw [interp_len p1 p2 L hL] at this
  rw [this]; ring

theorem dist2_start_interp (p1 p2 : Pt K) (L d : K) (hL : L ≠ 0) (hLL : L * L = dist2 p1 p2) :
    dist2 p1 (interp p1 p2 L d) = d * d := by
  have := dist2_interp_interp p1 p2 L 0 d hL hLL
  rw [interp_zero] at this
  rw [this]; ring

theorem gapsLe_append (r : K) (b : Pt K) (ys : List (Pt K)) :
    ∀ xs : List (Pt K), GapsLe r (xs ++ [b]) → GapsLe r (b :: ys) → GapsLe r (xs ++ b :: ys) := by
  intro xs
  induction xs with
  | nil => intro _ h; exact h
  | cons a xs ih =>
    intro h1 h2
    cases xs with
    | nil =>
      simp only [List.cons_append, List.nil_append, GapsLe] at h1 ⊢
      exact ⟨h1.1, h2⟩
    | cons c xs =>
      simp only [List.cons_append, GapsLe] at h1 ⊢
      exact ⟨h1.1, ih h1.2 h2⟩

/-- the loop, started at arc length `d` after a vertex at arc length `d - r`, only leaves gaps `≤ r`,
including the last one to `p2` -/
theorem loop_gaps (p1 p2 : Pt K) (L r : K) (_hr : 0 < r) (hL : 0 < L) (hLL : L * L = dist2 p1 p2) :
    ∀ (fuel : Nat) (d : K), d - r ≤ L → L < d + (fuel : K) * r →
      GapsLe r (interp p1 p2 L (d - r) :: (loopPts p1 p2 L r fuel d ++ [p2])) := by
  have hL0 : L ≠ 0 := ne_of_gt hL
  have last : ∀ d : K, d - r ≤ L → L ≤ d → GapsLe r [interp p1 p2 L (d - r), p2] := by
    intro d h1 h2
    simp only [GapsLe, and_true]
    rw [dist2_interp_end p1 p2 L (d - r) hL0 hLL]
    apply mul_self_le_mul_self <;> linarith
  intro fuel
  induction fuel with
  | zero =>
    intro d h1 h2
    simp only [loopPts, List.nil_append]
    apply last d h1
    simp at h2; linarith
  | succ n ih =>
    intro d h1 h2
    unfold loopPts
    by_cases hd : d < L
    · simp only [hd, if_true, List.cons_append, GapsLe]
      constructor
      · rw [dist2_interp_interp p1 p2 L (d - r) d hL0 hLL]
        have : d - r - d = -r := by ring
        rw [this]; simp
      · have h := ih (d + r) (by linarith) (by push_cast at h2; linarith)
        rwa [add_sub_cancel_right] at h
    · simp only [hd, if_false, List.nil_append]
      exact last d h1 (not_lt.mp hd)

/-- one edge: `p1` followed by what the loop body appends has all gaps `≤ r` -/
theorem edge_gaps (E : Env K) (r : K) (hr : 0 < r) (p1 p2 : Pt K) (hE : EdgeOk E r p1 p2) :
    GapsLe r (p1 :: edge shortEnough E r p1 p2) := by
  unfold edge
  by_cases hs : shortEnough r p1 p2 = true
  · simp only [hs, if_true, List.nil_append, GapsLe, and_true]
    exact le_of_lt ((shortEnough_iff r p1 p2).mp hs)
  · simp only [hs]
    have hge : r * r ≤ dist2 p1 p2 := by
      have := (shortEnough_iff r p1 p2).not.mp hs
      exact not_lt.mp this
    have hpos : 0 < E.len p1 p2 := by
      rcases lt_or_eq_of_le hE.len_nonneg with h | h
      · exact h
      · exfalso
        have h0 : dist2 p1 p2 = 0 := by rw [← hE.len_sq, ← h]; ring
        have : 0 < r * r := mul_pos hr hr
        linarith
    have h := loop_gaps p1 p2 (E.len p1 p2) r hr hpos hE.len_sq (E.fuel r p1 p2) r
      (by simp; exact le_of_lt hpos) (by have := hE.fuel_ok; linarith)
    simpa [interp_zero] using h

theorem edge_eq (short : K → Pt K → Pt K → Bool) (E : Env K) (r : K) (p1 p2 : Pt K) :
    ∃ ins, edge short E r p1 p2 = ins ++ [p2] := ⟨_, rfl⟩

theorem densifyFrom_gaps (E : Env K) (r : K) (hr : 0 < r) :
    ∀ (rest : List (Pt K)) (p : Pt K), EdgesOk E r p rest →
      GapsLe r (p :: densifyFrom shortEnough E r p rest) := by
  intro rest
  induction rest with
  | nil => intro p _; simp [densifyFrom, GapsLe]
  | cons q rest ih =>
    intro p h
    simp only [EdgesOk] at h
    unfold densifyFrom
    have h1 := edge_gaps E r hr p q h.1
    have h2 := ih q h.2
    unfold edge at h1 ⊢
    rw [List.append_assoc, List.singleton_append, ← List.cons_append]
    rw [← List.cons_append] at h1
    exact gapsLe_append r q _ _ h1 h2

/-! retention -/

theorem densifyFrom_sublist (short : K → Pt K → Pt K → Bool) (E : Env K) (r : K) :
    ∀ (rest : List (Pt K)) (p : Pt K), List.Sublist rest (densifyFrom short E r p rest) := by
  intro rest
  induction rest with
  | nil => intro p; simp [densifyFrom]
  | cons q rest ih =>
    intro p
    unfold densifyFrom edge
    have h1 : List.Sublist [q] ((if short r p q then [] else
        loopPts p q (E.len p q) r (E.fuel r p q) r) ++ [q]) := List.sublist_append_right _ _
    have := List.Sublist.append h1 (ih q)
    simpa using this

theorem densifyFrom_getLast (short : K → Pt K → Pt K → Bool) (E : Env K) (r : K) :
    ∀ (rest : List (Pt K)) (p : Pt K),
      (p :: densifyFrom short E r p rest).getLast? = (p :: rest).getLast? := by
  intro rest
  induction rest with
  | nil => intro p; simp [densifyFrom]
  | cons q rest ih =>
    intro p
    unfold densifyFrom edge
    have h := ih q
    rw [List.getLast?_cons_cons]
    rw [List.append_assoc, List.singleton_append, ← List.cons_append, List.getLast?_append]
    rw [h]
    cases hh : (q :: rest).getLast? with
    | none => simp at hh
    | some v => simp

/-! added vertices lie strictly inside their edge -/

theorem loopPts_mem (p1 p2 : Pt K) (L r : K) (hr : 0 < r) :
    ∀ (fuel : Nat) (d0 : K) (q : Pt K), q ∈ loopPts p1 p2 L r fuel d0 →
      ∃ d, d0 ≤ d ∧ d < L ∧ q = interp p1 p2 L d := by
  intro fuel
  induction fuel with
  | zero => intro d0 q h; simp [loopPts] at h
  | succ n ih =>
    intro d0 q h
    unfold loopPts at h
    by_cases hd : d0 < L
    · simp only [hd, if_true, List.mem_cons] at h
      rcases h with rfl | h
      · exact ⟨d0, le_refl _, hd, rfl⟩
      · obtain ⟨d, h1, h2, h3⟩ := ih (d0 + r) q h
        exact ⟨d, by linarith, h2, h3⟩
    · simp [hd] at h

/-! collinear insertion keeps the shoelace sum -/

theorem cross_collinear (p1 p2 : Pt K) (L s t : K) :
    cross (interp p1 p2 L s) (interp p1 p2 L t) + cross (interp p1 p2 L t) p2
      = cross (interp p1 p2 L s) p2 := by
  simp only [cross, interp]; ring

theorem shoelace_loop (p1 p2 : Pt K) (L r : K) :
    ∀ (fuel : Nat) (s d : K),
      shoelace (interp p1 p2 L s :: (loopPts p1 p2 L r fuel d ++ [p2])) = cross (interp p1 p2 L s) p2 := by
  intro fuel
  induction fuel with
  | zero => intro s d; simp [loopPts, shoelace]
  | succ n ih =>
    intro s d
    unfold loopPts
    by_cases hd : d < L
    · simp only [hd, if_true, List.cons_append, shoelace]
      rw [ih d (d + r)]
      exact cross_collinear p1 p2 L s d
    · simp [hd, shoelace]

theorem shoelace_append (b : Pt K) (ys : List (Pt K)) :
    ∀ xs : List (Pt K), shoelace (xs ++ b :: ys) = shoelace (xs ++ [b]) + shoelace (b :: ys) := by
  intro xs
  induction xs with
  | nil => simp [shoelace]
  | cons a xs ih =>
    cases xs with
    | nil => simp [shoelace]
    | cons c xs =>
      simp only [List.cons_append, shoelace] at ih ⊢
      rw [ih]; ring

theorem shoelace_edge (short : K → Pt K → Pt K → Bool) (E : Env K) (r : K) (p1 p2 : Pt K) :
    shoelace (p1 :: edge short E r p1 p2) = cross p1 p2 := by
  unfold edge
  by_cases hs : short r p1 p2 = true
  · simp [hs, shoelace]
  · simp only [hs]
    have := shoelace_loop p1 p2 (E.len p1 p2) r (E.fuel r p1 p2) 0 r
    simpa [interp_zero] using this

theorem shoelace_densifyFrom (short : K → Pt K → Pt K → Bool) (E : Env K) (r : K) :
    ∀ (rest : List (Pt K)) (p : Pt K),
      shoelace (p :: densifyFrom short E r p rest) = shoelace (p :: rest) := by
  intro rest
  induction rest with
  | nil => intro p; simp [densifyFrom]
  | cons q rest ih =>
    intro p
    unfold densifyFrom
    have h1 := shoelace_edge short E r p q
    unfold edge at h1 ⊢
    rw [List.append_assoc, List.singleton_append, ← List.cons_append, shoelace_append]
    rw [← List.cons_append] at h1
    rw [h1, ih q]
    simp [shoelace]

end OdcGeo.C07
