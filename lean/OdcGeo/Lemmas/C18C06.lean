/-
Helper lemmas for the C18 ∘ C06 link (`Props/C18C06.lean`): the list C06 hands to `finalise` is never
empty, and the sink after a list of writer calls.
-/
import OdcGeo.Props.C06
import OdcGeo.Lemmas.C18

set_option linter.unusedVariables false
set_option linter.unusedSimpArgs false

namespace OdcGeo.C18
open OdcGeo

/-- the C18 sink after the writer calls `ws` of a C06 run (in the order they were made) -/
def sinkAfter (ws : List (C06.Part Nat)) : Sink := ws.foldl (fun s p => s.write (p.id, p.data)) {}

/-- the writer C06 sees when `mpu_write` is given an `MPUFileSink(dst, **kw)` -/
def sinkWriter (kw : LimitKw) : C06.Writer :=
  ⟨(sinkLimit true kw .minWriteSz).toNat, (sinkLimit true kw .minPart).toNat, (sinkLimit true kw .maxPart).toNat⟩

theorem flushData_parts_ne {α : Type} (W : C06.Writer) (c c' : C06.Chunk α) (d : List α) (ws : List (C06.Part α))
    (h : C06.flushData W c d = .ok (c', ws)) : c'.parts ≠ [] := by
  unfold C06.flushData at h
  split at h
  · simp at h
  · simp only [Except.ok.injEq, Prod.mk.injEq] at h
    rw [← h.1]; simp

theorem flushRhs_started_parts_ne {α : Type} (W : C06.Writer) (c c1 : C06.Chunk α) (e w1 : List _)
    (hs : c.parts ≠ []) (h : C06.flushRhs (some W) c e = .ok (c1, w1)) : c1.parts ≠ [] := by
  have hst : c.started = true := by
    cases hp : c.parts with
    | nil => exact absurd hp hs
    | cons a l => simp [C06.Chunk.started, hp]
  unfold C06.flushRhs at h
  simp only [hst, if_true] at h
  split at h
  · exact flushData_parts_ne W _ _ _ _ h
  · simp at h

theorem flush_tail_ne {α : Type} (W : C06.Writer) (lp : Option Nat) (c1 : C06.Chunk α) (w1 ws fp : List (C06.Part α))
    (hc1 : c1.parts ≠ [])
    (h : (if c1.left.length ≠ 0 then
            if c1.left.length < W.minWrite then (.error .assertion : Res (List (C06.Part α) × List (C06.Part α)))
            else .ok (w1 ++ [⟨match lp with | none => 1 | some v => v, c1.left⟩],
                      ⟨match lp with | none => 1 | some v => v, c1.left⟩ :: c1.parts)
          else .ok (w1, c1.parts)) = .ok (ws, fp)) : fp ≠ [] := by
  split at h
  · split at h
    · simp at h
    · simp only [Except.ok.injEq, Prod.mk.injEq] at h
      rw [← h.2]; simp
  · simp only [Except.ok.injEq, Prod.mk.injEq] at h
    rw [← h.2]; exact hc1

theorem flush_final_parts_ne {α : Type} (W : C06.Writer) (c : C06.Chunk α) (lp : Option Nat)
    (ws fp : List (C06.Part α)) (h : C06.flush W c lp = .ok (ws, fp)) : fp ≠ [] := by
  unfold C06.flush at h
  by_cases hst : c.started = true
  · have hs : c.parts ≠ [] := by
      intro e; simp [C06.Chunk.started, e] at hst
    simp only [hst, Bool.not_true, Bool.false_eq_true, if_false] at h
    by_cases hd : c.data.length ≠ 0
    · simp only [if_pos hd] at h
      cases hr : C06.flushRhs (some W) { c with isFinal := true } [] with
      | error e => simp [hr] at h
      | ok p =>
        obtain ⟨c1, w1⟩ := p
        simp only [hr] at h
        exact flush_tail_ne W lp c1 w1 ws fp (flushRhs_started_parts_ne W { c with isFinal := true } c1 [] w1 hs hr) h
    · simp only [if_neg hd] at h
      exact flush_tail_ne W lp c [] ws fp hs h
  · have hst' : c.started = false := by simpa using hst
    simp only [hst', Bool.not_false, if_true] at h
    split at h
    · simp at h
    · simp only [Except.ok.injEq, Prod.mk.injEq] at h
      rw [← h.2]; simp

theorem finalizer_final_parts_ne {α : Type} (w : Option C06.Writer) (root : C06.Chunk α) (hdr ftr : Option (List α))
    (wsF fp ws' : List (C06.Part α)) (h : C06.finalizer w root hdr ftr = .ok (.written wsF fp, ws')) : fp ≠ [] := by
  unfold C06.finalizer at h
  dsimp only at h
  split at h
  · simp at h
  · rename_i root2 w0 _
    cases w with
    | none => simp at h
    | some W =>
      simp only [] at h
      cases hfl : C06.flush W root2 (some W.minPart) with
      | error e => simp [hfl] at h
      | ok p =>
        obtain ⟨ws2, fin⟩ := p
        simp only [hfl, Except.ok.injEq, Prod.mk.injEq, C06.Out.written.injEq] at h
        obtain ⟨⟨_, rfl⟩, _⟩ := h
        exact flush_final_parts_ne _ _ _ _ _ hfl

theorem run_final_parts_ne {α : Type} (cfg : C06.Cfg) (t : C06.Tree α) (mkHdr mkFtr : Option (List (Nat × Int) → List α))
    (wsF fp wsAll : List (C06.Part α)) (obs : List (Nat × Int))
    (h : C06.run cfg t mkHdr mkFtr = .ok (.written wsF fp, wsAll, obs)) : fp ≠ [] := by
  unfold C06.run at h
  cases he : C06.eval cfg t.leaves t 0 with
  | error e => simp [he] at h
  | ok p =>
    obtain ⟨root, ws⟩ := p
    simp only [he] at h
    cases hf : C06.finalizer cfg.writer root (mkHdr.map (fun f => f root.observed))
        (mkFtr.map (fun f => f root.observed)) with
    | error e => simp [hf] at h
    | ok q =>
      obtain ⟨out, ws'⟩ := q
      simp only [hf, Except.ok.injEq, Prod.mk.injEq] at h
      obtain ⟨rfl, _, _⟩ := h
      exact finalizer_final_parts_ne _ _ _ _ _ _ _ hf

theorem sinkAfter_eq (ws : List (C06.Part Nat)) :
    sinkAfter ws = (ws.map (fun p => (p.id, p.data))).foldl Sink.write {} := by
  simp only [sinkAfter, List.foldl_map]

end OdcGeo.C18
