/- Helper lemmas for C01 (walks over operand lists). -/
import OdcGeo.Model.C01
namespace OdcGeo.C01

theorem crsEq_refl' (a : CrsRec) : crsEq a a = true := by
  simp [crsEq]

theorem crsEq_symm' (a b : CrsRec) : crsEq a b = crsEq b a := by
  unfold crsEq
  by_cases h1 : a.objId = b.objId
  · simp [h1]
  · have h1' : ¬ b.objId = a.objId := fun h => h1 h.symm
    by_cases h2 : a.epsg ≠ 0 ∧ b.epsg ≠ 0
    · have h2' : b.epsg ≠ 0 ∧ a.epsg ≠ 0 := ⟨h2.2, h2.1⟩
      by_cases h3 : a.epsg = b.epsg
      · simp [h1, h1', h2, h3]
      · have h3' : ¬ b.epsg = a.epsg := fun h => h3 h.symm
        simp [h1, h1', h2, h3, h3']
    · have h2' : ¬ (b.epsg ≠ 0 ∧ a.epsg ≠ 0) := fun h => h2 ⟨h.2, h.1⟩
      by_cases h4 : a.str = b.str
      · simp [h1, h1', h2, h2', h4]
      · have h4' : ¬ b.str = a.str := fun h => h4 h.symm
        by_cases h5 : a.cls = b.cls
        · simp [h1, h1', h2, h2', h4, h4', h5]
        · have h5' : ¬ b.cls = a.cls := fun h => h5 h.symm
          simp [h1, h1', h2, h2', h4, h4', h5, h5']

theorem tagEq_refl' (t : Tag) : tagEq t t = true := by
  cases t <;> simp [tagEq, crsEq_refl']

theorem tagEq_symm' (a b : Tag) : tagEq a b = tagEq b a := by
  cases a <;> cases b <;> simp [tagEq, crsEq_symm']

theorem tagNe_symm' (a b : Tag) : tagNe a b = tagNe b a := by
  simp [tagNe, tagEq_symm' a b]

theorem tagNe_false_iff (a b : Tag) : tagNe a b = false ↔ tagEq a b = true := by
  simp [tagNe]

theorem tagNe_true_iff (a b : Tag) : tagNe a b = true ↔ tagEq a b = false := by
  simp [tagNe]

/-- well-formedness (`WF`) lifted to optional CRSs -/
def TagWF : Tag → Tag → Prop
  | some a, some b => WF a b
  | _, _ => True

variable {S R : Type}

/-- the guard as a proposition on the operand list -/
def AllEq (t0 : Tag) (xs : List (Obj S)) : Prop := ∀ x ∈ xs, tagEq t0 x.crs = true

theorem allEq_nil (t0 : Tag) : AllEq t0 ([] : List (Obj S)) := by
  intro x hx; cases hx

theorem allEq_cons {t0 : Tag} {x : Obj S} {xs : List (Obj S)} :
    AllEq t0 (x :: xs) ↔ tagEq t0 x.crs = true ∧ AllEq t0 xs := by
  constructor
  · intro h
    exact ⟨h x (List.mem_cons_self ..), fun y hy => h y (List.mem_cons_of_mem _ hy)⟩
  · rintro ⟨h1, h2⟩ y hy
    rcases List.mem_cons.mp hy with rfl | hy
    · exact h1
    · exact h2 y hy

/-- the condition tested by `guardAll` is `tagNe t0 x.crs` in either orientation -/
theorem guard_cond (rev : Bool) (t0 : Tag) (x : Obj S) :
    (if rev then tagNe x.crs t0 else tagNe t0 x.crs) = tagNe t0 x.crs := by
  cases rev
  · simp
  · simp [tagNe_symm' x.crs t0]

theorem guardAll_ok_iff (rev : Bool) (e : Err) (t0 : Tag) (xs : List (Obj S)) :
    guardAll rev e t0 xs = .ok () ↔ AllEq t0 xs := by
  induction xs with
  | nil => simp [guardAll, allEq_nil]
  | cons x xs ih =>
    rw [allEq_cons]
    unfold guardAll
    rw [guard_cond]
    by_cases h : tagNe t0 x.crs = true
    · have : tagEq t0 x.crs = false := (tagNe_true_iff _ _).mp h
      simp [h, this]
    · have h' : tagNe t0 x.crs = false := by simpa using h
      have : tagEq t0 x.crs = true := (tagNe_false_iff _ _).mp h'
      simp [h', this, ih]

theorem guardAll_cases (rev : Bool) (e : Err) (t0 : Tag) (xs : List (Obj S)) :
    guardAll rev e t0 xs = .ok () ∨ guardAll rev e t0 xs = .error e := by
  induction xs with
  | nil => left; rfl
  | cons x xs ih =>
    unfold guardAll
    by_cases h : (if rev then tagNe x.crs t0 else tagNe t0 x.crs) = true
    · right; simp [h]
    · simp [h]; exact ih

theorem guardAll_err_of_not_allEq (rev : Bool) (e : Err) (t0 : Tag) (xs : List (Obj S))
    (h : ¬ AllEq t0 xs) : guardAll rev e t0 xs = .error e := by
  rcases guardAll_cases rev e t0 xs with h1 | h1
  · exact absurd ((guardAll_ok_iff rev e t0 xs).mp h1) h
  · exact h1

/-! reduce -/

theorem reduceGo_ok_allEq (D : Delegate S R) (name : String) (e : Err) (t0 : Tag) :
    ∀ (xs : List (Obj S)) (acc r : R), reduceGo D name e t0 acc xs = .ok r → AllEq t0 xs := by
  intro xs
  induction xs with
  | nil => intro _ _ _; exact allEq_nil _
  | cons x xs ih =>
    intro acc r h
    unfold reduceGo at h
    by_cases hne : tagNe t0 x.crs = true
    · simp [hne] at h
    · have hne' : tagNe t0 x.crs = false := by simpa using hne
      simp only [hne'] at h
      rw [allEq_cons]
      refine ⟨(tagNe_false_iff _ _).mp hne', ?_⟩
      cases hs : D.step name acc x.raw with
      | error e' => simp [hs] at h
      | ok acc' => simp [hs] at h; exact ih acc' r h

theorem reduceGo_eq_raw (D : Delegate S R) (name : String) (e : Err) (t0 : Tag) :
    ∀ (xs : List (Obj S)) (acc : R), AllEq t0 xs →
      reduceGo D name e t0 acc xs = rawReduce D name acc (xs.map (·.raw)) := by
  intro xs
  induction xs with
  | nil => intro acc _; rfl
  | cons x xs ih =>
    intro acc h
    rw [allEq_cons] at h
    have hne : tagNe t0 x.crs = false := (tagNe_false_iff _ _).mpr h.1
    unfold reduceGo
    simp only [hne, List.map_cons]
    unfold rawReduce
    cases hs : D.step name acc x.raw with
    | error e' => simp
    | ok acc' => simp; exact ih acc' h.2

theorem reduceGo_mismatch (D : Delegate S R) (name : String) (e : Err) (t0 : Tag)
    (htot : ∀ acc s, ∃ acc', D.step name acc s = .ok acc') :
    ∀ (xs : List (Obj S)) (acc : R), ¬ AllEq t0 xs → reduceGo D name e t0 acc xs = .error e := by
  intro xs
  induction xs with
  | nil => intro _ h; exact absurd (allEq_nil _) h
  | cons x xs ih =>
    intro acc h
    unfold reduceGo
    by_cases hne : tagNe t0 x.crs = true
    · simp [hne]
    · have hne' : tagNe t0 x.crs = false := by simpa using hne
      have hx : tagEq t0 x.crs = true := (tagNe_false_iff _ _).mp hne'
      have hrest : ¬ AllEq t0 xs := fun h' => h (allEq_cons.mpr ⟨hx, h'⟩)
      obtain ⟨acc', hs⟩ := htot acc x.raw
      simp [hne', hs]
      exact ih acc' hrest

/-! fold with the check inside the loop -/

theorem foldGo_ok_allEq (D : Delegate S R) (name : String) (e : Err) (t0 : Tag) :
    ∀ (xs : List (Obj S)) (acc r : R), foldGo D name e t0 acc xs = .ok r → AllEq t0 xs := by
  intro xs
  induction xs with
  | nil => intro _ _ _; exact allEq_nil _
  | cons x xs ih =>
    intro acc r h
    unfold foldGo at h
    by_cases hne : tagNe t0 x.crs = true
    · simp [hne] at h
    · have hne' : tagNe t0 x.crs = false := by simpa using hne
      simp only [hne'] at h
      rw [allEq_cons]
      exact ⟨(tagNe_false_iff _ _).mp hne', ih _ r h⟩

theorem foldGo_eq_raw (D : Delegate S R) (name : String) (e : Err) (t0 : Tag) :
    ∀ (xs : List (Obj S)) (acc : R), AllEq t0 xs →
      foldGo D name e t0 acc xs = .ok (rawFold D name acc (xs.map (·.raw))) := by
  intro xs
  induction xs with
  | nil => intro acc _; rfl
  | cons x xs ih =>
    intro acc h
    rw [allEq_cons] at h
    have hne : tagNe t0 x.crs = false := (tagNe_false_iff _ _).mpr h.1
    unfold foldGo
    simp only [hne, List.map_cons]
    unfold rawFold
    exact ih _ h.2

/-- the error is raised at the first differing element although the accumulator was
already updated with it; nothing after it is looked at -/
theorem foldGo_mismatch (D : Delegate S R) (name : String) (e : Err) (t0 : Tag) :
    ∀ (xs : List (Obj S)) (acc : R), ¬ AllEq t0 xs → foldGo D name e t0 acc xs = .error e := by
  intro xs
  induction xs with
  | nil => intro _ h; exact absurd (allEq_nil _) h
  | cons x xs ih =>
    intro acc h
    unfold foldGo
    by_cases hne : tagNe t0 x.crs = true
    · simp [hne]
    · have hne' : tagNe t0 x.crs = false := by simpa using hne
      have hx : tagEq t0 x.crs = true := (tagNe_false_iff _ _).mp hne'
      have hrest : ¬ AllEq t0 xs := fun h' => h (allEq_cons.mpr ⟨hx, h'⟩)
      simp [hne']
      exact ih _ hrest

/-! pixel-domain generator -/

theorem pixGo_ok_allEq (D : Delegate S R) (name : String) (e : Err) (ref : Obj S) :
    ∀ (xs : List (Obj S)) (bs : List R), pixGo D name e ref xs = .ok bs → AllEq ref.crs xs := by
  intro xs
  induction xs with
  | nil => intro _ _; exact allEq_nil _
  | cons x xs ih =>
    intro bs h
    unfold pixGo at h
    by_cases hne : tagNe x.crs ref.crs = true
    · simp [hne] at h
    · have hne' : tagNe x.crs ref.crs = false := by simpa using hne
      simp only [hne'] at h
      rw [allEq_cons]
      refine ⟨by rw [tagEq_symm']; exact (tagNe_false_iff _ _).mp hne', ?_⟩
      cases hp : D.pix name x.raw ref.raw with
      | error e' => simp [hp] at h
      | ok b =>
        cases hr : pixGo D name e ref xs with
        | error e' => simp [hp, hr] at h
        | ok bs' => exact ih bs' hr

theorem pixGo_eq_raw (D : Delegate S R) (name : String) (e : Err) (ref : Obj S) :
    ∀ (xs : List (Obj S)), AllEq ref.crs xs →
      pixGo D name e ref xs = rawPix D name ref.raw (xs.map (·.raw)) := by
  intro xs
  induction xs with
  | nil => intro _; rfl
  | cons x xs ih =>
    intro h
    rw [allEq_cons] at h
    have hne : tagNe x.crs ref.crs = false := by
      rw [tagNe_symm']; exact (tagNe_false_iff _ _).mpr h.1
    unfold pixGo
    simp only [hne, List.map_cons]
    unfold rawPix
    rw [ih h.2]
    rfl

theorem pixGo_mismatch (D : Delegate S R) (name : String) (e : Err) (ref : Obj S)
    (htot : ∀ s r, ∃ b, D.pix name s r = .ok b) :
    ∀ (xs : List (Obj S)), ¬ AllEq ref.crs xs → pixGo D name e ref xs = .error e := by
  intro xs
  induction xs with
  | nil => intro h; exact absurd (allEq_nil _) h
  | cons x xs ih =>
    intro h
    unfold pixGo
    by_cases hne : tagNe x.crs ref.crs = true
    · simp [hne]
    · have hne' : tagNe x.crs ref.crs = false := by simpa using hne
      have hx : tagEq ref.crs x.crs = true := by
        rw [tagEq_symm']; exact (tagNe_false_iff _ _).mp hne'
      have hrest : ¬ AllEq ref.crs xs := fun h' => h (allEq_cons.mpr ⟨hx, h'⟩)
      obtain ⟨b, hp⟩ := htot x.raw ref.raw
      simp [hne', hp, ih hrest]

end OdcGeo.C01
