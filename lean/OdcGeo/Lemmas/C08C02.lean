/- Link lemmas between the C08 model (`from_bbox`, `snap_grid`) and the C02 model's own tight-snapping
helper used by `zoom_to(resolution=)` (read-only import of `OdcGeo.Model.C02`). -/
import OdcGeo.Model.C02
import OdcGeo.Lemmas.C08

namespace OdcGeo.C08
open OdcGeo.C20 (maybeInt maybeInt? snapGrid)

/-- C02's `snapCeil` ("drop a fractional part below `tol`, else round up") is `ceil(maybe_int(q, tol))`
for non-negative `q` and `tol ≤ ½`. -/
theorem snapCeil_eq (q tol : Rat) (_hq : 0 ≤ q) (ht : tol ≤ 1 / 2) :
    C02.snapCeil q tol = (maybeInt q tol).ceil := by
  have hfl := Rat.floor_le q
  have hfl2 := Rat.lt_floor_add_one q
  push_cast at hfl2
  unfold C02.snapCeil
  cases hm : maybeInt? q tol with
  | none =>
    rw [C20.maybeInt_of_none hm]
    have h := C20.maybeInt?_none hm q.floor
    rw [abs_of_nonneg (by linarith)] at h
    rw [if_neg (not_lt.mpr h)]
  | some k =>
    rw [C20.maybeInt_of_some hm, Rat.ceil_intCast]
    obtain ⟨_, h1, h2⟩ := C20.maybeInt?_some hm
    rw [abs_lt] at h1
    split
    · rename_i hlt
      -- both k and floor q are within 1/2 of q
      have : ((q.floor : Rat) - k) < 1 ∧ ((k : Rat) - q.floor) < 1 := by constructor <;> linarith
      have h3 : (q.floor - k : Int) < 1 := by exact_mod_cast this.1
      have h4 : (k - q.floor : Int) < 1 := by exact_mod_cast this.2
      omega
    · rename_i hge
      have hge' : tol ≤ q - q.floor := not_lt.mp hge
      -- k ≠ floor q, k within 1/2 of q, so k = floor q + 1 = ceil q
      have hk1 : (q.floor : Rat) < k := by linarith
      have hk2 : (k : Rat) < q.floor + 2 := by linarith
      have hk1' : q.floor < k := by exact_mod_cast hk1
      have hk2' : k < q.floor + 2 := by exact_mod_cast hk2
      have hk : k = q.floor + 1 := by omega
      have hqk : q ≤ (k : Rat) := by rw [hk]; push_cast; linarith
      have hkq : ((k : Rat) - 1) < q := by rw [hk]; push_cast; linarith
      apply le_antisymm
      · rw [Rat.ceil_le_iff]; exact hqk
      · have : (k - 1 : Int) < q.ceil := by rw [Rat.lt_ceil_iff]; push_cast; exact hkq
        omega

/-- One axis of C02's tight snapping is `snap_grid(x0, x1, res, None, tol)`. -/
theorem snapGridTight_eq (x0 x1 res tol : Rat) (hx : x0 ≤ x1) (ht : tol ≤ 1 / 2) :
    C02.snapGridTight x0 x1 res tol = snapGrid x0 x1 res none tol := by
  unfold C02.snapGridTight snapGrid
  simp only
  split
  · rename_i hr
    rw [snapCeil_eq _ _ (div_nonneg (by linarith) hr.le) ht]
  · split
    · rfl
    · rename_i h1 h2
      have hr : 0 < -res := by
        rcases lt_trichotomy res 0 with h | h | h
        · linarith
        · exact absurd h h2
        · exact absurd h h1
      rw [snapCeil_eq _ _ (div_nonneg (by linarith) hr.le) ht]

theorem min4_le_max4 (a b c d : Rat) : C02.min4 a b c d ≤ C02.max4 a b c d := by
  unfold C02.min4 C02.max4
  exact le_trans (min_le_left _ _) (le_trans (min_le_left _ _) (le_trans (le_max_left _ _) (le_max_left _ _)))

end OdcGeo.C08
