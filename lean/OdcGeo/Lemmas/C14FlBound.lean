/- The binary64 rounding `fl64` of `Model/C14.lean` satisfies the standard error model: proved from its definition (Nat.log2 bracket, one-step normalisation, round-half-even). Helper lemmas for Props/C14Band2.lean. -/
import OdcGeo.Lemmas.C14Fl
import Mathlib.Algebra.Order.Field.Power
import Mathlib.Tactic.Linarith
import Mathlib.Tactic.Positivity
import Mathlib.Tactic.FieldSimp
namespace OdcGeo.C14

theorem pow2_eq_zpow (e : Int) : pow2 e = (2 : Rat) ^ e := by
  unfold pow2
  cases e with
  | ofNat n =>
    have : (0 : Int) ≤ Int.ofNat n := Int.natCast_nonneg n
    rw [if_pos this]
    simp
  | negSucc n =>
    have : ¬ (0 : Int) ≤ Int.negSucc n := by simp
    rw [if_neg this]
    have e : (-(Int.negSucc n)).toNat = n + 1 := by simp [Int.negSucc_eq]
    rw [e, show Int.negSucc n = -((n + 1 : Nat) : Int) by simp [Int.negSucc_eq], zpow_neg, zpow_natCast]
    push_cast
    rw [one_div]

theorem pow2_succ (e : Int) : pow2 (e + 1) = 2 * pow2 e := by
  rw [pow2_eq_zpow, pow2_eq_zpow, zpow_add₀ (by norm_num : (2 : Rat) ≠ 0)]; ring

theorem pow2_pred (e : Int) : pow2 (e - 1) = pow2 e / 2 := by
  have := pow2_succ (e - 1); rw [sub_add_cancel] at this; rw [this]; ring

theorem pow2_sub (a b : Int) : pow2 (a - b) = pow2 a / pow2 b := by
  rw [pow2_eq_zpow, pow2_eq_zpow, pow2_eq_zpow, zpow_sub₀ (by norm_num : (2 : Rat) ≠ 0)]

theorem roundHalfEven_err (r : Rat) : |((roundHalfEven r : Int) : Rat) - r| ≤ 1 / 2 := by
  unfold roundHalfEven
  have h1 := Rat.floor_le r
  have h2 := Rat.lt_floor_add_one r
  push_cast at h2
  simp only
  split_ifs with a b c
  · rw [abs_le]; constructor <;> linarith
  · rw [abs_le]; push_cast; constructor <;> linarith
  · rw [abs_le]; constructor <;> linarith
  · rw [abs_le]; push_cast; constructor <;> linarith


/-- log2 brackets of a positive rational: `2^(l-1) < q < 2^(l+1)` for `l = log2 num − log2 den` -/
theorem log2_bracket (q : Rat) (hq : 0 < q) :
    pow2 (((Nat.log2 q.num.natAbs : Nat) : Int) - ((Nat.log2 q.den : Nat) : Int) - 1) < q ∧
    q < pow2 (((Nat.log2 q.num.natAbs : Nat) : Int) - ((Nat.log2 q.den : Nat) : Int) + 1) := by
  have hnum : 0 < q.num := Rat.num_pos.mpr hq
  have hn0 : q.num.natAbs ≠ 0 := by omega
  have hd0 : q.den ≠ 0 := q.den_nz
  have n1 : 2 ^ q.num.natAbs.log2 ≤ q.num.natAbs := Nat.log2_self_le hn0
  have n2 : q.num.natAbs < 2 ^ (q.num.natAbs.log2 + 1) := Nat.lt_log2_self
  have d1 : 2 ^ q.den.log2 ≤ q.den := Nat.log2_self_le hd0
  have d2 : q.den < 2 ^ (q.den.log2 + 1) := Nat.lt_log2_self
  have c : ((q.num.natAbs : Nat) : Rat) = (q.num : Rat) := by
    have h : ((q.num.natAbs : Nat) : Int) = q.num := Int.natAbs_of_nonneg hnum.le
    rw [← Int.cast_natCast, h]
  have hqe : (q.num.natAbs : Rat) / (q.den : Rat) = q := by rw [c]; exact Rat.num_div_den q
  have N1 : ((2 : Rat) ^ q.num.natAbs.log2) ≤ (q.num.natAbs : Rat) := by exact_mod_cast n1
  have N2 : (q.num.natAbs : Rat) < (2 : Rat) ^ (q.num.natAbs.log2 + 1) := by exact_mod_cast n2
  have D1 : ((2 : Rat) ^ q.den.log2) ≤ (q.den : Rat) := by exact_mod_cast d1
  have D2 : (q.den : Rat) < (2 : Rat) ^ (q.den.log2 + 1) := by exact_mod_cast d2
  have hdp : (0 : Rat) < (q.den : Rat) := by exact_mod_cast Nat.pos_of_ne_zero hd0
  have hnp : (0 : Rat) < (q.num.natAbs : Rat) := by exact_mod_cast Nat.pos_of_ne_zero hn0
  rw [pow2_eq_zpow, pow2_eq_zpow]
  have two : (2 : Rat) ≠ 0 := by norm_num
  rw [sub_sub, zpow_sub₀ two, zpow_natCast, sub_add_eq_add_sub, zpow_sub₀ two, zpow_natCast]
  constructor
  · rw [show ((q.den.log2 : Nat) : Int) + 1 = ((q.den.log2 + 1 : Nat) : Int) by push_cast; rfl, zpow_natCast]
    refine lt_of_lt_of_eq ?_ hqe
    rw [div_lt_div_iff₀ (by positivity) hdp]
    calc (2 : Rat) ^ q.num.natAbs.log2 * (q.den : Rat) < (2 : Rat) ^ q.num.natAbs.log2 * (2 : Rat) ^ (q.den.log2 + 1) :=
          mul_lt_mul_of_pos_left D2 (by positivity)
      _ ≤ (q.num.natAbs : Rat) * (2 : Rat) ^ (q.den.log2 + 1) := mul_le_mul_of_nonneg_right N1 (by positivity)
  · rw [show ((q.num.natAbs.log2 : Nat) : Int) + 1 = ((q.num.natAbs.log2 + 1 : Nat) : Int) by push_cast; rfl, zpow_natCast]
    refine lt_of_eq_of_lt hqe.symm ?_
    rw [div_lt_div_iff₀ hdp (by positivity)]
    calc (q.num.natAbs : Rat) * (2 : Rat) ^ q.den.log2 < (2 : Rat) ^ (q.num.natAbs.log2 + 1) * (2 : Rat) ^ q.den.log2 :=
          mul_lt_mul_of_pos_right N2 (by positivity)
      _ ≤ (2 : Rat) ^ (q.num.natAbs.log2 + 1) * (q.den : Rat) := mul_le_mul_of_nonneg_left D1 (by positivity)


/-- structure of the binary64 rounding of a positive rational: `fl64 q = m · 2^e` with `m` within 1/2 of `q / 2^e` and the unit
    `2^e` at most `q / 2^52` (normal range) or `2^-1074` (subnormal clamp) -/
theorem fl64_spec (q : Rat) (hq : 0 < q) :
    ∃ (e : Int) (m : Int), fl64 q = (m : Rat) * pow2 e ∧ |(m : Rat) - q / pow2 e| ≤ 1 / 2 ∧
      pow2 e ≤ q / 2 ^ 52 + pow2 (-1074) := by
  have h0 : ¬ q = 0 := hq.ne'
  have hn : ¬ q < 0 := not_lt.mpr hq.le
  obtain ⟨b1, b2⟩ := log2_bracket q hq
  generalize hl : ((Nat.log2 q.num.natAbs : Nat) : Int) - ((Nat.log2 q.den : Nat) : Int) = l at b1 b2
  have p52 : pow2 52 = 2 ^ 52 := by rw [show (52 : Int) = ((52 : Nat) : Int) by rfl, pow2_nat]
  have p53 : pow2 53 = 2 ^ 53 := by rw [show (53 : Int) = ((53 : Nat) : Int) by rfl, pow2_nat]
  have hpe : 0 < pow2 (l - 52) := pow2_pos _
  -- s0 = q / 2^(l-52) lies in (2^51, 2^53)
  have hs0a : (2 : Rat) ^ 51 < q / pow2 (l - 52) := by
    rw [lt_div_iff₀ hpe]
    have : pow2 (l - 1) = 2 ^ 51 * pow2 (l - 52) := by
      rw [show l - 1 = (51 : Int) + (l - 52) by ring, pow2_eq_zpow, pow2_eq_zpow, zpow_add₀ (by norm_num : (2 : Rat) ≠ 0)]
      norm_num
    linarith
  have hs0b : q / pow2 (l - 52) < (2 : Rat) ^ 53 := by
    rw [div_lt_iff₀ hpe]
    have : pow2 (l + 1) = 2 ^ 53 * pow2 (l - 52) := by
      rw [show l + 1 = (53 : Int) + (l - 52) by ring, pow2_eq_zpow, pow2_eq_zpow, zpow_add₀ (by norm_num : (2 : Rat) ≠ 0)]
      norm_num
    linarith
  -- the exponent after the one-step normalisation
  obtain ⟨e1, he1, hs1a, hs1b⟩ : ∃ e1 : Int,
      e1 = (if q / pow2 (l - 52) < pow2 52 then l - 52 - 1 else if pow2 53 ≤ q / pow2 (l - 52) then l - 52 + 1 else l - 52) ∧
      (2 : Rat) ^ 52 ≤ q / pow2 e1 ∧ q / pow2 e1 < (2 : Rat) ^ 53 := by
    by_cases c1 : q / pow2 (l - 52) < pow2 52
    · refine ⟨l - 52 - 1, by rw [if_pos c1], ?_, ?_⟩
      · rw [pow2_pred, div_div_eq_mul_div, show q * 2 / pow2 (l - 52) = 2 * (q / pow2 (l - 52)) by ring]
        have : (2 : Rat) ^ 52 = 2 * 2 ^ 51 := by norm_num
        linarith
      · rw [pow2_pred, div_div_eq_mul_div, show q * 2 / pow2 (l - 52) = 2 * (q / pow2 (l - 52)) by ring]
        rw [p52] at c1
        have : (2 : Rat) ^ 53 = 2 * 2 ^ 52 := by norm_num
        linarith
    · have c2 : ¬ pow2 53 ≤ q / pow2 (l - 52) := by rw [p53]; linarith
      refine ⟨l - 52, by rw [if_neg c1, if_neg c2], ?_, hs0b⟩
      rw [p52] at c1; linarith
  refine ⟨if e1 < -1074 then -1074 else e1, roundHalfEven (q / pow2 (if e1 < -1074 then -1074 else e1)), ?_,
    roundHalfEven_err _, ?_⟩
  · unfold fl64
    simp only [h0, hn, if_false, hl, ← he1]
  · split_ifs with hc
    · have : 0 ≤ q / 2 ^ 52 := by positivity
      linarith
    · have hp1 : 0 < pow2 e1 := pow2_pos _
      have : pow2 e1 ≤ q / 2 ^ 52 := by
        rw [le_div_iff₀ (by positivity)]
        have := (le_div_iff₀ hp1).mp hs1a
        linarith
      linarith [pow2_pos (-1074)]

/-- ERROR BOUND of the binary64 rounding of the model, for every rational: relative `2^-53` plus the subnormal quantum `2^-1075` -/
theorem fl64_error_bound (q : Rat) : |fl64 q - q| ≤ 1 / 2 ^ 53 * |q| + pow2 (-1074) / 2 := by
  have pos : ∀ a : Rat, 0 < a → |fl64 a - a| ≤ 1 / 2 ^ 53 * a + pow2 (-1074) / 2 := by
    intro a ha
    obtain ⟨e, m, h1, h2, h3⟩ := fl64_spec a ha
    have hp : 0 < pow2 e := pow2_pos e
    have : fl64 a - a = ((m : Rat) - a / pow2 e) * pow2 e := by rw [h1]; field_simp
    rw [this, abs_mul, abs_of_pos hp]
    calc |(m : Rat) - a / pow2 e| * pow2 e ≤ 1 / 2 * pow2 e := mul_le_mul_of_nonneg_right h2 hp.le
      _ ≤ 1 / 2 * (a / 2 ^ 52 + pow2 (-1074)) := by linarith
      _ = 1 / 2 ^ 53 * a + pow2 (-1074) / 2 := by ring
  rcases lt_trichotomy q 0 with h | h | h
  · have := pos (-q) (by linarith)
    rw [fl64_neg] at this
    rw [abs_of_neg h]
    have e : |-fl64 q - -q| = |fl64 q - q| := by rw [← abs_neg]; ring_nf
    rw [e] at this; linarith
  · subst h
    have : fl64 0 = 0 := by simp [fl64]
    rw [this]; simp; have := pow2_pos (-1074); linarith
  · rw [abs_of_pos h]; exact pos q h

end OdcGeo.C14
