/- Helper lemmas for Props/C14Ext.lean (IEEE special-value arithmetic of `Model/C14Ext.lean`). -/
import OdcGeo.Model.C14Ext
import OdcGeo.Lemmas.C14Args
namespace OdcGeo.C14

theorem XF.mul_nan_right (E : FEnv) (x : XF) : x.mul E .nan = .nan := by cases x <;> rfl

theorem XF.fin_mul_pinf (E : FEnv) (a : Rat) :
    (XF.fin a).mul E .pinf = if 0 < a then .pinf else if a < 0 then .ninf else .nan := by
  rcases lt_trichotomy a 0 with h | h | h
  · have : ¬ 0 < a := not_lt.mpr h.le
    simp [XF.mul, XF.sign?, h, this]
  · subst h; simp [XF.mul, XF.sign?]
  · simp [XF.mul, XF.sign?, h]

theorem XF.inf_mul_unit (E : FEnv) : XF.pinf.mul E (.fin 1) = .pinf ∧ XF.ninf.mul E (.fin 1) = .ninf ∧
    XF.pinf.mul E (.fin (-1)) = .ninf ∧ XF.ninf.mul E (.fin (-1)) = .pinf := by
  refine ⟨?_, ?_, ?_, ?_⟩ <;> simp [XF.mul, XF.sign?] <;> norm_num

theorem XF.inf_add_fin (E : FEnv) (o : Rat) : XF.pinf.addX E (.fin o) = .pinf ∧ XF.ninf.addX E (.fin o) = .ninf :=
  ⟨rfl, rfl⟩

end OdcGeo.C14
