/-
`norm_xy` (math.py:446-472, as repaired by "fix: norm_xy scales by sqrt(2)/mean distance")
modelled over an arbitrary ordered field `K` (so that it applies to ℝ, where `√2` exists; over
`Rat` the hypothesis `r·r = 2` is unsatisfiable, which is why this model is field-generic and
lives here, with Mathlib's `Field`, rather than in the core-only `Model/`).

Square roots are witnesses: `ds` are the distances of the centred points from the origin
(`0 ≤ d_i`, `d_i² = x_i² + y_i²`), `r` is the constant the code uses for `√2`.
-/
import OdcGeo.Lemmas.C20d
import Mathlib.Algebra.Order.Field.Basic
import Mathlib.Algebra.BigOperators.Group.List.Basic

namespace OdcGeo.C20

section normxy
variable {K : Type} [Field K] [LinearOrder K] [IsStrictOrderedRing K]
set_option linter.unusedSectionVars false

/-- `arr.mean()` -/
def meanK (xs : List K) : K := xs.sum / (xs.length : K)

/-- Result of `norm_xy`: the normalised points and `Affine(s, 0, tx, 0, s, ty)`. -/
structure NormXY (K : Type) where
  pts : List (K × K)
  s : K
  tx : K
  ty : K

/-- `norm_xy(pts)`: `ds` = `sqrt((XX**2).sum(axis=1))` (witness), `r` = `sqrt(2.0)` (witness). -/
def normXYK (pts : List (K × K)) (ds : List K) (r : K) : NormXY K :=
  let mx := meanK (pts.map (·.1))          -- _mean = pts.mean(axis=0)
  let my := meanK (pts.map (·.2))
  let m := meanK ds                        -- mean_dist
  let s := if 0 < m then r / m else 1      -- sx
  ⟨pts.map fun p => ((p.1 - mx) * s, (p.2 - my) * s),   -- XX = (pts - _mean) * sx
   s, -mx * s, -my * s⟩                                  -- tx, ty = -_mean * sx

/-- `ds` are the distances of the points from their centroid. -/
def IsCentredDist (pts : List (K × K)) (ds : List K) : Prop :=
  List.Forall₂ (fun p d => 0 ≤ d ∧
    d * d = (p.1 - meanK (pts.map (·.1))) * (p.1 - meanK (pts.map (·.1))) +
            (p.2 - meanK (pts.map (·.2))) * (p.2 - meanK (pts.map (·.2)))) pts ds

theorem sum_map_sub_mul (xs : List K) (c s : K) :
    (xs.map fun x => (x - c) * s).sum = (xs.sum - (xs.length : K) * c) * s := by
  induction xs with
  | nil => simp
  | cons x xs ih => simp only [List.map_cons, List.sum_cons, List.length_cons, ih]; push_cast; ring

theorem sum_map_mul_right (xs : List K) (s : K) : (xs.map (· * s)).sum = xs.sum * s := by
  induction xs with
  | nil => simp
  | cons x xs ih => simp only [List.map_cons, List.sum_cons, ih]; ring

theorem meanK_centred (xs : List K) (hne : xs ≠ []) (s : K) :
    meanK (xs.map fun x => (x - meanK xs) * s) = 0 := by
  have hn : (xs.length : K) ≠ 0 := by
    have : xs.length ≠ 0 := by simpa using hne
    exact_mod_cast this
  unfold meanK
  rw [sum_map_sub_mul, List.length_map]
  have : xs.sum - (xs.length : K) * (xs.sum / (xs.length : K)) = 0 := by field_simp; ring
  rw [this]; simp

theorem forall2_scale (pts : List (K × K)) (ds : List K) (mx my s : K) (hs : 0 ≤ s)
    (h : List.Forall₂ (fun p d => 0 ≤ d ∧
      d * d = (p.1 - mx) * (p.1 - mx) + (p.2 - my) * (p.2 - my)) pts ds) :
    List.Forall₂ (fun q d => 0 ≤ d ∧ d * d = q.1 * q.1 + q.2 * q.2)
      (pts.map fun p => ((p.1 - mx) * s, (p.2 - my) * s)) (ds.map (· * s)) := by
  induction h with
  | nil => exact List.Forall₂.nil
  | cons hpd _ ih =>
    refine List.Forall₂.cons ⟨mul_nonneg hpd.1 hs, ?_⟩ ih
    simp only []
    linear_combination (s * s) * hpd.2

/-- The scale is positive (so the returned affine is invertible). -/
theorem normXYK_scale_pos (pts : List (K × K)) (ds : List K) (r : K) (hr : 0 < r) :
    0 < (normXYK pts ds r).s := by
  simp only [normXYK]
  split
  · rename_i h; exact div_pos hr h
  · exact one_pos

/-- **The returned affine maps the input points onto the normalised ones.** -/
theorem normXYK_affine_maps (pts : List (K × K)) (ds : List K) (r : K) :
    (normXYK pts ds r).pts =
      pts.map fun p => ((normXYK pts ds r).s * p.1 + (normXYK pts ds r).tx,
                        (normXYK pts ds r).s * p.2 + (normXYK pts ds r).ty) := by
  simp only [normXYK]
  apply List.map_congr_left
  intro p _
  ext <;> simp only [] <;> ring

/-- **The mean of the normalised points is 0.** -/
theorem normXYK_mean_zero (pts : List (K × K)) (ds : List K) (r : K) (hne : pts ≠ []) :
    meanK ((normXYK pts ds r).pts.map (·.1)) = 0 ∧ meanK ((normXYK pts ds r).pts.map (·.2)) = 0 := by
  simp only [normXYK, List.map_map, Function.comp_def]
  have h1 : (pts.map (·.1)) ≠ [] := by simpa using hne
  have h2 : (pts.map (·.2)) ≠ [] := by simpa using hne
  have e1 := meanK_centred (pts.map (·.1)) h1 (if 0 < meanK ds then r / meanK ds else 1)
  have e2 := meanK_centred (pts.map (·.2)) h2 (if 0 < meanK ds then r / meanK ds else 1)
  simp only [List.map_map, Function.comp_def] at e1 e2
  exact ⟨e1, e2⟩

/-- **Mean distance from 0 is `r` (= √2)** when the mean distance of the input is positive:
`ds.map (· * s)` are the distances of the normalised points from the origin (their centroid),
and their mean is `r`; with `r·r = 2` the squared mean distance is 2. -/
theorem normXYK_mean_dist (pts : List (K × K)) (ds : List K) (r : K) (hr : 0 < r)
    (hd : IsCentredDist pts ds) (hm : 0 < meanK ds) :
    List.Forall₂ (fun q d => 0 ≤ d ∧ d * d = q.1 * q.1 + q.2 * q.2)
        (normXYK pts ds r).pts (ds.map (· * (normXYK pts ds r).s)) ∧
      meanK (ds.map (· * (normXYK pts ds r).s)) = r ∧
      (r * r = 2 → meanK (ds.map (· * (normXYK pts ds r).s)) * meanK (ds.map (· * (normXYK pts ds r).s)) = 2) := by
  have hs : (normXYK pts ds r).s = r / meanK ds := by simp only [normXYK]; rw [if_pos hm]
  have hspos : 0 < (normXYK pts ds r).s := normXYK_scale_pos pts ds r hr
  have hmean : meanK (ds.map (· * (normXYK pts ds r).s)) = r := by
    rw [hs]
    unfold meanK at hm ⊢
    rw [sum_map_mul_right, List.length_map]
    have hne : ds.sum / (ds.length : K) ≠ 0 := ne_of_gt hm
    have hl : (ds.length : K) ≠ 0 := by
      intro h; rw [h, div_zero] at hm; exact lt_irrefl _ hm
    have hsum : ds.sum ≠ 0 := by
      intro h; rw [h, zero_div] at hm; exact lt_irrefl _ hm
    field_simp
  refine ⟨?_, hmean, fun h2 => by rw [hmean, h2]⟩
  have key := forall2_scale pts ds _ _ (normXYK pts ds r).s hspos.le hd
  simpa only [normXYK] using key

end normxy

/-! ### `Poly2d`: explicit evaluation, closure of the bilinear / biquadratic families under
scale+translation of input and output, de-normalisation of 9 coefficients -/

open Poly2d in
theorem evalCC_reshape2 (c0 c1 c2 c3 : Rat × Rat) (q : Rat × Rat) :
    evalCC (reshape 2 [c0, c1, c2, c3]) q =
      (c0.1 + q.2 * c1.1 + q.1 * (c2.1 + q.2 * c3.1), c0.2 + q.2 * c1.2 + q.1 * (c2.2 + q.2 * c3.2)) := by
  simp only [evalCC, reshape, polyval2d, polyval, List.range, List.range.loop, List.map, List.drop,
    List.take, List.foldr]
  ext <;> simp

open Poly2d in
theorem evalCC_reshape3 (c0 c1 c2 c3 c4 c5 c6 c7 c8 : Rat × Rat) (q : Rat × Rat) :
    evalCC (reshape 3 [c0, c1, c2, c3, c4, c5, c6, c7, c8]) q =
      (c0.1 + q.2 * c1.1 + q.2 * q.2 * c2.1 + q.1 * (c3.1 + q.2 * c4.1 + q.2 * q.2 * c5.1) +
          q.1 * q.1 * (c6.1 + q.2 * c7.1 + q.2 * q.2 * c8.1),
       c0.2 + q.2 * c1.2 + q.2 * q.2 * c2.2 + q.1 * (c3.2 + q.2 * c4.2 + q.2 * q.2 * c5.2) +
          q.1 * q.1 * (c6.2 + q.2 * c7.2 + q.2 * q.2 * c8.2)) := by
  simp only [evalCC, reshape, polyval2d, polyval, List.range, List.range.loop, List.map, List.drop,
    List.take, List.foldr]
  ext <;> simp <;> ring

/-- Bilinear polynomials are closed under a scale+translation `B` of the input and `Ab` of the output. -/
theorem bilinear_closed (c0 c1 c2 c3 : Rat × Rat) (B Ab : Aff) (hB : B.b = 0 ∧ B.d = 0)
    (hAb : Ab.b = 0 ∧ Ab.d = 0) :
    ∃ d0 d1 d2 d3 : Rat × Rat, (c3 = (0, 0) → d3 = (0, 0)) ∧ ∀ u : Rat × Rat,
      Poly2d.evalCC (Poly2d.reshape 2 [d0, d1, d2, d3]) u =
        Ab.apply (Poly2d.evalCC (Poly2d.reshape 2 [c0, c1, c2, c3]) (B.apply u)) := by
  obtain ⟨a, b, c, d, e, f⟩ := B
  obtain ⟨a', b', c', d', e', f'⟩ := Ab
  simp only at hB hAb
  obtain ⟨rfl, rfl⟩ := hB
  obtain ⟨rfl, rfl⟩ := hAb
  refine ⟨(a' * (c0.1 + c1.1 * f + c2.1 * c + c3.1 * c * f) + c', e' * (c0.2 + c1.2 * f + c2.2 * c + c3.2 * c * f) + f'),
          (a' * (c1.1 * e + c3.1 * c * e), e' * (c1.2 * e + c3.2 * c * e)),
          (a' * (c2.1 * a + c3.1 * a * f), e' * (c2.2 * a + c3.2 * a * f)),
          (a' * (c3.1 * a * e), e' * (c3.2 * a * e)), ?_, ?_⟩
  · intro h; rw [h]; simp
  · intro u
    simp only [evalCC_reshape2, Aff.apply]
    ext <;> simp only [] <;> ring

/-- coefficient of `u^a` in `(α u + β)^i`, `i, a ≤ 2` -/
def binomE (α β : Rat) : Nat → Nat → Rat
  | 0, 0 => 1
  | 1, 0 => β
  | 1, 1 => α
  | 2, 0 => β * β
  | 2, 1 => 2 * α * β
  | 2, 2 => α * α
  | _, _ => 0

/-- coefficient of `u^a v^b` after substituting `x = α u + β`, `y = α' v + γ` in `Σ k i j x^i y^j` -/
def tr9 (k : Nat → Nat → Rat) (α β α' γ : Rat) (a b : Nat) : Rat :=
  k 0 0 * binomE α β 0 a * binomE α' γ 0 b + k 0 1 * binomE α β 0 a * binomE α' γ 1 b +
  k 0 2 * binomE α β 0 a * binomE α' γ 2 b + k 1 0 * binomE α β 1 a * binomE α' γ 0 b +
  k 1 1 * binomE α β 1 a * binomE α' γ 1 b + k 1 2 * binomE α β 1 a * binomE α' γ 2 b +
  k 2 0 * binomE α β 2 a * binomE α' γ 0 b + k 2 1 * binomE α β 2 a * binomE α' γ 1 b +
  k 2 2 * binomE α β 2 a * binomE α' γ 2 b

/-- Biquadratic polynomials are closed under a scale+translation of the input and of the output. -/
theorem biquadratic_closed (c0 c1 c2 c3 c4 c5 c6 c7 c8 : Rat × Rat) (B Ab : Aff) (hB : B.b = 0 ∧ B.d = 0)
    (hAb : Ab.b = 0 ∧ Ab.d = 0) :
    ∃ d0 d1 d2 d3 d4 d5 d6 d7 d8 : Rat × Rat, ∀ u : Rat × Rat,
      Poly2d.evalCC (Poly2d.reshape 3 [d0, d1, d2, d3, d4, d5, d6, d7, d8]) u =
        Ab.apply (Poly2d.evalCC (Poly2d.reshape 3 [c0, c1, c2, c3, c4, c5, c6, c7, c8]) (B.apply u)) := by
  obtain ⟨a, b, c, d, e, f⟩ := B
  obtain ⟨a', b', c', d', e', f'⟩ := Ab
  simp only at hB hAb
  obtain ⟨rfl, rfl⟩ := hB
  obtain ⟨rfl, rfl⟩ := hAb
  let k1 : Nat → Nat → Rat := fun i j => ([[c0.1, c1.1, c2.1], [c3.1, c4.1, c5.1], [c6.1, c7.1, c8.1]].getD i []).getD j 0
  let k2 : Nat → Nat → Rat := fun i j => ([[c0.2, c1.2, c2.2], [c3.2, c4.2, c5.2], [c6.2, c7.2, c8.2]].getD i []).getD j 0
  let g : Nat → Nat → Rat × Rat := fun i j => (a' * tr9 k1 a c e f i j, e' * tr9 k2 a c e f i j)
  refine ⟨(a' * tr9 k1 a c e f 0 0 + c', e' * tr9 k2 a c e f 0 0 + f'), g 0 1, g 0 2, g 1 0, g 1 1, g 1 2,
    g 2 0, g 2 1, g 2 2, ?_⟩
  intro u
  simp only [evalCC_reshape3, Aff.apply, g, k1, k2, tr9, binomE, List.getD_cons_zero, List.getD_cons_succ]
  ext <;> simp only [] <;> ring

/-- De-normalisation of the 9 coefficients of `_fit9`. -/
theorem denorm9 (c0 c1 c2 c3 c4 c5 c6 c7 c8 : Rat × Rat) (Ab : Aff) (hb : Ab.b = 0) (hd : Ab.d = 0)
    (hs : Ab.a = Ab.e) (q : Rat × Rat) :
    Poly2d.evalCC (Poly2d.reshape 3 (Poly2d.denorm [c0, c1, c2, c3, c4, c5, c6, c7, c8] Ab)) q =
      Ab.inv.apply (Poly2d.evalCC (Poly2d.reshape 3 [c0, c1, c2, c3, c4, c5, c6, c7, c8]) q) := by
  have e1 : Ab.inv.b = 0 := by simp [Aff.inv, hb]
  have e2 : Ab.inv.d = 0 := by simp [Aff.inv, hd]
  have e3 : Ab.inv.e = Ab.inv.a := by simp [Aff.inv, hs]
  have hden : Poly2d.denorm [c0, c1, c2, c3, c4, c5, c6, c7, c8] Ab =
      [(c0.1 * Ab.inv.a + Ab.inv.c, c0.2 * Ab.inv.a + Ab.inv.f), (c1.1 * Ab.inv.a, c1.2 * Ab.inv.a),
       (c2.1 * Ab.inv.a, c2.2 * Ab.inv.a), (c3.1 * Ab.inv.a, c3.2 * Ab.inv.a), (c4.1 * Ab.inv.a, c4.2 * Ab.inv.a),
       (c5.1 * Ab.inv.a, c5.2 * Ab.inv.a), (c6.1 * Ab.inv.a, c6.2 * Ab.inv.a), (c7.1 * Ab.inv.a, c7.2 * Ab.inv.a),
       (c8.1 * Ab.inv.a, c8.2 * Ab.inv.a)] := by
    simp [Poly2d.denorm]
  rw [hden, evalCC_reshape3, evalCC_reshape3]
  simp only [Aff.apply, e1, e2, e3]
  ext <;> simp only [] <;> ring

/-- Hypotheses on the two normalisations as `norm_xy` produces them: scale + translation, non-zero
scales, and a uniform scale on the output side (`_fit*` "assumes `sx == sy`"). -/
structure FitNorms (Ain Ab : Aff) : Prop where
  inb : Ain.b = 0
  ind : Ain.d = 0
  ina : Ain.a ≠ 0
  ine : Ain.e ≠ 0
  outb : Ab.b = 0
  outd : Ab.d = 0
  outs : Ab.a = Ab.e
  outa : Ab.a ≠ 0

/-- A scale+translation with non-zero scales is invertible, its inverse is a scale+translation. -/
theorem st_inv (A : Aff) (hb : A.b = 0) (hd : A.d = 0) (ha : A.a ≠ 0) (he : A.e ≠ 0) :
    A.det ≠ 0 ∧ A.inv.b = 0 ∧ A.inv.d = 0 := by
  refine ⟨?_, by simp [Aff.inv, hb], by simp [Aff.inv, hd]⟩
  simp only [Aff.det, hb, hd]; simp [ha, he]

end OdcGeo.C20
