/-
Bridges between the translator's Python-semantics prelude (`OdcGeo/Gen/PyPrelude.lean`) and the vocabulary of the
hand model `OdcGeo/Model/C20.lean`, used by the tie theorems of `Props/GenC20.lean`.
-/
import OdcGeo.Gen.PyPrelude
import OdcGeo.Gen.Tie
import OdcGeo.Model.C20

namespace OdcGeo.C20
open OdcGeo.Gen

theorem py_trunc_eq (x : Rat) : Py.trunc x = trunc x := rfl

theorem py_absR_eq (x : Rat) : Py.absR x = rabs x := rfl

/-- `math.fmod(x, 1)` is the model's `fmod1` -/
theorem py_fmod_one (x : Rat) : Py.fmod x 1 = fmod1 x := by
  simp [Py.fmod, fmod1, py_trunc_eq]

/-- the exact `int(ceil(log2 x))` of the prelude is the model's `clog2` -/
theorem py_ceilLog2_eq (x : Int) (h : 0 < x) : Py.ceilLog2 x = ((clog2 x.toNat : Nat) : Int) := by
  unfold Py.ceilLog2 clog2
  by_cases h1 : x ≤ 1
  · have : x.toNat ≤ 1 := by omega
    simp [h1, this]
  · have : ¬ x.toNat ≤ 1 := by omega
    simp [h1, this]

/-- `maybeInt` without the intermediate `Option` (normal form used by the ties; `simp only [maybeInt, maybeInt?]`
would make `simp` evaluate the `match` on an `if` over `Rat`, which does not terminate in reasonable time) -/
theorem maybeInt_if (x tol : Rat) :
    maybeInt x tol = if rabs (splitFloat x).2 < tol then ((trunc (splitFloat x).1 : Int) : Rat) else x := by
  unfold maybeInt maybeInt?
  by_cases h : rabs (splitFloat x).2 < tol
  · rw [if_pos h, if_pos h]
  · rw [if_neg h, if_neg h]

theorem py_ipow_two_nat (n : Nat) : Py.ipow 2 (n : Int) = ((2 ^ n : Nat) : Int) := by
  simp [Py.ipow]

end OdcGeo.C20
