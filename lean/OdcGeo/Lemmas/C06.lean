/-
Helper definitions and lemmas for C06 (invariant of an `MPUChunk` inside a merge tree).
-/
import OdcGeo.Model.C06
import OdcGeo.Spec.C06Schedule
import Mathlib.Tactic.Linarith
import Mathlib.Data.List.Perm.Basic

set_option linter.unusedSimpArgs false
set_option linter.unusedTactic false
set_option linter.unusedVariables false
set_option linter.unnecessarySimpa false

namespace OdcGeo.C06
variable {α : Type}

@[simp] theorem partsBytes_nil : partsBytes ([] : List (Part α)) = [] := rfl
@[simp] theorem partsBytes_append (a b : List (Part α)) :
    partsBytes (a ++ b) = partsBytes a ++ partsBytes b := by
  simp [partsBytes]
@[simp] theorem partsBytes_cons (p : Part α) (ps : List (Part α)) :
    partsBytes (p :: ps) = p.data ++ partsBytes ps := by
  simp [partsBytes]
@[simp] theorem partsBytes_single (p : Part α) : partsBytes [p] = p.data := by
  simp [partsBytes]

/-- part numbers strictly increase along the list and lie in `[lo, nxt)` -/
def PartsOk (lo nxt : Nat) (ps : List (Part α)) : Prop :=
  ps.Pairwise (fun a b => a.id < b.id) ∧ ∀ p ∈ ps, lo ≤ p.id ∧ p.id < nxt

theorem PartsOk.nil (lo nxt : Nat) : PartsOk lo nxt ([] : List (Part α)) := by
  simp [PartsOk]

theorem PartsOk.snoc {lo nxt : Nat} {ps : List (Part α)} (h : PartsOk lo nxt ps) (d : List α)
    (hlo : lo ≤ nxt) : PartsOk lo (nxt + 1) (ps ++ [⟨nxt, d⟩]) := by
  obtain ⟨h1, h2⟩ := h
  refine ⟨?_, ?_⟩
  · rw [List.pairwise_append]
    refine ⟨h1, by simp, ?_⟩
    intro a ha b hb
    simp at hb; subst hb
    exact (h2 a ha).2
  · intro p hp
    rw [List.mem_append] at hp
    rcases hp with hp | hp
    · have := h2 p hp; omega
    · simp at hp; subst hp; simp; omega

theorem PartsOk.mono {lo nxt lo' nxt' : Nat} {ps : List (Part α)} (h : PartsOk lo nxt ps)
    (h1 : lo' ≤ lo) (h2 : nxt ≤ nxt') : PartsOk lo' nxt' ps := by
  refine ⟨h.1, fun p hp => ?_⟩
  have := h.2 p hp; omega

theorem PartsOk.append {lo mid nxt : Nat} {a b : List (Part α)} (ha : PartsOk lo mid a)
    (hb : PartsOk mid nxt b) (hm : lo ≤ mid) (hn : mid ≤ nxt) : PartsOk lo nxt (a ++ b) := by
  refine ⟨?_, ?_⟩
  · rw [List.pairwise_append]
    refine ⟨ha.1, hb.1, ?_⟩
    intro x hx y hy
    have := ha.2 x hx; have := hb.2 y hy; omega
  · intro p hp
    rw [List.mem_append] at hp
    rcases hp with hp | hp
    · have := ha.2 p hp; omega
    · have := hb.2 p hp; omega

/-- Invariant of a chunk that summarises partitions with part-number range `[lo, hi)`, whose
payload bytes are `B`, observed list `O`, and which is (`fin`) / is not the end of the stream. -/
structure Inv (W : Writer) (c : Chunk α) (lo hi : Nat) (B : List α) (O : List (Nat × Int))
    (fin : Bool) : Prop where
  stream : c.left ++ partsBytes c.parts ++ c.data = B
  obs : c.observed = O
  fin_eq : c.isFinal = fin
  keep : c.lhsKeep = W.minWrite
  range : (c.next : Int) + c.credits = hi
  lo_le : lo ≤ c.next
  cred_nonneg : 0 ≤ c.credits
  unstarted : c.parts = [] → c.left = [] ∧ c.next = lo
  started_nonfinal : c.parts ≠ [] → c.isFinal = false → 1 ≤ c.credits ∧ W.minWrite ≤ c.data.length
  started_final : c.parts ≠ [] → c.isFinal = true → c.data ≠ [] → 1 ≤ c.credits
  left_len : c.parts ≠ [] → W.minWrite ≤ c.left.length
  ids : PartsOk lo c.next c.parts
  sizes : ∀ p ∈ c.parts, W.minWrite ≤ p.data.length

theorem started_eq_true_iff (c : Chunk α) : c.started = true ↔ c.parts ≠ [] := by
  unfold Chunk.started; cases c.parts <;> simp

theorem started_eq_false_iff (c : Chunk α) : c.started = false ↔ c.parts = [] := by
  unfold Chunk.started; cases c.parts <;> simp

theorem append_inv {W : Writer} {c : Chunk α} {lo hi : Nat} {B : List α} {O : List (Nat × Int)}
    (h : Inv W c lo hi B O false) (d : List α) (cid : Int) :
    Inv W (c.append d cid) lo hi (B ++ d) (O ++ [(d.length, cid)]) false := by
  obtain ⟨h1, h2, h3, h4, h5, h6, h7, h8, h9, h10, h11, h12, h13⟩ := h
  refine ⟨?_, ?_, h3, h4, h5, h6, h7, h8, ?_, ?_, h11, h12, h13⟩
  · simp only [Chunk.append]; rw [← h1]; simp
  · simp only [Chunk.append]; rw [h2]
  · intro hs hf
    have := h9 hs hf
    simp only [Chunk.append, List.length_append]; omega
  · intro hs hf
    simp only [Chunk.append] at hf
    rw [h3] at hf; cases hf

theorem split3 (d : List α) (K n : Nat) :
    List.take K d ++ (List.take n (List.drop K d) ++ List.drop (n + K) d) = d := by
  have : List.drop (n + K) d = List.drop n (List.drop K d) := by
    rw [List.drop_drop]; congr 1; omega
  rw [this, List.take_append_drop, List.take_append_drop]

theorem maybeWrite_inv {W : Writer} {c : Chunk α} {lo hi : Nat} {B : List α} {O : List (Nat × Int)}
    {fin : Bool} (spill : Nat) (h : Inv W c lo hi B O fin) :
    ∃ c' ws, maybeWrite W spill c = .ok (c', ws) ∧ Inv W c' lo hi B O fin ∧ c'.parts = c.parts ++ ws := by
  have hI := h
  obtain ⟨h1, h2, h3, h4, h5, h6, h7, h8, h9, h10, h11, h12, h13⟩ := h
  by_cases hs : c.parts = []
  · have hst : c.started = false := (started_eq_false_iff c).2 hs
    obtain ⟨hl, hn⟩ := h8 hs
    cases hfin : c.isFinal
    · simp only [maybeWrite, hfin, hst, Bool.false_eq_true, if_false]
      split_ifs with c1 c2 c3 c4
      · exact ⟨c, [], rfl, hI, by simp⟩
      · exact ⟨c, [], rfl, hI, by simp⟩
      · refine ⟨_, _, rfl, ?_, by simp⟩
        have hmw : W.minWrite = 0 := by omega
        constructor
        · simp only [hs, hl, partsBytes_nil, partsBytes_single, List.nil_append, List.append_nil] at h1 ⊢
          rw [List.take_append_drop]; exact h1
        · exact h2
        · simp only; rw [← h3, hfin]
        · exact h4
        · simp only; push_cast; omega
        · simp only; omega
        · simp only; omega
        · simp
        · intro _ _
          simp only [List.length_drop]
          omega
        · intro _ hf; simp only at hf; cases hf
        · intro _; simp only; omega
        · simpa [hs] using (PartsOk.snoc (PartsOk.nil lo c.next) _ h6)
        · intro p hp; simp [hs] at hp; subst hp; simp only [List.length_take]; omega
      · exfalso; simp [hl] at c4
      · refine ⟨_, _, rfl, ?_, by simp⟩
        constructor
        · simp only [hs, hl, partsBytes_nil, partsBytes_single, List.nil_append, List.append_nil] at h1 ⊢
          rw [List.append_assoc, split3]; exact h1
        · exact h2
        · simp only; rw [← h3, hfin]
        · exact h4
        · simp only; push_cast; omega
        · simp only; omega
        · simp only; omega
        · simp
        · intro _ _
          simp only [List.length_drop]
          omega
        · intro _ hf; simp only at hf; cases hf
        · intro _; simp only [List.length_take]; omega
        · simpa [hs] using (PartsOk.snoc (PartsOk.nil lo c.next) _ h6)
        · intro p hp; simp [hs] at hp; subst hp; simp only [List.length_take, List.length_drop]; omega
    · simp only [maybeWrite, hfin, hst, Bool.false_eq_true, if_false, if_true]
      split_ifs with c1 c2 c3 c4
      · exact ⟨c, [], rfl, hI, by simp⟩
      · exact ⟨c, [], rfl, hI, by simp⟩
      · refine ⟨_, _, rfl, ?_, by simp⟩
        have hmw : W.minWrite = 0 := by omega
        constructor
        · simp only [hs, hl, partsBytes_nil, partsBytes_single, List.nil_append, List.append_nil] at h1 ⊢
          rw [List.take_append_drop]; exact h1
        · exact h2
        · simp only; rw [← h3, hfin]
        · exact h4
        · simp only; push_cast; omega
        · simp only; omega
        · simp only; omega
        · simp
        · intro _ hf; simp only at hf; cases hf
        · intro _ _ hd; exfalso; apply hd
          simp only [List.drop_eq_nil_iff]; omega
        · intro _; simp only; omega
        · simpa [hs] using (PartsOk.snoc (PartsOk.nil lo c.next) _ h6)
        · intro p hp; simp [hs] at hp; subst hp; simp only [List.length_take]; omega
      · exfalso; simp [hl] at c4
      · refine ⟨_, _, rfl, ?_, by simp⟩
        constructor
        · simp only [hs, hl, partsBytes_nil, partsBytes_single, List.nil_append, List.append_nil] at h1 ⊢
          rw [List.append_assoc, split3]; exact h1
        · exact h2
        · simp only; rw [← h3, hfin]
        · exact h4
        · simp only; push_cast; omega
        · simp only; omega
        · simp only; omega
        · simp
        · intro _ hf; simp only at hf; cases hf
        · intro _ _ hd; exfalso; apply hd
          simp only [List.drop_eq_nil_iff]; omega
        · intro _; simp only [List.length_take]; omega
        · simpa [hs] using (PartsOk.snoc (PartsOk.nil lo c.next) _ h6)
        · intro p hp; simp [hs] at hp; subst hp; simp only [List.length_take, List.length_drop]; omega
  · have hst : c.started = true := (started_eq_true_iff c).2 hs
    have hleft := h11 hs
    cases hfin : c.isFinal
    · obtain ⟨hc1, hd1⟩ := h9 hs hfin
      simp only [maybeWrite, hfin, hst, Bool.false_eq_true, if_false, if_true]
      split_ifs with c1 c2
      · exact ⟨c, [], rfl, hI, by simp⟩
      · exact ⟨c, [], rfl, hI, by simp⟩
      · refine ⟨_, _, rfl, ?_, by simp⟩
        constructor
        · simp only [partsBytes_append, partsBytes_single]
          rw [← h1]; simp only [List.append_assoc, List.take_append_drop]
        · exact h2
        · simp only; rw [← h3, hfin]
        · exact h4
        · simp only; push_cast; omega
        · simp only; omega
        · simp only; omega
        · intro hp; simp at hp
        · intro _ _
          simp only [List.length_drop]
          omega
        · intro _ hf; simp only at hf; cases hf
        · intro _; exact hleft
        · exact PartsOk.snoc h12 _ h6
        · intro p hp
          rw [List.mem_append] at hp
          rcases hp with hp | hp
          · exact h13 p hp
          · simp at hp; subst hp; simp only [List.length_take]; omega
    · simp only [maybeWrite, hfin, hst, Bool.false_eq_true, if_false, if_true]
      split_ifs with c1 c2
      · exact ⟨c, [], rfl, hI, by simp⟩
      · exact ⟨c, [], rfl, hI, by simp⟩
      · refine ⟨_, _, rfl, ?_, by simp⟩
        constructor
        · simp only [partsBytes_append, partsBytes_single]
          rw [← h1]; simp only [List.append_assoc, List.take_append_drop]
        · exact h2
        · simp only; rw [← h3, hfin]
        · exact h4
        · simp only; push_cast; omega
        · simp only; omega
        · simp only; omega
        · intro hp; simp at hp
        · intro _ hf; simp only at hf; cases hf
        · intro _ _ hd; exfalso; apply hd
          simp only [List.drop_eq_nil_iff]; omega
        · intro _; exact hleft
        · exact PartsOk.snoc h12 _ h6
        · intro p hp
          rw [List.mem_append] at hp
          rcases hp with hp | hp
          · exact h13 p hp
          · simp at hp; subst hp; simp only [List.length_take]; omega
theorem merge_inv_started {W : Writer} {l r : Chunk α} {lo mid hi : Nat} {Bl Br : List α}
    {Ol Or : List (Nat × Int)} {fin : Bool}
    (hl : Inv W l lo mid Bl Ol false) (hr : Inv W r mid hi Br Or fin)
    (hminP : W.minPart < lo) (hmax : mid ≤ W.maxPart + 1) (hobs : (Ol ++ Or).length ≠ 0)
    (hrs : r.parts ≠ []) :
    ∃ m ws, merge (some W) l r = .ok (m, ws) ∧ Inv W m lo hi (Bl ++ Br) (Ol ++ Or) fin ∧
      m.parts = l.parts ++ ws ++ r.parts := by
  obtain ⟨l1, l2, l3, l4, l5, l6, l7, l8, l9, l10, l11, l12, l13⟩ := hl
  obtain ⟨r1, r2, r3, r4, r5, r6, r7, r8, r9, r10, r11, r12, r13⟩ := hr
  have hobs' : ¬ (l.observed ++ r.observed).length = 0 := by rw [l2, r2]; exact hobs
  have hrst : r.started = true := (started_eq_true_iff r).2 hrs
  have hrleft := r11 hrs
  have hmidr : mid ≤ r.next := r6
  by_cases hls : l.parts = []
  · -- left not started
    have hlst : l.started = false := (started_eq_false_iff l).2 hls
    obtain ⟨hll, hln⟩ := l8 hls
    by_cases hcf : canFlush W l (l.data ++ r.left).length = true
    · have hcf' := hcf
      simp only [canFlush, hlst, l3, Bool.false_eq_true, if_false] at hcf'
      split_ifs at hcf' with hc
      simp only [decide_eq_true_eq, List.length_append] at hcf'
      have hrange : W.minPart ≤ l.next ∧ l.next ≤ W.maxPart := by omega
      by_cases hk : 0 < l.lhsKeep
      · simp only [merge, hobs', hrst, flushRhs, hlst, hcf, flushData, hrange, hk, if_false, if_true,
          Bool.not_true, Bool.false_eq_true, not_true_eq_false, and_self, decide_true,
          Bool.not_false, Bool.true_and, Bool.and_self]
        refine ⟨_, _, rfl, ?_, by simp [hls]⟩
        constructor
        · simp only [hls, List.nil_append, partsBytes_append, partsBytes_single, partsBytes_cons]
          rw [← l1, ← r1, hll, hls]
          simp only [partsBytes_nil, List.nil_append, List.append_assoc]
          rw [← List.append_assoc (List.take _ _), List.take_append_drop]
          simp
        · simp only; rw [l2, r2]
        · exact r3
        · exact l4
        · exact r5
        · simp only; omega
        · exact r7
        · intro hp; simp at hp
        · intro _ hf; exact r9 hrs hf
        · intro _ hf hd; exact r10 hrs hf hd
        · intro _
          simp only [List.length_take, List.length_append]; omega
        · simp only [hls, List.nil_append]
          have hp : PartsOk lo (l.next + 1) ([] ++ [(⟨l.next, List.drop l.lhsKeep (l.data ++ r.left)⟩ : Part α)]) :=
            PartsOk.snoc (PartsOk.nil lo l.next) _ l6
          have hmid : l.next + 1 ≤ mid := by omega
          exact PartsOk.append (hp.mono (le_refl _) hmid) r12 (by omega) hmidr
        · intro p hp
          simp only [hls, List.nil_append, List.cons_append, List.mem_cons] at hp
          rcases hp with hp | hp
          · subst hp; simp only [List.length_drop, List.length_append]; omega
          · exact r13 p hp
      · have hk0 : l.lhsKeep = 0 := by omega
        have hmw : W.minWrite = 0 := by omega
        simp only [merge, hobs', hrst, flushRhs, hlst, hcf, flushData, hrange, hk, if_false, if_true,
          Bool.not_true, Bool.false_eq_true, not_true_eq_false, and_self, decide_false,
          Bool.not_false, Bool.true_and, Bool.and_false]
        refine ⟨_, _, rfl, ?_, by simp [hls]⟩
        constructor
        · simp only [hls, List.nil_append, partsBytes_append, partsBytes_single, partsBytes_cons]
          rw [← l1, ← r1, hll, hls]
          simp
        · simp only; rw [l2, r2]
        · exact r3
        · exact l4
        · exact r5
        · simp only; omega
        · exact r7
        · intro hp; simp at hp
        · intro _ hf; exact r9 hrs hf
        · intro _ hf hd; exact r10 hrs hf hd
        · intro _; simp only; omega
        · simp only [hls, List.nil_append]
          have hp : PartsOk lo (l.next + 1) ([] ++ [(⟨l.next, l.data ++ r.left⟩ : Part α)]) :=
            PartsOk.snoc (PartsOk.nil lo l.next) _ l6
          have hmid : l.next + 1 ≤ mid := by omega
          exact PartsOk.append (hp.mono (le_refl _) hmid) r12 (by omega) hmidr
        · intro p hp
          simp only [hls, List.nil_append, List.cons_append, List.mem_cons] at hp
          rcases hp with hp | hp
          · subst hp; simp only [List.length_append]; omega
          · exact r13 p hp
    · -- cannot flush: everything moves to left_data
      have hcf' : canFlush W l (l.data ++ r.left).length = false := by simpa using hcf
      simp only [merge, hobs', hrst, flushRhs, hlst, hcf', if_false, if_true,
          Bool.not_true, Bool.false_eq_true, not_true_eq_false]
      refine ⟨_, _, rfl, ?_, by simp [hls]⟩
      constructor
      · simp only [hls, List.nil_append]
        rw [← l1, ← r1, hll, hls]; simp
      · simp only; rw [l2, r2]
      · exact r3
      · exact l4
      · exact r5
      · simp only; omega
      · exact r7
      · intro hp; simp [hls] at hp; exact absurd hp hrs
      · intro _ hf; exact r9 hrs hf
      · intro _ hf hd; exact r10 hrs hf hd
      · intro _; simp only [hll, List.nil_append, List.length_append]; omega
      · simp only [hls, List.nil_append]
        exact r12.mono (by omega) (le_refl _)
      · intro p hp
        simp only [hls, List.nil_append] at hp
        exact r13 p hp
  · -- left started: must flush
    have hlst : l.started = true := (started_eq_true_iff l).2 hls
    obtain ⟨hc1, hd1⟩ := l9 hls l3
    have hcf : canFlush W l (l.data ++ r.left).length = true := by
      simp only [canFlush, hlst, l3, List.length_append, if_true]
      split_ifs with hc
      · omega
      · simp; omega
    have hrange : W.minPart ≤ l.next ∧ l.next ≤ W.maxPart := by omega
    simp only [merge, hobs', hrst, flushRhs, hlst, hcf, flushData, hrange, if_false, if_true,
          Bool.not_true, Bool.false_eq_true, not_true_eq_false, and_self,
          Bool.false_and]
    refine ⟨_, _, rfl, ?_, by simp⟩
    constructor
    · simp only [partsBytes_append, partsBytes_single]
      rw [← l1, ← r1]; simp
    · simp only; rw [l2, r2]
    · exact r3
    · exact l4
    · exact r5
    · simp only; omega
    · exact r7
    · intro hp; simp at hp
    · intro _ hf; exact r9 hrs hf
    · intro _ hf hd; exact r10 hrs hf hd
    · intro _; exact l11 hls
    · have hp := PartsOk.snoc l12 (l.data ++ r.left) l6
      have hmid : l.next + 1 ≤ mid := by omega
      exact PartsOk.append (hp.mono (le_refl _) hmid) r12 (by omega) hmidr
    · intro p hp
      simp only [List.mem_append, List.mem_singleton] at hp
      rcases hp with (hp | hp) | hp
      · exact l13 p hp
      · subst hp; simp only [List.length_append]; omega
      · exact r13 p hp
theorem merge_inv {W : Writer} {l r : Chunk α} {lo mid hi : Nat} {Bl Br : List α}
    {Ol Or : List (Nat × Int)} {fin : Bool}
    (hl : Inv W l lo mid Bl Ol false) (hr : Inv W r mid hi Br Or fin)
    (hminP : W.minPart < lo) (hmax : mid ≤ W.maxPart + 1) (hobs : (Ol ++ Or).length ≠ 0) :
    ∃ m ws, merge (some W) l r = .ok (m, ws) ∧ Inv W m lo hi (Bl ++ Br) (Ol ++ Or) fin ∧
      m.parts = l.parts ++ ws ++ r.parts := by
  obtain ⟨l1, l2, l3, l4, l5, l6, l7, l8, l9, l10, l11, l12, l13⟩ := hl
  obtain ⟨r1, r2, r3, r4, r5, r6, r7, r8, r9, r10, r11, r12, r13⟩ := hr
  have hobs' : ¬ (l.observed ++ r.observed).length = 0 := by rw [l2, r2]; exact hobs
  by_cases hrs : r.parts = []
  · -- right side has not written: concatenate
    have hrst : r.started = false := (started_eq_false_iff r).2 hrs
    obtain ⟨hrl, hrn⟩ := r8 hrs
    simp only [merge, hobs', hrst, hrl, if_false, Bool.not_false, if_true, List.length_nil, ne_eq,
      not_true_eq_false]
    refine ⟨_, _, rfl, ?_, by simp [hrs]⟩
    constructor
    · simp only
      rw [← l1, ← r1, hrl, hrs]; simp
    · simp only; rw [l2, r2]
    · exact r3
    · exact l4
    · simp only; push_cast; omega
    · exact l6
    · simp only; omega
    · exact l8
    · intro hs hf
      simp only [List.length_append]
      have := l9 hs l3; omega
    · intro hs _ _
      simp only
      have := l9 hs l3; omega
    · exact l11
    · exact l12
    · exact l13
  · exact merge_inv_started ⟨l1, l2, l3, l4, l5, l6, l7, l8, l9, l10, l11, l12, l13⟩
      ⟨r1, r2, r3, r4, r5, r6, r7, r8, r9, r10, r11, r12, r13⟩ hminP hmax hobs hrs
def chunksBytes (chunks : List (List α × Int)) : List α := (chunks.map (·.1)).flatten
def chunksObs (chunks : List (List α × Int)) : List (Nat × Int) := chunks.map (fun ch => (ch.1.length, ch.2))

theorem appendStep_inv {W : Writer} {spill : Nat} {c : Chunk α} {ws : List (Part α)} {lo hi : Nat}
    {B : List α} {O : List (Nat × Int)}
    (h : Inv W c lo hi B O false) (hp : c.parts = ws) (ch : List α × Int) :
    ∃ c' ws', appendStep (some W) spill (.ok (c, ws)) ch = .ok (c', ws') ∧
      Inv W c' lo hi (B ++ ch.1) (O ++ [(ch.1.length, ch.2)]) false ∧ c'.parts = ws' := by
  have h1 := append_inv h ch.1 ch.2
  simp only [appendStep]
  by_cases hsp : spill = 0
  · simp only [hsp, if_true]
    exact ⟨_, _, rfl, h1, by simpa [Chunk.append] using hp⟩
  · simp only [hsp, if_false]
    obtain ⟨c2, ws2, e, hi2, hp2⟩ := maybeWrite_inv spill h1
    rw [e]
    refine ⟨_, _, rfl, hi2, ?_⟩
    rw [hp2]; simp [Chunk.append, hp]

theorem foldl_appendStep_inv {W : Writer} {spill : Nat} (chunks : List (List α × Int)) :
    ∀ {c : Chunk α} {ws : List (Part α)} {lo hi : Nat} {B : List α} {O : List (Nat × Int)},
    Inv W c lo hi B O false → c.parts = ws →
    ∃ c' ws', chunks.foldl (appendStep (some W) spill) (.ok (c, ws)) = .ok (c', ws') ∧
      Inv W c' lo hi (B ++ chunksBytes chunks) (O ++ chunksObs chunks) false ∧ c'.parts = ws' := by
  induction chunks with
  | nil =>
    intro c ws lo hi B O h hp
    exact ⟨c, ws, rfl, by simpa [chunksBytes, chunksObs] using h, hp⟩
  | cons ch rest ih =>
    intro c ws lo hi B O h hp
    obtain ⟨c1, ws1, e1, h1, hp1⟩ := appendStep_inv (spill := spill) h hp ch
    simp only [List.foldl_cons, e1]
    obtain ⟨c2, ws2, e2, h2, hp2⟩ := ih h1 hp1
    refine ⟨c2, ws2, e2, ?_, hp2⟩
    simpa [chunksBytes, chunksObs, List.append_assoc] using h2

theorem mkChunk_inv (W : Writer) (lo : Nat) (wpc : Nat) (fin : Bool) :
    Inv W ({ (mkChunk lo wpc fin W.minWrite : Chunk α) with isFinal := false }) lo (lo + wpc) [] [] false := by
  constructor <;> simp [mkChunk, PartsOk]

theorem setFinal_inv {W : Writer} {c : Chunk α} {lo hi : Nat} {B : List α} {O : List (Nat × Int)}
    (h : Inv W c lo hi B O false) (fin : Bool) :
    Inv W { c with isFinal := fin } lo hi B O fin := by
  obtain ⟨h1, h2, h3, h4, h5, h6, h7, h8, h9, h10, h11, h12, h13⟩ := h
  refine ⟨h1, h2, rfl, h4, h5, h6, h7, h8, ?_, ?_, h11, h12, h13⟩
  · intro hs _; exact h9 hs h3
  · intro hs _ _; exact (h9 hs h3).1

theorem appendChunksOp_inv (W : Writer) (spill lo wpc : Nat) (fin : Bool) (chunks : List (List α × Int)) :
    ∃ c ws, appendChunksOp (some W) spill (mkChunk lo wpc fin W.minWrite : Chunk α) chunks = .ok (c, ws) ∧
      Inv W c lo (lo + wpc) (chunksBytes chunks) (chunksObs chunks) fin ∧ c.parts = ws := by
  obtain ⟨c', ws', e, h, hp⟩ := foldl_appendStep_inv (spill := spill) chunks (mkChunk_inv (α := α) W lo wpc fin)
    (by simp [mkChunk] : ({ (mkChunk lo wpc fin W.minWrite : Chunk α) with isFinal := false }).parts = [])
  simp only [appendChunksOp, e]
  refine ⟨_, _, rfl, ?_, hp⟩
  have := setFinal_inv h fin
  simpa [mkChunk] using this
/-- every partition holds at least one chunk (the property's quantifier) -/
def Tree.NonEmpty : Tree α → Prop
  | .leaf chunks => chunks ≠ []
  | .node l r => l.NonEmpty ∧ r.NonEmpty

theorem Tree.leaves_pos (t : Tree α) : 1 ≤ t.leaves := by
  induction t with
  | leaf _ => simp [Tree.leaves]
  | node l r ihl ihr => simp only [Tree.leaves]; omega

theorem Tree.obs_ne_nil (t : Tree α) (h : t.NonEmpty) : t.obs.length ≠ 0 := by
  induction t with
  | leaf chunks => simp only [Tree.obs, List.length_map]; cases chunks <;> simp_all [Tree.NonEmpty]
  | node l r ihl ihr => simp only [Tree.obs, List.length_append]; have := ihl h.1; omega

theorem perm4 {β : Type} (a b c d : List β) : List.Perm (a ++ b ++ (c ++ d)) (a ++ c ++ b ++ d) := by
  simp only [List.append_assoc]
  apply List.Perm.append_left
  rw [← List.append_assoc, ← List.append_assoc]
  apply List.Perm.append_right
  exact List.perm_append_comm

theorem base_mono (cfg : Cfg) {i j : Nat} (h : i ≤ j) : cfg.base i ≤ cfg.base j := by
  simp only [Cfg.base]
  have := Nat.mul_le_mul_right cfg.wpc h
  omega

theorem mergeAndSpill_inv {W : Writer} {spill : Nat} {l r : Chunk α} {lo mid hi : Nat} {Bl Br : List α}
    {Ol Or : List (Nat × Int)} {fin : Bool}
    (hl : Inv W l lo mid Bl Ol false) (hr : Inv W r mid hi Br Or fin)
    (hminP : W.minPart < lo) (hmax : mid ≤ W.maxPart + 1) (hobs : (Ol ++ Or).length ≠ 0) :
    ∃ m wm ws', mergeAndSpill (some W) spill l r = .ok (m, wm ++ ws') ∧
      Inv W m lo hi (Bl ++ Br) (Ol ++ Or) fin ∧ m.parts = l.parts ++ wm ++ r.parts ++ ws' := by
  obtain ⟨m, wm, e, hm, hp⟩ := merge_inv hl hr hminP hmax hobs
  simp only [mergeAndSpill, e]
  by_cases hsp : spill = 0
  · simp only [hsp, if_true]
    exact ⟨m, wm, [], by simp, hm, by simp [hp]⟩
  · simp only [hsp, if_false]
    obtain ⟨m', ws', e', hm', hp'⟩ := maybeWrite_inv spill hm
    rw [e']
    exact ⟨m', wm, ws', rfl, hm', by rw [hp', hp]⟩

theorem eval_inv (W : Writer) (spill wpc : Nat) (markFinal : Bool) (total : Nat)
    (hcap : (⟨some W, spill, wpc, markFinal⟩ : Cfg).base total ≤ W.maxPart + 1) (t : Tree α) :
    ∀ idx, idx + t.leaves ≤ total → t.NonEmpty →
    ∃ c ws, eval ⟨some W, spill, wpc, markFinal⟩ total t idx = .ok (c, ws) ∧
      Inv W c ((⟨some W, spill, wpc, markFinal⟩ : Cfg).base idx)
        ((⟨some W, spill, wpc, markFinal⟩ : Cfg).base (idx + t.leaves)) t.bytes t.obs
        (markFinal && decide (idx + t.leaves = total)) ∧ List.Perm ws c.parts := by
  induction t with
  | leaf chunks =>
    intro idx hle hne
    obtain ⟨c, ws, e, h, hp⟩ := appendChunksOp_inv (α := α) W spill
      ((⟨some W, spill, wpc, markFinal⟩ : Cfg).base idx) wpc (markFinal && decide (idx + 1 = total)) chunks
    refine ⟨c, ws, ?_, ?_, by rw [hp]⟩
    · simpa [eval, Cfg.lhsKeep] using e
    · have hb : (⟨some W, spill, wpc, markFinal⟩ : Cfg).base idx + wpc
          = (⟨some W, spill, wpc, markFinal⟩ : Cfg).base (idx + 1) := by
        simp only [Cfg.base, Nat.add_mul]; omega
      rw [hb] at h; exact h
  | node l r ihl ihr =>
    intro idx hle hne
    simp only [Tree.leaves] at hle
    have hlp := l.leaves_pos
    have hrp := r.leaves_pos
    obtain ⟨cl, wl, el, hl, pl⟩ := ihl idx (by omega) hne.1
    obtain ⟨cr, wr, er, hr, pr⟩ := ihr (idx + l.leaves) (by omega) hne.2
    have hfl : (markFinal && decide (idx + l.leaves = total)) = false := by
      have : ¬ (idx + l.leaves = total) := by omega
      simp [this]
    rw [hfl] at hl
    have hminP : W.minPart < (⟨some W, spill, wpc, markFinal⟩ : Cfg).base idx := by
      simp only [Cfg.base, Cfg.minPart]; omega
    have hmax : (⟨some W, spill, wpc, markFinal⟩ : Cfg).base (idx + l.leaves) ≤ W.maxPart + 1 :=
      le_trans (base_mono _ (by omega)) hcap
    have hobs : (l.obs ++ r.obs).length ≠ 0 := by
      have := l.obs_ne_nil hne.1
      simp only [List.length_append]; omega
    obtain ⟨m, wm, ws', e, hm, hp⟩ := mergeAndSpill_inv (spill := spill) hl hr hminP hmax hobs
    refine ⟨m, wl ++ wr ++ (wm ++ ws'), ?_, ?_, ?_⟩
    · simp only [eval, el, er, e]
    · rw [Nat.add_assoc] at hm; exact hm
    · rw [hp]
      refine List.Perm.trans ?_ (perm4 cl.parts cr.parts wm ws')
      exact List.Perm.append (List.Perm.append pl pr) (List.Perm.refl _)
/-- what the final `flush` guarantees, from raw facts about the root chunk -/
structure FlushOk (W : Writer) (c : Chunk α) (ws fp : List (Part α)) : Prop where
  bytes : partsBytes fp = c.left ++ partsBytes c.parts ++ c.data
  incr : fp.Pairwise (fun a b => a.id < b.id)
  range : ∀ p ∈ fp, W.minPart ≤ p.id ∧ p.id ≤ W.maxPart
  sizes : ∀ p ∈ fp.dropLast, W.minWrite ≤ p.data.length
  perm : List.Perm (c.parts ++ ws) fp

theorem flushRhs_final_started {W : Writer} (c : Chunk α) (hs : c.parts ≠ []) (hf : c.isFinal = true)
    (hc : 1 ≤ c.credits) (hr : W.minPart ≤ c.next ∧ c.next ≤ W.maxPart) :
    flushRhs (some W) c [] =
      .ok ({ c with parts := c.parts ++ [⟨c.next, c.data⟩], data := [], next := c.next + 1,
                    credits := c.credits - 1 }, [⟨c.next, c.data⟩]) := by
  have hst : c.started = true := (started_eq_true_iff c).2 hs
  have hcf : canFlush W c c.data.length = true := by
    have : ¬ c.credits < 1 := by omega
    simp [canFlush, hst, hf, this]
  simp only [flushRhs, hst, hcf, flushData, hr, if_true, and_self, not_true_eq_false, if_false,
    Bool.not_true, Bool.false_and, Bool.false_eq_true, List.append_nil]

theorem flush_spec {W : Writer} {c : Chunk α} {lo : Nat}
    (h0 : c.parts = [] → c.left = [])
    (hl : c.parts ≠ [] → W.minWrite ≤ c.left.length)
    (hc : c.parts ≠ [] → c.data ≠ [] → 1 ≤ c.credits ∧ (c.next : Int) + c.credits ≤ W.maxPart + 1)
    (hnext : c.parts ≠ [] → c.next ≤ W.maxPart + 1)
    (hids : PartsOk lo c.next c.parts) (hlo : W.minPart < lo)
    (hsz : ∀ p ∈ c.parts, W.minWrite ≤ p.data.length) (hmm : W.minPart ≤ W.maxPart) :
    ∃ ws fp, flush W c (some W.minPart) = .ok (ws, fp) ∧ FlushOk W c ws fp := by
  by_cases hs : c.parts = []
  · have hst : c.started = false := (started_eq_false_iff c).2 hs
    have hleft := h0 hs
    simp only [flush, hst, hleft, Bool.not_false, if_true, List.length_nil, ne_eq, not_true_eq_false, if_false]
    refine ⟨_, _, rfl, ?_⟩
    constructor
    · simp [hs, hleft]
    · simp [hs]
    · intro p hp; simp [hs] at hp; subst hp; simp; exact hmm
    · simp [hs]
    · simp [hs]
  · have hst : c.started = true := (started_eq_true_iff c).2 hs
    have hleft := hl hs
    have hnx := hnext hs
    -- lo < c.next because there is a part
    have hlon : lo < c.next := by
      obtain ⟨p, hp⟩ := List.exists_mem_of_ne_nil _ hs
      have := hids.2 p hp; omega
    have hidle : ∀ p ∈ c.parts, W.minPart ≤ p.id ∧ p.id ≤ W.maxPart := by
      intro p hp; have := hids.2 p hp; omega
    by_cases hd : c.data = []
    · -- nothing left to flush on the right
      by_cases hlf : c.left = []
      · simp only [flush, hst, hd, hlf, Bool.not_true, Bool.false_eq_true, if_false, List.length_nil, ne_eq,
          not_true_eq_false]
        refine ⟨_, _, rfl, ?_⟩
        constructor
        · simp [hd, hlf]
        · exact hids.1
        · exact hidle
        · intro p hp; exact hsz p (List.dropLast_subset _ hp)
        · simp
      · have hlen : ¬ c.left.length = 0 := by simpa using hlf
        have hlt : ¬ c.left.length < W.minWrite := by omega
        simp only [flush, hst, hd, hlen, hlt, Bool.not_true, Bool.false_eq_true, if_false, List.length_nil, ne_eq,
          not_true_eq_false, not_false_eq_true, if_true]
        refine ⟨_, _, rfl, ?_⟩
        constructor
        · simp [hd]
        · rw [List.pairwise_cons]
          refine ⟨?_, hids.1⟩
          intro p hp; have := hids.2 p hp; simp only; omega
        · intro p hp
          rcases List.mem_cons.mp hp with rfl | hp
          · simp; exact hmm
          · exact hidle p hp
        · intro p hp
          rcases List.mem_cons.mp (List.dropLast_subset _ hp) with h | hp
          · rw [h]; exact hleft
          · exact hsz p hp
        · simpa using (List.perm_append_singleton _ _)
    · obtain ⟨hc1, hc2⟩ := hc hs hd
      have hdl : ¬ c.data.length = 0 := by simpa using hd
      have hrange : W.minPart ≤ c.next ∧ c.next ≤ W.maxPart := by omega
      have hfr := flushRhs_final_started (W := W) ({ c with isFinal := true } : Chunk α) hs rfl hc1 hrange
      by_cases hlf : c.left = []
      · have hlen : c.left.length = 0 := by simp [hlf]
        simp only [flush, hst, hdl, hfr, hlen, Bool.not_true, Bool.false_eq_true,
          if_false, if_true, ne_eq, not_true_eq_false, not_false_eq_true]
        refine ⟨_, _, rfl, ?_⟩
        constructor
        · simp [hlf]
        · exact (PartsOk.snoc hids c.data (by omega)).1
        · intro p hp
          rcases List.mem_append.mp hp with hp | hp
          · exact hidle p hp
          · simp at hp; subst hp; exact hrange
        · intro p hp
          rw [List.dropLast_concat] at hp
          exact hsz p hp
        · simp
      · have hlen : ¬ c.left.length = 0 := by simpa using hlf
        have hlt : ¬ c.left.length < W.minWrite := by omega
        simp only [flush, hst, hdl, hfr, hlen, hlt, Bool.not_true,
          Bool.false_eq_true, if_false, if_true, ne_eq, not_true_eq_false, not_false_eq_true]
        refine ⟨_, _, rfl, ?_⟩
        constructor
        · simp
        · rw [List.pairwise_cons]
          refine ⟨?_, (PartsOk.snoc hids c.data (by omega)).1⟩
          intro p hp
          rcases List.mem_append.mp hp with hp | hp
          · have := hids.2 p hp; simp only; omega
          · simp at hp; subst hp; simp only; omega
        · intro p hp
          rcases List.mem_cons.mp hp with rfl | hp
          · simp; exact hmm
          · rcases List.mem_append.mp hp with hp | hp
            · exact hidle p hp
            · simp at hp; subst hp; exact hrange
        · intro p hp
          rw [← List.cons_append, List.dropLast_concat] at hp
          rcases List.mem_cons.mp hp with rfl | hp
          · exact hleft
          · exact hsz p hp
        · have := List.perm_append_singleton (⟨W.minPart, c.left⟩ : Part α) (c.parts ++ [⟨c.next, c.data⟩])
          simpa using this
/-- the header stage of `_finalizer_dask_op` -/
def addHeader (root1 : Chunk α) (hdr : Option (List α)) : Res (Chunk α × List (Part α)) :=
  match hdr with
  | some h =>
    if h.length ≠ 0 then merge none ((mkChunk 1 1 false 0 : Chunk α).append h (-1)) root1
    else .ok (root1, [])
  | none => .ok (root1, [])

/-- the footer stage of `_finalizer_dask_op` -/
def addFooter (root : Chunk α) (ftr : Option (List α)) : Chunk α :=
  match ftr with
  | some f => if f.length ≠ 0 then root.append f (-1) else root
  | none => root

def optBytes : Option (List α) → List α
  | none => []
  | some b => b

theorem finalizer_eq (w : Option Writer) (root : Chunk α) (hdr ftr : Option (List α)) :
    finalizer w root hdr ftr =
      match addHeader (addFooter root ftr) hdr with
      | .error e => .error e
      | .ok (root2, w0) =>
        match w with
        | none => .ok (.chunk root2, w0)
        | some W =>
          match flush W root2 (some W.minPart) with
          | .error e => .error e
          | .ok (ws, fin) => .ok (.written ws fin, w0 ++ ws) := by
  unfold finalizer addHeader addFooter
  cases hdr <;> cases ftr <;> rfl

theorem addFooter_inv {W : Writer} {root : Chunk α} {lo hi : Nat} {B : List α} {O : List (Nat × Int)}
    {fin : Bool} (h : Inv W root lo hi B O fin) (ftr : Option (List α)) (hf : ftr ≠ none → fin = false) :
    ∃ O', Inv W (addFooter root ftr) lo hi (B ++ optBytes ftr) O' fin := by
  cases ftr with
  | none => exact ⟨O, by simpa [addFooter, optBytes] using h⟩
  | some f =>
    have hfin : fin = false := hf (by simp)
    subst hfin
    by_cases hl : f.length = 0
    · have : f = [] := List.length_eq_zero_iff.mp hl
      subst this
      exact ⟨O, by simpa [addFooter, optBytes] using h⟩
    · exact ⟨_, by simpa [addFooter, optBytes, hl] using append_inv h f (-1)⟩

theorem addHeader_spec {W : Writer} {root1 : Chunk α} {lo hi : Nat} {B1 : List α} {O1 : List (Nat × Int)}
    {fin : Bool} (h : Inv W root1 lo hi B1 O1 fin) (hhi : hi ≤ W.maxPart + 1) (hdr : Option (List α)) :
    ∃ root2, addHeader root1 hdr = .ok (root2, []) ∧
      root2.left ++ partsBytes root2.parts ++ root2.data = optBytes hdr ++ B1 ∧
      root2.parts = root1.parts ∧
      (root2.parts = [] → root2.left = []) ∧
      (root2.parts ≠ [] → W.minWrite ≤ root2.left.length) ∧
      (root2.parts ≠ [] → root2.data ≠ [] → 1 ≤ root2.credits ∧ (root2.next : Int) + root2.credits ≤ W.maxPart + 1) ∧
      (root2.parts ≠ [] → root2.next ≤ W.maxPart + 1) ∧
      PartsOk lo root2.next root2.parts := by
  obtain ⟨h1, h2, h3, h4, h5, h6, h7, h8, h9, h10, h11, h12, h13⟩ := h
  have hcred : root1.parts ≠ [] → root1.data ≠ [] → 1 ≤ root1.credits := by
    intro hs hd
    cases hf : root1.isFinal
    · exact (h9 hs hf).1
    · exact h10 hs hf hd
  have base : ∃ root2, (Except.ok (root1, []) : Res (Chunk α × List (Part α))) = .ok (root2, []) ∧
      root2.left ++ partsBytes root2.parts ++ root2.data = B1 ∧
      root2.parts = root1.parts ∧
      (root2.parts = [] → root2.left = []) ∧
      (root2.parts ≠ [] → W.minWrite ≤ root2.left.length) ∧
      (root2.parts ≠ [] → root2.data ≠ [] → 1 ≤ root2.credits ∧ (root2.next : Int) + root2.credits ≤ W.maxPart + 1) ∧
      (root2.parts ≠ [] → root2.next ≤ W.maxPart + 1) ∧
      PartsOk lo root2.next root2.parts :=
    ⟨root1, rfl, h1, rfl, fun hs => (h8 hs).1, h11, fun hs hd => ⟨hcred hs hd, by omega⟩, fun _ => by omega, h12⟩
  cases hdr with
  | none => simpa [addHeader, optBytes] using base
  | some hb =>
    by_cases hl : hb.length = 0
    · have : hb = [] := List.length_eq_zero_iff.mp hl
      subst this
      simpa [addHeader, optBytes] using base
    · by_cases hs : root1.parts = []
      · have hst : root1.started = false := (started_eq_false_iff root1).2 hs
        obtain ⟨hleft, _⟩ := h8 hs
        have hlen : ¬ ((([] : List (Nat × Int)) ++ [(hb.length, (-1 : Int))]) ++ root1.observed).length = 0 := by
          simp
        refine ⟨{ next := 1, credits := 1 + root1.credits, data := [] ++ hb ++ root1.data, left := [],
                  parts := [], observed := [] ++ [(hb.length, -1)] ++ root1.observed,
                  isFinal := root1.isFinal, lhsKeep := 0 }, ?_, ?_⟩
        · simp only [addHeader, hl, merge, Chunk.append, mkChunk, hst, hleft, hlen, ne_eq, not_false_eq_true,
            if_true, List.length_nil, Bool.not_false, not_true_eq_false, if_false]
        · refine ⟨?_, by simp [hs], fun _ => rfl, fun h => absurd rfl h, fun h => absurd rfl h,
            fun h => absurd rfl h, ?_⟩
          · simp only [optBytes, partsBytes_nil, List.nil_append, List.append_nil]
            rw [← h1, hleft, hs]; simp
          · exact PartsOk.nil _ _
      · have hst : root1.started = true := (started_eq_true_iff root1).2 hs
        have hlen : ¬ ((([] : List (Nat × Int)) ++ [(hb.length, (-1 : Int))]) ++ root1.observed).length = 0 := by
          simp
        refine ⟨{ next := root1.next, credits := root1.credits, data := root1.data,
                  left := [] ++ ([] ++ hb ++ root1.left), parts := [] ++ root1.parts,
                  observed := [] ++ [(hb.length, -1)] ++ root1.observed,
                  isFinal := root1.isFinal, lhsKeep := 0 }, ?_, ?_⟩
        · have hise : root1.parts.isEmpty = false := by
            cases hp : root1.parts with
            | nil => exact absurd hp hs
            | cons _ _ => rfl
          simp only [addHeader, hl, merge, Chunk.append, mkChunk, hlen, flushRhs, Chunk.started, hise, ne_eq,
            not_false_eq_true, if_true, List.length_nil,
            Bool.not_true, Bool.false_eq_true, if_false, List.isEmpty_nil, Bool.not_false]
        · refine ⟨?_, by simp, fun h => absurd (by simpa using h) hs, ?_, ?_, ?_, ?_⟩
          · simp only [optBytes, List.nil_append]
            rw [← h1]; simp
          · intro _; simp only [List.nil_append, List.length_append]; have := h11 hs; omega
          · intro _ hd; exact ⟨hcred hs hd, by dsimp only; omega⟩
          · intro _; dsimp only; omega
          · simpa using h12
theorem addFooter_parts (root : Chunk α) (ftr : Option (List α)) :
    (addFooter root ftr).parts = root.parts := by
  unfold addFooter
  cases ftr with
  | none => rfl
  | some f => by_cases h : f.length = 0 <;> simp [h, Chunk.append]

/-- invariant without a writer: nothing is ever written, everything stays in `data` -/
def NInv (c : Chunk α) (B : List α) (O : List (Nat × Int)) : Prop :=
  c.parts = [] ∧ c.left = [] ∧ c.data = B ∧ c.observed = O

theorem foldl_appendStep_none (spill : Nat) (chunks : List (List α × Int)) :
    ∀ {c : Chunk α} {B : List α} {O : List (Nat × Int)}, NInv c B O →
    ∃ c', chunks.foldl (appendStep none spill) (.ok (c, [])) = .ok (c', []) ∧
      NInv c' (B ++ chunksBytes chunks) (O ++ chunksObs chunks) ∧ c'.isFinal = c.isFinal := by
  induction chunks with
  | nil => intro c B O h; exact ⟨c, rfl, by simpa [chunksBytes, chunksObs] using h, rfl⟩
  | cons ch rest ih =>
    intro c B O h
    obtain ⟨h1, h2, h3, h4⟩ := h
    have h' : NInv (c.append ch.1 ch.2) (B ++ ch.1) (O ++ [(ch.1.length, ch.2)]) := by
      simp [NInv, Chunk.append, h1, h2, h3, h4]
    obtain ⟨c', e, hc', hf⟩ := ih h'
    refine ⟨c', ?_, ?_, ?_⟩
    · simpa [List.foldl_cons, appendStep] using e
    · simpa [chunksBytes, chunksObs, List.append_assoc] using hc'
    · simpa [Chunk.append] using hf

theorem eval_none (spill wpc : Nat) (markFinal : Bool) (total : Nat) (t : Tree α) :
    ∀ idx, t.NonEmpty →
    ∃ c, eval ⟨none, spill, wpc, markFinal⟩ total t idx = .ok (c, []) ∧ NInv c t.bytes t.obs := by
  induction t with
  | leaf chunks =>
    intro idx hne
    obtain ⟨c', e, h, _⟩ := foldl_appendStep_none (α := α) spill chunks
      (c := { (mkChunk ((⟨none, spill, wpc, markFinal⟩ : Cfg).base idx) wpc
                (markFinal && decide (idx + 1 = total)) 0 : Chunk α) with isFinal := false })
      (B := []) (O := []) (by simp [NInv, mkChunk])
    refine ⟨{ c' with isFinal := (markFinal && decide (idx + 1 = total)) }, ?_, ?_⟩
    · simp only [mkChunk] at e
      simp only [eval, appendChunksOp, Cfg.lhsKeep, mkChunk, e]
    · simpa [NInv, Tree.bytes, Tree.obs, chunksBytes, chunksObs] using h
  | node l r ihl ihr =>
    intro idx hne
    obtain ⟨cl, el, hl1, hl2, hl3, hl4⟩ := ihl idx hne.1
    obtain ⟨cr, er, hr1, hr2, hr3, hr4⟩ := ihr (idx + l.leaves) hne.2
    have hobs : ¬ (cl.observed ++ cr.observed).length = 0 := by
      rw [hl4, hr4]
      have := l.obs_ne_nil hne.1
      simp only [List.length_append]; omega
    have hrst : cr.started = false := (started_eq_false_iff cr).2 hr1
    refine ⟨{ next := cl.next, credits := cl.credits + cr.credits, data := cl.data ++ cr.data,
              left := cl.left, parts := cl.parts, observed := cl.observed ++ cr.observed,
              isFinal := cr.isFinal, lhsKeep := cl.lhsKeep }, ?_, ?_⟩
    · simp only [eval, el, er, mergeAndSpill, merge, hobs, hrst, hr2, if_false, Bool.not_false, if_true,
        List.length_nil, ne_eq, not_true_eq_false, List.append_nil]
    · simp [NInv, hl1, hl2, hl3, hl4, hr3, hr4, Tree.bytes, Tree.obs]

theorem rel_ofTree (cfg : Cfg) (total : Nat) (t : Tree α) : ∀ idx, Rel cfg total (Run.ofTree t idx) t idx [] := by
  induction t with
  | leaf chunks => intro idx; exact Rel.leafTodo idx chunks
  | node l r ihl ihr =>
    intro idx
    have := Rel.nodeTodo _ _ _ _ idx _ _ (ihl idx) (ihr (idx + l.leaves))
    simpa [Run.ofTree] using this

/-- one step preserves the relation; the log grows by exactly the new writes (up to order) -/
theorem step_rel (cfg : Cfg) (total : Nat) {r r' : Run α} {log log' : List (Part α)}
    (h : Step cfg total (r, log) (r', log')) :
    ∀ {t : Tree α} {idx : Nat} {ws : List (Part α)}, Rel cfg total r t idx ws →
      ∃ ws' new, Rel cfg total r' t idx ws' ∧ log' = log ++ new ∧ List.Perm ws' (ws ++ new) := by
  generalize hs : (r, log) = s at h
  generalize hs' : (r', log') = s' at h
  induction h generalizing r r' log log' with
  | leaf idx chunks c ws0 lg he =>
    obtain ⟨rfl, rfl⟩ := Prod.mk.inj hs
    obtain ⟨rfl, rfl⟩ := Prod.mk.inj hs'
    intro t idx' ws hrel
    cases hrel with
    | leafTodo _ _ =>
      refine ⟨ws0, ws0, Rel.done c _ _ ws0 ws0 (by simpa [eval] using he) (List.Perm.refl _), rfl, by simp⟩
  | node cl cr m wm lg he =>
    obtain ⟨rfl, rfl⟩ := Prod.mk.inj hs
    obtain ⟨rfl, rfl⟩ := Prod.mk.inj hs'
    intro t idx' ws hrel
    cases hrel with
    | nodeTodo _ _ tl tr _ wl wr hl hr =>
      cases hl with
      | done _ _ _ wsl _ hel hpl =>
        cases hr with
        | done _ _ _ wsr _ her hpr =>
          refine ⟨wl ++ wr ++ wm, wm, ?_, rfl, List.Perm.refl _⟩
          refine Rel.done m _ _ (wsl ++ wsr ++ wm) _ ?_ ?_
          · simp only [eval, hel, her, he]
          · exact List.Perm.append (List.Perm.append hpl hpr) (List.Perm.refl _)
  | left l l' r0 lg lg' hstep ih =>
    obtain ⟨rfl, rfl⟩ := Prod.mk.inj hs
    obtain ⟨rfl, rfl⟩ := Prod.mk.inj hs'
    intro t idx' ws hrel
    cases hrel with
    | nodeTodo _ _ tl tr _ wl wr hl hr =>
      obtain ⟨wl', new, hl', hlog, hp⟩ := ih rfl rfl hl
      refine ⟨wl' ++ wr, new, Rel.nodeTodo _ _ _ _ _ _ _ hl' hr, hlog, ?_⟩
      -- wl' ++ wr ~ (wl ++ new) ++ wr ~ (wl ++ wr) ++ new
      refine List.Perm.trans (List.Perm.append_right wr hp) ?_
      simp only [List.append_assoc]
      exact List.Perm.append_left wl List.perm_append_comm
  | right l r0 r0' lg lg' hstep ih =>
    obtain ⟨rfl, rfl⟩ := Prod.mk.inj hs
    obtain ⟨rfl, rfl⟩ := Prod.mk.inj hs'
    intro t idx' ws hrel
    cases hrel with
    | nodeTodo _ _ tl tr _ wl wr hl hr =>
      obtain ⟨wr', new, hr', hlog, hp⟩ := ih rfl rfl hr
      refine ⟨wl ++ wr', new, Rel.nodeTodo _ _ _ _ _ _ _ hl hr', hlog, ?_⟩
      refine List.Perm.trans (List.Perm.append_left wl hp) ?_
      simp only [List.append_assoc]
      exact List.Perm.refl _
theorem steps_rel (cfg : Cfg) (total : Nat) {s s' : Run α × List (Part α)}
    (h : Steps cfg total s s') :
    ∀ {t : Tree α} {idx : Nat} {ws : List (Part α)}, Rel cfg total s.1 t idx ws → List.Perm s.2 ws →
      ∃ ws', Rel cfg total s'.1 t idx ws' ∧ List.Perm s'.2 ws' := by
  induction h with
  | refl => intro t idx ws hr hp; exact ⟨ws, hr, hp⟩
  | tail b c hab hbc ih =>
    intro t idx ws hr hp
    obtain ⟨ws1, hr1, hp1⟩ := ih hr hp
    obtain ⟨rb, lb⟩ := b
    obtain ⟨rc, lc⟩ := c
    obtain ⟨ws2, new, hr2, hlog, hp2⟩ := step_rel cfg total hbc hr1
    refine ⟨ws2, hr2, ?_⟩
    simp only at hlog hp1 ⊢
    rw [hlog]
    exact List.Perm.trans (List.Perm.append_right new hp1) hp2.symm

theorem step_todo (cfg : Cfg) (total : Nat) {s s' : Run α × List (Part α)} (h : Step cfg total s s') :
    s'.1.todo + 1 = s.1.todo := by
  induction h with
  | leaf => simp [Run.todo]
  | node => simp [Run.todo]
  | left l l' r log log' _ ih => simp only [Run.todo] at ih ⊢; omega
  | right l r r' log log' _ ih => simp only [Run.todo] at ih ⊢; omega

/-- payloads of all chunks of a tree in stream order -/
def Tree.chunks : Tree α → List (List α)
  | .leaf cs => cs.map (·.1)
  | .node l r => l.chunks ++ r.chunks

theorem Tree.bytes_eq_flatten (t : Tree α) : t.bytes = t.chunks.flatten := by
  induction t with
  | leaf cs => simp [Tree.bytes, Tree.chunks]
  | node l r ihl ihr => simp [Tree.bytes, Tree.chunks, ihl, ihr]

theorem Tree.obs_sizes (t : Tree α) : t.obs.map (·.1) = t.chunks.map List.length := by
  induction t with
  | leaf cs => simp [Tree.obs, Tree.chunks, Function.comp_def]
  | node l r ihl ihr => simp [Tree.obs, Tree.chunks, ihl, ihr]

theorem slice_flatten (H : List α) (cs : List (List α)) (i : Nat) (hi : i < cs.length) :
    ((H ++ cs.flatten).drop (H.length + (cs.take i).flatten.length)).take (cs[i].length) = cs[i] := by
  have hfl : cs.flatten = (cs.take i).flatten ++ (cs[i] ++ (cs.drop (i + 1)).flatten) := by
    have h1 : cs.flatten = (cs.take i).flatten ++ (cs.drop i).flatten := by
      rw [← List.flatten_append, List.take_append_drop]
    have h2 : cs.drop i = cs[i] :: cs.drop (i + 1) := List.drop_eq_getElem_cons hi
    rw [h2, List.flatten_cons] at h1
    exact h1
  have : H ++ cs.flatten = (H ++ (cs.take i).flatten) ++ (cs[i] ++ (cs.drop (i + 1)).flatten) := by
    rw [hfl, List.append_assoc]
  rw [this]
  have hl : (H ++ (cs.take i).flatten).length = H.length + (cs.take i).flatten.length := by simp
  rw [← hl, List.drop_left, List.take_left]
end OdcGeo.C06
