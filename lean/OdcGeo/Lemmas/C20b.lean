/- Helper lemmas for C20, part 2: `snap_scale`, power-of-two alignment. -/
import OdcGeo.Lemmas.C20

namespace OdcGeo.C20

/-! ### `snap_scale` -/

theorem snapScale_cases {s tol r : Rat} (h : snapScale s tol = .ok r) :
    r = s ∨ (∃ k : Int, r = k ∧ |s - k| < tol) ∨
      (∃ k : Int, k ≠ 0 ∧ s ≠ 0 ∧ r = 1 / (k : Rat) ∧ |1 / s - k| < tol) := by
  unfold snapScale at h
  split at h
  · have hr : r = maybeInt s tol := (Except.ok.inj h).symm
    cases hm : maybeInt? s tol with
    | none => left; rw [hr, maybeInt_of_none hm]
    | some k => right; left; exact ⟨k, by rw [hr, maybeInt_of_some hm], (maybeInt?_some hm).2.1⟩
  · split at h
    · left; exact (Except.ok.inj h).symm
    · split at h
      · exact absurd h (by simp)
      · rename_i hs0
        split at h
        · left; exact (Except.ok.inj h).symm
        · rename_i k hk
          split at h
          · exact absurd h (by simp)
          · rename_i hk0
            right; right
            exact ⟨k, hk0, hs0, (Except.ok.inj h).symm, (maybeInt?_some hk).2.1⟩

theorem snapScale_total (s : Rat) {tol : Rat} (ht : 0 < tol) : ∃ r, snapScale s tol = .ok r := by
  unfold snapScale
  split
  · exact ⟨_, rfl⟩
  · rename_i h1
    split
    · exact ⟨_, rfl⟩
    · rename_i h2
      rw [rabs_eq_abs] at h1 h2
      have hs0 : s ≠ 0 := by
        rintro rfl; simp at h2; linarith
      rw [if_neg hs0]
      split
      · exact ⟨_, rfl⟩
      · rename_i k hk
        have hk0 : k ≠ 0 := by
          rintro rfl
          have h3 := (maybeInt?_some hk).2.1
          simp only [Int.cast_zero, sub_zero] at h3
          have habs : 0 < |s| := abs_pos.mpr hs0
          rw [abs_div, abs_one] at h3
          have h4 : |s| < 1 := by linarith
          have h5 : 1 < 1 / |s| := by rw [lt_div_iff₀ habs]; linarith
          linarith
        rw [if_neg hk0]
        exact ⟨_, rfl⟩

theorem maybeInt_intCast (k : Int) {tol : Rat} (ht : 0 < tol) : maybeInt (k : Rat) tol = k :=
  maybeInt_of_some (maybeInt?_intCast k ht)

theorem one_le_abs_intCast {k : Int} (hk : k ≠ 0) : (1 : Rat) ≤ |(k : Rat)| := by
  have : (1 : Int) ≤ |k| := Int.one_le_abs hk
  have : ((1 : Int) : Rat) ≤ ((|k| : Int) : Rat) := by exact_mod_cast this
  simpa using this

/-- `snap_scale` of an integer (positive tolerance) is that integer. -/
theorem snapScale_intCast (k : Int) {tol : Rat} (ht : 0 < tol) : snapScale (k : Rat) tol = .ok (k : Rat) := by
  unfold snapScale
  split
  · rw [maybeInt_intCast k ht]
  · rename_i h1
    rw [rabs_eq_abs] at h1
    split
    · rfl
    · rename_i h2
      rw [rabs_eq_abs] at h2
      exfalso
      by_cases hk : k = 0
      · subst hk; simp at h2; linarith
      · have := one_le_abs_intCast hk
        apply h1; linarith

/-- `snap_scale` of `1/k`, `k` a non-zero integer, `0 < tol < 1/2`, is `1/k`. -/
theorem snapScale_inv_intCast {k : Int} (hk : k ≠ 0) {tol : Rat} (ht : 0 < tol) (ht2 : tol < 1 / 2) :
    snapScale (1 / (k : Rat)) tol = .ok (1 / (k : Rat)) := by
  have hkq : (k : Rat) ≠ 0 := by exact_mod_cast hk
  have hk1 := one_le_abs_intCast hk
  by_cases hone : |k| = 1
  · -- 1/k = k
    have : (1 : Rat) / k = k := by
      rcases (abs_eq (by norm_num : (0 : Int) ≤ 1)).mp hone with h | h <;> rw [h] <;> norm_num
    rw [this]; exact snapScale_intCast k ht
  · have hk2 : (2 : Rat) ≤ |(k : Rat)| := by
      have h1 : (1 : Int) ≤ |k| := Int.one_le_abs hk
      have : (2 : Int) ≤ |k| := by omega
      have : ((2 : Int) : Rat) ≤ ((|k| : Int) : Rat) := by exact_mod_cast this
      simpa using this
    have hsmall : |(1 : Rat) / k| ≤ 1 / 2 := by
      rw [abs_div, abs_one, div_le_div_iff₀ (by linarith) (by norm_num)]; linarith
    unfold snapScale
    rw [rabs_eq_abs, if_neg (by rw [ge_iff_le, not_le]; linarith)]
    split
    · rfl
    · have h0 : (1 : Rat) / k ≠ 0 := by positivity
      rw [if_neg h0]
      have hinv : (1 : Rat) / (1 / (k : Rat)) = k := by field_simp
      rw [hinv, maybeInt?_intCast k ht]
      simp only
      rw [if_neg hk]

theorem snapScale_idem {s tol r : Rat} (h : snapScale s tol = .ok r) : snapScale r tol = .ok r := by
  have h' := h
  unfold snapScale at h
  split at h
  · have hr : r = maybeInt s tol := (Except.ok.inj h).symm
    cases hm : maybeInt? s tol with
    | none =>
      have : r = s := by rw [hr, maybeInt_of_none hm]
      rw [this]; rw [this] at h'; exact h'
    | some k =>
      have hrk : r = k := by rw [hr, maybeInt_of_some hm]
      have ht : 0 < tol := lt_of_le_of_lt (abs_nonneg _) (maybeInt?_some hm).2.1
      rw [hrk]; exact snapScale_intCast k ht
  · rename_i h1
    split at h
    · have : r = s := (Except.ok.inj h).symm
      rw [this]; rw [this] at h'; exact h'
    · rename_i h2
      split at h
      · exact absurd h (by simp)
      · split at h
        · have : r = s := (Except.ok.inj h).symm
          rw [this]; rw [this] at h'; exact h'
        · rename_i k hk
          split at h
          · exact absurd h (by simp)
          · rename_i hk0
            have hr : r = 1 / (k : Rat) := (Except.ok.inj h).symm
            have ht : 0 < tol := lt_of_le_of_lt (abs_nonneg _) (maybeInt?_some hk).2.1
            rw [rabs_eq_abs] at h1 h2
            have ht2 : tol < 1 / 2 := by
              have a1 : |s| < 1 - tol := not_le.mp h1
              have a2 : tol ≤ |s| := not_lt.mp h2
              linarith
            rw [hr]; exact snapScale_inv_intCast hk0 ht ht2

/-! ### power-of-two alignment -/

theorem clog2_spec (x : Nat) (hx : 1 ≤ x) :
    x ≤ 2 ^ clog2 x ∧ ∀ m : Nat, x ≤ 2 ^ m → clog2 x ≤ m := by
  unfold clog2
  split
  · rename_i h
    have : x = 1 := by omega
    subst this
    exact ⟨by simp, fun m _ => Nat.zero_le m⟩
  · rename_i h
    have hne : x - 1 ≠ 0 := by omega
    constructor
    · have := @Nat.lt_log2_self (x - 1)
      omega
    · intro m hm
      have : (x - 1).log2 < m := (Nat.log2_lt hne).mpr (by omega)
      omega

theorem alignUpPow2_eq (x : Int) (hx : 1 ≤ x) : alignUpPow2 x = ((2 ^ clog2 x.toNat : Nat) : Int) := by
  unfold alignUpPow2; rw [if_neg (by omega)]

theorem alignUpPow2_least (x : Int) (hx : 1 ≤ x) :
    ∃ n : Nat, alignUpPow2 x = 2 ^ n ∧ x ≤ 2 ^ n ∧ ∀ m : Nat, x ≤ 2 ^ m → (2 : Int) ^ n ≤ 2 ^ m := by
  obtain ⟨h1, h2⟩ := clog2_spec x.toNat (by omega)
  refine ⟨clog2 x.toNat, ?_, ?_, ?_⟩
  · rw [alignUpPow2_eq x hx]; push_cast; rfl
  · have : ((x.toNat : Nat) : Int) ≤ ((2 ^ clog2 x.toNat : Nat) : Int) := by exact_mod_cast h1
    rw [Int.toNat_of_nonneg (by omega)] at this
    simpa using this
  · intro m hm
    have hm' : x.toNat ≤ 2 ^ m := by
      have : ((x.toNat : Nat) : Int) ≤ ((2 ^ m : Nat) : Int) := by
        rw [Int.toNat_of_nonneg (by omega)]; simpa using hm
      exact_mod_cast this
    have := h2 m hm'
    have : (2 : Nat) ^ clog2 x.toNat ≤ 2 ^ m := Nat.pow_le_pow_right (by norm_num) this
    exact_mod_cast this

theorem alignDownPow2_greatest (x : Int) (hx : 1 ≤ x) :
    ∃ n : Nat, alignDownPow2 x = 2 ^ n ∧ (2 : Int) ^ n ≤ x ∧
      ∀ m : Nat, (2 : Int) ^ m ≤ x → (2 : Int) ^ m ≤ 2 ^ n := by
  obtain ⟨n, hn, hle, hleast⟩ := alignUpPow2_least x hx
  unfold alignDownPow2
  simp only [hn]
  split
  · rename_i hgt
    -- 2^n > x ≥ 1, so n ≥ 1 and 2^(n-1) < x (by leastness)
    have hn0 : n ≠ 0 := by
      rintro rfl; simp at hgt; omega
    obtain ⟨k, rfl⟩ := Nat.exists_eq_succ_of_ne_zero hn0
    have hk : ¬ x ≤ 2 ^ k := by
      intro hxk
      have := hleast k hxk
      have : (2 : Int) ^ k < 2 ^ (k + 1) := by
        rw [pow_succ]; have : (0 : Int) < 2 ^ k := by positivity
        omega
      omega
    refine ⟨k, ?_, by omega, ?_⟩
    · rw [pow_succ]; omega
    · intro m hm
      by_contra hcon
      have hkm : k < m := by
        by_contra h'
        exact hcon (pow_le_pow_right₀ (by norm_num) (by omega))
      have : (2 : Int) ^ (k + 1) ≤ 2 ^ m := pow_le_pow_right₀ (by norm_num) (by omega)
      omega
  · rename_i hgt
    have hxe : x = 2 ^ n := by omega
    refine ⟨n, rfl, by omega, ?_⟩
    intro m hm; rw [← hxe]; exact hm

end OdcGeo.C20
