/- Vocabulary for Props/C14C04.lean. -/
import OdcGeo.Model.C14
import OdcGeo.Model.C04
namespace OdcGeo.C14

/-- a tile GeoBox of this model as the linear GeoBox of the C04 / C12 tiling models -/
def toC04 (gb : GeoBox) : C04.GBox := ⟨gb.ny, gb.nx, gb.aff⟩

end OdcGeo.C14
