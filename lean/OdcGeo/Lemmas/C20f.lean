/-
Helper lemmas for `Props/C20Glue.lean`: the executable least-squares instance `lstsqNormal` (normal equations by
Cramer's rule) returns a minimiser of the squared residual.
-/
import OdcGeo.Model.C20
import Mathlib.Tactic.Ring
import Mathlib.Tactic.Linarith
import Mathlib.Tactic.FieldSimp
import Mathlib.Tactic.Positivity
import Mathlib.Algebra.Order.Field.Rat

namespace OdcGeo.C20

/-- data of one output column: (source point, target value) -/
abbrev ColData := List ((Rat × Rat) × Rat)

def colCost (L : ColData) (a b c : Rat) : Rat :=
  (L.map fun q => (a * q.1.1 + b * q.1.2 + c - q.2) * (a * q.1.1 + b * q.1.2 + c - q.2)).sum

def momX (L : ColData) (a b c : Rat) : Rat := (L.map fun q => q.1.1 * (a * q.1.1 + b * q.1.2 + c - q.2)).sum
def momY (L : ColData) (a b c : Rat) : Rat := (L.map fun q => q.1.2 * (a * q.1.1 + b * q.1.2 + c - q.2)).sum
def mom1 (L : ColData) (a b c : Rat) : Rat := (L.map fun q => (a * q.1.1 + b * q.1.2 + c - q.2)).sum

theorem colCost_expand (L : ColData) (a b c a' b' c' : Rat) :
    colCost L a' b' c' = colCost L a b c +
      (L.map fun q => ((a' - a) * q.1.1 + (b' - b) * q.1.2 + (c' - c)) * ((a' - a) * q.1.1 + (b' - b) * q.1.2 + (c' - c))).sum +
      2 * ((a' - a) * momX L a b c + (b' - b) * momY L a b c + (c' - c) * mom1 L a b c) := by
  induction L with
  | nil => simp [colCost, momX, momY, mom1]
  | cons q qs ih =>
    simp only [colCost, momX, momY, mom1, List.map_cons, List.sum_cons] at ih ⊢
    rw [ih]; ring

theorem sum_sq_nonneg {α : Type} (L : List α) (f : α → Rat) : 0 ≤ (L.map fun q => f q * f q).sum := by
  induction L with
  | nil => simp
  | cons q qs ih => simp only [List.map_cons, List.sum_cons]; nlinarith [mul_self_nonneg (f q)]

/-- A solution of the normal equations minimises the column cost. -/
theorem colCost_min_of_normal (L : ColData) (a b c : Rat) (hx : momX L a b c = 0) (hy : momY L a b c = 0)
    (h1 : mom1 L a b c = 0) (a' b' c' : Rat) : colCost L a b c ≤ colCost L a' b' c' := by
  rw [colCost_expand L a b c a' b' c', hx, hy, h1]
  have := sum_sq_nonneg L (fun q => (a' - a) * q.1.1 + (b' - b) * q.1.2 + (c' - c))
  linarith

/-- the moment sums of `solveNormal`, over the zipped data -/
def Sxx (L : ColData) : Rat := (L.map fun q => q.1.1 * q.1.1).sum
def Sxy (L : ColData) : Rat := (L.map fun q => q.1.1 * q.1.2).sum
def Syy (L : ColData) : Rat := (L.map fun q => q.1.2 * q.1.2).sum
def Sx (L : ColData) : Rat := (L.map fun q => q.1.1).sum
def Sy (L : ColData) : Rat := (L.map fun q => q.1.2).sum
def S1 (L : ColData) : Rat := (L.map fun _ => (1 : Rat)).sum
def Bx (L : ColData) : Rat := (L.map fun q => q.1.1 * q.2).sum
def By (L : ColData) : Rat := (L.map fun q => q.1.2 * q.2).sum
def B1 (L : ColData) : Rat := (L.map fun q => q.2).sum

theorem momX_eq (L : ColData) (a b c : Rat) : momX L a b c = a * Sxx L + b * Sxy L + c * Sx L - Bx L := by
  induction L with
  | nil => simp [momX, Sxx, Sxy, Sx, Bx]
  | cons q qs ih =>
    simp only [momX, Sxx, Sxy, Sx, Bx, List.map_cons, List.sum_cons] at ih ⊢
    rw [ih]; ring

theorem momY_eq (L : ColData) (a b c : Rat) : momY L a b c = a * Sxy L + b * Syy L + c * Sy L - By L := by
  induction L with
  | nil => simp [momY, Sxy, Syy, Sy, By]
  | cons q qs ih =>
    simp only [momY, Sxy, Syy, Sy, By, List.map_cons, List.sum_cons] at ih ⊢
    rw [ih]; ring

theorem mom1_eq (L : ColData) (a b c : Rat) : mom1 L a b c = a * Sx L + b * Sy L + c * S1 L - B1 L := by
  induction L with
  | nil => simp [mom1, Sx, Sy, S1, B1]
  | cons q qs ih =>
    simp only [mom1, Sx, Sy, S1, B1, List.map_cons, List.sum_cons] at ih ⊢
    rw [ih]; ring

/-- Cramer's rule solves the 3×3 normal equations. -/
theorem cramer3 (sxx sxy syy sx sy s1 bx by' b1 : Rat)
    (hD : det3 sxx sxy sx sxy syy sy sx sy s1 ≠ 0) :
    let D := det3 sxx sxy sx sxy syy sy sx sy s1
    let a := det3 bx sxy sx by' syy sy b1 sy s1 / D
    let b := det3 sxx bx sx sxy by' sy sx b1 s1 / D
    let c := det3 sxx sxy bx sxy syy by' sx sy b1 / D
    a * sxx + b * sxy + c * sx - bx = 0 ∧ a * sxy + b * syy + c * sy - by' = 0 ∧
      a * sx + b * sy + c * s1 - b1 = 0 := by
  intro D a b c
  have hD' : D ≠ 0 := hD
  refine ⟨?_, ?_, ?_⟩
  · simp only [a, b, c]
    field_simp
    simp only [D, det3]; ring
  · simp only [a, b, c]
    field_simp
    simp only [D, det3]; ring
  · simp only [a, b, c]
    field_simp
    simp only [D, det3]; ring

/-- zipping and the sums of `solveNormal` -/
theorem zip_sums (X : List (Rat × Rat)) (ys : List Rat) (h : X.length = ys.length) :
    let L : ColData := X.zip ys
    (X.map fun p => p.1 * p.1).sum = Sxx L ∧ (X.map fun p => p.1 * p.2).sum = Sxy L ∧
    (X.map fun p => p.2 * p.2).sum = Syy L ∧ (X.map fun p => p.1).sum = Sx L ∧ (X.map fun p => p.2).sum = Sy L ∧
    ((X.length : Nat) : Rat) = S1 L ∧ ys.sum = B1 L := by
  induction X generalizing ys with
  | nil =>
    cases ys with
    | nil => simp [Sxx, Sxy, Syy, Sx, Sy, S1, B1]
    | cons y ys => simp at h
  | cons p ps ih =>
    cases ys with
    | nil => simp at h
    | cons y ys =>
      have h' : ps.length = ys.length := by simpa using h
      obtain ⟨e1, e2, e3, e4, e5, e6, e7⟩ := ih ys h'
      simp only [Sxx, Sxy, Syy, Sx, Sy, S1, B1, List.zip_cons_cons, List.map_cons, List.sum_cons, List.length_cons] at *
      refine ⟨by rw [e1], by rw [e2], by rw [e3], by rw [e4], by rw [e5], ?_, by rw [e7]⟩
      push_cast
      rw [e6]; ring

/-- `solveNormal` returns a solution of the normal equations of its column. -/
theorem solveNormal_normal (X : List (Rat × Rat)) (ys : List Rat) (h : X.length = ys.length) {a b c : Rat}
    (hs : solveNormal X ys = some (a, b, c)) :
    momX (X.zip ys) a b c = 0 ∧ momY (X.zip ys) a b c = 0 ∧ mom1 (X.zip ys) a b c = 0 := by
  obtain ⟨e1, e2, e3, e4, e5, e6, e7⟩ := zip_sums X ys h
  unfold solveNormal at hs
  simp only [e1, e2, e3, e4, e5, e6, e7] at hs
  have hbx : ((X.zip ys).map fun q => q.1.1 * q.2).sum = Bx (X.zip ys) := rfl
  have hby : ((X.zip ys).map fun q => q.1.2 * q.2).sum = By (X.zip ys) := rfl
  rw [hbx, hby] at hs
  split at hs
  · exact absurd hs (by simp)
  · rename_i hD
    have hs' := Option.some.inj hs
    have ha := (Prod.mk.inj hs').1
    have hb := (Prod.mk.inj (Prod.mk.inj hs').2).1
    have hc := (Prod.mk.inj (Prod.mk.inj hs').2).2
    have := cramer3 (Sxx (X.zip ys)) (Sxy (X.zip ys)) (Syy (X.zip ys)) (Sx (X.zip ys)) (Sy (X.zip ys))
      (S1 (X.zip ys)) (Bx (X.zip ys)) (By (X.zip ys)) (B1 (X.zip ys)) hD
    simp only at this
    rw [ha, hb, hc] at this
    rw [momX_eq, momY_eq, mom1_eq]
    exact this

/-- the residual of an affine map splits into its two output columns -/
theorem sqResidual_split (M : Aff) (X Y : List (Rat × Rat)) :
    sqResidual M (X.zip Y) =
      colCost (X.zip (Y.map (·.1))) M.a M.b M.c + colCost (X.zip (Y.map (·.2))) M.d M.e M.f := by
  induction X generalizing Y with
  | nil => simp [sqResidual, colCost]
  | cons p ps ih =>
    cases Y with
    | nil => simp [sqResidual, colCost]
    | cons y ys =>
      have := ih ys
      simp only [sqResidual, colCost, List.zip_cons_cons, List.map_cons, List.sum_cons, Aff.apply] at this ⊢
      rw [this]; ring

/-- **The executable least-squares instance is a least-squares minimiser.** -/
theorem lstsqNormal_minimiser (X Y : List (Rat × Rat)) (h : X.length = Y.length) {M : Aff}
    (hs : lstsqNormal X Y = some M) (M' : Aff) : sqResidual M (X.zip Y) ≤ sqResidual M' (X.zip Y) := by
  unfold lstsqNormal at hs
  cases h1 : solveNormal X (Y.map (·.1)) with
  | none => rw [h1] at hs; simp [bind, Option.bind] at hs
  | some t1 =>
    cases h2 : solveNormal X (Y.map (·.2)) with
    | none => rw [h1, h2] at hs; simp [bind, Option.bind] at hs
    | some t2 =>
      obtain ⟨a, b, c⟩ := t1
      obtain ⟨d, e, f⟩ := t2
      rw [h1, h2] at hs
      simp only [bind, Option.bind, pure] at hs
      have hM := Option.some.inj hs
      subst hM
      have hl1 : X.length = (Y.map (·.1)).length := by simpa using h
      have hl2 : X.length = (Y.map (·.2)).length := by simpa using h
      obtain ⟨n1, n2, n3⟩ := solveNormal_normal X _ hl1 h1
      obtain ⟨m1, m2, m3⟩ := solveNormal_normal X _ hl2 h2
      rw [sqResidual_split, sqResidual_split]
      have c1 := colCost_min_of_normal _ a b c n1 n2 n3 M'.a M'.b M'.c
      have c2 := colCost_min_of_normal _ d e f m1 m2 m3 M'.d M'.e M'.f
      simp only
      linarith

end OdcGeo.C20
