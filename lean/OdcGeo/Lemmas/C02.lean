/- Helper lemmas for C02 (not counted as obligations). -/
import OdcGeo.Model.C02
import OdcGeo.Lemmas.Affine
import Mathlib.Tactic.Ring
import Mathlib.Tactic.Linarith
import Mathlib.Tactic.LinearCombination
import Mathlib.Tactic.FieldSimp
import Mathlib.Tactic.Positivity
import Mathlib.Algebra.Order.Field.Rat

namespace OdcGeo.Aff

theorem apply_translation (tx ty : Rat) (p : Rat × Rat) :
    (translation tx ty).apply p = (p.1 + tx, p.2 + ty) := by
  simp [apply, translation]

theorem apply_scale (sx sy : Rat) (p : Rat × Rat) :
    (scale sx sy).apply p = (sx * p.1, sy * p.2) := by
  simp [apply, scale]

theorem det_translation (tx ty : Rat) : (translation tx ty).det = 1 := by
  simp [det, translation]

theorem det_scale (sx sy : Rat) : (scale sx sy).det = sx * sy := by
  simp [det, scale]

/-- an affine map commutes with affine (weights summing to one) combinations -/
theorem apply_combo4 (A : Aff) (w0 w1 w2 w3 : Rat) (p0 p1 p2 p3 : Rat × Rat)
    (hw : w0 + w1 + w2 + w3 = 1) :
    A.apply (w0 * p0.1 + w1 * p1.1 + w2 * p2.1 + w3 * p3.1,
             w0 * p0.2 + w1 * p1.2 + w2 * p2.2 + w3 * p3.2) =
      (w0 * (A.apply p0).1 + w1 * (A.apply p1).1 + w2 * (A.apply p2).1 + w3 * (A.apply p3).1,
       w0 * (A.apply p0).2 + w1 * (A.apply p1).2 + w2 * (A.apply p2).2 + w3 * (A.apply p3).2) := by
  simp only [apply]
  ext
  · linear_combination (-A.c) * hw
  · linear_combination (-A.f) * hw

end OdcGeo.Aff

namespace OdcGeo.C02

/-- a linear function on a rectangle is bounded below by its minimum over the corners -/
theorem lin_ge_min4 (a b c X Y x y : Rat) (hx0 : 0 ≤ x) (hx1 : x ≤ X) (hy0 : 0 ≤ y) (hy1 : y ≤ Y) :
    min4 (a * 0 + b * 0 + c) (a * 0 + b * Y + c) (a * X + b * Y + c) (a * X + b * 0 + c)
      ≤ a * x + b * y + c := by
  unfold min4
  rcases le_total 0 a with ha | ha <;> rcases le_total 0 b with hb | hb
  · have h1 : 0 ≤ a * x := mul_nonneg ha hx0
    have h2 : 0 ≤ b * y := mul_nonneg hb hy0
    exact le_trans (min_le_left _ _) (le_trans (min_le_left _ _) (by linarith))
  · have h1 : 0 ≤ a * x := mul_nonneg ha hx0
    have h2 : b * Y ≤ b * y := mul_le_mul_of_nonpos_left hy1 hb
    exact le_trans (min_le_left _ _) (le_trans (min_le_right _ _) (by linarith))
  · have h1 : a * X ≤ a * x := mul_le_mul_of_nonpos_left hx1 ha
    have h2 : 0 ≤ b * y := mul_nonneg hb hy0
    exact le_trans (min_le_right _ _) (le_trans (min_le_right _ _) (by linarith))
  · have h1 : a * X ≤ a * x := mul_le_mul_of_nonpos_left hx1 ha
    have h2 : b * Y ≤ b * y := mul_le_mul_of_nonpos_left hy1 hb
    exact le_trans (min_le_right _ _) (le_trans (min_le_left _ _) (by linarith))

theorem lin_le_max4 (a b c X Y x y : Rat) (hx0 : 0 ≤ x) (hx1 : x ≤ X) (hy0 : 0 ≤ y) (hy1 : y ≤ Y) :
    a * x + b * y + c ≤
      max4 (a * 0 + b * 0 + c) (a * 0 + b * Y + c) (a * X + b * Y + c) (a * X + b * 0 + c) := by
  unfold max4
  rcases le_total 0 a with ha | ha <;> rcases le_total 0 b with hb | hb
  · have h1 : a * x ≤ a * X := mul_le_mul_of_nonneg_left hx1 ha
    have h2 : b * y ≤ b * Y := mul_le_mul_of_nonneg_left hy1 hb
    exact le_trans (by linarith) (le_trans (le_max_left _ _) (le_max_right _ _))
  · have h1 : a * x ≤ a * X := mul_le_mul_of_nonneg_left hx1 ha
    have h2 : b * y ≤ 0 := mul_nonpos_of_nonpos_of_nonneg hb hy0
    exact le_trans (by linarith) (le_trans (le_max_right _ _) (le_max_right _ _))
  · have h1 : a * x ≤ 0 := mul_nonpos_of_nonpos_of_nonneg ha hx0
    have h2 : b * y ≤ b * Y := mul_le_mul_of_nonneg_left hy1 hb
    exact le_trans (by linarith) (le_trans (le_max_right _ _) (le_max_left _ _))
  · have h1 : a * x ≤ 0 := mul_nonpos_of_nonpos_of_nonneg ha hx0
    have h2 : b * y ≤ 0 := mul_nonpos_of_nonpos_of_nonneg hb hy0
    exact le_trans (by linarith) (le_trans (le_max_left _ _) (le_max_left _ _))

theorem min4_mem (a b c d : Rat) : min4 a b c d = a ∨ min4 a b c d = b ∨ min4 a b c d = c ∨ min4 a b c d = d := by
  unfold min4
  rcases min_choice (min a b) (min c d) with h | h <;> rw [h]
  · rcases min_choice a b with h' | h' <;> simp [h']
  · rcases min_choice c d with h' | h' <;> simp [h']

theorem max4_mem (a b c d : Rat) : max4 a b c d = a ∨ max4 a b c d = b ∨ max4 a b c d = c ∨ max4 a b c d = d := by
  unfold max4
  rcases max_choice (max a b) (max c d) with h | h <;> rw [h]
  · rcases max_choice a b with h' | h' <;> simp [h']
  · rcases max_choice c d with h' | h' <;> simp [h']

theorem min4_perm_rev (a b c d : Rat) : min4 d c b a = min4 a b c d := by
  unfold min4; rw [min_comm (min d c), min_comm d c, min_comm b a]
theorem max4_perm_rev (a b c d : Rat) : max4 d c b a = max4 a b c d := by
  unfold max4; rw [max_comm (max d c), max_comm d c, max_comm b a]
theorem min4_perm_swap (a b c d : Rat) : min4 b a d c = min4 a b c d := by
  unfold min4; rw [min_comm b a, min_comm d c]
theorem max4_perm_swap (a b c d : Rat) : max4 b a d c = max4 a b c d := by
  unfold max4; rw [max_comm b a, max_comm d c]

/-- `⌈x⌉ · f ≥ x · f`-type covering fact used by every zoom: `N ≤ ⌈N / f⌉ * f` for `f > 0`. -/
theorem le_ceil_div_mul (N f : Rat) (hf : 0 < f) : N ≤ ((N / f).ceil : Rat) * f := by
  have h : N / f ≤ ((N / f).ceil : Rat) := Rat.le_ceil
  have : N / f * f = N := by field_simp
  calc N = N / f * f := this.symm
    _ ≤ ((N / f).ceil : Rat) * f := by
      exact mul_le_mul_of_nonneg_right h (le_of_lt hf)

theorem ceil_div_mul_lt (N f : Rat) (hf : 0 < f) : ((N / f).ceil : Rat) * f < N + f := by
  have h : ((N / f).ceil : Rat) < N / f + 1 := Rat.ceil_lt
  have e : N / f * f = N := by field_simp
  have : ((N / f).ceil : Rat) * f < (N / f + 1) * f := mul_lt_mul_of_pos_right h hf
  calc ((N / f).ceil : Rat) * f < (N / f + 1) * f := this
    _ = N + f := by rw [add_mul, e, one_mul]

theorem foldl_min_le_init (l : List Rat) (a : Rat) : l.foldl min a ≤ a := by
  induction l generalizing a with
  | nil => exact le_refl _
  | cons x xs ih => exact le_trans (ih (min a x)) (min_le_left _ _)

theorem foldl_min_le_mem (l : List Rat) (a : Rat) (x : Rat) (hx : x ∈ l) : l.foldl min a ≤ x := by
  induction l generalizing a with
  | nil => cases hx
  | cons y ys ih =>
    rcases List.mem_cons.mp hx with rfl | h
    · exact le_trans (foldl_min_le_init ys (min a x)) (min_le_right _ _)
    · exact ih (min a y) h

theorem minL_le (d : Rat) (l : List Rat) (x : Rat) (hx : x ∈ l) : C17.minL d l ≤ x := by
  cases l with
  | nil => cases hx
  | cons y ys =>
    simp only [C17.minL]
    rcases List.mem_cons.mp hx with rfl | h
    · exact foldl_min_le_init ys x
    · exact foldl_min_le_mem ys y x h

theorem init_le_foldl_max (l : List Rat) (a : Rat) : a ≤ l.foldl max a := by
  induction l generalizing a with
  | nil => exact le_refl _
  | cons x xs ih => exact le_trans (le_max_left _ _) (ih (max a x))

theorem mem_le_foldl_max (l : List Rat) (a : Rat) (x : Rat) (hx : x ∈ l) : x ≤ l.foldl max a := by
  induction l generalizing a with
  | nil => cases hx
  | cons y ys ih =>
    rcases List.mem_cons.mp hx with rfl | h
    · exact le_trans (le_max_right _ _) (init_le_foldl_max ys (max a x))
    · exact ih (max a y) h

theorem le_maxL (d : Rat) (l : List Rat) (x : Rat) (hx : x ∈ l) : x ≤ C17.maxL d l := by
  cases l with
  | nil => cases hx
  | cons y ys =>
    simp only [C17.maxL]
    rcases List.mem_cons.mp hx with rfl | h
    · exact init_le_foldl_max ys x
    · exact mem_le_foldl_max ys y x h
theorem floor_intCast' (z : Int) : ((z : Rat)).floor = z := by
  apply le_antisymm
  · have := @Rat.floor_le (z : Rat); exact_mod_cast this
  · rw [Rat.le_floor_iff]

theorem ceil_intCast' (z : Int) : ((z : Rat)).ceil = z := by
  apply le_antisymm
  · rw [Rat.ceil_le_iff]
  · have := @Rat.le_ceil (z : Rat); exact_mod_cast this

theorem aff_ext_of_apply {A B : Aff} (h : ∀ p : Pt, A.apply p = B.apply p) : A = B := by
  have h0 := h (0, 0); have h1 := h (1, 0); have h2 := h (0, 1)
  simp only [Aff.apply, Prod.mk.injEq] at h0 h1 h2
  obtain ⟨a, b, c, d, e, f⟩ := A
  obtain ⟨a', b', c', d', e', f'⟩ := B
  simp only at h0 h1 h2
  simp only [Aff.mk.injEq]
  refine ⟨by linarith [h0.1, h1.1], by linarith [h0.1, h2.1], by linarith [h0.1], by linarith [h0.2, h1.2],
    by linarith [h0.2, h2.2], by linarith [h0.2]⟩

theorem rabs_eq_abs (x : Rat) : rabs x = |x| := by
  unfold rabs
  split
  · rw [abs_of_neg ‹_›]
  · rw [abs_of_nonneg (not_lt.mp ‹_›)]

end OdcGeo.C02
