/- Helper lemmas for C04 (regular tiles: integer arithmetic). -/
import OdcGeo.Model.C04
import OdcGeo.Model.C04Spec
import Mathlib.Tactic.Linarith
import Mathlib.Tactic.Ring
namespace OdcGeo.C04
open OdcGeo OdcGeo.C17 OdcGeo.NpArray

theorem count_spec (N n : Int) (hn : 0 < n) : (count N n - 1) * n < N ∧ N ≤ count N n * n := by
  unfold count ceilDiv
  rw [if_pos hn]
  have h1 := Int.emod_add_mul_ediv (N + n - 1) n
  have h2 := Int.emod_nonneg (N + n - 1) (by omega : n ≠ 0)
  have h3 := Int.emod_lt_of_pos (N + n - 1) hn
  constructor <;> nlinarith

/-- `i * n < N ↔ i < count N n` -/
theorem mul_lt_iff_lt_count (N n i : Int) (hn : 0 < n) : i * n < N ↔ i < count N n := by
  obtain ⟨h1, h2⟩ := count_spec N n hn
  constructor
  · intro h
    by_contra hc
    have : count N n * n ≤ i * n := Int.mul_le_mul_of_nonneg_right (by omega) (by omega)
    omega
  · intro h
    have : i * n ≤ (count N n - 1) * n := Int.mul_le_mul_of_nonneg_right (by omega) (by omega)
    omega

theorem count_nonneg (N n : Int) (hn : 0 < n) (hN : 0 ≤ N) : 0 ≤ count N n := by
  by_contra h
  have := (mul_lt_iff_lt_count N n (-1) hn).1 (by omega)
  omega

theorem count_pos (N n : Int) (hn : 0 < n) (hN : 0 < N) : 0 < count N n := by
  have := (mul_lt_iff_lt_count N n 0 hn).1 (by omega)
  omega

theorem count_le_zero (N n : Int) (hn : 0 < n) (hN : N ≤ 0) : count N n ≤ 0 := by
  by_contra h
  have := (mul_lt_iff_lt_count N n 0 hn).2 (by omega)
  omega

theorem normSlice_idx (T i : Int) :
    normSlice (.idx i) T = ⟨if i < 0 then T + i else i, (if i < 0 then T + i else i) + 1⟩ := rfl

theorem getItem_of_norm (N n : Int) (idx : PIdx) (a b : Int)
    (h : normSlice idx (count N n) = ⟨a, b⟩) :
    getItem N n idx = if 0 ≤ a * n ∧ a * n < N ∧ b * n < N + n then .ok ⟨a * n, min (b * n) N⟩
      else .error .indexError := by
  simp only [getItem, h]

/-- floor division facts used for `locate` -/
theorem ediv_bounds (y n : Int) (hn : 0 < n) : (y / n) * n ≤ y ∧ y < (y / n + 1) * n := by
  have h1 := Int.emod_add_mul_ediv y n
  have h2 := Int.emod_nonneg y (by omega : n ≠ 0)
  have h3 := Int.emod_lt_of_pos y hn
  constructor <;> nlinarith

theorem ediv_unique (y n i : Int) (hn : 0 < n) (h1 : i * n ≤ y) (h2 : y < (i + 1) * n) : i = y / n := by
  obtain ⟨b1, b2⟩ := ediv_bounds y n hn
  by_contra hne
  rcases Int.lt_or_gt_of_ne hne with h | h
  · have : (i + 1) * n ≤ (y / n) * n := Int.mul_le_mul_of_nonneg_right (by omega) (by omega)
    omega
  · have : (y / n + 1) * n ≤ i * n := Int.mul_le_mul_of_nonneg_right (by omega) (by omega)
    omega


/-! ### variable tiles: prefix sums -/

theorem wrap32_id (x : Int) (h : -2147483648 ≤ x ∧ x < 2147483648) : wrap32 x = x := by
  unfold wrap32; omega

theorem total_nonneg (ch : List Int) (h : ∀ c ∈ ch, 0 ≤ c) : 0 ≤ total ch := by
  induction ch with
  | nil => simp [total]
  | cons c cs ih =>
    simp only [total]
    have := h c (by simp)
    have := ih (fun x hx => h x (List.mem_cons_of_mem _ hx))
    omega

theorem pre_nil (k : Nat) : pre [] k = 0 := by cases k <;> rfl

theorem pre_length (ch : List Int) : pre ch ch.length = total ch := by
  induction ch with
  | nil => rfl
  | cons c cs ih => simp only [List.length_cons, pre, total, ih]

theorem pre_ge_length (ch : List Int) (k : Nat) (hk : ch.length ≤ k) : pre ch k = total ch := by
  induction ch generalizing k with
  | nil => rw [pre_nil]; rfl
  | cons c cs ih =>
    cases k with
    | zero => simp at hk
    | succ k => simp only [pre, total]; rw [ih k (by simpa using hk)]

theorem pre_step (ch : List Int) (k : Nat) (c : Int) (hc : ch[k]? = some c) :
    pre ch (k + 1) = pre ch k + c := by
  induction ch generalizing k with
  | nil => simp at hc
  | cons x xs ih =>
    cases k with
    | zero => simp at hc; subst hc; simp [pre]
    | succ k =>
      simp only [List.getElem?_cons_succ] at hc
      simp only [pre]; rw [ih k hc]; omega

theorem pre_mono_step (ch : List Int) (h : ∀ c ∈ ch, 0 ≤ c) (k : Nat) : pre ch k ≤ pre ch (k + 1) := by
  by_cases hk : k < ch.length
  · have hc : ch[k]? = some ch[k] := List.getElem?_eq_getElem hk
    rw [pre_step ch k _ hc]
    have := h ch[k] (List.getElem_mem hk)
    omega
  · rw [pre_ge_length ch k (by omega), pre_ge_length ch (k + 1) (by omega)]

theorem pre_mono (ch : List Int) (h : ∀ c ∈ ch, 0 ≤ c) (i j : Nat) (hij : i ≤ j) :
    pre ch i ≤ pre ch j := by
  induction j with
  | zero => have : i = 0 := by omega
            subst this; exact le_refl _
  | succ j ih =>
    by_cases hi : i = j + 1
    · subst hi; exact le_refl _
    · have := ih (by omega)
      have := pre_mono_step ch h j
      omega

theorem pre_nonneg (ch : List Int) (h : ∀ c ∈ ch, 0 ≤ c) (k : Nat) : 0 ≤ pre ch k := by
  have := pre_mono ch h 0 k (by omega)
  simpa [pre] using this

theorem pre_le_total (ch : List Int) (h : ∀ c ∈ ch, 0 ≤ c) (k : Nat) : pre ch k ≤ total ch := by
  by_cases hk : k ≤ ch.length
  · rw [← pre_length]; exact pre_mono ch h _ _ hk
  · rw [pre_ge_length ch k (by omega)]

/-! ### `cumsum32` under the no-overflow hypothesis -/

theorem cumsum32_length (acc : Int) (ch : List Int) : (cumsum32 acc ch).length = ch.length := by
  induction ch generalizing acc with
  | nil => rfl
  | cons c cs ih => simp only [cumsum32, List.length_cons, ih]

theorem cumsum32_getElem? (acc : Int) (ch : List Int) (h : ∀ c ∈ ch, 0 ≤ c) (ha : 0 ≤ acc)
    (hb : acc + total ch < 2147483648) (k : Nat) (hk : k < ch.length) :
    (cumsum32 acc ch)[k]? = some (acc + pre ch (k + 1)) := by
  induction ch generalizing acc k with
  | nil => simp at hk
  | cons c cs ih =>
    have hc := h c (by simp)
    have hcs : ∀ x ∈ cs, 0 ≤ x := fun x hx => h x (List.mem_cons_of_mem _ hx)
    have ht := total_nonneg cs hcs
    simp only [total] at hb
    have hw : wrap32 (acc + c) = acc + c := wrap32_id _ (by omega)
    simp only [cumsum32, hw]
    cases k with
    | zero => simp [pre]
    | succ k =>
      simp only [List.getElem?_cons_succ]
      rw [ih (acc + c) hcs (by omega) (by omega) k (by simpa using hk)]
      simp only [pre]; congr 1; omega

theorem offsets_length (ch : List Int) : (offsets ch).length = ch.length + 1 := by
  simp [offsets, cumsum32_length]

theorem offsets_getElem? (ch : List Int) (hok : ChunksOK ch) (k : Nat) (hk : k ≤ ch.length) :
    (offsets ch)[k]? = some (pre ch k) := by
  cases k with
  | zero => simp [offsets, pre]
  | succ k =>
    simp only [offsets, List.getElem?_cons_succ]
    rw [cumsum32_getElem? 0 ch hok.1 (le_refl 0) (by have := hok.2; omega) k (by omega)]
    simp

theorem npGet_offsets (ch : List Int) (hok : ChunksOK ch) (k : Nat) (hk : k ≤ ch.length) :
    npGet (offsets ch) (k : Int) = .ok (pre ch k) := by
  simp only [npGet, offsets_length]
  rw [if_neg (by omega), if_neg (by omega)]
  simp only [Int.toNat_natCast, offsets_getElem? ch hok k hk]

theorem lastOr_cumsum32 (acc : Int) (ch : List Int) (h : ∀ c ∈ ch, 0 ≤ c) (ha : 0 ≤ acc)
    (hb : acc + total ch < 2147483648) : lastOr acc (cumsum32 acc ch) = acc + total ch := by
  induction ch generalizing acc with
  | nil => simp [cumsum32, lastOr, total]
  | cons c cs ih =>
    have hc := h c (by simp)
    have hcs : ∀ x ∈ cs, 0 ≤ x := fun x hx => h x (List.mem_cons_of_mem _ hx)
    have ht := total_nonneg cs hcs
    simp only [total] at hb
    have hw : wrap32 (acc + c) = acc + c := wrap32_id _ (by omega)
    simp only [cumsum32, hw, lastOr, total]
    rw [ih (acc + c) hcs (by omega) (by omega)]; omega

theorem vbase_eq_total (ch : List Int) (hok : ChunksOK ch) : vbase ch = total ch := by
  unfold vbase
  rw [lastOr_cumsum32 0 ch hok.1 (le_refl 0) (by have := hok.2; omega)]; omega

theorem vcount_eq (ch : List Int) : vcount ch = ch.length := by
  simp [vcount, offsets_length]

theorem diff32_cumsum32 (acc : Int) (ch : List Int) (h : ∀ c ∈ ch, 0 ≤ c) (ha : 0 ≤ acc)
    (hb : acc + total ch < 2147483648) : diff32 (acc :: cumsum32 acc ch) = ch := by
  induction ch generalizing acc with
  | nil => simp [cumsum32, diff32]
  | cons c cs ih =>
    have hc := h c (by simp)
    have hcs : ∀ x ∈ cs, 0 ≤ x := fun x hx => h x (List.mem_cons_of_mem _ hx)
    have ht := total_nonneg cs hcs
    simp only [total] at hb
    have hw : wrap32 (acc + c) = acc + c := wrap32_id _ (by omega)
    simp only [cumsum32, hw, diff32]
    rw [ih (acc + c) hcs (by omega) (by omega)]
    have : wrap32 (acc + c - acc) = c := by
      have : acc + c - acc = c := by omega
      rw [this]; exact wrap32_id _ (by omega)
    rw [this]

theorem total_eq_sum (ch : List Int) : total ch = ch.sum := by
  induction ch with
  | nil => rfl
  | cons c cs ih => simp [total, ih]

/-! ### numpy's binary search against the linear scan -/

theorem bsearchRight_spec (xs : List Int) (key : Int) (hs : Sorted xs) :
    ∀ fuel lo hi, lo ≤ hi → hi ≤ xs.length → hi - lo < fuel →
      (∀ i v, i < lo → xs[i]? = some v → v ≤ key) →
      (∀ i v, hi ≤ i → xs[i]? = some v → key < v) →
      lo ≤ bsearchRight xs key fuel lo hi ∧ bsearchRight xs key fuel lo hi ≤ hi ∧
      (∀ i v, i < bsearchRight xs key fuel lo hi → xs[i]? = some v → v ≤ key) ∧
      (∀ i v, bsearchRight xs key fuel lo hi ≤ i → xs[i]? = some v → key < v) := by
  intro fuel
  induction fuel with
  | zero => intro lo hi _ _ h; omega
  | succ f ih =>
    intro lo hi hle hlen hf hA hB
    simp only [bsearchRight]
    by_cases hlt : lo < hi
    · rw [if_pos hlt]
      have hmid1 : lo ≤ lo + (hi - lo) / 2 := by omega
      have hmid2 : lo + (hi - lo) / 2 < hi := by omega
      have hm : (lo + (hi - lo) / 2) < xs.length := by omega
      rw [List.getElem?_eq_getElem hm]
      simp only []
      by_cases hk : key < xs[lo + (hi - lo) / 2]
      · rw [if_pos hk]
        obtain ⟨r1, r2, r3, r4⟩ := ih lo (lo + (hi - lo) / 2) hmid1 (by omega) (by omega) hA
          (fun i v hi' hv => by
            have := hs _ _ _ _ hi' (List.getElem?_eq_getElem hm) hv
            omega)
        exact ⟨r1, by omega, r3, r4⟩
      · rw [if_neg hk]
        obtain ⟨r1, r2, r3, r4⟩ := ih (lo + (hi - lo) / 2 + 1) hi (by omega) hlen (by omega)
          (fun i v hi' hv => by
            have := hs _ _ _ _ (by omega : i ≤ lo + (hi - lo) / 2) hv (List.getElem?_eq_getElem hm)
            omega) hB
        exact ⟨by omega, r2, r3, r4⟩
    · rw [if_neg hlt]
      have : lo = hi := by omega
      subst this
      exact ⟨le_refl _, le_refl _, hA, hB⟩

theorem takeWhile_length_spec (p : Int → Bool) (xs : List Int) :
    (∀ i v, i < (xs.takeWhile p).length → xs[i]? = some v → p v = true) ∧
    (∀ v, xs[(xs.takeWhile p).length]? = some v → p v = false) := by
  induction xs with
  | nil => simp
  | cons x t ih =>
    by_cases hp : p x = true
    · rw [List.takeWhile_cons_of_pos hp]
      simp only [List.length_cons]
      constructor
      · intro i v hi hv
        cases i with
        | zero => simp at hv; subst hv; exact hp
        | succ i => simp only [List.getElem?_cons_succ] at hv; exact ih.1 i v (by omega) hv
      · intro v hv
        simp only [List.getElem?_cons_succ] at hv
        exact ih.2 v hv
    · rw [List.takeWhile_cons_of_neg hp]
      simp only [List.length_nil]
      constructor
      · intro i v hi; omega
      · intro v hv
        simp at hv; subst hv; simpa using hp

theorem takeWhile_length_le (p : Int → Bool) (xs : List Int) : (xs.takeWhile p).length ≤ xs.length := by
  induction xs with
  | nil => simp
  | cons x t ih =>
    by_cases hp : p x = true
    · rw [List.takeWhile_cons_of_pos hp]; simp; omega
    · rw [List.takeWhile_cons_of_neg hp]; simp


/-! ### further helpers -/

theorem tileShape_of (N n i : Int) :
    tileShape N n i =
      if 0 ≤ (if i < 0 then count N n + i else i) ∧ (if i < 0 then count N n + i else i) < count N n - 1
      then .ok n
      else if 0 ≤ (if i < 0 then count N n + i else i) ∧ (if i < 0 then count N n + i else i) = count N n - 1
        then .ok (N - (if i < 0 then count N n + i else i) * n)
        else .error .indexError := rfl

theorem sum_replicate (k : Nat) (a : Int) : (List.replicate k a).sum = k * a := by
  induction k with
  | zero => simp
  | succ k ih => simp [List.replicate_succ, ih]; ring

theorem count_eq_of_bounds (N n T : Int) (hn : 0 < n) (h1 : (T - 1) * n < N) (h2 : N ≤ T * n) :
    count N n = T := by
  have a := (mul_lt_iff_lt_count N n (T - 1) hn).1 h1
  have b := (mul_lt_iff_lt_count N n T hn)
  by_contra hne
  have : T < count N n := by omega
  have := b.2 this
  omega

theorem getItem_block (N n : Int) (hn : 0 < n) (idx : PIdx) (a b : Int)
    (hr : normSlice idx (count N n) = ⟨a, b⟩) (hab : 0 ≤ a ∧ a < b ∧ b ≤ count N n) :
    getItem N n idx = .ok ⟨a * n, min (b * n) N⟩ := by
  rw [getItem_of_norm N n idx a b hr]
  have h0 : 0 ≤ a * n := Int.mul_nonneg hab.1 (by omega)
  have h1 := (mul_lt_iff_lt_count N n a hn).2 (by omega)
  have h2 := (mul_lt_iff_lt_count N n (b - 1) hn).2 (by omega)
  have e : (b - 1) * n = b * n - n := by ring
  rw [if_pos ⟨h0, h1, by omega⟩]

theorem minL_le (a : Int) (xs : List Int) : minL a xs ≤ a ∧ ∀ x ∈ xs, minL a xs ≤ x := by
  induction xs generalizing a with
  | nil => simp [minL]
  | cons x xs ih =>
    simp only [minL]
    obtain ⟨h1, h2⟩ := ih (min a x)
    refine ⟨by omega, ?_⟩
    intro z hz
    rcases List.mem_cons.1 hz with rfl | hz
    · omega
    · exact h2 z hz

theorem minL_mem (a : Int) (xs : List Int) : minL a xs ∈ a :: xs := by
  induction xs generalizing a with
  | nil => simp [minL]
  | cons x xs ih =>
    simp only [minL]
    rcases List.mem_cons.1 (ih (min a x)) with h | h
    · by_cases hax : a ≤ x
      · rw [h, Int.min_eq_left hax]; simp
      · rw [h, Int.min_eq_right (by omega)]; simp
    · exact List.mem_cons_of_mem _ (List.mem_cons_of_mem _ h)

theorem le_maxL (a : Int) (xs : List Int) : a ≤ maxL a xs ∧ ∀ x ∈ xs, x ≤ maxL a xs := by
  induction xs generalizing a with
  | nil => simp [maxL]
  | cons x xs ih =>
    simp only [maxL]
    obtain ⟨h1, h2⟩ := ih (max a x)
    refine ⟨by omega, ?_⟩
    intro z hz
    rcases List.mem_cons.1 hz with rfl | hz
    · omega
    · exact h2 z hz

theorem maxL_mem (a : Int) (xs : List Int) : maxL a xs ∈ a :: xs := by
  induction xs generalizing a with
  | nil => simp [maxL]
  | cons x xs ih =>
    simp only [maxL]
    rcases List.mem_cons.1 (ih (max a x)) with h | h
    · by_cases hax : a ≤ x
      · rw [h, Int.max_eq_right hax]; simp
      · rw [h, Int.max_eq_left (by omega)]; simp
    · exact List.mem_cons_of_mem _ (List.mem_cons_of_mem _ h)

theorem clipSel_spec (sel : List Int) (hne : sel ≠ []) :
    ∃ y1 y2, clipSel sel = .ok (y1, y2, sel.map (· - y1)) ∧ y1 ∈ sel ∧ y2 ∈ sel ∧
      ∀ s ∈ sel, y1 ≤ s ∧ s ≤ y2 := by
  cases sel with
  | nil => exact absurd rfl hne
  | cons x xs =>
    refine ⟨minL x xs, maxL x xs, rfl, minL_mem x xs, maxL_mem x xs, ?_⟩
    intro s hs
    rcases List.mem_cons.1 hs with rfl | hs
    · exact ⟨(minL_le _ xs).1, (le_maxL _ xs).1⟩
    · exact ⟨(minL_le x xs).2 s hs, (le_maxL x xs).2 s hs⟩

theorem vgetItem_of_norm (ch : List Int) (idx : PIdx) (a b : Int)
    (h : normSlice idx (vcount ch) = ⟨a, b⟩) :
    vgetItem ch idx = if a < 0 then .error .indexError else
      (npGet (offsets ch) a).bind fun x => (npGet (offsets ch) b).bind fun y => .ok ⟨x, y⟩ := by
  simp only [vgetItem, h, bind, pure, Except.pure]

theorem npGet_inrange (a : List Int) (j : Int) (h : 0 ≤ j ∧ j < a.length) :
    ∃ v, npGet a j = .ok v ∧ a[j.toNat]? = some v := by
  simp only [npGet]
  rw [if_neg (by omega), if_neg (by omega)]
  have hj : j.toNat < a.length := by omega
  rw [List.getElem?_eq_getElem hj]
  exact ⟨_, rfl, rfl⟩

theorem npGet_outofrange (a : List Int) (j : Int) (h : (a.length : Int) ≤ j) :
    npGet a j = .error .indexError := by
  have hj : ¬ j < 0 := by omega
  simp only [npGet, if_neg hj]
  rw [if_pos (by omega)]

theorem exists_interval (f : Nat → Int) (y : Int) (T : Nat) (h0 : f 0 ≤ y) (hT : y < f T) :
    ∃ i, i < T ∧ f i ≤ y ∧ y < f (i + 1) := by
  induction T with
  | zero => omega
  | succ T ih =>
    by_cases h : y < f T
    · obtain ⟨i, hi, h1, h2⟩ := ih h
      exact ⟨i, by omega, h1, h2⟩
    · exact ⟨T, by omega, by omega, hT⟩

theorem sorted_cumsum32 (ch : List Int) (hok : ChunksOK ch) : Sorted (cumsum32 0 ch) := by
  intro i j v w hij hv hw
  have hi := (List.getElem?_eq_some_iff.1 hv).1
  have hj := (List.getElem?_eq_some_iff.1 hw).1
  rw [cumsum32_length] at hi hj
  rw [cumsum32_getElem? 0 ch hok.1 (le_refl 0) (by have := hok.2; omega) i hi] at hv
  rw [cumsum32_getElem? 0 ch hok.1 (le_refl 0) (by have := hok.2; omega) j hj] at hw
  cases hv; cases hw
  have := pre_mono ch hok.1 (i + 1) (j + 1) (by omega)
  omega

theorem pre_zero (ch : List Int) : pre ch 0 = 0 := by cases ch <;> rfl

theorem pre_drop (ch : List Int) (a k : Nat) : pre (ch.drop a) k = pre ch (a + k) - pre ch a := by
  induction ch generalizing a with
  | nil => simp [pre_nil]
  | cons c cs ih =>
    cases a with
    | zero => simp [pre_zero]
    | succ a =>
      simp only [List.drop_succ_cons]
      rw [ih a]
      have : a + 1 + k = (a + k) + 1 := by omega
      rw [this]; simp only [pre]; omega

theorem pre_take (xs : List Int) (m k : Nat) (hk : k ≤ m) : pre (xs.take m) k = pre xs k := by
  induction xs generalizing m k with
  | nil => simp
  | cons x t ih =>
    cases k with
    | zero => rw [pre_zero, pre_zero]
    | succ k =>
      cases m with
      | zero => omega
      | succ m => simp only [List.take_succ_cons, pre]; rw [ih m k (by omega)]

theorem total_take (xs : List Int) (m : Nat) : total (xs.take m) = pre xs m := by
  induction xs generalizing m with
  | nil => simp [total, pre_nil]
  | cons x t ih =>
    cases m with
    | zero => simp [total, pre]
    | succ m => simp only [List.take_succ_cons, total, pre, ih]

theorem pySlice_inrange (xs : List Int) (a b : Nat) (hab : a ≤ b ∧ b ≤ xs.length) :
    pySlice xs (a : Int) (b : Int) = (xs.drop a).take (b - a) := by
  simp only [pySlice, PySlice.bounds, PySlice.clampBound]
  rw [if_neg (by omega), if_neg (by omega)]
  have e1 : (min (a : Int) (xs.length : Int)).toNat = a := by omega
  have e2 : (min (b : Int) (xs.length : Int) - min (a : Int) (xs.length : Int)).toNat = b - a := by omega
  rw [e1, e2]

theorem npGet_ok_mem (a : List Int) (j v : Int) (h : npGet a j = .ok v) :
    ∃ k : Nat, a[k]? = some v := by
  unfold npGet at h
  simp only [] at h
  generalize (if j < 0 then j + (a.length : Int) else j) = jj at h
  by_cases hc : jj < 0 ∨ jj ≥ a.length
  · rw [if_pos hc] at h; cases h
  · rw [if_neg hc] at h
    cases hw : a[jj.toNat]? with
    | none => rw [hw] at h; cases h
    | some w => rw [hw] at h; cases h; exact ⟨_, hw⟩

theorem getItem_nonneg (N n : Int) (hn : 0 < n) (idx : PIdx) (s : NSlice)
    (h : getItem N n idx = .ok s) : 0 ≤ s.start ∧ 0 ≤ s.stop := by
  simp only [getItem] at h
  split at h
  · next hc =>
    cases h
    simp only []
    refine ⟨hc.1, ?_⟩
    have : 0 ≤ (normSlice idx (count N n)).stop * n := by
      cases idx with
      | idx i =>
        rw [normSlice_idx] at hc ⊢
        simp only [] at hc ⊢
        have e : ∀ j : Int, (j + 1) * n = j * n + n := fun j => by ring
        rw [e]; omega
      | slc a b =>
        apply Int.mul_nonneg _ (by omega)
        cases a <;> cases b <;> simp [normSlice, wrapNeg] <;> omega
    omega
  · cases h

theorem vgetItem_nonneg (ch : List Int) (hok : ChunksOK ch) (idx : PIdx) (s : NSlice)
    (h : vgetItem ch idx = .ok s) : 0 ≤ s.start ∧ 0 ≤ s.stop := by
  have key : ∀ j v, npGet (offsets ch) j = .ok v → 0 ≤ v := by
    intro j v hv
    obtain ⟨k, hw⟩ := npGet_ok_mem _ _ _ hv
    have hlt := (List.getElem?_eq_some_iff.1 hw).1
    rw [offsets_length] at hlt
    rw [offsets_getElem? ch hok _ (by omega)] at hw
    cases hw
    exact pre_nonneg ch hok.1 _
  simp only [vgetItem] at h
  split at h
  · cases h
  · cases ha : npGet (offsets ch) (normSlice idx (vcount ch)).start with
    | error e => rw [ha] at h; cases h
    | ok a =>
      cases hb : npGet (offsets ch) (normSlice idx (vcount ch)).stop with
      | error e => rw [ha, hb] at h; cases h
      | ok b =>
        rw [ha, hb] at h
        cases h
        exact ⟨key _ _ ha, key _ _ hb⟩

theorem sliceIntersect3_nonneg (a b : NSlice) (ha : 0 ≤ a.start ∧ 0 ≤ a.stop)
    (hb : 0 ≤ b.start ∧ 0 ≤ b.stop) :
    sliceIntersect3 a.toPIdx b.toPIdx = .ok (intersect3N a b) := by
  simp only [sliceIntersect3, NSlice.toPIdx, normSliceOrError, bind, Except.bind, pure, Except.pure]
  rw [if_neg (by omega), if_neg (by omega)]

theorem assignMap_inrange (nd ns : Int) (d s : NSlice)
    (hd : 0 ≤ d.start ∧ d.start ≤ d.stop ∧ d.stop ≤ nd)
    (hs : 0 ≤ s.start ∧ s.start ≤ s.stop ∧ s.stop ≤ ns)
    (hlen : d.stop - d.start = s.stop - s.start) :
    assignMap nd ns d s = .ok fun j =>
      if d.start ≤ j ∧ j < d.stop then some (s.start + (j - d.start)) else none := by
  have e1 : effSlice nd d = (d.start, d.stop - d.start) := by
    simp only [effSlice, PySlice.bounds, PySlice.clampBound]
    rw [if_neg (by omega), if_neg (by omega)]
    congr 1 <;> omega
  have e2 : effSlice ns s = (s.start, s.stop - s.start) := by
    simp only [effSlice, PySlice.bounds, PySlice.clampBound]
    rw [if_neg (by omega), if_neg (by omega)]
    congr 1 <;> omega
  simp only [assignMap, e1, e2]
  rw [if_pos hlen]
  congr 1
  funext j
  have : d.start + (d.stop - d.start) = d.stop := by omega
  rw [this]

theorem axis_paste (b w : NSlice) (hb : 0 ≤ b.start ∧ b.start ≤ b.stop)
    (hw : 0 ≤ w.start ∧ w.start ≤ w.stop) :
    ∃ s d ab m, sliceIntersect3 b.toPIdx w.toPIdx = .ok (s, d, ab) ∧
      assignMap (w.stop - w.start) (b.stop - b.start) d s = .ok m ∧
      ∀ j, 0 ≤ j ∧ j < w.stop - w.start →
        m j = if b.start ≤ w.start + j ∧ w.start + j < b.stop
              then some (w.start + j - b.start) else none := by
  rw [sliceIntersect3_nonneg b w ⟨hb.1, by omega⟩ ⟨hw.1, by omega⟩]
  by_cases h1 : b.stop < w.start
  · have hi : intersect3N b w = (⟨b.stop - b.start, b.stop - b.start⟩, ⟨0, 0⟩, ⟨b.stop, b.stop⟩) := by
      simp only [intersect3N]; rw [if_pos h1]
    rw [hi]
    refine ⟨_, _, _, _, rfl, assignMap_inrange _ _ _ _ (by simp only []; omega) (by simp only []; omega)
      (by simp only []; omega), ?_⟩
    intro j hj
    simp only []
    rw [if_neg (by omega), if_neg (by omega)]
  · by_cases h2 : b.start > w.stop
    · have hi : intersect3N b w =
          (⟨0, 0⟩, ⟨w.stop - w.start, w.stop - w.start⟩, ⟨b.start, b.start⟩) := by
        simp only [intersect3N]; rw [if_neg h1, if_pos h2]
      rw [hi]
      refine ⟨_, _, _, _, rfl, assignMap_inrange _ _ _ _ (by simp only []; omega)
        (by simp only []; omega) (by simp only []; omega), ?_⟩
      intro j hj
      simp only []
      rw [if_neg (by omega), if_neg (by omega)]
    · have hi : intersect3N b w =
          (⟨max b.start w.start - b.start, min b.stop w.stop - b.start⟩,
           ⟨max b.start w.start - w.start, min b.stop w.stop - w.start⟩,
           ⟨max b.start w.start, min b.stop w.stop⟩) := by
        simp only [intersect3N]; rw [if_neg h1, if_neg h2]
      rw [hi]
      refine ⟨_, _, _, _, rfl, assignMap_inrange _ _ _ _ (by simp only []; omega)
        (by simp only []; omega) (by simp only []; omega), ?_⟩
      intro j hj
      simp only []
      by_cases hc : b.start ≤ w.start + j ∧ w.start + j < b.stop
      · rw [if_pos (by omega), if_pos hc]; congr 1; omega
      · rw [if_neg (by omega), if_neg hc]

theorem extraMaps_spec (ns : List Int) (ws : List NSlice) (h : WinOK ws ns) :
    ∃ ms, extraMaps ns ws = .ok ms ∧
      ∀ idx, InBox idx (lens ws) → mapIdx ms idx = some (shift ws idx) := by
  induction ws generalizing ns with
  | nil =>
    cases ns with
    | nil =>
      refine ⟨[], rfl, ?_⟩
      intro idx hi
      cases idx with
      | nil => rfl
      | cons j js => simp [InBox, lens] at hi
    | cons n ns => simp [WinOK] at h
  | cons w ws ih =>
    cases ns with
    | nil => simp [WinOK] at h
    | cons n ns =>
      obtain ⟨hw, hrest⟩ := h
      obtain ⟨ms, hms, hspec⟩ := ih ns hrest
      have ha := assignMap_inrange (w.stop - w.start) n ⟨0, w.stop - w.start⟩ w
        (by simp only []; omega) hw (by simp only []; omega)
      simp only [] at ha
      refine ⟨(fun j => if 0 ≤ j ∧ j < w.stop - w.start then some (w.start + (j - 0)) else none) :: ms,
        by simp only [extraMaps, ha, hms, bind, Except.bind, pure, Except.pure], ?_⟩
      intro idx hi
      cases idx with
      | nil => simp [InBox, lens] at hi
      | cons j js =>
        simp only [lens, List.map_cons, InBox] at hi
        obtain ⟨hj, hjs⟩ := hi
        have := hspec js hjs
        simp only [mapIdx, shift, this, bind, Option.bind, pure]
        rw [if_pos (by omega)]
        simp

theorem lens_any_neg (ws : List NSlice) (ns : List Int) (h : WinOK ws ns) :
    (lens ws).any (· < 0) = false := by
  induction ws generalizing ns with
  | nil => rfl
  | cons w ws ih =>
    cases ns with
    | nil => simp [WinOK] at h
    | cons n ns =>
      obtain ⟨hw, hrest⟩ := h
      simp only [lens, List.map_cons, List.any_cons]
      have := ih ns hrest
      simp only [lens] at this
      rw [this]
      simp; omega

end OdcGeo.C04
