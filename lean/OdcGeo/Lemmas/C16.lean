/- Helper lemmas for C16 (not property obligations). -/
import OdcGeo.Model.C16
import OdcGeo.Lemmas.Affine
import Mathlib.Tactic.Ring
import Mathlib.Tactic.Linarith
import Mathlib.Tactic.Positivity
import Mathlib.Tactic.NormNum
import Mathlib.Algebra.Order.Field.Rat
import Mathlib.Algebra.Order.Group.Abs

namespace OdcGeo.C16
open OdcGeo

/-! ### numeric helpers -/

theorem qabs_eq_abs (x : Rat) : qabs x = |x| := by
  unfold qabs
  split
  · rw [abs_of_neg ‹_›]
  · rw [abs_of_nonneg (not_lt.mp ‹_›)]

theorem fmod1_intCast (n : Int) : fmod1 (n : Rat) = 0 := by
  unfold fmod1
  split <;> simp [Rat.floor_intCast, Rat.ceil_intCast]

theorem pyRound_intCast (n : Int) : pyRound (n : Rat) = n := by
  unfold pyRound
  simp [Rat.floor_intCast]

theorem isAlmostInt_intCast (n : Int) (tol : Rat) (h : 0 < tol) : isAlmostInt (n : Rat) tol = true := by
  unfold isAlmostInt
  simp only [fmod1_intCast]
  have : qabs 0 = 0 := by simp [qabs]
  rw [this]
  norm_num
  exact h

theorem tolOne_pos : 0 < tolOne := by unfold tolOne; norm_num
theorem tolZero_pos : 0 < tolZero := by unfold tolZero; norm_num
theorem tolPix_pos : 0 < tolPix := by unfold tolPix; norm_num

theorem closeOne_one : closeOne 1 = true := by
  unfold closeOne
  have : qabs ((1 : Rat) - 1) = 0 := by simp [qabs]
  rw [this]
  exact decide_eq_true tolOne_pos.le

theorem closeZero_zero : closeZero 0 = true := by
  unfold closeZero
  have : qabs (0 : Rat) = 0 := by simp [qabs]
  rw [this]
  exact decide_eq_true tolZero_pos.le

/-! ### translations -/

theorem translation_mul_translation (a b c d : Rat) :
    Aff.translation a b * Aff.translation c d = Aff.translation (a + c) (b + d) := by
  simp only [Aff.mul_def, Aff.mul, Aff.translation]
  ext <;> simp <;> ring

theorem translation_zero : Aff.translation 0 0 = Aff.id := rfl

theorem det_translation (a b : Rat) : (Aff.translation a b).det = 1 := by
  simp [Aff.det, Aff.translation]

theorem det_mul_translation (A : Aff) (a b : Rat) : (A * Aff.translation a b).det = A.det := by
  rw [Aff.det_mul, det_translation, mul_one]

theorem apply_translation (a b : Rat) (p : Rat × Rat) :
    (Aff.translation a b).apply p = (p.1 + a, p.2 + b) := by
  simp [Aff.apply, Aff.translation]

theorem apply_mul_translation (A : Aff) (a b : Rat) (p : Rat × Rat) :
    (A * Aff.translation a b).apply p = A.apply (p.1 + a, p.2 + b) := by
  rw [Aff.apply_mul, apply_translation]

theorem apply_injective (A : Aff) (h : A.det ≠ 0) {p q : Rat × Rat} (hpq : A.apply p = A.apply q) :
    p = q := by
  have := congrArg A.inv.apply hpq
  rwa [Aff.inv_apply_apply A h, Aff.inv_apply_apply A h] at this

/-- `~B * (B * T) = T` -/
theorem inv_mul_mul (B T : Aff) (h : B.det ≠ 0) : B.inv * (B * T) = T := by
  rw [← Aff.mul_assoc', Aff.inv_mul_self B h, Aff.id_mul]

/-! ### `pixel_translation` on grids related by a translation -/

theorem pixelTranslation_of_mul (a b : GeoBox) (hcrs : a.crs = b.crs) (hdet : b.aff.det ≠ 0)
    (tx ty : Rat) (h : a.aff = b.aff * Aff.translation tx ty) :
    pixelTranslation a b = .ok (tx, ty) := by
  unfold pixelTranslation
  rw [if_neg (by simpa using hcrs)]
  simp only [Aff.inv?, if_neg hdet]
  rw [h, inv_mul_mul _ _ hdet]
  simp [Aff.translation, closeOne_one, closeZero_zero]

theorem bboxInPixelDomain_of_mul (g ref : GeoBox) (hcrs : g.crs = ref.crs) (hdet : ref.aff.det ≠ 0)
    (tx ty : Int) (h : g.aff = ref.aff * Aff.translation tx ty) (tol : Rat) (htol : 0 < tol) :
    bboxInPixelDomain g ref tol = .ok ⟨tx, ty, tx + g.nx, ty + g.ny, none⟩ := by
  unfold bboxInPixelDomain
  rw [pixelTranslation_of_mul g ref hcrs hdet tx ty h]
  simp [isAlmostInt_intCast _ _ htol, pyRound_intCast]

end OdcGeo.C16
