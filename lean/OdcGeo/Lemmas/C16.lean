/- Helper lemmas for C16 (not property obligations). -/
import OdcGeo.Model.C16
import OdcGeo.Lemmas.Affine
import Mathlib.Tactic.Ring
import Mathlib.Tactic.Linarith
import Mathlib.Tactic.Positivity
import Mathlib.Tactic.NormNum
import Mathlib.Algebra.Order.Field.Rat
import Mathlib.Algebra.Order.Group.Abs

namespace OdcGeo.C16
open OdcGeo

/-! ### numeric helpers -/

theorem qabs_eq_abs (x : Rat) : qabs x = |x| := by
  unfold qabs
  split
  · rw [abs_of_neg ‹_›]
  · rw [abs_of_nonneg (not_lt.mp ‹_›)]

theorem fmod1_intCast (n : Int) : fmod1 (n : Rat) = 0 := by
  unfold fmod1
  split <;> simp [Rat.floor_intCast, Rat.ceil_intCast]

theorem pyRound_intCast (n : Int) : pyRound (n : Rat) = n := by
  unfold pyRound
  simp [Rat.floor_intCast]

theorem isAlmostInt_intCast (n : Int) (tol : Rat) (h : 0 < tol) : isAlmostInt (n : Rat) tol = true := by
  unfold isAlmostInt
  simp only [fmod1_intCast]
  have : qabs 0 = 0 := by simp [qabs]
  rw [this]
  norm_num
  exact h

theorem tolOne_pos : 0 < tolOne := by unfold tolOne; norm_num
theorem tolZero_pos : 0 < tolZero := by unfold tolZero; norm_num
theorem tolPix_pos : 0 < tolPix := by unfold tolPix; norm_num

theorem closeOne_one : closeOne 1 = true := by
  unfold closeOne
  have : qabs ((1 : Rat) - 1) = 0 := by simp [qabs]
  rw [this]
  exact decide_eq_true tolOne_pos.le

theorem closeZero_zero : closeZero 0 = true := by
  unfold closeZero
  have : qabs (0 : Rat) = 0 := by simp [qabs]
  rw [this]
  exact decide_eq_true tolZero_pos.le

/-! ### translations -/

theorem translation_mul_translation (a b c d : Rat) :
    Aff.translation a b * Aff.translation c d = Aff.translation (a + c) (b + d) := by
  simp only [Aff.mul_def, Aff.mul, Aff.translation]
  ext <;> simp <;> ring

theorem translation_zero : Aff.translation 0 0 = Aff.id := rfl

theorem det_translation (a b : Rat) : (Aff.translation a b).det = 1 := by
  simp [Aff.det, Aff.translation]

theorem det_mul_translation (A : Aff) (a b : Rat) : (A * Aff.translation a b).det = A.det := by
  rw [Aff.det_mul, det_translation, mul_one]

theorem apply_translation (a b : Rat) (p : Rat × Rat) :
    (Aff.translation a b).apply p = (p.1 + a, p.2 + b) := by
  simp [Aff.apply, Aff.translation]

theorem apply_mul_translation (A : Aff) (a b : Rat) (p : Rat × Rat) :
    (A * Aff.translation a b).apply p = A.apply (p.1 + a, p.2 + b) := by
  rw [Aff.apply_mul, apply_translation]

theorem apply_injective (A : Aff) (h : A.det ≠ 0) {p q : Rat × Rat} (hpq : A.apply p = A.apply q) :
    p = q := by
  have := congrArg A.inv.apply hpq
  rwa [Aff.inv_apply_apply A h, Aff.inv_apply_apply A h] at this

/-- `~B * (B * T) = T` -/
theorem inv_mul_mul (B T : Aff) (h : B.det ≠ 0) : B.inv * (B * T) = T := by
  rw [← Aff.mul_assoc', Aff.inv_mul_self B h, Aff.id_mul]

/-! ### `pixel_translation` on grids related by a translation -/

theorem pixelTranslation_of_mul (a b : GeoBox) (hcrs : a.crs = b.crs) (hdet : b.aff.det ≠ 0)
    (tx ty : Rat) (h : a.aff = b.aff * Aff.translation tx ty) :
    pixelTranslation a b = .ok (tx, ty) := by
  unfold pixelTranslation
  rw [if_neg (by simpa using hcrs)]
  simp only [Aff.inv?, if_neg hdet]
  rw [h, inv_mul_mul _ _ hdet]
  simp [Aff.translation, closeOne_one, closeZero_zero]

theorem bboxInPixelDomain_of_mul (g ref : GeoBox) (hcrs : g.crs = ref.crs) (hdet : ref.aff.det ≠ 0)
    (tx ty : Int) (h : g.aff = ref.aff * Aff.translation tx ty) (tol : Rat) (htol : 0 < tol) :
    bboxInPixelDomain g ref tol = .ok ⟨tx, ty, tx + g.nx, ty + g.ny, none⟩ := by
  unfold bboxInPixelDomain
  rw [pixelTranslation_of_mul g ref hcrs hdet tx ty h]
  simp [isAlmostInt_intCast _ _ htol, pyRound_intCast]

/-! ### `fmod`, `split_float`, `is_almost_int` -/

theorem fmod1_spec (x : Rat) :
    ∃ k : Int, fmod1 x = x - k ∧ ((0 ≤ x ∧ 0 ≤ fmod1 x ∧ fmod1 x < 1) ∨ (x < 0 ∧ -1 < fmod1 x ∧ fmod1 x ≤ 0)) := by
  unfold fmod1
  split
  · refine ⟨x.floor, rfl, Or.inl ⟨‹_›, ?_, ?_⟩⟩
    · have := Rat.floor_le x; linarith
    · have := Rat.lt_floor_add_one x; push_cast at this; linarith
  · refine ⟨x.ceil, rfl, Or.inr ⟨not_le.mp ‹_›, ?_, ?_⟩⟩
    · have := @Rat.ceil_lt x; linarith
    · have := @Rat.le_ceil x; linarith

/-- `is_almost_int(x, tol)` accepts only numbers within `tol` of an integer. -/
theorem isAlmostInt_near (x tol : Rat) (h : isAlmostInt x tol = true) : ∃ k : Int, |x - k| < tol := by
  unfold isAlmostInt at h
  obtain ⟨k, hk, hcase⟩ := fmod1_spec x
  simp only [decide_eq_true_eq, qabs_eq_abs] at h
  rcases hcase with ⟨_, h0, h1⟩ | ⟨_, h0, h1⟩
  · rw [abs_of_nonneg h0] at h
    split at h
    · refine ⟨k + 1, ?_⟩
      push_cast
      rw [abs_lt]; constructor <;> linarith
    · refine ⟨k, ?_⟩
      rw [abs_lt]; constructor <;> linarith
  · rw [abs_of_nonpos h1] at h
    split at h
    · refine ⟨k - 1, ?_⟩
      push_cast
      rw [abs_lt]; constructor <;> linarith
    · refine ⟨k, ?_⟩
      rw [abs_lt]; constructor <;> linarith

/-- ... and `round` then returns that integer when `tol ≤ 1/2`. -/
theorem pyRound_near (x : Rat) (k : Int) (h : |x - k| < 1 / 2) : pyRound x = k := by
  rw [abs_lt] at h
  obtain ⟨h1, h2⟩ := h
  unfold pyRound
  have f1 := Rat.floor_le x
  have f2 := Rat.lt_floor_add_one x
  have hfl : x.floor = k ∨ x.floor = k - 1 := by
    have a1 : x.floor < k + 1 := by
      rw [Rat.floor_lt_iff]; push_cast; linarith
    have a2 : k - 1 ≤ x.floor := by
      rw [Rat.le_floor_iff]; push_cast; linarith
    omega
  rcases hfl with e | e
  · simp only [e, h2, if_true]
  · have h3 : ¬ (x - ((k - 1 : Int) : Rat) < 1 / 2) := by push_cast; linarith
    have h4 : x - ((k - 1 : Int) : Rat) > 1 / 2 := by push_cast; linarith
    simp only [e, h3, h4, if_false, if_true]
    omega

theorem splitFloat_spec (x : Rat) :
    ∃ w : Int, (splitFloat x).1 = w ∧ (w : Rat) + (splitFloat x).2 = x ∧ |(splitFloat x).2| ≤ 1 / 2 := by
  obtain ⟨k, hk, hcase⟩ := fmod1_spec x
  unfold splitFloat
  simp only [hk]
  by_cases h1 : x - (k : Rat) > 1 / 2
  · simp only [h1, if_true]
    refine ⟨k + 1, by push_cast; ring, by push_cast; ring, ?_⟩
    rw [abs_le]; rcases hcase with ⟨_, _, h⟩ | ⟨_, _, h⟩ <;> constructor <;> linarith
  · by_cases h2 : x - (k : Rat) < -(1 / 2)
    · simp only [h1, h2, if_true, if_false]
      refine ⟨k - 1, by push_cast; ring, by push_cast; ring, ?_⟩
      rw [abs_le]; rcases hcase with ⟨_, h, _⟩ | ⟨_, h, _⟩ <;> constructor <;> linarith
    · simp only [h1, h2, if_false]
      refine ⟨k, by ring, by ring, ?_⟩
      rw [abs_le]; constructor <;> linarith

/-! ### `min(...)`, `max(...)` of a non-empty list -/

theorem minL_le (x : Rat) (l : List Rat) : minL x l ≤ x ∧ ∀ y ∈ l, minL x l ≤ y := by
  induction l generalizing x with
  | nil => simp [minL]
  | cons y ys ih =>
    simp only [minL]
    obtain ⟨h1, h2⟩ := ih (min x y)
    refine ⟨h1.trans (min_le_left _ _), ?_⟩
    intro z hz
    rcases List.mem_cons.mp hz with rfl | hz
    · exact h1.trans (min_le_right _ _)
    · exact h2 z hz

theorem minL_mem (x : Rat) (l : List Rat) : minL x l = x ∨ minL x l ∈ l := by
  induction l generalizing x with
  | nil => simp [minL]
  | cons y ys ih =>
    simp only [minL]
    rcases ih (min x y) with h | h
    · rcases min_choice x y with e | e
      · left; rw [h, e]
      · right; rw [h, e]; exact List.mem_cons_self ..
    · right; exact List.mem_cons_of_mem _ h

theorem le_maxL (x : Rat) (l : List Rat) : x ≤ maxL x l ∧ ∀ y ∈ l, y ≤ maxL x l := by
  induction l generalizing x with
  | nil => simp [maxL]
  | cons y ys ih =>
    simp only [maxL]
    obtain ⟨h1, h2⟩ := ih (max x y)
    refine ⟨(le_max_left _ _).trans h1, ?_⟩
    intro z hz
    rcases List.mem_cons.mp hz with rfl | hz
    · exact (le_max_right _ _).trans h1
    · exact h2 z hz

theorem maxL_mem (x : Rat) (l : List Rat) : maxL x l = x ∨ maxL x l ∈ l := by
  induction l generalizing x with
  | nil => simp [maxL]
  | cons y ys ih =>
    simp only [maxL]
    rcases ih (max x y) with h | h
    · rcases max_choice x y with e | e
      · left; rw [h, e]
      · right; rw [h, e]; exact List.mem_cons_self ..
    · right; exact List.mem_cons_of_mem _ h

/-! ### a linear form on an interval is bounded by its values at the end points -/

theorem lin_lower (a l r x : Rat) (h1 : l ≤ x) (h2 : x ≤ r) : a * l ≤ a * x ∨ a * r ≤ a * x := by
  rcases le_total 0 a with h | h
  · left; exact mul_le_mul_of_nonneg_left h1 h
  · right; exact mul_le_mul_of_nonpos_left h2 h

theorem lin_upper (a l r x : Rat) (h1 : l ≤ x) (h2 : x ≤ r) : a * x ≤ a * l ∨ a * x ≤ a * r := by
  rcases le_total 0 a with h | h
  · right; exact mul_le_mul_of_nonneg_left h2 h
  · left; exact mul_le_mul_of_nonpos_left h1 h

/-! ### one axis of `enclosing`: `floor(min) .. max(1, ceil(max) - floor(min))` -/

theorem axis_enclose (v : Rat) (vs : List Rat) :
    1 ≤ max 1 ((maxL v vs).ceil - (minL v vs).floor) ∧
    (∀ y ∈ v :: vs, ((minL v vs).floor : Rat) ≤ y ∧
        y ≤ ((minL v vs).floor : Rat) + ((max 1 ((maxL v vs).ceil - (minL v vs).floor) : Int) : Rat)) ∧
    (∃ y ∈ v :: vs, y - ((minL v vs).floor : Rat) < 1) ∧
    ((∃ y ∈ v :: vs, ((minL v vs).floor : Rat) + ((max 1 ((maxL v vs).ceil - (minL v vs).floor) : Int) : Rat) - y < 1) ∨
     (max 1 ((maxL v vs).ceil - (minL v vs).floor) = 1 ∧ ∀ y ∈ v :: vs, y = ((minL v vs).floor : Rat))) := by
  obtain ⟨mn0, mn1⟩ := minL_le v vs
  obtain ⟨mx0, mx1⟩ := le_maxL v vs
  have hmin : ∀ y ∈ v :: vs, minL v vs ≤ y := by
    intro y hy; rcases List.mem_cons.mp hy with rfl | hy
    · exact mn0
    · exact mn1 y hy
  have hmax : ∀ y ∈ v :: vs, y ≤ maxL v vs := by
    intro y hy; rcases List.mem_cons.mp hy with rfl | hy
    · exact mx0
    · exact mx1 y hy
  have hminmem : minL v vs ∈ v :: vs := by
    rcases minL_mem v vs with h | h
    · rw [h]; exact List.mem_cons_self ..
    · exact List.mem_cons_of_mem _ h
  have hmaxmem : maxL v vs ∈ v :: vs := by
    rcases maxL_mem v vs with h | h
    · rw [h]; exact List.mem_cons_self ..
    · exact List.mem_cons_of_mem _ h
  have f1 := Rat.floor_le (minL v vs)
  have f2 := Rat.lt_floor_add_one (minL v vs)
  have c1 := @Rat.le_ceil (maxL v vs)
  have c2 := @Rat.ceil_lt (maxL v vs)
  push_cast at f2
  generalize hlo : (minL v vs).floor = lo at *
  generalize hhi : (maxL v vs).ceil = hi at *
  have hn : (((max 1 (hi - lo) : Int)) : Rat) ≥ (hi : Rat) - lo := by
    have : hi - lo ≤ max 1 (hi - lo) := le_max_right _ _
    exact_mod_cast this
  refine ⟨le_max_left _ _, ?_, ⟨_, hminmem, by linarith⟩, ?_⟩
  · intro y hy
    have := hmin y hy; have := hmax y hy
    constructor <;> linarith
  · by_cases hcase : 1 ≤ hi - lo
    · left
      refine ⟨_, hmaxmem, ?_⟩
      rw [max_eq_right hcase]; push_cast; linarith
    · right
      have hle : hi ≤ lo := by omega
      have hle' : (hi : Rat) ≤ lo := by exact_mod_cast hle
      refine ⟨max_eq_left (by omega), ?_⟩
      intro y hy
      have := hmin y hy; have := hmax y hy
      linarith

/-- converse of `isAlmostInt_near`: what the code computes is the distance to the *nearest* integer -/
theorem isAlmostInt_of_near (x tol : Rat) (k : Int) (h : |x - k| < tol) : isAlmostInt x tol = true := by
  unfold isAlmostInt
  obtain ⟨k0, hk, hcase⟩ := fmod1_spec x
  simp only [decide_eq_true_eq, qabs_eq_abs]
  rw [hk] at hcase ⊢
  rcases hcase with ⟨_, h0, h1⟩ | ⟨_, h0, h1⟩
  · rw [abs_of_nonneg h0]
    rcases le_or_gt k k0 with hk' | hk'
    · have c : (k : Rat) ≤ k0 := by exact_mod_cast hk'
      rw [abs_of_nonneg (by linarith)] at h
      split <;> linarith
    · have c : (k0 : Rat) + 1 ≤ k := by exact_mod_cast hk'
      rw [abs_of_nonpos (by linarith)] at h
      split <;> linarith
  · rw [abs_of_nonpos h1]
    rcases le_or_gt k0 k with hk' | hk'
    · have c : (k0 : Rat) ≤ k := by exact_mod_cast hk'
      rw [abs_of_nonpos (by linarith)] at h
      split <;> linarith
    · have c : (k : Rat) + 1 ≤ k0 := by exact_mod_cast hk'
      rw [abs_of_nonneg (by linarith)] at h
      split <;> linarith

end OdcGeo.C16
