/- Helper lemmas for C13 (not counted as obligations). -/
import OdcGeo.Model.C13
import OdcGeo.Lemmas.Affine
import Mathlib.Tactic.Linarith
import Mathlib.Tactic.Ring
import Mathlib.Tactic.ByContra
import Mathlib.Algebra.Order.Field.Rat

namespace OdcGeo.C13
open OdcGeo

/-! ### affine: the pixel map of two cropped geoboxes -/

theorem translation_apply (tx ty : Rat) (p : Rat × Rat) :
    (Aff.translation tx ty).apply p = (p.1 + tx, p.2 + ty) := by
  simp [Aff.apply, Aff.translation]

theorem det_translation (tx ty : Rat) : (Aff.translation tx ty).det = 1 := by
  simp [Aff.det, Aff.translation]

theorem apply_injective (S : Aff) (hS : S.det ≠ 0) {p q : Rat × Rat} (h : S.apply p = S.apply q) :
    p = q := by
  have := congrArg S.inv.apply h
  rwa [Aff.inv_apply_apply S hS, Aff.inv_apply_apply S hS] at this

/-- "warp of a window": the pixel map between a cropped source (offset `o`) and a cropped
destination (offset `t`) is the pixel map of the full grids conjugated by the two offsets. -/
theorem pixMap_crop (S D : Aff) (hS : S.det ≠ 0) (ox oy tx ty : Rat) (q : Rat × Rat) :
    ((S * Aff.translation ox oy).inv * (D * Aff.translation tx ty)).apply q =
      (((S.inv * D).apply (q.1 + tx, q.2 + ty)).1 - ox,
       ((S.inv * D).apply (q.1 + tx, q.2 + ty)).2 - oy) := by
  have hS' : (S * Aff.translation ox oy).det ≠ 0 := by
    rw [Aff.det_mul, det_translation, mul_one]; exact hS
  set p' := ((S * Aff.translation ox oy).inv * (D * Aff.translation tx ty)).apply q with hp'
  have h1 : (S * Aff.translation ox oy).apply p' = (D * Aff.translation tx ty).apply q := by
    rw [hp', Aff.apply_mul (S * Aff.translation ox oy).inv, Aff.apply_inv_apply _ hS']
  rw [Aff.apply_mul, Aff.apply_mul, translation_apply, translation_apply] at h1
  have h2 : (p'.1 + ox, p'.2 + oy) = (S.inv * D).apply (q.1 + tx, q.2 + ty) := by
    apply apply_injective S hS
    rw [h1, Aff.apply_mul, Aff.apply_inv_apply S hS]
  rw [← h2]
  ext <;> simp

/-! ### the sampled pixel seen from a window of the source -/

theorem floor_sub_int (q : Rat) (n : Int) : (q - (n : Rat)).floor = q.floor - n := by
  have : q - (n : Rat) = q + ((-n : Int) : Rat) := by push_cast; ring
  rw [this, Rat.floor_add_intCast]; ring

/-- If the chunk-level pixel map `A'` is the full map `A` conjugated by the integer offsets of the
source window `(oy, ox)` (inside the source) and of the destination tile `(y0, x0)`, then the
chunk samples exactly the pixel the whole array samples, provided that pixel lies in the window,
and nothing otherwise. -/
theorem samplePix_window (A A' : Aff) (H W h' w' oy ox y0 x0 : Int) (d : Int × Int)
    (hA : ∀ q : Rat × Rat, A'.apply q =
      ((A.apply (q.1 + x0, q.2 + y0)).1 - ox, (A.apply (q.1 + x0, q.2 + y0)).2 - oy))
    (hwin : 0 ≤ oy ∧ oy + h' ≤ H ∧ 0 ≤ ox ∧ ox + w' ≤ W) :
    samplePix A' h' w' d =
      match samplePix A H W (d.1 + y0, d.2 + x0) with
      | none => none
      | some s =>
        if oy ≤ s.1 ∧ s.1 < oy + h' ∧ ox ≤ s.2 ∧ s.2 < ox + w' then some (s.1 - oy, s.2 - ox)
        else none := by
  obtain ⟨h1, h2, h3, h4⟩ := hwin
  have h1' : (0 : Rat) ≤ oy := by exact_mod_cast h1
  have h2' : (oy : Rat) + h' ≤ H := by exact_mod_cast h2
  have h3' : (0 : Rat) ≤ ox := by exact_mod_cast h3
  have h4' : (ox : Rat) + w' ≤ W := by exact_mod_cast h4
  unfold samplePix
  simp only [hA]
  have e1 : (((d.2 + x0 : Int) : Rat) + 1 / 2) = (d.2 : Rat) + 1 / 2 + x0 := by push_cast; ring
  have e2 : (((d.1 + y0 : Int) : Rat) + 1 / 2) = (d.1 : Rat) + 1 / 2 + y0 := by push_cast; ring
  simp only [e1, e2]
  generalize A.apply ((d.2 : Rat) + 1 / 2 + x0, (d.1 : Rat) + 1 / 2 + y0) = p
  by_cases hin : 0 ≤ p.1 ∧ p.1 < (W : Rat) ∧ 0 ≤ p.2 ∧ p.2 < (H : Rat)
  · rw [if_pos hin]
    simp only []
    have f1 : (oy ≤ p.2.floor) ↔ ((oy : Rat) ≤ p.2) := Rat.le_floor_iff
    have f2 : (p.2.floor < oy + h') ↔ (p.2 < ((oy + h' : Int) : Rat)) := Rat.floor_lt_iff
    have f3 : (ox ≤ p.1.floor) ↔ ((ox : Rat) ≤ p.1) := Rat.le_floor_iff
    have f4 : (p.1.floor < ox + w') ↔ (p.1 < ((ox + w' : Int) : Rat)) := Rat.floor_lt_iff
    push_cast at f2 f4
    by_cases hw : 0 ≤ p.1 - (ox : Rat) ∧ p.1 - (ox : Rat) < (w' : Rat) ∧ 0 ≤ p.2 - (oy : Rat) ∧ p.2 - (oy : Rat) < (h' : Rat)
    · rw [if_pos hw, if_pos]
      · rw [floor_sub_int, floor_sub_int]
      · obtain ⟨a, b, c, e⟩ := hw
        refine ⟨f1.2 (by linarith), f2.2 (by linarith), f3.2 (by linarith), f4.2 (by linarith)⟩
    · rw [if_neg hw, if_neg]
      rintro ⟨a, b, c, e⟩
      exact hw ⟨by linarith [f3.1 c], by linarith [f4.1 e], by linarith [f1.1 a], by linarith [f2.1 b]⟩
  · rw [if_neg hin]
    simp only []
    rw [if_neg]
    rintro ⟨a, b, c, e⟩
    exact hin ⟨by linarith, by linarith, by linarith, by linarith⟩

end OdcGeo.C13
