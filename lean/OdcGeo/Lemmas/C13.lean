/- Helper lemmas for C13 (not counted as obligations). -/
import OdcGeo.Model.C13
import OdcGeo.Lemmas.Affine
import Mathlib.Tactic.Linarith
import Mathlib.Tactic.Ring
import Mathlib.Tactic.ByContra
import Mathlib.Algebra.Order.Field.Rat

namespace OdcGeo.C13
open OdcGeo

/-! ### affine: the pixel map of two cropped geoboxes -/

theorem translation_apply (tx ty : Rat) (p : Rat × Rat) :
    (Aff.translation tx ty).apply p = (p.1 + tx, p.2 + ty) := by
  simp [Aff.apply, Aff.translation]

theorem det_translation (tx ty : Rat) : (Aff.translation tx ty).det = 1 := by
  simp [Aff.det, Aff.translation]

theorem apply_injective (S : Aff) (hS : S.det ≠ 0) {p q : Rat × Rat} (h : S.apply p = S.apply q) :
    p = q := by
  have := congrArg S.inv.apply h
  rwa [Aff.inv_apply_apply S hS, Aff.inv_apply_apply S hS] at this

/-- "warp of a window": the pixel map between a cropped source (offset `o`) and a cropped
destination (offset `t`) is the pixel map of the full grids conjugated by the two offsets. -/
theorem pixMap_crop (S D : Aff) (hS : S.det ≠ 0) (ox oy tx ty : Rat) (q : Rat × Rat) :
    ((S * Aff.translation ox oy).inv * (D * Aff.translation tx ty)).apply q =
      (((S.inv * D).apply (q.1 + tx, q.2 + ty)).1 - ox,
       ((S.inv * D).apply (q.1 + tx, q.2 + ty)).2 - oy) := by
  have hS' : (S * Aff.translation ox oy).det ≠ 0 := by
    rw [Aff.det_mul, det_translation, mul_one]; exact hS
  set p' := ((S * Aff.translation ox oy).inv * (D * Aff.translation tx ty)).apply q with hp'
  have h1 : (S * Aff.translation ox oy).apply p' = (D * Aff.translation tx ty).apply q := by
    rw [hp', Aff.apply_mul (S * Aff.translation ox oy).inv, Aff.apply_inv_apply _ hS']
  rw [Aff.apply_mul, Aff.apply_mul, translation_apply, translation_apply] at h1
  have h2 : (p'.1 + ox, p'.2 + oy) = (S.inv * D).apply (q.1 + tx, q.2 + ty) := by
    apply apply_injective S hS
    rw [h1, Aff.apply_mul, Aff.apply_inv_apply S hS]
  rw [← h2]
  ext <;> simp

/-! ### the sampled pixel seen from a window of the source -/

theorem floor_sub_int (q : Rat) (n : Int) : (q - (n : Rat)).floor = q.floor - n := by
  have : q - (n : Rat) = q + ((-n : Int) : Rat) := by push_cast; ring
  rw [this, Rat.floor_add_intCast]; ring

/-- If the chunk-level pixel map `A'` is the full map `A` conjugated by the integer offsets of the
source window `(oy, ox)` (inside the source) and of the destination tile `(y0, x0)`, then the
chunk samples exactly the pixel the whole array samples, provided that pixel lies in the window,
and nothing otherwise. -/
theorem samplePix_window (A A' : Aff) (H W h' w' oy ox y0 x0 : Int) (d : Int × Int)
    (hA : ∀ q : Rat × Rat, A'.apply q =
      ((A.apply (q.1 + x0, q.2 + y0)).1 - ox, (A.apply (q.1 + x0, q.2 + y0)).2 - oy))
    (hwin : 0 ≤ oy ∧ oy + h' ≤ H ∧ 0 ≤ ox ∧ ox + w' ≤ W) :
    samplePix A' h' w' d =
      match samplePix A H W (d.1 + y0, d.2 + x0) with
      | none => none
      | some s =>
        if oy ≤ s.1 ∧ s.1 < oy + h' ∧ ox ≤ s.2 ∧ s.2 < ox + w' then some (s.1 - oy, s.2 - ox)
        else none := by
  obtain ⟨h1, h2, h3, h4⟩ := hwin
  have h1' : (0 : Rat) ≤ oy := by exact_mod_cast h1
  have h2' : (oy : Rat) + h' ≤ H := by exact_mod_cast h2
  have h3' : (0 : Rat) ≤ ox := by exact_mod_cast h3
  have h4' : (ox : Rat) + w' ≤ W := by exact_mod_cast h4
  unfold samplePix
  simp only [hA]
  have e1 : (((d.2 + x0 : Int) : Rat) + 1 / 2) = (d.2 : Rat) + 1 / 2 + x0 := by push_cast; ring
  have e2 : (((d.1 + y0 : Int) : Rat) + 1 / 2) = (d.1 : Rat) + 1 / 2 + y0 := by push_cast; ring
  simp only [e1, e2]
  generalize A.apply ((d.2 : Rat) + 1 / 2 + x0, (d.1 : Rat) + 1 / 2 + y0) = p
  by_cases hin : 0 ≤ p.1 ∧ p.1 < (W : Rat) ∧ 0 ≤ p.2 ∧ p.2 < (H : Rat)
  · rw [if_pos hin]
    simp only []
    have f1 : (oy ≤ p.2.floor) ↔ ((oy : Rat) ≤ p.2) := Rat.le_floor_iff
    have f2 : (p.2.floor < oy + h') ↔ (p.2 < ((oy + h' : Int) : Rat)) := Rat.floor_lt_iff
    have f3 : (ox ≤ p.1.floor) ↔ ((ox : Rat) ≤ p.1) := Rat.le_floor_iff
    have f4 : (p.1.floor < ox + w') ↔ (p.1 < ((ox + w' : Int) : Rat)) := Rat.floor_lt_iff
    push_cast at f2 f4
    by_cases hw : 0 ≤ p.1 - (ox : Rat) ∧ p.1 - (ox : Rat) < (w' : Rat) ∧ 0 ≤ p.2 - (oy : Rat) ∧ p.2 - (oy : Rat) < (h' : Rat)
    · rw [if_pos hw, if_pos]
      · rw [floor_sub_int, floor_sub_int]
      · obtain ⟨a, b, c, e⟩ := hw
        refine ⟨f1.2 (by linarith), f2.2 (by linarith), f3.2 (by linarith), f4.2 (by linarith)⟩
    · rw [if_neg hw, if_neg]
      rintro ⟨a, b, c, e⟩
      exact hw ⟨by linarith [f3.1 c], by linarith [f4.1 e], by linarith [f1.1 a], by linarith [f2.1 b]⟩
  · rw [if_neg hin]
    simp only []
    rw [if_neg]
    rintro ⟨a, b, c, e⟩
    exact hin ⟨by linarith, by linarith, by linarith, by linarith⟩

/-! ### tilings -/

theorem Chain.le : ∀ {t : List Span} {a b : Int}, Chain a t b → a ≤ b
  | [], a, b, h => by simp [Chain] at h; omega
  | s :: r, a, b, h => by
    obtain ⟨h1, h2, h3⟩ := h
    have := Chain.le h3
    omega

theorem Chain.get : ∀ {t : List Span} {a b : Int} {i : Nat} {s : Span},
    Chain a t b → t[i]? = some s → a ≤ s.1 ∧ s.1 ≤ s.2 ∧ s.2 ≤ b
  | [], _, _, _, _, _, h => by simp at h
  | s0 :: r, a, b, 0, s, hc, h => by
    obtain ⟨h1, h2, h3⟩ := hc
    simp at h; subst h
    have := Chain.le h3
    omega
  | s0 :: r, a, b, i + 1, s, hc, h => by
    obtain ⟨h1, h2, h3⟩ := hc
    simp at h
    have := Chain.get h3 h
    omega

/-- tiles come in increasing order -/
theorem Chain.mono : ∀ {t : List Span} {a b : Int} {i j : Nat} {s s' : Span},
    Chain a t b → i ≤ j → t[i]? = some s → t[j]? = some s' → s.1 ≤ s'.1 ∧ s.2 ≤ s'.2
  | [], _, _, _, _, _, _, _, _, h, _ => by simp at h
  | s0 :: r, a, b, 0, 0, s, s', _, _, h, h' => by
    simp at h h'; subst h; subst h'; omega
  | s0 :: r, a, b, 0, j + 1, s, s', hc, _, h, h' => by
    obtain ⟨h1, h2, h3⟩ := hc
    simp at h h'; subst h
    have := Chain.get h3 h'
    omega
  | s0 :: r, a, b, i + 1, 0, s, s', _, hij, _, _ => by omega
  | s0 :: r, a, b, i + 1, j + 1, s, s', hc, hij, h, h' => by
    obtain ⟨h1, h2, h3⟩ := hc
    simp at h h'
    exact Chain.mono h3 (by omega) h h'

theorem locate_spec : ∀ {t : List Span} {p : Int} {i : Nat},
    locate t p = some i → ∃ s, t[i]? = some s ∧ s.1 ≤ p ∧ p < s.2
  | [], _, _, h => by simp [locate] at h
  | s0 :: r, p, i, h => by
    unfold locate at h
    split at h
    · next hc => simp at h; subst h; exact ⟨s0, by simp, hc.1, hc.2⟩
    · cases hl : locate r p with
      | none => simp [hl] at h
      | some k =>
        simp [hl] at h; subst h
        obtain ⟨s, h1, h2⟩ := locate_spec hl
        exact ⟨s, by simpa using h1, h2⟩

theorem Chain.locate_some : ∀ {t : List Span} {a b p : Int},
    Chain a t b → a ≤ p → p < b → ∃ i, locate t p = some i
  | [], a, b, p, h, h1, h2 => by simp [Chain] at h; omega
  | s0 :: r, a, b, p, h, h1, h2 => by
    obtain ⟨e1, e2, e3⟩ := h
    unfold locate
    by_cases hc : s0.1 ≤ p ∧ p < s0.2
    · exact ⟨0, by rw [if_pos hc]⟩
    · rw [if_neg hc]
      obtain ⟨i, hi⟩ := Chain.locate_some e3 (by omega) h2
      exact ⟨i + 1, by simp [hi]⟩

theorem chunksTilingFrom_chain : ∀ (l : List Nat) (off : Int),
    Chain off (chunksTilingFrom off l) (off + ((l.sum : Nat) : Int))
  | [], off => by simp [chunksTilingFrom, Chain]
  | n :: r, off => by
    simp only [chunksTilingFrom, Chain, List.sum_cons]
    refine ⟨trivial, by omega, ?_⟩
    have := chunksTilingFrom_chain r (off + n)
    have e : off + (n : Int) + ((r.sum : Nat) : Int) = off + ((n + r.sum : Nat) : Int) := by
      push_cast; ring
    rwa [e] at this

theorem regularTiling_chain_aux (N n : Nat) (hn : 0 < n) : ∀ (cnt k : Nat), k + cnt = (N + n - 1) / n →
    Chain ((min (k * n) N : Nat) : Int)
      ((List.range' k cnt).map fun i => (((i * n : Nat) : Int), ((min ((i + 1) * n) N : Nat) : Int))) N
  | 0, k, hk => by
    simp only [List.range'_zero, List.map_nil, Chain]
    have h1 := Nat.div_add_mod (N + n - 1) n
    have h2 := Nat.mod_lt (N + n - 1) hn
    have h3 : k * n = n * ((N + n - 1) / n) := by rw [← hk, Nat.add_zero, Nat.mul_comm]
    have : N ≤ k * n := by omega
    have : min (k * n) N = N := by omega
    rw [this]
  | cnt + 1, k, hk => by
    have h1 := Nat.div_add_mod (N + n - 1) n
    have hle : (k + 1) * n ≤ ((N + n - 1) / n) * n := Nat.mul_le_mul_right n (by omega)
    have h4 : (k + 1) * n = k * n + n := by rw [Nat.add_mul, Nat.one_mul]
    have h5 : ((N + n - 1) / n) * n = n * ((N + n - 1) / n) := Nat.mul_comm _ _
    have hkN : k * n ≤ N := by omega
    have hmin : min (k * n) N = k * n := by omega
    simp only [List.range'_succ, List.map_cons, Chain]
    refine ⟨by rw [hmin], ?_, ?_⟩
    · have : k * n ≤ min ((k + 1) * n) N := by omega
      exact_mod_cast this
    · exact regularTiling_chain_aux N n hn cnt (k + 1) (by omega)

/-! ### `minMax`, `clipSpans`, `mapOpt` -/

theorem minMax_spec : ∀ {l : List Nat} {lo hi : Nat}, minMax l = some (lo, hi) →
    (∀ a ∈ l, lo ≤ a ∧ a ≤ hi) ∧ lo ∈ l ∧ hi ∈ l
  | [], _, _, h => by simp [minMax] at h
  | a :: r, lo, hi, h => by
    unfold minMax at h
    cases hr : minMax r with
    | none =>
      simp [hr] at h
      obtain ⟨rfl, rfl⟩ := h
      cases r with
      | nil => simp
      | cons b r' =>
        exfalso
        unfold minMax at hr
        cases h2 : minMax r' <;> simp [h2] at hr
    | some q =>
      obtain ⟨lo', hi'⟩ := q
      simp [hr] at h
      obtain ⟨rfl, rfl⟩ := h
      obtain ⟨h1, h2, h3⟩ := minMax_spec hr
      refine ⟨?_, ?_, ?_⟩
      · intro x hx
        simp at hx
        rcases hx with rfl | hx
        · omega
        · have := h1 x hx; omega
      · simp only [List.mem_cons]
        by_cases hc : a ≤ lo'
        · left; omega
        · right; have : min a lo' = lo' := by omega
          rw [this]; exact h2
      · simp only [List.mem_cons]
        by_cases hc : hi' ≤ a
        · left; omega
        · right; have : max a hi' = hi' := by omega
          rw [this]; exact h3

theorem minMax_isSome : ∀ {l : List Nat}, l ≠ [] → ∃ lo hi, minMax l = some (lo, hi)
  | [], h => absurd rfl h
  | a :: r, _ => by
    unfold minMax
    cases minMax r with
    | none => exact ⟨a, a, rfl⟩
    | some q => exact ⟨min a q.1, max a q.2, rfl⟩

theorem clipSpans_spec {t : List Span} {lo hi : Nat} {a b : Span}
    (hlo : t[lo]? = some a) (hhi : t[hi]? = some b) :
    ∃ cropped, clipSpans t lo hi = some ((a.1, b.2), cropped) ∧
      ∀ i, lo ≤ i → i ≤ hi →
        cropped[i - lo]? = (t[i]?).map fun s => (s.1 - a.1, s.2 - a.1) := by
  refine ⟨((t.drop lo).take (hi + 1 - lo)).map fun s => (s.1 - a.1, s.2 - a.1), ?_, ?_⟩
  · simp [clipSpans, hlo, hhi]
  · intro i h1 h2
    rw [List.getElem?_map, List.getElem?_take, if_pos (by omega), List.getElem?_drop]
    congr 2
    omega

theorem mapOpt_cons_some {α β} {f : α → Option β} {a : α} {r : List α} {bs : List β}
    (h : mapOpt f (a :: r) = some bs) :
    ∃ b bs', f a = some b ∧ mapOpt f r = some bs' ∧ bs = b :: bs' := by
  unfold mapOpt at h
  cases hf : f a with
  | none => simp [hf] at h
  | some b =>
    cases hr : mapOpt f r with
    | none => simp [hf, hr] at h
    | some bs' => simp [hf, hr] at h; exact ⟨b, bs', rfl, rfl, h.symm⟩

theorem mapOpt_isSome {α β} {f : α → Option β} : ∀ {l : List α},
    (∀ a ∈ l, ∃ b, f a = some b) → ∃ bs, mapOpt f l = some bs
  | [], _ => ⟨[], rfl⟩
  | a :: r, h => by
    obtain ⟨b, hb⟩ := h a (by simp)
    obtain ⟨bs, hbs⟩ := mapOpt_isSome (l := r) (fun x hx => h x (by simp [hx]))
    exact ⟨b :: bs, by simp [mapOpt, hb, hbs]⟩

theorem mapOpt_congr {α β} {f g : α → Option β} : ∀ {l : List α} {bs : List β},
    mapOpt f l = some bs → (∀ a ∈ l, ∀ b, f a = some b → g a = some b) → mapOpt g l = some bs
  | [], bs, h, _ => by simpa [mapOpt] using h
  | a :: r, bs, h, hfg => by
    obtain ⟨b, bs', h1, h2, rfl⟩ := mapOpt_cons_some h
    have := mapOpt_congr h2 (fun x hx => hfg x (by simp [hx]))
    simp [mapOpt, hfg a (by simp) b h1, this]

/-! ### `BlockAssembler.extract`: assemble = window of the mosaic on the pasted tiles -/

theorem srcBlock_some {src : Img} {sy sx : List Span} {idx : TIdx} {b : Img}
    (h : srcBlock src sy sx idx = some b) :
    ∃ ys xs, sy[idx.1]? = some ys ∧ sx[idx.2]? = some xs ∧ b = window src ys xs := by
  unfold srcBlock at h
  cases hy : sy[idx.1]? with
  | none => simp [hy] at h
  | some ys =>
    cases hx : sx[idx.2]? with
    | none => simp [hy, hx] at h
    | some xs =>
      simp [hy, hx] at h
      exact ⟨ys, xs, rfl, rfl, h.symm⟩

/-- The blocks of the selected tiles pasted into the clipped window (offset `(oy, ox)`, tile
indices re-based by `(y1, x1)`): on every pixel covered by a selected tile the result is the
source pixel, elsewhere it is the initial content. -/
theorem assemble_spec (src : Img) (sy sx cy cx : List Span) (y1 x1 : Nat) (oy ox : Int) :
    ∀ (sel : List TIdx) (blocks : List Img) (acc : Img),
      mapOpt (srcBlock src sy sx) sel = some blocks →
      (∀ idx ∈ sel, y1 ≤ idx.1 ∧ x1 ≤ idx.2 ∧
          cy[idx.1 - y1]? = (sy[idx.1]?).map (fun s => (s.1 - oy, s.2 - oy)) ∧
          cx[idx.2 - x1]? = (sx[idx.2]?).map (fun s => (s.1 - ox, s.2 - ox))) →
      ∃ asm, assemble cy cx ((sel.map fun i => (i.1 - y1, i.2 - x1)).zip blocks) acc = some asm ∧
        (∀ p : Int × Int, (∃ idx ∈ sel, InTile sy idx.1 (p.1 + oy) ∧ InTile sx idx.2 (p.2 + ox)) →
            asm p = src (p.1 + oy, p.2 + ox)) ∧
        (∀ p : Int × Int, (¬ ∃ idx ∈ sel, InTile sy idx.1 (p.1 + oy) ∧ InTile sx idx.2 (p.2 + ox)) →
            asm p = acc p)
  | [], blocks, acc, hb, _ => by
    simp [mapOpt] at hb
    subst hb
    exact ⟨acc, by simp [assemble], by simp, by simp⟩
  | idx :: r, blocks, acc, hb, hsel => by
    obtain ⟨b, bs', hb1, hb2, rfl⟩ := mapOpt_cons_some hb
    obtain ⟨ys, xs, hys, hxs, rfl⟩ := srcBlock_some hb1
    obtain ⟨_, _, hcy, hcx⟩ := hsel idx (by simp)
    rw [hys] at hcy
    rw [hxs] at hcx
    simp only [Option.map_some] at hcy hcx
    obtain ⟨asm, h1, ha, hn⟩ := assemble_spec src sy sx cy cx y1 x1 oy ox r bs'
      (pasteBlock acc (ys.1 - oy, ys.2 - oy) (xs.1 - ox, xs.2 - ox) (window src ys xs)) hb2
      (fun i hi => hsel i (by simp [hi]))
    refine ⟨asm, ?_, ?_, ?_⟩
    · simp only [List.map_cons, List.zip_cons_cons, assemble, hcy, hcx]
      simpa using h1
    · intro p hp
      by_cases hr : ∃ i ∈ r, InTile sy i.1 (p.1 + oy) ∧ InTile sx i.2 (p.2 + ox)
      · exact ha p hr
      · rw [hn p hr]
        obtain ⟨i, hi, hiy, hix⟩ := hp
        simp only [List.mem_cons] at hi
        rcases hi with rfl | hi
        · obtain ⟨s1, e1, a1, a2⟩ := hiy
          obtain ⟨s2, e2, a3, a4⟩ := hix
          rw [hys] at e1; rw [hxs] at e2
          simp only [Option.some.injEq] at e1 e2
          subst e1; subst e2
          unfold pasteBlock window
          simp only []
          rw [if_pos (by omega), if_pos (by omega)]
          congr 2 <;> omega
        · exact absurd ⟨i, hi, hiy, hix⟩ hr
    · intro p hp
      have hr : ¬ ∃ i ∈ r, InTile sy i.1 (p.1 + oy) ∧ InTile sx i.2 (p.2 + ox) := by
        rintro ⟨i, hi, h⟩
        exact hp ⟨i, by simp [hi], h⟩
      rw [hn p hr]
      unfold pasteBlock
      simp only []
      rw [if_neg]
      rintro ⟨c1, c2, c3, c4⟩
      exact hp ⟨idx, by simp, ⟨ys, hys, by omega, by omega⟩, ⟨xs, hxs, by omega, by omega⟩⟩

/-! ### one output pixel as a function of the sampled source pixel -/

/-- what `_rio_reproject` writes into a destination pixel, given the source pixel it samples -/
def outPix (V : Variant) (G : Gdal) (k : DKind) (srcNd dstNd : Option Val) (src : Img)
    (smp : Option (Int × Int)) : Option Val :=
  (match smp with
   | none => some (initVal (effNodata (encNodata V k dstNd) (encNodata V k srcNd)))
   | some s =>
     match encImg k src s with
     | none => none
     | some v =>
       if encNodata V k srcNd = some v
       then some (initVal (effNodata (encNodata V k dstNd) (encNodata V k srcNd)))
       else some (G.emit (effNodata (encNodata V k dstNd) (encNodata V k srcNd)) v)).map (decVal k)

theorem rioPlane_eq (V : Variant) (G : Gdal) (k : DKind) (src : Img) (sh sw : Int) (buf : Img)
    (S D : Aff) (srcNd dstNd : Option Val) (d : Int × Int) (hb : (buf d).isSome) :
    rioReprojectPlane V G k src sh sw buf S D srcNd dstNd d =
      outPix V G k srcNd dstNd src (samplePix (S.inv * D) sh sw d) := by
  unfold rioReprojectPlane gdalNearest outPix
  cases hbd : buf d with
  | none => simp [hbd] at hb
  | some v =>
    simp only [encImg, hbd, Option.map_some]
    cases samplePix (S.inv * D) sh sw d with
    | none => rfl
    | some s =>
      simp only []
      cases src s with
      | none => rfl
      | some v => simp only [Option.map_some]

theorem full_isSome (h w : Int) (v : Val) (p : Int × Int)
    (hp : 0 ≤ p.1 ∧ p.1 < h ∧ 0 ≤ p.2 ∧ p.2 < w) : (full h w v p).isSome := by
  simp [full, hp]

/-- `_do_chunked_reproject` pixel by pixel: it succeeds, and every pixel of the chunk that
samples nothing, or samples a source pixel lying in one of the listed source tiles, holds
what `_rio_reproject` writes for that sampled pixel of the *whole* source. -/
theorem doChunked_pixel (c : Cfg) (G : Gdal) (src : Img) (idx : TIdx) (blocks : List Img)
    (hsy : Chain 0 c.sy c.srcH) (hsx : Chain 0 c.sx c.srcW) (hS : c.S.det ≠ 0)
    (hvalid : DepsValid c) (hne : lookupDeps c.deps idx ≠ [])
    (hblocks : mapOpt (srcBlock src c.sy c.sx) (lookupDeps c.deps idx) = some blocks)
    (ty tx : Span) (hty : c.dy[idx.1]? = some ty) (htx : c.dx[idx.2]? = some tx) :
    ∃ blk, doChunkedReproject c G idx blocks = some blk ∧
      ∀ d' : Int × Int, 0 ≤ d'.1 → d'.1 < ty.2 - ty.1 → 0 ≤ d'.2 → d'.2 < tx.2 - tx.1 →
        (match samplePix (c.S.inv * c.D) c.srcH c.srcW (d'.1 + ty.1, d'.2 + tx.1) with
          | none => True
          | some s => ∃ i ∈ lookupDeps c.deps idx, InTile c.sy i.1 s.1 ∧ InTile c.sx i.2 s.2) →
        blk d' = outPix c.variant G c.kind c.srcNd
          (chunkDstNodata c.variant c.kind c.srcNd c.dstNd) src
          (samplePix (c.S.inv * c.D) c.srcH c.srcW (d'.1 + ty.1, d'.2 + tx.1)) := by
  set sel := lookupDeps c.deps idx with hsel
  have hney : sel.map (·.1) ≠ [] := by simpa using hne
  have hnex : sel.map (·.2) ≠ [] := by simpa using hne
  obtain ⟨y1, y2, hmy⟩ := minMax_isSome hney
  obtain ⟨x1, x2, hmx⟩ := minMax_isSome hnex
  obtain ⟨hby, hy1, hy2⟩ := minMax_spec hmy
  obtain ⟨hbx, hx1, hx2⟩ := minMax_spec hmx
  -- the extreme indices are valid tile indices
  have valid_y : ∀ a ∈ sel.map (·.1), ∃ s, c.sy[a]? = some s := by
    intro a ha
    obtain ⟨i, hi, rfl⟩ := List.mem_map.1 ha
    have := (hvalid idx i hi).1
    exact ⟨c.sy[i.1], by simp [this]⟩
  have valid_x : ∀ a ∈ sel.map (·.2), ∃ s, c.sx[a]? = some s := by
    intro a ha
    obtain ⟨i, hi, rfl⟩ := List.mem_map.1 ha
    have := (hvalid idx i hi).2
    exact ⟨c.sx[i.2], by simp [this]⟩
  obtain ⟨ay, hay⟩ := valid_y y1 hy1
  obtain ⟨by_, hby_⟩ := valid_y y2 hy2
  obtain ⟨ax, hax⟩ := valid_x x1 hx1
  obtain ⟨bx, hbx_⟩ := valid_x x2 hx2
  obtain ⟨cy, hcy, hcyi⟩ := clipSpans_spec hay hby_
  obtain ⟨cx, hcx, hcxi⟩ := clipSpans_spec hax hbx_
  -- assemble
  obtain ⟨asm, hasm, hcov, _⟩ := assemble_spec src c.sy c.sx cy cx y1 x1 ay.1 ax.1 sel blocks
    (full (by_.2 - ay.1) (bx.2 - ax.1) (extractFill c.srcNd c.kind)) hblocks
    (by
      intro i hi
      have h1 := hby i.1 (List.mem_map.2 ⟨i, hi, rfl⟩)
      have h2 := hbx i.2 (List.mem_map.2 ⟨i, hi, rfl⟩)
      exact ⟨h1.1, h2.1, hcyi i.1 h1.1 h1.2, hcxi i.2 h2.1 h2.2⟩)
  refine ⟨_, by
    unfold doChunkedReproject
    simp only [← hsel, hmy, hmx, hcy, hcx, hty, htx, hasm, Option.bind_eq_bind, Option.bind_some,
      Option.pure_def]
    rfl, ?_⟩
  intro d' hd1 hd2 hd3 hd4 hcover
  -- window geometry
  have gy1 := Chain.get hsy hay
  have gy2 := Chain.get hsy hby_
  have gx1 := Chain.get hsx hax
  have gx2 := Chain.get hsx hbx_
  rw [rioPlane_eq _ _ _ _ _ _ _ _ _ _ _ _ (full_isSome _ _ _ _ ⟨hd1, hd2, hd3, hd4⟩)]
  have hA := pixMap_crop c.S c.D hS (ax.1 : Int) (ay.1 : Int) (tx.1 : Int) (ty.1 : Int)
  rw [samplePix_window (c.S.inv * c.D) _ c.srcH c.srcW (by_.2 - ay.1) (bx.2 - ax.1) ay.1 ax.1 ty.1 tx.1 d'
    hA ⟨by omega, by omega, by omega, by omega⟩]
  cases hs : samplePix (c.S.inv * c.D) c.srcH c.srcW (d'.1 + ty.1, d'.2 + tx.1) with
  | none => simp [outPix]
  | some s =>
    rw [hs] at hcover
    obtain ⟨i, hi, ⟨s1, e1, a1, a2⟩, ⟨s2, e2, a3, a4⟩⟩ := hcover
    have h1 := hby i.1 (List.mem_map.2 ⟨i, hi, rfl⟩)
    have h2 := hbx i.2 (List.mem_map.2 ⟨i, hi, rfl⟩)
    have m1 := Chain.mono hsy h1.1 hay e1
    have m2 := Chain.mono hsy h1.2 e1 hby_
    have m3 := Chain.mono hsx h2.1 hax e2
    have m4 := Chain.mono hsx h2.2 e2 hbx_
    simp only []
    rw [if_pos (by omega)]
    have := hcov (s.1 - ay.1, s.2 - ax.1) ⟨i, hi, ⟨s1, e1, by simp; omega, by simp; omega⟩,
      ⟨s2, e2, by simp; omega, by simp; omega⟩⟩
    simp only [Int.sub_add_cancel] at this
    simp only [outPix, encImg, this]

/-! ### nodata bookkeeping of the repaired code -/

theorem chunkDstNodata_eq_rio (k : DKind) (sn dn : Option Val) (hnd : dn = none → sn = none) :
    chunkDstNodata Variant.repaired k sn dn = rioNodataDefault k dn := by
  cases dn with
  | some v => cases sn <;> simp [chunkDstNodata, rioNodataDefault]
  | none =>
    rw [hnd rfl]
    simp [chunkDstNodata, rioNodataDefault, Variant.repaired]

/-- the value an unreached pixel of a *task* chunk holds is `resolve_fill_value` (F10 repaired,
boolean nodata repaired) — for every nodata setting -/
theorem chunk_fill_eq (k : DKind) (sn dn : Option Val) (hd : NodataOk k dn) (hs : NodataOk k sn) :
    decVal k (initVal (effNodata
      (encNodata Variant.repaired k (chunkDstNodata Variant.repaired k sn dn))
      (encNodata Variant.repaired k sn))) = resolveFill dn sn k := by
  cases k with
  | float =>
    cases dn <;> cases sn <;>
      simp [chunkDstNodata, encNodata, effNodata, initVal, decVal, resolveFill, Variant.repaired]
  | int =>
    cases dn <;> cases sn <;>
      simp [chunkDstNodata, encNodata, effNodata, initVal, decVal, resolveFill, Variant.repaired]
  | bool =>
    cases dn with
    | some v =>
      rcases hd rfl v rfl with rfl | rfl <;> cases sn <;>
        simp [chunkDstNodata, encNodata, effNodata, initVal, decVal, resolveFill, Variant.repaired, encVal]
    | none =>
      cases sn with
      | none =>
        simp [chunkDstNodata, encNodata, effNodata, initVal, decVal, resolveFill, Variant.repaired]
      | some v =>
        rcases hs rfl v rfl with rfl | rfl <;>
          simp [chunkDstNodata, encNodata, effNodata, initVal, decVal, resolveFill, Variant.repaired, encVal]

/-! ### one pixel of the computed dask array -/

theorem dask_pixel (c : Cfg) (G : Gdal) (src : Img)
    (hsy : Chain 0 c.sy c.srcH) (hsx : Chain 0 c.sx c.srcW)
    (hdy : Chain 0 c.dy c.dstH) (hdx : Chain 0 c.dx c.dstW) (hS : c.S.det ≠ 0)
    (hvalid : DepsValid c) (d : Int × Int)
    (hd : 0 ≤ d.1 ∧ d.1 < c.dstH ∧ 0 ≤ d.2 ∧ d.2 < c.dstW) :
    ∃ iy ix, InTile c.dy iy d.1 ∧ InTile c.dx ix d.2 ∧
      (lookupDeps c.deps (iy, ix) = [] →
        daskResult c G src d = some (resolveFill c.dstNd c.srcNd c.kind)) ∧
      (lookupDeps c.deps (iy, ix) ≠ [] →
        (match samplePix (c.S.inv * c.D) c.srcH c.srcW d with
          | none => True
          | some s => ∃ i ∈ lookupDeps c.deps (iy, ix), InTile c.sy i.1 s.1 ∧ InTile c.sx i.2 s.2) →
        daskResult c G src d = outPix c.variant G c.kind c.srcNd
          (chunkDstNodata c.variant c.kind c.srcNd c.dstNd) src
          (samplePix (c.S.inv * c.D) c.srcH c.srcW d)) := by
  obtain ⟨h1, h2, h3, h4⟩ := hd
  obtain ⟨iy, hiy⟩ := Chain.locate_some hdy h1 h2
  obtain ⟨ix, hix⟩ := Chain.locate_some hdx h3 h4
  obtain ⟨ty, hty, t1, t2⟩ := locate_spec hiy
  obtain ⟨tx, htx, t3, t4⟩ := locate_spec hix
  obtain ⟨blocks, hblocks⟩ := mapOpt_isSome (f := srcBlock src c.sy c.sx)
    (l := lookupDeps c.deps (iy, ix)) (by
      intro i hi
      have := hvalid (iy, ix) i hi
      exact ⟨window src c.sy[i.1] c.sx[i.2], by simp [srcBlock, this.1, this.2]⟩)
  refine ⟨iy, ix, ⟨ty, hty, t1, t2⟩, ⟨tx, htx, t3, t4⟩, ?_, ?_⟩
  · intro he
    unfold daskResult
    simp only [hiy, hix, hty, htx, Option.bind_eq_bind, Option.bind_some, dstBlock, dstTask, he,
      List.isEmpty_nil, if_true, constBlock, Option.pure_def]
    simp only [mapOpt, Option.bind_some, full]
    rw [if_pos (by omega)]
  · intro hne hcov
    obtain ⟨blk, hblk, hpix⟩ := doChunked_pixel c G src (iy, ix) blocks hsy hsx hS hvalid hne hblocks
      ty tx hty htx
    have hne' : (lookupDeps c.deps (iy, ix)).isEmpty = false := by
      cases h : lookupDeps c.deps (iy, ix) with
      | nil => exact absurd h hne
      | cons a r => rfl
    unfold daskResult
    simp only [hiy, hix, hty, htx, Option.bind_eq_bind, Option.bind_some, dstBlock, hblocks, dstTask, hne',
      hblk]
    have e : (d.1 - ty.1 + ty.1, d.2 - tx.1 + tx.1) = d := by
      ext <;> simp
    have := hpix (d.1 - ty.1, d.2 - tx.1) (by simp; omega) (by simp; omega) (by simp; omega) (by simp; omega)
    simp only [e] at this
    simpa using this hcov

/-! ### execution of the task graph -/

theorem lookup_mem {k : Key} {v : Img} : ∀ {st : Store}, st.lookup k = some v → (k, v) ∈ st
  | [], h => by simp [List.lookup] at h
  | (k', v') :: r, h => by
    unfold List.lookup at h
    split at h
    · next heq =>
      have : k = k' := by simpa using heq
      simp at h
      subst this; subst h
      simp
    · exact List.mem_cons_of_mem _ (lookup_mem h)

theorem mapOpt_map {α β γ} (f : β → Option γ) (g : α → β) : ∀ (l : List α),
    mapOpt f (l.map g) = mapOpt (fun a => f (g a)) l
  | [] => rfl
  | a :: r => by simp [mapOpt, mapOpt_map f g r]

/-- store invariant: every stored value is the denotation of its key -/
def StoreOk (c : Cfg) (G : Gdal) (src : Img) (st : Store) : Prop :=
  ∀ k v, (k, v) ∈ st → denote c G src k = some v

theorem runTask_ok (c : Cfg) (G : Gdal) (src : Img) {st st' : Store} {k : Key}
    (hst : StoreOk c G src st) (h : runTask (graph c G src) st k = some st') :
    ∃ v, st' = (k, v) :: st ∧ denote c G src k = some v := by
  unfold runTask at h
  cases k with
  | src i =>
    simp only [graph] at h
    cases hb : srcBlock src c.sy c.sx i with
    | none => simp [hb] at h
    | some b =>
      simp only [hb, Option.map_some, Option.bind_eq_bind, Option.bind_some, mapOpt, Option.pure_def,
        Option.some.injEq] at h
      exact ⟨b, h.symm, by simp [denote, hb]⟩
  | dst i =>
    simp only [graph] at h
    split at h
    · simp only [Option.bind_eq_bind, Option.bind_some, Option.pure_def] at h
      rw [mapOpt_map] at h
      cases ha : mapOpt (fun a => List.lookup (Key.src a) st) (lookupDeps c.deps i) with
      | none => simp [ha] at h
      | some args =>
        simp only [ha, Option.bind_some] at h
        cases hv : dstTask c G i args with
        | none => simp [hv] at h
        | some v =>
          simp only [hv, Option.bind_some, Option.some.injEq] at h
          refine ⟨v, h.symm, ?_⟩
          have hargs : mapOpt (srcBlock src c.sy c.sx) (lookupDeps c.deps i) = some args :=
            mapOpt_congr ha (fun j _ b hb => hst (Key.src j) b (lookup_mem hb))
          simp [denote, dstBlock, hargs, hv]
    · simp at h

theorem runOrder_ok (c : Cfg) (G : Gdal) (src : Img) : ∀ (order : List Key) {st st' : Store},
    StoreOk c G src st → runOrder (graph c G src) order st = some st' → StoreOk c G src st'
  | [], st, st', hst, h => by
    simp [runOrder] at h; subst h; exact hst
  | k :: r, st, st', hst, h => by
    unfold runOrder at h
    cases h1 : runTask (graph c G src) st k with
    | none => simp [h1] at h
    | some st1 =>
      simp only [h1, Option.bind_eq_bind, Option.bind_some] at h
      obtain ⟨v, rfl, hv⟩ := runTask_ok c G src hst h1
      refine runOrder_ok c G src r ?_ h
      intro k' v' hm
      simp only [List.mem_cons, Prod.mk.injEq] at hm
      rcases hm with ⟨rfl, rfl⟩ | hm
      · exact hv
      · exact hst k' v' hm

theorem lookup_cons_isSome {k k' : Key} {v : Img} {st : Store}
    (h : k' = k ∨ ∃ v', st.lookup k' = some v') : ∃ v', List.lookup k' ((k, v) :: st) = some v' := by
  unfold List.lookup
  cases hb : k' == k with
  | true => exact ⟨v, rfl⟩
  | false =>
    rcases h with rfl | h
    · simp at hb
    · exact h

theorem runTask_ready (c : Cfg) (G : Gdal) (src : Img)
    (hsy : Chain 0 c.sy c.srcH) (hsx : Chain 0 c.sx c.srcW) (hS : c.S.det ≠ 0)
    (hvalid : DepsValid c) {st : Store} {done : List Key} {k : Key}
    (hst : StoreOk c G src st) (hdone : ∀ k ∈ done, ∃ v, st.lookup k = some v)
    (hr : Ready c done k) : ∃ st', runTask (graph c G src) st k = some st' := by
  unfold runTask
  cases k with
  | src i =>
    obtain ⟨h1, h2⟩ := hr
    simp [graph, srcBlock, h1, h2, mapOpt]
  | dst i =>
    obtain ⟨h1, h2, h3⟩ := hr
    simp only [graph, h1, h2, and_self, if_true, Option.bind_eq_bind, Option.bind_some, Option.pure_def]
    rw [mapOpt_map]
    obtain ⟨args, ha⟩ := mapOpt_isSome (f := fun a => List.lookup (Key.src a) st)
      (l := lookupDeps c.deps i) (fun j hj => hdone _ (h3 j hj))
    have hargs : mapOpt (srcBlock src c.sy c.sx) (lookupDeps c.deps i) = some args :=
      mapOpt_congr ha (fun j _ b hb => hst (Key.src j) b (lookup_mem hb))
    simp only [ha, Option.bind_some]
    have : ∃ v, dstTask c G i args = some v := by
      unfold dstTask
      by_cases he : lookupDeps c.deps i = []
      · simp [he, constBlock, h1, h2]
      · have hne' : (lookupDeps c.deps i).isEmpty = false := by
          cases h : lookupDeps c.deps i with
          | nil => exact absurd h he
          | cons a r => rfl
        obtain ⟨blk, hblk, _⟩ := doChunked_pixel c G src i args hsy hsx hS hvalid he hargs
          c.dy[i.1] c.dx[i.2] (by simp [h1]) (by simp [h2])
        simp [hne', hblk]
    obtain ⟨v, hv⟩ := this
    simp [hv]

theorem runOrder_valid (c : Cfg) (G : Gdal) (src : Img)
    (hsy : Chain 0 c.sy c.srcH) (hsx : Chain 0 c.sx c.srcW) (hS : c.S.det ≠ 0)
    (hvalid : DepsValid c) : ∀ (order done : List Key) (st : Store),
    StoreOk c G src st → (∀ k ∈ done, ∃ v, st.lookup k = some v) → ValidOrder c done order →
    ∃ st', runOrder (graph c G src) order st = some st' ∧
      ∀ k, (k ∈ done ∨ k ∈ order) → ∃ v, st'.lookup k = some v
  | [], done, st, _, hdone, _ => ⟨st, rfl, fun k hk => by
      rcases hk with hk | hk
      · exact hdone k hk
      · simp at hk⟩
  | k :: r, done, st, hst, hdone, hv => by
    obtain ⟨hr, hv'⟩ := hv
    obtain ⟨st1, h1⟩ := runTask_ready c G src hsy hsx hS hvalid hst hdone hr
    obtain ⟨v, rfl, hden⟩ := runTask_ok c G src hst h1
    have hst1 : StoreOk c G src ((k, v) :: st) := by
      intro k' v' hm
      simp only [List.mem_cons, Prod.mk.injEq] at hm
      rcases hm with ⟨rfl, rfl⟩ | hm
      · exact hden
      · exact hst k' v' hm
    have hdone1 : ∀ k' ∈ k :: done, ∃ v', List.lookup k' ((k, v) :: st) = some v' := by
      intro k' hk'
      simp only [List.mem_cons] at hk'
      rcases hk' with rfl | hk'
      · exact lookup_cons_isSome (Or.inl rfl)
      · exact lookup_cons_isSome (Or.inr (hdone k' hk'))
    obtain ⟨st', h2, h3⟩ := runOrder_valid c G src hsy hsx hS hvalid r (k :: done) _ hst1 hdone1 hv'
    refine ⟨st', by simp [runOrder, h1, h2], ?_⟩
    intro k' hk'
    apply h3
    simp only [List.mem_cons] at hk' ⊢
    tauto

end OdcGeo.C13
