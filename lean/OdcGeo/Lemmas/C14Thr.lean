/- Helper lemmas for Props/C14Thr.lean. -/
import OdcGeo.Model.C14Thr
import OdcGeo.Lemmas.C14Args
namespace OdcGeo.C14

theorem getElem?_setAt {α : Type} : ∀ (l : List α) (i j : Nat) (a : α),
    (setAt l i a)[j]? = if j = i ∧ i < l.length then some a else l[j]?
  | [], i, j, a => by simp [setAt]
  | x :: xs, 0, j, a => by
    cases j with
    | zero => simp [setAt]
    | succ j => simp [setAt]
  | x :: xs, i + 1, j, a => by
    cases j with
    | zero => simp [setAt]
    | succ j => simp [setAt, getElem?_setAt xs i j a]

theorem length_setAt {α : Type} : ∀ (l : List α) (i : Nat) (a : α), (setAt l i a).length = l.length
  | [], _, _ => rfl
  | _ :: _, 0, _ => rfl
  | _ :: xs, i + 1, a => by simp [setAt, length_setAt xs i a]

end OdcGeo.C14
