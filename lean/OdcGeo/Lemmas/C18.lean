/-
Helper lemmas for C18: the inductive invariants of the two transition systems and their
preservation by every step (any thread, any state satisfying the invariant).
-/
import OdcGeo.Model.C18

namespace OdcGeo.C18

/-! ## Local variant -/
namespace Local

@[simp] theorem goto_pc_self (s : State) (t : Nat) (p : PC) : (s.goto t p).pc t = p := by
  simp [State.goto]

@[simp] theorem goto_pc_other (s : State) {t t' : Nat} (p : PC) (h : t' ≠ t) :
    (s.goto t p).pc t' = s.pc t' := by
  simp [State.goto, h]

@[simp] theorem goto_uploadId (s : State) (t : Nat) (p : PC) : (s.goto t p).uploadId = s.uploadId := rfl
@[simp] theorem goto_slot (s : State) (t : Nat) (p : PC) : (s.goto t p).slot = s.slot := rfl
@[simp] theorem goto_mylock (s : State) (t : Nat) (p : PC) : (s.goto t p).mylock = s.mylock := rfl
@[simp] theorem goto_locks (s : State) (t : Nat) (p : PC) : (s.goto t p).locks = s.locks := rfl
@[simp] theorem goto_creates (s : State) (t : Nat) (p : PC) : (s.goto t p).creates = s.creates := rfl
@[simp] theorem goto_calls (s : State) (t : Nat) (p : PC) : (s.goto t p).calls = s.calls := rfl

@[simp] theorem setMy_self (s : State) (t l : Nat) : (s.setMy t l).mylock t = l := by simp [State.setMy]
theorem setMy_other (s : State) {t t' : Nat} (l : Nat) (h : t' ≠ t) :
    (s.setMy t l).mylock t' = s.mylock t' := by simp [State.setMy, h]
@[simp] theorem setHolder_self (s : State) (l : Nat) (h : Option Nat) : (s.setHolder l h).locks l = h := by
  simp [State.setHolder]
theorem setHolder_other (s : State) {l l' : Nat} (h : Option Nat) (hne : l' ≠ l) :
    (s.setHolder l h).locks l' = s.locks l' := by simp [State.setHolder, hne]

@[simp] theorem setMy_slot (s : State) (t l : Nat) : (s.setMy t l).slot = s.slot := rfl
@[simp] theorem setMy_locks (s : State) (t l : Nat) : (s.setMy t l).locks = s.locks := rfl
@[simp] theorem setMy_pc (s : State) (t l : Nat) : (s.setMy t l).pc = s.pc := rfl
@[simp] theorem setMy_uploadId (s : State) (t l : Nat) : (s.setMy t l).uploadId = s.uploadId := rfl
@[simp] theorem setMy_creates (s : State) (t l : Nat) : (s.setMy t l).creates = s.creates := rfl
@[simp] theorem setMy_calls (s : State) (t l : Nat) : (s.setMy t l).calls = s.calls := rfl
@[simp] theorem setHolder_slot (s : State) (l : Nat) (h : Option Nat) : (s.setHolder l h).slot = s.slot := rfl
@[simp] theorem setHolder_mylock (s : State) (l : Nat) (h : Option Nat) :
    (s.setHolder l h).mylock = s.mylock := rfl
@[simp] theorem setHolder_pc (s : State) (l : Nat) (h : Option Nat) : (s.setHolder l h).pc = s.pc := rfl
@[simp] theorem setHolder_uploadId (s : State) (l : Nat) (h : Option Nat) :
    (s.setHolder l h).uploadId = s.uploadId := rfl
@[simp] theorem setHolder_creates (s : State) (l : Nat) (h : Option Nat) :
    (s.setHolder l h).creates = s.creates := rfl
@[simp] theorem setHolder_calls (s : State) (l : Nat) (h : Option Nat) :
    (s.setHolder l h).calls = s.calls := rfl

/-- program points inside the `with <lock>:` block -/
def inCS : PC → Bool
  | .recheck | .initAssert | .create | .setId _ | .release _ | .releaseFault => true
  | _ => false

/-- program points at which the thread has been handed its lock object and still uses it -/
def usesLock : PC → Bool
  | .acquire | .recheck | .initAssert | .create | .setId _ | .release _ | .releaseFault => true
  | _ => false

theorem usesLock_of_inCS {p : PC} (h : inCS p = true) : usesLock p = true := by
  cases p <;> simp_all [inCS, usesLock]

/-- What thread `t` may rely on when it is at program point `p` (repaired code). -/
def PCok (cfg : Cfg) (s : State) (t : Nat) : PC → Prop
  | .recheck => s.uploadId = 0 → s.creates = 0
  | .initAssert => s.uploadId = 0 ∧ s.creates = 0
  | .create => s.uploadId = 0 ∧ s.creates = 0
  | .setId id => id = 1 ∧ s.creates = 1 ∧ s.uploadId = 0
  | .release ok => ok = true ∧ s.uploadId = 1
  | .useAssert => s.uploadId = 1
  | .readId => s.uploadId = 1
  | .call id => id = 1 ∧ s.uploadId = 1
  | .askClient2 => s.uploadId = 1 ∧ cfg.kind t = .fin ∧ Call.complete 1 ∈ s.calls
  | .done => s.uploadId = 1 ∧
      (match cfg.kind t with
       | .write p => Call.upload p 1 ∈ s.calls
       | .fin => Call.complete 1 ∈ s.calls)
  | .failed => False
  | .releaseFault => s.uploadId = 0 ∧ s.creates = 0
  | .faulted => True
  | .start => True
  | .askClient => True
  | .lockGet => True
  | .lockSetdefault => True
  | .acquire => True

/-- Lock discipline: every thread that has been handed a lock object was handed the one
stored in `_state`; a thread inside the block holds it; nothing else is ever held. -/
structure LockInv (s : State) : Prop where
  sel : ∀ t, usesLock (s.pc t) = true → s.slot = some (s.mylock t)
  holds : ∀ t, inCS (s.pc t) = true → s.locks (s.mylock t) = some t
  only : ∀ l h, s.locks l = some h → s.slot = some l ∧ inCS (s.pc h) = true

/-- The inductive invariant of the repaired local protocol. -/
structure Inv (cfg : Cfg) (s : State) : Prop where
  ids : (s.uploadId = 0 ∨ s.uploadId = 1) ∧ (s.uploadId = 1 → s.creates = 1) ∧ s.creates ≤ 1
  free : s.held = none → s.uploadId = 0 → s.creates = 0
  lk : LockInv s
  pcs : ∀ t, PCok cfg s t (s.pc t)
  calls : ∀ c ∈ s.calls, c.id = 1
  count : s.calls.countP Call.isCreate = s.creates

theorem inv_init (cfg : Cfg) : Inv cfg init := by
  refine ⟨?_, ?_, ⟨?_, ?_, ?_⟩, ?_, ?_, ?_⟩ <;> simp [init, inCS, usesLock, PCok]

/-- Any state in which an attempt starts: nothing written or held yet, every thread at its
first instruction; `_state` may or may not already hold a lock object. -/
structure Fresh (s : State) : Prop where
  uploadId : s.uploadId = 0
  creates : s.creates = 0
  calls : s.calls = []
  locks : ∀ l, s.locks l = none
  pc : ∀ t, s.pc t = .start

theorem inv_fresh (cfg : Cfg) (s : State) (h : Fresh s) : Inv cfg s := by
  refine ⟨?_, ?_, ⟨?_, ?_, ?_⟩, ?_, ?_, ?_⟩
  · simp [h.uploadId, h.creates]
  · intro _ _; exact h.creates
  · intro t; simp [h.pc t, usesLock]
  · intro t; simp [h.pc t, inCS]
  · intro l t hl; rw [h.locks l] at hl; exact absurd hl (by simp)
  · intro t; rw [h.pc t]; trivial
  · intro c hc; rw [h.calls] at hc; exact absurd hc (by simp)
  · simp [h.calls, h.creates]

/-- at most one thread is inside the block -/
theorem LockInv.mutex {s : State} (hL : LockInv s) {t t' : Nat}
    (h : inCS (s.pc t) = true) (h' : inCS (s.pc t') = true) : t = t' := by
  have e1 := hL.sel t (usesLock_of_inCS h)
  have e2 := hL.sel t' (usesLock_of_inCS h')
  have hm : s.mylock t = s.mylock t' := Option.some.inj (e1.symm.trans e2)
  have l1 := hL.holds t h
  have l2 := hL.holds t' h'
  rw [hm] at l1
  exact Option.some.inj (l1.symm.trans l2)

theorem LockInv.others_outside {s : State} (hL : LockInv s) {t : Nat} (h : inCS (s.pc t) = true)
    (t' : Nat) (hne : t' ≠ t) : inCS (s.pc t') = false := by
  cases hc : inCS (s.pc t') with
  | false => rfl
  | true => exact absurd (hL.mutex hc h) hne

theorem LockInv.held_of_inCS {s : State} (hL : LockInv s) {t : Nat} (h : inCS (s.pc t) = true) :
    s.held = some t := by
  have e1 := hL.sel t (usesLock_of_inCS h)
  simp only [State.held, e1]
  exact hL.holds t h

/-- `PCok` only looks at the upload id, the create counter and membership in the call log. -/
theorem PCok_mono {cfg : Cfg} {s s' : State} {t : Nat} {p : PC}
    (hu : s'.uploadId = s.uploadId) (hc : s'.creates = s.creates)
    (hcalls : ∀ c, c ∈ s.calls → c ∈ s'.calls) (h : PCok cfg s t p) : PCok cfg s' t p := by
  cases p <;> simp only [PCok, hu, hc] at * <;> try exact h
  · exact ⟨h.1, h.2.1, hcalls _ h.2.2⟩
  · refine ⟨h.1, ?_⟩
    have h2 := h.2
    split <;> rename_i hk <;> rw [hk] at h2 <;> exact hcalls _ h2

/-- Outside the critical section nothing is assumed while the upload has not started. -/
theorem PCok_outside_zero {cfg : Cfg} {s s' : State} {t : Nat} {p : PC}
    (hcs : inCS p = false) (hz : s.uploadId = 0) (h : PCok cfg s t p) : PCok cfg s' t p := by
  cases p <;> simp [PCok, inCS, hz] at *

/-- Outside the critical section every assumption about the id is "`uploadId = 1`". -/
theorem PCok_outside_one {cfg : Cfg} {s s' : State} {t : Nat} {p : PC}
    (hcs : inCS p = false) (hu : s'.uploadId = 1) (hcalls : ∀ c, c ∈ s.calls → c ∈ s'.calls)
    (h : PCok cfg s t p) : PCok cfg s' t p := by
  cases p with
  | start | askClient | lockGet | lockSetdefault | acquire | faulted => trivial
  | recheck | initAssert | create | releaseFault => simp [inCS] at hcs
  | setId _ => simp [inCS] at hcs
  | release _ => simp [inCS] at hcs
  | useAssert | readId => exact hu
  | call id => exact ⟨h.1, hu⟩
  | askClient2 => exact ⟨hu, h.2.1, hcalls _ h.2.2⟩
  | done =>
    refine ⟨hu, ?_⟩
    have h2 := h.2
    split <;> rename_i hk <;> rw [hk] at h2 <;> exact hcalls _ h2
  | failed => exact h.elim

/-- The lock discipline is untouched by a step that leaves `_state`, the lock objects and
the threads' lock references alone and keeps thread `t` on the same side of the block. -/
theorem lockinv_frame {s s' : State} {t : Nat} {p : PC} (hL : LockInv s)
    (hslot : s'.slot = s.slot) (hmy : s'.mylock = s.mylock) (hlocks : s'.locks = s.locks)
    (hpc : s'.pc = (s.goto t p).pc)
    (hcs : inCS p = inCS (s.pc t)) (hul : usesLock p = usesLock (s.pc t)) : LockInv s' := by
  refine ⟨?_, ?_, ?_⟩
  · intro t'
    rw [hpc, hslot, hmy]
    by_cases h : t' = t
    · rw [h, goto_pc_self, hul]; exact hL.sel t
    · rw [goto_pc_other _ _ h]; exact hL.sel t'
  · intro t'
    rw [hpc, hmy, hlocks]
    by_cases h : t' = t
    · rw [h, goto_pc_self, hcs]; exact hL.holds t
    · rw [goto_pc_other _ _ h]; exact hL.holds t'
  · intro l h
    rw [hpc, hslot, hlocks]
    intro hl
    have := hL.only l h hl
    refine ⟨this.1, ?_⟩
    by_cases e : h = t
    · rw [e, goto_pc_self, hcs]; rw [e] at this; exact this.2
    · rw [goto_pc_other _ _ e]; exact this.2

/-- A step that only moves thread `t` to a program point on the same side of the lock. -/
theorem inv_goto {cfg : Cfg} {s : State} {t : Nat} {p : PC} (hI : Inv cfg s)
    (hcs : inCS p = inCS (s.pc t)) (hul : usesLock p = usesLock (s.pc t))
    (hp : PCok cfg s t p) : Inv cfg (s.goto t p) := by
  refine ⟨hI.ids, hI.free, lockinv_frame hI.lk rfl rfl rfl rfl hcs hul, ?_, hI.calls, hI.count⟩
  intro t'
  by_cases h : t' = t
  · rw [h, goto_pc_self]; exact PCok_mono (s := s) (s' := s.goto t p) rfl rfl (fun _ hc => hc) hp
  · rw [goto_pc_other _ _ h]
    exact PCok_mono (s := s) (s' := s.goto t p) rfl rfl (fun _ hc => hc) (hI.pcs t')

/-- thread `t` is handed the lock object `l` that is stored in `_state` -/
theorem inv_take_existing {cfg : Cfg} {s : State} {t l : Nat} (hI : Inv cfg s)
    (hout : usesLock (s.pc t) = false) (hslot : s.slot = some l) :
    Inv cfg ((s.setMy t l).goto t .acquire) := by
  have hncs : inCS (s.pc t) = false := by
    cases hc : inCS (s.pc t) with
    | false => rfl
    | true => rw [usesLock_of_inCS hc] at hout; exact absurd hout (by simp)
  refine ⟨hI.ids, hI.free, ⟨?_, ?_, ?_⟩, ?_, hI.calls, hI.count⟩
  · intro t'
    by_cases h : t' = t
    · intro _; rw [h]; simpa using hslot
    · simp only [goto_pc_other _ _ h, goto_mylock, goto_slot, setMy_other _ _ h]
      exact hI.lk.sel t'
  · intro t'
    by_cases h : t' = t
    · rw [h]; simp [inCS]
    · simp only [goto_pc_other _ _ h, goto_mylock, goto_locks, setMy_other _ _ h]
      exact hI.lk.holds t'
  · intro l' h hl
    have := hI.lk.only l' h hl
    refine ⟨this.1, ?_⟩
    by_cases e : h = t
    · rw [e, hncs] at this; exact absurd this.2 (by simp)
    · simp only [goto_pc_other _ _ e]; exact this.2
  · intro t'
    by_cases h : t' = t
    · rw [h, goto_pc_self]; trivial
    · rw [goto_pc_other _ _ h]
      exact PCok_mono (s := s) rfl rfl (fun _ hc => hc) (hI.pcs t')

theorem step_inv (cfg : Cfg) (hr : cfg.recheck = true) (ha : cfg.atomicLock = true) (s : State) (t : Nat)
    (hI : Inv cfg s) : Inv cfg (step cfg s t) := by
  have hpt := hI.pcs t
  have hL := hI.lk
  unfold step
  cases hpc : s.pc t with
  | start =>
    simp only
    apply inv_goto hI
    · rw [hpc]; split <;> rfl
    · rw [hpc]; split <;> rfl
    · split
      · rename_i hne
        have := hI.ids.1
        simp only [PCok]; omega
      · trivial
  | askClient => exact inv_goto hI (by rw [hpc]; rfl) (by rw [hpc]; rfl) trivial
  | lockGet =>
    simp only
    cases hs : s.slot with
    | some l => exact inv_take_existing hI (by rw [hpc]; rfl) hs
    | none => exact inv_goto hI (by rw [hpc]; rfl) (by rw [hpc]; rfl) trivial
  | lockSetdefault =>
    simp only [ha]
    cases hs : s.slot with
    | some l => exact inv_take_existing hI (by rw [hpc]; rfl) hs
    | none =>
      simp only
      -- nothing can be held and nobody has a lock object yet: `_state` was empty
      have hnone : ∀ l h, s.locks l = some h → False := fun l h hl => by
        have := (hL.only l h hl).1; rw [hs] at this; exact absurd this (by simp)
      have hnou : ∀ t', usesLock (s.pc t') = true → False := fun t' hu => by
        have := hL.sel t' hu; rw [hs] at this; exact absurd this (by simp)
      have hheld : s.held = none := by simp [State.held, hs]
      refine ⟨hI.ids, fun _ => hI.free hheld, ⟨?_, ?_, ?_⟩, ?_, hI.calls, hI.count⟩
      · intro t'
        by_cases h : t' = t
        · intro _; rw [h]; simp [State.setMy]
        · simp only [goto_pc_other _ _ h]
          intro hu; exact (hnou t' hu).elim
      · intro t'
        by_cases h : t' = t
        · rw [h]; simp [inCS]
        · simp only [goto_pc_other _ _ h]
          intro hc; exact (hnou t' (usesLock_of_inCS hc)).elim
      · intro l h hl
        exact (hnone l h hl).elim
      · intro t'
        by_cases h : t' = t
        · rw [h, goto_pc_self]; trivial
        · rw [goto_pc_other _ _ h]
          exact PCok_mono (s := s) rfl rfl (fun _ hc => hc) (hI.pcs t')
  | acquire =>
    simp only
    have hsel : s.slot = some (s.mylock t) := hL.sel t (by rw [hpc]; rfl)
    cases hl : s.locks (s.mylock t) with
    | some h => simpa using hI
    | none =>
      simp only [hr, if_true]
      have hheld : s.held = none := by simp [State.held, hsel, hl]
      refine ⟨hI.ids, ?_, ⟨?_, ?_, ?_⟩, ?_, hI.calls, hI.count⟩
      · intro h
        simp [State.held, State.setHolder, State.goto, hsel] at h
      · intro t'
        by_cases h : t' = t
        · intro _; rw [h]; exact hsel
        · simp only [goto_pc_other _ _ h]; exact hL.sel t'
      · intro t'
        by_cases h : t' = t
        · intro _; rw [h]; simp [State.setHolder, State.goto]
        · simp only [goto_pc_other _ _ h, goto_mylock, goto_locks]
          intro hc
          simp only [setHolder_pc] at hc
          have hold := hL.holds t' hc
          have hne : s.mylock t' ≠ s.mylock t := fun e => by rw [e, hl] at hold; exact absurd hold (by simp)
          simp only [setHolder_mylock]
          rw [setHolder_other _ _ hne]; exact hold
      · intro l' h hl'
        simp only [goto_locks] at hl'
        by_cases e : l' = s.mylock t
        · subst e
          rw [setHolder_self] at hl'
          have : h = t := (Option.some.inj hl').symm
          subst this
          exact ⟨hsel, by simp [inCS]⟩
        · rw [setHolder_other _ _ e] at hl'
          have := (hL.only l' h hl').1
          rw [hsel] at this
          exact absurd (Option.some.inj this).symm e
      · intro t'
        by_cases h : t' = t
        · rw [h, goto_pc_self]
          exact hI.free hheld
        · rw [goto_pc_other _ _ h]
          exact PCok_mono (s := s) rfl rfl (fun _ hc => hc) (hI.pcs t')
  | recheck =>
    simp only
    rw [hpc] at hpt
    apply inv_goto hI
    · rw [hpc]; split <;> rfl
    · rw [hpc]; split <;> rfl
    · split
      · rename_i hne
        have := hI.ids.1
        exact ⟨rfl, by omega⟩
      · rename_i hne
        have h0 : s.uploadId = 0 := by omega
        exact ⟨h0, hpt h0⟩
  | initAssert =>
    simp only
    rw [hpc] at hpt
    simp only [PCok] at hpt
    apply inv_goto hI
    · rw [hpc]; split <;> rfl
    · rw [hpc]; split <;> rfl
    · simp only [hpt.1, if_true, PCok]; exact ⟨trivial, hpt.2⟩
  | create =>
    simp only
    rw [hpc] at hpt
    simp only [PCok] at hpt
    have hcs : inCS (s.pc t) = true := by rw [hpc]; rfl
    cases hf : cfg.faultCreate t with
    | true =>
      simp only [if_true]
      exact inv_goto hI (by rw [hpc]; rfl) (by rw [hpc]; rfl) hpt
    | false =>
    simp only [Bool.false_eq_true, if_false]
    refine ⟨?_, ?_, lockinv_frame hL rfl rfl rfl rfl (by rw [hpc]; rfl) (by rw [hpc]; rfl), ?_, ?_, ?_⟩
    · simp [hpt.1, hpt.2]
    · intro h
      have := hL.held_of_inCS hcs
      simp only [State.held, goto_slot, goto_locks] at h this
      rw [this] at h; exact absurd h (by simp)
    · intro t'
      by_cases h : t' = t
      · subst h; simp [PCok, hpt.1, hpt.2]
      · simp only [goto_pc_other _ _ h]
        exact PCok_outside_zero (s := s) (hL.others_outside hcs t' h) hpt.1 (hI.pcs t')
    · intro c hc
      simp only [goto_calls, List.mem_cons] at hc
      rcases hc with rfl | hc
      · simp [Call.id, hpt.2]
      · exact hI.calls c hc
    · simp [List.countP_cons, Call.isCreate, hI.count]
  | setId id =>
    simp only
    rw [hpc] at hpt
    simp only [PCok] at hpt
    obtain ⟨rfl, hc1, hu0⟩ := hpt
    have hcs : inCS (s.pc t) = true := by rw [hpc]; rfl
    refine ⟨?_, ?_, lockinv_frame hL rfl rfl rfl rfl (by rw [hpc]; rfl) (by rw [hpc]; rfl), ?_, hI.calls, hI.count⟩
    · simp [hc1]
    · intro _ h0; simp at h0
    · intro t'
      by_cases h : t' = t
      · subst h; simp [PCok]
      · simp only [goto_pc_other _ _ h]
        exact PCok_outside_one (s := s) (hL.others_outside hcs t' h) rfl (fun _ hc => hc) (hI.pcs t')
  | release ok =>
    simp only
    rw [hpc] at hpt
    simp only [PCok] at hpt
    obtain ⟨rfl, hu1⟩ := hpt
    have hcs : inCS (s.pc t) = true := by rw [hpc]; rfl
    have hsel : s.slot = some (s.mylock t) := hL.sel t (usesLock_of_inCS hcs)
    simp only [if_true]
    refine ⟨hI.ids, ?_, ⟨?_, ?_, ?_⟩, ?_, hI.calls, hI.count⟩
    · intro _ h0; simp only [goto_uploadId] at h0
      have : s.uploadId = 0 := h0
      omega
    · intro t'
      by_cases h : t' = t
      · rw [h]; simp [usesLock]
      · simp only [goto_pc_other _ _ h]; exact hL.sel t'
    · intro t'
      by_cases h : t' = t
      · rw [h]; simp [inCS]
      · simp only [goto_pc_other _ _ h]
        intro hc
        simp only [setHolder_pc] at hc
        exact absurd hc (by rw [hL.others_outside hcs t' h]; simp)
    · intro l' h hl'
      simp only [goto_locks] at hl'
      by_cases e : l' = s.mylock t
      · subst e; rw [setHolder_self] at hl'; exact absurd hl' (by simp)
      · rw [setHolder_other _ _ e] at hl'
        have := (hL.only l' h hl').1
        rw [hsel] at this
        exact absurd (Option.some.inj this).symm e
    · intro t'
      by_cases h : t' = t
      · rw [h, goto_pc_self]; exact hu1
      · rw [goto_pc_other _ _ h]
        exact PCok_mono (s := s) rfl rfl (fun _ hc => hc) (hI.pcs t')
  | useAssert =>
    simp only
    rw [hpc] at hpt
    simp only [PCok] at hpt
    apply inv_goto hI
    · rw [hpc]; split <;> rfl
    · rw [hpc]; split <;> rfl
    · simp [hpt, PCok]
  | readId =>
    simp only
    rw [hpc] at hpt
    simp only [PCok] at hpt
    exact inv_goto hI (by rw [hpc]; rfl) (by rw [hpc]; rfl) (by simp [PCok, hpt])
  | call id =>
    simp only
    rw [hpc] at hpt
    simp only [PCok] at hpt
    obtain ⟨rfl, hu1⟩ := hpt
    cases hf : cfg.faultCall t with
    | true =>
      simp only [if_true]
      exact inv_goto hI (by rw [hpc]; rfl) (by rw [hpc]; rfl) trivial
    | false =>
    simp only [Bool.false_eq_true, if_false]
    cases hcr : cfg.crashCall t with
    | true =>
      simp only [if_true]
      cases hk : cfg.kind t with
      | write p =>
        simp only
        refine ⟨hI.ids, hI.free, lockinv_frame hL rfl rfl rfl rfl (by rw [hpc]; rfl) (by rw [hpc]; rfl),
          ?_, ?_, ?_⟩
        · intro t'
          by_cases h : t' = t
          · subst h; simp [PCok]
          · simp only [goto_pc_other _ _ h]
            exact PCok_mono (s := s) rfl rfl (fun _ hc => List.mem_cons_of_mem _ hc) (hI.pcs t')
        · intro c hc
          simp only [goto_calls, List.mem_cons] at hc
          rcases hc with rfl | hc
          · rfl
          · exact hI.calls c hc
        · simpa [List.countP_cons, Call.isCreate] using hI.count
      | fin =>
        simp only
        refine ⟨hI.ids, hI.free, lockinv_frame hL rfl rfl rfl rfl (by rw [hpc]; rfl) (by rw [hpc]; rfl),
          ?_, ?_, ?_⟩
        · intro t'
          by_cases h : t' = t
          · subst h; simp [PCok]
          · simp only [goto_pc_other _ _ h]
            exact PCok_mono (s := s) rfl rfl (fun _ hc => List.mem_cons_of_mem _ hc) (hI.pcs t')
        · intro c hc
          simp only [goto_calls, List.mem_cons] at hc
          rcases hc with rfl | hc
          · rfl
          · exact hI.calls c hc
        · simpa [List.countP_cons, Call.isCreate] using hI.count
    | false =>
    simp only [Bool.false_eq_true, if_false]
    cases hk : cfg.kind t with
    | write p =>
      simp only
      refine ⟨hI.ids, hI.free, lockinv_frame hL rfl rfl rfl rfl (by rw [hpc]; rfl) (by rw [hpc]; rfl),
        ?_, ?_, ?_⟩
      · intro t'
        by_cases h : t' = t
        · subst h; simp [PCok, hk, hu1]
        · simp only [goto_pc_other _ _ h]
          exact PCok_mono (s := s) rfl rfl (fun _ hc => List.mem_cons_of_mem _ hc) (hI.pcs t')
      · intro c hc
        simp only [goto_calls, List.mem_cons] at hc
        rcases hc with rfl | hc
        · rfl
        · exact hI.calls c hc
      · simpa [List.countP_cons, Call.isCreate] using hI.count
    | fin =>
      simp only
      refine ⟨hI.ids, hI.free, lockinv_frame hL rfl rfl rfl rfl (by rw [hpc]; rfl) (by rw [hpc]; rfl),
        ?_, ?_, ?_⟩
      · intro t'
        by_cases h : t' = t
        · subst h; simp [PCok, hk, hu1]
        · simp only [goto_pc_other _ _ h]
          exact PCok_mono (s := s) rfl rfl (fun _ hc => List.mem_cons_of_mem _ hc) (hI.pcs t')
      · intro c hc
        simp only [goto_calls, List.mem_cons] at hc
        rcases hc with rfl | hc
        · rfl
        · exact hI.calls c hc
      · simpa [List.countP_cons, Call.isCreate] using hI.count
  | askClient2 =>
    simp only
    rw [hpc] at hpt
    simp only [PCok] at hpt
    refine inv_goto hI (by rw [hpc]; rfl) (by rw [hpc]; rfl) ?_
    simp only [PCok, hpt.2.1]
    exact ⟨hpt.1, hpt.2.2⟩
  | releaseFault =>
    simp only
    rw [hpc] at hpt
    simp only [PCok] at hpt
    obtain ⟨hu0, hc0⟩ := hpt
    have hcs : inCS (s.pc t) = true := by rw [hpc]; rfl
    have hsel : s.slot = some (s.mylock t) := hL.sel t (usesLock_of_inCS hcs)
    refine ⟨hI.ids, ?_, ⟨?_, ?_, ?_⟩, ?_, hI.calls, hI.count⟩
    · intro _ _; exact hc0
    · intro t'
      by_cases h : t' = t
      · rw [h]; simp [usesLock]
      · simp only [goto_pc_other _ _ h]; exact hL.sel t'
    · intro t'
      by_cases h : t' = t
      · rw [h]; simp [inCS]
      · simp only [goto_pc_other _ _ h]
        intro hc
        simp only [setHolder_pc] at hc
        exact absurd hc (by rw [hL.others_outside hcs t' h]; simp)
    · intro l' h hl'
      simp only [goto_locks] at hl'
      by_cases e : l' = s.mylock t
      · subst e; rw [setHolder_self] at hl'; exact absurd hl' (by simp)
      · rw [setHolder_other _ _ e] at hl'
        have := (hL.only l' h hl').1
        rw [hsel] at this
        exact absurd (Option.some.inj this).symm e
    · intro t'
      by_cases h : t' = t
      · rw [h, goto_pc_self]; trivial
      · rw [goto_pc_other _ _ h]
        exact PCok_mono (s := s) rfl rfl (fun _ hc => hc) (hI.pcs t')
  | done => simpa using hI
  | failed => simpa using hI
  | faulted => simpa using hI

theorem runFrom_inv (cfg : Cfg) (hr : cfg.recheck = true) (ha : cfg.atomicLock = true) (sched : List Nat) :
    ∀ s, Inv cfg s → Inv cfg (runFrom cfg s sched) := by
  induction sched with
  | nil => intro s h; exact h
  | cons t rest ih => intro s h; exact ih _ (step_inv cfg hr ha s t h)

/-! ### progress -/

theorem step_pc_other (cfg : Cfg) (s : State) {t t' : Nat} (h : t' ≠ t) :
    (step cfg s t).pc t' = s.pc t' := by
  unfold step
  split <;> (try split) <;> (try split) <;> (try split) <;> simp [h, State.setMy, State.setHolder]

theorem runFrom_pc_unscheduled (cfg : Cfg) (sched : List Nat) (t : Nat) (ht : t ∉ sched) :
    ∀ s, (runFrom cfg s sched).pc t = s.pc t := by
  induction sched with
  | nil => intro s; rfl
  | cons u rest ih =>
    intro s
    have hu : t ≠ u := fun e => ht (e ▸ List.mem_cons_self)
    have hr : t ∉ rest := fun e => ht (List.mem_cons_of_mem _ e)
    show (runFrom cfg (step cfg s u) rest).pc t = s.pc t
    rw [ih hr, step_pc_other cfg s hu]

/-- a thread that is not enabled stutters -/
theorem step_of_not_enabled (cfg : Cfg) (s : State) (t : Nat) (h : enabled s t = false) :
    step cfg s t = s := by
  unfold enabled at h
  unfold step
  split at h <;> simp_all
  split <;> simp_all

/-- threads inside the critical section are never blocked -/
theorem enabled_of_inCS (s : State) (t : Nat) (h : inCS (s.pc t) = true) : enabled s t = true := by
  unfold enabled
  cases hp : s.pc t <;> simp_all [inCS]

/-- In a state of the repaired protocol in which no thread of `T` can move, where every
thread that has ever moved belongs to `T`, all threads of `T` have returned normally. -/
theorem all_done_of_stuck (cfg : Cfg) (s : State) (hI : Inv cfg s) (T : List Nat)
    (hT : ∀ t, s.pc t ≠ .start → t ∈ T) (hmax : ∀ t ∈ T, enabled s t = false) :
    ∀ t ∈ T, s.pc t = .done ∨ s.pc t = .faulted := by
  intro t ht
  have hen := hmax t ht
  have hok := hI.pcs t
  unfold enabled at hen
  cases hp : s.pc t <;> rw [hp] at hen hok <;> simp at hen ⊢
  · -- blocked at `acquire`: the holder is inside the critical section, hence enabled
    cases hl : s.locks (s.mylock t) with
    | none => simp [hl] at hen
    | some h =>
      have hcs : inCS (s.pc h) = true := (hI.lk.only _ h hl).2
      have hh : h ∈ T := hT h (fun e => by rw [e] at hcs; simp [inCS] at hcs)
      have := enabled_of_inCS s h hcs
      rw [hmax h hh] at this
      exact absurd this (by simp)
  · exact hok.elim

/-- number of steps a thread at program point `p` can still take -/
def remaining : PC → Nat
  | .start => 14 | .askClient => 13 | .lockGet => 12 | .lockSetdefault => 11 | .acquire => 10
  | .recheck => 9 | .initAssert => 8
  | .create => 7 | .setId _ => 6 | .release _ => 5 | .useAssert => 4 | .readId => 3
  | .call _ => 2 | .askClient2 => 1 | .releaseFault => 5 | .done => 0 | .failed => 0 | .faulted => 0

/-- every effective step brings the stepping thread strictly closer to its end -/
theorem step_decreases (cfg : Cfg) (s : State) (t : Nat) (h : enabled s t = true) :
    remaining ((step cfg s t).pc t) < remaining (s.pc t) := by
  unfold enabled at h
  unfold step
  cases hp : s.pc t with
  | start => simp only []; split <;> simp [remaining]
  | askClient => simp [remaining]
  | lockGet => simp only []; split <;> simp [remaining]
  | lockSetdefault => simp only []; split <;> simp [remaining]
  | acquire =>
    rw [hp] at h
    cases hl : s.locks (s.mylock t) with
    | none => simp only [goto_pc_self]; split <;> simp [remaining]
    | some _ => simp [hl] at h
  | recheck => simp only []; split <;> simp [remaining]
  | initAssert => simp only []; split <;> simp [remaining]
  | create => simp only []; split <;> simp [remaining]
  | setId _ => simp [remaining]
  | release _ => simp only []; split <;> simp [remaining]
  | releaseFault => simp [remaining]
  | useAssert => simp only []; split <;> simp [remaining]
  | readId => simp [remaining]
  | call _ => simp only []; split <;> (try split) <;> (try split) <;> simp [remaining]
  | askClient2 => simp [remaining]
  | done => rw [hp] at h; simp at h
  | failed => rw [hp] at h; simp at h
  | faulted => rw [hp] at h; simp at h

end Local

/-! ## Distributed variant -/
namespace Dist

@[simp] theorem goto_pc_self (s : State) (t : Nat) (p : PC) : (s.goto t p).pc t = p := by
  simp [State.goto]

@[simp] theorem goto_pc_other (s : State) {t t' : Nat} (p : PC) (h : t' ≠ t) :
    (s.goto t p).pc t' = s.pc t' := by
  simp [State.goto, h]

@[simp] theorem goto_wid (s : State) (t : Nat) (p : PC) : (s.goto t p).wid = s.wid := rfl
@[simp] theorem goto_var (s : State) (t : Nat) (p : PC) : (s.goto t p).var = s.var := rfl
@[simp] theorem goto_deleted (s : State) (t : Nat) (p : PC) : (s.goto t p).deleted = s.deleted := rfl
@[simp] theorem goto_lock (s : State) (t : Nat) (p : PC) : (s.goto t p).lock = s.lock := rfl
@[simp] theorem goto_creates (s : State) (t : Nat) (p : PC) : (s.goto t p).creates = s.creates := rfl
@[simp] theorem goto_calls (s : State) (t : Nat) (p : PC) : (s.goto t p).calls = s.calls := rfl

@[simp] theorem setWid_self (s : State) (w id : Nat) : (s.setWid w id).wid w = id := by
  simp [State.setWid]
@[simp] theorem setWid_var (s : State) (w id : Nat) : (s.setWid w id).var = s.var := rfl
@[simp] theorem setWid_deleted (s : State) (w id : Nat) : (s.setWid w id).deleted = s.deleted := rfl
@[simp] theorem setWid_lock (s : State) (w id : Nat) : (s.setWid w id).lock = s.lock := rfl
@[simp] theorem setWid_creates (s : State) (w id : Nat) : (s.setWid w id).creates = s.creates := rfl
@[simp] theorem setWid_calls (s : State) (w id : Nat) : (s.setWid w id).calls = s.calls := rfl
@[simp] theorem setWid_pc (s : State) (w id : Nat) : (s.setWid w id).pc = s.pc := rfl

theorem setWid_one_mono (s : State) (w w' : Nat) (h : s.wid w' = 1) : (s.setWid w 1).wid w' = 1 := by
  simp only [State.setWid]; split <;> simp_all

theorem setWid_one_range (s : State) (w w' : Nat) (h : s.wid w' = 0 ∨ s.wid w' = 1) :
    (s.setWid w 1).wid w' = 0 ∨ (s.setWid w 1).wid w' = 1 := by
  simp only [State.setWid]; split <;> simp_all

/-- program points inside the `with lock:` block -/
def inCS : PC → Bool
  | .get2 | .setOwn2 _ | .initAssert | .create | .setId _ | .readForVar | .setVar _ | .release _
  | .releaseFault => true
  | _ => false

/-- What thread `t` may rely on at program point `p`. -/
def PCok (cfg : Cfg) (s : State) (t : Nat) : PC → Prop
  | .start => True
  | .askClient => True
  | .get1 => True
  | .acquire => True
  | .setOwn1 id => id = 1 ∧ s.creates = 1
  | .get2 => s.var = none → s.creates = 0
  | .setOwn2 id => id = 1 ∧ s.var = some 1
  | .initAssert => s.var = none ∧ s.creates = 0
  | .create => s.var = none ∧ s.creates = 0
  | .setId id => id = 1 ∧ s.creates = 1 ∧ s.var = none
  | .readForVar => s.creates = 1 ∧ s.var = none ∧ s.wid (cfg.worker t) = 1
  | .setVar id => id = 1 ∧ s.creates = 1 ∧ s.var = none ∧ s.wid (cfg.worker t) = 1
  | .release a => a ≠ .raise ∧ s.var = some 1 ∧ s.wid (cfg.worker t) = 1
  | .endAssert => s.wid (cfg.worker t) = 1
  | .useAssert => s.wid (cfg.worker t) = 1
  | .readId => s.wid (cfg.worker t) = 1
  | .call id => id = 1 ∧ s.wid (cfg.worker t) = 1
  | .askClient2 => s.creates = 1 ∧ cfg.kind t = .fin ∧ Call.complete 1 ∈ s.calls
  | .delVar => s.creates = 1 ∧ cfg.kind t = .fin ∧ Call.complete 1 ∈ s.calls
  | .done => s.creates = 1 ∧
      (match cfg.kind t with
       | .write p => Call.upload p 1 ∈ s.calls
       | .fin => Call.complete 1 ∈ s.calls)
  | .failed => False
  | .releaseFault => s.var = none ∧ s.creates = 0
  | .faulted => True

structure Ids (s : State) : Prop where
  creates_le : s.creates ≤ 1
  wid_range : ∀ w, s.wid w = 0 ∨ s.wid w = 1
  wid_created : ∀ w, s.wid w = 1 → s.creates = 1
  var_range : s.var = none ∨ s.var = some 1
  var_created : s.var = some 1 → s.creates = 1

/-- The inductive invariant of the cluster protocol (valid until the variable is deleted). -/
structure Inv (cfg : Cfg) (s : State) : Prop where
  ids : Ids s
  free : s.lock = none → s.var = none → s.creates = 0
  mutex : ∀ t, inCS (s.pc t) = true ↔ s.lock = some t
  pcs : ∀ t, PCok cfg s t (s.pc t)
  calls : ∀ c ∈ s.calls, c.id = 1
  count : s.calls.countP Call.isCreate = s.creates

theorem inv_init (cfg : Cfg) : Inv cfg init := by
  refine ⟨⟨?_, ?_, ?_, ?_, ?_⟩, ?_, ?_, ?_, ?_, ?_⟩ <;> simp [init, inCS, PCok]

/-- `PCok` is monotone in "worker knows the id" and the call log; the variable only
matters inside the critical section. -/
theorem PCok_mono {cfg : Cfg} {s s' : State} {t : Nat} {p : PC}
    (hc : s'.creates = s.creates) (hw : ∀ w, s.wid w = 1 → s'.wid w = 1)
    (hv : inCS p = true → s'.var = s.var)
    (hcalls : ∀ c, c ∈ s.calls → c ∈ s'.calls) (h : PCok cfg s t p) : PCok cfg s' t p := by
  cases p with
  | start | askClient | get1 | acquire | faulted => trivial
  | releaseFault => exact ⟨(hv rfl) ▸ h.1, hc ▸ h.2⟩
  | setOwn1 id => exact ⟨h.1, hc ▸ h.2⟩
  | get2 => intro hv'; rw [hv rfl] at hv'; rw [hc]; exact h hv'
  | setOwn2 id => exact ⟨h.1, (hv rfl) ▸ h.2⟩
  | initAssert => exact ⟨(hv rfl) ▸ h.1, hc ▸ h.2⟩
  | create => exact ⟨(hv rfl) ▸ h.1, hc ▸ h.2⟩
  | setId id => exact ⟨h.1, hc ▸ h.2.1, (hv rfl) ▸ h.2.2⟩
  | readForVar => exact ⟨hc ▸ h.1, (hv rfl) ▸ h.2.1, hw _ h.2.2⟩
  | setVar id => exact ⟨h.1, hc ▸ h.2.1, (hv rfl) ▸ h.2.2.1, hw _ h.2.2.2⟩
  | release a => exact ⟨h.1, (hv rfl) ▸ h.2.1, hw _ h.2.2⟩
  | endAssert | useAssert | readId => exact hw _ h
  | call id => exact ⟨h.1, hw _ h.2⟩
  | askClient2 => exact ⟨hc ▸ h.1, h.2.1, hcalls _ h.2.2⟩
  | delVar => exact ⟨hc ▸ h.1, h.2.1, hcalls _ h.2.2⟩
  | done =>
    refine ⟨hc ▸ h.1, ?_⟩
    have h2 := h.2
    split <;> rename_i hk <;> rw [hk] at h2 <;> exact hcalls _ h2
  | failed => exact h.elim

/-- Outside the critical section nothing is assumed while no upload has been created. -/
theorem PCok_outside_zero {cfg : Cfg} {s s' : State} {t : Nat} {p : PC}
    (hcs : inCS p = false) (hz : s.creates = 0) (hI : Ids s) (h : PCok cfg s t p) :
    PCok cfg s' t p := by
  have hw : ∀ w, s.wid w = 1 → False := fun w hw1 => by have := hI.wid_created w hw1; omega
  cases p with
  | start | askClient | get1 | acquire | faulted => trivial
  | setOwn1 id => have := h.2; omega
  | get2 | initAssert | create | readForVar | releaseFault => simp [inCS] at hcs
  | setOwn2 _ => simp [inCS] at hcs
  | setId _ => simp [inCS] at hcs
  | setVar _ => simp [inCS] at hcs
  | release _ => simp [inCS] at hcs
  | endAssert | useAssert | readId => exact (hw _ h).elim
  | call id => exact (hw _ h.2).elim
  | askClient2 => have := h.1; omega
  | delVar => have := h.1; omega
  | done => have := h.1; omega
  | failed => exact h.elim

/-- Assemble the invariant after a step of thread `t` from the facts that differ. -/
theorem inv_frame {cfg : Cfg} {s s' : State} {t : Nat} (hI : Inv cfg s)
    (hpc : ∀ t', t' ≠ t → s'.pc t' = s.pc t')
    (hids : Ids s') (hfree : s'.lock = none → s'.var = none → s'.creates = 0)
    (hmt : inCS (s'.pc t) = true ↔ s'.lock = some t)
    (hlock : ∀ t', t' ≠ t → (s'.lock = some t' ↔ s.lock = some t'))
    (hpt : PCok cfg s' t (s'.pc t))
    (hothers : ∀ t', t' ≠ t → PCok cfg s t' (s.pc t') → PCok cfg s' t' (s.pc t'))
    (hcalls : ∀ c ∈ s'.calls, c.id = 1)
    (hcount : s'.calls.countP Call.isCreate = s'.creates) : Inv cfg s' := by
  refine ⟨hids, hfree, ?_, ?_, hcalls, hcount⟩
  · intro t'
    by_cases h : t' = t
    · rw [h]; exact hmt
    · rw [hpc t' h, hlock t' h]; exact hI.mutex t'
  · intro t'
    by_cases h : t' = t
    · rw [h]; exact hpt
    · rw [hpc t' h]; exact hothers t' h (hI.pcs t')

/-- A step that only moves thread `t` to a program point on the same side of the lock. -/
theorem inv_goto {cfg : Cfg} {s : State} {t : Nat} {p : PC} (hI : Inv cfg s)
    (hcs : inCS p = inCS (s.pc t)) (hp : PCok cfg s t p) : Inv cfg (s.goto t p) := by
  refine inv_frame (t := t) hI (fun t' h => goto_pc_other s p h)
    ⟨hI.ids.creates_le, hI.ids.wid_range, hI.ids.wid_created, hI.ids.var_range, hI.ids.var_created⟩ hI.free ?_
    (fun _ _ => Iff.rfl) ?_ (fun t' _ h => PCok_mono (s := s) rfl (fun _ h => h) (fun _ => rfl) (fun _ h => h) h)
    hI.calls hI.count
  · rw [goto_pc_self, hcs]; exact hI.mutex t
  · rw [goto_pc_self]
    exact PCok_mono (s := s) rfl (fun _ h => h) (fun _ => rfl) (fun _ h => h) hp

theorem others_outside {cfg : Cfg} {s : State} {t : Nat} (hI : Inv cfg s) (hlk : s.lock = some t)
    (t' : Nat) (h : t' ≠ t) : inCS (s.pc t') = false := by
  cases hc : inCS (s.pc t') with
  | false => rfl
  | true =>
    have := (hI.mutex t').1 hc
    rw [hlk] at this
    exact absurd (Option.some.inj this) (fun e => h e.symm)

theorem ids_setWid {s : State} (hI : Ids s) (w : Nat) (hc : s.creates = 1) : Ids (s.setWid w 1) :=
  ⟨hI.creates_le, fun w' => setWid_one_range s w w' (hI.wid_range w'), fun _ _ => hc,
    hI.var_range, hI.var_created⟩

theorem ids_goto {s : State} (hI : Ids s) (t : Nat) (p : PC) : Ids (s.goto t p) :=
  ⟨hI.creates_le, hI.wid_range, hI.wid_created, hI.var_range, hI.var_created⟩

theorem var_some_eq_one {s : State} (hI : Ids s) {id : Nat} (hv : s.var = some id) : id = 1 := by
  rcases hI.var_range with h | h <;> rw [hv] at h
  · exact absurd h (by simp)
  · exact Option.some.inj h

theorem step_inv (cfg : Cfg) (s : State) (t : Nat) (hI : Inv cfg s)
    (hd : (step cfg s t).deleted = false) : Inv cfg (step cfg s t) := by
  have hpt := hI.pcs t
  have hmt := hI.mutex t
  have hids := hI.ids
  revert hd
  unfold step
  cases hpc : s.pc t with
  | start =>
    intro _
    simp only
    apply inv_goto hI
    · rw [hpc]; split <;> rfl
    · split
      · rename_i hne
        have := hids.wid_range (cfg.worker t)
        show s.wid (cfg.worker t) = 1
        omega
      · trivial
  | askClient => intro _; exact inv_goto hI (by rw [hpc]; rfl) trivial
  | get1 =>
    intro _
    simp only
    cases hsp : cfg.spurGet1 t with
    | true =>
      simp only [if_true]
      exact inv_goto hI (by rw [hpc]; rfl) trivial
    | false =>
    simp only [Bool.false_eq_true, if_false]
    cases hv : s.var with
    | some id =>
      simp only
      refine inv_goto hI (by rw [hpc]; rfl) ?_
      exact ⟨var_some_eq_one hids hv, hids.var_created (var_some_eq_one hids hv ▸ hv)⟩
    | none => exact inv_goto hI (by rw [hpc]; rfl) trivial
  | setOwn1 id =>
    intro _
    simp only
    rw [hpc] at hpt hmt
    obtain ⟨rfl, hc1⟩ := hpt
    have hnl : s.lock ≠ some t := fun h => by simpa [inCS] using hmt.2 h
    refine inv_frame (t := t) hI (fun t' h => by simp [h]) (ids_goto (ids_setWid hids _ hc1) _ _) hI.free ?_
      (fun _ _ => Iff.rfl) ?_ ?_ hI.calls hI.count
    · simpa [inCS] using hnl
    · simp [PCok]
    · exact fun t' _ h => PCok_mono (s := s) rfl (fun w' h => setWid_one_mono s _ w' h) (fun _ => rfl)
        (fun _ h => h) h
  | acquire =>
    intro _
    simp only
    rw [hpc] at hmt
    cases hl : s.lock with
    | some h => simpa using hI
    | none =>
      simp only
      refine inv_frame (t := t) hI (fun t' h => by simp [h])
        ⟨hids.creates_le, hids.wid_range, hids.wid_created, hids.var_range, hids.var_created⟩ ?_ ?_ ?_ ?_ ?_
        hI.calls hI.count
      · intro h; simp at h
      · simp [inCS]
      · intro t' h
        simp only [goto_lock, hl]
        constructor
        · intro e; exact absurd (Option.some.inj e) (fun e => h e.symm)
        · intro e; simp at e
      · simp only [goto_pc_self]
        exact hI.free hl
      · exact fun t' _ h => PCok_mono (s := s) rfl (fun _ h => h) (fun _ => rfl) (fun _ h => h) h
  | get2 =>
    intro _
    simp only
    rw [hpc] at hpt
    cases hv : s.var with
    | some id =>
      simp only
      refine inv_goto hI (by rw [hpc]; rfl) ?_
      have h1 := var_some_eq_one hids hv
      subst h1
      exact ⟨rfl, hv⟩
    | none =>
      simp only
      exact inv_goto hI (by rw [hpc]; rfl) ⟨hv, hpt hv⟩
  | setOwn2 id =>
    intro _
    simp only
    rw [hpc] at hpt hmt
    obtain ⟨rfl, hv1⟩ := hpt
    have hlk : s.lock = some t := hmt.1 rfl
    have hc1 := hids.var_created hv1
    refine inv_frame (t := t) hI (fun t' h => by simp [h]) (ids_goto (ids_setWid hids _ hc1) _ _) hI.free ?_
      (fun _ _ => Iff.rfl) ?_ ?_ hI.calls hI.count
    · simpa [inCS] using hlk
    · simp only [goto_pc_self]
      exact ⟨by simp, hv1, by simp⟩
    · exact fun t' _ h => PCok_mono (s := s) rfl (fun w' h => setWid_one_mono s _ w' h) (fun _ => rfl)
        (fun _ h => h) h
  | initAssert =>
    intro _
    simp only
    rw [hpc] at hpt
    have hw0 : s.wid (cfg.worker t) = 0 := by
      rcases hids.wid_range (cfg.worker t) with h | h
      · exact h
      · have := hids.wid_created _ h; have := hpt.2; omega
    simp only [hw0, if_true]
    exact inv_goto hI (by rw [hpc]; rfl) hpt
  | create =>
    intro _
    simp only
    rw [hpc] at hpt hmt
    obtain ⟨hv0, hc0⟩ := hpt
    have hlk : s.lock = some t := hmt.1 rfl
    cases hf : cfg.faultCreate t with
    | true =>
      simp only [if_true]
      exact inv_goto hI (by rw [hpc]; rfl) ⟨hv0, hc0⟩
    | false =>
    simp only [Bool.false_eq_true, if_false]
    refine inv_frame (t := t) hI (fun t' h => by simp [h]) ?_ ?_ ?_ (fun _ _ => Iff.rfl) ?_ ?_ ?_ ?_
    · exact ⟨by simp [hc0], hids.wid_range, fun _ _ => by simp [hc0], hids.var_range,
        fun _ => by simp [hc0]⟩
    · intro h; simp [hlk] at h
    · simpa [inCS] using hlk
    · simp only [goto_pc_self]
      exact ⟨by simp [hc0], by simp [hc0], hv0⟩
    · intro t' h hp
      exact PCok_outside_zero (s := s) (others_outside hI hlk t' h) hc0 hids hp
    · intro c hc
      simp only [goto_calls, List.mem_cons] at hc
      rcases hc with rfl | hc
      · simp [Call.id, hc0]
      · exact hI.calls c hc
    · simp [List.countP_cons, Call.isCreate, hI.count]
  | setId id =>
    intro _
    simp only
    rw [hpc] at hpt hmt
    obtain ⟨rfl, hc1, hv0⟩ := hpt
    have hlk : s.lock = some t := hmt.1 rfl
    refine inv_frame (t := t) hI (fun t' h => by simp [h]) (ids_goto (ids_setWid hids _ hc1) _ _) hI.free ?_
      (fun _ _ => Iff.rfl) ?_ ?_ hI.calls hI.count
    · simpa [inCS] using hlk
    · simp only [goto_pc_self]
      exact ⟨hc1, hv0, by simp⟩
    · exact fun t' _ h => PCok_mono (s := s) rfl (fun w' h => setWid_one_mono s _ w' h) (fun _ => rfl)
        (fun _ h => h) h
  | readForVar =>
    intro _
    simp only
    rw [hpc] at hpt
    refine inv_goto hI (by rw [hpc]; rfl) ?_
    exact ⟨hpt.2.2, hpt.1, hpt.2.1, hpt.2.2⟩
  | setVar id =>
    intro _
    simp only
    rw [hpc] at hpt hmt
    obtain ⟨rfl, hc1, hv0, hw1⟩ := hpt
    have hlk : s.lock = some t := hmt.1 rfl
    refine inv_frame (t := t) hI (fun t' h => by simp [h]) ?_ ?_ ?_ (fun _ _ => Iff.rfl) ?_ ?_
      hI.calls hI.count
    · exact ⟨hids.creates_le, hids.wid_range, hids.wid_created, Or.inr rfl, fun _ => hc1⟩
    · intro h; simp [hlk] at h
    · simpa [inCS] using hlk
    · simp only [goto_pc_self]
      exact ⟨by simp, rfl, hw1⟩
    · intro t' h hp
      have hout := others_outside hI hlk t' h
      exact PCok_mono (s := s) rfl (fun _ h => h) (fun hc => by rw [hout] at hc; simp at hc)
        (fun _ h => h) hp
  | release a =>
    intro _
    simp only
    rw [hpc] at hpt hmt
    obtain ⟨ha, hv1, hw1⟩ := hpt
    have hlk : s.lock = some t := hmt.1 rfl
    refine inv_frame (t := t) hI (fun t' h => by simp [h])
      ⟨hids.creates_le, hids.wid_range, hids.wid_created, hids.var_range, hids.var_created⟩ ?_ ?_ ?_ ?_ ?_
      hI.calls hI.count
    · intro _ h0; simp only [goto_var] at h0; rw [hv1] at h0; simp at h0
    · simp only [goto_pc_self, goto_lock]
      cases a <;> simp [inCS] at ha ⊢
    · intro t' h
      simp only [goto_lock, hlk]
      constructor
      · intro e; simp at e
      · intro e; exact absurd (Option.some.inj e) (fun e => h e.symm)
    · simp only [goto_pc_self]
      cases a
      · exact absurd rfl ha
      · exact hw1
      · exact hw1
    · exact fun t' _ h => PCok_mono (s := s) rfl (fun _ h => h) (fun _ => rfl) (fun _ h => h) h
  | endAssert =>
    intro _
    simp only
    rw [hpc] at hpt
    have hw1 : s.wid (cfg.worker t) = 1 := hpt
    simp only [hw1]
    exact inv_goto hI (by rw [hpc]; rfl) hw1
  | useAssert =>
    intro _
    simp only
    rw [hpc] at hpt
    have hw1 : s.wid (cfg.worker t) = 1 := hpt
    simp only [hw1]
    exact inv_goto hI (by rw [hpc]; rfl) hw1
  | readId =>
    intro _
    simp only
    rw [hpc] at hpt
    have hw1 : s.wid (cfg.worker t) = 1 := hpt
    exact inv_goto hI (by rw [hpc]; rfl) ⟨hw1, hw1⟩
  | call id =>
    intro _
    simp only
    rw [hpc] at hpt hmt
    obtain ⟨rfl, hw1⟩ := hpt
    have hc1 := hids.wid_created _ hw1
    have hnl : s.lock ≠ some t := fun h => by simpa [inCS] using hmt.2 h
    cases hf : cfg.faultCall t with
    | true =>
      simp only [if_true]
      exact inv_goto hI (by rw [hpc]; rfl) trivial
    | false =>
    simp only [Bool.false_eq_true, if_false]
    cases hcr : cfg.crashCall t with
    | true =>
      simp only [if_true]
      cases hk : cfg.kind t with
      | write p =>
        simp only
        refine inv_frame (t := t) hI (fun t' h => by simp [h])
          ⟨hids.creates_le, hids.wid_range, hids.wid_created, hids.var_range, hids.var_created⟩ hI.free ?_
          (fun _ _ => Iff.rfl) ?_ ?_ ?_ ?_
        · simpa [inCS] using hnl
        · simp [PCok]
        · exact fun t' _ h => PCok_mono (s := s) rfl (fun _ h => h) (fun _ => rfl)
            (fun _ h => List.mem_cons_of_mem _ h) h
        · intro c hc
          simp only [goto_calls, List.mem_cons] at hc
          rcases hc with rfl | hc
          · rfl
          · exact hI.calls c hc
        · simpa [List.countP_cons, Call.isCreate] using hI.count
      | fin =>
        simp only
        refine inv_frame (t := t) hI (fun t' h => by simp [h])
          ⟨hids.creates_le, hids.wid_range, hids.wid_created, hids.var_range, hids.var_created⟩ hI.free ?_
          (fun _ _ => Iff.rfl) ?_ ?_ ?_ ?_
        · simpa [inCS] using hnl
        · simp [PCok]
        · exact fun t' _ h => PCok_mono (s := s) rfl (fun _ h => h) (fun _ => rfl)
            (fun _ h => List.mem_cons_of_mem _ h) h
        · intro c hc
          simp only [goto_calls, List.mem_cons] at hc
          rcases hc with rfl | hc
          · rfl
          · exact hI.calls c hc
        · simpa [List.countP_cons, Call.isCreate] using hI.count
    | false =>
    simp only [Bool.false_eq_true, if_false]
    cases hk : cfg.kind t with
    | write p =>
      simp only
      refine inv_frame (t := t) hI (fun t' h => by simp [h])
        ⟨hids.creates_le, hids.wid_range, hids.wid_created, hids.var_range, hids.var_created⟩ hI.free ?_
        (fun _ _ => Iff.rfl) ?_ ?_ ?_ ?_
      · simpa [inCS] using hnl
      · simp only [goto_pc_self]
        refine ⟨hc1, ?_⟩
        simp [hk]
      · exact fun t' _ h => PCok_mono (s := s) rfl (fun _ h => h) (fun _ => rfl)
          (fun _ h => List.mem_cons_of_mem _ h) h
      · intro c hc
        simp only [goto_calls, List.mem_cons] at hc
        rcases hc with rfl | hc
        · rfl
        · exact hI.calls c hc
      · simpa [List.countP_cons, Call.isCreate] using hI.count
    | fin =>
      simp only
      refine inv_frame (t := t) hI (fun t' h => by simp [h])
        ⟨hids.creates_le, hids.wid_range, hids.wid_created, hids.var_range, hids.var_created⟩ hI.free ?_
        (fun _ _ => Iff.rfl) ?_ ?_ ?_ ?_
      · simpa [inCS] using hnl
      · simp only [goto_pc_self]
        exact ⟨hc1, hk, by simp⟩
      · exact fun t' _ h => PCok_mono (s := s) rfl (fun _ h => h) (fun _ => rfl)
          (fun _ h => List.mem_cons_of_mem _ h) h
      · intro c hc
        simp only [goto_calls, List.mem_cons] at hc
        rcases hc with rfl | hc
        · rfl
        · exact hI.calls c hc
      · simpa [List.countP_cons, Call.isCreate] using hI.count
  | askClient2 =>
    intro _
    simp only
    rw [hpc] at hpt
    exact inv_goto hI (by rw [hpc]; rfl) hpt
  | delVar => intro hd; simp at hd
  | releaseFault =>
    intro _
    simp only
    rw [hpc] at hpt hmt
    obtain ⟨hv0, hc0⟩ := hpt
    have hlk : s.lock = some t := hmt.1 rfl
    refine inv_frame (t := t) hI (fun t' h => by simp [h])
      ⟨hids.creates_le, hids.wid_range, hids.wid_created, hids.var_range, hids.var_created⟩ ?_ ?_ ?_ ?_ ?_
      hI.calls hI.count
    · intro _ _; exact hc0
    · simp [inCS]
    · intro t' h
      simp only [goto_lock, hlk]
      constructor
      · intro e; simp at e
      · intro e; exact absurd (Option.some.inj e) (fun e => h e.symm)
    · simp only [goto_pc_self]; trivial
    · exact fun t' _ h => PCok_mono (s := s) rfl (fun _ h => h) (fun _ => rfl) (fun _ h => h) h
  | done => intro _; simpa using hI
  | failed => intro _; simpa using hI
  | faulted => intro _; simpa using hI

theorem step_deleted_mono (cfg : Cfg) (s : State) (t : Nat) (h : (step cfg s t).deleted = false) :
    s.deleted = false := by
  revert h
  unfold step
  cases hpc : s.pc t <;> simp only [] <;> (try split) <;> (try split) <;> (try split) <;> simp [State.goto, State.setWid]

theorem runFrom_deleted_mono (cfg : Cfg) (sched : List Nat) :
    ∀ s, (runFrom cfg s sched).deleted = false → s.deleted = false := by
  induction sched with
  | nil => intro s h; exact h
  | cons t rest ih => intro s h; exact step_deleted_mono cfg s t (ih _ h)

theorem runFrom_inv (cfg : Cfg) (sched : List Nat) :
    ∀ s, Inv cfg s → (runFrom cfg s sched).deleted = false → Inv cfg (runFrom cfg s sched) := by
  induction sched with
  | nil => intro s h _; exact h
  | cons t rest ih =>
    intro s h hd
    exact ih _ (step_inv cfg s t h (runFrom_deleted_mono cfg rest _ hd)) hd

/-! ### progress -/

theorem step_pc_other (cfg : Cfg) (s : State) {t t' : Nat} (h : t' ≠ t) :
    (step cfg s t).pc t' = s.pc t' := by
  unfold step
  simp only
  split <;> (try split) <;> (try split) <;> (try split) <;> simp [h]

theorem runFrom_pc_unscheduled (cfg : Cfg) (sched : List Nat) (t : Nat) (ht : t ∉ sched) :
    ∀ s, (runFrom cfg s sched).pc t = s.pc t := by
  induction sched with
  | nil => intro s; rfl
  | cons u rest ih =>
    intro s
    have hu : t ≠ u := fun e => ht (e ▸ List.mem_cons_self)
    have hr : t ∉ rest := fun e => ht (List.mem_cons_of_mem _ e)
    show (runFrom cfg (step cfg s u) rest).pc t = s.pc t
    rw [ih hr, step_pc_other cfg s hu]

theorem step_of_not_enabled (cfg : Cfg) (s : State) (t : Nat) (h : enabled s t = false) :
    step cfg s t = s := by
  unfold enabled at h
  unfold step
  simp only
  split at h <;> simp_all
  split <;> simp_all

theorem enabled_of_inCS (s : State) (t : Nat) (h : inCS (s.pc t) = true) : enabled s t = true := by
  unfold enabled
  cases hp : s.pc t <;> simp_all [inCS]

/-- In a state of the cluster protocol in which no thread of `T` can move, where every
thread that has ever moved belongs to `T`, all threads of `T` have returned normally. -/
theorem all_done_of_stuck (cfg : Cfg) (s : State) (hI : Inv cfg s) (T : List Nat)
    (hT : ∀ t, s.pc t ≠ .start → t ∈ T) (hmax : ∀ t ∈ T, enabled s t = false) :
    ∀ t ∈ T, s.pc t = .done ∨ s.pc t = .faulted := by
  intro t ht
  have hen := hmax t ht
  have hok := hI.pcs t
  unfold enabled at hen
  cases hp : s.pc t <;> rw [hp] at hen hok <;> simp at hen ⊢
  · cases hl : s.lock with
    | none => simp [hl] at hen
    | some h =>
      have hcs : inCS (s.pc h) = true := (hI.mutex h).2 hl
      have hh : h ∈ T := hT h (fun e => by rw [e] at hcs; simp [inCS] at hcs)
      have := enabled_of_inCS s h hcs
      rw [hmax h hh] at this
      exact absurd this (by simp)
  · exact hok.elim

/-- number of steps a thread at program point `p` can still take -/
def remaining : PC → Nat
  | .start => 18 | .askClient => 17 | .get1 => 16 | .setOwn1 _ => 15 | .acquire => 15 | .get2 => 14
  | .setOwn2 _ => 13 | .initAssert => 13 | .create => 12 | .setId _ => 11 | .readForVar => 10
  | .setVar _ => 9 | .release _ => 8 | .endAssert => 7 | .useAssert => 6 | .readId => 5
  | .call _ => 4 | .askClient2 => 3 | .delVar => 2 | .releaseFault => 8 | .done => 0 | .failed => 0
  | .faulted => 0

theorem step_decreases (cfg : Cfg) (s : State) (t : Nat) (h : enabled s t = true) :
    remaining ((step cfg s t).pc t) < remaining (s.pc t) := by
  unfold enabled at h
  unfold step
  simp only
  cases hp : s.pc t with
  | start => simp only []; split <;> simp [remaining]
  | askClient => simp [remaining]
  | get1 => simp only []; split <;> (try split) <;> simp [remaining]
  | setOwn1 _ => simp [remaining]
  | acquire =>
    rw [hp] at h
    cases hl : s.lock with
    | none => simp [remaining]
    | some _ => simp [hl] at h
  | get2 => simp only []; split <;> simp [remaining]
  | setOwn2 _ => simp [remaining]
  | initAssert => simp only []; split <;> simp [remaining]
  | create => simp only []; split <;> simp [remaining]
  | setId _ => simp [remaining]
  | readForVar => simp [remaining]
  | setVar _ => simp [remaining]
  | release a => cases a <;> simp [remaining]
  | releaseFault => simp [remaining]
  | endAssert => simp only []; split <;> simp [remaining]
  | useAssert => simp only []; split <;> simp [remaining]
  | readId => simp [remaining]
  | call _ => simp only []; split <;> (try split) <;> (try split) <;> simp [remaining]
  | askClient2 => simp [remaining]
  | delVar => simp [remaining]
  | done => rw [hp] at h; simp at h
  | failed => rw [hp] at h; simp at h
  | faulted => rw [hp] at h; simp at h

/-! ### without a finalise the variable is never deleted -/

def NoFin (s : State) : Prop :=
  s.deleted = false ∧ ∀ u, s.pc u ≠ .askClient2 ∧ s.pc u ≠ .delVar

theorem nofin_goto {s : State} {t : Nat} {p : PC} (h : NoFin s) (h1 : p ≠ .askClient2) (h2 : p ≠ .delVar) :
    NoFin (s.goto t p) := by
  refine ⟨h.1, fun u => ?_⟩
  by_cases hu : u = t
  · rw [hu, goto_pc_self]; exact ⟨h1, h2⟩
  · rw [goto_pc_other _ _ hu]; exact h.2 u

theorem step_nofin (cfg : Cfg) (hk : ∀ t, cfg.kind t ≠ .fin) (s : State) (t : Nat) (h : NoFin s) :
    NoFin (step cfg s t) := by
  have hpt := h.2 t
  unfold step
  simp only
  cases hpc : s.pc t with
  | start => simp only []; split <;> exact nofin_goto h (by simp) (by simp)
  | askClient => exact nofin_goto h (by simp) (by simp)
  | get1 => simp only []; split <;> (try split) <;> exact nofin_goto h (by simp) (by simp)
  | setOwn1 id => exact nofin_goto (s := s.setWid _ id) h (by simp) (by simp)
  | acquire =>
    simp only []
    split
    · exact nofin_goto (s := { s with lock := some t }) h (by simp) (by simp)
    · exact h
  | get2 => simp only []; split <;> exact nofin_goto h (by simp) (by simp)
  | setOwn2 id => exact nofin_goto (s := s.setWid _ id) h (by simp) (by simp)
  | initAssert => simp only []; split <;> exact nofin_goto h (by simp) (by simp)
  | create =>
    simp only []
    split
    · exact nofin_goto h (by simp) (by simp)
    · exact nofin_goto (s := { s with creates := s.creates + 1, calls := .create (s.creates + 1) :: s.calls }) h
        (by simp) (by simp)
  | setId id => exact nofin_goto (s := s.setWid _ id) h (by simp) (by simp)
  | readForVar => exact nofin_goto h (by simp) (by simp)
  | setVar id => exact nofin_goto (s := { s with var := some id }) h (by simp) (by simp)
  | release a =>
    exact nofin_goto (s := { s with lock := none }) h (by cases a <;> simp) (by cases a <;> simp)
  | endAssert => simp only []; split <;> exact nofin_goto h (by simp) (by simp)
  | useAssert => simp only []; split <;> exact nofin_goto h (by simp) (by simp)
  | readId => exact nofin_goto h (by simp) (by simp)
  | call id =>
    simp only []
    split
    · exact nofin_goto h (by simp) (by simp)
    · split
      · cases hkt : cfg.kind t with
        | write p => exact nofin_goto (s := { s with calls := .upload p id :: s.calls }) h (by simp) (by simp)
        | fin => exact absurd hkt (hk t)
      · cases hkt : cfg.kind t with
        | write p => exact nofin_goto (s := { s with calls := .upload p id :: s.calls }) h (by simp) (by simp)
        | fin => exact absurd hkt (hk t)
  | askClient2 => rw [hpc] at hpt; exact absurd rfl hpt.1
  | delVar => rw [hpc] at hpt; exact absurd rfl hpt.2
  | releaseFault => exact nofin_goto (s := { s with lock := none }) h (by simp) (by simp)
  | done => exact h
  | failed => exact h
  | faulted => exact h

theorem runFrom_nofin (cfg : Cfg) (hk : ∀ t, cfg.kind t ≠ .fin) (sched : List Nat) :
    ∀ s, NoFin s → NoFin (runFrom cfg s sched) := by
  induction sched with
  | nil => intro s h; exact h
  | cons t rest ih => intro s h; exact ih _ (step_nofin cfg hk s t h)

end Dist

/-! ## Distributed variant with explicit names: refinement to `Dist` when the names agree -/
namespace DistN

/-- the `Dist` configuration seen when every worker computes the same names -/
def toDist (cfg : Cfg) : Dist.Cfg :=
  { kind := cfg.kind, worker := cfg.worker, faultCreate := cfg.faultCreate, faultCall := cfg.faultCall,
    spurGet1 := cfg.spurGet1, crashCall := cfg.crashCall }

set_option linter.unusedSimpArgs false in
theorem proj_step (cfg : Cfg) (L V : Nat) (hL : ∀ w, cfg.lockName w = L) (hV : ∀ w, cfg.varName w = V)
    (s : State) (t : Nat) : proj L V (step cfg s t) = Dist.step (toDist cfg) (proj L V s) t := by
  unfold step Dist.step
  simp only [hL, hV, toDist]
  have hp : (proj L V s).pc t = s.pc t := rfl
  rw [hp]
  cases hpc : s.pc t <;> simp only []
  all_goals first
    | rfl
    | (simp only [proj]; split <;> rfl)
    | skip
  all_goals
    simp [proj, State.goto, State.setWid, State.setVar, State.setLock, Dist.State.goto, Dist.State.setWid]
  all_goals (try split) <;> (try split) <;> (try split) <;> simp_all

theorem proj_runFrom (cfg : Cfg) (L V : Nat) (hL : ∀ w, cfg.lockName w = L) (hV : ∀ w, cfg.varName w = V)
    (sched : List Nat) :
    ∀ s, proj L V (runFrom cfg s sched) = Dist.runFrom (toDist cfg) (proj L V s) sched := by
  induction sched with
  | nil => intro s; rfl
  | cons t rest ih =>
    intro s
    show proj L V (runFrom cfg (step cfg s t) rest) = Dist.runFrom (toDist cfg) (Dist.step (toDist cfg) (proj L V s) t) rest
    rw [ih, proj_step cfg L V hL hV]

end DistN

/-! ## Several sinks on one file system -/
section Tables
variable {κ β : Type} [BEq κ] [LawfulBEq κ]

theorem lookup_filter_key_self (l : List (κ × β)) (k : κ) :
    (l.filter (fun q => !(q.1 == k))).lookup k = none := by
  induction l with
  | nil => rfl
  | cons x l ih =>
    obtain ⟨a, v⟩ := x
    cases ha : (a == k) with
    | true => simp [List.filter_cons, ha, ih]
    | false =>
      have hka : (k == a) = false := by
        cases h : (k == a) with
        | false => rfl
        | true => have := eq_of_beq h; subst this; simp at ha
      simp [List.filter_cons, ha, List.lookup_cons, hka, ih]

theorem lookup_filter_key_other (l : List (κ × β)) (k : κ) {k' : κ} (h : (k' == k) = false) :
    (l.filter (fun q => !(q.1 == k))).lookup k' = l.lookup k' := by
  induction l with
  | nil => rfl
  | cons x l ih =>
    obtain ⟨a, v⟩ := x
    cases ha : (a == k) with
    | true =>
      have hak := eq_of_beq ha
      subst hak
      simp [List.filter_cons, List.lookup_cons, h, ih]
    | false =>
      simp only [List.filter_cons, ha, Bool.not_false, if_true, List.lookup_cons, ih]

theorem lookup_tblSet_self (k : κ) (v : β) (l : List (κ × β)) : (tblSet k v l).lookup k = some v := by
  simp [tblSet, List.lookup_cons]

theorem lookup_tblSet_other (k : κ) (v : β) (l : List (κ × β)) {k' : κ} (h : k' ≠ k) :
    (tblSet k v l).lookup k' = l.lookup k' := by
  have hb : (k' == k) = false := by
    cases hh : (k' == k) with
    | false => rfl
    | true => exact absurd (eq_of_beq hh) h
  simp only [tblSet, List.lookup_cons, hb]
  exact lookup_filter_key_other l k hb

theorem lookup_tblErase_self (k : κ) (l : List (κ × β)) : (tblErase k l).lookup k = none :=
  lookup_filter_key_self l k

theorem lookup_tblErase_other (k : κ) (l : List (κ × β)) {k' : κ} (h : k' ≠ k) :
    (tblErase k l).lookup k' = l.lookup k' := by
  have hb : (k' == k) = false := by
    cases hh : (k' == k) with
    | false => rfl
    | true => exact absurd (eq_of_beq hh) h
  exact lookup_filter_key_other l k hb

end Tables

/-- a sink state that can be a view of a file system: no part files without a directory -/
def Sink.WF (s : Sink) : Prop := s.dirExists = false → s.parts = []

theorem FS.view_wf (fs : FS) (c : SinkCfg) : (fs.view c).WF := by
  intro h
  simp only [FS.view] at h ⊢
  cases hl : fs.pdirs.lookup c.pkey with
  | none => rfl
  | some ps => simp [hl] at h

theorem Sink.write_wf (s : Sink) (w : Nat × Bytes) : (s.write w).WF := by
  intro h; simp [Sink.write] at h

theorem Sink.appendParts_dir (fixed keep : Bool) :
    ∀ (ps : List Nat) (s : Sink), (Sink.appendParts fixed keep s ps).1.dirExists = s.dirExists := by
  intro ps
  induction ps with
  | nil => intro s; rfl
  | cons p ps ih =>
    intro s
    simp only [Sink.appendParts]
    cases hl : s.lookup p with
    | none => rfl
    | some d =>
      simp only []
      split
      · rfl
      · rw [ih]; cases keep <;> simp [Sink.unlink]

theorem Sink.finalise_wf (fixed : Bool) (s : Sink) (hw : s.WF) (ps : List Nat) (keep : Bool) :
    (Sink.finalise fixed s ps keep).1.WF := by
  cases ps with
  | nil => exact hw
  | cons first rest =>
    simp only [Sink.finalise]
    cases hl : s.lookup first with
    | none => exact hw
    | some d =>
      simp only []
      -- the directory exists (it holds the first part)
      have hde : s.dirExists = true := by
        cases hd : s.dirExists with
        | true => rfl
        | false => have := hw hd; simp [Sink.lookup, this] at hl
      have hdir := Sink.appendParts_dir fixed keep rest { (s.unlink first) with dst := some d }
      generalize hr : Sink.appendParts fixed keep { (s.unlink first) with dst := some d } rest = r at hdir
      obtain ⟨s', e⟩ := r
      have hd' : s'.dirExists = true := by simpa [Sink.unlink, hde] using hdir
      cases e with
      | some e => intro h; simp [hd'] at h
      | none =>
        simp only []
        cases keep with
        | true => intro h; simp [hd'] at h
        | false =>
          simp only [Bool.false_eq_true, if_false]
          split
          · rename_i hemp
            intro _
            simpa using hemp
          · intro h; simp [hd'] at h

theorem Sink.apply_wf (s : Sink) (hw : s.WF) (op : SinkOp) : (s.apply op).1.WF := by
  cases op with
  | write w => exact Sink.write_wf s w
  | finalise ps keep => exact Sink.finalise_wf true s hw ps keep

theorem FS.view_store_self (fs : FS) (c : SinkCfg) (s : Sink) (hw : s.WF) : (fs.store c s).view c = s := by
  obtain ⟨de, parts, dst⟩ := s
  cases de with
  | true =>
    cases dst with
    | none =>
      simp only [FS.view, FS.store, if_true]
      rw [lookup_tblSet_self, lookup_tblErase_self]; rfl
    | some b =>
      simp only [FS.view, FS.store, if_true]
      rw [lookup_tblSet_self, lookup_tblSet_self]; rfl
  | false =>
    have hp : parts = [] := hw rfl
    subst hp
    cases dst with
    | none =>
      simp only [FS.view, FS.store, Bool.false_eq_true, if_false]
      rw [lookup_tblErase_self, lookup_tblErase_self]; rfl
    | some b =>
      simp only [FS.view, FS.store, Bool.false_eq_true, if_false]
      rw [lookup_tblErase_self, lookup_tblSet_self]; rfl

theorem FS.view_store_other (fs : FS) (c c' : SinkCfg) (s : Sink)
    (hp : c'.pkey ≠ c.pkey) (hd : c'.dkey ≠ c.dkey) : (fs.store c s).view c' = fs.view c' := by
  obtain ⟨de, parts, dst⟩ := s
  cases de <;> cases dst <;>
    simp only [FS.view, FS.store, Bool.false_eq_true, if_false, if_true] <;>
    simp only [lookup_tblSet_other _ _ _ hp, lookup_tblErase_other _ _ hp, lookup_tblSet_other _ _ _ hd,
      lookup_tblErase_other _ _ hd]

theorem FS.apply_eq (fs : FS) (c : SinkCfg) (op : SinkOp) :
    fs.apply c op = (fs.store c ((fs.view c).apply op).1, ((fs.view c).apply op).2) := by
  cases op <;> rfl

/-- the operations of sink `i` in an interleaved run -/
def ownOps (i : Nat) (ops : List (Nat × SinkOp)) : List SinkOp := (ops.filter (fun o => o.1 == i)).map (·.2)

/-- a sink alone: its operations applied to its own view -/
def Sink.runOps (s : Sink) (ops : List SinkOp) : Sink := ops.foldl (fun s o => (s.apply o).1) s

theorem FS.run_view (cfgs : List SinkCfg)
    (hdist : ∀ (i j : Nat) (ci cj : SinkCfg), cfgs[i]? = some ci → cfgs[j]? = some cj → i ≠ j →
      ci.pkey ≠ cj.pkey ∧ ci.dkey ≠ cj.dkey)
    (i : Nat) (c : SinkCfg) (hc : cfgs[i]? = some c) :
    ∀ (ops : List (Nat × SinkOp)) (fs : FS),
      (FS.run cfgs fs ops).1.view c = Sink.runOps (fs.view c) (ownOps i ops) := by
  intro ops
  induction ops with
  | nil => intro fs; rfl
  | cons o ops ih =>
    intro fs
    obtain ⟨j, op⟩ := o
    simp only [FS.run]
    by_cases hji : j = i
    · subst hji
      simp only [hc, ownOps, List.filter_cons, beq_self_eq_true, if_true, List.map_cons, Sink.runOps,
        List.foldl_cons]
      rw [ih]
      rw [FS.apply_eq]
      simp only [ownOps, Sink.runOps]
      rw [FS.view_store_self _ _ _ (Sink.apply_wf _ (FS.view_wf fs c) op)]
    · have hne : (j == i) = false := by simpa using hji
      simp only [ownOps, List.filter_cons, hne, Bool.false_eq_true, if_false]
      cases hj : cfgs[j]? with
      | none => simp only []; exact ih fs
      | some cj =>
        simp only []
        rw [ih]
        have hk := hdist i j c cj hc hj (fun (e : i = j) => hji e.symm)
        rw [FS.apply_eq, FS.view_store_other _ _ _ _ hk.1 hk.2]
        rfl

/-! ## One upload object over time -/
namespace Seq

/-- writes on a started object whose upload is active: parts go under that id, nothing else happens -/
theorem writes_started (i : Nat) (h0 : i ≠ 0) (n : Nat) :
    ∀ s : State, s.uploadId = i → s.active.contains i = true →
      (run s (List.replicate n .write)).1.uploadId = i ∧
      (run s (List.replicate n .write)).1.creates = s.creates ∧
      (run s (List.replicate n .write)).1.active = s.active ∧
      (∀ c ∈ (run s (List.replicate n .write)).2.1, ∃ q, c = SCall.upload q i) ∧
      (∀ b ∈ (run s (List.replicate n .write)).2.2, b = true) := by
  induction n with
  | zero => intro s hi _; simp [run, hi]
  | succ n ih =>
    intro s hi ha
    have hne : s.uploadId ≠ 0 := by rw [hi]; exact h0
    have hstep : step s .write =
        ({ s with nextPart := s.nextPart + 1 }, [SCall.upload s.nextPart s.uploadId], true) := by
      have hm : i ∈ s.active := by simpa using ha
      simp [step, ensureInit, hi, hm, h0]
    have := ih { s with nextPart := s.nextPart + 1 } hi ha
    simp only [List.replicate_succ, run, hstep]
    obtain ⟨h1, h2, h3, h4, h5⟩ := this
    refine ⟨h1, h2, h3, ?_, ?_⟩
    · intro c hc
      simp only [List.cons_append, List.nil_append, List.mem_cons] at hc
      rcases hc with rfl | hc
      · exact ⟨_, by rw [hi]⟩
      · exact h4 c hc
    · intro b hb
      simp only [List.mem_cons] at hb
      rcases hb with rfl | hb
      · rfl
      · exact h5 b hb

end Seq

/-! ## Schedules: counting effective (non-stutter) steps, generic in the transition system -/
namespace Sched

variable {σ : Type}

/-- number of steps of `sched` (from `s`) that are not stutters -/
def effective (step : σ → Nat → σ) (enabled : σ → Nat → Bool) : σ → List Nat → Nat
  | _, [] => 0
  | s, t :: rest => (if enabled s t then 1 else 0) + effective step enabled (step s t) rest

/-- total number of steps the threads of `T` can still take -/
def total (rem : σ → Nat → Nat) (s : σ) (T : List Nat) : Nat := (T.map (rem s)).sum

theorem total_other {step : σ → Nat → σ} {rem : σ → Nat → Nat}
    (hother : ∀ s t t', t' ≠ t → rem (step s t) t' = rem s t')
    (s : σ) (t : Nat) : ∀ T : List Nat, t ∉ T → total rem (step s t) T = total rem s T := by
  intro T
  induction T with
  | nil => intro _; rfl
  | cons u T ih =>
    intro h
    have hu : u ≠ t := fun e => h (e ▸ List.mem_cons_self)
    have hT : t ∉ T := fun e => h (List.mem_cons_of_mem _ e)
    simp only [total, List.map_cons, List.sum_cons] at ih ⊢
    rw [hother s t u hu, ih hT]

theorem total_dec {step : σ → Nat → σ} {enabled : σ → Nat → Bool} {rem : σ → Nat → Nat}
    (hother : ∀ s t t', t' ≠ t → rem (step s t) t' = rem s t')
    (hdec : ∀ s t, enabled s t = true → rem (step s t) t < rem s t)
    (s : σ) (t : Nat) (he : enabled s t = true) :
    ∀ T : List Nat, T.Nodup → t ∈ T → total rem (step s t) T + 1 ≤ total rem s T := by
  intro T
  induction T with
  | nil => intro _ h; simp at h
  | cons u T ih =>
    intro hnd hmem
    have hnd' := List.nodup_cons.1 hnd
    simp only [total, List.map_cons, List.sum_cons] at ih ⊢
    by_cases hu : u = t
    · subst hu
      have h1 := total_other (rem := rem) hother s u T hnd'.1
      simp only [total] at h1
      have h2 := hdec s u he
      omega
    · have hT : t ∈ T := by
        rcases List.mem_cons.1 hmem with e | e
        · exact absurd e.symm hu
        · exact e
      have := ih hnd'.2 hT
      rw [hother s t u hu]
      omega

/-- Every effective step uses up one unit of the threads' remaining work. -/
theorem effective_bound {step : σ → Nat → σ} {enabled : σ → Nat → Bool} {rem : σ → Nat → Nat}
    (hstut : ∀ s t, enabled s t = false → step s t = s)
    (hother : ∀ s t t', t' ≠ t → rem (step s t) t' = rem s t')
    (hdec : ∀ s t, enabled s t = true → rem (step s t) t < rem s t)
    (T : List Nat) (hnd : T.Nodup) :
    ∀ (sched : List Nat) (s : σ), (∀ t ∈ sched, t ∈ T) →
      effective step enabled s sched + total rem (sched.foldl step s) T ≤ total rem s T := by
  intro sched
  induction sched with
  | nil => intro s _; simp [effective]
  | cons t rest ih =>
    intro s hs
    have ht : t ∈ T := hs t List.mem_cons_self
    have hrest : ∀ u ∈ rest, u ∈ T := fun u hu => hs u (List.mem_cons_of_mem _ hu)
    have := ih (step s t) hrest
    simp only [effective, List.foldl_cons]
    cases he : enabled s t with
    | false =>
      rw [hstut s t he] at this ⊢
      simpa using this
    | true =>
      have hd := total_dec (rem := rem) hother hdec s t he T hnd ht
      simp only [if_true]
      omega

theorem total_const (rem : σ → Nat → Nat) (s : σ) (k : Nat) (h : ∀ t, rem s t = k) :
    ∀ T : List Nat, total rem s T = k * T.length := by
  intro T
  induction T with
  | nil => simp [total]
  | cons u T ih =>
    simp only [total, List.map_cons, List.sum_cons, List.length_cons] at ih ⊢
    rw [ih, h u, Nat.mul_succ]; omega

end Sched

/-! ## File sink -/
namespace Sink

theorem lookup_filter_ne (l : List (Nat × Bytes)) (p q : Nat) :
    (l.filter (fun x => x.1 != q)).lookup p = if p = q then none else l.lookup p := by
  induction l with
  | nil => simp [List.lookup]
  | cons x l ih =>
    obtain ⟨k, v⟩ := x
    by_cases hk : k = q
    · subst hk
      simp only [List.filter_cons, bne_self_eq_false, Bool.false_eq_true, if_false, ih, List.lookup_cons]
      by_cases hp : p = k
      · simp [hp]
      · have : (p == k) = false := by simpa using hp
        simp [hp, this]
    · have hne : (k != q) = true := by simpa using hk
      simp only [List.filter_cons, hne, if_true, List.lookup_cons, ih]
      by_cases hp : p = k
      · subst hp; simp [hk]
      · have : (p == k) = false := by simpa using hp
        simp [this]

theorem lookup_unlink (s : Sink) (p q : Nat) :
    (s.unlink q).lookup p = if p = q then none else s.lookup p := by
  simp only [unlink, lookup]; exact lookup_filter_ne s.parts p q

theorem lookup_write (s : Sink) (w : Nat × Bytes) (p : Nat) :
    (s.write w).lookup p = if p = w.1 then some w.2 else s.lookup p := by
  simp only [write, lookup, List.lookup_cons]
  by_cases hp : p = w.1
  · simp [hp]
  · have : (p == w.1) = false := by simpa using hp
    simp [this, hp, lookup_filter_ne]

theorem filter_filter_contains (l : List (Nat × Bytes)) (p : Nat) (rest : List Nat) :
    (l.filter (fun q => q.1 != p)).filter (fun q => !rest.contains q.1) =
      l.filter (fun q => !(p :: rest).contains q.1) := by
  rw [List.filter_filter]
  apply List.filter_congr
  intro x _
  simp only [List.contains_cons]
  cases h1 : (x.1 == p) <;> cases h2 : rest.contains x.1 <;> simp [bne, h1]

/-- The loop over the non-first parts, repaired code: every listed part is appended in
order; with `keep = false` exactly the listed part files disappear. -/
theorem appendParts_ok (keep : Bool) (f : Nat → Bytes) :
    ∀ (rest : List Nat) (s : Sink), rest.Nodup → (∀ p ∈ rest, s.lookup p = some (f p)) →
      appendParts true keep s rest =
        ({ s with dst := s.dst.map (· ++ rest.flatMap f),
                  parts := if keep then s.parts
                           else s.parts.filter (fun q => !rest.contains q.1) }, none) := by
  intro rest
  induction rest with
  | nil =>
    intro s _ _
    obtain ⟨dir, parts, dst⟩ := s
    have hft : parts.filter (fun _ => true) = parts := List.filter_eq_self.2 (fun _ _ => rfl)
    cases keep <;> cases dst <;> simp [appendParts, hft]
  | cons p rest ih =>
    intro s hnd hw
    obtain ⟨dir, parts, dst⟩ := s
    have hnd' := List.nodup_cons.1 hnd
    have hp : (Sink.mk dir parts dst).lookup p = some (f p) := hw p List.mem_cons_self
    cases keep with
    | true =>
      have hw1 : ∀ q ∈ rest, (Sink.mk dir parts (dst.map (· ++ f p))).lookup q = some (f q) :=
        fun q hq => hw q (List.mem_cons_of_mem _ hq)
      have h := ih ⟨dir, parts, dst.map (· ++ f p)⟩ hnd'.2 hw1
      simp only [appendParts, hp, Bool.not_true, Bool.and_false, Bool.false_eq_true, if_false, if_true]
      rw [h]
      cases dst <;> simp [List.flatMap_cons, List.append_assoc]
    | false =>
      have hw1 : ∀ q ∈ rest,
          (Sink.mk dir (parts.filter (fun x => x.1 != p)) (dst.map (· ++ f p))).lookup q = some (f q) := by
        intro q hq
        have hqp : q ≠ p := fun e => hnd'.1 (e ▸ hq)
        have := lookup_unlink ⟨dir, parts, dst⟩ q p
        simp only [unlink, lookup, hqp, if_false] at this ⊢
        rw [this]
        exact hw q (List.mem_cons_of_mem _ hq)
      have h := ih ⟨dir, parts.filter (fun x => x.1 != p), dst.map (· ++ f p)⟩ hnd'.2 hw1
      simp only [appendParts, hp, Bool.not_true, Bool.and_false, Bool.false_eq_true, if_false, unlink]
      rw [h]
      simp only [Bool.false_eq_true, if_false, filter_filter_contains]
      cases dst <;> simp [List.flatMap_cons, List.append_assoc]

theorem lookup_foldl_write_other (ws : List (Nat × Bytes)) (p : Nat) (hp : p ∉ ws.map (·.1)) :
    ∀ s : Sink, (ws.foldl write s).lookup p = s.lookup p := by
  induction ws with
  | nil => intro s; rfl
  | cons w ws ih =>
    intro s
    have h1 : p ≠ w.1 := fun e => hp (by simp [e])
    have h2 : p ∉ ws.map (·.1) := fun e => hp (by simp only [List.map_cons]; exact List.mem_cons_of_mem _ e)
    simp only [List.foldl_cons]
    rw [ih h2, lookup_write]
    simp [h1]

theorem lookup_foldl_write (ws : List (Nat × Bytes)) (hnd : (ws.map (·.1)).Nodup) :
    ∀ (s : Sink) (w : Nat × Bytes), w ∈ ws → (ws.foldl write s).lookup w.1 = some w.2 := by
  induction ws with
  | nil => intro s w h; simp at h
  | cons w0 ws ih =>
    intro s w hw
    simp only [List.map_cons] at hnd
    have hnd' := List.nodup_cons.1 hnd
    simp only [List.foldl_cons]
    rcases List.mem_cons.1 hw with e | e
    · subst e
      rw [lookup_foldl_write_other ws w.1 hnd'.1, lookup_write]
      simp
    · exact ih hnd'.2 _ w e

theorem keys_foldl_write (ws : List (Nat × Bytes)) :
    ∀ (s : Sink) (q : Nat × Bytes), q ∈ (ws.foldl write s).parts → q.1 ∈ ws.map (·.1) ∨ q ∈ s.parts := by
  induction ws with
  | nil => intro s q h; exact Or.inr h
  | cons w ws ih =>
    intro s q h
    simp only [List.foldl_cons] at h
    rcases ih _ q h with h1 | h1
    · exact Or.inl (by simp only [List.map_cons]; exact List.mem_cons_of_mem _ h1)
    · simp only [write, List.mem_cons] at h1
      rcases h1 with e | e
      · exact Or.inl (by simp [e])
      · exact Or.inr (List.mem_filter.1 e).1

theorem assoc_lookup (ws : List (Nat × Bytes)) (hnd : (ws.map (·.1)).Nodup) :
    ∀ w ∈ ws, ws.lookup w.1 = some w.2 := by
  induction ws with
  | nil => intro w h; simp at h
  | cons w0 ws ih =>
    intro w hw
    simp only [List.map_cons] at hnd
    have hnd' := List.nodup_cons.1 hnd
    rcases List.mem_cons.1 hw with e | e
    · subst e; rw [List.lookup_cons]; simp
    · have hne' : w.1 ≠ w0.1 := fun e' => hnd'.1 (e' ▸ List.mem_map_of_mem (f := (·.1)) e)
      have : (w.1 == w0.1) = false := by simpa using hne'
      rw [List.lookup_cons, this]
      exact ih hnd'.2 w e

theorem flatMap_congr' {α β : Type} (l : List α) (f g : α → List β) (h : ∀ a ∈ l, f a = g a) :
    l.flatMap f = l.flatMap g := by
  induction l with
  | nil => rfl
  | cons a l ih =>
    simp only [List.flatMap_cons]
    rw [h a List.mem_cons_self, ih (fun b hb => h b (List.mem_cons_of_mem _ hb))]

end Sink

end OdcGeo.C18
