/-
Helper lemmas for C05 (not counted as obligations): integer alignment, the overview-count
loop, the level loop invariant, row-major enumeration, the header patching loop, the bag
order of the writer.
-/
import OdcGeo.Model.C05
import OdcGeo.Lemmas.Affine
import Mathlib.Tactic.Ring
import Mathlib.Tactic.Linarith
import Mathlib.Tactic.FieldSimp
import Mathlib.Data.List.Nodup

namespace OdcGeo.C05

theorem alignUp_dvd (x a : Nat) (_ha : 0 < a) : a ∣ alignUp x a := by
  unfold alignUp alignDown
  have h := Nat.div_add_mod (x + (a - 1)) a
  exact ⟨(x + (a - 1)) / a, by omega⟩

theorem alignUp_ge (x a : Nat) (ha : 0 < a) : x ≤ alignUp x a := by
  unfold alignUp alignDown
  have h := Nat.mod_lt (x + (a - 1)) ha
  omega

theorem alignUp_lt (x a : Nat) (ha : 0 < a) : alignUp x a < x + a := by
  unfold alignUp alignDown
  omega

theorem alignUp_of_dvd (x a : Nat) (ha : 0 < a) (h : a ∣ x) : alignUp x a = x := by
  obtain ⟨c, rfl⟩ := h
  have h1 := alignUp_dvd (a * c) a ha
  have h2 := alignUp_ge (a * c) a ha
  have h3 := alignUp_lt (a * c) a ha
  obtain ⟨d, hd⟩ := h1
  rw [hd] at h2 h3 ⊢
  have : c ≤ d := Nat.le_of_mul_le_mul_left h2 ha
  have : d < c + 1 := by
    have : a * d < a * (c + 1) := by rw [Nat.mul_add]; omega
    exact Nat.lt_of_mul_lt_mul_left this
  have : d = c := by omega
  rw [this]

/-- `k` is the least exponent with `⌊dim / 2^k⌋ ≤ block` -/
def LeastHalvings (block dim k : Nat) : Prop :=
  dim / 2 ^ k ≤ block ∧ ∀ j, j < k → block < dim / 2 ^ j

theorem leastHalvings_unique {block dim k k' : Nat} (h : LeastHalvings block dim k)
    (h' : LeastHalvings block dim k') : k = k' := by
  rcases Nat.lt_trichotomy k k' with hlt | heq | hgt
  · have := h'.2 k hlt; have := h.1; omega
  · exact heq
  · have := h.2 k' hgt; have := h'.1; omega

theorem numOverviewsFuel_least : ∀ (fuel block dim : Nat), dim ≤ fuel →
    LeastHalvings block dim (numOverviewsFuel fuel block dim) := by
  intro fuel
  induction fuel with
  | zero =>
    intro block dim h
    have : dim = 0 := by omega
    subst this
    simp [numOverviewsFuel, LeastHalvings]
  | succ fuel ih =>
    intro block dim h
    unfold numOverviewsFuel
    split
    · rename_i hlt
      have hd : dim / 2 ≤ fuel := by omega
      obtain ⟨h1, h2⟩ := ih block (dim / 2) hd
      refine ⟨?_, ?_⟩
      · rw [Nat.pow_succ, Nat.mul_comm, ← Nat.div_div_eq_div_mul]; exact h1
      · intro j hj
        cases j with
        | zero => simpa using hlt
        | succ j =>
          have := h2 j (by omega)
          rw [Nat.pow_succ, Nat.mul_comm, ← Nat.div_div_eq_div_mul]; exact this
    · rename_i hnl
      refine ⟨by simpa using Nat.le_of_not_lt hnl, ?_⟩
      intro j hj; omega

theorem scale_one : Aff.scale 1 1 = Aff.id := rfl

theorem scale_mul_scale (a b c d : Rat) : Aff.scale a b * Aff.scale c d = Aff.scale (a * c) (b * d) := by
  simp only [Aff.mul_def, Aff.mul, Aff.scale]; ext <;> simp

theorem half_ratio (m : Nat) (hm : 0 < m) : ((2 * m : Nat) : Rat) / (((2 * m) / 2 : Nat) : Rat) = 2 := by
  have : (2 * m) / 2 = m := by omega
  rw [this]
  have hm' : (m : Rat) ≠ 0 := by exact_mod_cast (Nat.pos_iff_ne_zero.mp hm)
  push_cast
  field_simp

/-- level `j` of a run of the level loop -/
def LevelOk (blk : Nat → Blk) (idx : Nat) (sh : YX) (g : Option Aff) (j : Nat) (l : Level) : Prop :=
  l.shape.y * 2 ^ j = sh.y ∧ l.shape.x * 2 ^ j = sh.x ∧ 0 < l.shape.y ∧ 0 < l.shape.x ∧
  l.tile = normBlocksize (blk (idx + j)) ∧
  l.aff = g.map (fun A => A * Aff.scale (2 ^ j) (2 ^ j))

theorem levelLoop_spec (blk : Nat → Blk) (n : Nat) :
    ∀ (rem idx : Nat) (sh : YX) (g : Option Aff), rem + idx = n + 1 →
      (∃ cy, 0 < cy ∧ sh.y = cy * 2 ^ (rem - 1)) → (∃ cx, 0 < cx ∧ sh.x = cx * 2 ^ (rem - 1)) →
      ∃ lv, levelLoop blk n rem idx sh g = .ok lv ∧ lv.length = rem ∧
        ∀ j (hj : j < lv.length), LevelOk blk idx sh g j lv[j] := by
  intro rem
  induction rem with
  | zero => intro idx sh g _ _ _; exact ⟨[], rfl, rfl, by intro j hj; simp at hj⟩
  | succ rem ih =>
    intro idx sh g hsum ⟨cy, hcy, hy⟩ ⟨cx, hcx, hx⟩
    simp only [Nat.add_sub_cancel] at hy hx
    have h0 : LevelOk blk idx sh g 0 ⟨sh, normBlocksize (blk idx), g⟩ := by
      refine ⟨by simp, by simp, ?_, ?_, by simp, ?_⟩
      · rw [hy]; exact Nat.mul_pos hcy (Nat.two_pow_pos _)
      · rw [hx]; exact Nat.mul_pos hcx (Nat.two_pow_pos _)
      · cases g <;> simp [scale_one, Aff.mul_id]
    by_cases hlt : idx < n
    · -- another level follows: rem ≥ 1
      obtain ⟨r, rfl⟩ : ∃ r, rem = r + 1 := ⟨rem - 1, by omega⟩
      have hy2 : sh.y = 2 * (cy * 2 ^ r) := by rw [hy, Nat.pow_succ]; ring
      have hx2 : sh.x = 2 * (cx * 2 ^ r) := by rw [hx, Nat.pow_succ]; ring
      have hpy : 0 < cy * 2 ^ r := Nat.mul_pos hcy (Nat.two_pow_pos _)
      have hpx : 0 < cx * 2 ^ r := Nat.mul_pos hcx (Nat.two_pow_pos _)
      have hsy : (shrink2 sh).y = cy * 2 ^ r := by simp [shrink2, hy2]
      have hsx : (shrink2 sh).x = cx * 2 ^ r := by simp [shrink2, hx2]
      have hrec := fun g' => ih (idx + 1) (shrink2 sh) g' (by omega)
        ⟨cy, hcy, by simpa using hsy⟩ ⟨cx, hcx, by simpa using hsx⟩
      -- the zoom succeeds with factor exactly 2
      have hzoom : ∀ A, zoomTo sh A (shrink2 sh) = .ok (A * Aff.scale 2 2) := by
        intro A
        unfold zoomTo
        have h1 : ¬((shrink2 sh).y = 0 ∨ (shrink2 sh).x = 0) := by rw [hsy, hsx]; omega
        rw [if_neg h1]
        have e1 : (sh.x : Rat) / ((shrink2 sh).x : Rat) = 2 := by
          have := half_ratio (cx * 2 ^ r) hpx
          simp only [shrink2]; rw [hx2]; exact this
        have e2 : (sh.y : Rat) / ((shrink2 sh).y : Rat) = 2 := by
          have := half_ratio (cy * 2 ^ r) hpy
          simp only [shrink2]; rw [hy2]; exact this
        rw [e1, e2]
      have hstep : ∀ (lv : List Level) (g' : Option Aff),
          (g' = g.map (fun A => A * Aff.scale 2 2)) →
          (∀ j (hj : j < lv.length), LevelOk blk (idx + 1) (shrink2 sh) g' j lv[j]) →
          ∀ j (hj : j < (⟨sh, normBlocksize (blk idx), g⟩ :: lv).length),
            LevelOk blk idx sh g j (⟨sh, normBlocksize (blk idx), g⟩ :: lv)[j] := by
        intro lv g' hg' hall j hj
        cases j with
        | zero => exact h0
        | succ j =>
          obtain ⟨a1, a2, a3, a4, a5, a6⟩ := hall j (by simpa using hj)
          refine ⟨?_, ?_, a3, a4, ?_, ?_⟩
          · simp only [List.getElem_cons_succ]; rw [Nat.pow_succ, ← Nat.mul_assoc, a1, hsy, hy2]; ring
          · simp only [List.getElem_cons_succ]; rw [Nat.pow_succ, ← Nat.mul_assoc, a2, hsx, hx2]; ring
          · simp only [List.getElem_cons_succ]; rw [a5]; congr 2; omega
          · simp only [List.getElem_cons_succ]; rw [a6, hg']
            cases g with
            | none => rfl
            | some A =>
              simp only [Option.map]
              rw [Aff.mul_assoc', scale_mul_scale]
              congr 3 <;> ring
      cases g with
      | none =>
        obtain ⟨lv, hlv, hlen, hall⟩ := hrec none
        refine ⟨_ :: lv, ?_, by simp [hlen], hstep lv none rfl hall⟩
        rw [levelLoop]; simp only [if_pos hlt, hlv, Except.map]
      | some A =>
        obtain ⟨lv, hlv, hlen, hall⟩ := hrec (some (A * Aff.scale 2 2))
        refine ⟨_ :: lv, ?_, by simp [hlen], hstep lv _ rfl hall⟩
        rw [levelLoop]; simp only [if_pos hlt, hzoom, hlv, Except.map]
    · -- last level
      have hr : rem = 0 := by omega
      subst hr
      refine ⟨[⟨sh, normBlocksize (blk idx), g⟩], ?_, rfl, ?_⟩
      · simp [levelLoop, hlt, Except.map]
      · intro j hj
        have : j = 0 := by simpa using hj
        subst this
        exact h0

/-- row-major enumeration of an `a × b` grid is `range (a*b)` under `i*b + j` -/
theorem range_flatMap_range (a b : Nat) :
    (List.range a).flatMap (fun i => (List.range b).map (fun j => i * b + j)) = List.range (a * b) := by
  induction a with
  | zero => simp
  | succ a ih =>
    rw [List.range_succ, List.flatMap_append, ih, Nat.succ_mul, List.range_add]
    simp

theorem tidx_map_flat (m : Meta) :
    m.tidx.map (fun t => m.flatRaw t.1 t.2.1 t.2.2) = List.range m.numTiles := by
  unfold Meta.tidx Meta.flatRaw Meta.numTiles
  generalize m.chunked.y = cy
  generalize m.chunked.x = cx
  rw [Nat.mul_assoc, ← range_flatMap_range m.planes (cy * cx)]
  rw [List.map_flatMap]
  congr 1
  funext s
  rw [List.map_flatMap, ← range_flatMap_range cy cx, List.map_flatMap]
  congr 1
  funext y
  simp [List.map_map, Function.comp_def, Nat.add_assoc]

/-- `look` after one `updInfo` -/
theorem look_updInfo (info : TileInfo) (l f off sz l' f' : Nat) :
    look (updInfo info l f off sz) l' f' =
      if l' = l ∧ f' = f ∧ (look info l f).isSome then some (off, sz) else look info l' f' := by
  unfold updInfo
  cases hl : info[l]? with
  | none =>
    have : look info l f = none := by simp [look, hl]
    simp [this]
  | some p =>
    obtain ⟨os, ns⟩ := p
    simp only []
    by_cases h1 : l' = l
    · subst h1
      have hlt : l' < info.length := by
        rcases Nat.lt_or_ge l' info.length with h | h
        · exact h
        · rw [List.getElem?_eq_none h] at hl; cases hl
      by_cases h2 : f' = f
      · subst h2
        simp only [look, List.getElem?_set_self hlt, hl, List.getElem?_set]
        by_cases ho : f' < os.length <;> by_cases hn : f' < ns.length <;>
          simp [ho, hn]
      · have h2' : f ≠ f' := fun h => h2 h.symm
        simp [look, List.getElem?_set_self hlt, hl, h2, h2']
    · have h1' : l ≠ l' := fun h => h1 h.symm
      simp [look, h1, h1']



/-- total size of an observed stream -/
def sizes (ts : List Obs) : Nat := (ts.map (·.sz)).sum

@[simp] theorem sizes_nil : sizes [] = 0 := rfl
@[simp] theorem sizes_cons (t : Obs) (ts : List Obs) : sizes (t :: ts) = t.sz + sizes ts := by
  simp [sizes]

theorem extractStep_ok (ms : List Meta) (info : TileInfo) (off : Nat) (t : Obs) (st1 : TileInfo × Nat)
    (h : extractStep ms (info, off) t = .ok st1) :
    ∃ l0 f0, obsKey ms t = .ok (l0, f0) ∧ st1.2 = off + t.sz ∧
      ∀ l f, look st1.1 l f =
        if t.sz ≠ 0 ∧ l = l0 ∧ f = f0 ∧ (look info l0 f0).isSome then some (off, t.sz)
        else look info l f := by
  unfold extractStep at h
  cases hk : obsKey ms t with
  | error e => rw [hk] at h; cases h
  | ok k =>
    obtain ⟨l0, f0⟩ := k
    rw [hk] at h
    refine ⟨l0, f0, rfl, ?_⟩
    by_cases hz : t.sz ≠ 0
    · simp only [if_pos hz] at h
      cases h
      refine ⟨rfl, ?_⟩
      intro l f
      simp only [look_updInfo]
      by_cases c : l = l0 ∧ f = f0 ∧ (look info l0 f0).isSome
      · rw [if_pos c, if_pos ⟨hz, c⟩]
      · rw [if_neg c, if_neg (fun hc => c hc.2)]
    · simp only [if_neg hz] at h
      cases h
      have hz' : t.sz = 0 := by simpa using hz
      refine ⟨by simp [hz'], ?_⟩
      intro l f
      rw [if_neg (fun hc => hz hc.1)]

theorem extractLoop_spec (ms : List Meta) :
    ∀ (ts : List Obs) (info : TileInfo) (off : Nat) (info' : TileInfo) (off' : Nat),
      extractLoop ms (info, off) ts = .ok (info', off') →
      off' = off + sizes ts ∧
      (∀ l f, (∀ t ∈ ts, t.sz ≠ 0 → obsKey ms t ≠ .ok (l, f)) → look info' l f = look info l f) ∧
      (∀ l f, (look info l f).isSome → (look info' l f).isSome) ∧
      (∀ i (hi : i < ts.length) l f, ts[i].sz ≠ 0 → obsKey ms ts[i] = .ok (l, f) →
        (look info l f).isSome →
        (∀ j (hj : j < ts.length), i < j → ts[j].sz ≠ 0 → obsKey ms ts[j] ≠ .ok (l, f)) →
        look info' l f = some (off + sizes (ts.take i), ts[i].sz)) := by
  intro ts
  induction ts with
  | nil =>
    intro info off info' off' h
    simp only [extractLoop] at h
    cases h
    refine ⟨by simp, fun _ _ _ => rfl, fun _ _ h => h, ?_⟩
    intro i hi; simp at hi
  | cons t ts ih =>
    intro info off info' off' h
    rw [extractLoop] at h
    cases hs : extractStep ms (info, off) t with
    | error e => rw [hs] at h; cases h
    | ok st1 =>
      rw [hs] at h
      obtain ⟨info1, off1⟩ := st1
      obtain ⟨l0, f0, hk0, hoff1, hlook1⟩ := extractStep_ok ms info off t _ hs
      simp only at hoff1 hlook1
      obtain ⟨a1, a2, a3, a4⟩ := ih info1 off1 info' off' h
      have hsome1 : ∀ l f, (look info l f).isSome → (look info1 l f).isSome := by
        intro l f hsm
        rw [hlook1]
        split
        · rfl
        · exact hsm
      refine ⟨by rw [a1, hoff1, sizes_cons]; omega, ?_, ?_, ?_⟩
      · intro l f hno
        rw [a2 l f (fun t' ht' => hno t' (List.mem_cons_of_mem _ ht')), hlook1]
        have := hno t (List.mem_cons_self ..)
        rw [if_neg]
        rintro ⟨hz, rfl, rfl, _⟩
        exact this hz hk0
      · intro l f hsm
        exact a3 l f (hsome1 l f hsm)
      · intro i hi l f hz hk hsm hlater
        cases i with
        | zero =>
          simp only [List.getElem_cons_zero] at hz hk
          rw [hk0] at hk
          cases hk
          have hno : ∀ t' ∈ ts, t'.sz ≠ 0 → obsKey ms t' ≠ .ok (l0, f0) := by
            intro t' ht' hz'
            obtain ⟨j, hj, rfl⟩ := List.getElem_of_mem ht'
            have := hlater (j + 1) (by simpa using hj) (by omega)
            simpa using this hz'
          rw [a2 l0 f0 hno, hlook1, if_pos ⟨hz, rfl, rfl, hsm⟩]
          simp
        | succ i =>
          simp only [List.getElem_cons_succ] at hz hk
          have hi' : i < ts.length := by simpa using hi
          have := a4 i hi' l f hz hk (hsome1 l f hsm) (by
            intro j hj hij hzj
            have := hlater (j + 1) (by simpa using hj) (by omega)
            simpa using this hzj)
          rw [this, hoff1]
          simp [Nat.add_assoc]

abbrev Tile4 := Nat × Nat × Nat × Nat

/-- one bag of `_compress_tiles(img, mm, scale_idx=l, sample_idx=s)` -/
def bag (m : Meta) (l s : Nat) : List Tile4 :=
  (List.range m.chunked.y).flatMap fun y => (List.range m.chunked.x).map fun x => (l, s, y, x)

/-- `_tiles` for the levels `ms` numbered from `k` -/
def bagsFrom (planes : Nat) (k : Nat) (ms : List Meta) : List (List Tile4) :=
  (ms.zipIdx k).flatMap fun (m, l) => (List.range planes).map fun s => bag m l s

theorem writeOrder_eq (m0 : Meta) (rest : List Meta) :
    writeOrder (m0 :: rest) = (bagsFrom m0.planes 0 (m0 :: rest)).reverse.flatten := rfl

theorem bagsFrom_cons (planes k : Nat) (m : Meta) (ms : List Meta) :
    bagsFrom planes k (m :: ms) = (List.range planes).map (fun s => bag m k s) ++ bagsFrom planes (k + 1) ms := by
  simp [bagsFrom, List.zipIdx_cons]

theorem mem_bag {m : Meta} {l s : Nat} {e : Tile4} (h : e ∈ bag m l s) :
    e.1 = l ∧ e.2.1 = s ∧ e.2.2.1 < m.chunked.y ∧ e.2.2.2 < m.chunked.x := by
  simp only [bag, List.mem_flatMap, List.mem_map, List.mem_range] at h
  obtain ⟨y, hy, x, hx, rfl⟩ := h
  exact ⟨rfl, rfl, hy, hx⟩

theorem bagsFrom_ge (planes : Nat) : ∀ (ms : List Meta) (k : Nat),
    ∀ b ∈ bagsFrom planes k ms, ∀ e ∈ b, k ≤ e.1 := by
  intro ms
  induction ms with
  | nil => intro k b hb; simp [bagsFrom] at hb
  | cons m ms ih =>
    intro k b hb e he
    rw [bagsFrom_cons, List.mem_append] at hb
    rcases hb with hb | hb
    · simp only [List.mem_map, List.mem_range] at hb
      obtain ⟨s, _, rfl⟩ := hb
      exact (mem_bag he).1 ▸ Nat.le_refl _
    · exact Nat.le_of_succ_le (ih (k + 1) b hb e he)

theorem bagsFrom_sorted (planes : Nat) : ∀ (ms : List Meta) (k : Nat),
    (bagsFrom planes k ms).Pairwise (fun b1 b2 => ∀ x ∈ b1, ∀ y ∈ b2, x.1 ≤ y.1) := by
  intro ms
  induction ms with
  | nil => intro k; simp [bagsFrom]
  | cons m ms ih =>
    intro k
    rw [bagsFrom_cons, List.pairwise_append]
    refine ⟨?_, ih (k + 1), ?_⟩
    · rw [List.pairwise_map]
      refine List.Pairwise.imp_of_mem ?_ (List.pairwise_lt_range (n := planes))
      intro s s' _ _ _ x hx y hy
      rw [(mem_bag hx).1, (mem_bag hy).1]
    · intro b1 hb1 b2 hb2 x hx y hy
      simp only [List.mem_map, List.mem_range] at hb1
      obtain ⟨s, _, rfl⟩ := hb1
      have := bagsFrom_ge planes ms (k + 1) b2 hb2 y hy
      rw [(mem_bag hx).1]; omega

theorem pairwise_of_const {c : Nat} : ∀ {l : List Tile4}, (∀ e ∈ l, e.1 = c) →
    l.Pairwise (fun a b => b.1 ≤ a.1) := by
  intro l
  induction l with
  | nil => intro _; simp
  | cons a t ih =>
    intro h
    rw [List.pairwise_cons]
    refine ⟨?_, ih (fun e he => h e (List.mem_cons_of_mem _ he))⟩
    intro b hb
    rw [h a (List.mem_cons_self ..), h b (List.mem_cons_of_mem _ hb)]

/-- levels never increase along the write order -/
theorem writeOrder_levels_desc (ms : List Meta) :
    (writeOrder ms).Pairwise (fun a b => b.1 ≤ a.1) := by
  cases ms with
  | nil => simp [writeOrder]
  | cons m0 rest =>
    rw [writeOrder_eq, List.pairwise_flatten]
    refine ⟨?_, ?_⟩
    · intro b hb
      rw [List.mem_reverse] at hb
      simp only [bagsFrom, List.mem_flatMap, List.mem_map, List.mem_range] at hb
      obtain ⟨⟨m, l⟩, _, s, _, rfl⟩ := hb
      exact pairwise_of_const (fun e he => (mem_bag he).1)
    · rw [List.pairwise_reverse]
      exact (bagsFrom_sorted m0.planes (m0 :: rest) 0).imp (fun h x hx y hy => h y hy x hx)

theorem bag_nodup (m : Meta) (l s : Nat) : (bag m l s).Nodup := by
  have h : (bag m l s).map (fun e => e.2.2.1 * m.chunked.x + e.2.2.2) =
      List.range (m.chunked.y * m.chunked.x) := by
    rw [← range_flatMap_range]
    simp only [bag, List.map_flatMap, List.map_map]
    rfl
  exact List.Nodup.of_map _ (h ▸ List.nodup_range)

/-- (level, plane) strictly increases along `_tiles` -/
theorem bagsFrom_strict (planes : Nat) : ∀ (ms : List Meta) (k : Nat),
    (bagsFrom planes k ms).Pairwise
      (fun b1 b2 => ∀ x ∈ b1, ∀ y ∈ b2, x.1 < y.1 ∨ (x.1 = y.1 ∧ x.2.1 < y.2.1)) := by
  intro ms
  induction ms with
  | nil => intro k; simp [bagsFrom]
  | cons m ms ih =>
    intro k
    rw [bagsFrom_cons, List.pairwise_append]
    refine ⟨?_, ih (k + 1), ?_⟩
    · rw [List.pairwise_map]
      refine List.Pairwise.imp_of_mem ?_ (List.pairwise_lt_range (n := planes))
      intro s s' _ _ hss x hx y hy
      right
      rw [(mem_bag hx).1, (mem_bag hy).1, (mem_bag hx).2.1, (mem_bag hy).2.1]
      exact ⟨rfl, hss⟩
    · intro b1 hb1 b2 hb2 x hx y hy
      simp only [List.mem_map, List.mem_range] at hb1
      obtain ⟨s, _, rfl⟩ := hb1
      have := bagsFrom_ge planes ms (k + 1) b2 hb2 y hy
      left
      rw [(mem_bag hx).1]; omega

theorem writeOrder_nodup (ms : List Meta) : (writeOrder ms).Nodup := by
  cases ms with
  | nil => simp [writeOrder]
  | cons m0 rest =>
    rw [writeOrder_eq, List.nodup_flatten]
    refine ⟨?_, ?_⟩
    · intro b hb
      rw [List.mem_reverse] at hb
      simp only [bagsFrom, List.mem_flatMap, List.mem_map, List.mem_range] at hb
      obtain ⟨⟨m, l⟩, _, s, _, rfl⟩ := hb
      exact bag_nodup m l s
    · rw [List.pairwise_reverse]
      refine (bagsFrom_strict m0.planes (m0 :: rest) 0).imp ?_
      intro b1 b2 h x hx2 hx1
      have := h x hx1 x hx2
      omega



theorem extractLoop_total (ms : List Meta) : ∀ (ts : List Obs) (st : TileInfo × Nat),
    (∀ t ∈ ts, ∃ k, obsKey ms t = .ok k) → ∃ st', extractLoop ms st ts = .ok st' := by
  intro ts
  induction ts with
  | nil => intro st _; exact ⟨st, rfl⟩
  | cons t ts ih =>
    intro st h
    obtain ⟨k, hk⟩ := h t (List.mem_cons_self ..)
    rw [extractLoop]
    have : ∃ st1, extractStep ms st t = .ok st1 := by
      unfold extractStep
      rw [hk]
      obtain ⟨l, f⟩ := k
      by_cases hz : t.sz ≠ 0
      · exact ⟨(updInfo st.1 l f st.2 t.sz, st.2 + t.sz), by simp only [if_pos hz]⟩
      · exact ⟨st, by simp only [if_neg hz]⟩
    obtain ⟨st1, hs⟩ := this
    rw [hs]
    exact ih st1 (fun t' ht' => h t' (List.mem_cons_of_mem _ ht'))


theorem pow2Below_spec : ∀ (fuel p x : Nat), 1 ≤ p → p ≤ x → x - p ≤ fuel → (∃ k, p = 2 ^ k) →
    (∃ k, pow2Below fuel p x = 2 ^ k) ∧ pow2Below fuel p x ≤ x ∧ x < 2 * pow2Below fuel p x := by
  intro fuel
  induction fuel with
  | zero =>
    intro p x h1 h2 h3 hk
    simp only [pow2Below]
    exact ⟨hk, h2, by omega⟩
  | succ fuel ih =>
    intro p x h1 h2 h3 ⟨k, hk⟩
    simp only [pow2Below]
    split
    · rename_i h
      exact ih (2 * p) x (by omega) h (by omega) ⟨k + 1, by rw [hk, Nat.pow_succ, Nat.mul_comm]⟩
    · rename_i h
      exact ⟨⟨k, hk⟩, h2, by omega⟩


end OdcGeo.C05
