/- Helper lemmas for C08: evaluation / inversion of the `from_bbox` model. -/
import OdcGeo.Model.C08
import OdcGeo.Lemmas.C20

namespace OdcGeo.C08
open OdcGeo.C20 (snapGrid gridLo gridHi)

theorem ts_eq (ox oy rx ry : Rat) :
    Aff.translation ox oy * Aff.scale rx ry = ⟨rx, 0, ox, 0, ry, oy⟩ := by
  simp [Aff.mul_def, Aff.mul, Aff.translation, Aff.scale]

theorem intShapeToRes_of_not_int {bb : BBox} {shape : ShapeArg} {res : ResArg}
    (h : ∀ n, shape ≠ .int n) : intShapeToRes bb shape res = .ok (shape, res) := by
  cases shape with
  | none => rfl
  | int n => exact absurd rfl (h n)
  | yx a b => rfl

/-- Resolution branch, evaluated. -/
theorem fromBbox_res_eq {bb : BBox} {tight : Bool} {shape : ShapeArg} {res : ResArg}
    {anchor : AnchorArg} {tol rx ry : Rat} (hs : ∀ n, shape ≠ .int n) (hres : res.xy? = some (rx, ry)) :
    fromBbox bb tight shape res anchor tol =
      (snapGrid bb.left bb.right rx ((snapOf tight (normAnchor anchor)).map (·.1)) tol >>= fun p =>
       snapGrid bb.bottom bb.top ry ((snapOf tight (normAnchor anchor)).map (·.2)) tol >>= fun q =>
       pure ⟨q.2, p.2, Aff.translation p.1 q.1 * Aff.scale rx ry⟩) := by
  unfold fromBbox
  rw [intShapeToRes_of_not_int hs]
  simp only [bind, Except.bind, hres]

theorem fromBbox_res_inv {bb : BBox} {tight : Bool} {shape : ShapeArg} {res : ResArg}
    {anchor : AnchorArg} {tol rx ry : Rat} {g : GeoBox} (hs : ∀ n, shape ≠ .int n)
    (hres : res.xy? = some (rx, ry)) (h : fromBbox bb tight shape res anchor tol = .ok g) :
    ∃ offx offy,
      snapGrid bb.left bb.right rx ((snapOf tight (normAnchor anchor)).map (·.1)) tol = .ok (offx, g.nx) ∧
      snapGrid bb.bottom bb.top ry ((snapOf tight (normAnchor anchor)).map (·.2)) tol = .ok (offy, g.ny) ∧
      g.affine = ⟨rx, 0, offx, 0, ry, offy⟩ := by
  rw [fromBbox_res_eq hs hres] at h
  cases hx : snapGrid bb.left bb.right rx ((snapOf tight (normAnchor anchor)).map (·.1)) tol with
  | error e => rw [hx] at h; exact absurd h (by simp [bind, Except.bind])
  | ok p =>
    cases hy : snapGrid bb.bottom bb.top ry ((snapOf tight (normAnchor anchor)).map (·.2)) tol with
    | error e => rw [hx, hy] at h; exact absurd h (by simp [bind, Except.bind])
    | ok q =>
      rw [hx, hy] at h
      simp only [bind, Except.bind, pure, Except.pure] at h
      have hg := Except.ok.inj h
      subst hg
      exact ⟨p.1, q.1, rfl, rfl, ts_eq _ _ _ _⟩

/-- extent of the geobox in terms of the one-axis grid vocabulary -/
theorem min_eq_gridLo (res tx : Rat) (n : Int) (hn : 0 ≤ n) :
    min tx (tx + (n : Rat) * res) = gridLo res tx n := by
  have hn' : (0 : Rat) ≤ n := by exact_mod_cast hn
  unfold gridLo
  split
  · rename_i h; exact min_eq_left (by nlinarith)
  · rename_i h
    have : res ≤ 0 := not_lt.mp h
    exact min_eq_right (by nlinarith)

theorem max_eq_gridHi (res tx : Rat) (n : Int) (hn : 0 ≤ n) :
    max tx (tx + (n : Rat) * res) = gridHi res tx n := by
  have hn' : (0 : Rat) ≤ n := by exact_mod_cast hn
  unfold gridHi
  split
  · rename_i h; exact max_eq_right (by nlinarith)
  · rename_i h
    have : res ≤ 0 := not_lt.mp h
    exact max_eq_left (by nlinarith)

/-- Shape branch, evaluated. -/
theorem fromBbox_shape_float_eq {bb : BBox} {tight : Bool} {anchor : AnchorArg} {tol : Rat} {ny nx : Int}
    (hnx : nx ≠ 0) (hny : ny ≠ 0) (hsn : snapOf tight (normAnchor anchor) = none) :
    fromBbox bb tight (.yx ny nx) .none anchor tol =
      .ok ⟨ny, nx, Aff.translation bb.left bb.top * Aff.scale (bb.spanX / nx) (-bb.spanY / ny)⟩ := by
  unfold fromBbox
  simp only [intShapeToRes, bind, Except.bind, ResArg.xy?, hsn, if_neg hnx, if_neg hny]
  rfl

theorem fromBbox_shape_snap_eq {bb : BBox} {tight : Bool} {anchor : AnchorArg} {tol sx sy : Rat} {ny nx : Int}
    (hnx : nx ≠ 0) (hny : ny ≠ 0) (hsn : snapOf tight (normAnchor anchor) = some (sx, sy)) :
    fromBbox bb tight (.yx ny nx) .none anchor tol =
      (snapGrid bb.left bb.right (bb.spanX / nx) (some sx) tol >>= fun p =>
       snapGrid bb.bottom bb.top (-bb.spanY / ny) (some sy) tol >>= fun q =>
       pure ⟨ny, nx, Aff.translation p.1 q.1 * Aff.scale (bb.spanX / nx) (-bb.spanY / ny)⟩) := by
  unfold fromBbox
  simp only [intShapeToRes, bind, Except.bind, ResArg.xy?, hsn, if_neg hnx, if_neg hny]

theorem fromBbox_shape_snap_inv {bb : BBox} {tight : Bool} {anchor : AnchorArg} {tol sx sy : Rat} {ny nx : Int}
    {g : GeoBox} (hnx : nx ≠ 0) (hny : ny ≠ 0) (hsn : snapOf tight (normAnchor anchor) = some (sx, sy))
    (h : fromBbox bb tight (.yx ny nx) .none anchor tol = .ok g) :
    ∃ offx offy n1 n2,
      snapGrid bb.left bb.right (bb.spanX / nx) (some sx) tol = .ok (offx, n1) ∧
      snapGrid bb.bottom bb.top (-bb.spanY / ny) (some sy) tol = .ok (offy, n2) ∧
      g = ⟨ny, nx, ⟨bb.spanX / nx, 0, offx, 0, -bb.spanY / ny, offy⟩⟩ := by
  rw [fromBbox_shape_snap_eq hnx hny hsn] at h
  cases hx : snapGrid bb.left bb.right (bb.spanX / nx) (some sx) tol with
  | error e => rw [hx] at h; exact absurd h (by simp [bind, Except.bind])
  | ok p =>
    cases hy : snapGrid bb.bottom bb.top (-bb.spanY / ny) (some sy) tol with
    | error e => rw [hx, hy] at h; exact absurd h (by simp [bind, Except.bind])
    | ok q =>
      rw [hx, hy] at h
      simp only [bind, Except.bind, pure, Except.pure] at h
      have hg := Except.ok.inj h
      subst hg
      exact ⟨p.1, q.1, p.2, q.2, rfl, rfl, by rw [ts_eq]⟩

/-- Valid input of the resolution branch. -/
structure ValidRes (bb : BBox) (rx ry tol : Rat) (snap : Option (Rat × Rat)) : Prop where
  hx : bb.left ≤ bb.right
  hy : bb.bottom ≤ bb.top
  hrx : rx ≠ 0
  hry : ry ≠ 0
  ht : 0 ≤ tol
  ht2 : tol < 1 / 2
  hsnap : ∀ s, snap = some s → (0 ≤ s.1 ∧ s.1 < 1) ∧ (0 ≤ s.2 ∧ s.2 < 1)

theorem ValidRes.hopx {bb rx ry tol snap} (v : ValidRes bb rx ry tol snap) :
    ∀ op, snap.map (·.1) = some op → 0 ≤ op ∧ op < 1 := by
  intro op h
  cases snap with
  | none => simp at h
  | some s => simp at h; rw [← h]; exact (v.hsnap s rfl).1

theorem ValidRes.hopy {bb rx ry tol snap} (v : ValidRes bb rx ry tol snap) :
    ∀ op, snap.map (·.2) = some op → 0 ≤ op ∧ op < 1 := by
  intro op h
  cases snap with
  | none => simp at h
  | some s => simp at h; rw [← h]; exact (v.hsnap s rfl).2

/-! ### bounding box of a vertex list -/

theorem foldl_min_le' (f : Rat × Rat → Rat) (ps : List (Rat × Rat)) (m0 : Rat) :
    ps.foldl (fun m q => min m (f q)) m0 ≤ m0 ∧ ∀ q ∈ ps, ps.foldl (fun m q => min m (f q)) m0 ≤ f q := by
  induction ps generalizing m0 with
  | nil => simp
  | cons y ys ih =>
    simp only [List.foldl_cons, List.mem_cons, forall_eq_or_imp]
    obtain ⟨h1, h2⟩ := ih (min m0 (f y))
    exact ⟨le_trans h1 (min_le_left _ _), le_trans h1 (min_le_right _ _), h2⟩

theorem le_foldl_max' (f : Rat × Rat → Rat) (ps : List (Rat × Rat)) (m0 : Rat) :
    m0 ≤ ps.foldl (fun m q => max m (f q)) m0 ∧ ∀ q ∈ ps, f q ≤ ps.foldl (fun m q => max m (f q)) m0 := by
  induction ps generalizing m0 with
  | nil => simp
  | cons y ys ih =>
    simp only [List.foldl_cons, List.mem_cons, forall_eq_or_imp]
    obtain ⟨h1, h2⟩ := ih (max m0 (f y))
    exact ⟨le_trans (le_max_left _ _) h1, le_trans (le_max_right _ _) h1, h2⟩

end OdcGeo.C08
