/-
Helper lemmas for `Model/C06Dask.lean`: the tree dask's `fold` / `mpu_write`'s collate build has the partitions
of the bags as its leaves, in stream order.
-/
import OdcGeo.Model.C06Dask
import OdcGeo.Lemmas.C06

set_option linter.unusedSimpArgs false
set_option linter.unusedVariables false

namespace OdcGeo.C06
variable {α : Type}

/-- the partitions at the leaves of a tree, in stream order -/
def Tree.leafList : Tree α → List (List (List α × Int))
  | .leaf chunks => [chunks]
  | .node l r => l.leafList ++ r.leafList

theorem Tree.bytes_leafList (t : Tree α) : t.bytes = (t.leafList.map chunksBytes).flatten := by
  induction t with
  | leaf c => simp [Tree.bytes, Tree.leafList, chunksBytes]
  | node l r ihl ihr => simp [Tree.bytes, Tree.leafList, ihl, ihr]

theorem Tree.obs_leafList (t : Tree α) : t.obs = (t.leafList.map chunksObs).flatten := by
  induction t with
  | leaf c => simp [Tree.obs, Tree.leafList, chunksObs]
  | node l r ihl ihr => simp [Tree.obs, Tree.leafList, ihl, ihr]

theorem Tree.leaves_leafList (t : Tree α) : t.leaves = t.leafList.length := by
  induction t with
  | leaf c => simp [Tree.leaves, Tree.leafList]
  | node l r ihl ihr => simp [Tree.leaves, Tree.leafList, ihl, ihr]

theorem Tree.nonEmpty_leafList (t : Tree α) : t.NonEmpty ↔ ∀ p ∈ t.leafList, p ≠ [] := by
  induction t with
  | leaf c => simp [Tree.NonEmpty, Tree.leafList]
  | node l r ihl ihr =>
    simp only [Tree.NonEmpty, Tree.leafList, List.mem_append, ihl, ihr]
    constructor
    · rintro ⟨h1, h2⟩ p (hp | hp)
      · exact h1 p hp
      · exact h2 p hp
    · intro h; exact ⟨fun p hp => h p (Or.inl hp), fun p hp => h p (Or.inr hp)⟩

/-- leaves of a list of trees -/
def leafListL (ts : List (Tree α)) : List (List (List α × Int)) := (ts.map Tree.leafList).flatten

@[simp] theorem leafListL_nil : leafListL ([] : List (Tree α)) = [] := rfl
@[simp] theorem leafListL_cons (t : Tree α) (ts : List (Tree α)) :
    leafListL (t :: ts) = t.leafList ++ leafListL ts := by simp [leafListL]
theorem leafListL_append (a b : List (Tree α)) : leafListL (a ++ b) = leafListL a ++ leafListL b := by
  simp [leafListL]

theorem foldl1_leafList (t : Tree α) (ts : List (Tree α)) :
    (foldl1 t ts).leafList = t.leafList ++ leafListL ts := by
  induction ts generalizing t with
  | nil => simp [foldl1]
  | cons r rs ih => simp [foldl1, ih, Tree.leafList, List.append_assoc]

/-! ### `partition_all` -/

theorem chunksOfAux_flatten {β : Type} (s : Nat) (hs : 1 ≤ s) :
    ∀ (f : Nat) (xs : List β), xs.length ≤ f → (chunksOfAux s f xs).flatten = xs := by
  intro f
  induction f with
  | zero => intro xs h; cases xs with
    | nil => simp [chunksOfAux]
    | cons x xs => simp at h
  | succ f ih =>
    intro xs h
    cases xs with
    | nil => simp [chunksOfAux]
    | cons x xs =>
      simp only [chunksOfAux, List.flatten_cons]
      rw [ih]
      · exact List.take_append_drop s (x :: xs)
      · simp only [List.length_drop, List.length_cons] at h ⊢; omega

theorem chunksOfAux_length {β : Type} (s : Nat) (hs : 2 ≤ s) :
    ∀ (f : Nat) (xs : List β), (chunksOfAux s f xs).length * 2 ≤ xs.length + 1 := by
  intro f
  induction f with
  | zero => intro xs; simp [chunksOfAux]
  | succ f ih =>
    intro xs
    cases xs with
    | nil => simp [chunksOfAux]
    | cons x xs =>
      simp only [chunksOfAux, List.length_cons]
      have := ih ((x :: xs).drop s)
      simp only [List.length_drop, List.length_cons] at this
      omega

theorem daskLevel_leafListL (s : Nat) (hs : 1 ≤ s) (ts : List (Tree α)) :
    leafListL (daskLevel s ts) = leafListL ts := by
  have key : ∀ (gs : List (List (Tree α))),
      leafListL (gs.filterMap reduceGroup) = leafListL gs.flatten := by
    intro gs
    induction gs with
    | nil => simp
    | cons g gs ih =>
      cases g with
      | nil => rw [List.filterMap_cons]; simpa [reduceGroup] using ih
      | cons t rest =>
        simp only [List.filterMap_cons, reduceGroup, List.flatten_cons, leafListL_cons, ih, foldl1_leafList,
          leafListL_append, List.cons_append, List.append_assoc]
  unfold daskLevel
  rw [key, chunksOf, chunksOfAux_flatten s hs _ _ (Nat.le_refl _)]

theorem daskLevel_length (s : Nat) (hs : 2 ≤ s) (ts : List (Tree α)) :
    (daskLevel s ts).length * 2 ≤ ts.length + 1 := by
  unfold daskLevel chunksOf
  have h1 := chunksOfAux_length s hs ts.length ts
  have h2 := List.length_filterMap_le (reduceGroup (α := α)) (chunksOfAux s ts.length ts)
  omega

theorem daskLevel_ne_nil (s : Nat) (hs : 1 ≤ s) (ts : List (Tree α)) (h : ts ≠ []) : daskLevel s ts ≠ [] := by
  cases ts with
  | nil => exact absurd rfl h
  | cons t ts =>
    have ht : (List.take s (t :: ts)) = t :: List.take (s - 1) ts := by
      cases s with
      | zero => omega
      | succ k => simp
    simp [daskLevel, chunksOf, chunksOfAux, ht, reduceGroup]

/-- the result of the fold loop, whatever the fuel: the leaves are the leaves of the inputs, in order -/
theorem daskFoldAux_leafList (s : Nat) (hs : 1 ≤ s) :
    ∀ (f : Nat) (ts : List (Tree α)) (t : Tree α), daskFoldAux s f ts = some t → t.leafList = leafListL ts := by
  intro f
  induction f with
  | zero => intro ts t h; cases ts <;> simp [daskFoldAux] at h
  | succ f ih =>
    intro ts t h
    cases ts with
    | nil => simp [daskFoldAux] at h
    | cons t0 ts =>
      simp only [daskFoldAux] at h
      split at h
      · cases h; simp [foldl1_leafList]
      · rw [ih _ _ h, daskLevel_leafListL s hs]

/-- with `split_every ≥ 2` the loop terminates within `length + 1` rounds -/
theorem daskFoldAux_some (s : Nat) (hs : 2 ≤ s) :
    ∀ (f : Nat) (ts : List (Tree α)), ts ≠ [] → ts.length < f → ∃ t, daskFoldAux s f ts = some t := by
  intro f
  induction f with
  | zero => intro ts _ h; omega
  | succ f ih =>
    intro ts hne hlen
    cases ts with
    | nil => exact absurd rfl hne
    | cons t0 ts =>
      simp only [daskFoldAux]
      split
      · exact ⟨_, rfl⟩
      · rename_i hgt
        apply ih _ (daskLevel_ne_nil s (by omega) _ (by simp))
        have := daskLevel_length s hs (t0 :: ts)
        simp only [List.length_cons] at this hgt hlen ⊢
        omega

theorem daskFold_spec (s : Nat) (hs : 2 ≤ s) (ts : List (Tree α)) (hne : ts ≠ []) :
    ∃ t, daskFold s ts = some t ∧ t.leafList = leafListL ts := by
  obtain ⟨t, ht⟩ := daskFoldAux_some s hs (ts.length + 1) ts hne (by omega)
  exact ⟨t, ht, daskFoldAux_leafList s (by omega) _ _ _ ht⟩

theorem fromDaskBag_spec (s : Nat) (hs : 2 ≤ s) (bag : List (List (List α × Int))) (hne : bag ≠ []) :
    ∃ t, fromDaskBag s bag = some t ∧ t.leafList = bag := by
  obtain ⟨t, ht, hl⟩ := daskFold_spec s hs (bag.map Tree.leaf) (by simpa using hne)
  refine ⟨t, ht, ?_⟩
  rw [hl]
  clear ht hl hne
  induction bag with
  | nil => simp
  | cons p ps ih => simp [Tree.leafList, ih]

theorem mapM_fromDaskBag (s : Nat) (hs : 2 ≤ s) (bags : List (List (List (List α × Int))))
    (hp : ∀ b ∈ bags, b ≠ []) :
    ∃ ts, bags.mapM (fromDaskBag s) = some ts ∧ leafListL ts = bags.flatten ∧ ts.length = bags.length := by
  induction bags with
  | nil => exact ⟨[], by simp, by simp, rfl⟩
  | cons b bs ih =>
    obtain ⟨ts, h1, h2, h3⟩ := ih (fun b' hb' => hp b' (by simp [hb']))
    obtain ⟨t, ht, hl⟩ := fromDaskBag_spec s hs b (hp b (by simp))
    refine ⟨t :: ts, ?_, by simp [hl, h2], by simp [h3]⟩
    simp [List.mapM_cons, ht, h1]

theorem mpuWriteTree_spec (s : Nat) (hs : 2 ≤ s) (bags : List (List (List (List α × Int))))
    (hb : bags ≠ []) (hp : ∀ b ∈ bags, b ≠ []) :
    ∃ t, mpuWriteTree s bags = some t ∧ t.leafList = bags.flatten := by
  obtain ⟨ts, h1, h2, h3⟩ := mapM_fromDaskBag s hs bags hp
  cases ts with
  | nil => simp at h3; exact absurd h3.symm (by simpa using hb) |> False.elim
  | cons t ts =>
    refine ⟨foldl1 t ts, by simp [mpuWriteTree, h1], ?_⟩
    rw [foldl1_leafList, ← h2, leafListL_cons]

end OdcGeo.C06

namespace OdcGeo.C06
variable {α : Type}

theorem Tree.chunks_leafList (t : Tree α) : t.chunks = (t.leafList.map fun p => p.map (·.1)).flatten := by
  induction t with
  | leaf c => simp [Tree.chunks, Tree.leafList]
  | node l r ihl ihr => simp [Tree.chunks, Tree.leafList, ihl, ihr]

end OdcGeo.C06
