/- Helper lemmas for C03 (reprojection planning). -/
import OdcGeo.Model.C03
import OdcGeo.Props.C17
import OdcGeo.Lemmas.Affine
import Mathlib.Tactic.Linarith
import Mathlib.Tactic.Ring
import Mathlib.Tactic.FieldSimp
import Mathlib.Tactic.Positivity
import Mathlib.Algebra.Order.Field.Rat

namespace OdcGeo.C03
open OdcGeo.C17

/-! ### `axisPos` : the `s > 0` body of `compute_axis_overlap` -/

theorem mul_inv_le_iff {x y s : Rat} (hs : 0 < s) : x * (1 / s) ≤ y ↔ x ≤ y * s := by
  rw [mul_one_div, div_le_iff₀ hs]

theorem le_mul_inv_iff {x y s : Rat} (hs : 0 < s) : y ≤ x * (1 / s) ↔ y * s ≤ x := by
  rw [mul_one_div, le_div_iff₀ hs]

theorem mul_inv_lt_iff {x y s : Rat} (hs : 0 < s) : x * (1 / s) < y ↔ x < y * s := by
  rw [mul_one_div, div_lt_iff₀ hs]

theorem lt_mul_inv_iff {x y s : Rat} (hs : 0 < s) : y < x * (1 / s) ↔ y * s < x := by
  rw [mul_one_div, lt_div_iff₀ hs]

/-- the far end in destination coordinates: `Ns * s_ + t_ = (Ns - t) / s` -/
theorem far_eq (Ns : Int) (s t : Rat) : (Ns : Rat) * (1 / s) + -t * (1 / s) = ((Ns : Rat) - t) * (1 / s) := by
  ring

/-- Both regions stay inside their images and are well formed (`start ≤ stop`). -/
theorem axisPos_within (Ns Nd : Int) (s t : Rat) (hNs : 0 ≤ Ns) (hNd : 0 ≤ Nd) (hs : 0 < s) :
    let r := axisPos Ns Nd s t
    (0 ≤ r.1.start ∧ r.1.start ≤ r.1.stop ∧ r.1.stop ≤ Ns) ∧
    (0 ≤ r.2.start ∧ r.2.start ≤ r.2.stop ∧ r.2.stop ≤ Nd) := by
  have hNsq : (0 : Rat) ≤ Ns := by exact_mod_cast hNs
  have hNdq : (0 : Rat) ≤ Nd := by exact_mod_cast hNd
  simp only [axisPos]
  rw [far_eq]
  by_cases ht : t < 0
  · -- destination starts before the source
    have h0 : (0 : Int) ≤ (-t * (1 / s)).floor := by
      rw [Rat.le_floor_iff]; push_cast
      rw [le_mul_inv_iff hs]; linarith
    by_cases ha : ((Nd : Rat) * s + t).ceil ≤ Ns
    · simp only [ht, ha, if_true]
      refine ⟨⟨le_refl _, le_max_right _ _, by omega⟩, ⟨by omega, by omega, le_refl _⟩⟩
    · simp only [ht, ha, if_true, if_false]
      have ha' : (Ns : Rat) < (Nd : Rat) * s + t := by
        by_contra hc
        exact ha (Rat.ceil_le_iff.mpr (not_lt.mp hc))
      have h1 : (((Ns : Rat) - t) * (1 / s)).ceil ≤ Nd := by
        rw [Rat.ceil_le_iff, mul_inv_le_iff hs]; linarith
      have h2 : (-t * (1 / s)).floor ≤ (((Ns : Rat) - t) * (1 / s)).ceil := by
        have : -t * (1 / s) ≤ ((Ns : Rat) - t) * (1 / s) := by
          apply mul_le_mul_of_nonneg_right _ (by positivity)
          linarith
        have e1 := Rat.floor_le (-t * (1 / s))
        have e2 := @Rat.le_ceil (((Ns : Rat) - t) * (1 / s))
        exact_mod_cast (le_trans e1 (le_trans this e2))
      refine ⟨⟨le_refl _, hNs, le_refl _⟩, ⟨by omega, by omega, by omega⟩⟩
  · have ht' : 0 ≤ t := not_lt.mp ht
    have h0 : (0 : Int) ≤ t.floor := by rw [Rat.le_floor_iff]; exact_mod_cast ht'
    have h3 : t.floor ≤ ((Nd : Rat) * s + t).ceil := by
      have e1 := Rat.floor_le t
      have e2 := @Rat.le_ceil ((Nd : Rat) * s + t)
      have : t ≤ (Nd : Rat) * s + t := by nlinarith
      exact_mod_cast (le_trans e1 (le_trans this e2))
    by_cases ha : ((Nd : Rat) * s + t).ceil ≤ Ns
    · simp only [ht, ha, if_true, if_false]
      refine ⟨⟨by omega, by omega, by omega⟩, ⟨le_refl _, hNd, le_refl _⟩⟩
    · simp only [ht, ha, if_false]
      have ha' : (Ns : Rat) < (Nd : Rat) * s + t := by
        by_contra hc
        exact ha (Rat.ceil_le_iff.mpr (not_lt.mp hc))
      have h1 : (((Ns : Rat) - t) * (1 / s)).ceil ≤ Nd := by
        rw [Rat.ceil_le_iff, mul_inv_le_iff hs]; linarith
      refine ⟨⟨by omega, by omega, le_refl _⟩, ⟨le_refl _, by omega, by omega⟩⟩


/-- Continuous coverage: a destination coordinate `u ∈ [0, Nd]` whose image `y = s·u + t`
lies in `[0, Ns]` is inside the destination interval and `y` inside the source interval;
strictly inside the source interval when `u`, `y` are interior. -/
theorem axisPos_covers (Ns Nd : Int) (s t u : Rat) (hs : 0 < s)
    (hu0 : 0 ≤ u) (huN : u ≤ Nd) (hy0 : 0 ≤ s * u + t) (hyN : s * u + t ≤ Ns) :
    let r := axisPos Ns Nd s t
    ((r.2.start : Rat) ≤ u ∧ u ≤ r.2.stop) ∧
    ((r.1.start : Rat) ≤ s * u + t ∧ s * u + t ≤ r.1.stop) ∧
    (0 < u → 0 < s * u + t → (r.1.start : Rat) < s * u + t) ∧
    (u < Nd → s * u + t < Ns → s * u + t < r.1.stop) := by
  simp only [axisPos]
  rw [far_eq]
  have hsu : 0 ≤ s * u := by positivity
  have hsN : s * u ≤ (Nd : Rat) * s := by nlinarith
  have hceil := @Rat.le_ceil ((Nd : Rat) * s + t)
  -- start bounds
  have hin : (((if t < 0 then ((0 : Int), min (-t * (1 / s)).floor Nd) else (min t.floor Ns, 0)).2 : Int) : Rat) ≤ u ∧
      (((if t < 0 then ((0 : Int), min (-t * (1 / s)).floor Nd) else (min t.floor Ns, 0)).1 : Int) : Rat) ≤ s * u + t ∧
      (0 < u → 0 < s * u + t →
        (((if t < 0 then ((0 : Int), min (-t * (1 / s)).floor Nd) else (min t.floor Ns, 0)).1 : Int) : Rat) < s * u + t) := by
    by_cases ht : t < 0
    · simp only [ht, if_true]
      refine ⟨?_, by simpa using hy0, fun _ h => by simpa using h⟩
      have e1 : ((min (-t * (1 / s)).floor Nd : Int) : Rat) ≤ ((-t * (1 / s)).floor : Rat) := by
        exact_mod_cast min_le_left _ _
      have e2 := Rat.floor_le (-t * (1 / s))
      have e3 : -t * (1 / s) ≤ u := by rw [mul_inv_le_iff hs]; linarith
      linarith
    · simp only [ht, if_false]
      have ht' : 0 ≤ t := not_lt.mp ht
      have e1 : ((min t.floor Ns : Int) : Rat) ≤ (t.floor : Rat) := by exact_mod_cast min_le_left _ _
      have e2 := Rat.floor_le t
      refine ⟨by simpa using hu0, by linarith, fun h _ => ?_⟩
      have : 0 < s * u := by positivity
      linarith
  -- stop bounds
  have hout : u ≤ (((if ((Nd : Rat) * s + t).ceil ≤ Ns then (max ((Nd : Rat) * s + t).ceil 0, Nd)
        else (Ns, max 0 (((Ns : Rat) - t) * (1 / s)).ceil)).2 : Int) : Rat) ∧
      s * u + t ≤ (((if ((Nd : Rat) * s + t).ceil ≤ Ns then (max ((Nd : Rat) * s + t).ceil 0, Nd)
        else (Ns, max 0 (((Ns : Rat) - t) * (1 / s)).ceil)).1 : Int) : Rat) ∧
      (u < Nd → s * u + t < Ns → s * u + t < (((if ((Nd : Rat) * s + t).ceil ≤ Ns then (max ((Nd : Rat) * s + t).ceil 0, Nd)
        else (Ns, max 0 (((Ns : Rat) - t) * (1 / s)).ceil)).1 : Int) : Rat)) := by
    by_cases ha : ((Nd : Rat) * s + t).ceil ≤ Ns
    · simp only [ha, if_true]
      have e1 : ((((Nd : Rat) * s + t).ceil : Int) : Rat) ≤ ((max ((Nd : Rat) * s + t).ceil 0 : Int) : Rat) := by
        exact_mod_cast le_max_left _ _
      refine ⟨huN, by linarith, fun h _ => ?_⟩
      have : s * u < (Nd : Rat) * s := by nlinarith
      linarith
    · simp only [ha, if_false]
      have e1 : ((((Ns : Rat) - t) * (1 / s)).ceil : Rat) ≤ ((max 0 (((Ns : Rat) - t) * (1 / s)).ceil : Int) : Rat) := by
        exact_mod_cast le_max_right _ _
      have e2 := @Rat.le_ceil (((Ns : Rat) - t) * (1 / s))
      have e3 : u ≤ ((Ns : Rat) - t) * (1 / s) := by rw [le_mul_inv_iff hs]; linarith
      exact ⟨by linarith, hyN, fun _ h => h⟩
  exact ⟨⟨hin.1, hout.1⟩, ⟨hin.2.1, hout.2.1⟩, hin.2.2, hout.2.2⟩


/-- No overlap (touching included) ⇒ both intervals are empty. -/
theorem axisPos_disjoint (Ns Nd : Int) (s t : Rat) (hNs : 0 ≤ Ns) (hNd : 0 ≤ Nd) (hs : 0 < s)
    (h : (Nd : Rat) * s + t ≤ 0 ∨ (Ns : Rat) ≤ t) :
    let r := axisPos Ns Nd s t
    r.1.start = r.1.stop ∧ r.2.start = r.2.stop := by
  have hNsq : (0 : Rat) ≤ Ns := by exact_mod_cast hNs
  have hNdq : (0 : Rat) ≤ Nd := by exact_mod_cast hNd
  have hNds : 0 ≤ (Nd : Rat) * s := by positivity
  simp only [axisPos]
  rw [far_eq]
  rcases h with h | h
  · -- destination entirely before the source
    have ha : ((Nd : Rat) * s + t).ceil ≤ 0 := by rw [Rat.ceil_le_iff]; exact_mod_cast h
    have ha' : ((Nd : Rat) * s + t).ceil ≤ Ns := le_trans ha hNs
    by_cases ht : t < 0
    · simp only [ht, ha', if_true]
      have : Nd ≤ (-t * (1 / s)).floor := by
        rw [Rat.le_floor_iff, le_mul_inv_iff hs]; linarith
      exact ⟨by omega, by omega⟩
    · simp only [ht, ha', if_true, if_false]
      have ht0 : t = 0 := le_antisymm (by linarith) (not_lt.mp ht)
      have hNd0 : Nd = 0 := by
        have : (Nd : Rat) * s ≤ 0 := by linarith
        have : (Nd : Rat) ≤ 0 := by
          by_contra hc
          have : 0 < (Nd : Rat) * s := mul_pos (not_le.mp hc) hs
          linarith
        have : Nd ≤ 0 := by exact_mod_cast this
        omega
      subst ht0
      have : (0 : Rat).floor = 0 := by
        apply le_antisymm
        · have := Rat.floor_le (0 : Rat); exact_mod_cast this
        · rw [Rat.le_floor_iff]; simp
      rw [this]
      exact ⟨by omega, by omega⟩
  · -- destination entirely after the source
    have ht : ¬ t < 0 := by linarith
    have hfl : Ns ≤ t.floor := by rw [Rat.le_floor_iff]; exact h
    by_cases ha : ((Nd : Rat) * s + t).ceil ≤ Ns
    · simp only [ht, ha, if_true, if_false]
      have h1 : (Nd : Rat) * s + t ≤ Ns := Rat.ceil_le_iff.mp ha
      have hNd0 : Nd = 0 := by
        have : (Nd : Rat) * s ≤ 0 := by linarith
        have : (Nd : Rat) ≤ 0 := by
          by_contra hc
          have : 0 < (Nd : Rat) * s := mul_pos (not_le.mp hc) hs
          linarith
        have : Nd ≤ 0 := by exact_mod_cast this
        omega
      have h2 : Ns ≤ ((Nd : Rat) * s + t).ceil := by
        have := @Rat.le_ceil ((Nd : Rat) * s + t)
        have : (Ns : Rat) ≤ (((Nd : Rat) * s + t).ceil : Rat) := by linarith
        exact_mod_cast this
      exact ⟨by omega, by omega⟩
    · simp only [ht, ha, if_false]
      have : (((Ns : Rat) - t) * (1 / s)).ceil ≤ 0 := by
        rw [Rat.ceil_le_iff, mul_inv_le_iff hs]; push_cast; linarith
      exact ⟨by omega, by omega⟩


/-! ### `box_overlap` -/

theorem boxOverlap_ok {src dst : Shape} {ST : Aff} {r : ROI × ROI} (h : boxOverlap src dst ST = .ok r) :
    ∃ yy xx, axisOverlap src.1 dst.1 ST.e ST.f = .ok yy ∧ axisOverlap src.2 dst.2 ST.a ST.c = .ok xx ∧
      r = ((yy.1, xx.1), (yy.2, xx.2)) := by
  unfold boxOverlap at h
  cases hy : axisOverlap src.1 dst.1 ST.e ST.f with
  | error e => simp [hy] at h
  | ok yy =>
    cases hx : axisOverlap src.2 dst.2 ST.a ST.c with
    | error e => simp [hy, hx] at h
    | ok xx =>
      simp only [hy, hx, Except.ok.injEq] at h
      exact ⟨yy, xx, rfl, rfl, h.symm⟩

/-! ### region from sample points: envelope forms used by `_relative_rois` -/

/-- `x` lies in the envelope `[lo, hi]` grown by `pad`, strictly on the far side. -/
theorem fromPointsAxis_floor_mem (lo hi x : Rat) (n pad : Int) (al : Option Int)
    (h1 : lo - pad ≤ x) (h2 : x < hi + pad) (hx0 : 0 ≤ x) (hxn : x < n)
    (hal : ∀ a, al = some a → 0 < a) :
    (fromPointsAxis lo hi n pad al).start ≤ x.floor ∧ x.floor < (fromPointsAxis lo hi n pad al).stop := by
  have hf0 : 0 ≤ x.floor := by rw [Rat.le_floor_iff]; exact_mod_cast hx0
  have hfn : x.floor < n := by
    have := Rat.floor_le x
    have : (x.floor : Rat) < n := by linarith
    exact_mod_cast this
  have key : ∀ i o : Int, i ≤ lo.floor - pad → hi.ceil + pad ≤ o →
      clip i 0 n ≤ x.floor ∧ x.floor < clip o 0 n := by
    intro i o hi' ho'
    have hi2 : i ≤ x.floor := by
      rw [Rat.le_floor_iff]
      have : (i : Rat) ≤ (lo.floor : Rat) - pad := by exact_mod_cast hi'
      have := Rat.floor_le lo
      linarith
    have ho2 : x.floor < o := by
      have : (hi.ceil : Rat) + pad ≤ (o : Rat) := by exact_mod_cast ho'
      have := @Rat.le_ceil hi
      have := Rat.floor_le x
      have : (x.floor : Rat) < o := by linarith
      exact_mod_cast this
    unfold clip
    constructor <;> split_ifs <;> omega
  cases al with
  | none => exact key _ _ (le_refl _) (le_refl _)
  | some a =>
    have ha := hal a rfl
    simp only [fromPointsAxis]
    apply key
    · exact (align_down_spec (lo.floor - pad) a ha).2.1
    · exact (align_up_spec (hi.ceil + pad) a ha).2.1

/-- closed form: `x` in the envelope grown by `pad` and in `[0, n]` lies in the closed region. -/
theorem fromPointsAxis_mem_closed (lo hi x : Rat) (n pad : Int) (al : Option Int)
    (h1 : lo - pad ≤ x) (h2 : x ≤ hi + pad) (hx0 : 0 ≤ x) (hxn : x ≤ n)
    (hal : ∀ a, al = some a → 0 < a) :
    ((fromPointsAxis lo hi n pad al).start : Rat) ≤ x ∧ x ≤ (fromPointsAxis lo hi n pad al).stop := by
  have key : ∀ i o : Int, i ≤ lo.floor - pad → hi.ceil + pad ≤ o →
      ((clip i 0 n : Int) : Rat) ≤ x ∧ x ≤ ((clip o 0 n : Int) : Rat) := by
    intro i o hi' ho'
    have hi2 : (i : Rat) ≤ x := by
      have : (i : Rat) ≤ (lo.floor : Rat) - pad := by exact_mod_cast hi'
      have := Rat.floor_le lo
      linarith
    have ho2 : x ≤ (o : Rat) := by
      have : (hi.ceil : Rat) + pad ≤ (o : Rat) := by exact_mod_cast ho'
      have := @Rat.le_ceil hi
      linarith
    unfold clip
    constructor
    · split_ifs with c1 c2
      · simpa using hx0
      · have : (n : Rat) < i := by exact_mod_cast c2
        linarith
      · exact hi2
    · split_ifs with c1 c2
      · have : (o : Rat) < 0 := by exact_mod_cast c1
        linarith
      · exact hxn
      · exact ho2
  cases al with
  | none => exact key _ _ (le_refl _) (le_refl _)
  | some a =>
    have ha := hal a rfl
    simp only [fromPointsAxis]
    apply key
    · exact (align_down_spec (lo.floor - pad) a ha).2.1
    · exact (align_up_spec (hi.ceil + pad) a ha).2.1

/-- Envelope hypotheses on a list of finite sample points (`(x, y)` pairs). -/
structure InEnvStrict (pts : List (Rat × Rat)) (q : Rat × Rat) (pad : Int) : Prop where
  xlo : ∃ p ∈ pts, p.1 - pad ≤ q.1
  xhi : ∃ p ∈ pts, q.1 < p.1 + pad
  ylo : ∃ p ∈ pts, p.2 - pad ≤ q.2
  yhi : ∃ p ∈ pts, q.2 < p.2 + pad

structure InEnvClosed (pts : List (Rat × Rat)) (q : Rat × Rat) : Prop where
  xlo : ∃ p ∈ pts, p.1 ≤ q.1
  xhi : ∃ p ∈ pts, q.1 ≤ p.1
  ylo : ∃ p ∈ pts, p.2 ≤ q.2
  yhi : ∃ p ∈ pts, q.2 ≤ p.2

/-- `fromPoints` on the finite part of the samples -/
theorem fromPoints_of_finite (pts : List (Coord × Coord)) (ny nx pad : Int) (al : Option Int)
    (p : Rat × Rat) (hp : p ∈ finitePts pts) :
    fromPoints pts ny nx pad al =
      (fromPointsAxis (minL 0 ((finitePts pts).map (·.2))) (maxL 0 ((finitePts pts).map (·.2))) ny pad al,
       fromPointsAxis (minL 0 ((finitePts pts).map (·.1))) (maxL 0 ((finitePts pts).map (·.1))) nx pad al) := by
  simp only [fromPoints]
  cases hf : finitePts pts with
  | nil => rw [hf] at hp; simp at hp
  | cons a as => rfl

theorem fromPoints_floor_mem (pts : List (Coord × Coord)) (ny nx pad : Int) (al : Option Int) (q : Rat × Rat)
    (henv : InEnvStrict (finitePts pts) q pad)
    (hx : 0 ≤ q.1 ∧ q.1 < nx) (hy : 0 ≤ q.2 ∧ q.2 < ny) (hal : ∀ a, al = some a → 0 < a) :
    let r := fromPoints pts ny nx pad al
    (r.2.start ≤ q.1.floor ∧ q.1.floor < r.2.stop) ∧ (r.1.start ≤ q.2.floor ∧ q.2.floor < r.1.stop) := by
  obtain ⟨p0, hp0, _⟩ := henv.xlo
  rw [fromPoints_of_finite pts ny nx pad al p0 hp0]
  obtain ⟨a, ha, ha'⟩ := henv.xlo
  obtain ⟨b, hb, hb'⟩ := henv.xhi
  obtain ⟨c, hc, hc'⟩ := henv.ylo
  obtain ⟨d, hd, hd'⟩ := henv.yhi
  have m1 := minL_le 0 ((finitePts pts).map (·.1)) a.1 (List.mem_map.mpr ⟨a, ha, rfl⟩)
  have m2 := le_maxL 0 ((finitePts pts).map (·.1)) b.1 (List.mem_map.mpr ⟨b, hb, rfl⟩)
  have m3 := minL_le 0 ((finitePts pts).map (·.2)) c.2 (List.mem_map.mpr ⟨c, hc, rfl⟩)
  have m4 := le_maxL 0 ((finitePts pts).map (·.2)) d.2 (List.mem_map.mpr ⟨d, hd, rfl⟩)
  exact ⟨fromPointsAxis_floor_mem _ _ q.1 nx pad al (by linarith) (by linarith) hx.1 hx.2 hal,
         fromPointsAxis_floor_mem _ _ q.2 ny pad al (by linarith) (by linarith) hy.1 hy.2 hal⟩

theorem fromPoints_mem_closed (pts : List (Coord × Coord)) (ny nx : Int) (q : Rat × Rat)
    (henv : InEnvClosed (finitePts pts) q)
    (hx : 0 ≤ q.1 ∧ q.1 ≤ nx) (hy : 0 ≤ q.2 ∧ q.2 ≤ ny) :
    let r := fromPoints pts ny nx 0 none
    ((r.2.start : Rat) ≤ q.1 ∧ q.1 ≤ r.2.stop) ∧ ((r.1.start : Rat) ≤ q.2 ∧ q.2 ≤ r.1.stop) := by
  obtain ⟨p0, hp0, _⟩ := henv.xlo
  rw [fromPoints_of_finite pts ny nx 0 none p0 hp0]
  obtain ⟨a, ha, ha'⟩ := henv.xlo
  obtain ⟨b, hb, hb'⟩ := henv.xhi
  obtain ⟨c, hc, hc'⟩ := henv.ylo
  obtain ⟨d, hd, hd'⟩ := henv.yhi
  have m1 := minL_le 0 ((finitePts pts).map (·.1)) a.1 (List.mem_map.mpr ⟨a, ha, rfl⟩)
  have m2 := le_maxL 0 ((finitePts pts).map (·.1)) b.1 (List.mem_map.mpr ⟨b, hb, rfl⟩)
  have m3 := minL_le 0 ((finitePts pts).map (·.2)) c.2 (List.mem_map.mpr ⟨c, hc, rfl⟩)
  have m4 := le_maxL 0 ((finitePts pts).map (·.2)) d.2 (List.mem_map.mpr ⟨d, hd, rfl⟩)
  exact ⟨fromPointsAxis_mem_closed _ _ q.1 nx 0 none (by simp; linarith) (by simp; linarith) hx.1 hx.2 (by simp),
         fromPointsAxis_mem_closed _ _ q.2 ny 0 none (by simp; linarith) (by simp; linarith) hy.1 hy.2 (by simp)⟩


/-! ### `_relative_rois` for an abstract point transform -/

theorem not_isEmpty_of_mem (r : ROI) (i j : Int) (h1 : r.1.start ≤ i ∧ i < r.1.stop)
    (h2 : r.2.start ≤ j ∧ j < r.2.stop) : ROI.isEmpty r = false := by
  simp only [ROI.isEmpty, Bool.or_eq_false_iff, decide_eq_false_iff_not]
  omega

/-- the sample points `_relative_rois` builds the source region from -/
def srcSamples (dst : Shape) (back : PtTr) (pps : Nat) : List (Coord × Coord) :=
  (roiBoundary (⟨0, dst.1⟩, ⟨0, dst.2⟩) pps).map back

/-- the sample points the destination region is built from, given the source region -/
def dstSamples (roiSrc : ROI) (fwd : PtTr) (pps : Nat) : List (Coord × Coord) :=
  (roiBoundary roiSrc pps).map fwd

/-- Under the source-side envelope hypothesis the source region of `_relative_rois` is the
aligned, padded, clipped envelope (the "alignment revived an empty overlap" branch is not
taken) and contains the source pixel `⌊q⌋`. -/
theorem relativeRois_src (src dst : Shape) (back fwd : PtTr) (pps : Nat) (pad : Int) (al : Option Int)
    (q : Rat × Rat) (henv : InEnvStrict (finitePts (srcSamples dst back pps)) q pad)
    (hx : 0 ≤ q.1 ∧ q.1 < src.2) (hy : 0 ≤ q.2 ∧ q.2 < src.1) (hal : ∀ a, al = some a → 0 < a) :
    let r := relativeRois src dst back fwd pps pad al
    r.1 = fromPoints (srcSamples dst back pps) src.1 src.2 pad al ∧
    r.2 = fromPoints (dstSamples r.1 fwd pps) dst.1 dst.2 0 none ∧
    (r.1.2.start ≤ q.1.floor ∧ q.1.floor < r.1.2.stop) ∧ (r.1.1.start ≤ q.2.floor ∧ q.2.floor < r.1.1.stop) := by
  have m1 := fromPoints_floor_mem (srcSamples dst back pps) src.1 src.2 pad al q henv hx hy hal
  have m2 := fromPoints_floor_mem (srcSamples dst back pps) src.1 src.2 pad none q henv hx hy (by simp)
  have e1 := not_isEmpty_of_mem _ _ _ m1.2 m1.1
  have e2 := not_isEmpty_of_mem _ _ _ m2.2 m2.1
  simp only [relativeRois]
  simp only [srcSamples, dstSamples] at *
  simp only [e1, e2, Bool.false_eq_true, not_false_eq_true, and_false, if_false]
  exact ⟨trivial, trivial, m1⟩


/-! ### corner images: a linear function on a rectangle is extremal at a corner -/

theorem roiBoundary_two (r : ROI) :
    roiBoundary r 2 = [((r.2.start : Rat), (r.1.start : Rat)), ((r.2.stop : Rat), (r.1.start : Rat)),
                       ((r.2.stop : Rat), (r.1.stop : Rat)), ((r.2.start : Rat), (r.1.stop : Rat))] := by
  simp [roiBoundary, linspace, edgeIndex, List.range_succ]

theorem finitePts_linTr (B : Aff) (l : List (Rat × Rat)) : finitePts (l.map (linTr B)) = l.map B.apply := by
  induction l with
  | nil => rfl
  | cons p ps ih =>
    simp only [List.map_cons, finitePts, List.filterMap_cons, linTr] at ih ⊢
    rw [ih]

theorem mul_corner_le (a x0 x1 u : Rat) (h0 : x0 ≤ u) (h1 : u ≤ x1) :
    ∃ xc, (xc = x0 ∨ xc = x1) ∧ a * xc ≤ a * u ∧ (a ≠ 0 → x0 < u → u < x1 → a * xc < a * u) := by
  by_cases ha : 0 ≤ a
  · refine ⟨x0, Or.inl rfl, mul_le_mul_of_nonneg_left h0 ha, fun hne h _ => ?_⟩
    have : 0 < a := lt_of_le_of_ne ha (Ne.symm hne)
    exact mul_lt_mul_of_pos_left h this
  · have ha' : a < 0 := not_le.mp ha
    refine ⟨x1, Or.inr rfl, ?_, fun _ _ h => ?_⟩
    · nlinarith
    · nlinarith

/-- lower corner: some corner of the rectangle has a value `≤` (strictly `<` for interior points
of a non-constant function). -/
theorem lin_corner_le (a b k x0 x1 y0 y1 u v : Rat) (hx0 : x0 ≤ u) (hx1 : u ≤ x1) (hy0 : y0 ≤ v) (hy1 : v ≤ y1) :
    ∃ c : Rat × Rat, c ∈ [(x0, y0), (x1, y0), (x1, y1), (x0, y1)] ∧
      a * c.1 + b * c.2 + k ≤ a * u + b * v + k ∧
      ((a ≠ 0 ∨ b ≠ 0) → x0 < u → u < x1 → y0 < v → v < y1 → a * c.1 + b * c.2 + k < a * u + b * v + k) := by
  obtain ⟨xc, hxc, hx, hxs⟩ := mul_corner_le a x0 x1 u hx0 hx1
  obtain ⟨yc, hyc, hy, hys⟩ := mul_corner_le b y0 y1 v hy0 hy1
  refine ⟨(xc, yc), ?_, by simp only; linarith, ?_⟩
  · rcases hxc with rfl | rfl <;> rcases hyc with rfl | rfl <;> simp
  · intro hne h1 h2 h3 h4
    simp only
    rcases hne with hne | hne
    · have := hxs hne h1 h2; linarith
    · have := hys hne h3 h4; linarith

theorem lin_corner_ge (a b k x0 x1 y0 y1 u v : Rat) (hx0 : x0 ≤ u) (hx1 : u ≤ x1) (hy0 : y0 ≤ v) (hy1 : v ≤ y1) :
    ∃ c : Rat × Rat, c ∈ [(x0, y0), (x1, y0), (x1, y1), (x0, y1)] ∧
      a * u + b * v + k ≤ a * c.1 + b * c.2 + k ∧
      ((a ≠ 0 ∨ b ≠ 0) → x0 < u → u < x1 → y0 < v → v < y1 → a * u + b * v + k < a * c.1 + b * c.2 + k) := by
  obtain ⟨c, hc, h1, h2⟩ := lin_corner_le (-a) (-b) (-k) x0 x1 y0 y1 u v hx0 hx1 hy0 hy1
  refine ⟨c, hc, by linarith, fun hne a1 a2 a3 a4 => ?_⟩
  have := h2 (by rcases hne with h | h <;> [left; right] <;> simpa using h) a1 a2 a3 a4
  linarith

/-- rows of an invertible matrix are non-zero -/
theorem rows_ne_zero (A : Aff) (h : A.det ≠ 0) : (A.a ≠ 0 ∨ A.b ≠ 0) ∧ (A.d ≠ 0 ∨ A.e ≠ 0) := by
  unfold Aff.det at h
  constructor
  · by_contra hc
    push Not at hc
    apply h; rw [hc.1, hc.2]; ring
  · by_contra hc
    push Not at hc
    apply h; rw [hc.1, hc.2]; ring

/-- Image of an interior point of a rectangle under an invertible affine map lies strictly
inside the envelope of the corner images (grown by any `pad ≥ 0`). -/
theorem inEnvStrict_of_interior (B : Aff) (hdet : B.det ≠ 0) (rect : ROI) (p : Rat × Rat) (pad : Int) (hpad : 0 ≤ pad)
    (hx : (rect.2.start : Rat) < p.1 ∧ p.1 < rect.2.stop) (hy : (rect.1.start : Rat) < p.2 ∧ p.2 < rect.1.stop) :
    InEnvStrict (finitePts ((roiBoundary rect 2).map (linTr B))) (B.apply p) pad := by
  rw [finitePts_linTr, roiBoundary_two]
  have hp : (0 : Rat) ≤ pad := by exact_mod_cast hpad
  obtain ⟨r1, r2⟩ := rows_ne_zero B hdet
  obtain ⟨c1, m1, l1, _⟩ := lin_corner_le B.a B.b B.c _ _ _ _ p.1 p.2 (le_of_lt hx.1) (le_of_lt hx.2) (le_of_lt hy.1) (le_of_lt hy.2)
  obtain ⟨c2, m2, _, l2⟩ := lin_corner_ge B.a B.b B.c _ _ _ _ p.1 p.2 (le_of_lt hx.1) (le_of_lt hx.2) (le_of_lt hy.1) (le_of_lt hy.2)
  obtain ⟨c3, m3, l3, _⟩ := lin_corner_le B.d B.e B.f _ _ _ _ p.1 p.2 (le_of_lt hx.1) (le_of_lt hx.2) (le_of_lt hy.1) (le_of_lt hy.2)
  obtain ⟨c4, m4, _, l4⟩ := lin_corner_ge B.d B.e B.f _ _ _ _ p.1 p.2 (le_of_lt hx.1) (le_of_lt hx.2) (le_of_lt hy.1) (le_of_lt hy.2)
  have l2' := l2 r1 hx.1 hx.2 hy.1 hy.2
  have l4' := l4 r2 hx.1 hx.2 hy.1 hy.2
  refine ⟨⟨B.apply c1, List.mem_map.mpr ⟨c1, m1, rfl⟩, ?_⟩, ⟨B.apply c2, List.mem_map.mpr ⟨c2, m2, rfl⟩, ?_⟩,
          ⟨B.apply c3, List.mem_map.mpr ⟨c3, m3, rfl⟩, ?_⟩, ⟨B.apply c4, List.mem_map.mpr ⟨c4, m4, rfl⟩, ?_⟩⟩ <;>
    simp only [Aff.apply] <;> linarith

/-- Image of a point of a (closed) rectangle lies in the closed envelope of the corner images. -/
theorem inEnvClosed_of_mem (B : Aff) (rect : ROI) (p : Rat × Rat)
    (hx : (rect.2.start : Rat) ≤ p.1 ∧ p.1 ≤ rect.2.stop) (hy : (rect.1.start : Rat) ≤ p.2 ∧ p.2 ≤ rect.1.stop) :
    InEnvClosed (finitePts ((roiBoundary rect 2).map (linTr B))) (B.apply p) := by
  rw [finitePts_linTr, roiBoundary_two]
  obtain ⟨c1, m1, l1, _⟩ := lin_corner_le B.a B.b B.c _ _ _ _ p.1 p.2 hx.1 hx.2 hy.1 hy.2
  obtain ⟨c2, m2, l2, _⟩ := lin_corner_ge B.a B.b B.c _ _ _ _ p.1 p.2 hx.1 hx.2 hy.1 hy.2
  obtain ⟨c3, m3, l3, _⟩ := lin_corner_le B.d B.e B.f _ _ _ _ p.1 p.2 hx.1 hx.2 hy.1 hy.2
  obtain ⟨c4, m4, l4, _⟩ := lin_corner_ge B.d B.e B.f _ _ _ _ p.1 p.2 hx.1 hx.2 hy.1 hy.2
  refine ⟨⟨B.apply c1, List.mem_map.mpr ⟨c1, m1, rfl⟩, ?_⟩, ⟨B.apply c2, List.mem_map.mpr ⟨c2, m2, rfl⟩, ?_⟩,
          ⟨B.apply c3, List.mem_map.mpr ⟨c3, m3, rfl⟩, ?_⟩, ⟨B.apply c4, List.mem_map.mpr ⟨c4, m4, rfl⟩, ?_⟩⟩ <;>
    simp only [Aff.apply] <;> linarith


/-! ### separated footprints -/

theorem foldl_max_le (xs : List Rat) (x0 b : Rat) (h0 : x0 ≤ b) (h : ∀ x ∈ xs, x ≤ b) : xs.foldl max x0 ≤ b := by
  induction xs generalizing x0 with
  | nil => simpa using h0
  | cons y ys ih =>
    simp only [List.foldl_cons]
    exact ih _ (max_le h0 (h y (by simp))) (fun x hx => h x (by simp [hx]))

theorem le_foldl_min (xs : List Rat) (x0 b : Rat) (h0 : b ≤ x0) (h : ∀ x ∈ xs, b ≤ x) : b ≤ xs.foldl min x0 := by
  induction xs generalizing x0 with
  | nil => simpa using h0
  | cons y ys ih =>
    simp only [List.foldl_cons]
    exact ih _ (le_min h0 (h y (by simp))) (fun x hx => h x (by simp [hx]))

theorem maxL_le (d b : Rat) (x : Rat) (xs : List Rat) (h : ∀ y ∈ x :: xs, y ≤ b) : maxL d (x :: xs) ≤ b :=
  foldl_max_le xs x b (h x (by simp)) (fun y hy => h y (by simp [hy]))

theorem le_minL (d b : Rat) (x : Rat) (xs : List Rat) (h : ∀ y ∈ x :: xs, b ≤ y) : b ≤ minL d (x :: xs) :=
  le_foldl_min xs x b (h x (by simp)) (fun y hy => h y (by simp [hy]))

/-- one axis: envelope entirely left of `-pad` or right of `n + pad` ⇒ empty slice -/
theorem fromPointsAxis_separated (lo hi : Rat) (n pad : Int) (hn : 0 ≤ n) (hlh : lo ≤ hi)
    (h : hi + pad ≤ 0 ∨ (n : Rat) ≤ lo - pad) :
    (fromPointsAxis lo hi n pad none).stop - (fromPointsAxis lo hi n pad none).start ≤ 0 := by
  simp only [fromPointsAxis]
  have hfc : lo.floor ≤ hi.ceil := by
    have := Rat.floor_le lo
    have := @Rat.le_ceil hi
    have : (lo.floor : Rat) ≤ hi.ceil := by linarith
    exact_mod_cast this
  rcases h with h | h
  · have : hi.ceil + pad ≤ 0 := by
      have : hi.ceil ≤ -pad := by rw [Rat.ceil_le_iff]; push_cast; linarith
      omega
    unfold clip; split_ifs <;> omega
  · have : n ≤ lo.floor - pad := by
      have : n + pad ≤ lo.floor := by rw [Rat.le_floor_iff]; push_cast; linarith
      omega
    unfold clip; split_ifs <;> omega

theorem isEmpty_of_dim (r : ROI) (h : r.1.stop - r.1.start ≤ 0 ∨ r.2.stop - r.2.start ≤ 0) : ROI.isEmpty r = true := by
  simp only [ROI.isEmpty, Bool.or_eq_true, decide_eq_true_eq]; exact h

/-- The unaligned padded envelope is empty when every finite sample lies beyond the padded image
on one side. -/
theorem fromPoints_separated (pts : List (Coord × Coord)) (ny nx pad : Int) (hny : 0 ≤ ny) (hnx : 0 ≤ nx)
    (h : (∀ p ∈ finitePts pts, p.1 + pad ≤ 0) ∨ (∀ p ∈ finitePts pts, (nx : Rat) ≤ p.1 - pad) ∨
         (∀ p ∈ finitePts pts, p.2 + pad ≤ 0) ∨ (∀ p ∈ finitePts pts, (ny : Rat) ≤ p.2 - pad)) :
    ROI.isEmpty (fromPoints pts ny nx pad none) = true := by
  simp only [fromPoints]
  cases hf : finitePts pts with
  | nil => simp [ROI.isEmpty]
  | cons p ps =>
    rw [hf] at h
    simp only
    apply isEmpty_of_dim
    have hxlh : minL 0 ((p :: ps).map (·.1)) ≤ maxL 0 ((p :: ps).map (·.1)) :=
      le_trans (minL_le 0 _ p.1 (by simp)) (le_maxL 0 _ p.1 (by simp))
    have hylh : minL 0 ((p :: ps).map (·.2)) ≤ maxL 0 ((p :: ps).map (·.2)) :=
      le_trans (minL_le 0 _ p.2 (by simp)) (le_maxL 0 _ p.2 (by simp))
    rcases h with h | h | h | h
    · right
      apply fromPointsAxis_separated _ _ nx pad hnx hxlh
      left
      have : maxL 0 ((p :: ps).map (·.1)) ≤ -(pad : Rat) := by
        simp only [List.map_cons]
        apply maxL_le
        intro y hy
        rw [← List.map_cons, List.mem_map] at hy
        obtain ⟨q, hq, rfl⟩ := hy
        have := h q hq; linarith
      linarith
    · right
      apply fromPointsAxis_separated _ _ nx pad hnx hxlh
      right
      have : (nx : Rat) + pad ≤ minL 0 ((p :: ps).map (·.1)) := by
        simp only [List.map_cons]
        apply le_minL
        intro y hy
        rw [← List.map_cons, List.mem_map] at hy
        obtain ⟨q, hq, rfl⟩ := hy
        have := h q hq; linarith
      linarith
    · left
      apply fromPointsAxis_separated _ _ ny pad hny hylh
      left
      have : maxL 0 ((p :: ps).map (·.2)) ≤ -(pad : Rat) := by
        simp only [List.map_cons]
        apply maxL_le
        intro y hy
        rw [← List.map_cons, List.mem_map] at hy
        obtain ⟨q, hq, rfl⟩ := hy
        have := h q hq; linarith
      linarith
    · left
      apply fromPointsAxis_separated _ _ ny pad hny hylh
      right
      have : (ny : Rat) + pad ≤ minL 0 ((p :: ps).map (·.2)) := by
        simp only [List.map_cons]
        apply le_minL
        intro y hy
        rw [← List.map_cons, List.mem_map] at hy
        obtain ⟨q, hq, rfl⟩ := hy
        have := h q hq; linarith
      linarith


/-! ### structure of `compute_reproject_roi` (same-CRS branch) -/


theorem reprojectLinear_cases {src dst : Shape} {fwd A : Aff} {n ttol stol : Rat} {padding align : Option Int} {p : Plan}
    (h : reprojectLinear src dst fwd A n ttol stol padding align = .ok p) :
    pickReadScale (min (scale2 A n).1 (scale2 A n).2) = .ok p.readShrink ∧
    p.scale = min (scale2 A n).1 (scale2 A n).2 ∧ p.scale2 = scale2 A n ∧
    ((p.pasteOk = false ∧
        (p.roiSrc, p.roiDst) = relativeRois src dst (linTr A) (linTr fwd) 2 (padOr1 padding) (normAlign align)) ∨
     (p.pasteOk = true ∧ canPaste A n stol ttol = .ok true ∧ normAlign align = none ∧
        (padding = none ∨ padding = some 0) ∧
        ((p.readShrink = 1 ∧ boxOverlap src dst (snapAffine A ttol stol) = .ok (p.roiSrc, p.roiDst)) ∨
         (p.readShrink ≠ 1 ∧ ∃ r' : ROI,
            boxOverlap (zoomOutDim src.1 p.readShrink, zoomOutDim src.2 p.readShrink) dst
              (snapAffine (Aff.scale (1 / (p.readShrink : Rat)) (1 / (p.readShrink : Rat)) * A) ttol stol)
              = .ok (r', p.roiDst) ∧ p.roiSrc = scaledUpROI r' p.readShrink)))) := by
  unfold reprojectLinear at h
  dsimp only at h
  cases hrs : pickReadScale (min (scale2 A n).1 (scale2 A n).2) with
  | error e => simp [hrs] at h
  | ok rs =>
    simp only [hrs] at h
    by_cases ht : ((if align = some 0 then none else align) = none) ∧ (padding = none ∨ padding = some 0)
    · simp only [ht, and_self, if_true] at h
      cases hcp : canPaste A n stol ttol with
      | error e => simp [hcp] at h
      | ok b =>
        cases b with
        | false =>
          simp only [hcp, Except.ok.injEq] at h
          subst h
          refine ⟨rfl, rfl, rfl, Or.inl ⟨rfl, ?_⟩⟩
          simp only [padOr1, normAlign, ht.1, Prod.mk.eta]
        | true =>
          simp only [hcp] at h
          by_cases h1 : rs = 1
          · rw [if_pos h1] at h
            cases hb : boxOverlap src dst (snapAffine A ttol stol) with
            | error e => simp [hb] at h
            | ok r =>
              obtain ⟨r1, r2⟩ := r
              simp only [hb, Except.ok.injEq] at h
              subst h
              subst h1
              exact ⟨rfl, rfl, rfl, Or.inr ⟨rfl, rfl, ht.1, ht.2, Or.inl ⟨rfl, rfl⟩⟩⟩
          · rw [if_neg h1] at h
            split at h
            · simp at h
            · rename_i r1 r2 hb
              simp only [Except.ok.injEq] at h
              subst h
              exact ⟨rfl, rfl, rfl, Or.inr ⟨rfl, rfl, ht.1, ht.2, Or.inr ⟨h1, r1, hb, rfl⟩⟩⟩
    · simp only [ht, if_false, Except.ok.injEq] at h
      subst h
      refine ⟨rfl, rfl, rfl, Or.inl ⟨rfl, ?_⟩⟩
      simp only [padOr1, normAlign, Prod.mk.eta]


/-! ### numeric helpers on non-negative input -/

theorem floor_intCast' (k : Int) : ((k : Rat)).floor = k := by
  apply le_antisymm
  · have := Rat.floor_le (k : Rat); exact_mod_cast this
  · rw [Rat.le_floor_iff]

theorem trunc_nonneg (x : Rat) (h : 0 ≤ x) : trunc x = x.floor := by simp [trunc, h]

/-- `split_float` of a non-negative number: `(⌊x⌋, frac)` or `(⌊x⌋+1, frac-1)` when `frac > ½` -/
theorem splitFloat_nonneg (x : Rat) (h : 0 ≤ x) :
    splitFloat x = if x - x.floor > 1 / 2 then ((x.floor : Rat) + 1, x - x.floor - 1) else ((x.floor : Rat), x - x.floor) := by
  have f1 := Rat.floor_le x
  simp only [splitFloat, fmod1, trunc_nonneg x h]
  split_ifs with c1 c2
  · simp
  · exfalso; linarith
  · simp

/-- `zoom_out` size: a multiple of `rs` covering the image, less than `rs` beyond it -/
theorem zoomOutDim_spec (n rs : Int) (hn : 1 ≤ n) (hrs : 1 ≤ rs) :
    n ≤ zoomOutDim n rs * rs ∧ zoomOutDim n rs * rs < n + rs := by
  have hrq : (0 : Rat) < rs := by exact_mod_cast (by omega : (0 : Int) < rs)
  have hnq : (0 : Rat) < n := by exact_mod_cast (by omega : (0 : Int) < n)
  have c1 := @Rat.le_ceil ((n : Rat) / rs)
  have c2 : (((n : Rat) / rs).ceil : Rat) < (n : Rat) / rs + 1 := Rat.ceil_lt
  have hpos : 1 ≤ ((n : Rat) / rs).ceil := by
    have : (0 : Rat) < (n : Rat) / rs := div_pos hnq hrq
    have : (0 : Rat) < (((n : Rat) / rs).ceil : Rat) := by linarith
    have : 0 < ((n : Rat) / rs).ceil := by exact_mod_cast this
    omega
  have e : zoomOutDim n rs = ((n : Rat) / rs).ceil := by simp only [zoomOutDim]; omega
  rw [e]
  constructor
  · have : (n : Rat) ≤ (((n : Rat) / rs).ceil : Rat) * rs := by
      rw [div_le_iff₀ hrq] at c1; exact c1
    exact_mod_cast this
  · have : (((n : Rat) / rs).ceil : Rat) * rs < (n : Rat) + rs := by
      have : (((n : Rat) / rs).ceil : Rat) * rs < ((n : Rat) / rs + 1) * rs := by nlinarith
      have e2 : ((n : Rat) / rs + 1) * rs = n + rs := by field_simp
      linarith
    exact_mod_cast this


/-- case analysis of `_pick_read_scale` -/
theorem pickReadScale_cases (scale tol : Rat) (rs : Int) (h : pickReadScale scale tol = .ok rs) :
    (scale < 1 ∧ rs = 1) ∨
    (1 ≤ scale ∧ (rs = scale.floor ∨
      (rs = scale.floor + 1 ∧ rabs (scale - scale.floor - 1) < tol ∧ scale - scale.floor > 1 / 2))) := by
  unfold pickReadScale at h
  split_ifs at h with c1 c2
  · left; simp only [Except.ok.injEq] at h; exact ⟨c2, h.symm⟩
  · right
    simp only [Except.ok.injEq] at h
    have hs : 1 ≤ scale := not_lt.mp c2
    have hfl : (1 : Rat) ≤ (scale.floor : Rat) := by
      have : (1 : Int) ≤ scale.floor := by rw [Rat.le_floor_iff]; exact_mod_cast hs
      exact_mod_cast this
    refine ⟨hs, ?_⟩
    subst h
    simp only [maybeInt, splitFloat_nonneg scale (by linarith)]
    split_ifs with c3 c4 c5
    · right
      have e : (scale.floor : Rat) + 1 = ((scale.floor + 1 : Int) : Rat) := by push_cast; ring
      have h0 : (0 : Rat) ≤ ((scale.floor + 1 : Int) : Rat) := by push_cast; linarith
      refine ⟨?_, c4, c3⟩
      show trunc ((scale.floor : Rat) + 1) = scale.floor + 1
      rw [e, trunc_nonneg _ h0, floor_intCast']
    · left; rw [trunc_nonneg _ (by linarith)]
    · left
      show trunc (scale.floor : Rat) = scale.floor
      rw [trunc_nonneg _ (by linarith), floor_intCast']
    · left; rw [trunc_nonneg _ (by linarith)]

end OdcGeo.C03
