/- Basic algebra of the rational affine model (shared helper lemmas). -/
import OdcGeo.Model.Affine
import Mathlib.Tactic.Ring
import Mathlib.Tactic.LinearCombination
import Mathlib.Tactic.FieldSimp
import Mathlib.Tactic.Linarith
import Mathlib.Algebra.Order.Field.Rat

namespace OdcGeo.Aff

@[ext] theorem ext' {A B : Aff} (ha : A.a = B.a) (hb : A.b = B.b) (hc : A.c = B.c)
    (hd : A.d = B.d) (he : A.e = B.e) (hf : A.f = B.f) : A = B := by
  cases A; cases B; simp_all

theorem mul_def (A B : Aff) : A * B = mul A B := rfl

theorem apply_mul (A B : Aff) (p : Rat × Rat) : (A * B).apply p = A.apply (B.apply p) := by
  simp only [mul_def, mul, apply]; ext <;> ring

theorem mul_assoc' (A B C : Aff) : A * B * C = A * (B * C) := by
  simp only [mul_def, mul]; ext <;> simp <;> ring

theorem id_mul (A : Aff) : Aff.id * A = A := by
  simp only [mul_def, mul, Aff.id]; ext <;> simp

theorem mul_id (A : Aff) : A * Aff.id = A := by
  simp only [mul_def, mul, Aff.id]; ext <;> simp

theorem apply_id (p : Rat × Rat) : Aff.id.apply p = p := by
  simp [apply, Aff.id]

theorem inv_mul_self (A : Aff) (h : A.det ≠ 0) : A.inv * A = Aff.id := by
  obtain ⟨a, b, c, d, e, f⟩ := A
  have h' : a * e - b * d ≠ 0 := h
  simp only [mul_def, mul, inv, det, Aff.id]
  have key : (a * e - b * d) * (1 / (a * e - b * d)) = 1 := by field_simp
  generalize 1 / (a * e - b * d) = k at key ⊢
  ext <;> dsimp only <;>
    first | ring1 | linear_combination key | linear_combination (-c) * key
          | linear_combination (-f) * key

theorem mul_inv_self (A : Aff) (h : A.det ≠ 0) : A * A.inv = Aff.id := by
  obtain ⟨a, b, c, d, e, f⟩ := A
  have h' : a * e - b * d ≠ 0 := h
  simp only [mul_def, mul, inv, det, Aff.id]
  have key : (a * e - b * d) * (1 / (a * e - b * d)) = 1 := by field_simp
  generalize 1 / (a * e - b * d) = k at key ⊢
  ext <;> dsimp only <;>
    first | ring1 | linear_combination key | linear_combination (-c) * key
          | linear_combination (-f) * key

theorem inv_apply_apply (A : Aff) (h : A.det ≠ 0) (p : Rat × Rat) : A.inv.apply (A.apply p) = p := by
  rw [← apply_mul, inv_mul_self A h, apply_id]

theorem apply_inv_apply (A : Aff) (h : A.det ≠ 0) (p : Rat × Rat) : A.apply (A.inv.apply p) = p := by
  rw [← apply_mul, mul_inv_self A h, apply_id]

theorem det_mul (A B : Aff) : (A * B).det = A.det * B.det := by
  simp only [mul_def, mul, det]; ring

end OdcGeo.Aff
