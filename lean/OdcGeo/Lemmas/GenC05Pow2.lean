/-
Bridge for `compute_cog_spec`: the regenerated `align_down_pow2` (the code's `2 ** int(ceil(log2 x))`, halved when above `x`)
equals C05's fuel-based `alignDownPow2` on naturals.  Route: regenerated = C20's model (`ceil(log2)` form, same proof as
`Props/GenC20`), and C20's model = C05's model because both are the power of two `p` with `p ≤ x < 2 p`.
-/
import OdcGeo.Gen.C05
import OdcGeo.Gen.Tie
import OdcGeo.Lemmas.GenC20
import OdcGeo.Lemmas.C20b
import OdcGeo.Props.C05

namespace OdcGeo.C05
open OdcGeo.Gen

theorem gen_align_up_pow2_eq (x : Int) : Gen.C05.align_up_pow2 x = .ok (C20.alignUpPow2 x) := by
  by_cases h : x ≤ 0
  · simp [Gen.C05.align_up_pow2, C20.alignUpPow2, h]
  · simp [Gen.C05.align_up_pow2, C20.alignUpPow2, h, C20.py_ceilLog2_eq x (by omega), C20.py_ipow_two_nat]

theorem gen_align_down_pow2_eq (x : Int) : Gen.C05.align_down_pow2 x = .ok (C20.alignDownPow2 x) := by
  tie_auto [Gen.C05.align_down_pow2, C20.alignDownPow2, gen_align_up_pow2_eq]

/-- the two models of "largest power of two `≤ x`" agree -/
theorem alignDownPow2_bridge (mp : Nat) (h : 0 < mp) :
    C20.alignDownPow2 (mp : Int) = ((alignDownPow2 mp : Nat) : Int) := by
  obtain ⟨n, hA, hle, hgr⟩ := C20.alignDownPow2_greatest (mp : Int) (by omega)
  obtain ⟨⟨k, hB⟩, hBle, hBlt⟩ := alignDownPow2_spec mp (by omega)
  rw [hA, hB]
  have hle' : 2 ^ n ≤ mp := by exact_mod_cast hle
  have h1 : 2 ^ k ≤ 2 ^ n := by
    have hk : (2 : Int) ^ k ≤ (mp : Int) := by
      have : 2 ^ k ≤ mp := by rw [← hB]; exact hBle
      exact_mod_cast this
    have := hgr k hk
    exact_mod_cast this
  have h2 : 2 ^ n < 2 ^ (k + 1) := by
    rw [hB] at hBlt
    calc 2 ^ n ≤ mp := hle'
      _ < 2 * 2 ^ k := hBlt
      _ = 2 ^ (k + 1) := by rw [Nat.pow_succ]; omega
  have h3 : n < k + 1 := (Nat.pow_lt_pow_iff_right (by omega)).mp h2
  have h4 : 2 ^ n ≤ 2 ^ k := Nat.pow_le_pow_right (by omega) (by omega)
  have : 2 ^ n = 2 ^ k := Nat.le_antisymm h4 h1
  exact_mod_cast this

/-- the regenerated `align_down_pow2` on a positive natural -/
theorem gen_align_down_pow2_nat (mp : Nat) (h : 0 < mp) :
    Gen.C05.align_down_pow2 (mp : Int) = .ok ((alignDownPow2 mp : Nat) : Int) := by
  rw [gen_align_down_pow2_eq, alignDownPow2_bridge mp h]

end OdcGeo.C05
