/- Helper lemmas for C11: `maybe_int`, `snap_grid` cover / alignment (the C08 contract re-proved for
the copy of `snap_grid` in Model/C11.lean), `argmaxFirst`. -/
import OdcGeo.Model.C11
import OdcGeo.Lemmas.Affine
import Mathlib.Tactic.Linarith
import Mathlib.Tactic.Ring
import Mathlib.Tactic.FieldSimp
import Mathlib.Tactic.Positivity
import Mathlib.Algebra.Order.Field.Rat

namespace OdcGeo.C11
open OdcGeo

theorem rabs_nonneg (x : Rat) : 0 ≤ rabs x := by unfold rabs; split <;> linarith

theorem rabs_pos {x : Rat} (h : x ≠ 0) : 0 < rabs x := by
  unfold rabs
  split
  · linarith
  · rcases lt_or_gt_of_ne h with h' | h'
    · linarith
    · exact h'

theorem rabs_of_pos {x : Rat} (h : 0 < x) : rabs x = x := by unfold rabs; split <;> linarith
theorem rabs_of_neg {x : Rat} (h : x < 0) : rabs x = -x := by unfold rabs; split <;> linarith

/-- `maybe_int(x, tol)` is `x` itself or an integer closer than `tol` to `x` -/
theorem maybeInt_spec (x tol : Rat) :
    maybeInt x tol = x ∨ ∃ w : Int, maybeInt x tol = (w : Rat) ∧ rabs (x - w) < tol := by
  unfold maybeInt
  simp only
  split
  · rename_i h
    right
    refine ⟨(splitFloat x).1, rfl, ?_⟩
    have hsum : x - ((splitFloat x).1 : Rat) = (splitFloat x).2 := by
      unfold splitFloat
      simp only
      split
      · push_cast; ring
      · split
        · push_cast; ring
        · ring
    rw [hsum]
    exact h
  · left; rfl

theorem floor_maybeInt_le (x tol : Rat) (ht : 0 ≤ tol) : ((maybeInt x tol).floor : Rat) ≤ x + tol := by
  rcases maybeInt_spec x tol with h | ⟨w, hw, hd⟩
  · rw [h]
    have := Rat.floor_le (a := x)
    linarith
  · rw [hw, Rat.floor_intCast]
    unfold rabs at hd
    split at hd <;> linarith

theorem le_ceil_maybeInt (x tol : Rat) (ht : 0 ≤ tol) : x - tol ≤ ((maybeInt x tol).ceil : Rat) := by
  rcases maybeInt_spec x tol with h | ⟨w, hw, hd⟩
  · rw [h]
    have := Rat.le_ceil (x := x)
    linarith
  · rw [hw, Rat.ceil_intCast]
    unfold rabs at hd
    split at hd <;> linarith

/-- `_snap_edge_pos`: the grid `[tx, tx + n·res]` covers `[x0, x1]` up to `tol·res`; `tx` is a
multiple of `res`; `n ≥ 1` -/
theorem snapEdgePos_spec (x0 x1 res tol tx : Rat) (n : Int) (ht : 0 ≤ tol)
    (h : snapEdgePos x0 x1 res tol = .ok (tx, n)) :
    0 < res ∧ tx ≤ x0 + tol * res ∧ x1 - tol * res ≤ tx + (n : Rat) * res ∧ 1 ≤ n ∧ ∃ k : Int, tx = (k : Rat) * res := by
  unfold snapEdgePos at h
  split at h
  · cases h
  · rename_i hres
    have hres' : 0 < res := by simpa using hres
    split at h
    · cases h
    · simp only [Except.ok.injEq, Prod.mk.injEq] at h
      obtain ⟨h1, h2⟩ := h
      subst h1
      subst h2
      have hf := floor_maybeInt_le (x0 / res) tol ht
      have hc := le_ceil_maybeInt (x1 / res) tol ht
      have e0 : x0 / res * res = x0 := by field_simp
      have e1 : x1 / res * res = x1 := by field_simp
      refine ⟨hres', ?_, ?_, le_max_left _ _, ⟨_, rfl⟩⟩
      · have := mul_le_mul_of_nonneg_right hf hres'.le
        nlinarith
      · have hn : ((maybeInt (x1 / res) tol).ceil - (maybeInt (x0 / res) tol).floor : Int)
            ≤ max 1 ((maybeInt (x1 / res) tol).ceil - (maybeInt (x0 / res) tol).floor) := le_max_right _ _
        have hn' : (((maybeInt (x1 / res) tol).ceil : Rat) - ((maybeInt (x0 / res) tol).floor : Rat))
            ≤ ((max 1 ((maybeInt (x1 / res) tol).ceil - (maybeInt (x0 / res) tol).floor) : Int) : Rat) := by
          exact_mod_cast hn
        have := mul_le_mul_of_nonneg_right hc hres'.le
        have h3 := mul_le_mul_of_nonneg_right hn' hres'.le
        nlinarith

/-- the lower / upper world edge of a 1-D grid `(tx, n)` with signed pixel size `res` -/
def gridLo (tx res : Rat) (n : Int) : Rat := if 0 < res then tx else tx + (n : Rat) * res
def gridHi (tx res : Rat) (n : Int) : Rat := if 0 < res then tx + (n : Rat) * res else tx

/-- **the C08 contract for `snap_grid`** (`snap_cover`, `snap_aligned`, `snap_n_pos`): for every
`x0 ≤ x1`, `res ≠ 0`, anchor offset and `tol ≥ 0` the snapped grid covers `[x0, x1]` up to
`tol·|res|`, has `n ≥ 1`, and with a snapping offset `o` its lower edge is `(k + o)·|res|`. -/
theorem snapGrid_spec (x0 x1 res tol tx : Rat) (off : Option Rat) (n : Int) (ht : 0 ≤ tol) (_hx : x0 ≤ x1)
    (h : snapGrid x0 x1 res off tol = .ok (tx, n)) :
    gridLo tx res n ≤ x0 + tol * rabs res ∧ x1 - tol * rabs res ≤ gridHi tx res n ∧ 1 ≤ n ∧
      (∀ o, off = some o → ∃ k : Int, gridLo tx res n = ((k : Rat) + o) * rabs res) := by
  unfold snapGrid at h
  cases off with
  | none =>
    simp only at h
    split at h
    · cases h
    · rename_i hne
      split at h
      · rename_i hpos
        simp only [Except.ok.injEq, Prod.mk.injEq] at h
        obtain ⟨h1, h2⟩ := h
        subst h1; subst h2
        have hc := le_ceil_maybeInt ((x1 - x0) / res) tol ht
        have e : (x1 - x0) / res * res = x1 - x0 := by field_simp
        have hn : ((maybeInt ((x1 - x0) / res) tol).ceil : Rat)
            ≤ ((max 1 (maybeInt ((x1 - x0) / res) tol).ceil : Int) : Rat) := by exact_mod_cast le_max_right _ _
        have h3 := mul_le_mul_of_nonneg_right (le_trans hc hn) hpos.le
        refine ⟨?_, ?_, le_max_left _ _, by intro o ho; cases ho⟩
        · simp only [gridLo, hpos, if_true, rabs_of_pos hpos]
          nlinarith
        · simp only [gridHi, hpos, if_true, rabs_of_pos hpos]
          nlinarith
      · rename_i hnpos
        have hneg : res < 0 := by
          rcases lt_or_gt_of_ne hne with h' | h'
          · exact h'
          · exact absurd h' hnpos
        have hr : 0 < -res := by linarith
        simp only [Except.ok.injEq, Prod.mk.injEq] at h
        obtain ⟨h1, h2⟩ := h
        subst h1; subst h2
        have hc := le_ceil_maybeInt ((x1 - x0) / (-res)) tol ht
        have e : (x1 - x0) / (-res) * (-res) = x1 - x0 := by field_simp
        have hn : ((maybeInt ((x1 - x0) / (-res)) tol).ceil : Rat)
            ≤ ((max (maybeInt ((x1 - x0) / (-res)) tol).ceil 1 : Int) : Rat) := by exact_mod_cast le_max_left _ _
        have h3 := mul_le_mul_of_nonneg_right (le_trans hc hn) hr.le
        refine ⟨?_, ?_, le_max_right _ _, by intro o ho; cases ho⟩
        · simp only [gridLo, hnpos, if_false, rabs_of_neg hneg]
          nlinarith
        · simp only [gridHi, hnpos, if_false, rabs_of_neg hneg]
          nlinarith
  | some o =>
    simp only at h
    split at h
    · cases h
    · rename_i ho
      have ho' : 0 ≤ o ∧ o < 1 := by simpa using ho
      split at h
      · cases h
      · rename_i tx' n' hs
        simp only [Except.ok.injEq, Prod.mk.injEq] at h
        obtain ⟨h1, h2⟩ := h
        subst h1; subst h2
        unfold snapEdge at hs
        split at hs
        · cases hs
        · split at hs
          · rename_i hpos
            obtain ⟨_, hlo, hhi, hn, k, hk⟩ := snapEdgePos_spec _ _ _ _ _ _ ht hs
            refine ⟨?_, ?_, hn, ?_⟩
            · simp only [gridLo, hpos, if_true, rabs_of_pos hpos] at hlo ⊢
              linarith
            · simp only [gridHi, hpos, if_true, rabs_of_pos hpos] at hhi ⊢
              linarith
            · intro o' ho'
              cases ho'
              refine ⟨k, ?_⟩
              simp only [gridLo, hpos, if_true, rabs_of_pos hpos]
              rw [hk]; ring
          · rename_i hnpos
            split at hs
            · cases hs
            · rename_i tx'' n'' hs'
              simp only [Except.ok.injEq, Prod.mk.injEq] at hs
              obtain ⟨h1, h2⟩ := hs
              subst h1; subst h2
              obtain ⟨hr, hlo, hhi, hn, k, hk⟩ := snapEdgePos_spec _ _ _ _ _ _ ht hs'
              have hneg : res < 0 := by linarith
              refine ⟨?_, ?_, hn, ?_⟩
              · simp only [gridLo, hnpos, if_false, rabs_of_neg hneg] at hlo ⊢
                linarith
              · simp only [gridHi, hnpos, if_false, rabs_of_neg hneg] at hhi ⊢
                linarith
              · intro o' ho'
                cases ho'
                refine ⟨k, ?_⟩
                simp only [gridLo, hnpos, if_false, rabs_of_neg hneg]
                rw [hk]; ring

/-! ### minimality: the snapped origin is less than one pixel away from the requested edge -/

theorem sub_one_lt_floor_maybeInt (x tol : Rat) (ht : tol ≤ 1) : x - 1 < ((maybeInt x tol).floor : Rat) := by
  rcases maybeInt_spec x tol with h | ⟨w, hw, hd⟩
  · rw [h]
    have := Rat.lt_floor_add_one (a := x)
    push_cast at this
    linarith
  · rw [hw, Rat.floor_intCast]
    unfold rabs at hd
    split at hd <;> linarith

theorem ceil_maybeInt_lt_add_one (x tol : Rat) (ht : tol ≤ 1) : ((maybeInt x tol).ceil : Rat) < x + 1 := by
  rcases maybeInt_spec x tol with h | ⟨w, hw, hd⟩
  · rw [h]
    exact Rat.ceil_lt (x := x)
  · rw [hw, Rat.ceil_intCast]
    unfold rabs at hd
    split at hd <;> linarith

/-- `_snap_edge_pos` when the span is at least one pixel and `tol < ½`: the lower edge is less than a pixel
below `x0`, the upper edge less than a pixel above `x1` -/
theorem snapEdgePos_minimal (x0 x1 res tol tx : Rat) (n : Int) (ht : 0 ≤ tol) (ht2 : tol < 1 / 2)
    (hspan : res ≤ x1 - x0) (h : snapEdgePos x0 x1 res tol = .ok (tx, n)) :
    x0 - res < tx ∧ tx + (n : Rat) * res < x1 + res := by
  unfold snapEdgePos at h
  split at h
  · cases h
  · rename_i hres
    have hres' : 0 < res := by simpa using hres
    split at h
    · cases h
    · simp only [Except.ok.injEq, Prod.mk.injEq] at h
      obtain ⟨h1, h2⟩ := h
      subst h1
      subst h2
      have e0 : x0 / res * res = x0 := by field_simp
      have e1 : x1 / res * res = x1 := by field_simp
      have hf_lo := sub_one_lt_floor_maybeInt (x0 / res) tol (by linarith)
      have hf_hi := floor_maybeInt_le (x0 / res) tol ht
      have hc_lo := le_ceil_maybeInt (x1 / res) tol ht
      have hc_hi := ceil_maybeInt_lt_add_one (x1 / res) tol (by linarith)
      generalize (maybeInt (x0 / res) tol).floor = i0 at *
      generalize (maybeInt (x1 / res) tol).ceil = i1 at *
      have hq : 1 ≤ x1 / res - x0 / res := by
        rw [← sub_div, le_div_iff₀ hres']
        linarith
      have hdiff : (0 : Rat) < ((i1 - i0 : Int) : Rat) := by
        push_cast
        linarith
      have hdiff' : 1 ≤ i1 - i0 := by
        have : (0 : Int) < i1 - i0 := by exact_mod_cast hdiff
        omega
      have hmax : max 1 (i1 - i0) = i1 - i0 := max_eq_right hdiff'
      rw [hmax]
      constructor
      · have := mul_lt_mul_of_pos_right hf_lo hres'
        nlinarith
      · have := mul_lt_mul_of_pos_right hc_hi hres'
        push_cast
        nlinarith

/-- `snap_grid` with a snapping offset, span ≥ one pixel, `tol < ½`: the returned origin (lower edge for
`res > 0`, upper edge for `res < 0`) is less than one pixel away from the corresponding requested edge,
on the outside by less than a pixel and on the inside by at most `tol` of a pixel. -/
theorem snapGrid_origin_displacement (x0 x1 res o tol tx : Rat) (n : Int) (ht : 0 ≤ tol) (ht2 : tol < 1 / 2)
    (hspan : rabs res ≤ x1 - x0) (h : snapGrid x0 x1 res (some o) tol = .ok (tx, n)) :
    (0 < res → x0 - res < tx ∧ tx ≤ x0 + tol * res) ∧
    (res < 0 → x1 - tol * (-res) ≤ tx ∧ tx < x1 + (-res)) := by
  have hx : x0 ≤ x1 := le_trans (by linarith [rabs_nonneg res]) (by linarith : x0 + rabs res ≤ x1)
  obtain ⟨hlo, hhi, _, _⟩ := snapGrid_spec x0 x1 res tol tx (some o) n ht hx h
  unfold snapGrid at h
  simp only at h
  split at h
  · cases h
  · split at h
    · cases h
    · rename_i tx' n' hs
      simp only [Except.ok.injEq, Prod.mk.injEq] at h
      obtain ⟨h1, h2⟩ := h
      subst h1; subst h2
      unfold snapEdge at hs
      split at hs
      · cases hs
      · split at hs
        · rename_i hpos
          have hm := snapEdgePos_minimal _ _ _ _ _ _ ht ht2 (by rw [rabs_of_pos hpos] at hspan; linarith) hs
          refine ⟨fun _ => ?_, fun hneg => absurd hpos (by linarith)⟩
          simp only [gridLo, hpos, if_true, rabs_of_pos hpos] at hlo
          rw [rabs_of_pos hpos] at hm ⊢
          exact ⟨by linarith [hm.1], hlo⟩
        · rename_i hnpos
          split at hs
          · cases hs
          · rename_i tx'' n'' hs'
            simp only [Except.ok.injEq, Prod.mk.injEq] at hs
            obtain ⟨h1, h2⟩ := hs
            subst h1; subst h2
            refine ⟨fun hpos => absurd hpos hnpos, fun hneg => ?_⟩
            have hm := snapEdgePos_minimal _ _ _ _ _ _ ht ht2 (by rw [rabs_of_neg hneg] at hspan; linarith) hs'
            simp only [gridHi, hnpos, if_false, rabs_of_neg hneg] at hhi
            rw [rabs_of_neg hneg] at hm ⊢
            exact ⟨hhi, by linarith [hm.2]⟩

/-! ### `argmaxFirst` -/

theorem argmaxFirst_spec (l : List (Nat × Rat)) (c : Nat × Rat) (h : argmaxFirst l = some c) :
    c ∈ l ∧ ∀ x ∈ l, x.2 ≤ c.2 := by
  induction l generalizing c with
  | nil => simp [argmaxFirst] at h
  | cons x xs ih =>
    simp only [argmaxFirst] at h
    cases hxs : argmaxFirst xs with
    | none =>
      rw [hxs] at h
      simp only [Option.some.injEq] at h
      subst h
      have : xs = [] := by
        cases xs with
        | nil => rfl
        | cons y ys =>
          simp only [argmaxFirst] at hxs
          cases h' : argmaxFirst ys <;> simp [h'] at hxs <;> split at hxs <;> cases hxs
      subst this
      simp
    | some y =>
      rw [hxs] at h
      obtain ⟨hy1, hy2⟩ := ih y hxs
      simp only at h
      split at h
      · rename_i hlt
        simp only [Option.some.injEq] at h
        subst h
        refine ⟨List.mem_cons_of_mem _ hy1, ?_⟩
        intro z hz
        rcases List.mem_cons.mp hz with rfl | hz
        · exact le_of_lt hlt
        · exact hy2 z hz
      · rename_i hnlt
        simp only [Option.some.injEq] at h
        subst h
        refine ⟨List.mem_cons_self, ?_⟩
        intro z hz
        rcases List.mem_cons.mp hz with rfl | hz
        · exact le_refl _
        · exact le_trans (hy2 z hz) (not_lt.mp hnlt)

end OdcGeo.C11
