/- Helper lemmas for the glue model `OdcGeo.Model.C03Top`. -/
import OdcGeo.Model.C03Top
import OdcGeo.Lemmas.C03
import Mathlib.Tactic.Linarith
import Mathlib.Tactic.Ring
import Mathlib.Tactic.FieldSimp
import Mathlib.Tactic.LinearCombination
import Mathlib.Algebra.Order.Field.Rat
namespace OdcGeo.C03
open OdcGeo.C17

theorem rws_cols (a b d e n h σ : Rat) (hn : n ≠ 0) (hh : h ≠ 0) (hroot : n * n = a * a + d * d)
    (hσ : h * n = σ * (a * e - b * d)) (hσ2 : σ * σ = 1) :
    a * (-((a * b + d * e) / n) / (n * h)) + b / h = -σ * d / n ∧
    d * (-((a * b + d * e) / n) / (n * h)) + e / h = σ * a / n := by
  have hdet : a * e - b * d = σ * (h * n) := by
    have : σ * (h * n) = σ * σ * (a * e - b * d) := by rw [hσ]; ring
    rw [this, hσ2]; ring
  constructor
  · have e1 : a * (-((a * b + d * e) / n) / (n * h)) + b / h = (b * (n * n) - a * (a * b + d * e)) / (n * n * h) := by
      field_simp; ring
    have e2 : b * (n * n) - a * (a * b + d * e) = -d * (σ * (h * n)) := by rw [hroot, ← hdet]; ring
    rw [e1, e2]; field_simp
  · have e1 : d * (-((a * b + d * e) / n) / (n * h)) + e / h = (e * (n * n) - d * (a * b + d * e)) / (n * n * h) := by
      field_simp; ring
    have e2 : e * (n * n) - d * (a * b + d * e) = a * (σ * (h * n)) := by rw [hroot, ← hdet]; ring
    rw [e1, e2]; field_simp

/-- the sign of the determinant -/
def sgn (x : Rat) : Rat := if x < 0 then -1 else 1

theorem sgn_sq (x : Rat) : sgn x * sgn x = 1 := by unfold sgn; split_ifs <;> norm_num
theorem rabs_eq_sgn_mul (x : Rat) : rabs x = sgn x * x := by unfold rabs sgn; split_ifs <;> ring

theorem rws_second_col (A : Aff) (n : Rat) (hn : 0 < n) (hroot : n * n = A.a * A.a + A.d * A.d) (hdet : A.det ≠ 0) :
    rwsR12 A n = -(sgn A.det) * A.d / n ∧ rwsR22 A n = sgn A.det * A.a / n := by
  have hn0 : n ≠ 0 := ne_of_gt hn
  have hh : rwsH A n ≠ 0 := by
    unfold rwsH
    apply div_ne_zero _ hn0
    rw [rabs_eq_sgn_mul]; apply mul_ne_zero _ hdet
    unfold sgn; split_ifs <;> norm_num
  have := rws_cols A.a A.b A.d A.e n (rwsH A n) (sgn A.det) hn0 hh hroot
    (by unfold rwsH; rw [rabs_eq_sgn_mul]; unfold Aff.det; field_simp) (sgn_sq _)
  exact this

theorem rwsFlip_iff (A : Aff) (n : Rat) (hn : 0 < n) (hroot : n * n = A.a * A.a + A.d * A.d) (hdet : A.det ≠ 0) :
    rwsFlip A n = decide (A.det < 0) := by
  obtain ⟨c1, c2⟩ := rws_second_col A n hn hroot hdet
  have hn0 : n ≠ 0 := ne_of_gt hn
  unfold rwsFlip
  rw [c1, c2]
  have : A.a / n * (sgn A.det * A.a / n) - -sgn A.det * A.d / n * (A.d / n) = sgn A.det := by
    have : A.a / n * (sgn A.det * A.a / n) - -sgn A.det * A.d / n * (A.d / n) = sgn A.det * ((A.a * A.a + A.d * A.d) / (n * n)) := by
      field_simp; ring
    rw [this, ← hroot]; field_simp
  rw [this]
  unfold sgn
  by_cases h : A.det < 0 <;> simp [h]

/-- closed form of `decompose_rws` -/
theorem decomposeRWS_closed (A : Aff) (n : Rat) (hn : 0 < n) (hroot : n * n = A.a * A.a + A.d * A.d)
    (hdet : A.det ≠ 0) :
    decomposeRWS A n = .ok ⟨⟨A.a / n, -A.d / n, A.c, A.d / n, A.a / n, A.f⟩,
      ⟨1, (A.a * A.b + A.d * A.e) / A.det, 0, 0, 1, 0⟩, ⟨n, 0, 0, 0, A.det / n, 0⟩⟩ := by
  have hn0 : n ≠ 0 := ne_of_gt hn
  obtain ⟨c1, c2⟩ := rws_second_col A n hn hroot hdet
  have hf := rwsFlip_iff A n hn hroot hdet
  have hs : (if rwsFlip A n = true then (-1 : Rat) else 1) = sgn A.det := by
    rw [hf]; unfold sgn; by_cases h : A.det < 0 <;> simp [h]
  have hh : sgn A.det * rwsH A n = A.det / n := by
    unfold rwsH; rw [rabs_eq_sgn_mul, ← mul_div_assoc, ← mul_assoc, sgn_sq, one_mul]
  have hh0 : A.det / n ≠ 0 := div_ne_zero hdet hn0
  unfold decomposeRWS
  rw [if_neg (by rintro (h | h); exact hn0 h; exact hdet h)]
  simp only [hs, hh, c1, c2]
  congr 2
  · congr 1
    · have := sgn_sq A.det
      field_simp
      linear_combination (-A.d) * this
    · have := sgn_sq A.det
      field_simp
      linear_combination (A.a) * this
  · congr 1
    · field_simp
    · unfold rwsM; field_simp
    · field_simp
end OdcGeo.C03
