/- Helper lemmas for C20, part 4: closed form of the step-by-step `decompose_rws` model. -/
import OdcGeo.Lemmas.C20c

namespace OdcGeo.C20

theorem rws_pn {a b d e n p : Rat} (hn : 0 < n) (hn2 : n * n = a * a + d * d)
    (hp2 : p * p = (b * b + e * e) - ((b * a + e * d) / n) ^ 2) :
    (p * n) * (p * n) = (a * e - b * d) * (a * e - b * d) := by
  have hne : n ≠ 0 := ne_of_gt hn
  have h1 : p * p * (n * n) = (b * b + e * e) * (n * n) - (b * a + e * d) ^ 2 := by
    rw [hp2]; field_simp
  have : (p * n) * (p * n) = p * p * (n * n) := by ring
  rw [this, h1, hn2]; ring

/-- `A @ inv(WS)` with `WS = [[n, m], [0, p]]`, `m = (ba+ed)/n`, when `p·n = s·det`, `s = ±1`. -/
theorem rws_R0 {a b d e n p s : Rat} (hn : 0 < n) (hn2 : n * n = a * a + d * d) (hp : 0 < p)
    (hs : s * s = 1) (hpn : p * n = s * (a * e - b * d)) :
    m2 a b d e * m2inv (m2 n ((b * a + e * d) / n) 0 p) =
      m2 (a / n) (s * (-d / n)) (d / n) (s * (a / n)) := by
  have hne : n ≠ 0 := ne_of_gt hn
  have hpe : p ≠ 0 := ne_of_gt hp
  have hnp : n * p ≠ 0 := mul_ne_zero hne hpe
  simp only [m2, m2inv, Aff.mul_def, Aff.mul, Aff.det, mul_zero, sub_zero, neg_zero, zero_div, add_zero]
  ext <;> simp only [] <;> field_simp
  · linear_combination b * hn2 + (d * s) * hpn + (d * (a * e - b * d)) * hs
  · linear_combination e * hn2 - (a * s) * hpn - (a * (a * e - b * d)) * hs

/-- Closed form of the step-by-step model: `R = [[a,-d],[d,a]]/n`, `W = [[1,(ab+de)/det],[0,1]]`,
`S = diag(n, det/n)`. -/
theorem decomposeRws2_closed (A : Aff) (n p : Rat) (hdet : A.det ≠ 0) (hn : 0 < n)
    (hn2 : n * n = A.a * A.a + A.d * A.d) (hp : 0 < p)
    (hp2 : p * p = (A.b * A.b + A.e * A.e) - ((A.b * A.a + A.e * A.d) / n) ^ 2) :
    decomposeRws2 A n p =
      ⟨m2 (A.a / n) (-A.d / n) (A.d / n) (A.a / n), m2 1 ((A.a * A.b + A.d * A.e) / A.det) 0 1,
       m2 n 0 0 (A.det / n)⟩ := by
  obtain ⟨a, b, c, d, e, f⟩ := A
  simp only [Aff.det] at hdet hn2 hp2 ⊢
  have hne : n ≠ 0 := ne_of_gt hn
  have hpe : p ≠ 0 := ne_of_gt hp
  have hG : (m2T (m2 a b d e) * m2 a b d e).d = b * a + e * d := by
    simp [m2, m2T, Aff.mul_def, Aff.mul]
  have hnn : (a / n) * (a / n) + (d / n) * (d / n) = 1 := by
    field_simp; linarith
  rcases mul_self_eq_mul_self_iff.mp (rws_pn hn hn2 hp2) with h | h
  · -- det > 0, no flip
    have hR := rws_R0 (a := a) (b := b) (d := d) (e := e) (s := 1) hn hn2 hp (by norm_num) (by rw [h]; ring)
    have hdetR : ¬ (m2 (a / n) (1 * (-d / n)) (d / n) (1 * (a / n))).det < 0 := by
      simp only [m2, Aff.det]
      have : a / n * (1 * (a / n)) - 1 * (-d / n) * (d / n) = 1 := by linear_combination hnn
      rw [this]; norm_num
    unfold decomposeRws2
    simp only [hG, hR, decide_eq_true_eq, hdetR, if_false]
    have hp' : p = (a * e - b * d) / n := by field_simp; linarith
    simp only [m2, Aff.mul_def, Aff.mul, RWS.mk.injEq]
    refine ⟨by ext <;> simp, ?_, by ext <;> simp [hp']⟩
    ext <;> simp [hne, hpe]
    all_goals (rw [hp']; field_simp)
  · -- det < 0: flip the last column of R and the last row of WS
    have hR := rws_R0 (a := a) (b := b) (d := d) (e := e) (s := -1) hn hn2 hp (by norm_num) (by rw [h]; ring)
    have hdetR : (m2 (a / n) (-1 * (-d / n)) (d / n) (-1 * (a / n))).det < 0 := by
      simp only [m2, Aff.det]
      have : a / n * (-1 * (a / n)) - -1 * (-d / n) * (d / n) = -1 := by linear_combination -hnn
      rw [this]; norm_num
    unfold decomposeRws2
    simp only [hG, hR, decide_eq_true_eq, hdetR, if_true]
    have hp' : p = -(a * e - b * d) / n := by field_simp; linarith
    simp only [m2, Aff.mul_def, Aff.mul, RWS.mk.injEq]
    refine ⟨by ext <;> simp, ?_, by ext <;> simp [hp']; ring⟩
    ext <;> simp [hne, hpe]
    all_goals (rw [hp']; field_simp)

end OdcGeo.C20
