/- Vocabulary for Props/C14Band3.lean (explicit exclusion band of a probe coordinate under binary64). -/
import OdcGeo.Model.C14
import OdcGeo.Lemmas.C14FlBound
namespace OdcGeo.C14

/-- the probe coordinate `p` (exact value; the code rounds it to `fl64 p` before the lookup) keeps clear of the edges of its bin:
    (1) `p` itself by the rounding error of the coordinate, `(2^-53·|p| + 2^-1075)/sz` in tile units, and
    (2) the rounded coordinate by the band of the rounded lookup (`bin_transfer_band_fl64`). -/
def OutsideBand (b : Bin1D) (p : Rat) : Prop :=
  ((1 / 2 ^ 53 * |p| + pow2 (-1074) / 2) / b.sz ≤ (p - b.origin) / b.sz - (((p - b.origin) / b.sz).floor : Rat) ∧
   (1 / 2 ^ 53 * |p| + pow2 (-1074) / 2) / b.sz < (((p - b.origin) / b.sz).floor : Rat) + 1 - (p - b.origin) / b.sz) ∧
  ((2 * (1 / 2 ^ 53) + 1 / 2 ^ 53 * (1 / 2 ^ 53)) * |(fl64 p - b.origin) / b.sz| +
      pow2 (-1074) / 2 * ((1 + 1 / 2 ^ 53) / b.sz + 1) ≤
        (fl64 p - b.origin) / b.sz - (((fl64 p - b.origin) / b.sz).floor : Rat) ∧
   (2 * (1 / 2 ^ 53) + 1 / 2 ^ 53 * (1 / 2 ^ 53)) * |(fl64 p - b.origin) / b.sz| +
      pow2 (-1074) / 2 * ((1 + 1 / 2 ^ 53) / b.sz + 1) <
        (((fl64 p - b.origin) / b.sz).floor : Rat) + 1 - (fl64 p - b.origin) / b.sz)

end OdcGeo.C14
